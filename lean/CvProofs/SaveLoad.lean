/-
  Proofs for the save / load model (`CvModel/SaveLoad.lean`), property C18.
-/
import CvModel.SaveLoad
import CvModel.Paths
import Std.Data.String.ToNat

namespace Cv.SaveLoad

/-! ### string keys -/

theorem toString_nat (i : Nat) : toString i = Nat.repr i := rfl

theorem layerKey_toList (i : Nat) : (layerKey i).toList = "layer__".toList ++ (Nat.repr i).toList := by
  unfold layerKey
  rw [String.toList_append]
  rfl

theorem hashKey_toList (i : Nat) :
    (hashKey i).toList = "edges_list_hashes__".toList ++ (Nat.repr i).toList := by
  unfold hashKey
  rw [String.toList_append]
  rfl

theorem parseLayerKey_layerKey (i : Nat) : parseLayerKey (layerKey i) = some i := by
  unfold parseLayerKey layerKey
  have h1 : ("layer__" ++ toString i).startsWith "layer__" = true := by
    rw [String.startsWith_string_iff]
    simp
  rw [if_pos h1]
  rw [← String.Slice.toNat?_copy]
  have : (("layer__" ++ toString i).drop 7).copy = Nat.repr i := by
    apply String.toList_injective
    rw [String.toList_copy_drop]
    simp
  rw [this]
  exact Nat.toNat?_repr i

theorem parseLayerKey_of_not_prefix (k : String) (h : ¬ "layer__".toList <+: k.toList) :
    parseLayerKey k = none := by
  unfold parseLayerKey
  rw [if_neg]
  rw [Bool.not_eq_true, String.startsWith_string_eq_false_iff]
  exact h

theorem parseLayerKey_hashKey (i : Nat) : parseLayerKey (hashKey i) = none := by
  apply parseLayerKey_of_not_prefix
  rw [hashKey_toList]
  simp

theorem hashKey_inj {i j : Nat} : hashKey i = hashKey j ↔ i = j := by
  constructor
  · intro h
    have := congrArg String.toList h
    rw [hashKey_toList, hashKey_toList, List.append_cancel_left_eq] at this
    exact Nat.repr_inj.1 (String.toList_injective this)
  · rintro rfl; rfl

theorem layerKey_ne_hashKey (i j : Nat) : layerKey i ≠ hashKey j := by
  intro h
  have := congrArg String.toList h
  rw [hashKey_toList, layerKey_toList] at this
  simp at this

theorem layerKey_ne_of_not_prefix (i : Nat) (k : String) (h : ¬ "layer__".toList <+: k.toList) :
    layerKey i ≠ k := by
  rintro rfl
  apply h
  rw [layerKey_toList]
  exact List.prefix_append _ _

theorem hashKey_ne_of_not_prefix (i : Nat) (k : String) (h : ¬ "edges_list_hashes__".toList <+: k.toList) :
    hashKey i ≠ k := by
  rintro rfl
  apply h
  rw [hashKey_toList]
  exact List.prefix_append _ _

/-! ### the store -/

theorem get_nil (k : String) : get [] k = none := rfl

theorem get_cons (k' : String) (v : Val) (s : Store) (k : String) :
    get ((k', v) :: s) k = if k' = k then some v else get s k := by
  unfold get
  rw [List.find?_cons]
  by_cases h : k' = k
  · simp [h]
  · have : (k' == k) = false := by simpa using h
    simp [h, this]

theorem get_append (a b : Store) (k : String) : get (a ++ b) k = (get a k).or (get b k) := by
  unfold get
  rw [List.find?_append]
  cases List.find? (fun p => p.1 == k) a <;> simp

theorem get_eq_none_of_forall (s : Store) (k : String) (h : ∀ p ∈ s, p.1 ≠ k) : get s k = none := by
  unfold get
  rw [Option.map_eq_none_iff, List.find?_eq_none]
  intro p hp
  simpa using h p hp

/-- the four segments of the saved file -/
def hdPart (r : Res) : Store :=
  [("bfs_completed", .flag r.completed),
   ("layer_sizes", .ints [r.layerSizes.length] (r.layerSizes.map Int.ofNat))]
def layersPart (r : Res) : Store :=
  r.layers.map (fun p => (layerKey p.1, .ints [p.2.length, r.central.length] p.2.flatten))
def hashesPart (r : Res) : Store :=
  (List.zip (List.range r.layersHashes.length) r.layersHashes).map
    (fun p => (hashKey p.1, .ints [p.2.length] p.2))
def edgesVal (r : Res) : Val :=
  match r.edges with
  | some es => .ints [es.length, 2] (es.flatMap fun e => [e.1, e.2])
  | none => .emptyMarker
def tlPart (r : Res) : Store :=
  [("edges_list_hashes", edgesVal r),
   ("graph__generators", .ints [r.gens.length, r.central.length] (r.gens.flatten.map Int.ofNat)),
   ("graph__generator_names", .strs r.genNames),
   ("graph__central_state", .ints [r.central.length] (r.central.map Int.ofNat)),
   ("graph__name", .str r.name)]

theorem save_eq (r : Res) : save r = hdPart r ++ layersPart r ++ hashesPart r ++ tlPart r := rfl

theorem get_layersPart_none (r : Res) (k : String) (h : ¬ "layer__".toList <+: k.toList) :
    get (layersPart r) k = none := by
  apply get_eq_none_of_forall
  intro p hp
  simp only [layersPart, List.mem_map] at hp
  obtain ⟨q, _, rfl⟩ := hp
  exact layerKey_ne_of_not_prefix _ _ h

theorem get_hashesPart_none (r : Res) (k : String) (h : ¬ "edges_list_hashes__".toList <+: k.toList) :
    get (hashesPart r) k = none := by
  apply get_eq_none_of_forall
  intro p hp
  simp only [hashesPart, List.mem_map] at hp
  obtain ⟨q, _, rfl⟩ := hp
  exact hashKey_ne_of_not_prefix _ _ h

theorem get_save_completed (r : Res) : get (save r) "bfs_completed" = some (.flag r.completed) := by
  simp [save_eq, hdPart, get_cons]

theorem get_save_sizes (r : Res) :
    get (save r) "layer_sizes" = some (.ints [r.layerSizes.length] (r.layerSizes.map Int.ofNat)) := by
  simp [save_eq, hdPart, get_cons]

theorem get_save_tl (r : Res) (k : String) (h1 : ¬ "layer__".toList <+: k.toList)
    (h2 : ¬ "edges_list_hashes__".toList <+: k.toList) (h3 : "bfs_completed" ≠ k) (h4 : "layer_sizes" ≠ k) :
    get (save r) k = get (tlPart r) k := by
  rw [save_eq, get_append, get_append, get_append, get_layersPart_none r k h1, get_hashesPart_none r k h2]
  simp [hdPart, get_cons, get_nil, h3, h4]

theorem get_save_edges (r : Res) : get (save r) "edges_list_hashes" = some (edgesVal r) := by
  rw [get_save_tl r _ (by simp) (by simp) (by decide) (by decide)]
  simp [tlPart, get_cons]

theorem get_save_gens (r : Res) : get (save r) "graph__generators" =
    some (.ints [r.gens.length, r.central.length] (r.gens.flatten.map Int.ofNat)) := by
  rw [get_save_tl r _ (by simp) (by simp) (by decide) (by decide)]
  simp [tlPart, get_cons]

theorem get_save_names (r : Res) : get (save r) "graph__generator_names" = some (.strs r.genNames) := by
  rw [get_save_tl r _ (by simp) (by simp) (by decide) (by decide)]
  simp [tlPart, get_cons]

theorem get_save_central (r : Res) : get (save r) "graph__central_state" =
    some (.ints [r.central.length] (r.central.map Int.ofNat)) := by
  rw [get_save_tl r _ (by simp) (by simp) (by decide) (by decide)]
  simp [tlPart, get_cons]

theorem get_save_name (r : Res) : get (save r) "graph__name" = some (.str r.name) := by
  rw [get_save_tl r _ (by simp) (by simp) (by decide) (by decide)]
  simp [tlPart, get_cons]

/-! ### hash keys -/

theorem get_zip_range' (F : List Int → Val) (hs : List (List Int)) (s i : Nat) :
    get ((List.zip (List.range' s hs.length) hs).map (fun p => (hashKey p.1, F p.2))) (hashKey i) =
      if s ≤ i then (hs[i - s]?).map F else none := by
  induction hs generalizing s with
  | nil => simp [get_nil]
  | cons h t ih =>
    simp only [List.length_cons, List.range'_succ, List.zip_cons_cons, List.map_cons, get_cons, hashKey_inj]
    rw [ih (s+1)]
    by_cases h1 : s = i
    · subst h1; simp
    · rw [if_neg h1]
      by_cases h2 : s + 1 ≤ i
      · rw [if_pos h2, if_pos (by omega)]
        have : i - s = (i - (s+1)) + 1 := by omega
        rw [this, List.getElem?_cons_succ]
      · rw [if_neg h2, if_neg (by omega)]

theorem get_hashesPart (r : Res) (i : Nat) :
    get (hashesPart r) (hashKey i) = (r.layersHashes[i]?).map (fun h => .ints [h.length] h) := by
  unfold hashesPart
  rw [List.range_eq_range']
  have := get_zip_range' (fun h => Val.ints [h.length] h) r.layersHashes 0 i
  simpa using this

theorem get_save_hashKey (r : Res) (i : Nat) :
    get (save r) (hashKey i) = (r.layersHashes[i]?).map (fun h => .ints [h.length] h) := by
  rw [save_eq, get_append, get_append, get_append, get_hashesPart]
  have h1 : get (hdPart r) (hashKey i) = none := by
    apply get_eq_none_of_forall
    intro p hp
    simp only [hdPart, List.mem_cons, List.not_mem_nil, or_false] at hp
    rcases hp with rfl | rfl <;> exact (hashKey_ne_of_not_prefix i _ (by simp)).symm
  have h2 : get (layersPart r) (hashKey i) = none := by
    apply get_eq_none_of_forall
    intro p hp
    simp only [layersPart, List.mem_map] at hp
    obtain ⟨q, _, rfl⟩ := hp
    exact layerKey_ne_hashKey _ _
  have h3 : get (tlPart r) (hashKey i) = none := by
    apply get_eq_none_of_forall
    intro p hp
    simp only [tlPart, List.mem_cons, List.not_mem_nil, or_false] at hp
    rcases hp with rfl | rfl | rfl | rfl | rfl <;> exact (hashKey_ne_of_not_prefix i _ (by simp)).symm
  rw [h1, h2, h3]
  simp

/-! ### the hash loop of the loader -/

/-- one iteration of `for i in range(len(layer_sizes)): … if key not in f: break` -/
def hstep (look : Nat → Option Val) (acc : List (List Int) × Bool) (i : Nat) : List (List Int) × Bool :=
  if acc.2 then acc else
  match look i with
  | some (.ints _ h) => (acc.1 ++ [h], false)
  | _ => (acc.1, true)

theorem hloop (hs : List (List Int)) (look : Nat → Option Val)
    (hl : ∀ i, look i = (hs[i]?).map (fun h => .ints [h.length] h)) (k s : Nat) (b : Bool)
    (hb : b = true → hs.length ≤ s) :
    ((List.range' s k).foldl (hstep look) (hs.take s, b)).1 = hs.take (s + k) := by
  induction k generalizing s b with
  | zero => simp
  | succ k ih =>
    rw [List.range'_succ, List.foldl_cons]
    have key : ∃ b', hstep look (hs.take s, b) s = (hs.take (s+1), b') ∧ (b' = true → hs.length ≤ s + 1) := by
      unfold hstep
      cases b with
      | true =>
        have := hb rfl
        refine ⟨true, ?_, by intro; omega⟩
        simp only [if_true]
        rw [List.take_of_length_le this, List.take_of_length_le (by omega)]
      | false =>
        simp only [Bool.false_eq_true, if_false]
        rw [hl s]
        by_cases hlt : s < hs.length
        · refine ⟨false, ?_, by simp⟩
          rw [List.getElem?_eq_getElem hlt]
          simp only [Option.map_some]
          rw [List.take_succ_eq_append_getElem hlt]
        · refine ⟨true, ?_, by intro; omega⟩
          rw [List.getElem?_eq_none (by omega)]
          simp only [Option.map_none]
          rw [List.take_of_length_le (by omega), List.take_of_length_le (by omega)]
    obtain ⟨b', h1, h2⟩ := key
    rw [h1, ih (s+1) b' h2]
    congr 1; omega

theorem hloop_range (hs : List (List Int)) (look : Nat → Option Val)
    (hl : ∀ i, look i = (hs[i]?).map (fun h => .ints [h.length] h)) (N : Nat) :
    ((List.range N).foldl (hstep look) ([], false)).1 = hs.take N := by
  rw [List.range_eq_range']
  have := hloop hs look hl N 0 false (by simp)
  rw [List.take_zero] at this
  rw [this, Nat.zero_add]

/-! ### reshaping -/

theorem chunk_flatten (w : Nat) (rows : List (List Int)) (h : ∀ row ∈ rows, row.length = w) :
    chunk w rows.length rows.flatten = rows := by
  induction rows with
  | nil => rfl
  | cons a t ih =>
    have ha : a.length = w := h a (by simp)
    simp only [List.length_cons, List.flatten_cons, chunk]
    rw [List.take_left' ha, List.drop_left' ha, ih (fun row hr => h row (by simp [hr]))]

/-! ### the stored layers -/

theorem filterMap_eq_self_of_forall {α : Type} (f : α → Option α) (l : List α) (h : ∀ x ∈ l, f x = some x) :
    l.filterMap f = l := by
  induction l with
  | nil => rfl
  | cons a t ih =>
    rw [List.filterMap_cons, h a (by simp)]
    simp only
    rw [ih (fun x hx => h x (by simp [hx]))]

/-- what the loader makes of one entry of the file -/
def layerOf (p : String × Val) : Option (Nat × List (List Int)) :=
  match parseLayerKey p.1, p.2 with
  | some i, .ints [rows, w] d => some (i, chunk w rows d)
  | _, _ => none

theorem layerOf_of_none (k : String) (v : Val) (h : parseLayerKey k = none) : layerOf (k, v) = none := by
  simp [layerOf, h]

theorem filterMap_layerOf_hd (r : Res) : (hdPart r).filterMap layerOf = [] := by
  simp only [hdPart, List.filterMap_cons, List.filterMap_nil]
  rw [layerOf_of_none _ _ (parseLayerKey_of_not_prefix _ (by simp)),
    layerOf_of_none _ _ (parseLayerKey_of_not_prefix _ (by simp))]

theorem filterMap_layerOf_tl (r : Res) : (tlPart r).filterMap layerOf = [] := by
  simp only [tlPart, List.filterMap_cons, List.filterMap_nil]
  rw [layerOf_of_none _ _ (parseLayerKey_of_not_prefix _ (by simp)),
    layerOf_of_none _ _ (parseLayerKey_of_not_prefix _ (by simp)),
    layerOf_of_none _ _ (parseLayerKey_of_not_prefix _ (by simp)),
    layerOf_of_none _ _ (parseLayerKey_of_not_prefix _ (by simp)),
    layerOf_of_none _ _ (parseLayerKey_of_not_prefix _ (by simp))]

theorem filterMap_layerOf_hashes (r : Res) : (hashesPart r).filterMap layerOf = [] := by
  rw [List.filterMap_eq_nil_iff]
  intro p hp
  simp only [hashesPart, List.mem_map] at hp
  obtain ⟨q, _, rfl⟩ := hp
  exact layerOf_of_none _ _ (parseLayerKey_hashKey _)

/-- a stored layer after the trip through the file: flattened, then cut into rows of the state size -/
def relayer (n : Nat) (p : Nat × List (List Int)) : Nat × List (List Int) :=
  (p.1, chunk n p.2.length p.2.flatten)

theorem filterMap_layerOf_layers (r : Res) :
    (layersPart r).filterMap layerOf = r.layers.map (relayer r.central.length) := by
  unfold layersPart
  rw [List.filterMap_map]
  have : (layerOf ∘ fun p : Nat × List (List Int) =>
        (layerKey p.1, Val.ints [p.2.length, r.central.length] p.2.flatten)) =
      some ∘ relayer r.central.length := by
    funext p
    simp only [Function.comp, layerOf, parseLayerKey_layerKey, relayer]
  rw [this, List.filterMap_eq_map]

theorem filterMap_layerOf_save (r : Res) :
    (save r).filterMap layerOf = r.layers.map (relayer r.central.length) := by
  rw [save_eq, List.filterMap_append, List.filterMap_append, List.filterMap_append, filterMap_layerOf_hd,
    filterMap_layerOf_tl, filterMap_layerOf_hashes, filterMap_layerOf_layers r]
  simp

/-! ### the round trip -/

theorem edges_roundtrip (es : List (Int × Int)) :
    (chunk 2 es.length (es.flatMap fun e => [e.1, e.2])).map (fun r => (r.getD 0 0, r.getD 1 0)) = es := by
  have h1 : (es.flatMap fun e => [e.1, e.2]) = (es.map fun e => [e.1, e.2]).flatten := by
    rw [List.flatMap_def]
  have h2 := chunk_flatten 2 (es.map fun e => [e.1, e.2]) (by
    intro row hr
    simp only [List.mem_map] at hr
    obtain ⟨e, _, rfl⟩ := hr
    rfl)
  rw [List.length_map] at h2
  rw [h1, h2, List.map_map]
  have : ((fun r : List Int => (r.getD 0 0, r.getD 1 0)) ∘ fun e : Int × Int => [e.1, e.2]) = id := by
    funext e
    rfl
  rw [this, List.map_id]

theorem gens_roundtrip (n : Nat) (gens : List (List Nat)) (h : ∀ g ∈ gens, g.length = n) :
    (chunk n gens.length (gens.flatten.map Int.ofNat)).map (·.map Int.toNat) = gens := by
  have h1 : gens.flatten.map Int.ofNat = (gens.map (·.map Int.ofNat)).flatten := by
    rw [List.map_flatten]
  have h2 := chunk_flatten n (gens.map (·.map Int.ofNat)) (by
    intro row hr
    simp only [List.mem_map] at hr
    obtain ⟨g, hg, rfl⟩ := hr
    simpa using h g hg)
  rw [List.length_map] at h2
  rw [h1, h2, List.map_map]
  simp [Function.comp_def]

theorem res_ext (a b : Res) (h1 : a.completed = b.completed) (h2 : a.layerSizes = b.layerSizes)
    (h3 : a.layers = b.layers) (h4 : a.layersHashes = b.layersHashes) (h5 : a.edges = b.edges)
    (h6 : a.gens = b.gens) (h7 : a.genNames = b.genNames) (h8 : a.central = b.central) (h9 : a.name = b.name) :
    a = b := by
  cases a; cases b; simp_all

/-- what `load ∘ save` does to an ARBITRARY result: stored layers and generators are re-cut into rows of the
state size, and the hash list is cut at `len(layer_sizes)` -/
def renorm (r : Res) : Res :=
  { r with
    layers := r.layers.map (relayer r.central.length)
    layersHashes := r.layersHashes.take r.layerSizes.length
    gens := (chunk r.central.length r.gens.length (r.gens.flatten.map Int.ofNat)).map (·.map Int.toNat) }

/-- exact description of the round trip, no hypotheses -/
theorem load_save_eq (r : Res) : load (save r) = some (renorm r) := by
  unfold load
  rw [get_save_completed, get_save_sizes, get_save_edges, get_save_gens, get_save_names, get_save_central,
    get_save_name]
  simp only
  have hsz : List.map Int.toNat (List.map Int.ofNat r.layerSizes) = r.layerSizes := by
    rw [List.map_map]; simp [Function.comp_def]
  have hce : List.map Int.toNat (List.map Int.ofNat r.central) = r.central := by
    rw [List.map_map]; simp [Function.comp_def]
  have hly : List.filterMap (fun p : String × Val =>
      match parseLayerKey p.fst, p.snd with
      | some i, Val.ints [rows, w] d => some (i, chunk w rows d)
      | _, _ => none) (save r) = r.layers.map (relayer r.central.length) := filterMap_layerOf_save r
  have hhs : (List.foldl (fun (acc : List (List Int) × Bool) i =>
        if acc.snd = true then acc
        else
          match get (save r) (hashKey i) with
          | some (Val.ints _ h) => (acc.fst ++ [h], false)
          | _ => (acc.fst, true))
      ([], false) (List.range (List.map Int.ofNat r.layerSizes).length)).fst =
        r.layersHashes.take r.layerSizes.length := by
    have := hloop_range r.layersHashes (fun i => get (save r) (hashKey i)) (get_save_hashKey r)
      (List.map Int.ofNat r.layerSizes).length
    rw [List.length_map] at this
    rw [List.length_map]
    exact this
  have hed : (match edgesVal r with
      | Val.ints [rows, 2] d => some (List.map (fun r => (r.getD 0 0, r.getD 1 0)) (chunk 2 rows d))
      | _ => none) = r.edges := by
    unfold edgesVal
    cases r.edges with
    | none => rfl
    | some es => simp only; rw [edges_roundtrip]
  exact congrArg some (res_ext _ _ rfl hsz hly hhs hed rfl rfl hce rfl)

theorem renorm_eq_self (r : Res)
    (layersRows : ∀ p ∈ r.layers, ∀ row ∈ p.2, row.length = r.central.length)
    (gensRows : ∀ g ∈ r.gens, g.length = r.central.length)
    (hashesLe : r.layersHashes.length ≤ r.layerSizes.length) : renorm r = r := by
  apply res_ext <;> try rfl
  · show r.layers.map (relayer r.central.length) = r.layers
    have : ∀ p ∈ r.layers, relayer r.central.length p = p := by
      intro p hp
      unfold relayer
      rw [chunk_flatten _ _ (layersRows p hp)]
    rw [List.map_congr_left this, List.map_id']
  · show r.layersHashes.take r.layerSizes.length = r.layersHashes
    exact List.take_of_length_le hashesLe
  · exact gens_roundtrip _ _ gensRows

/-- the round trip with the hypotheses it actually uses -/
theorem load_save_min (r : Res)
    (layersRows : ∀ p ∈ r.layers, ∀ row ∈ p.2, row.length = r.central.length)
    (gensRows : ∀ g ∈ r.gens, g.length = r.central.length)
    (hashesLe : r.layersHashes.length ≤ r.layerSizes.length) : load (save r) = some r := by
  rw [load_save_eq, renorm_eq_self r layersRows gensRows hashesLe]

/-! ### `__eq__` -/

theorem snd_unique_of_nodup_keys {β : Type} (l : List (Nat × β)) (h : (l.map (·.1)).Nodup) (i : Nat) (x y : β)
    (hx : (i, x) ∈ l) (hy : (i, y) ∈ l) : x = y := by
  induction l with
  | nil => simp at hx
  | cons a t ih =>
    simp only [List.map_cons, List.nodup_cons, List.mem_map, not_exists, not_and] at h
    simp only [List.mem_cons] at hx hy
    rcases hx with hx | hx <;> rcases hy with hy | hy
    · rw [← hy] at hx; exact (Prod.mk.inj hx).2
    · exact absurd (by rw [← hx]) (h.1 (i, y) hy)
    · exact absurd (by rw [← hy]) (h.1 (i, x) hx)
    · exact ih h.2 hx hy

/-- the dictionary lookup `b.layers[k]` finds exactly the stored pair when keys are distinct -/
theorem find_layer_of_mem (l : List (Nat × List (List Int))) (h : (l.map (·.1)).Nodup) (i : Nat)
    (L : List (List Int)) (hm : (i, L) ∈ l) : (l.find? fun q => q.1 == i).map (·.2) = some L := by
  have hsome : (l.find? fun q => q.1 == i).isSome := by
    rw [List.find?_isSome]
    exact ⟨(i, L), hm, by simp⟩
  obtain ⟨q, hq⟩ := Option.isSome_iff_exists.1 hsome
  have h1 : q.1 = i := by simpa using List.find?_some hq
  have h2 : q ∈ l := List.mem_of_find?_eq_some hq
  have : q.2 = L := snd_unique_of_nodup_keys l h i q.2 L (by rw [← h1]; exact h2) hm
  rw [hq, Option.map_some, this]

theorem mem_of_find_layer (l : List (Nat × List (List Int))) (i : Nat) (L : List (List Int))
    (h : (l.find? fun q => q.1 == i).map (·.2) = some L) : (i, L) ∈ l := by
  rw [Option.map_eq_some_iff] at h
  obtain ⟨q, hq, rfl⟩ := h
  have h1 : q.1 = i := by simpa using List.find?_some hq
  have h2 : q ∈ l := List.mem_of_find?_eq_some hq
  rw [← h1]; exact h2

/-- the three dictionary conditions of `__eq__` amount to equality of the layer dictionaries -/
theorem layers_cond_iff (a b : List (Nat × List (List Int))) (hb : (b.map (·.1)).Nodup) :
    ((a.map (·.1)).all (fun k => (b.map (·.1)).contains k) = true ∧
     (b.map (·.1)).all (fun k => (a.map (·.1)).contains k) = true ∧
     a.all (fun p => (b.find? fun q => q.1 == p.1).map (·.2) == some p.2) = true) ↔
    (∀ i L, (i, L) ∈ a ↔ (i, L) ∈ b) := by
  simp only [List.all_eq_true, List.contains_iff_mem, List.mem_map, beq_iff_eq, forall_exists_index, and_imp,
    forall_apply_eq_imp_iff₂]
  constructor
  · rintro ⟨_, h4, h5⟩ i L
    constructor
    · intro hm
      exact mem_of_find_layer b i L (h5 (i, L) hm)
    · intro hm
      obtain ⟨p, hp, hpi⟩ := h4 (i, L) hm
      replace hpi : p.1 = i := hpi
      have h1 : (i, p.2) ∈ b := by
        have := mem_of_find_layer b p.1 p.2 (h5 p hp)
        rw [hpi] at this; exact this
      have : p.2 = L := snd_unique_of_nodup_keys b hb i p.2 L h1 hm
      rw [← this, ← hpi]; exact hp
  · intro h
    refine ⟨?_, ?_, ?_⟩
    · intro p hp; exact ⟨p, (h p.1 p.2).1 hp, rfl⟩
    · intro p hp; exact ⟨p, (h p.1 p.2).2 hp, rfl⟩
    · intro p hp; exact find_layer_of_mem b hb p.1 p.2 ((h p.1 p.2).1 hp)

theorem beq_iff' (a b : Res) (hb : (b.layers.map (·.1)).Nodup) :
    beq a b = true ↔ a.completed = b.completed ∧ a.layerSizes = b.layerSizes ∧
      (∀ i L, (i, L) ∈ a.layers ↔ (i, L) ∈ b.layers) ∧
      a.layersHashes = b.layersHashes ∧ a.edges = b.edges ∧ a.gens = b.gens ∧ a.genNames = b.genNames ∧
      a.central = b.central ∧ a.name = b.name := by
  rw [← layers_cond_iff a.layers b.layers hb]
  unfold beq
  simp only [Bool.and_eq_true, beq_iff_eq]
  constructor
  · rintro ⟨⟨⟨⟨⟨⟨⟨⟨⟨⟨h1, h2⟩, h3⟩, h4⟩, h5⟩, h6⟩, h7⟩, h8⟩, h9⟩, h10⟩, h11⟩
    exact ⟨h1, h2, ⟨h3, h4, h5⟩, h6, h7, h8, h9, h10, h11⟩
  · rintro ⟨h1, h2, ⟨h3, h4, h5⟩, h6, h7, h8, h9, h10, h11⟩
    exact ⟨⟨⟨⟨⟨⟨⟨⟨⟨⟨h1, h2⟩, h3⟩, h4⟩, h5⟩, h6⟩, h7⟩, h8⟩, h9⟩, h10⟩, h11⟩

theorem beq_refl' (r : Res) (h : (r.layers.map (·.1)).Nodup) : beq r r = true := by
  rw [beq_iff' r r h]
  simp

theorem beq_symm' (a b : Res) (ha : (a.layers.map (·.1)).Nodup) (hb : (b.layers.map (·.1)).Nodup) :
    beq a b = beq b a := by
  rw [Bool.eq_iff_iff, beq_iff' a b hb, beq_iff' b a ha]
  constructor
  · rintro ⟨h1, h2, h3, h4, h5, h6, h7, h8, h9⟩
    exact ⟨h1.symm, h2.symm, fun i L => (h3 i L).symm, h4.symm, h5.symm, h6.symm, h7.symm, h8.symm, h9.symm⟩
  · rintro ⟨h1, h2, h3, h4, h5, h6, h7, h8, h9⟩
    exact ⟨h1.symm, h2.symm, fun i L => (h3 i L).symm, h4.symm, h5.symm, h6.symm, h7.symm, h8.symm, h9.symm⟩

end Cv.SaveLoad
