/-
  Proofs about the hashing model (`CvModel/Hash.lean`).  Core Lean only; generic (no dependence on CvGen).
-/
import CvModel.Hash
import CvModel.Tensor
import CvProofs.Tensor
namespace Cv.Hash
open Cv

/-! ### logical mask / logical xor-shift -/

theorem getLsbD_logicalMask (k i : Nat) :
    (logicalMask k).getLsbD i = (decide (i < 64) && decide (i < 64 - k)) := by
  simp [logicalMask, BitVec.getLsbD_ofNat]

/-- masking the arithmetic shift with `(1 << (64-k)) - 1` gives the logical shift (for every `k`). -/
theorem sshiftRight_and_logicalMask (k : Nat) (x : W) :
    (x.sshiftRight k) &&& logicalMask k = x >>> k := by
  apply BitVec.eq_of_getLsbD_eq
  intro i hi
  simp only [BitVec.getLsbD_and, getLsbD_logicalMask, BitVec.getLsbD_sshiftRight,
    BitVec.getLsbD_ushiftRight]
  by_cases h : i < 64 - k
  · have h2 : k + i < 64 := by omega
    simp [h, h2, hi]
  · have h2 : ¬ (k + i < 64) := by omega
    have h3 : 64 ≤ k + i := by omega
    simp [h, BitVec.getLsbD_of_ge x (k + i) h3]

theorem eval_xorShrLogical (k : Nat) (x : W) :
    MixStep.eval (.xorShrMasked k (logicalMask k)) x = x ^^^ (x >>> k) := by
  simp [MixStep.eval, sshiftRight_and_logicalMask]

/-- `z = z >>> k` with `1 ≤ k` forces `z = 0`. -/
theorem eq_zero_of_eq_ushiftRight (k : Nat) (hk : 1 ≤ k) (z : W) (h : z = z >>> k) : z = 0#64 := by
  have h1 : z.toNat = z.toNat / 2 ^ k := by
    have := congrArg BitVec.toNat h
    rw [BitVec.toNat_ushiftRight, Nat.shiftRight_eq_div_pow] at this
    exact this
  apply BitVec.eq_of_toNat_eq
  by_cases h0 : z.toNat = 0
  · simpa using h0
  · exfalso
    have hp : 1 < 2 ^ k := Nat.one_lt_two_pow (by omega)
    have := Nat.div_lt_self (Nat.pos_of_ne_zero h0) hp
    omega

theorem xor_eq_zero_imp_eq (x y : W) (h : x ^^^ y = 0#64) : x = y := by
  exact BitVec.xor_eq_zero_iff.mp h

theorem xorShrLogical_injective (k : Nat) (hk : 1 ≤ k) :
    Function.Injective (MixStep.eval (.xorShrMasked k (logicalMask k))) := by
  intro x y h
  simp only [eval_xorShrLogical] at h
  apply xor_eq_zero_imp_eq
  apply eq_zero_of_eq_ushiftRight k hk
  rw [BitVec.ushiftRight_xor_distrib]
  -- x ^^^ y = (x >>> k) ^^^ (y >>> k)
  have h2 : x ^^^ y = (x ^^^ (x >>> k)) ^^^ (y ^^^ (y >>> k)) ^^^ ((x >>> k) ^^^ (y >>> k)) := by
    ext i hi; simp; grind
  rw [h2, h]
  simp

/-! ### multiplication by an invertible constant -/

theorem mul_right_cancel_of_inv (c ci : W) (h : c * ci = 1#64) (x y : W) (hxy : x * c = y * c) : x = y := by
  have := congrArg (· * ci) hxy
  simp only [BitVec.mul_assoc, h, BitVec.mul_one] at this
  exact this

theorem mul_injective (c ci : W) (h : c * ci = 1#64) : Function.Injective (MixStep.eval (.mul c)) := by
  intro x y hxy
  exact mul_right_cancel_of_inv c ci h x y hxy

/-! ### the mix pipeline -/

@[simp] theorem evalMix_nil (x : W) : evalMix [] x = x := rfl
@[simp] theorem evalMix_cons (s : MixStep) (t : List MixStep) (x : W) :
    evalMix (s :: t) x = evalMix t (s.eval x) := rfl

theorem evalMix_injective_of_check (steps : List MixStep) (invs : List W) (h : checkMix steps invs = true) :
    Function.Injective (evalMix steps) := by
  induction steps generalizing invs with
  | nil => intro x y hxy; simpa using hxy
  | cons s t ih =>
    cases s with
    | xorShrArith k => simp [checkMix] at h
    | xorShrMasked k m =>
      simp only [checkMix, Bool.and_eq_true, decide_eq_true_eq] at h
      obtain ⟨⟨hk, hm⟩, ht⟩ := h
      subst hm
      intro x y hxy
      simp only [evalMix_cons] at hxy
      exact xorShrLogical_injective k hk (ih invs ht hxy)
    | mul c =>
      cases invs with
      | nil => simp [checkMix] at h
      | cons ci invs =>
        simp only [checkMix, Bool.and_eq_true, decide_eq_true_eq] at h
        obtain ⟨hc, ht⟩ := h
        intro x y hxy
        simp only [evalMix_cons] at hxy
        exact mul_injective c ci hc (ih invs ht hxy)

/-! ### the arithmetic-shift defect -/

/-- why the arithmetic-shift version was a defect: `x` and `~x` get the same value -/
theorem xorShrArith_compl (k : Nat) (x : W) :
    MixStep.eval (.xorShrArith k) (~~~x) = MixStep.eval (.xorShrArith k) x := by
  simp only [MixStep.eval]
  ext i hi
  simp [BitVec.getElem_sshiftRight, BitVec.msb_not]
  split <;> simp

/-- the same statement with `eval` unfolded -/
theorem xorShrArith_compl' (k : Nat) (x : W) :
    (~~~x) ^^^ ((~~~x).sshiftRight k) = x ^^^ (x.sshiftRight k) := xorShrArith_compl k x

theorem arith_mix_collides (k : Nat) (rest : List MixStep) (x : W) :
    evalMix (.xorShrArith k :: rest) (~~~x) = evalMix (.xorShrArith k :: rest) x := by
  simp only [evalMix_cons, xorShrArith_compl]

/-! ### the combiner -/

@[simp] theorem combine_nil (steps : List MixStep) (c seed : W) : combine steps c seed [] = seed := rfl
@[simp] theorem combine_cons (steps : List MixStep) (c seed w : W) (row : List W) :
    combine steps c seed (w :: row) = combine steps c ((seed ^^^ evalMix steps w) * c) row := rfl
theorem combine_append (steps : List MixStep) (c seed : W) (r1 r2 : List W) :
    combine steps c seed (r1 ++ r2) = combine steps c (combine steps c seed r1) r2 := by
  simp [combine, List.foldl_append]

theorem xor_right_cancel (h m h' : W) (e : h ^^^ m = h' ^^^ m) : h = h' := by
  have := congrArg (· ^^^ m) e
  simpa [BitVec.xor_assoc] using this

theorem xor_left_cancel (h m m' : W) (e : h ^^^ m = h ^^^ m') : m = m' := by
  have := congrArg (h ^^^ ·) e
  simpa [← BitVec.xor_assoc] using this

/-- for fixed row, the hash is an injective function of the seed -/
theorem combine_seed_injective (steps : List MixStep) (c ci : W) (hc : c * ci = 1#64) (row : List W) :
    Function.Injective (fun seed => combine steps c seed row) := by
  induction row with
  | nil => intro s s' h; simpa using h
  | cons w row ih =>
    intro s s' h
    simp only [combine_cons] at h
    have h1 := ih h
    exact xor_right_cancel _ _ _ (mul_right_cancel_of_inv c ci hc _ _ h1)

/-- states that differ in exactly one word never collide, under EVERY seed -/
theorem one_word_diff_never_collides (steps : List MixStep) (invs : List W) (c ci : W)
    (hmix : checkMix steps invs = true) (hc : c * ci = 1#64) (seed : W) (pre post : List W) (a b : W)
    (hab : a ≠ b) :
    combine steps c seed (pre ++ a :: post) ≠ combine steps c seed (pre ++ b :: post) := by
  intro h
  simp only [combine_append, combine_cons] at h
  have h1 := combine_seed_injective steps c ci hc post h
  have h2 := mul_right_cancel_of_inv c ci hc _ _ h1
  have h3 := xor_left_cancel _ _ _ h2
  exact hab (evalMix_injective_of_check steps invs hmix h3)

/-- swapped words: `[a,b]` vs `[b,a]` are separated by some seed (witness: `seed = mix a`) unless
`D * c = D` where `D = mix a ^^^ mix b` -/
theorem swapped_words_separable (steps : List MixStep) (c ci : W) (hc : c * ci = 1#64) (a b : W)
    (hne : (evalMix steps a ^^^ evalMix steps b) * c ≠ (evalMix steps a ^^^ evalMix steps b)) :
    ∃ seed, combine steps c seed [a, b] ≠ combine steps c seed [b, a] := by
  refine ⟨evalMix steps a, ?_⟩
  intro h
  simp only [combine_cons, combine_nil] at h
  have h1 := mul_right_cancel_of_inv c ci hc _ _ h
  simp only [BitVec.xor_self, BitVec.zero_mul, BitVec.zero_xor] at h1
  apply hne
  -- h1 : mix b = (mix a ^^^ mix b) * c ^^^ mix a
  have h2 := congrArg (· ^^^ evalMix steps a) h1
  simp only [BitVec.xor_assoc, BitVec.xor_self, BitVec.xor_zero] at h2
  rw [← h2, BitVec.xor_comm]

/-! ### top bit: the seed-independent collision family of the combiner (finding D1b) -/

/-- `2^63`, the sign bit of an int64 word -/
def topBit : W := 0x8000000000000000#64

theorem topBit_eq_twoPow : topBit = BitVec.twoPow 64 63 := by decide

theorem topBit_add_self : topBit + topBit = 0#64 := by decide

theorem xor_eq_add_of_and_eq_zero (x y : W) (h : x &&& y = 0#64) : x ^^^ y = x + y := by
  rw [BitVec.add_eq_or_of_and_eq_zero x y h]
  ext i hi
  have := congrArg (fun z => z[i]) h
  simp at this
  simp
  grind

/-- flipping the top bit is the same as adding `2^63` -/
theorem xor_topBit_eq_add (x : W) : x ^^^ topBit = x + topBit := by
  have key : ∀ y : W, y.msb = false → y ^^^ topBit = y + topBit := by
    intro y hy
    apply xor_eq_add_of_and_eq_zero
    ext i hi
    simp only [topBit_eq_twoPow, BitVec.getElem_and, BitVec.getElem_twoPow, BitVec.getElem_zero]
    by_cases h : i = 63
    · subst h
      have : y[63] = false := by simpa [BitVec.msb_eq_getLsbD_last] using hy
      simp [this]
    · simp; omega
  by_cases hx : x.msb = false
  · exact key x hx
  · have hy : (x ^^^ topBit).msb = false := by
      simp [BitVec.msb_xor, topBit] at hx ⊢
      simp [hx]; decide
    have := key _ hy
    rw [BitVec.xor_assoc, BitVec.xor_self, BitVec.xor_zero] at this
    have e : x + topBit = ((x ^^^ topBit) + topBit) + topBit := by rw [← this]
    rw [e, BitVec.add_assoc, topBit_add_self, BitVec.add_zero]

theorem toNat_mod_two_of_lsb (c : W) (hodd : c.getLsbD 0 = true) : c.toNat % 2 = 1 := by
  simpa [BitVec.getLsbD, Nat.testBit_zero] using hodd

theorem topBit_mul_odd (c : W) (hodd : c.getLsbD 0 = true) : topBit * c = topBit := by
  have h := toNat_mod_two_of_lsb c hodd
  apply BitVec.eq_of_toNat_eq
  simp only [BitVec.toNat_mul, topBit, BitVec.toNat_ofNat]
  omega

/-- flipping the top bit commutes with multiplication by an odd constant -/
theorem xor_topBit_mul_odd (c : W) (hodd : c.getLsbD 0 = true) (h : W) :
    (h ^^^ topBit) * c = (h * c) ^^^ topBit := by
  rw [xor_topBit_eq_add, xor_topBit_eq_add, BitVec.add_mul, topBit_mul_odd c hodd]

/-- NEGATIVE (known finding D1b): the combiner has a seed-independent collision family -/
theorem combiner_topbit_family (steps : List MixStep) (c : W) (hodd : c.getLsbD 0 = true) (seed a b a' b' : W)
    (ha : evalMix steps a' = evalMix steps a ^^^ 0x8000000000000000#64)
    (hb : evalMix steps b' = evalMix steps b ^^^ 0x8000000000000000#64) :
    combine steps c seed [a, b] = combine steps c seed [a', b'] := by
  simp only [combine_cons, combine_nil, ha, hb]
  change _ = ((seed ^^^ (evalMix steps a ^^^ topBit)) * c ^^^ (evalMix steps b ^^^ topBit)) * c
  have e1 : (seed ^^^ (evalMix steps a ^^^ topBit)) * c = (seed ^^^ evalMix steps a) * c ^^^ topBit := by
    rw [← BitVec.xor_assoc, xor_topBit_mul_odd c hodd]
  have e2 : ∀ X B : W, (X ^^^ topBit) ^^^ (B ^^^ topBit) = X ^^^ B := by
    intro X B
    rw [BitVec.xor_comm B, ← BitVec.xor_assoc, BitVec.xor_assoc X, BitVec.xor_self, BitVec.xor_zero]
  rw [e1, e2]

/-- the exceptional case of `swapped_words_separable` is a real one: if `mix a ^^^ mix b = 2^63` (and `c` is odd)
then `[a,b]` and `[b,a]` collide under EVERY seed. -/
theorem swapped_words_topbit_collide (steps : List MixStep) (c : W) (hodd : c.getLsbD 0 = true) (seed a b : W)
    (hD : evalMix steps a ^^^ evalMix steps b = 0x8000000000000000#64) :
    combine steps c seed [a, b] = combine steps c seed [b, a] := by
  apply combiner_topbit_family steps c hodd seed a b b a
  · rw [← hD, ← BitVec.xor_assoc, BitVec.xor_self, BitVec.zero_xor]
  · rw [← hD, BitVec.xor_comm (evalMix steps a), ← BitVec.xor_assoc, BitVec.xor_self, BitVec.zero_xor]

/-! ### odd words are not zero divisors; swapped words when `c - 1 = 2 * odd` -/

/-- an odd word is not a zero divisor modulo `2^64` -/
theorem eq_zero_of_mul_odd_eq_zero (x v : W) (hv : v.getLsbD 0 = true) (h : x * v = 0#64) : x = 0#64 := by
  have hodd := toNat_mod_two_of_lsb v hv
  have h1 : (x.toNat * v.toNat) % 2 ^ 64 = 0 := by
    have := congrArg BitVec.toNat h
    simpa [BitVec.toNat_mul] using this
  have hdvd : 2 ^ 64 ∣ x.toNat * v.toNat := Nat.dvd_of_mod_eq_zero h1
  have hcop : Nat.Coprime (2 ^ 64) v.toNat := by
    apply Nat.Coprime.pow_left
    show Nat.gcd 2 v.toNat = 1
    rw [Nat.gcd_rec, hodd]; rfl
  have hx : 2 ^ 64 ∣ x.toNat := hcop.dvd_of_dvd_mul_right hdvd
  apply BitVec.eq_of_toNat_eq
  have := x.isLt
  have := Nat.eq_zero_of_dvd_of_lt hx this
  simpa using this

theorem eq_zero_or_topBit_of_mul_two (D : W) (h : D * 2#64 = 0#64) : D = 0#64 ∨ D = topBit := by
  have h1 : (D.toNat * 2) % 2 ^ 64 = 0 := by
    have := congrArg BitVec.toNat h
    simpa [BitVec.toNat_mul] using this
  have := D.isLt
  have h2 : D.toNat = 0 ∨ D.toNat = 2 ^ 63 := by omega
  rcases h2 with h2 | h2
  · left; apply BitVec.eq_of_toNat_eq; simpa using h2
  · right; apply BitVec.eq_of_toNat_eq; simpa [topBit] using h2

/-- if `c - 1 = 2 * q` with `q` odd, `D * c = D` only for `D = 0` and `D = 2^63` -/
theorem mul_eq_self_cases (c q D : W) (hq : c - 1#64 = 2#64 * q) (hqodd : q.getLsbD 0 = true)
    (h : D * c = D) : D = 0#64 ∨ D = topBit := by
  apply eq_zero_or_topBit_of_mul_two
  apply eq_zero_of_mul_odd_eq_zero _ q hqodd
  have e : D * 2#64 * q = D * (c - 1#64) := by rw [hq, BitVec.mul_assoc]
  rw [e]
  grind

/-- swapped words `[a,b]` / `[b,a]`, `a ≠ b`: when `c - 1` has exactly one factor 2, some seed separates them
unless `mix a ^^^ mix b = 2^63`. -/
theorem swapped_words_separable_of_half_odd (steps : List MixStep) (invs : List W) (c ci q : W)
    (hmix : checkMix steps invs = true) (hc : c * ci = 1#64)
    (hq : c - 1#64 = 2#64 * q) (hqodd : q.getLsbD 0 = true) (a b : W) (hab : a ≠ b)
    (hne : evalMix steps a ^^^ evalMix steps b ≠ 0x8000000000000000#64) :
    ∃ seed, combine steps c seed [a, b] ≠ combine steps c seed [b, a] := by
  apply swapped_words_separable steps c ci hc
  intro h
  rcases mul_eq_self_cases c q _ hq hqodd h with h0 | h1
  · exact hab (evalMix_injective_of_check steps invs hmix (xor_eq_zero_imp_eq _ _ h0))
  · exact hne h1

/-! ### chunked hashing, identity hasher, signed key -/

theorem chunked_eq_map_flatten {β : Type} (h : β → W) (parts : List (List β)) :
    chunked h parts = parts.flatten.map h := by
  simp [chunked, List.flatMap_def, List.map_flatten]

/-- chunked hashing = unchunked hashing, for every chunk count ≥ 1 -/
theorem chunked_eq {β : Type} (h : β → W) (k : Nat) (hk : 0 < k) (xs : List β) :
    chunked h (tensorSplit k xs) = xs.map h := by
  rw [chunked_eq_map_flatten, Cv.flatten_tensorSplit k hk]

theorem identity_singleton (a : W) : identity [a] = a := rfl

/-- identity hasher is injective on single-word states -/
theorem identity_injective (a b : W) (h : identity [a] = identity [b]) : a = b := h

/-- signed order key is injective (hash values compared as int64) -/
theorem key_injective : Function.Injective key := fun _ _ h => BitVec.eq_of_toInt_eq h

/-! ### random dot product hasher -/

theorem dot_foldl_acc (l : List (W × W)) (acc : W) :
    l.foldl (fun acc p => acc + p.1 * p.2) acc = acc + l.foldl (fun acc p => acc + p.1 * p.2) 0#64 := by
  induction l generalizing acc with
  | nil => simp
  | cons p t ih =>
    simp only [List.foldl_cons]
    rw [ih (acc + p.1 * p.2), ih (0#64 + p.1 * p.2)]
    simp [BitVec.add_assoc]

theorem dot_split (vpre vpost pre post : List W) (a v : W) (hlen : vpre.length = pre.length) :
    dot (vpre ++ v :: vpost) (pre ++ a :: post) = dot vpre pre + (a * v + dot vpost post) := by
  unfold dot
  rw [List.zip_append hlen.symm, List.foldl_append, List.zip_cons_cons, List.foldl_cons, dot_foldl_acc]
  rw [BitVec.add_assoc]

/-- random dot product: rows that differ in exactly one coordinate collide iff `(a - b) * v = 0`, where `v` is the
key coordinate at that position -/
theorem dot_one_coord (vpre vpost pre post : List W) (a b v : W) (hlen : vpre.length = pre.length) :
    dot (vpre ++ v :: vpost) (pre ++ a :: post) = dot (vpre ++ v :: vpost) (pre ++ b :: post)
      ↔ (a - b) * v = 0#64 := by
  rw [dot_split _ _ _ _ _ _ hlen, dot_split _ _ _ _ _ _ hlen]
  generalize dot vpre pre = s1
  generalize dot vpost post = s2
  constructor <;> intro h <;> grind

/-- … hence an odd key coordinate always separates them -/
theorem dot_one_coord_odd (vpre vpost pre post : List W) (a b v : W) (hlen : vpre.length = pre.length)
    (hv : v.getLsbD 0 = true) (hab : a ≠ b) :
    dot (vpre ++ v :: vpost) (pre ++ a :: post) ≠ dot (vpre ++ v :: vpost) (pre ++ b :: post) := by
  intro h
  have h1 := (dot_one_coord vpre vpost pre post a b v hlen).1 h
  have h2 := eq_zero_of_mul_odd_eq_zero _ _ hv h1
  exact hab (by simpa using BitVec.sub_eq_iff_eq_add.mp h2)

end Cv.Hash
