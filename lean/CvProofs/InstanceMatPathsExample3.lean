/-
  Concrete instances for `CvProps/C12m.lean` (continuation of `CvProofs/InstanceMatPathsExample.lean`): `find_path` on the
  Heisenberg group modulo 3 (both branches), evaluated in the kernel.  Core Lean only.
-/
import CvProofs.InstanceMatPathsExample
namespace Cv.InstanceMat.PathsExample
open Cv Cv.InstanceMat Cv.InstanceMat.Example Cv.Kernel

/-! ### C12m evaluated -/

theorem find_found :
    findPath gH gHi (some heis3Map) eye3 [1, 0, 1, 0, 1, 0, 0, 0, 1] none (some 2) = .found [3, 0, 1, 2] := by
  simp only [findPath, precomputeBfs, mitmFindPathFrom, mitmFindPathTo_eq, bfs_eq_bfsK]; decide +kernel
theorem find_far :
    findPath gH gHi (some heis3Map) eye3 [1, 0, 1, 0, 1, 0, 0, 0, 1] none (some 1) = .notFound := by
  simp only [findPath, precomputeBfs, mitmFindPathFrom, mitmFindPathTo_eq, bfs_eq_bfsK]; decide +kernel
/-- the branch for generators that are not inverse-closed: ball in the inverted graph, path reversed -/
theorem findD_found : findPath gD gDi none eye3 [1, 1, 0, 0, 1, 1, 0, 0, 1] none (some 2) = .found [1, 1, 0, 0] := by
  simp only [findPath, precomputeBfs, mitmFindPathFrom, mitmFindPathTo_eq, bfs_eq_bfsK]; decide +kernel
theorem findD_far : findPath gD gDi none eye3 [1, 1, 0, 0, 1, 1, 0, 0, 1] none (some 1) = .notFound := by
  simp only [findPath, precomputeBfs, mitmFindPathFrom, mitmFindPathTo_eq, bfs_eq_bfsK]; decide +kernel

theorem all27_closedXY : ∀ s ∈ all27, ∀ t ∈ matNb [hx, hy] 3 3 s, t ∈ all27 := by decide +kernel

end Cv.InstanceMat.PathsExample
