/-
  Examples for `CvProofs/Mitm.lean`:
  * the Cayley graph of ℤ with the `10^12` generators `+1, …, +10^12`: the backward BFS of
    `MeetInTheMiddle.find_path_to` stops on its first layer (default `max_layer_size_to_explore = 10**12`) and the
    search misses a path of length `4 = 2D`; so the size hypothesis `hexp` of `mitmFindPathTo_spec` is needed;
  * evaluation of the models on the 6-cycle and the directed 5-cycle of `CvProofs/PathsExample.lean`.
-/
import CvProofs.Mitm
import CvProofs.PathsExample
namespace Cv
namespace MitmExample

/-! ### the size limit of the backward BFS matters -/

/-- number of generators = the default `max_layer_size_to_explore` of `bfs` -/
def bigN : Nat := 10^12

theorem bigN_eq : (bigN : Int) = 1000000000000 := by decide

/-- the Cayley graph of ℤ with the generators `+1, …, +bigN` (not inverse-closed) -/
def exZ : Graph Int :=
  { nGens := bigN, act := fun i x => x + ((i : Int) + 1), hash := fun x => x, invClosed := false, batchSize := 1 }

/-- its inverted copy: generators `-1, …, -bigN` -/
def exZi : Graph Int := { exZ with act := fun i x => x - ((i : Int) + 1) }

theorem exZ_hyp : PathHyp exZ exZi where
  hashEq := rfl
  nGens := rfl
  inv := by
    intro i _ x
    simp only [exZ, exZi]
    constructor <;> omega
  inj := fun _ _ h => h

theorem exZ_nb (x y : Int) : y ∈ exZ.nb x ↔ x < y ∧ y ≤ x + bigN := by
  rw [Graph.mem_nb]
  constructor
  · rintro ⟨i, hi, rfl⟩
    have hi' : i < bigN := hi
    simp only [exZ]
    omega
  · rintro ⟨h1, h2⟩
    refine ⟨(y - x - 1).toNat, ?_, ?_⟩
    · show (y - x - 1).toNat < bigN
      omega
    · simp only [exZ]
      omega

theorem exZ_walk (n : Nat) (a x : Int) : Walk exZ.nb n a x ↔ a + n ≤ x ∧ x ≤ a + n * 1000000000000 := by
  induction n generalizing x with
  | zero => rw [walk_zero_iff]; omega
  | succ n ih =>
    rw [walk_succ_iff]
    have hN := bigN_eq
    constructor
    · rintro ⟨b, hb, hx⟩
      rw [ih] at hb
      rw [exZ_nb] at hx
      omega
    · rintro ⟨h1, h2⟩
      by_cases hc : a + n ≤ x - 1000000000000
      · refine ⟨x - 1000000000000, (ih _).2 ⟨hc, by omega⟩, (exZ_nb _ _).2 (by omega)⟩
      · refine ⟨a + n, (ih _).2 ⟨by omega, by omega⟩, (exZ_nb _ _).2 (by omega)⟩

theorem exZ_reach (n : Nat) (a x : Int) : Reach exZ.nb [a] n x ↔ a + n ≤ x ∧ x ≤ a + n * 1000000000000 := by
  rw [reach_singleton, exZ_walk]

/-- distance classes around `0`: class `j ≥ 1` is the interval `((j-1)·N, j·N]` -/
theorem exZ_dist (j : Nat) (x : Int) :
    DistLayer exZ.nb [0] j x ↔
      (j = 0 ∧ x = 0) ∨ (1 ≤ j ∧ ((j : Int) - 1) * 1000000000000 < x ∧ x ≤ j * 1000000000000) := by
  unfold DistLayer
  simp only [exZ_reach]
  constructor
  · rintro ⟨h1, h2⟩
    rcases Nat.eq_zero_or_pos j with h0 | hpos
    · left; subst h0; omega
    · right
      have := h2 (j - 1) (by omega)
      omega
  · rintro (⟨rfl, rfl⟩ | ⟨h1, h2, h3⟩)
    · exact ⟨by omega, fun i hi => by omega⟩
    · refine ⟨by omega, fun i hi => ?_⟩
      omega

/-- hashes (= states) of class `j ≥ 1` -/
def layerZ (j : Nat) : List Int :=
  (List.range bigN).map fun (i : Nat) => ((j : Int) - 1) * 1000000000000 + (i : Int) + 1

theorem layerZ_sorted (j : Nat) : (layerZ j).Pairwise (· < ·) := by
  unfold layerZ
  rw [List.pairwise_map]
  exact List.pairwise_lt_range.imp (by intro a b h; omega)

theorem mem_layerZ (j : Nat) (x : Int) :
    x ∈ layerZ j ↔ ((j : Int) - 1) * 1000000000000 < x ∧ x ≤ j * 1000000000000 := by
  unfold layerZ
  have hN := bigN_eq
  simp only [List.mem_map, List.mem_range]
  constructor
  · rintro ⟨i, hi, rfl⟩; omega
  · rintro ⟨h1, h2⟩
    exact ⟨(x - ((j : Int) - 1) * 1000000000000 - 1).toNat, by omega, by omega⟩

/-- the ball of depth 2 around `0` -/
def ballZ : List (List Int) := [[0], layerZ 1, layerZ 2]

theorem exZ_hash_map (L : List Int) : L.map exZ.hash = L := List.map_id' L

theorem exZ_ball : IsBall exZ 0 ballZ := by
  intro i H hi
  unfold ballZ at hi
  rcases i with _ | _ | _ | k
  · rw [List.getElem?_cons_zero] at hi
    cases hi
    refine ⟨List.pairwise_singleton _ _, [0], by simp, ?_, by rw [exZ_hash_map]⟩
    intro x; rw [exZ_dist, List.mem_singleton]; omega
  · rw [List.getElem?_cons_succ, List.getElem?_cons_zero] at hi
    have hi := Option.some.inj hi
    subst hi
    refine ⟨layerZ_sorted 1, layerZ 1, (layerZ_sorted 1).imp (fun h => Int.ne_of_lt h), ?_,
      by rw [exZ_hash_map]⟩
    intro x; rw [exZ_dist, mem_layerZ]; omega
  · rw [List.getElem?_cons_succ, List.getElem?_cons_succ, List.getElem?_cons_zero] at hi
    have hi := Option.some.inj hi
    subst hi
    refine ⟨layerZ_sorted 2, layerZ 2, (layerZ_sorted 2).imp (fun h => Int.ne_of_lt h), ?_,
      by rw [exZ_hash_map]⟩
    intro x; rw [exZ_dist, mem_layerZ]; omega
  · rw [List.getElem?_cons_succ, List.getElem?_cons_succ, List.getElem?_cons_succ, List.getElem?_nil] at hi
    cases hi

/-- the destination: at distance `4 = 2·2` from `0` -/
def destZ : Int := 3000000000001

theorem exZ_walk4 : Walk exZ.nb 4 0 destZ := by
  rw [exZ_walk]; unfold destZ; omega

/-- backward class 1 of the destination: the `bigN` predecessors -/
theorem exZi_dist1 (x : Int) : DistLayer exZi.nb [destZ] 1 x ↔ destZ - 1000000000000 ≤ x ∧ x < destZ := by
  unfold DistLayer
  simp only [reach_singleton, walk_inv exZ_hyp, exZ_walk]
  constructor
  · rintro ⟨h1, -⟩; omega
  · rintro ⟨h1, h2⟩
    refine ⟨by omega, fun i hi => ?_⟩
    omega

def predsZ : List Int := (List.range bigN).map fun (i : Nat) => destZ - 1 - (i : Int)

theorem exZi_layer1 : IsLayer exZi [destZ] 1 predsZ := by
  constructor
  · unfold predsZ
    rw [List.nodup_iff_pairwise_ne, List.pairwise_map]
    exact List.pairwise_lt_range.imp (by intro a b h; omega)
  · intro x
    rw [exZi_dist1]
    have hN := bigN_eq
    unfold predsZ
    simp only [List.mem_map, List.mem_range]
    constructor
    · rintro ⟨i, hi, rfl⟩; omega
    · rintro ⟨h1, h2⟩
      exact ⟨(destZ - 1 - x).toNat, by omega, by omega⟩

theorem predsZ_length : predsZ.length = 10^12 := by
  unfold predsZ
  rw [List.length_map, List.length_range]
  rfl

/-- **counterexample to `mitmFindPathTo_spec` without `hexp`**: `destZ` is at distance `4 = 2·D` from `0` (`D = 2`),
every other hypothesis holds, and `None` is returned -/
theorem exZ_notFound : mitmFindPathTo exZ exZi ballZ destZ = .notFound := by
  have hbs : 0 < exZi.batchSize := by decide
  have hsi : exZi.invClosed = true → Symm exZi.nb := fun e => by cases e
  apply mitmFindPathTo_notFound_of_big exZ exZi exZ_hyp hsi hbs 0 ballZ exZ_ball (by simp [ballZ]) destZ
  · intro n hn
    have hn' : n ≤ 3 := hn
    rw [exZ_reach]
    unfold destZ
    omega
  · exact ⟨predsZ, exZi_layer1, by rw [predsZ_length]; exact Nat.le_refl _⟩

/-! #### the same failure through `find_path`

`find_path(graph, start, max_layer_size_to_explore=10**13, max_diameter=2)` on the graph with generators `-1 … -10^12`
(not inverse-closed): the cached ball lives in the inverted graph `exZ`, has depth 2, and the inner backward BFS (default
size limit `10**12`) gives up on its first layer. -/

theorem layerZ_length (j : Nat) : (layerZ j).length = bigN := by
  unfold layerZ; rw [List.length_map, List.length_range]

/-- every distance class `k ≥ 1` around `0` has exactly `bigN` states -/
theorem exZ_layer_length (k : Nat) (hk : 1 ≤ k) (L : List Int) (hL : IsLayer exZ [0] k L) : L.length = bigN := by
  have hperm : L.Perm (layerZ k) := by
    rw [List.perm_ext_iff_of_nodup hL.1 ((layerZ_sorted k).imp (fun h => Int.ne_of_lt h))]
    intro x
    rw [hL.2, exZ_dist, mem_layerZ]
    omega
  rw [hperm.length_eq, layerZ_length]

/-- the options of `_precompute_bfs(graph, max_layer_size_to_explore=10**13, max_diameter=2)` -/
def cfgZ : BfsCfg Int := { maxStore := some 0, maxExplore := 10^13, maxDiameter := 2, returnHashes := true }

theorem precomputeZ_eq : precomputeBfs exZ 0 (some (10^13)) (some 2) = bfs exZ cfgZ [0] := rfl

theorem exZ_bfsHyp (S : List Int) : BfsHyp exZ S := exZ_hyp.bfsHyp (fun e => by cases e) (by decide) S

/-- the cached ball has depth exactly 2 -/
theorem precomputeZ_length : (precomputeBfs exZ 0 (some (10^13)) (some 2)).hashes.length = 3 := by
  rw [precomputeZ_eq]
  obtain ⟨K, -, hK2, hlen, -, halt⟩ := bfs_summary (exZ_bfsHyp [0]) cfgZ rfl
  have hK2' : K ≤ 2 := hK2
  rw [hlen]
  rcases halt with ⟨-, hemp, -⟩ | ⟨-, hK, -⟩ | ⟨-, hK1, ⟨L, hL, hbig⟩, -⟩ | ⟨-, -, f, L, hf, -⟩
  · exfalso
    apply hemp (((K + 1 : Nat) : Int) * 1000000000000)
    rw [exZ_dist]
    right
    refine ⟨by omega, ?_, ?_⟩ <;> omega
  · have : K = 2 := hK
    omega
  · exfalso
    rw [exZ_layer_length K hK1 L hL] at hbig
    have h1 : cfgZ.maxExplore = 10^13 := rfl
    have h2 : bigN = 10^12 := rfl
    rw [h1, h2] at hbig
    exact absurd hbig (by decide)
  · cases hf

theorem exZi_findHyp : FindHyp exZi exZ none 0 where
  path := exZ_hyp.symm
  bfsG := exZ_hyp.symm.bfsHyp (fun e => by cases e) (by decide) _
  bfsGi := exZ_bfsHyp _
  symG := fun e => by cases e
  symGi := fun e => by cases e
  batchG := by decide
  batchGi := by decide
  invMap := fun e => by cases e

/-- **counterexample to `findPath_shortest` without `hexp`** -/
theorem exZi_findPath_notFound : findPath exZi exZ none 0 destZ (some (10^13)) (some 2) = .notFound := by
  have hball := precomputeBfs_isBall exZ 0 (exZ_bfsHyp [0]) (some (10^13)) (some 2)
  have hnf : mitmFindPathTo exZ exZi (precomputeBfs exZ 0 (some (10^13)) (some 2)).hashes destZ = .notFound := by
    apply mitmFindPathTo_notFound_of_big exZ exZi exZ_hyp (fun e => by cases e) (by decide) 0 _ hball.1 hball.2 destZ
    · intro n hn
      rw [precomputeZ_length] at hn
      rw [exZ_reach]
      unfold destZ
      omega
    · exact ⟨predsZ, exZi_layer1, by rw [predsZ_length]; exact Nat.le_refl _⟩
  unfold findPath
  have hic : exZi.invClosed = false := rfl
  rw [hic]
  simp only [Bool.false_eq_true, if_false]
  rw [hnf]

theorem exZi_walk4 : Walk exZi.nb 4 destZ 0 := (walk_inv exZ_hyp 4 0 destZ).2 exZ_walk4

/-! #### the same failure through `find_path_from`: an inverse-closed graph

ℤ with the `2·10^12` generators `+1 … +10^12, -1 … -10^12`. -/

def exS : Graph Int :=
  { nGens := 2 * bigN,
    act := fun i x => if i < bigN then x + ((i : Int) + 1) else x - (((i - bigN : Nat) : Int) + 1),
    hash := fun x => x, invClosed := true, batchSize := 1 }

def exSi : Graph Int :=
  { exS with act := fun i x => if i < bigN then x - ((i : Int) + 1) else x + (((i - bigN : Nat) : Int) + 1) }

theorem exS_hyp : PathHyp exS exSi where
  hashEq := rfl
  nGens := rfl
  inv := by
    intro i _ x
    simp only [exS, exSi]
    constructor <;> split <;> omega
  inj := fun _ _ h => h

theorem exS_nb (x y : Int) : y ∈ exS.nb x ↔ (x < y ∧ y ≤ x + bigN) ∨ (y < x ∧ x ≤ y + bigN) := by
  rw [Graph.mem_nb]
  constructor
  · rintro ⟨i, hi, rfl⟩
    have hi' : i < 2 * bigN := hi
    simp only [exS]
    split <;> omega
  · rintro (⟨h1, h2⟩ | ⟨h1, h2⟩)
    · refine ⟨(y - x - 1).toNat, ?_, ?_⟩
      · show (y - x - 1).toNat < 2 * bigN
        omega
      · simp only [exS]
        rw [if_pos (by omega)]
        omega
    · refine ⟨bigN + (x - y - 1).toNat, ?_, ?_⟩
      · show bigN + (x - y - 1).toNat < 2 * bigN
        omega
      · simp only [exS]
        rw [if_neg (by omega)]
        omega

theorem exS_symm : Symm exS.nb := by
  intro x y hy
  rw [exS_nb] at hy ⊢
  omega

theorem exSi_symm : Symm exSi.nb := exS_hyp.symm_gi exS_symm

theorem exSi_nb (x y : Int) : y ∈ exSi.nb x ↔ (x < y ∧ y ≤ x + bigN) ∨ (y < x ∧ x ≤ y + bigN) := by
  rw [exS_hyp.edge, exS_nb]
  omega

/-- the inverse map: `i ↦ i + N` for `i < N`, `i ↦ i - N` otherwise -/
def invS : List Nat := (List.range (2 * bigN)).map fun i => if i < bigN then i + bigN else i - bigN

theorem exS_invMap : IsInvMap exS invS := by
  refine ⟨by unfold invS; rw [List.length_map, List.length_range]; rfl, ?_⟩
  intro i hi
  have hi' : i < 2 * bigN := hi
  refine ⟨if i < bigN then i + bigN else i - bigN, ?_, ?_, ?_⟩
  · unfold invS
    rw [List.getElem?_map, List.getElem?_range hi']
    rfl
  · show (if i < bigN then i + bigN else i - bigN) < 2 * bigN
    split <;> omega
  · intro x
    simp only [exS]
    split <;> omega

/-- a walk of `n` edges moves by at most `n·N` -/
theorem exS_walk_bound (n : Nat) (a x : Int) (w : Walk exS.nb n a x) :
    a - n * 1000000000000 ≤ x ∧ x ≤ a + n * 1000000000000 := by
  induction w with
  | nil => omega
  | snoc _ hc ih =>
    rw [exS_nb] at hc
    have hN := bigN_eq
    omega

theorem exS_reach0 (x : Int) : Reach exS.nb [0] 0 x ↔ x = 0 := by
  rw [reach_singleton, walk_zero_iff]; omega

theorem exS_reach1 (a x : Int) : Reach exS.nb [a] 1 x ↔ (a < x ∧ x ≤ a + 1000000000000) ∨ (x < a ∧ a ≤ x + 1000000000000) := by
  rw [reach_singleton, walk_succ_iff]
  have hN := bigN_eq
  constructor
  · rintro ⟨b, hb, hx⟩
    rw [walk_zero_iff] at hb
    subst hb
    rw [exS_nb] at hx
    omega
  · intro h
    exact ⟨a, .nil a, (exS_nb _ _).2 (by omega)⟩

theorem exS_reach2 (x : Int) (h : (1000000000000 < x ∧ x ≤ 2000000000000) ∨ (x < -1000000000000 ∧ -2000000000000 ≤ x)) :
    Reach exS.nb [0] 2 x := by
  rw [reach_singleton, walk_succ_iff]
  have hN := bigN_eq
  rcases h with h | h
  · exact ⟨1000000000000, (reach_singleton ..).1 ((exS_reach1 0 _).2 (by omega)), (exS_nb _ _).2 (by omega)⟩
  · exact ⟨-1000000000000, (reach_singleton ..).1 ((exS_reach1 0 _).2 (by omega)), (exS_nb _ _).2 (by omega)⟩

theorem exS_dist0 (x : Int) : DistLayer exS.nb [0] 0 x ↔ x = 0 := by
  rw [distLayer_zero_iff]; simp

theorem exS_dist1 (x : Int) :
    DistLayer exS.nb [0] 1 x ↔ (0 < x ∧ x ≤ 1000000000000) ∨ (x < 0 ∧ -1000000000000 ≤ x) := by
  unfold DistLayer
  rw [exS_reach1]
  constructor
  · rintro ⟨h, -⟩; omega
  · intro h
    refine ⟨by omega, fun j hj => ?_⟩
    have : j = 0 := by omega
    subst this
    rw [exS_reach0]; omega

theorem exS_dist2 (x : Int) :
    DistLayer exS.nb [0] 2 x ↔
      (1000000000000 < x ∧ x ≤ 2000000000000) ∨ (x < -1000000000000 ∧ -2000000000000 ≤ x) := by
  constructor
  · rintro ⟨h, hmin⟩
    have hb := exS_walk_bound 2 0 x ((reach_singleton ..).1 h)
    have h0 := hmin 0 (by omega)
    have h1 := hmin 1 (by omega)
    rw [exS_reach0] at h0
    rw [exS_reach1] at h1
    omega
  · intro h
    refine ⟨exS_reach2 x h, fun j hj => ?_⟩
    have : j = 0 ∨ j = 1 := by omega
    rcases this with rfl | rfl
    · rw [exS_reach0]; omega
    · rw [exS_reach1]; omega

/-- sorted hashes of the states `y` with `(j-1)·N < |y - a| ≤ j·N` -/
def layerS (a : Int) (j : Nat) : List Int :=
  ((List.range bigN).map fun (i : Nat) => a - (j : Int) * 1000000000000 + (i : Int)) ++
  ((List.range bigN).map fun (i : Nat) => a + ((j : Int) - 1) * 1000000000000 + (i : Int) + 1)

theorem mem_layerS (a : Int) (j : Nat) (x : Int) :
    x ∈ layerS a j ↔ (a + ((j : Int) - 1) * 1000000000000 < x ∧ x ≤ a + j * 1000000000000) ∨
      (x < a - ((j : Int) - 1) * 1000000000000 ∧ a - j * 1000000000000 ≤ x) := by
  unfold layerS
  have hN := bigN_eq
  simp only [List.mem_append, List.mem_map, List.mem_range]
  constructor
  · rintro (⟨i, hi, rfl⟩ | ⟨i, hi, rfl⟩) <;> omega
  · rintro (⟨h1, h2⟩ | ⟨h1, h2⟩)
    · exact Or.inr ⟨(x - a - ((j : Int) - 1) * 1000000000000 - 1).toNat, by omega, by omega⟩
    · exact Or.inl ⟨(x - a + (j : Int) * 1000000000000).toNat, by omega, by omega⟩

theorem layerS_sorted (a : Int) (j : Nat) (hj : 1 ≤ j) : (layerS a j).Pairwise (· < ·) := by
  unfold layerS
  have hN := bigN_eq
  rw [List.pairwise_append]
  refine ⟨?_, ?_, ?_⟩
  · rw [List.pairwise_map]
    exact List.pairwise_lt_range.imp (by intro a b h; omega)
  · rw [List.pairwise_map]
    exact List.pairwise_lt_range.imp (by intro a b h; omega)
  · intro x hx y hy
    simp only [List.mem_map, List.mem_range] at hx hy
    obtain ⟨i, hi, rfl⟩ := hx
    obtain ⟨k, hk, rfl⟩ := hy
    omega

theorem layerS_length (a : Int) (j : Nat) : (layerS a j).length = 2 * bigN := by
  unfold layerS
  rw [List.length_append, List.length_map, List.length_map, List.length_range]
  omega

theorem exS_hash_map (L : List Int) : L.map exS.hash = L := List.map_id' L

/-- the ball of depth 2 around `0` -/
def ballS : List (List Int) := [[0], layerS 0 1, layerS 0 2]

theorem exS_ball : IsBall exS 0 ballS := by
  intro i H hi
  unfold ballS at hi
  rcases i with _ | _ | _ | k
  · rw [List.getElem?_cons_zero] at hi
    cases hi
    refine ⟨List.pairwise_singleton _ _, [0], by simp, ?_, by rw [exS_hash_map]⟩
    intro x; rw [exS_dist0, List.mem_singleton]
  · rw [List.getElem?_cons_succ, List.getElem?_cons_zero] at hi
    have hi := Option.some.inj hi
    subst hi
    refine ⟨layerS_sorted 0 1 (by omega), layerS 0 1,
      (layerS_sorted 0 1 (by omega)).imp (fun h => Int.ne_of_lt h), ?_, by rw [exS_hash_map]⟩
    intro x; rw [exS_dist1, mem_layerS]; omega
  · rw [List.getElem?_cons_succ, List.getElem?_cons_succ, List.getElem?_cons_zero] at hi
    have hi := Option.some.inj hi
    subst hi
    refine ⟨layerS_sorted 0 2 (by omega), layerS 0 2,
      (layerS_sorted 0 2 (by omega)).imp (fun h => Int.ne_of_lt h), ?_, by rw [exS_hash_map]⟩
    intro x; rw [exS_dist2, mem_layerS]; omega
  · rw [List.getElem?_cons_succ, List.getElem?_cons_succ, List.getElem?_cons_succ, List.getElem?_nil] at hi
    cases hi

/-- class 1 around `destZ` in the inverted graph: `2·bigN` states -/
theorem exSi_layer1 : IsLayer exSi [destZ] 1 (layerS destZ 1) := by
  refine ⟨(layerS_sorted destZ 1 (by omega)).imp (fun h => Int.ne_of_lt h), ?_⟩
  intro x
  rw [mem_layerS]
  unfold DistLayer
  have hN := bigN_eq
  have h1 : Reach exSi.nb [destZ] 1 x ↔ x ∈ exSi.nb destZ := by
    rw [reach_singleton, walk_succ_iff]
    constructor
    · rintro ⟨b, hb, hx⟩
      rw [walk_zero_iff] at hb
      subst hb
      exact hx
    · intro h; exact ⟨destZ, .nil _, h⟩
  rw [h1, exSi_nb]
  constructor
  · intro h
    refine ⟨by omega, fun j hj => ?_⟩
    have : j = 0 := by omega
    subst this
    rw [reach_singleton, walk_zero_iff]
    omega
  · rintro ⟨h, -⟩
    omega

theorem exS_walk4 : Walk exS.nb 4 destZ 0 := by
  have hN := bigN_eq
  have e1 : (2000000000001 : Int) ∈ exS.nb destZ := (exS_nb _ _).2 (by unfold destZ; omega)
  have e2 : (1000000000001 : Int) ∈ exS.nb 2000000000001 := (exS_nb _ _).2 (by omega)
  have e3 : (1 : Int) ∈ exS.nb 1000000000001 := (exS_nb _ _).2 (by omega)
  have e4 : (0 : Int) ∈ exS.nb 1 := (exS_nb _ _).2 (by omega)
  exact .snoc (.snoc (.snoc (.snoc (.nil _) e1) e2) e3) e4

/-- **counterexample to `mitmFindPathFrom_spec` without `hexp`**: `destZ` is at distance `4 = 2·D` from `0` -/
theorem exS_notFound : mitmFindPathFrom exS exSi (some invS) ballS destZ = .notFound := by
  have hnf : mitmFindPathTo exS exSi ballS destZ = .notFound := by
    apply mitmFindPathTo_notFound_of_big exS exSi exS_hyp (fun _ => exSi_symm) (by decide) 0 ballS exS_ball
      (by simp [ballS]) destZ
    · intro n hn hr
      have hn' : n ≤ 3 := hn
      have := exS_walk_bound n 0 destZ ((reach_singleton ..).1 hr)
      unfold destZ at this
      omega
    · refine ⟨layerS destZ 1, exSi_layer1, ?_⟩
      rw [layerS_length]
      have : bigN = 10^12 := rfl
      omega
  unfold mitmFindPathFrom
  have hic : exS.invClosed = true := rfl
  rw [hic, hnf]
  rfl

/-! ### the models evaluated on the 6-cycle and the directed 5-cycle -/

open PathsExample

/-- evaluates the BFS / MITM / `find_path` models on concrete data (`List.mergeSort` is defined by well-founded
recursion, so `decide` does not work) -/
macro "mitm_eval" : tactic => `(tactic|
  simp [mitmFindPathTo, mitmFindPathTo.go, mitmFindPathFrom, findPath, precomputeBfs, bfs, bfsLoop, expandPlain,
    expandBatched, notSeen, lastTwo, BfsCfg.storeLimit, Option.filter,
    Graph.unique, Graph.neighbors, uniqueStates, sortByKey,
    dedupAdj, List.mergeSort, List.MergeSort.Internal.splitInTwo, isinSorted, searchsorted,
    findPathTo, findPathFrom, revertPathM, restorePath, applyPath,
    List.range_succ, List.findIdx?_cons, ex6, ex6i, ex5, ex5i, ball6])

set_option maxRecDepth 4000

/-- the ball of depth 1 around 0 in the 6-cycle -/
def ball6' : List (List Int) := [[0], [1, 5]]

theorem ex6_ball' : IsBall ex6 0 ball6' := IsBallS.take ex6_ball 2

/-- distance 3 > D = 2: the backward search from 3 meets layer 2 on its first layer -/
theorem ex6_mitmTo_found : mitmFindPathTo ex6 ex6i ball6 3 = .found [0, 0, 0] := by mitm_eval
/-- inside the ball: plain `find_path_to` -/
theorem ex6_mitmTo_inside : mitmFindPathTo ex6 ex6i ball6 4 = .found [1, 1] := by mitm_eval
/-- distance 3 > 2·D with D = 1 -/
theorem ex6_mitmTo_notFound : mitmFindPathTo ex6 ex6i ball6' 3 = .notFound := by unfold ball6'; mitm_eval
theorem ex6_mitmFrom_found : mitmFindPathFrom ex6 ex6i (some [1, 0]) ball6 3 = .found [1, 1, 1] := by mitm_eval
theorem ex6_mitmFrom_notFound : mitmFindPathFrom ex6 ex6i (some [1, 0]) ball6' 3 = .notFound := by
  unfold ball6'; mitm_eval
/-- directed 5-cycle, ball of depth 1: distance 2 found, distance 3 not -/
theorem ex5_mitmTo_found : mitmFindPathTo ex5 ex5i [[0], [1]] 2 = .found [0, 0] := by mitm_eval
theorem ex5_mitmTo_notFound : mitmFindPathTo ex5 ex5i [[0], [1]] 3 = .notFound := by mitm_eval

theorem ex6_precompute : (precomputeBfs ex6 0 none (some 2)).hashes = [[0], [1, 5], [2, 4]] := by mitm_eval
theorem ex6_precompute1 : (precomputeBfs ex6 0 none (some 1)).hashes = [[0], [1, 5]] := by mitm_eval
theorem ex5i_precompute1 : (precomputeBfs ex5i 0 none (some 1)).hashes = [[0], [4]] := by mitm_eval

/-- `find_path`, inverse-closed branch, `max_diameter = 1` -/
theorem ex6_findPath_found : findPath ex6 ex6i (some [1, 0]) 0 4 none (some 1) = .found [0, 0] := by mitm_eval
theorem ex6_findPath_notFound : findPath ex6 ex6i (some [1, 0]) 0 3 none (some 1) = .notFound := by mitm_eval
/-- `find_path`, not inverse-closed branch (ball in the inverted graph, path reversed), `max_diameter = 1` -/
theorem ex5_findPath_found : findPath ex5 ex5i none 0 3 none (some 1) = .found [0, 0] := by mitm_eval
theorem ex5_findPath_notFound : findPath ex5 ex5i none 0 2 none (some 1) = .notFound := by mitm_eval

/-! ### the hypotheses hold on these graphs -/

theorem ex6i_symm : Symm ex6i.nb := ex6_hyp.symm_gi ex6_symm

/-- a graph on `Nat` whose generators keep `[0, n)` invariant has at most `n` states in every distance class
around a state below `n` -/
theorem layer_small (g : Graph Nat) (n : Nat) (hclosed : ∀ i x, x < n → g.act i x < n) (s : Nat) (hs : s < n)
    (k : Nat) (L : List Nat) (hL : IsLayer g [s] k L) : L.length ≤ n := by
  have hw' : ∀ m a x, Walk g.nb m a x → a < n → x < n := by
    intro m a x w
    induction w with
    | nil => exact fun h => h
    | snoc _ hc ih =>
      intro ha
      obtain ⟨i, -, rfl⟩ := (g.mem_nb _ _).1 hc
      exact hclosed i _ (ih ha)
  have hw : ∀ m x, Walk g.nb m s x → x < n := fun m x w => hw' m s x w hs
  have hsub : L ⊆ List.range n := by
    intro x hx
    exact List.mem_range.2 (hw k x ((reach_singleton ..).1 ((hL.2 x).1 hx).1))
  have := hL.1.length_le_of_subset hsub
  rwa [List.length_range] at this

theorem ex6_closed : ∀ i x, x < 6 → ex6.act i x < 6 := by
  intro i x hx; simp only [ex6]; repeat' split
  all_goals omega
theorem ex6i_closed : ∀ i x, x < 6 → ex6i.act i x < 6 := by
  intro i x hx; simp only [ex6i, ex6]; repeat' split
  all_goals omega
theorem ex5_closed : ∀ i x, x < 5 → ex5.act i x < 5 := by
  intro i x hx; simp only [ex5]; repeat' split
  all_goals omega
theorem ex5i_closed : ∀ i x, x < 5 → ex5i.act i x < 5 := by
  intro i x hx; simp only [ex5i, ex5]; repeat' split
  all_goals omega

/-- the size hypothesis `hexp` on the 6-cycle -/
theorem ex6i_small (s : Nat) (hs : s < 6) (k : Nat) (L : List Nat) (hL : IsLayer ex6i [s] k L) :
    L.length < 10^12 :=
  Nat.lt_of_le_of_lt (layer_small ex6i 6 ex6i_closed s hs k L hL) (by decide)

theorem ex5_small (s : Nat) (hs : s < 5) (k : Nat) (L : List Nat) (hL : IsLayer ex5 [s] k L) :
    L.length < 10^12 :=
  Nat.lt_of_le_of_lt (layer_small ex5 5 ex5_closed s hs k L hL) (by decide)

theorem ex6_findHyp : FindHyp ex6 ex6i (some [1, 0]) 0 where
  path := ex6_hyp
  bfsG := ex6_hyp.bfsHyp (fun _ => ex6_symm) (by decide) _
  bfsGi := ex6_hyp.symm.bfsHyp (fun _ => ex6i_symm) (by decide) _
  symG := fun _ => ex6_symm
  symGi := fun _ => ex6i_symm
  batchG := by decide
  batchGi := by decide
  invMap := fun _ => ⟨_, rfl, ex6_invMap⟩

theorem ex5_findHyp : FindHyp ex5 ex5i none 0 where
  path := ex5_hyp
  bfsG := ex5_hyp.bfsHyp (fun e => by cases e) (by decide) _
  bfsGi := ex5_hyp.symm.bfsHyp (fun e => by cases e) (by decide) _
  symG := fun e => by cases e
  symGi := fun e => by cases e
  batchG := by decide
  batchGi := by decide
  invMap := fun e => by cases e

end MitmExample
end Cv
