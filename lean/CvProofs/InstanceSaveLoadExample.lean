/-
  Concrete instance for `CvProps/C18e.lean`: LRX(4), width 2, `posHash` (A15's `gE`, `cBall`, `ball2`): the saved form of
  two BFS runs evaluated in the kernel, and a query answered from the loaded result.  Core Lean only.
-/
import CvProofs.InstanceSaveLoad
import CvProofs.InstancePathsExample
namespace Cv.InstanceSaveLoad.Example
open Cv Cv.Instance Cv.Instance.Example Cv.Instance.PathsExample Cv.Codec Cv.InstanceSaveLoad Cv.SaveLoad Cv.Kernel

/-- the definition of LRX(4) as the library holds it -/
def lrx4Def : Cv.GraphDef.PermDef := ⟨lrx4, ["L", "R", "X"], id4, "lrx-4"⟩

/-- the result that is saved: BFS to depth 2 with `return_all_hashes` -/
def runH : BfsOut (List W) := bfs gE (cBall 2) [encode 2 4 id4]
/-- a second run: depth 1 with `return_all_edges` -/
def runE : BfsOut (List W) := bfs gE { returnEdges := true, maxDiameter := 1 } [encode 2 4 id4]

def savedH : Res :=
  { completed := false, layerSizes := [1, 3, 5],
    layers := [(0, [[0, 1, 2, 3]]), (1, [[1, 2, 3, 0], [3, 0, 1, 2], [1, 0, 2, 3]]),
               (2, [[2, 1, 3, 0], [2, 3, 0, 1], [0, 2, 3, 1], [3, 1, 0, 2], [0, 3, 1, 2]])],
    layersHashes := ball2, edges := none,
    gens := [[1, 2, 3, 0], [3, 0, 1, 2], [1, 0, 2, 3]], genNames := ["L", "R", "X"], central := [0, 1, 2, 3],
    name := "lrx-4" }

/-- the saved form of the run, evaluated (`bfs = bfsK`): stored layers DECODED -/
theorem savedH_eq : savedForm 2 4 lrx4Def runH = savedH := by
  unfold runH; rw [bfs_eq_bfsK]; decide +kernel

theorem savedE_eq : savedForm 2 4 lrx4Def runE =
    { completed := false, layerSizes := [1, 3],
      layers := [(0, [[0, 1, 2, 3]]), (1, [[1, 2, 3, 0], [3, 0, 1, 2], [1, 0, 2, 3]])],
      layersHashes := [],
      edges := some [(18446744073709551844, 18446744073709551673), (18446744073709551844, 18446744073709551763),
        (18446744073709551844, 18446744073709551841), (18446744073709551673, 18446744073709551844),
        (18446744073709551763, 18446744073709551844), (18446744073709551841, 18446744073709551844)],
      gens := [[1, 2, 3, 0], [3, 0, 1, 2], [1, 0, 2, 3]], genNames := ["L", "R", "X"], central := [0, 1, 2, 3],
      name := "lrx-4" } := by
  unfold runE; rw [bfs_eq_bfsK]; decide +kernel

/-- the file that is written for the depth-1 run with hashes -/
theorem saved_file : save (savedForm 2 4 lrx4Def (bfs gE (cBall 1) [encode 2 4 id4])) =
    [("bfs_completed", .flag false), ("layer_sizes", .ints [2] [1, 3]),
     ("layer__0", .ints [1, 4] [0, 1, 2, 3]), ("layer__1", .ints [3, 4] [1, 2, 3, 0, 3, 0, 1, 2, 1, 0, 2, 3]),
     ("edges_list_hashes__0", .ints [1] [18446744073709551844]),
     ("edges_list_hashes__1", .ints [3] [18446744073709551673, 18446744073709551763, 18446744073709551841]),
     ("edges_list_hashes", .emptyMarker),
     ("graph__generators", .ints [3, 4] [1, 2, 3, 0, 3, 0, 1, 2, 1, 0, 2, 3]),
     ("graph__generator_names", .strs ["L", "R", "X"]), ("graph__central_state", .ints [4] [0, 1, 2, 3]),
     ("graph__name", .str "lrx-4")] := by
  rw [bfs_eq_bfsK]; decide +kernel

/-- the loaded result, evaluated through the theorem (not by running `load`) -/
theorem loadedH : load (save (savedForm 2 4 lrx4Def runH)) = some savedH := by
  rw [← savedH_eq]
  exact savedForm_load_save 2 4 lrx4Def (by decide) rfl gE (cBall 2) _

/-- a query answered from the LOADED result on a graph REBUILT from the loaded definition, with another batch size -/
theorem loaded_to_found :
    findPathTo (encodedPermGraph 2 4 savedH.gens posHash true 7) (encodedPermGraphInv 2 4 savedH.gens posHash true 7)
      savedH.layersHashes (encode 2 4 [2, 3, 0, 1]) = .found [0, 0] := by decide +kernel
theorem loaded_to_outside :
    findPathTo (encodedPermGraph 2 4 savedH.gens posHash true 7) (encodedPermGraphInv 2 4 savedH.gens posHash true 7)
      savedH.layersHashes (encode 2 4 [1, 3, 0, 2]) = .notFound := by decide +kernel

theorem loaded_from_found :
    findPathFrom (encodedPermGraph 2 4 savedH.gens posHash true 7) (encodedPermGraphInv 2 4 savedH.gens posHash true 7)
      (permInvMap savedH.gens) savedH.layersHashes (encode 2 4 [2, 3, 0, 1]) = .found [1, 1] := by decide +kernel

/-- the SAME hash function is needed: the graph rebuilt with the identity hasher does not find a state at distance 2
in the loaded ball of depth 2 -/
theorem other_hash_wrong :
    findPathTo (encodedPermGraph 2 4 savedH.gens identityHash true 3)
      (encodedPermGraphInv 2 4 savedH.gens identityHash true 3) savedH.layersHashes (encode 2 4 [2, 3, 0, 1]) =
        .notFound ∧
    DistLayer (permGraphNb lrx4) [id4] 2 [2, 3, 0, 1] := by
  refine ⟨by decide +kernel, ?_⟩
  have := encoded_findPathTo_spec 2 4 (by decide) (by decide) lrx4 lrx4_perm posHash true 3 (posHash_inj_valid 2 4)
    id4 id4_enc ball2 ball2_isBall [2, 3, 0, 1] (by decide)
  rw [show findPathTo (encodedPermGraph 2 4 lrx4 posHash true 3) (encodedPermGraphInv 2 4 lrx4 posHash true 3) ball2
    (encode 2 4 [2, 3, 0, 1]) = .found [0, 0] from to_found] at this
  exact this.2.1

end Cv.InstanceSaveLoad.Example
