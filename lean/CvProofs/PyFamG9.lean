/-
  G9 — all_cycles: generated = specification.  Core Lean only.
-/
import CvProofs.PyFamG9Write
namespace Cv.PyG9
open Cv.Py Cv.PyGen Cv.Families Cv.PyG4 Cv.PyG6
open Cv.GraphDef (PermDef)

theorem bind_bind_of {α β γ : Type} {x : Option α} {f : α → Option β} {y : β} (h : x.bind f = some y)
    (K : β → Option γ) : x.bind (fun s => (f s).bind K) = K y := by
  cases x with
  | none => simp at h
  | some a => simp only [Option.bind_some] at h ⊢; rw [h]; rfl

theorem foldlM_toI {β : Type} (f : β → Int → Option β) (l : List Nat) (b : β) :
    (toI l).foldlM f b = l.foldlM (fun s (x : Nat) => f s (x : Int)) b := by
  unfold toI; rw [List.foldlM_map]; rfl

theorem foldlM_named0 {γ : Type}
    (H : List (List Int) × List String → γ → Option (List (List Int) × List String))
    (A : γ → List (List Int)) (l : List γ)
    (hH : ∀ x ∈ l, ∀ g, H (g, cnames g.length) x = some (g ++ A x, cnames (g ++ A x).length)) :
    List.foldlM H ([], []) l = some (l.flatMap A, cnames (l.flatMap A).length) := by
  have := foldlM_named H A l hH []
  simpa [cnames] using this

/-- the generators contributed by one support `sub` (a strictly increasing list) -/
def genSub (n : Nat) (sub : List Nat) : List (List Int) :=
  (Cv.Perm.permsOf sub.tail.length sub.tail).flatMap fun o => [toI (oneLine n (cycleFn (sub.headD 0 :: o)))]

def genK (n k : Nat) : List (List Int) := (Cv.Perm.combinations (List.range n) k).flatMap (genSub n)

/-- the specified definition -/
def acSpec (n : Nat) : PermDef :=
  { gens := (allCyclesList n).map fun c => oneLine n (cycleFn c)
    names := (List.range (allCyclesList n).length).map fun t => "cycle_" ++ showNat (t + 1)
    central := List.range n
    name := "all_cycles-" ++ showNat n }

theorem gens_eq (n : Nat) : (List.range' 2 (n - 1)).flatMap (genK n) = (acSpec n).gens.map toI := by
  unfold genK genSub acSpec allCyclesList
  simp only [List.map_flatMap, List.map_map, flatMap_single]
  rfl

theorem all_cycles_raw (n : Nat) (hn : 2 ≤ n) :
    Fam.all_cycles (n : Int) = some (rawOf (acSpec n)) := by
  unfold Fam.all_cycles
  have ha : pyAssert (decide ((n : Int) ≥ 2)) = some () := by
    apply pyAssert_true; simp only [decide_eq_true_eq]; omega
  simp only [ha, Option.bind_eq_bind, Option.bind_some, Option.pure_def]
  have hr : pyRange 2 ((n : Int) + 1) 1 = toI (List.range' 2 (n - 1)) := by
    have h := pyRange_nat 2 (n + 1)
    have e : ((n + 1 : Nat) : Int) = (n : Int) + 1 := by omega
    rw [e, show n + 1 - 2 = n - 1 by omega] at h
    exact h
  rw [hr, foldlM_toI, foldlM_named0 (A := genK n)]
  · simp only [Option.bind_some, gens_eq, pyRange_zero_nat, pyStr_nat]
    simp [rawOf, acSpec, cnames]
  · intro k hk g
    have hk2 : 2 ≤ k := by have := List.mem_range'_1.1 hk; omega
    dsimp only
    rw [pyCombinations_range, List.foldlM_map, foldlM_named (A := genSub n)]
    · rfl
    · intro sub hsub g
      obtain ⟨h1, h2, h3⟩ := (mem_combinations_range n k sub).1 hsub
      obtain ⟨a, t, rfl⟩ : ∃ a t, sub = a :: t := by
        cases sub with
        | nil => simp at h3; omega
        | cons a t => exact ⟨a, t, rfl⟩
      have hat : ∀ x ∈ t, a < x := (List.pairwise_cons.1 h1).1
      have hnd : (a :: t).Nodup := h1.imp (fun h => Nat.ne_of_lt h)
      dsimp only
      rw [pyMin_sorted a t hat]
      simp only [Option.bind_some]
      rw [filter_ne_sorted a t hat, pyPermutations_toI, List.foldlM_map,
        foldlM_named (A := fun o => [toI (oneLine n (cycleFn (a :: o)))])]
      · rfl
      · intro o ho g
        have hp : o.Perm t := Cv.Perm.permsOf_spec _ _ _ (Nat.le_refl _) ho
        have hp' : (a :: o).Perm (a :: t) := List.Perm.cons a hp
        have hnd' : (a :: o).Nodup := hp'.nodup_iff.2 hnd
        have hlt' : ∀ v ∈ a :: o, v < n := fun v hv => h2 v (hp'.mem_iff.1 hv)
        dsimp only
        rw [pyRange_zero_nat, bind_bind_of (loop_toI a (List.range n) a o (by simpa using hlt'))]
        rw [write_eq n a o hnd' hlt']
        have hl : pyLen (g ++ [toI (oneLine n (cycleFn (a :: o)))]) = ((g.length + 1 : Nat) : Int) := by
          unfold pyLen; simp
        rw [hl, pyStr_nat, List.length_append, List.length_singleton, cnames_succ]

theorem acSpec_eq (n : Nat) (hn : 2 ≤ n) : Families.allCycles n = some (acSpec n) := by
  unfold Families.allCycles; rw [if_pos hn]; rfl

/-- the transposition `(0 1)` is a generator: the generator list is not empty -/
theorem acSpec_gens_ne (n : Nat) (hn : 2 ≤ n) : (acSpec n).gens ≠ [] := by
  have hmem : [0, 1] ∈ allCyclesList n := by
    rw [mem_allCyclesList_iff]
    refine ⟨by decide, by decide, ?_, ?_⟩
    · intro v hv
      simp only [List.mem_cons, List.not_mem_nil, or_false] at hv
      omega
    · intro v hv
      simp only [List.tail_cons, List.mem_cons, List.not_mem_nil, or_false] at hv
      subst hv; decide
  intro e
  unfold acSpec at e
  simp only [List.map_eq_nil_iff] at e
  rw [e] at hmem; exact absurd hmem List.not_mem_nil

theorem all_cycles_gen (n : Nat) :
    (Fam.all_cycles (n : Int)).bind rawToPermDef = Families.allCycles n := by
  by_cases hn : 2 ≤ n
  · have hs := acSpec_eq n hn
    rw [hs]
    exact bind_rawOf n _ _ (all_cycles_raw n hn)
      (all_cycles_valid n _ ((permFamily_allCycles n).trans hs)) (acSpec_gens_ne n hn) (by omega)
  · have : Families.allCycles n = none := by unfold Families.allCycles; rw [if_neg hn]
    rw [this]
    unfold Fam.all_cycles
    rw [assert_fail_int _ _ (by omega)]; rfl

theorem all_cycles_gen_neg (n : Int) (h : n < 0) : Fam.all_cycles n = none := by
  unfold Fam.all_cycles
  rw [assert_fail_int _ _ (by omega)]; rfl

end Cv.PyG9
