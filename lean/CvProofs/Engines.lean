/-
  Alternative BFS engines (`CvModel/Engines.lean`): gray/black bit-set BFS, NumPy per-generator frontier groups,
  rank / unrank of permutations.  Core Lean only.
-/
import CvModel.Engines
import CvProofs.Bfs
import CvProofs.RefBfs
namespace Cv
variable {α : Type} [DecidableEq α]

/-! ### generic list facts -/

theorem nodup_eraseDups' (l : List α) : l.eraseDups.Nodup := by
  generalize hn : l.length = n
  induction n using Nat.strongRecOn generalizing l with
  | _ n ih =>
    cases l with
    | nil => simp
    | cons a t =>
      rw [List.eraseDups_cons, List.nodup_cons]
      constructor
      · intro h
        rw [List.mem_eraseDups, List.mem_filter] at h
        simp at h
      · have hlen : (t.filter fun b => !b == a).length < n := by
          have := List.length_filter_le (fun b => !b == a) t
          simp at hn; omega
        exact ih _ hlen _ rfl

/-! ### generic facts on distance classes -/

omit [DecidableEq α] in
/-- once a distance class is empty, the next one is empty -/
theorem distLayer_succ_empty (nb : α → List α) (S : List α) (i : Nat) (h : ∀ x, ¬ DistLayer nb S i x) :
    ∀ x, ¬ DistLayer nb S (i + 1) x := by
  intro x hx
  obtain ⟨y, hy, -⟩ := distLayer_pred_bfs hx
  exact h y hy

omit [DecidableEq α] in
/-- "neighbours of class `i` not among the classes `≤ i`" is class `i+1` (any graph) -/
theorem next_layer_all (nb : α → List α) (S : List α) (i : Nat) (x : α) :
    ((∃ y, DistLayer nb S i y ∧ x ∈ nb y) ∧ ¬ (∃ j, j ≤ i ∧ DistLayer nb S j x)) ↔ DistLayer nb S (i + 1) x := by
  have h := next_layer_iff nb S false (by intro h; cases h) (i + 1) (by omega) x
  rw [← h, Nat.add_sub_cancel]
  constructor
  · rintro ⟨h1, h2⟩
    exact ⟨h1, fun ⟨j, hj, _, hd⟩ => h2 ⟨j, by omega, hd⟩⟩
  · rintro ⟨h1, h2⟩
    exact ⟨h1, fun ⟨j, hj, hd⟩ => h2 ⟨j, by omega, (fun h => Bool.noConfusion h), hd⟩⟩

/-! ### gray/black bit-set BFS -/

theorem bitsetLoop_zero (nb : α → List α) (black last : List α) (sizes : List Nat) :
    bitsetLoop nb 0 black last sizes = sizes := rfl

theorem bitsetLoop_succ (nb : α → List α) (fuel : Nat) (black last : List α) (sizes : List Nat) :
    bitsetLoop nb (fuel + 1) black last sizes =
      if last.isEmpty then sizes else
      if (((last.flatMap nb).eraseDups).filter fun x => !black.contains x).isEmpty then sizes
      else bitsetLoop nb fuel (black ++ ((last.flatMap nb).eraseDups).filter fun x => !black.contains x)
        (((last.flatMap nb).eraseDups).filter fun x => !black.contains x)
        (sizes ++ [(((last.flatMap nb).eraseDups).filter fun x => !black.contains x).length]) := rfl

/-- what the final list of sizes must satisfy -/
def SizesOk (nb : α → List α) (S : List α) (D : Nat) (sizes : List Nat) : Prop :=
  (∀ (i n : Nat), sizes[i]? = some n → ∃ L : List α, L.Nodup ∧ (∀ x, x ∈ L ↔ DistLayer nb S i x) ∧ n = L.length) ∧
  1 ≤ sizes.length ∧ sizes.length ≤ D + 1 ∧ (∀ (i n : Nat), sizes[i]? = some n → 0 < n) ∧
  (sizes.length < D + 1 → ∀ x, ¬ DistLayer nb S sizes.length x)

theorem bitsetLoop_spec (nb : α → List α) (S : List α) (D : Nat) (fuel i : Nat) (black last : List α)
    (sizes : List Nat) (hfi : fuel + i = D)
    (hblack : ∀ x, x ∈ black ↔ ∃ j, j ≤ i ∧ DistLayer nb S j x)
    (hnd : last.Nodup) (hlast : ∀ x, x ∈ last ↔ DistLayer nb S i x)
    (hlen : sizes.length = i + 1)
    (hsz : ∀ (k n : Nat), sizes[k]? = some n → ∃ L : List α, L.Nodup ∧ (∀ x, x ∈ L ↔ DistLayer nb S k x) ∧ n = L.length)
    (hpos : ∀ (k n : Nat), sizes[k]? = some n → 0 < n) :
    SizesOk nb S D (bitsetLoop nb fuel black last sizes) := by
  induction fuel generalizing i black last sizes with
  | zero =>
    rw [bitsetLoop_zero]
    exact ⟨hsz, by omega, by omega, hpos, fun h => by omega⟩
  | succ fuel ih =>
    rw [bitsetLoop_succ]
    have hnew : ∀ x, x ∈ (((last.flatMap nb).eraseDups).filter fun x => !black.contains x) ↔
        DistLayer nb S (i + 1) x := by
      intro x
      rw [← next_layer_all]
      simp only [List.mem_filter, List.mem_eraseDups, List.mem_flatMap, Bool.not_eq_true',
        List.contains_eq_mem, decide_eq_false_iff_not, hblack, hlast]
    have hndnew : (((last.flatMap nb).eraseDups).filter fun x => !black.contains x).Nodup :=
      (nodup_eraseDups' _).sublist List.filter_sublist
    generalize (((last.flatMap nb).eraseDups).filter fun x => !black.contains x) = new at hnew hndnew
    split
    · rename_i hemp
      refine ⟨hsz, by omega, by omega, hpos, fun _ => ?_⟩
      rw [hlen]
      apply distLayer_succ_empty
      intro x hx
      have := (hlast x).2 hx
      rw [List.isEmpty_iff] at hemp
      rw [hemp] at this; cases this
    · split
      · rename_i hemp
        refine ⟨hsz, by omega, by omega, hpos, fun _ => ?_⟩
        rw [hlen]
        intro x hx
        have := (hnew x).2 hx
        rw [List.isEmpty_iff] at hemp
        rw [hemp] at this; cases this
      · rename_i hne
        apply ih (i + 1) _ _ _ (by omega)
        · intro x
          rw [List.mem_append, hblack, hnew]
          constructor
          · rintro (⟨j, hj, hd⟩ | hd)
            · exact ⟨j, by omega, hd⟩
            · exact ⟨i + 1, Nat.le_refl _, hd⟩
          · rintro ⟨j, hj, hd⟩
            by_cases hji : j ≤ i
            · exact Or.inl ⟨j, hji, hd⟩
            · have : j = i + 1 := by omega
              subst this
              exact Or.inr hd
        · exact hndnew
        · exact hnew
        · simp [hlen]
        · intro k n hk
          rcases getElem?_snoc_eq_some.1 hk with hk' | ⟨hk', rfl⟩
          · exact hsz k n hk'
          · rw [hk', hlen]; exact ⟨new, hndnew, hnew, rfl⟩
        · intro k n hk
          rcases getElem?_snoc_eq_some.1 hk with hk' | ⟨hk', rfl⟩
          · exact hpos k n hk'
          · cases new with
            | nil => exact absurd rfl hne
            | cons a t => simp

theorem bfsBitset_spec' (nb : α → List α) (start : α) (D : Nat) : SizesOk nb [start] D (bfsBitset nb start D) := by
  unfold bfsBitset
  apply bitsetLoop_spec nb [start] D D 0 [start] [start] [1] (by omega)
  · intro x
    constructor
    · intro hx; exact ⟨0, Nat.le_refl _, distLayer_zero.2 hx⟩
    · rintro ⟨j, hj, hd⟩
      have : j = 0 := by omega
      subst this
      exact distLayer_zero.1 hd
  · simp
  · intro x; rw [distLayer_zero]
  · rfl
  · intro k n hk
    cases k with
    | zero =>
      simp only [List.getElem?_cons_zero, Option.some.injEq] at hk
      subst hk
      exact ⟨[start], by simp, fun x => by rw [distLayer_zero], rfl⟩
    | succ k => simp at hk
  · intro k n hk
    cases k with
    | zero => simp only [List.getElem?_cons_zero, Option.some.injEq] at hk; omega
    | succ k => simp at hk


/-! ### rank / unrank of permutations -/

/-- the factorial as the model computes it -/
def factM (n : Nat) : Nat := (List.range n).foldl (fun f i => f * (i + 1)) 1

theorem factM_zero : factM 0 = 1 := rfl
theorem factM_succ (n : Nat) : factM (n + 1) = factM n * (n + 1) := by
  simp [factM, List.range_succ, List.foldl_append]
theorem factM_pos (n : Nat) : 0 < factM n := by
  induction n with
  | zero => decide
  | succ n ih => rw [factM_succ]; exact Nat.mul_pos ih (by omega)

theorem lexRank_nil : lexRank [] = 0 := rfl
theorem lexRank_cons (a : Nat) (t : List Nat) :
    lexRank (a :: t) = (t.filter (· < a)).length * factM t.length + lexRank t := rfl

theorem lexUnrank_zero (avail : List Nat) (k : Nat) : lexUnrank 0 avail k = [] := rfl
theorem lexUnrank_succ (fuel : Nat) (avail : List Nat) (k : Nat) :
    lexUnrank (fuel + 1) avail k =
      avail.getD (k / factM (avail.length - 1)) 0 ::
        lexUnrank fuel (avail.eraseIdx (k / factM (avail.length - 1))) (k % factM (avail.length - 1)) := rfl

/-- the rank is below the factorial of the length (no hypothesis on `p` is needed) -/
theorem lexRank_lt (p : List Nat) : lexRank p < factM p.length := by
  induction p with
  | nil => decide
  | cons a t ih =>
    rw [lexRank_cons, List.length_cons, factM_succ]
    have h1 : (t.filter (· < a)).length ≤ t.length := List.length_filter_le _ _
    have h2 : (t.filter (· < a)).length * factM t.length ≤ t.length * factM t.length :=
      Nat.mul_le_mul_right _ h1
    rw [Nat.mul_comm (factM t.length), Nat.succ_mul]
    omega

/-- position of `a` in a strictly increasing list = number of smaller entries -/
theorem sorted_index (l : List Nat) (hs : l.Pairwise (· < ·)) (a : Nat) (ha : a ∈ l) :
    l[(l.filter (· < a)).length]? = some a ∧ l.eraseIdx (l.filter (· < a)).length = l.erase a := by
  induction l with
  | nil => cases ha
  | cons b l ih =>
    have hb : ∀ z ∈ l, b < z := fun z hz => List.rel_of_pairwise_cons hs hz
    by_cases hba : b = a
    · subst hba
      have : l.filter (· < b) = [] := by
        rw [List.filter_eq_nil_iff]
        intro z hz
        have := hb z hz
        simp; omega
      simp [this]
    · have hal : a ∈ l := by
        rcases List.mem_cons.1 ha with e | e
        · exact absurd e.symm hba
        · exact e
      have hlt : b < a := hb a hal
      obtain ⟨ih1, ih2⟩ := ih hs.of_cons hal
      have hf : (b :: l).filter (· < a) = b :: l.filter (· < a) := by
        simp [hlt]
      rw [hf]
      simp only [List.length_cons, List.getElem?_cons_succ, List.eraseIdx_cons_succ]
      refine ⟨ih1, ?_⟩
      rw [ih2, List.erase_cons_tail (by simpa using hba)]

theorem lexUnrank_lexRank_gen (p : List Nat) (hp : p.Nodup) (avail : List Nat)
    (hs : avail.Pairwise (· < ·)) (hperm : avail.Perm p) :
    lexUnrank p.length avail (lexRank p) = p := by
  induction p generalizing avail with
  | nil => rfl
  | cons a t ih =>
    have hlen : avail.length = t.length + 1 := by rw [hperm.length_eq]; rfl
    have ha : a ∈ avail := hperm.mem_iff.2 List.mem_cons_self
    rw [List.length_cons, lexUnrank_succ, hlen, Nat.add_sub_cancel, lexRank_cons]
    have hf := factM_pos t.length
    have hr := lexRank_lt t
    have hdiv : ((t.filter (· < a)).length * factM t.length + lexRank t) / factM t.length =
        (t.filter (· < a)).length := by
      rw [Nat.mul_comm, Nat.mul_add_div hf, Nat.div_eq_of_lt hr, Nat.add_zero]
    have hmod : ((t.filter (· < a)).length * factM t.length + lexRank t) % factM t.length = lexRank t := by
      rw [Nat.mul_comm, Nat.mul_add_mod, Nat.mod_eq_of_lt hr]
    rw [hdiv, hmod]
    have hcount : (t.filter (· < a)).length = (avail.filter (· < a)).length := by
      rw [(hperm.filter _).length_eq]
      simp
    obtain ⟨h1, h2⟩ := sorted_index avail hs a ha
    rw [hcount, h2]
    congr 1
    · rw [List.getD_eq_getElem?_getD, h1]; rfl
    · apply ih (List.nodup_cons.1 hp).2
      · exact hs.sublist List.erase_sublist
      · have := hperm.erase a
        rwa [List.erase_cons_head] at this

theorem sort_strict_of_nodup (p : List Nat) (hp : p.Nodup) :
    (p.mergeSort (fun a b => decide (a ≤ b))).Pairwise (· < ·) := by
  have h1 := mergeSort_le_sorted p
  have h2 : (p.mergeSort (fun a b => decide (a ≤ b))).Nodup := (List.mergeSort_perm _ _).nodup_iff.2 hp
  exact (h1.and h2).imp (by intro a b h; omega)

theorem lexUnrank_lexRank' (p : List Nat) (hp : p.Nodup) :
    lexUnrank p.length (p.mergeSort (fun a b => decide (a ≤ b))) (lexRank p) = p :=
  lexUnrank_lexRank_gen p hp _ (sort_strict_of_nodup p hp) (List.mergeSort_perm _ _)

theorem lexRank_injective' (p q : List Nat) (hp : p.Nodup) (hq : q.Nodup) (hpq : p.Perm q)
    (h : lexRank p = lexRank q) : p = q := by
  have hsort : p.mergeSort (fun a b => decide (a ≤ b)) = q.mergeSort (fun a b => decide (a ≤ b)) := by
    apply strict_ext _ _ (sort_strict_of_nodup p hp) (sort_strict_of_nodup q hq)
    intro x
    rw [List.mem_mergeSort, List.mem_mergeSort, hpq.mem_iff]
  rw [← lexUnrank_lexRank' p hp, ← lexUnrank_lexRank' q hq, hsort, h, hpq.length_eq]



/-! ### NumPy engine: set difference, `_make_states_unique` -/

section numpy1

theorem mem_setdiff (a b : List α) (x : α) : x ∈ setdiff a b ↔ x ∈ a ∧ x ∉ b := by
  simp [setdiff, List.mem_filter]

theorem setdiff_sublist (a b : List α) : (setdiff a b).Sublist a := List.filter_sublist

theorem foldl_setdiff_spec (is : List Nat) (f : Nat → List α) (init : List α) :
    (is.foldl (fun acc i => setdiff acc (f i)) init).Sublist init ∧
    ∀ x, x ∈ is.foldl (fun acc i => setdiff acc (f i)) init ↔ x ∈ init ∧ ∀ i ∈ is, x ∉ f i := by
  induction is generalizing init with
  | nil => simp
  | cons i t ih =>
    simp only [List.foldl_cons]
    obtain ⟨h1, h2⟩ := ih (setdiff init (f i))
    refine ⟨h1.trans (setdiff_sublist _ _), ?_⟩
    intro x
    rw [h2, mem_setdiff]
    simp only [List.mem_cons, forall_eq_or_imp]
    constructor
    · rintro ⟨⟨a, b⟩, c⟩; exact ⟨a, b, c⟩
    · rintro ⟨a, b, c⟩; exact ⟨⟨a, b⟩, c⟩

theorem foldl_setdiff2_spec (is : List Nat) (f1 f2 : Nat → List α) (init : List α) :
    (is.foldl (fun st i => setdiff (setdiff st (f1 i)) (f2 i)) init).Sublist init ∧
    ∀ x, x ∈ is.foldl (fun st i => setdiff (setdiff st (f1 i)) (f2 i)) init ↔
      x ∈ init ∧ ∀ i ∈ is, x ∉ f1 i ∧ x ∉ f2 i := by
  induction is generalizing init with
  | nil => simp
  | cons i t ih =>
    simp only [List.foldl_cons]
    obtain ⟨h1, h2⟩ := ih (setdiff (setdiff init (f1 i)) (f2 i))
    refine ⟨h1.trans ((setdiff_sublist _ _).trans (setdiff_sublist _ _)), ?_⟩
    intro x
    rw [h2, mem_setdiff, mem_setdiff]
    simp only [List.mem_cons, forall_eq_or_imp]
    constructor
    · rintro ⟨⟨⟨a, b⟩, b'⟩, c⟩; exact ⟨a, ⟨b, b'⟩, c⟩
    · rintro ⟨a, ⟨b, b'⟩, c⟩; exact ⟨⟨⟨a, b⟩, b'⟩, c⟩

omit [DecidableEq α] in
theorem getD_map_range (n : Nat) (f : Nat → List α) (i : Nat) :
    ((List.range n).map f).getD i [] = if i < n then f i else [] := by
  rw [List.getD_eq_getElem?_getD, List.getElem?_map]
  split
  · rename_i h; rw [List.getElem?_range h]; rfl
  · rename_i h; rw [List.getElem?_eq_none (by simpa using h)]; rfl

omit [DecidableEq α] in
theorem getD_of_le (L : List (List α)) (i : Nat) (h : L.length ≤ i) : L.getD i [] = [] := by
  rw [List.getD_eq_getElem?_getD, List.getElem?_eq_none h]; rfl

theorem makeUnique_length (layer : List (List α)) : (makeUnique layer).length = layer.length := by
  simp [makeUnique]

theorem makeUnique_spec (layer : List (List α)) (i : Nat) :
    ((makeUnique layer).getD i []).Sublist (layer.getD i []) ∧
    ∀ x, x ∈ (makeUnique layer).getD i [] ↔ x ∈ layer.getD i [] ∧ ∀ j, i < j → x ∉ layer.getD j [] := by
  unfold makeUnique
  rw [getD_map_range]
  split
  · rename_i hi
    obtain ⟨h1, h2⟩ := foldl_setdiff_spec ((List.range layer.length).filter (· > i))
      (fun i2 => layer.getD i2 []) (layer.getD i [])
    refine ⟨h1, ?_⟩
    intro x
    rw [h2]
    simp only [List.mem_filter, List.mem_range, gt_iff_lt, decide_eq_true_eq, and_imp]
    constructor
    · rintro ⟨a, b⟩
      refine ⟨a, ?_⟩
      intro j hj
      by_cases hjl : j < layer.length
      · exact b j hjl hj
      · rw [getD_of_le layer j (by omega)]; simp
    · rintro ⟨a, b⟩
      exact ⟨a, fun j _ hj => b j hj⟩
  · rename_i hi
    rw [getD_of_le layer i (by omega)]
    simp

/-- a list of groups: duplicate-free, pairwise disjoint, with union the set `C` -/
structure Groups (n : Nat) (L : List (List α)) (C : α → Prop) : Prop where
  len : L.length = n
  nodup : ∀ i, (L.getD i []).Nodup
  disj : ∀ i j x, i ≠ j → x ∈ L.getD i [] → x ∉ L.getD j []
  union : ∀ x, (∃ i, x ∈ L.getD i []) ↔ C x

omit [DecidableEq α] in
theorem mem_flatten_getD (L : List (List α)) (x : α) : x ∈ L.flatten ↔ ∃ i, x ∈ L.getD i [] := by
  rw [List.mem_flatten]
  constructor
  · rintro ⟨l, hl, hx⟩
    obtain ⟨i, hi⟩ := List.mem_iff_getElem?.1 hl
    exact ⟨i, by rw [List.getD_eq_getElem?_getD, hi]; exact hx⟩
  · rintro ⟨i, hx⟩
    by_cases hi : i < L.length
    · refine ⟨L[i], List.getElem_mem hi, ?_⟩
      rw [List.getD_eq_getElem?_getD, List.getElem?_eq_getElem hi] at hx
      exact hx
    · rw [getD_of_le L i (by omega)] at hx; cases hx

omit [DecidableEq α] in
theorem Groups.flatten {n : Nat} {L : List (List α)} {C : α → Prop} (h : Groups n L C) :
    L.flatten.Nodup ∧ ∀ x, x ∈ L.flatten ↔ C x := by
  constructor
  · unfold List.Nodup
    rw [List.pairwise_flatten]
    constructor
    · intro l hl
      obtain ⟨i, hi⟩ := List.mem_iff_getElem?.1 hl
      have := h.nodup i
      rw [List.getD_eq_getElem?_getD, hi] at this
      exact this
    · rw [List.pairwise_iff_getElem]
      intro i j hi hj hij x hx y hy hxy
      subst hxy
      refine h.disj i j x (by omega) ?_ ?_
      · rw [List.getD_eq_getElem?_getD, List.getElem?_eq_getElem hi]; exact hx
      · rw [List.getD_eq_getElem?_getD, List.getElem?_eq_getElem hj]; exact hy
  · intro x; rw [mem_flatten_getD, h.union]

/-- `_make_states_unique` turns duplicate-free groups into disjoint groups with the same union -/
theorem makeUnique_groups (n : Nat) (raw : List (List α)) (C : α → Prop) (hlen : raw.length = n)
    (hnd : ∀ i, (raw.getD i []).Nodup) (hun : ∀ x, (∃ i, x ∈ raw.getD i []) ↔ C x) :
    Groups n (makeUnique raw) C := by
  refine ⟨by rw [makeUnique_length, hlen], ?_, ?_, ?_⟩
  · intro i; exact (hnd i).sublist (makeUnique_spec raw i).1
  · intro i j x hij hi hj
    have h1 := ((makeUnique_spec raw i).2 x).1 hi
    have h2 := ((makeUnique_spec raw j).2 x).1 hj
    rcases Nat.lt_or_gt_of_ne hij with h | h
    · exact h1.2 j h h2.1
    · exact h2.2 i h h1.1
  · intro x
    rw [← hun]
    constructor
    · rintro ⟨i, hi⟩; exact ⟨i, (((makeUnique_spec raw i).2 x).1 hi).1⟩
    · rintro ⟨i, hi⟩
      -- take the last group containing `x`
      have key : ∀ m i, n - i ≤ m → x ∈ raw.getD i [] →
          ∃ i', x ∈ raw.getD i' [] ∧ ∀ j, i' < j → x ∉ raw.getD j [] := by
        intro m
        induction m with
        | zero =>
          intro i hm hx
          rw [getD_of_le raw i (by omega)] at hx; cases hx
        | succ m ih =>
          intro i hm hx
          by_cases hex : ∃ j, i < j ∧ x ∈ raw.getD j []
          · obtain ⟨j, hj, hxj⟩ := hex
            exact ih j (by omega) hxj
          · exact ⟨i, hx, fun j hj hxj => hex ⟨j, hj, hxj⟩⟩
      obtain ⟨i', h1, h2⟩ := key (n - i) i (Nat.le_refl _) hi
      exact ⟨i', ((makeUnique_spec raw i').2 x).2 ⟨h1, h2⟩⟩

end numpy1

/-! ### NumPy engine: one iteration -/

section numpy2

/-- NumPy engine on inverse-closed generators: `invIdx[i]` is the index of the inverse of generator `i` -/
structure NumpyHyp (nGens : Nat) (act : Nat → α → α) (invIdx : List Nat) : Prop where
  len : invIdx.length = nGens
  inv : ∀ i, i < nGens → ∃ j, invIdx[i]? = some j ∧ j < nGens ∧ ∀ x, act j (act i x) = x ∧ act i (act j x) = x

omit [DecidableEq α] in
theorem mem_nbOf (nGens : Nat) (act : Nat → α → α) (x y : α) :
    y ∈ nbOf nGens act x ↔ ∃ i, i < nGens ∧ y = act i x := by
  simp only [nbOf, List.mem_map, List.mem_range]
  constructor
  · rintro ⟨i, hi, rfl⟩; exact ⟨i, hi, rfl⟩
  · rintro ⟨i, hi, rfl⟩; exact ⟨i, hi, rfl⟩

omit [DecidableEq α] in
theorem NumpyHyp.symm {nGens : Nat} {act : Nat → α → α} {invIdx : List Nat} (h : NumpyHyp nGens act invIdx) :
    Symm (nbOf nGens act) := by
  intro x y hy
  obtain ⟨i, hi, rfl⟩ := (mem_nbOf ..).1 hy
  obtain ⟨j, -, hj, hinv⟩ := h.inv i hi
  exact (mem_nbOf ..).2 ⟨j, hj, ((hinv x).1).symm⟩

omit [DecidableEq α] in
theorem NumpyHyp.getD {nGens : Nat} {act : Nat → α → α} {invIdx : List Nat} (h : NumpyHyp nGens act invIdx)
    (i : Nat) (hi : i < nGens) :
    invIdx.getD i 0 < nGens ∧ ∀ x, act (invIdx.getD i 0) (act i x) = x ∧ act i (act (invIdx.getD i 0) x) = x := by
  obtain ⟨j, hj, hjn, hinv⟩ := h.inv i hi
  rw [List.getD_eq_getElem?_getD, hj]
  exact ⟨hjn, hinv⟩

omit [DecidableEq α] in
theorem nodup_flatMap_of_disjoint {β γ : Type} (l : List β) (f : β → List γ) (hl : l.Nodup)
    (hf : ∀ a ∈ l, (f a).Nodup) (hd : ∀ a ∈ l, ∀ b ∈ l, a ≠ b → ∀ x, x ∈ f a → x ∉ f b) :
    (l.flatMap f).Nodup := by
  induction l with
  | nil => simp
  | cons a t ih =>
    rw [List.nodup_cons] at hl
    rw [List.flatMap_cons, List.nodup_append]
    refine ⟨hf a List.mem_cons_self, ?_, ?_⟩
    · exact ih hl.2 (fun b hb => hf b (List.mem_cons_of_mem _ hb))
        (fun b hb c hc => hd b (List.mem_cons_of_mem _ hb) c (List.mem_cons_of_mem _ hc))
    · intro x hx y hy hxy
      subst hxy
      obtain ⟨b, hb, hxb⟩ := List.mem_flatMap.1 hy
      exact hd a List.mem_cons_self b (List.mem_cons_of_mem _ hb) (fun e => hl.1 (e ▸ hb)) x hx hxb

/-- images under generator `i1` of all groups except the group of the inverse generator -/
def nextGroup (nGens : Nat) (act : Nat → α → α) (invIdx : List Nat) (layer1 : List (List α)) (i1 : Nat) : List α :=
  ((List.range nGens).filter fun i2 => i2 != invIdx.getD i1 0).flatMap fun i2 => (layer1.getD i2 []).map (act i1)

/-- … minus everything in `layer0` and `layer1` -/
def rawGroup (nGens : Nat) (act : Nat → α → α) (invIdx : List Nat) (layer0 layer1 : List (List α)) (i1 : Nat) :
    List α :=
  (List.range nGens).foldl (fun st i2 => setdiff (setdiff st (layer0.getD i2 [])) (layer1.getD i2 []))
    (nextGroup nGens act invIdx layer1 i1)

theorem numpyStep_eq (nGens : Nat) (act : Nat → α → α) (invIdx : List Nat) (layer0 layer1 : List (List α)) :
    numpyStep nGens act invIdx layer0 layer1 =
      makeUnique ((List.range nGens).map (rawGroup nGens act invIdx layer0 layer1)) := rfl

omit [DecidableEq α] in
theorem mem_nextGroup (nGens : Nat) (act : Nat → α → α) (invIdx : List Nat) (layer1 : List (List α)) (i1 : Nat)
    (x : α) : x ∈ nextGroup nGens act invIdx layer1 i1 ↔
      ∃ i2, i2 < nGens ∧ i2 ≠ invIdx.getD i1 0 ∧ ∃ y, y ∈ layer1.getD i2 [] ∧ x = act i1 y := by
  simp only [nextGroup, List.mem_flatMap, List.mem_filter, List.mem_range, bne_iff_ne, ne_eq, List.mem_map]
  constructor
  · rintro ⟨i2, ⟨h1, h2⟩, y, hy, rfl⟩; exact ⟨i2, h1, h2, y, hy, rfl⟩
  · rintro ⟨i2, h1, h2, y, hy, rfl⟩; exact ⟨i2, ⟨h1, h2⟩, y, hy, rfl⟩

omit [DecidableEq α] in
theorem nextGroup_nodup {nGens : Nat} {act : Nat → α → α} {invIdx : List Nat} (h : NumpyHyp nGens act invIdx)
    (layer1 : List (List α)) (C : α → Prop) (h1 : Groups nGens layer1 C) (i1 : Nat) (hi : i1 < nGens) :
    (nextGroup nGens act invIdx layer1 i1).Nodup := by
  have hinj : ∀ a b, act i1 a = act i1 b → a = b := by
    intro a b e
    have hg := (h.getD i1 hi).2
    rw [← (hg a).1, e, (hg b).1]
  unfold nextGroup
  apply nodup_flatMap_of_disjoint
  · exact List.nodup_range.sublist List.filter_sublist
  · intro i2 _
    exact (List.pairwise_map).2 ((h1.nodup i2).imp (fun hab e => hab (hinj _ _ e)))
  · intro a _ b _ hab x hxa hxb
    obtain ⟨y, hy, rfl⟩ := List.mem_map.1 hxa
    obtain ⟨z, hz, hzy⟩ := List.mem_map.1 hxb
    have := hinj _ _ hzy
    subst this
    exact h1.disj a b z hab hy hz

theorem mem_rawGroup (nGens : Nat) (act : Nat → α → α) (invIdx : List Nat) (layer0 layer1 : List (List α))
    (i1 : Nat) (x : α) : x ∈ rawGroup nGens act invIdx layer0 layer1 i1 ↔
      x ∈ nextGroup nGens act invIdx layer1 i1 ∧
        ∀ i2, i2 < nGens → x ∉ layer0.getD i2 [] ∧ x ∉ layer1.getD i2 [] := by
  unfold rawGroup
  rw [(foldl_setdiff2_spec _ _ _ _).2]
  simp only [List.mem_range]

theorem numpyStep_groups {nGens : Nat} {act : Nat → α → α} {invIdx : List Nat} (h : NumpyHyp nGens act invIdx)
    (S : List α) (k : Nat) (hk : 1 ≤ k) (layer0 layer1 : List (List α)) (h0len : layer0.length = nGens)
    (h0 : ∀ x, (∃ i, x ∈ layer0.getD i []) ↔ DistLayer (nbOf nGens act) S (k - 1) x)
    (h1 : Groups nGens layer1 (DistLayer (nbOf nGens act) S k))
    (hsub : ∀ i x, x ∈ layer1.getD i [] → ∃ y, DistLayer (nbOf nGens act) S (k - 1) y ∧ x = act i y) :
    Groups nGens (numpyStep nGens act invIdx layer0 layer1) (DistLayer (nbOf nGens act) S (k + 1)) ∧
    (∀ i x, x ∈ (numpyStep nGens act invIdx layer0 layer1).getD i [] →
      ∃ y, DistLayer (nbOf nGens act) S k y ∧ x = act i y) := by
  rw [numpyStep_eq]
  -- bounds: a member of a group has a group index below `nGens`
  have hb0 : ∀ i x, x ∈ layer0.getD i [] → i < nGens := by
    intro i x hx
    apply Classical.byContradiction; intro hi
    rw [getD_of_le layer0 i (by omega)] at hx; cases hx
  have hb1 : ∀ i x, x ∈ layer1.getD i [] → i < nGens := by
    intro i x hx
    apply Classical.byContradiction; intro hi
    rw [getD_of_le layer1 i (by rw [h1.len]; omega)] at hx; cases hx
  have hraw : ∀ i1 x, x ∈ ((List.range nGens).map (rawGroup nGens act invIdx layer0 layer1)).getD i1 [] ↔
      i1 < nGens ∧ x ∈ rawGroup nGens act invIdx layer0 layer1 i1 := by
    intro i1 x
    rw [getD_map_range]
    split
    · rename_i hi; simp [hi]
    · rename_i hi; simp [hi]
  constructor
  · apply makeUnique_groups
    · simp
    · intro i1
      rw [getD_map_range]
      split
      · rename_i hi
        exact (nextGroup_nodup h layer1 _ h1 i1 hi).sublist (foldl_setdiff2_spec _ _ _ _).1
      · simp
    · intro x
      constructor
      · rintro ⟨i1, hx⟩
        obtain ⟨hi1, hx⟩ := (hraw i1 x).1 hx
        obtain ⟨hng, hnot⟩ := (mem_rawGroup ..).1 hx
        obtain ⟨i2, hi2, -, y, hy, rfl⟩ := (mem_nextGroup ..).1 hng
        have hyk : DistLayer (nbOf nGens act) S k y := (h1.union y).1 ⟨i2, hy⟩
        apply (next_layer_iff (nbOf nGens act) S true (fun _ => h.symm) (k + 1) (by omega) (act i1 y)).1
        refine ⟨⟨y, by simpa using hyk, (mem_nbOf ..).2 ⟨i1, hi1, rfl⟩⟩, ?_⟩
        rintro ⟨j, hj1, hj2, hd⟩
        have hj2' := hj2 rfl
        have hjc : j = k - 1 ∨ j = k := by omega
        rcases hjc with rfl | rfl
        · obtain ⟨i, hi⟩ := (h0 _).2 hd
          exact (hnot i (hb0 i _ hi)).1 hi
        · obtain ⟨i, hi⟩ := (h1.union _).2 hd
          exact (hnot i (hb1 i _ hi)).2 hi
      · intro hd
        obtain ⟨y, hy, hxy⟩ := distLayer_pred_bfs hd
        obtain ⟨i1, hi1, rfl⟩ := (mem_nbOf ..).1 hxy
        obtain ⟨i2, hi2⟩ := (h1.union y).2 hy
        have hi2n := hb1 i2 y hi2
        refine ⟨i1, (hraw i1 _).2 ⟨hi1, (mem_rawGroup ..).2 ⟨(mem_nextGroup ..).2 ⟨i2, hi2n, ?_, y, hi2, rfl⟩, ?_⟩⟩⟩
        · intro e
          obtain ⟨z, hz, rfl⟩ := hsub i2 y hi2
          have := ((h.getD i1 hi1).2 z).2
          rw [← e] at this
          rw [this] at hd
          have := distLayer_unique hd hz
          omega
        · intro i hi
          constructor
          · intro hm
            have := distLayer_unique hd ((h0 _).1 ⟨i, hm⟩)
            omega
          · intro hm
            have := distLayer_unique hd ((h1.union _).1 ⟨i, hm⟩)
            omega
  · intro i x hx
    have hx' := (((makeUnique_spec _ i).2 x).1 hx).1
    obtain ⟨-, hx'⟩ := (hraw i x).1 hx'
    obtain ⟨hng, -⟩ := (mem_rawGroup ..).1 hx'
    obtain ⟨i2, -, -, y, hy, rfl⟩ := (mem_nextGroup ..).1 hng
    exact ⟨y, (h1.union y).1 ⟨i2, hy⟩, rfl⟩

end numpy2

/-! ### NumPy engine: the loop -/

section numpy3

theorem numpyLoop_zero (nGens : Nat) (act : Nat → α → α) (invIdx : List Nat) (l0 l1 : List (List α))
    (sizes : List Nat) : numpyLoop nGens act invIdx 0 l0 l1 sizes = sizes := rfl

theorem numpyLoop_succ (nGens : Nat) (act : Nat → α → α) (invIdx : List Nat) (fuel : Nat) (l0 l1 : List (List α))
    (sizes : List Nat) : numpyLoop nGens act invIdx (fuel + 1) l0 l1 sizes =
      if (((numpyStep nGens act invIdx l0 l1).map List.length).sum == 0) = true then sizes
      else numpyLoop nGens act invIdx fuel l1 (numpyStep nGens act invIdx l0 l1)
        (sizes ++ [((numpyStep nGens act invIdx l0 l1).map List.length).sum]) := rfl

/-- what the final list of sizes must satisfy (no positivity clause) -/
def NumpyOk (nb : α → List α) (S : List α) (D : Nat) (sizes : List Nat) : Prop :=
  (∀ (i n : Nat), sizes[i]? = some n → ∃ L : List α, L.Nodup ∧ (∀ x, x ∈ L ↔ DistLayer nb S i x) ∧ n = L.length) ∧
  1 ≤ sizes.length ∧ sizes.length ≤ D + 1 ∧
  (sizes.length < D + 1 → ∀ x, ¬ DistLayer nb S sizes.length x)

theorem numpyLoop_spec {nGens : Nat} {act : Nat → α → α} {invIdx : List Nat} (h : NumpyHyp nGens act invIdx)
    (S : List α) (D : Nat) (fuel k : Nat) (layer0 layer1 : List (List α)) (sizes : List Nat)
    (hk : 1 ≤ k) (hlen : sizes.length = k + 1) (hfk : fuel + k = D) (h0len : layer0.length = nGens)
    (h0 : ∀ x, (∃ i, x ∈ layer0.getD i []) ↔ DistLayer (nbOf nGens act) S (k - 1) x)
    (h1 : Groups nGens layer1 (DistLayer (nbOf nGens act) S k))
    (hsub : ∀ i x, x ∈ layer1.getD i [] → ∃ y, DistLayer (nbOf nGens act) S (k - 1) y ∧ x = act i y)
    (hsz : ∀ (i n : Nat), sizes[i]? = some n →
      ∃ L : List α, L.Nodup ∧ (∀ x, x ∈ L ↔ DistLayer (nbOf nGens act) S i x) ∧ n = L.length) :
    NumpyOk (nbOf nGens act) S D (numpyLoop nGens act invIdx fuel layer0 layer1 sizes) := by
  induction fuel generalizing k layer0 layer1 sizes with
  | zero =>
    rw [numpyLoop_zero]
    exact ⟨hsz, by omega, by omega, fun hlt => by omega⟩
  | succ fuel ih =>
    rw [numpyLoop_succ]
    obtain ⟨hg2, hsub2⟩ := numpyStep_groups h S k hk layer0 layer1 h0len h0 h1 hsub
    obtain ⟨hnd2, hmem2⟩ := hg2.flatten
    have hsum : ((numpyStep nGens act invIdx layer0 layer1).map List.length).sum =
        (numpyStep nGens act invIdx layer0 layer1).flatten.length := List.length_flatten.symm
    rw [hsum]
    generalize numpyStep nGens act invIdx layer0 layer1 = layer2 at *
    split
    · rename_i hz
      refine ⟨hsz, by omega, by omega, fun _ => ?_⟩
      rw [hlen]
      intro x hx
      have := (hmem2 x).2 hx
      have hnil : layer2.flatten = [] := List.eq_nil_of_length_eq_zero (by simpa using hz)
      rw [hnil] at this; cases this
    · apply ih (k + 1) layer1 layer2 _ (by omega) (by simp [hlen]) (by omega) h1.len
      · intro x; rw [Nat.add_sub_cancel]; exact h1.union x
      · exact hg2
      · intro i x hx; rw [Nat.add_sub_cancel]; exact hsub2 i x hx
      · intro i n hi
        rcases getElem?_snoc_eq_some.1 hi with hi' | ⟨hi', rfl⟩
        · exact hsz i n hi'
        · rw [hi', hlen]; exact ⟨layer2.flatten, hnd2, hmem2, rfl⟩

omit [DecidableEq α] in
theorem distLayer_one (nGens : Nat) (act : Nat → α → α) (start x : α) :
    DistLayer (nbOf nGens act) [start] 1 x ↔ (∃ i, i < nGens ∧ x = act i start) ∧ x ≠ start := by
  rw [← next_layer_all (nbOf nGens act) [start] 0 x]
  constructor
  · rintro ⟨⟨y, hy, hxy⟩, hno⟩
    have : y = start := by simpa using distLayer_zero.1 hy
    subst this
    refine ⟨(mem_nbOf ..).1 hxy, ?_⟩
    intro e
    exact hno ⟨0, Nat.le_refl _, distLayer_zero.2 (by simp [e])⟩
  · rintro ⟨hnb, hne⟩
    refine ⟨⟨start, distLayer_zero.2 (by simp), (mem_nbOf ..).2 hnb⟩, ?_⟩
    rintro ⟨j, hj, hd⟩
    have : j = 0 := by omega
    subst this
    exact hne (by simpa using distLayer_zero.1 hd)

theorem bfsNumpy_spec' (nGens : Nat) (act : Nat → α → α) (invIdx : List Nat) (h : NumpyHyp nGens act invIdx)
    (start : α) (D : Nat) (hD : 1 ≤ D) :
    NumpyOk (nbOf nGens act) [start] D (bfsNumpy nGens act invIdx start D) := by
  unfold bfsNumpy
  -- the first layer
  have hraw : ∀ i x, x ∈ ((List.range nGens).map fun i => setdiff [act i start] [start]).getD i [] ↔
      i < nGens ∧ x = act i start ∧ x ≠ start := by
    intro i x
    rw [getD_map_range]
    split
    · rename_i hi; simp [hi, mem_setdiff]
    · rename_i hi; simp [hi]
  have hg1 : Groups nGens (makeUnique ((List.range nGens).map fun i => setdiff [act i start] [start]))
      (DistLayer (nbOf nGens act) [start] 1) := by
    apply makeUnique_groups
    · simp
    · intro i
      rw [getD_map_range]
      split
      · exact (List.Pairwise.sublist (setdiff_sublist _ _) (by simp : [act i start].Nodup))
      · simp
    · intro x
      rw [distLayer_one]
      constructor
      · rintro ⟨i, hx⟩
        obtain ⟨hi, h1, h2⟩ := (hraw i x).1 hx
        exact ⟨⟨i, hi, h1⟩, h2⟩
      · rintro ⟨⟨i, hi, h1⟩, h2⟩
        exact ⟨i, (hraw i x).2 ⟨hi, h1, h2⟩⟩
  have hsub1 : ∀ i x, x ∈ (makeUnique ((List.range nGens).map fun i => setdiff [act i start] [start])).getD i [] →
      ∃ y, DistLayer (nbOf nGens act) [start] (1 - 1) y ∧ x = act i y := by
    intro i x hx
    have hx' := (((makeUnique_spec _ i).2 x).1 hx).1
    obtain ⟨-, h1, -⟩ := (hraw i x).1 hx'
    exact ⟨start, distLayer_zero.2 (by simp), h1⟩
  generalize makeUnique ((List.range nGens).map fun i => setdiff [act i start] [start]) = layer1 at *
  obtain ⟨hnd1, hmem1⟩ := hg1.flatten
  have hmemE : ∀ x, x ∈ layer1.flatten.eraseDups ↔ DistLayer (nbOf nGens act) [start] 1 x := by
    intro x; rw [List.mem_eraseDups, hmem1]
  have hsz0 : ∃ L : List α, L.Nodup ∧ (∀ x, x ∈ L ↔ DistLayer (nbOf nGens act) [start] 0 x) ∧ 1 = L.length :=
    ⟨[start], by simp, fun x => by rw [distLayer_zero], rfl⟩
  dsimp only
  split
  · rename_i hz
    refine ⟨?_, by simp, by simp, fun _ => ?_⟩
    · intro i n hi
      cases i with
      | zero =>
        simp only [List.getElem?_cons_zero, Option.some.injEq] at hi
        subst hi; exact hsz0
      | succ i => simp at hi
    · intro x hx
      have := (hmemE x).2 hx
      have hnil : layer1.flatten.eraseDups = [] := List.eq_nil_of_length_eq_zero (by simpa using hz)
      rw [hnil] at this; cases this
  · rename_i hz
    -- a non-empty first layer: there is at least one generator
    have hpos : 0 < nGens := by
      cases hE : layer1.flatten.eraseDups with
      | nil => rw [hE] at hz; simp at hz
      | cons a t =>
        have ha : a ∈ layer1.flatten := List.mem_eraseDups.1 (by rw [hE]; simp)
        obtain ⟨i, hi⟩ := (mem_flatten_getD layer1 a).1 ha
        apply Classical.byContradiction; intro h0
        rw [getD_of_le layer1 i (by rw [hg1.len]; omega)] at hi; cases hi
    apply numpyLoop_spec h [start] D (D - 1) 1 _ _ _ (Nat.le_refl _) rfl (by omega) (by simp)
    · intro x
      rw [Nat.sub_self, distLayer_zero]
      constructor
      · rintro ⟨i, hi⟩
        rw [List.getD_eq_getElem?_getD, List.getElem?_replicate] at hi
        split at hi
        · exact hi
        · cases hi
      · intro hx
        refine ⟨0, ?_⟩
        rw [List.getD_eq_getElem?_getD, List.getElem?_replicate, if_pos hpos]
        exact hx
    · exact hg1
    · exact hsub1
    · intro i n hi
      cases i with
      | zero =>
        simp only [List.getElem?_cons_zero, Option.some.injEq] at hi
        subst hi; exact hsz0
      | succ i =>
        cases i with
        | zero =>
          simp only [List.getElem?_cons_succ, List.getElem?_cons_zero, Option.some.injEq] at hi
          subst hi
          exact ⟨layer1.flatten.eraseDups, nodup_eraseDups' _, hmemE, rfl⟩
        | succ i => simp at hi

end numpy3
end Cv
