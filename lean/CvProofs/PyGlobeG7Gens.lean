/-
  G7 part 5: `globe_gens` regenerated from the source = rows and flips of the specification.  Core Lean only.
-/
import CvProofs.PyGlobeG7Row
import CvProofs.PyGlobeG7Str
import CvProofs.PyGlobeG7Arith
import CvProofs.PyGlobeG7Swap
import CvProofs.PyLemmasG2

namespace Cv.PyG7
open Cv.Py Cv.PyGen Cv.Puzzles

/-- a loop `for k in L: d[key k] = val k` with fresh, pairwise different keys appends to the dict -/
theorem dict_loop {β : Type} (L : List Nat) (hnd : L.Nodup) (key : Nat → String) (val : Nat → β)
    (hinj : ∀ k k', key k = key k' → k = k')
    (body : List (String × β) → Int → Option (List (String × β)))
    (h : ∀ k ∈ L, ∀ st, body st (k : Int) = some (pyDictSet st (key k) (val k)))
    (init : List (String × β)) (hinit : ∀ p ∈ init, ∀ k ∈ L, p.1 ≠ key k) :
    (toI L).foldlM body init = some (init ++ L.map fun k => (key k, val k)) := by
  induction L generalizing init with
  | nil => simp [toI]
  | cons a t ih =>
    rw [List.nodup_cons] at hnd
    have ha := h a List.mem_cons_self init
    rw [pyDictSet_new _ _ _ (fun p hp => hinit p hp a List.mem_cons_self)] at ha
    have ht := ih hnd.2 (fun k hk => h k (List.mem_cons_of_mem _ hk)) (init ++ [(key a, val a)]) (by
      intro p hp k hk
      rcases List.mem_append.1 hp with hp | hp
      · exact hinit p hp k (List.mem_cons_of_mem _ hk)
      · simp only [List.mem_singleton] at hp
        subst hp
        intro e
        exact hnd.1 (hinj _ _ e ▸ hk))
    simp only [toI, List.map_cons, List.foldlM_cons] at ht ⊢
    have : Int.ofNat a = (a : Int) := rfl
    rw [this, ha]
    simp only [Option.bind_eq_bind, Option.bind_some]
    rw [ht]
    simp [List.append_assoc]


theorem pyGet_toI' (l : List Nat) (i : Nat) (h : i < l.length) :
    pyGet (toI l) (i : Int) = some ((l.getD i 0 : Nat) : Int) := by
  rw [PyG1.pyGet_toI, List.getElem?_eq_getElem h, Cv.Perm.getD_eq_getElem h]; rfl

theorem pySet_toI' (l : List Nat) (i v : Nat) (h : i < l.length) :
    pySet (toI l) (i : Int) (v : Int) = some (toI (l.set i v)) := by
  rw [PyG1.pySet_nat, PyG1.length_toI, if_pos h, PyG1.toI_set]

/-- one iteration of the swap loop `lst[block1[k]], lst[block2[b-1-k]] = lst[block2[b-1-k]], lst[block1[k]]` -/
theorem swap_step (B1 B2 l : List Nat) (b k : Nat) (hk : k < b) (h1 : B1.length = b) (h2 : B2.length = b)
    (hp : B1.getD k 0 < l.length) (hq : B2.getD (b - 1 - k) 0 < l.length) :
    ((pyGet (toI B1) (k : Int)).bind fun t_4 =>
      (pyGet (toI B2) ((b : Int) - 1 - (k : Int))).bind fun t_5 =>
        (pyGet (toI l) t_5).bind fun t_6 =>
          (pyGet (toI l) t_4).bind fun t_8 => (pySet (toI l) t_4 t_6).bind fun lst => pySet lst t_5 t_8)
      = some (toI (swapN l (B1.getD k 0) (B2.getD (b - 1 - k) 0))) := by
  have e : (b : Int) - 1 - (k : Int) = ((b - 1 - k : Nat) : Int) := by omega
  rw [e, pyGet_toI' B1 k (by omega), pyGet_toI' B2 (b - 1 - k) (by omega)]
  simp only [Option.bind_some]
  rw [pyGet_toI' l _ hq, pyGet_toI' l _ hp]
  simp only [Option.bind_some]
  rw [pySet_toI' l _ _ hp]
  simp only [Option.bind_some]
  rw [pySet_toI' _ _ _ (by rw [List.length_set]; exact hq)]
  rfl

theorem fdiv_two (a : Nat) : ((a : Int) + 1).fdiv 2 = (((a + 1) / 2 : Nat) : Int) := by
  rw [Int.fdiv_eq_ediv_of_nonneg _ (by decide)]; omega

theorem getD_map_range (b k : Nat) (f : Nat → Nat) (hk : k < b) : ((List.range b).map f).getD k 0 = f k := by
  simp [List.getD_eq_getElem?_getD, hk]

theorem length_foldl_swap (σ : Nat → Nat) (ps : List Nat) (l : List Nat) :
    (ps.foldl (fun s p => swapN s p (σ p)) l).length = l.length := by
  induction ps generalizing l with
  | nil => rfl
  | cons p t ih => rw [List.foldl_cons, ih, length_swapN]

/-- the list produced by the flip loops is `globeFlip a b c` -/
theorem flip_loops (a b c : Nat) (hb : 1 ≤ b) (hc : c < 2 * b) :
    (toI (List.range ((a + 1) / 2))).foldl
      (fun l (i : Int) => ((List.range b).map (enc (2 * b) c i.toNat)).foldl (fun s p => swapN s p (flipσ a b c p)) l)
      (List.range (2 * (a + 1) * b)) = globeFlip a b c := by
  rw [globeFlip_eq_σ, ← foldl_swaps (2 * (a + 1) * b) (flipσ a b c) (flipPs a b c) (flipPs_lt a b c hb hc)
    (flipPs_pairwise a b c hb hc) (fun j hj hne => flipPs_cover a b c j hb hc hj hne)]
  unfold flipPs toI
  rw [foldl_flatMap', List.foldl_map]
  rfl

theorem pyMod_cb (c k b : Nat) (hb : 1 ≤ b) :
    pyMod ((c : Int) + (k : Int)) (2 * (b : Int)) = some (((c + k) % (2 * b) : Nat) : Int) := by
  unfold pyMod
  rw [if_neg (by omega), Int.fmod_eq_emod_of_nonneg _ (by omega)]
  push_cast
  rfl

theorem map_cast_toI (L : List Nat) (F : Nat → Nat) :
    L.map (fun k => ((F k : Nat) : Int)) = toI (L.map F) := by
  simp [toI]

theorem globe_gens_gen_all (a b : Nat) :
    Globe.globe_gens a b = some (((List.range (a+1)).map fun k => ("r" ++ toString k, toI (globeRow a b k))) ++
      ((List.range (2*b)).map fun c => ("f" ++ toString c, toI (globeFlip a b c)))) := by
  unfold Globe.globe_gens
  dsimp only
  rw [pyRange_zero_of ((a : Int) + 1) (a + 1) (by omega), pyRange_zero_of (2 * (b : Int)) (2 * b) (by omega)]
  rw [dict_loop (List.range (a + 1)) List.nodup_range (fun k => "r" ++ toString k) (fun k => toI (globeRow a b k))
    (fun _ _ => rkey_inj) _ ?h1 _ (by simp)]
  case h1 =>
    intro k hk st
    rw [help_cyclic_row' a b k (List.mem_range.1 hk)]
    rfl
  simp only [Option.bind_eq_bind, Option.bind_some, List.nil_append]
  rw [dict_loop (List.range (2 * b)) List.nodup_range (fun c => "f" ++ toString c) (fun c => toI (globeFlip a b c))
    (fun _ _ => fkey_inj) _ ?h2 _ ?h3]
  case h3 =>
    intro p hp c _
    obtain ⟨k, _, rfl⟩ := List.mem_map.1 hp
    exact rkey_ne_fkey k c
  case h2 =>
    intro c hc st
    have hc := List.mem_range.1 hc
    have hb : 1 ≤ b := by omega
    rw [pyRange_zero_of (2 * ((a : Int) + 1) * (b : Int)) (2 * (a + 1) * b) (by push_cast; rfl)]
    rw [fdiv_two, pyRange_zero_of _ ((a + 1) / 2) rfl]
    rw [PyG1.foldlM_toI_total (fun s => s.length = 2 * (a + 1) * b) _
      (fun l i => ((List.range b).map (enc (2 * b) c i.toNat)).foldl (fun s p => swapN s p (flipσ a b c p)) l)
      _ ?hstep ?hinv _ (by simp)]
    case hinv =>
      intro s hs i _
      rw [length_foldl_swap, hs]
    case hstep =>
      intro s hs i hi
      obtain ⟨i', hi', rfl⟩ := List.mem_map.1 hi
      have hi' := List.mem_range.1 hi'
      rw [pyRange_zero_of (b : Int) b rfl]
      have hia : i' ≤ a := by omega
      rw [PyG2.loop_pair_single (List.range b) _ (fun k => ((enc (2 * b) c i' k : Nat) : Int))
        (fun k => (((a - i') * (2 * b) + (c + k) % (2 * b) : Nat) : Int)) ?hblk]
      case hblk =>
        intro k _ st
        rw [pyMod_cb c k b hb]
        simp only [Option.bind_some, enc]
        have e1 : Int.ofNat i' * (2 * (b : Int)) + (((c + k) % (2 * b) : Nat) : Int)
            = ((i' * (2 * b) + (c + k) % (2 * b) : Nat) : Int) := by push_cast; rfl
        have e2 : ((a : Int) + 1 - 1 - Int.ofNat i') * (2 * (b : Int)) + (((c + k) % (2 * b) : Nat) : Int)
            = (((a - i') * (2 * b) + (c + k) % (2 * b) : Nat) : Int) := by
          have : (a : Int) + 1 - 1 - Int.ofNat i' = ((a - i' : Nat) : Int) := by
            have : Int.ofNat i' = (i' : Int) := rfl
            omega
          rw [this]; push_cast; rfl
        rw [e1, e2]
        rfl
      simp only [Option.bind_some, List.nil_append, map_cast_toI]
      rw [PyG1.foldlM_toI_total (fun s => s.length = 2 * (a + 1) * b) _
        (fun l (k : Int) => swapN l (enc (2 * b) c i' k.toNat) (flipσ a b c (enc (2 * b) c i' k.toNat)))
        _ ?hsw ?hinv2 _ hs]
      case hinv2 =>
        intro l hl k _
        rw [length_swapN, hl]
      case hsw =>
        intro l hl k hk
        obtain ⟨k', hk', rfl⟩ := List.mem_map.1 hk
        have hk' := List.mem_range.1 hk'
        have hg1 := getD_map_range b k' (enc (2 * b) c i') hk'
        have hg2 := getD_map_range b (b - 1 - k') (fun k => (a - i') * (2 * b) + (c + k) % (2 * b)) (by omega)
        have hσ := flipσ_enc a b c i' k' hb hc hi' hk'
        have hlt1 := enc_lt a b c i' k' hb (by omega)
        have hlt2 := flipσ_lt a b c _ hb hlt1
        have := swap_step ((List.range b).map (enc (2 * b) c i'))
          ((List.range b).map (fun k => (a - i') * (2 * b) + (c + k) % (2 * b))) l b k' hk' (by simp) (by simp)
          (by rw [hg1, hl]; exact hlt1) (by rw [hg2, hl, ← hσ]; exact hlt2)
        rw [hg1, hg2, ← hσ] at this
        exact this
      simp only [Option.bind_some]
      unfold toI
      rw [List.foldl_map, List.foldl_map]
      rfl
    rw [flip_loops a b c hb hc]
    rfl
  rfl

theorem globe_gens_gen (a b : Nat) (_hb : 1 ≤ b) :
    Globe.globe_gens a b = some (((List.range (a+1)).map fun k => ("r" ++ toString k, toI (globeRow a b k))) ++
      ((List.range (2*b)).map fun c => ("f" ++ toString c, toI (globeFlip a b c)))) :=
  globe_gens_gen_all a b

end Cv.PyG7
