/-
  The library's concrete graphs (`CvModel/Instance.lean`) satisfy the hypotheses of the abstract BFS theorem, and
  their distance classes are those of the mathematical action on decoded states.  Core Lean only.
-/
import CvModel.Instance
import CvProofs.Transport
import CvProofs.Codec
import CvProofs.Hash
import CvProofs.Perm
namespace Cv.Instance
open Cv Cv.Codec

/-! ### the codec: the compiled routine maps encodings to encodings -/

theorem getD_of_lt' {β : Type} (l : List β) (i : Nat) (d : β) (h : i < l.length) : l.getD i d = l[i] := by
  simp [List.getD_eq_getElem?_getD, List.getElem?_eq_getElem h]

/-- the bit permutation maps the encoding of `s` to the ENCODING of the permuted state (not merely to a row that
decodes to it: padding bits stay 0).  No hypothesis on `s`. -/
theorem permuteBits_encode (p : List Nat) (w n : Nat) (hw' : w ≤ 64) (hpl : p.length = n)
    (hp : ∀ i ∈ p, i < n) (s : List Nat) :
    permuteBits p w n (encLen w n) (encode w n s) = encode w n (p.map fun i => s.getD i 0) := by
  apply List.ext_getElem
  · simp
  · intro d h1 h2
    have hd : d < encLen w n := by simpa using h1
    apply BitVec.eq_of_getLsbD_eq
    intro b hb
    rw [← getD_of_lt' _ d 0#64 h1, ← getD_of_lt' _ d 0#64 h2, getD_permuteBits _ _ _ _ _ _ hd,
      permWord_bit _ _ _ _ _ _ hb, encode_bit w n hw' _ d b hb]
    by_cases ht : d * 64 + b < n * w
    · have hw0 : 0 < w := by
        rcases Nat.eq_zero_or_pos w with h | h
        · subst h; simp at ht
        · exact h
      have hk : (d * 64 + b) % w < w := Nat.mod_lt _ hw0
      have hj : (d * 64 + b) / w < n := by
        rw [Nat.div_lt_iff_lt_mul hw0]; exact ht
      have hjp : (d * 64 + b) / w < p.length := by omega
      have hpj : p[(d * 64 + b) / w] < n := hp _ (List.getElem_mem hjp)
      have hsp : srcPos p w (d * 64 + b) = p[(d * 64 + b) / w] * w + (d * 64 + b) % w := by
        unfold srcPos
        rw [getD_of_lt' _ _ _ hjp]
      rw [hsp, encode_bit' w n hw' s _ (pos_lt hpj hk), (div_mod_of_lt hk).1, (div_mod_of_lt hk).2]
      have hm : (List.map (fun i => s.getD i 0) p).getD ((d * 64 + b) / w) 0 =
          s.getD p[(d * 64 + b) / w] 0 := by
        rw [getD_of_lt' _ _ _ (by simpa using hjp)]
        simp
      rw [hm]
    · simp [ht]

/-- the library's compiled routine maps the encoding of `s` to the encoding of the permuted state -/
theorem evalProg_compile_encode (p : List Nat) (w n : Nat) (hw : 1 ≤ w) (hw' : w ≤ 64)
    (hp : Cv.Perm.IsPermOf n p) (s : List Nat) :
    evalProg (compile p w n) (encLen w n) (encode w n s) = encode w n (p.map fun i => s.getD i 0) := by
  rw [checkProg_sound _ p w n (encLen w n)
    (compile_accepted p w n hw hw' hp.length_eq ((Cv.Perm.isPermOf_iff_perm n p).1 hp))
    (encode w n s) (length_encode w n s)]
  exact permuteBits_encode p w n hw' hp.length_eq hp.lt s

/-- a permuted encodable state is encodable -/
theorem encodable_apply (p : List Nat) (w n : Nat) (hp : Cv.Perm.IsPermOf n p) (s : List Nat)
    (hs : encodable w n s = true) : encodable w n (p.map fun i => s.getD i 0) = true := by
  rw [encodable_iff] at hs ⊢
  refine ⟨by simp [hp.length_eq], ?_⟩
  intro a ha
  obtain ⟨i, hi, rfl⟩ := List.mem_map.1 ha
  have hin : i < s.length := by rw [hs.1]; exact hp.lt i hi
  rw [getD_of_lt' _ _ _ hin]
  exact hs.2 _ (List.getElem_mem hin)

/-- `encode` is injective on encodable states -/
theorem encode_injective (w n : Nat) (hw : 1 ≤ w) (hw' : w ≤ 64) (s t : List Nat)
    (hs : encodable w n s = true) (ht : encodable w n t = true) (h : encode w n s = encode w n t) :
    s = t := by
  rw [← decode_encode w n hw hw' s hs, ← decode_encode w n hw hw' t ht, h]

/-! ### the encoded graph on encodings -/

/-- the rows that are the encoding of an encodable state -/
def Valid (w n : Nat) (x : List W) : Prop := ∃ s, encodable w n s = true ∧ x = encode w n s

/-- symmetry of the mathematical graph on the orbit of the start states (what inverse-closed generators give) -/
def SymmOnOrbit (perms : List (List Nat)) (starts : List (List Nat)) : Prop :=
  ∀ s t, InOrbit (permGraphNb perms) starts s → t ∈ permGraphNb perms s → s ∈ permGraphNb perms t

theorem map_range_getD {β γ : Type} (l : List β) (d : β) (F : β → γ) :
    (List.range l.length).map (fun i => F (l.getD i d)) = l.map F := by
  apply List.ext_getElem
  · simp
  · intro i h1 h2
    have hi : i < l.length := by simpa using h2
    simp [List.getElem?_eq_getElem hi]

theorem getD_mem {β : Type} (l : List β) (d : β) (i : Nat) (hi : i < l.length) : l.getD i d ∈ l := by
  rw [getD_of_lt' l i d hi]; exact List.getElem_mem hi

section enc
variable (w n : Nat) (hw : 1 ≤ w) (hw' : w ≤ 64) (perms : List (List Nat))
  (hp : ∀ p ∈ perms, Cv.Perm.IsPermOf n p) (hash : List W → Int) (ic : Bool) (batch : Nat)
include hw hw' hp

/-- generator `i` of the encoded graph sends the encoding of `s` to the encoding of `s ∘ p_i` -/
theorem encoded_act_encode (i : Nat) (hi : i < perms.length) (s : List Nat) :
    (encodedPermGraph w n perms hash ic batch).act i (encode w n s) =
      encode w n ((perms.getD i []).map fun j => s.getD j 0) :=
  evalProg_compile_encode _ w n hw hw' (hp _ (getD_mem perms [] i hi)) s

/-- the neighbours of an encoding are the encodings of the mathematical neighbours, in the same order -/
theorem encoded_nb_encode (s : List Nat) :
    (encodedPermGraph w n perms hash ic batch).nb (encode w n s) =
      (permGraphNb perms s).map (encode w n) := by
  unfold Graph.nb nbOf
  have h1 : (List.range (encodedPermGraph w n perms hash ic batch).nGens).map
        (fun i => (encodedPermGraph w n perms hash ic batch).act i (encode w n s)) =
      (List.range perms.length).map
        (fun i => encode w n ((perms.getD i []).map fun j => s.getD j 0)) := by
    apply List.map_congr_left
    intro i hi
    exact encoded_act_encode w n hw hw' perms hp hash ic batch i (List.mem_range.1 hi) s
  rw [h1, map_range_getD perms [] (fun p => encode w n (p.map fun j => s.getD j 0))]
  simp [permGraphNb]

omit hw hw' in
theorem encodable_of_mem_nb (s t : List Nat) (hs : encodable w n s = true)
    (ht : t ∈ permGraphNb perms s) : encodable w n t = true := by
  obtain ⟨p, hpm, rfl⟩ := List.mem_map.1 ht
  exact encodable_apply p w n (hp p hpm) s hs

theorem valid_step (x y : List W) (hx : Valid w n x)
    (hy : y ∈ (encodedPermGraph w n perms hash ic batch).nb x) : Valid w n y := by
  obtain ⟨s, hs, rfl⟩ := hx
  rw [encoded_nb_encode w n hw hw' perms hp hash ic batch s] at hy
  obtain ⟨t, ht, rfl⟩ := List.mem_map.1 hy
  exact ⟨t, encodable_of_mem_nb w n perms hp s t hs ht, rfl⟩

omit hp in
theorem decode_inj_valid (x y : List W) (hx : Valid w n x) (hy : Valid w n y)
    (h : decode w n x = decode w n y) : x = y := by
  obtain ⟨s, hs, rfl⟩ := hx
  obtain ⟨t, ht, rfl⟩ := hy
  rw [decode_encode w n hw hw' s hs, decode_encode w n hw hw' t ht] at h
  rw [h]

omit hp in
theorem map_decode_encode (l : List (List Nat)) (hl : ∀ s ∈ l, encodable w n s = true) :
    (l.map (encode w n)).map (decode w n) = l := by
  rw [List.map_map]
  have : l.map (decode w n ∘ encode w n) = l.map id := by
    apply List.map_congr_left
    intro s hs
    exact decode_encode w n hw hw' s (hl s hs)
  rw [this, List.map_id]

/-- `decode` commutes with taking neighbours on valid rows -/
theorem encoded_hcomm (x : List W) (hx : Valid w n x) :
    ((encodedPermGraph w n perms hash ic batch).nb x).map (decode w n) =
      permGraphNb perms (decode w n x) := by
  obtain ⟨s, hs, rfl⟩ := hx
  rw [encoded_nb_encode w n hw hw' perms hp hash ic batch s, decode_encode w n hw hw' s hs]
  exact map_decode_encode w n hw hw' _ (fun t ht => encodable_of_mem_nb w n perms hp s t hs ht)

variable (starts : List (List Nat)) (hs : ∀ s ∈ starts, encodable w n s = true)
include hs

/-- every row of the orbit of the encoded start states is the encoding of an encodable state -/
theorem valid_of_inOrbit (x : List W)
    (hx : InOrbit (encodedPermGraph w n perms hash ic batch).nb (starts.map (encode w n)) x) :
    Valid w n x := by
  refine Transport.inOrbit_invariant _ _ (Valid w n) ?_ ?_ x hx
  · intro y hy
    obtain ⟨s, hsm, rfl⟩ := List.mem_map.1 hy
    exact ⟨s, hs s hsm, rfl⟩
  · intro a b ha hb
    exact valid_step w n hw hw' perms hp hash ic batch a b ha hb

/-- the hypotheses of the (orbit-restricted) BFS theorem hold for the encoded graph -/
theorem encoded_bfsHypO
    (hinj : ∀ x y, Valid w n x → Valid w n y → hash x = hash y → x = y)
    (hic : ic = true → SymmOnOrbit perms starts) (hb : 0 < batch) :
    BfsHypO (encodedPermGraph w n perms hash ic batch) (starts.map (encode w n)) := by
  have hval := valid_of_inOrbit w n hw hw' perms hp hash ic batch starts hs
  refine ⟨?_, ?_, hb⟩
  · intro x y hx hy hxy
    exact hinj x y (hval x hx) (hval y hy) hxy
  · intro hic'
    apply Transport.symm_reflect _ (permGraphNb perms) (decode w n) _
      (fun x hx => encoded_hcomm w n hw hw' perms hp hash ic batch x (hval x hx))
      (fun x y hx hy => decode_inj_valid w n hw hw' x y (hval x hx) (hval y hy))
    rw [map_decode_encode w n hw hw' starts hs]
    exact hic hic'

/-- the conclusion of the end-to-end theorems -/
def EncodedSpec (w n : Nat) (perms : List (List Nat)) (starts : List (List Nat))
    (r : BfsOut (List W)) : Prop :=
  (∀ i, i < r.layerSizes.length → ∃ L : List (List Nat), L.Nodup ∧
      (∀ s, s ∈ L ↔ DistLayer (permGraphNb perms) starts i s) ∧ r.layerSizes[i]? = some L.length) ∧
  (∀ s, ¬ DistLayer (permGraphNb perms) starts r.layerSizes.length s) ∧
  (∀ i L, (i, L) ∈ r.layers → (L.map (decode w n)).Nodup ∧
      ∀ s, s ∈ L.map (decode w n) ↔ DistLayer (permGraphNb perms) starts i s)

/-- **end-to-end, general form**: hash injective on encodings, mathematical graph symmetric on the orbit -/
theorem encoded_bfs_spec
    (hinj : ∀ x y, Valid w n x → Valid w n y → hash x = hash y → x = y)
    (hic : ic = true → SymmOnOrbit perms starts) (hb : 0 < batch) (c : BfsCfg (List W))
    (hcomp : (bfs (encodedPermGraph w n perms hash ic batch) c
      (starts.map (encode w n))).completed = true) :
    EncodedSpec w n perms starts
      (bfs (encodedPermGraph w n perms hash ic batch) c (starts.map (encode w n))) := by
  have hval := valid_of_inOrbit w n hw hw' perms hp hash ic batch starts hs
  have hH := encoded_bfsHypO w n hw hw' perms hp hash ic batch starts hs hinj hic hb
  have := bfs_represented (encodedPermGraph w n perms hash ic batch) (starts.map (encode w n))
    (permGraphNb perms) (decode w n)
    (fun x hx => encoded_hcomm w n hw hw' perms hp hash ic batch x (hval x hx))
    (fun x y hx hy => decode_inj_valid w n hw hw' x y (hval x hx) (hval y hy)) hH c hcomp
  rw [map_decode_encode w n hw hw' starts hs] at this
  exact this

end enc

/-! ### sufficient conditions for the hypotheses -/

theorem symmOnOrbit_of_symm (perms : List (List Nat)) (starts : List (List Nat))
    (h : Symm (permGraphNb perms)) : SymmOnOrbit perms starts :=
  fun s t _ ht => h s t ht

/-- states of the orbit have the length of the start states -/
theorem length_of_inOrbit (n : Nat) (perms : List (List Nat)) (hp : ∀ p ∈ perms, Cv.Perm.IsPermOf n p)
    (starts : List (List Nat)) (hl : ∀ s ∈ starts, s.length = n) (s : List Nat)
    (hs : InOrbit (permGraphNb perms) starts s) : s.length = n := by
  refine Transport.inOrbit_invariant _ _ (fun s => s.length = n) hl ?_ s hs
  intro a b _ hb
  obtain ⟨p, hpm, rfl⟩ := List.mem_map.1 hb
  simp [(hp p hpm).length_eq]

/-- inverse-closed generators (what `generators_inverse_closed` means) give symmetry on the orbit -/
theorem symmOnOrbit_of_invClosed (n : Nat) (perms : List (List Nat))
    (hp : ∀ p ∈ perms, Cv.Perm.IsPermOf n p) (hinv : ∀ p ∈ perms, Cv.Perm.inverse p ∈ perms)
    (starts : List (List Nat)) (hl : ∀ s ∈ starts, s.length = n) : SymmOnOrbit perms starts := by
  intro s t hs ht
  have hsl := length_of_inOrbit n perms hp starts hl s hs
  obtain ⟨p, hpm, rfl⟩ := List.mem_map.1 ht
  have := (Cv.Perm.apply_inverse_cancel n p (hp p hpm) s hsl).1
  unfold Cv.Perm.apply at this
  exact List.mem_map.2 ⟨Cv.Perm.inverse p, hinv p hpm, this⟩

theorem length_of_encodable {w n : Nat} {s : List Nat} (h : encodable w n s = true) : s.length = n :=
  ((encodable_iff w n s).1 h).1

theorem length_of_valid {w n : Nat} {x : List W} (h : Valid w n x) : x.length = encLen w n := by
  obtain ⟨s, -, rfl⟩ := h
  exact length_encode w n s

/-- the identity hasher is injective on single-word rows -/
theorem identityHash_inj_len1 (x y : List W) (hx : x.length = 1) (hy : y.length = 1)
    (h : identityHash x = identityHash y) : x = y := by
  match x, y, hx, hy with
  | [a], [b], _, _ =>
    have : a = b := Cv.Hash.key_injective h
    rw [this]

theorem identityHash_inj_valid (w n : Nat) (hlen : encLen w n = 1) (x y : List W)
    (hx : Valid w n x) (hy : Valid w n y) (h : identityHash x = identityHash y) : x = y :=
  identityHash_inj_len1 x y (by rw [length_of_valid hx, hlen]) (by rw [length_of_valid hy, hlen]) h

/-! ### the un-encoded graph -/

theorem plain_nb (perms : List (List Nat)) (hash : List Nat → Int) (ic : Bool) (batch : Nat) :
    (plainPermGraph perms hash ic batch).nb = permGraphNb perms := by
  funext s
  unfold Graph.nb nbOf
  exact map_range_getD perms [] (fun p => p.map fun j => s.getD j 0)

theorem plain_bfsHypO (perms : List (List Nat)) (hash : List Nat → Int) (ic : Bool) (batch : Nat)
    (starts : List (List Nat))
    (hinj : ∀ s t, InOrbit (permGraphNb perms) starts s → InOrbit (permGraphNb perms) starts t →
      hash s = hash t → s = t)
    (hic : ic = true → SymmOnOrbit perms starts) (hb : 0 < batch) :
    BfsHypO (plainPermGraph perms hash ic batch) starts := by
  refine ⟨?_, ?_, hb⟩
  · rw [plain_nb]; exact hinj
  · intro hic'; rw [plain_nb]; exact hic hic'

/-- the conclusion for the un-encoded graph -/
def PlainSpec (perms : List (List Nat)) (starts : List (List Nat)) (r : BfsOut (List Nat)) : Prop :=
  (∀ i, i < r.layerSizes.length → ∃ L : List (List Nat), L.Nodup ∧
      (∀ s, s ∈ L ↔ DistLayer (permGraphNb perms) starts i s) ∧ r.layerSizes[i]? = some L.length) ∧
  (∀ s, ¬ DistLayer (permGraphNb perms) starts r.layerSizes.length s) ∧
  (∀ i L, (i, L) ∈ r.layers → L.Nodup ∧ ∀ s, s ∈ L ↔ DistLayer (permGraphNb perms) starts i s)

theorem plain_bfs_spec (perms : List (List Nat)) (hash : List Nat → Int) (ic : Bool) (batch : Nat)
    (starts : List (List Nat))
    (hinj : ∀ s t, InOrbit (permGraphNb perms) starts s → InOrbit (permGraphNb perms) starts t →
      hash s = hash t → s = t)
    (hic : ic = true → SymmOnOrbit perms starts) (hb : 0 < batch) (c : BfsCfg (List Nat))
    (hcomp : (bfs (plainPermGraph perms hash ic batch) c starts).completed = true) :
    PlainSpec perms starts (bfs (plainPermGraph perms hash ic batch) c starts) := by
  obtain ⟨h1, h2, h3, -⟩ :=
    BfsThmO.layers_eq_dist (plain_bfsHypO perms hash ic batch starts hinj hic hb) c hcomp
  unfold IsLayer at h1 h3
  rw [plain_nb] at h1 h2 h3
  refine ⟨?_, h2, h3⟩
  intro i hi
  obtain ⟨L, hL, hsz⟩ := h1 i hi
  exact ⟨L, hL.1, hL.2, hsz⟩

/-! ### configuration independence, end to end -/

/-- extra facts about the reported sizes needed to compare two runs -/
theorem encoded_sizes_facts (w n : Nat) (hw : 1 ≤ w) (hw' : w ≤ 64) (perms : List (List Nat))
    (hp : ∀ p ∈ perms, Cv.Perm.IsPermOf n p) (hash : List W → Int) (ic : Bool) (batch : Nat)
    (starts : List (List Nat)) (hs : ∀ s ∈ starts, encodable w n s = true)
    (hinj : ∀ x y, Valid w n x → Valid w n y → hash x = hash y → x = y)
    (hic : ic = true → SymmOnOrbit perms starts) (hb : 0 < batch) (c : BfsCfg (List W)) :
    (∀ i m, 0 < i → (bfs (encodedPermGraph w n perms hash ic batch) c
        (starts.map (encode w n))).layerSizes[i]? = some m → 0 < m) ∧
    0 < (bfs (encodedPermGraph w n perms hash ic batch) c
        (starts.map (encode w n))).layerSizes.length := by
  have hH := encoded_bfsHypO w n hw hw' perms hp hash ic batch starts hs hinj hic hb
  exact ⟨fun i m hi hm => BfsThmO.sizes_pos hH c i hi m hm, BfsThmO.sizes_length_pos hH c⟩

/-- two encoded runs (different widths, hashes, batch sizes, flags, options) report the same growth function -/
theorem encoded_sizes_eq (w₁ w₂ n : Nat) (hw₁ : 1 ≤ w₁) (hw₁' : w₁ ≤ 64) (hw₂ : 1 ≤ w₂) (hw₂' : w₂ ≤ 64)
    (perms : List (List Nat)) (hp : ∀ p ∈ perms, Cv.Perm.IsPermOf n p)
    (hash₁ hash₂ : List W → Int) (ic₁ ic₂ : Bool) (batch₁ batch₂ : Nat)
    (starts : List (List Nat))
    (hs₁ : ∀ s ∈ starts, encodable w₁ n s = true) (hs₂ : ∀ s ∈ starts, encodable w₂ n s = true)
    (hinj₁ : ∀ x y, Valid w₁ n x → Valid w₁ n y → hash₁ x = hash₁ y → x = y)
    (hinj₂ : ∀ x y, Valid w₂ n x → Valid w₂ n y → hash₂ x = hash₂ y → x = y)
    (hic₁ : ic₁ = true → SymmOnOrbit perms starts) (hic₂ : ic₂ = true → SymmOnOrbit perms starts)
    (hb₁ : 0 < batch₁) (hb₂ : 0 < batch₂) (c₁ c₂ : BfsCfg (List W))
    (hcomp₁ : (bfs (encodedPermGraph w₁ n perms hash₁ ic₁ batch₁) c₁
      (starts.map (encode w₁ n))).completed = true)
    (hcomp₂ : (bfs (encodedPermGraph w₂ n perms hash₂ ic₂ batch₂) c₂
      (starts.map (encode w₂ n))).completed = true) :
    (bfs (encodedPermGraph w₁ n perms hash₁ ic₁ batch₁) c₁ (starts.map (encode w₁ n))).layerSizes =
    (bfs (encodedPermGraph w₂ n perms hash₂ ic₂ batch₂) c₂ (starts.map (encode w₂ n))).layerSizes := by
  obtain ⟨a1, a2, -⟩ := encoded_bfs_spec w₁ n hw₁ hw₁' perms hp hash₁ ic₁ batch₁ starts hs₁ hinj₁ hic₁ hb₁ c₁ hcomp₁
  obtain ⟨b1, b2, -⟩ := encoded_bfs_spec w₂ n hw₂ hw₂' perms hp hash₂ ic₂ batch₂ starts hs₂ hinj₂ hic₂ hb₂ c₂ hcomp₂
  obtain ⟨a3, a4⟩ := encoded_sizes_facts w₁ n hw₁ hw₁' perms hp hash₁ ic₁ batch₁ starts hs₁ hinj₁ hic₁ hb₁ c₁
  obtain ⟨b3, b4⟩ := encoded_sizes_facts w₂ n hw₂ hw₂' perms hp hash₂ ic₂ batch₂ starts hs₂ hinj₂ hic₂ hb₂ c₂
  exact sizes_eq_of_spec (DistLayer (permGraphNb perms) starts) _ _ a1 b1 a2 b2 a3 b3 a4 b4

/-- an encoded run and an un-encoded run report the same growth function -/
theorem encoded_plain_sizes_eq (w n : Nat) (hw : 1 ≤ w) (hw' : w ≤ 64)
    (perms : List (List Nat)) (hp : ∀ p ∈ perms, Cv.Perm.IsPermOf n p)
    (hash₁ : List W → Int) (hash₂ : List Nat → Int) (ic₁ ic₂ : Bool) (batch₁ batch₂ : Nat)
    (starts : List (List Nat)) (hs : ∀ s ∈ starts, encodable w n s = true)
    (hinj₁ : ∀ x y, Valid w n x → Valid w n y → hash₁ x = hash₁ y → x = y)
    (hinj₂ : ∀ s t, InOrbit (permGraphNb perms) starts s → InOrbit (permGraphNb perms) starts t →
      hash₂ s = hash₂ t → s = t)
    (hic₁ : ic₁ = true → SymmOnOrbit perms starts) (hic₂ : ic₂ = true → SymmOnOrbit perms starts)
    (hb₁ : 0 < batch₁) (hb₂ : 0 < batch₂) (c₁ : BfsCfg (List W)) (c₂ : BfsCfg (List Nat))
    (hcomp₁ : (bfs (encodedPermGraph w n perms hash₁ ic₁ batch₁) c₁
      (starts.map (encode w n))).completed = true)
    (hcomp₂ : (bfs (plainPermGraph perms hash₂ ic₂ batch₂) c₂ starts).completed = true) :
    (bfs (encodedPermGraph w n perms hash₁ ic₁ batch₁) c₁ (starts.map (encode w n))).layerSizes =
    (bfs (plainPermGraph perms hash₂ ic₂ batch₂) c₂ starts).layerSizes := by
  obtain ⟨a1, a2, -⟩ := encoded_bfs_spec w n hw hw' perms hp hash₁ ic₁ batch₁ starts hs hinj₁ hic₁ hb₁ c₁ hcomp₁
  obtain ⟨a3, a4⟩ := encoded_sizes_facts w n hw hw' perms hp hash₁ ic₁ batch₁ starts hs hinj₁ hic₁ hb₁ c₁
  have hH := plain_bfsHypO perms hash₂ ic₂ batch₂ starts hinj₂ hic₂ hb₂
  obtain ⟨b1, b2, -⟩ := plain_bfs_spec perms hash₂ ic₂ batch₂ starts hinj₂ hic₂ hb₂ c₂ hcomp₂
  exact sizes_eq_of_spec (DistLayer (permGraphNb perms) starts) _ _ a1 b1 a2 b2 a3
    (fun i m hi hm => BfsThmO.sizes_pos hH c₂ i hi m hm) a4 (BfsThmO.sizes_length_pos hH c₂)

/-! ### transport facts for the encoded graph, completion from mathematical facts -/

section enc2
variable (w n : Nat) (hw : 1 ≤ w) (hw' : w ≤ 64) (perms : List (List Nat))
  (hp : ∀ p ∈ perms, Cv.Perm.IsPermOf n p) (hash : List W → Int) (ic : Bool) (batch : Nat)
  (starts : List (List Nat)) (hs : ∀ s ∈ starts, encodable w n s = true)
include hw hw' hp hs

/-- distance classes of the encoded graph are the encodings of the mathematical distance classes -/
theorem encoded_distLayer_iff (i : Nat) (x : List W)
    (hx : InOrbit (encodedPermGraph w n perms hash ic batch).nb (starts.map (encode w n)) x) :
    DistLayer (encodedPermGraph w n perms hash ic batch).nb (starts.map (encode w n)) i x ↔
      DistLayer (permGraphNb perms) starts i (decode w n x) := by
  have hval := valid_of_inOrbit w n hw hw' perms hp hash ic batch starts hs
  have := Transport.distLayer_iff (encodedPermGraph w n perms hash ic batch).nb (permGraphNb perms)
    (decode w n) (starts.map (encode w n))
    (fun x hx => encoded_hcomm w n hw hw' perms hp hash ic batch x (hval x hx))
    (fun x y hx hy => decode_inj_valid w n hw hw' x y (hval x hx) (hval y hy)) i x hx
  rw [map_decode_encode w n hw hw' starts hs] at this
  exact this

/-- an enumeration of an encoded distance class decodes to an enumeration of the mathematical one -/
theorem encoded_layer_map (i : Nat) (L : List (List W))
    (hL : IsLayer (encodedPermGraph w n perms hash ic batch) (starts.map (encode w n)) i L) :
    (L.map (decode w n)).Nodup ∧
      ∀ s, s ∈ L.map (decode w n) ↔ DistLayer (permGraphNb perms) starts i s := by
  have hval := valid_of_inOrbit w n hw hw' perms hp hash ic batch starts hs
  have := Transport.layer_map (encodedPermGraph w n perms hash ic batch).nb (permGraphNb perms)
    (decode w n) (starts.map (encode w n))
    (fun x hx => encoded_hcomm w n hw hw' perms hp hash ic batch x (hval x hx))
    (fun x y hx hy => decode_inj_valid w n hw hw' x y (hval x hx) (hval y hy)) i L hL.1 hL.2
  rw [map_decode_encode w n hw hw' starts hs] at this
  exact this

/-- the encoded search reports completion whenever the MATHEMATICAL graph has an empty class `k ≤ max_diameter`,
its orbit is smaller than `max_layer_size_to_explore` and no callback stops the run -/
theorem encoded_bfs_completes
    (hinj : ∀ x y, Valid w n x → Valid w n y → hash x = hash y → x = y)
    (hic : ic = true → SymmOnOrbit perms starts) (hb : 0 < batch) (c : BfsCfg (List W))
    (k : Nat) (hk : 1 ≤ k) (hkd : k ≤ c.maxDiameter)
    (hempty : ∀ s, ¬ DistLayer (permGraphNb perms) starts k s)
    (all : List (List Nat)) (hall : ∀ s, InOrbit (permGraphNb perms) starts s → s ∈ all)
    (hsmall : all.length < c.maxExplore)
    (hstop : ∀ f, c.stop = some f → ∀ i l, f i l = false) :
    (bfs (encodedPermGraph w n perms hash ic batch) c (starts.map (encode w n))).completed = true := by
  have hH := encoded_bfsHypO w n hw hw' perms hp hash ic batch starts hs hinj hic hb
  apply BfsThmO.completes hH c k hk hkd
  · intro x hx
    exact hempty _ ((encoded_distLayer_iff w n hw hw' perms hp hash ic batch starts hs k x hx.inOrbit).1 hx)
  · intro i L hL
    obtain ⟨hnd, hmem⟩ := encoded_layer_map w n hw hw' perms hp hash ic batch starts hs i L hL
    have hsub : L.map (decode w n) ⊆ all := fun s hs' => hall s ((hmem s).1 hs').inOrbit
    have := hnd.length_le_of_subset hsub
    rw [List.length_map] at this
    omega
  · exact hstop

end enc2

/-! ### single-word states: the 1-D routine -/

theorem length_evalProg (prog : List Stmt) (len : Nat) (x : List W) : (evalProg prog len x).length = len := by
  unfold evalProg
  rw [length_foldl_orAt prog (fun s => s.dst) (fun s => s.eval (x.getD s.src 0#64))]
  simp

theorem encodedPermGraph1d_eq (w n : Nat) (perms : List (List Nat)) (hash : List W → Int) (ic : Bool)
    (batch : Nat) :
    encodedPermGraph1d w n perms hash ic batch =
      (encodedPermGraph w n perms hash ic batch).withAct
        (fun i x => [evalProg1d (compile (perms.getD i []) w n) (x.getD 0 0#64)]) := rfl

/-- for single-word states the graph built from the 1-D routines gives exactly the same `bfs` output -/
theorem bfs_encoded1d (w n : Nat) (hw : 1 ≤ w) (hw' : w ≤ 64) (hlen : encLen w n = 1)
    (perms : List (List Nat)) (hp : ∀ p ∈ perms, Cv.Perm.IsPermOf n p) (hash : List W → Int) (ic : Bool)
    (batch : Nat) (c : BfsCfg (List W)) (S : List (List W)) (hS : ∀ x ∈ S, x.length = 1) :
    bfs (encodedPermGraph1d w n perms hash ic batch) c S =
      bfs (encodedPermGraph w n perms hash ic batch) c S := by
  rw [encodedPermGraph1d_eq]
  apply bfs_congr_act _ _ (fun x => x.length = 1) _ c S hS
  intro x hx i hi
  have hi' : i < perms.length := hi
  have hpi := hp _ (getD_mem perms [] i hi')
  constructor
  · match x, hx with
    | [a], _ =>
      show [evalProg1d (compile (perms.getD i []) w n) a] =
        evalProg (compile (perms.getD i []) w n) (encLen w n) [a]
      rw [hlen]
      exact evalProg1d_eq _ a (compile_src_dst_zero _ w n hw hw' hpi.length_eq
        ((Cv.Perm.isPermOf_iff_perm n _).1 hpi) hlen)
  · show (evalProg _ (encLen w n) x).length = 1
    rw [length_evalProg, hlen]

/-! ### completion of the un-encoded search from mathematical facts -/

theorem plain_bfs_completes (perms : List (List Nat)) (hash : List Nat → Int) (ic : Bool) (batch : Nat)
    (starts : List (List Nat))
    (hinj : ∀ s t, InOrbit (permGraphNb perms) starts s → InOrbit (permGraphNb perms) starts t →
      hash s = hash t → s = t)
    (hic : ic = true → SymmOnOrbit perms starts) (hb : 0 < batch) (c : BfsCfg (List Nat))
    (k : Nat) (hk : 1 ≤ k) (hkd : k ≤ c.maxDiameter)
    (hempty : ∀ s, ¬ DistLayer (permGraphNb perms) starts k s)
    (all : List (List Nat)) (hall : ∀ s, InOrbit (permGraphNb perms) starts s → s ∈ all)
    (hsmall : all.length < c.maxExplore)
    (hstop : ∀ f, c.stop = some f → ∀ i l, f i l = false) :
    (bfs (plainPermGraph perms hash ic batch) c starts).completed = true := by
  have hH := plain_bfsHypO perms hash ic batch starts hinj hic hb
  apply BfsThmO.completes hH c k hk hkd
  · rw [plain_nb]; exact hempty
  · intro i L hL
    unfold IsLayer at hL
    rw [plain_nb] at hL
    have hsub : L ⊆ all := fun s hs' => hall s ((hL.2 s).1 hs').inOrbit
    have := hL.1.length_le_of_subset hsub
    omega
  · exact hstop

/-! ### an injective (collision-free) hash on rows of any length, for non-vacuity examples

The library's hashes are 64-bit, so they cannot be injective on multi-word rows; the "no collision" hypothesis of the
theorems is an idealisation there.  `posHash` (the row read as a number in base `2^64` behind a leading 1) shows that
the hypothesis `Function.Injective hash` is satisfiable in the model, where hash values are unbounded integers. -/

def posCode : List W → Nat
  | [] => 1
  | a :: t => posCode t * 2 ^ 64 + a.toNat

def posHash (l : List W) : Int := Int.ofNat (posCode l)

theorem posCode_pos (l : List W) : 0 < posCode l := by
  induction l with
  | nil => decide
  | cons a t ih => unfold posCode; omega

theorem posCode_injective : ∀ l l' : List W, posCode l = posCode l' → l = l' := by
  intro l
  induction l with
  | nil =>
    intro l' h
    cases l' with
    | nil => rfl
    | cons b u =>
      have := posCode_pos u
      simp only [posCode] at h
      omega
  | cons a t ih =>
    intro l' h
    cases l' with
    | nil =>
      have := posCode_pos t
      simp only [posCode] at h
      omega
    | cons b u =>
      simp only [posCode] at h
      have ha := a.isLt
      have hb := b.isLt
      have h1 : posCode t = posCode u := by omega
      have h2 : a.toNat = b.toNat := by omega
      rw [ih u h1, BitVec.eq_of_toNat_eq h2]

theorem posHash_injective : Function.Injective posHash := by
  intro l l' h
  exact posCode_injective l l' (Int.ofNat.inj h)

end Cv.Instance
