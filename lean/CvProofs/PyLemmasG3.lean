/-
  Lemmas about the Python prelude (`CvModel/PyPrelude.lean`) and the bridge (`CvModel/PyBridge.lean`)
  used by worker g3 (constructors with a fixed or single-loop generator list).
-/
import CvModel.PyBridge
import CvModel.Families
import CvGen.PyPerm
import CvGen.PyFamilies
import CvProofs.FamiliesBase
namespace Cv.PyG3
open Cv.Py Cv.Families Cv.GraphDef Cv.Perm

/-! ### strings -/

theorem pyStr_nat (n : Nat) : pyStr (n : Int) = toString n := rfl

theorem pyStr_ofNat (n : Nat) : pyStr (Int.ofNat n) = toString n := rfl

/-! ### `toI` -/

@[simp] theorem toI_nil : toI [] = [] := rfl
@[simp] theorem toI_cons (a : Nat) (l : List Nat) : toI (a :: l) = (a : Int) :: toI l := rfl
@[simp] theorem toI_append (a b : List Nat) : toI (a ++ b) = toI a ++ toI b := by simp [toI]
@[simp] theorem length_toI (a : List Nat) : (toI a).length = a.length := by simp [toI]

theorem toN?_toI (l : List Nat) : toN? (toI l) = some l := by
  unfold toN? toI
  induction l with
  | nil => rfl
  | cons a t ih =>
    simp only [List.map_cons, List.mapM_cons, ih]
    simp

theorem mapM_toN?_toI (ls : List (List Nat)) : (ls.map toI).mapM toN? = some ls := by
  induction ls with
  | nil => rfl
  | cons a t ih => simp [List.mapM_cons, ih, toN?_toI]

/-! ### `pyRange` -/

theorem pyRange_up (a b : Int) :
    pyRange a b 1 = (List.range (b - a).toNat).map fun (k : Nat) => a + (k : Int) := by
  unfold pyRange
  simp

/-- `range(a, b)` for natural `a`, `b` -/
theorem pyRange_up_of (a b : Int) (a' b' : Nat) (ha : a = a') (hb : b = b') :
    pyRange a b 1 = toI (List.range' a' (b' - a')) := by
  subst ha hb
  rw [pyRange_up]
  apply List.ext_getElem
  · simp
  · intro i h1 h2
    simp [toI]

/-- `range(a, b, -1)` = `a, a-1, …, b+1` for `a + 1, b + 1` natural -/
theorem pyRange_down_of (a b : Int) (a' b' : Nat) (ha : a + 1 = a') (hb : b + 1 = b') :
    pyRange a b (-1) = toI (List.range' b' (a' - b')).reverse := by
  have ha' : a = (a' : Int) - 1 := by omega
  have hb' : b = (b' : Int) - 1 := by omega
  subst ha' hb'
  unfold pyRange
  simp only [show ¬ (0 : Int) < -1 by omega, if_false, show (-1 : Int) < 0 by omega, if_true]
  apply List.ext_getElem
  · simp; omega
  · intro i h1 h2
    simp at h1 h2
    simp [toI, List.getElem_reverse]
    omega

/-! ### `pyGet`, `pySet`, `pyAssert` -/

theorem pySet_nat {α : Type} (x : List α) (i : Nat) (v : α) (h : i < x.length) :
    pySet x (i : Int) v = some (x.set i v) := by
  unfold pySet
  simp [h]

@[simp] theorem pyAssert_true : pyAssert true = some () := rfl
@[simp] theorem pyAssert_false : pyAssert false = none := rfl

/-! ### loops -/

theorem foldlM_acc2_flat {ι α β : Type} (l : List ι)
    (body : List α × List β → ι → Option (List α × List β))
    (F : ι → List α) (G : ι → List β)
    (h : ∀ st, ∀ i ∈ l, body st i = some (st.1 ++ F i, st.2 ++ G i)) (a : List α) (b : List β) :
    l.foldlM body (a, b) = some (a ++ l.flatMap F, b ++ l.flatMap G) := by
  induction l generalizing a b with
  | nil => simp
  | cons x t ih =>
    rw [List.foldlM_cons, h _ x (by simp)]
    simp only [Option.bind_eq_bind, Option.bind_some]
    rw [ih (fun st i hi => h st i (by simp [hi]))]
    simp

theorem flatMap_single {ι α : Type} (f : ι → α) (l : List ι) :
    List.flatMap (fun i => [f i]) l = List.map f l := by
  induction l with
  | nil => rfl
  | cons x t ih => simp [List.flatMap_cons, ih]

theorem foldlM_acc2 {ι α β : Type} (l : List ι)
    (body : List α × List β → ι → Option (List α × List β))
    (f : ι → α) (g : ι → β)
    (h : ∀ st, ∀ i ∈ l, body st i = some (st.1 ++ [f i], st.2 ++ [g i])) (a : List α) (b : List β) :
    l.foldlM body (a, b) = some (a ++ l.map f, b ++ l.map g) := by
  rw [foldlM_acc2_flat l body (fun i => [f i]) (fun i => [g i]) h]
  rw [flatMap_single, flatMap_single]

/-- a loop over `range` of naturals pushing one generator and one name per iteration -/
theorem foldlM_toI_acc2 {α β : Type} (l : List Nat)
    (body : List α × List β → Int → Option (List α × List β))
    (f : Nat → α) (g : Nat → β)
    (h : ∀ st, ∀ m ∈ l, body st (m : Int) = some (st.1 ++ [f m], st.2 ++ [g m]))
    (a : List α) (b : List β) :
    (toI l).foldlM body (a, b) = some (a ++ l.map f, b ++ l.map g) := by
  unfold toI
  rw [List.foldlM_map]
  exact foldlM_acc2 l _ f g (fun st m hm => h st m hm) a b

theorem foldlM_toI_acc2_flat {α β : Type} (l : List Nat)
    (body : List α × List β → Int → Option (List α × List β))
    (F : Nat → List α) (G : Nat → List β)
    (h : ∀ st, ∀ m ∈ l, body st (m : Int) = some (st.1 ++ F m, st.2 ++ G m))
    (a : List α) (b : List β) :
    (toI l).foldlM body (a, b) = some (a ++ l.flatMap F, b ++ l.flatMap G) := by
  unfold toI
  rw [List.foldlM_map]
  exact foldlM_acc2_flat l _ F G (fun st m hm => h st m hm) a b

theorem mapM_toI_some {α : Type} (l : List Nat) (body : Int → Option α) (f : Nat → α)
    (h : ∀ m ∈ l, body (m : Int) = some (f m)) : (toI l).mapM body = some (l.map f) := by
  induction l with
  | nil => rfl
  | cons x t ih =>
    rw [toI_cons, List.mapM_cons, h x (by simp), ih (fun i hi => h i (by simp [hi]))]
    rfl

theorem mapM_some' {ι α : Type} (l : List ι) (body : ι → Option α) (f : ι → α)
    (h : ∀ i ∈ l, body i = some (f i)) : l.mapM body = some (l.map f) := by
  induction l with
  | nil => rfl
  | cons x t ih =>
    rw [List.mapM_cons, h x (by simp), ih (fun i hi => h i (by simp [hi]))]
    rfl

/-! ### `transposition` -/

theorem transposition_eq (n i j : Nat) (hi : i < n) (hj : j < n) (hij : i ≠ j) :
    Cv.PyGen.Perm.transposition (n : Int) (i : Int) (j : Int) = some (toI (oneLine n (swapFn i j))) := by
  unfold Cv.PyGen.Perm.transposition
  have h1 : (decide ((0 : Int) ≤ (i : Int)) && decide ((i : Int) < (n : Int))) = true := by
    simp; omega
  have h2 : (decide ((0 : Int) ≤ (j : Int)) && decide ((j : Int) < (n : Int))) = true := by
    simp; omega
  have h3 : ((i : Int) != (j : Int)) = true := by simp; omega
  rw [h1, h2, h3, pyRange_up_of 0 n 0 n rfl rfl]
  simp only [pyAssert_true, Option.bind_eq_bind, Option.bind_some, Nat.sub_zero]
  rw [pySet_nat _ _ _ (by simpa using hi)]
  simp only [Option.bind_some]
  rw [pySet_nat _ _ _ (by simpa using hj)]
  simp only [Option.some.injEq]
  apply List.ext_getElem
  · simp
  · intro p hp1 hp2
    simp only [toI, oneLine, List.getElem_set, swapFn, List.getElem_map, List.getElem_range]
    by_cases e1 : p = i
    · subst e1
      have : ¬ j = p := fun e => hij e.symm
      simp [this]
    · by_cases e2 : p = j
      · subst e2; simp [e1]
      · have e1' : ¬ i = p := fun e => e1 e.symm
        have e2' : ¬ j = p := fun e => e2 e.symm
        simp [e1, e2, e1', e2']

theorem transposition_none (n i j : Int) (h : ¬ (0 ≤ i ∧ i < n ∧ 0 ≤ j ∧ j < n ∧ i ≠ j)) :
    Cv.PyGen.Perm.transposition n i j = none := by
  unfold Cv.PyGen.Perm.transposition
  by_cases h1 : 0 ≤ i ∧ i < n
  · by_cases h2 : 0 ≤ j ∧ j < n
    · have h3 : (i != j) = false := by simp; omega
      rw [h3]
      simp [pyAssert]
    · have : (decide (0 ≤ j) && decide (j < n)) = false := by simp; omega
      rw [this]
      simp [pyAssert]
  · have : (decide (0 ≤ i) && decide (i < n)) = false := by simp; omega
    rw [this]
    simp [pyAssert]

/-! ### from raw arguments to `PermDef.create` -/

theorem rawToPermDef_of (r : RawDef) (d : PermDef) (len : Nat)
    (hg : r.gens = d.gens.map toI) (hc : r.central = some (toI d.central))
    (hn : r.names = some d.names) (hname : r.name = some d.name)
    (hv : Valid len d) (hne : d.gens ≠ []) (hlen : 0 < len) : rawToPermDef r = some d := by
  obtain ⟨v1, v2, v3⟩ := hv
  unfold rawToPermDef
  rw [hg, hc, hn, hname, mapM_toN?_toI]
  simp only [Option.map_some, Option.getD_some, Option.bind_eq_bind, Option.bind_some, toN?_toI]
  rw [create_self_iff]
  refine ⟨hne, ?_, v3, ?_, ?_⟩
  · rw [v2]; simpa using v1
  · rw [v2]; intro e; have := congrArg List.length e; simp at this; omega
  · rw [v2]; intro x hx; simpa using hx

/-- same with default names -/
theorem rawToPermDef_of_defaultNames (r : RawDef) (d : PermDef) (len : Nat)
    (hg : r.gens = d.gens.map toI) (hc : r.central = some (toI d.central))
    (hn : r.names = none) (hdn : d.names = d.gens.map defaultName) (hname : r.name = some d.name)
    (hv : Valid len d) (hne : d.gens ≠ []) (hlen : 0 < len) : rawToPermDef r = some d := by
  obtain ⟨v1, v2, v3⟩ := hv
  unfold rawToPermDef
  rw [hg, hc, hn, hname, mapM_toN?_toI]
  simp only [Option.map_some, Option.getD_some, Option.bind_eq_bind, Option.bind_some, toN?_toI]
  rw [create_eq_some_iff]
  cases hgd : d.gens with
  | nil => exact absurd hgd hne
  | cons g0 rest =>
    have hl : g0.length = len := (v1 g0 (by simp [hgd])).length_eq
    refine ⟨g0, rest, rfl, ?_, by simp, ?_, ?_, ?_, ?_⟩
    · intro p hp; rw [hl]; exact v1 p (by rw [hgd]; exact hp)
    · intro p hp; simp only [Option.getD_some, v2, List.length_range]
      exact (v1 p (by rw [hgd]; exact hp)).length_eq
    · simp only [Option.getD_some, v2]; intro e; have := congrArg List.length e; simp at this; omega
    · simp only [Option.getD_some, v2]; intro x hx; simpa using hx
    · simp only [Option.getD_none, Option.getD_some]
      cases d; simp_all

end Cv.PyG3
