/-
  Theorems about the closed-form specification of the library graph families
  (`CvModel/Families.lean`), for ALL admissible parameters.  Core Lean only.
-/
import CvProofs.FamiliesBase
namespace Cv.Families
open Cv.Perm Cv.GraphDef

/-! ## pancake -/

theorem permFamily_pancake (n : Nat) : permFamily "pancake" [n] = pancake n := rfl

theorem pancake_eq (n : Nat) (d : PermDef) (h : permFamily "pancake" [n] = some d) :
    2 ≤ n ∧ d = mk n (List.range (n - 1)) (fun t => prefixRevFn (t + 2))
      (fun t => "R" ++ showNat (t + 1)) ("pancake-" ++ showNat n) := by
  rw [permFamily_pancake] at h
  unfold pancake at h
  split at h
  · rename_i hn; simp only [Option.some.injEq] at h; exact ⟨hn, h.symm⟩
  · simp at h

theorem pancake_valid (n : Nat) (d : PermDef) (h : permFamily "pancake" [n] = some d) :
    (∀ p ∈ d.gens, IsPermOf n p) ∧ d.central = List.range n ∧ d.names.length = d.gens.length := by
  obtain ⟨hn, rfl⟩ := pancake_eq n d h
  apply mk_valid_of_invPair _ _ _ (fun t => prefixRevFn (t + 2))
  intro t ht
  exact prefixRevFn_invPair (by have := List.mem_range.1 ht; omega)

theorem pancake_count (n : Nat) (d : PermDef) (h : permFamily "pancake" [n] = some d) :
    d.gens.length = n - 1 := by
  obtain ⟨hn, rfl⟩ := pancake_eq n d h
  simp [mk_count]

/-- the prefix reversal of length `k` as a list: `k-1, …, 1, 0, k, k+1, …, n-1` -/
theorem oneLine_prefixRev (n k : Nat) (hk : k ≤ n) :
    oneLine n (prefixRevFn k) = (List.range k).reverse ++ List.range' k (n - k) := by
  rw [oneLine_eq_range', range'_split_at 0 n k hk, List.map_append, List.range_eq_range']
  congr 1
  · apply map_range'_desc; intro p _ hp; unfold prefixRevFn; pw
  · apply map_range'_asc; intro p hp _; unfold prefixRevFn; pw

/-- a prefix reversal acts on a sequence by reversing its first `k` entries -/
theorem apply_prefixRev (n k : Nat) (hk : k ≤ n) (x : List Nat) (hx : x.length = n) :
    apply (oneLine n (prefixRevFn k)) x = (x.take k).reverse ++ x.drop k := by
  rw [oneLine_prefixRev n k hk, apply_append, apply_reverse, apply_range k x (by omega), ← hx,
    apply_range'_to_end k x (by omega)]

/-- generator number `k-2` (named `R<k-1>`) is the reversal of the prefix of length `k` -/
theorem pancake_structure (n : Nat) (d : PermDef) (h : permFamily "pancake" [n] = some d) :
    ∀ k, 2 ≤ k → k ≤ n →
      d.gens[k - 2]? = some ((List.range k).reverse ++ List.range' k (n - k)) ∧
      d.names[k - 2]? = some ("R" ++ toString (k - 1)) ∧
      ∀ x : List Nat, x.length = n →
        apply ((List.range k).reverse ++ List.range' k (n - k)) x = (x.take k).reverse ++ x.drop k := by
  obtain ⟨hn, rfl⟩ := pancake_eq n d h
  intro k h2 hk
  refine ⟨?_, ?_, ?_⟩
  · rw [mk_gens, List.getElem?_map, List.getElem?_range (by omega)]
    simp only [Option.map_some]
    rw [show k - 2 + 2 = k by omega, oneLine_prefixRev n k hk]
  · rw [mk_names, List.getElem?_map, List.getElem?_range (by omega)]
    simp only [Option.map_some, showNat]
    rw [show k - 2 + 1 = k - 1 by omega]
  · intro x hx; rw [← oneLine_prefixRev n k hk]; exact apply_prefixRev n k hk x hx

theorem pancake_inverse_closed (n : Nat) (d : PermDef) (h : permFamily "pancake" [n] = some d) :
    d.inverseClosed = true := by
  obtain ⟨hn, rfl⟩ := pancake_eq n d h
  apply mk_inverseClosed_of_invol
  intro t ht
  exact prefixRevFn_invPair (by have := List.mem_range.1 ht; omega)

theorem pancake_defined_iff (n : Nat) : (permFamily "pancake" [n]).isSome ↔ 2 ≤ n := by
  rw [permFamily_pancake]; unfold pancake; split <;> simp_all

/-! ## lrx -/

theorem permFamily_lrx (n k : Nat) : permFamily "lrx" [n, k] = lrx n k := rfl
theorem permFamily_lrx_default (n : Nat) : permFamily "lrx" [n] = permFamily "lrx" [n, 1] := rfl

theorem lrx_eq (n k : Nat) (d : PermDef) (h : permFamily "lrx" [n, k] = some d) :
    (3 ≤ n ∧ 1 ≤ k ∧ k < n) ∧
    d = { gens := [oneLine n (shiftLFn n), oneLine n (shiftRFn n), oneLine n (swapFn 0 k)]
          names := ["L", "R", "X"]
          central := List.range n
          name := "lrx-" ++ showNat n ++ (if k = 1 then "" else "(k=" ++ showNat k ++ ")") } := by
  rw [permFamily_lrx] at h
  unfold lrx at h
  split at h
  · rename_i hn; simp only [Option.some.injEq] at h; exact ⟨hn, h.symm⟩
  · simp at h

theorem lrx_valid (n k : Nat) (d : PermDef) (h : permFamily "lrx" [n, k] = some d) :
    (∀ p ∈ d.gens, IsPermOf n p) ∧ d.central = List.range n ∧ d.names.length = d.gens.length := by
  obtain ⟨⟨hn, hk1, hk⟩, rfl⟩ := lrx_eq n k d h
  refine ⟨?_, rfl, rfl⟩
  intro p hp
  simp only [List.mem_cons, List.not_mem_nil, or_false] at hp
  rcases hp with rfl | rfl | rfl
  · exact (shiftL_invPair n).isPermOf
  · exact (shiftR_invPair n).isPermOf
  · exact (swapFn_invPair (by omega) hk).isPermOf

theorem lrx_count (n k : Nat) (d : PermDef) (h : permFamily "lrx" [n, k] = some d) :
    d.gens.length = 3 := by
  obtain ⟨_, rfl⟩ := lrx_eq n k d h; rfl

/-- L = left shift, R = right shift, X = the transposition of 0 and k -/
theorem lrx_structure (n k : Nat) (d : PermDef) (h : permFamily "lrx" [n, k] = some d) :
    d.names = ["L", "R", "X"] ∧
    d.gens = [List.range' 1 (n - 1) ++ [0], [n - 1] ++ List.range (n - 1), oneLine n (swapFn 0 k)] ∧
    transposition n 0 k = some (oneLine n (swapFn 0 k)) ∧
    ∀ x : List Nat, x.length = n →
      apply (List.range' 1 (n - 1) ++ [0]) x = x.drop 1 ++ x.take 1 ∧
      apply ([n - 1] ++ List.range (n - 1)) x = x.drop (n - 1) ++ x.take (n - 1) ∧
      apply (oneLine n (swapFn 0 k)) x = (x.set 0 (x.getD k 0)).set k (x.getD 0 0) := by
  obtain ⟨⟨hn, hk1, hk⟩, rfl⟩ := lrx_eq n k d h
  refine ⟨rfl, ?_, transposition_eq n 0 k (by omega) hk (by omega), ?_⟩
  · simp only [oneLine_shiftL n (by omega), oneLine_shiftR n (by omega)]
  · intro x hx
    rw [← oneLine_shiftL n (by omega), ← oneLine_shiftR n (by omega)]
    exact ⟨apply_shiftL n (by omega) x hx, apply_shiftR n (by omega) x hx,
      apply_swap n 0 k (by omega) hk x hx⟩

theorem lrx_name (n k : Nat) (d : PermDef) (h : permFamily "lrx" [n, k] = some d) :
    d.name = "lrx-" ++ toString n ++ (if k = 1 then "" else "(k=" ++ toString k ++ ")") := by
  obtain ⟨_, rfl⟩ := lrx_eq n k d h; rfl

theorem lrx_inverse_closed (n k : Nat) (d : PermDef) (h : permFamily "lrx" [n, k] = some d) :
    d.inverseClosed = true := by
  obtain ⟨⟨hn, hk1, hk⟩, rfl⟩ := lrx_eq n k d h
  rw [inverseClosed_true_iff]
  intro p hp
  simp only [List.mem_cons, List.not_mem_nil, or_false] at hp
  rcases hp with rfl | rfl | rfl
  · rw [(shiftL_invPair n).inverse_eq]; simp
  · rw [(shiftR_invPair n).inverse_eq]; simp
  · rw [(swapFn_invPair (by omega) hk).inverse_eq]; simp

theorem lrx_defined_iff (n k : Nat) :
    (permFamily "lrx" [n, k]).isSome ↔ 3 ≤ n ∧ 1 ≤ k ∧ k < n := by
  rw [permFamily_lrx]; unfold lrx; split <;> simp_all

/-! ## lx -/

theorem permFamily_lx (n : Nat) : permFamily "lx" [n] = lx n := rfl

theorem lx_eq (n : Nat) (d : PermDef) (h : permFamily "lx" [n] = some d) :
    3 ≤ n ∧
    d = { gens := [oneLine n (shiftLFn n), oneLine n (swapFn 0 1)]
          names := ["L", "X"]
          central := List.range n
          name := "lx-" ++ showNat n } := by
  rw [permFamily_lx] at h
  unfold lx at h
  split at h
  · rename_i hn; simp only [Option.some.injEq] at h; exact ⟨hn, h.symm⟩
  · simp at h

theorem lx_valid (n : Nat) (d : PermDef) (h : permFamily "lx" [n] = some d) :
    (∀ p ∈ d.gens, IsPermOf n p) ∧ d.central = List.range n ∧ d.names.length = d.gens.length := by
  obtain ⟨hn, rfl⟩ := lx_eq n d h
  refine ⟨?_, rfl, rfl⟩
  intro p hp
  simp only [List.mem_cons, List.not_mem_nil, or_false] at hp
  rcases hp with rfl | rfl
  · exact (shiftL_invPair n).isPermOf
  · exact (swapFn_invPair (by omega) (by omega)).isPermOf

theorem lx_count (n : Nat) (d : PermDef) (h : permFamily "lx" [n] = some d) : d.gens.length = 2 := by
  obtain ⟨_, rfl⟩ := lx_eq n d h; rfl

theorem lx_structure (n : Nat) (d : PermDef) (h : permFamily "lx" [n] = some d) :
    d.names = ["L", "X"] ∧
    d.gens = [List.range' 1 (n - 1) ++ [0], oneLine n (swapFn 0 1)] ∧
    transposition n 0 1 = some (oneLine n (swapFn 0 1)) ∧
    ∀ x : List Nat, x.length = n →
      apply (List.range' 1 (n - 1) ++ [0]) x = x.drop 1 ++ x.take 1 ∧
      apply (oneLine n (swapFn 0 1)) x = (x.set 0 (x.getD 1 0)).set 1 (x.getD 0 0) := by
  obtain ⟨hn, rfl⟩ := lx_eq n d h
  refine ⟨rfl, ?_, transposition_eq n 0 1 (by omega) (by omega) (by omega), ?_⟩
  · simp only [oneLine_shiftL n (by omega)]
  · intro x hx
    rw [← oneLine_shiftL n (by omega)]
    exact ⟨apply_shiftL n (by omega) x hx, apply_swap n 0 1 (by omega) (by omega) x hx⟩

theorem lx_name (n : Nat) (d : PermDef) (h : permFamily "lx" [n] = some d) :
    d.name = "lx-" ++ toString n := by
  obtain ⟨_, rfl⟩ := lx_eq n d h; rfl

/-- LX is NOT inverse-closed (the inverse of L, the right shift, is neither L nor X) -/
theorem lx_inverse_closed (n : Nat) (d : PermDef) (h : permFamily "lx" [n] = some d) :
    d.inverseClosed = false := by
  obtain ⟨hn, rfl⟩ := lx_eq n d h
  apply inverseClosed_false_of _ (oneLine n (shiftLFn n)) (by simp)
  rw [(shiftL_invPair n).inverse_eq]
  simp only [List.mem_cons, List.not_mem_nil, or_false, not_or]
  constructor
  · apply oneLine_ne_of 0 (by omega)
    rw [shiftRFn_eq (by omega), shiftLFn_eq (by omega)]; pw
  · apply oneLine_ne_of 0 (by omega)
    rw [shiftRFn_eq (by omega)]; unfold swapFn; pw

theorem lx_defined_iff (n : Nat) : (permFamily "lx" [n]).isSome ↔ 3 ≤ n := by
  rw [permFamily_lx]; unfold lx; split <;> simp_all

/-! ## top_spin -/

theorem permFamily_topSpin (n k : Nat) : permFamily "top_spin" [n, k] = topSpin n k := rfl
theorem permFamily_topSpin_default (n : Nat) :
    permFamily "top_spin" [n] = permFamily "top_spin" [n, 4] := rfl

theorem topSpin_eq (n k : Nat) (d : PermDef) (h : permFamily "top_spin" [n, k] = some d) :
    (2 ≤ k ∧ k ≤ n) ∧
    d = { gens := [oneLine n (shiftLFn n), oneLine n (shiftRFn n), oneLine n (prefixRevFn k)]
          names := [oneLine n (shiftLFn n), oneLine n (shiftRFn n), oneLine n (prefixRevFn k)].map
            defaultName
          central := List.range n
          name := "top_spin-" ++ showNat n ++ "-" ++ showNat k } := by
  rw [permFamily_topSpin] at h
  unfold topSpin at h
  split at h
  · rename_i hn; simp only [Option.some.injEq] at h; exact ⟨hn, h.symm⟩
  · simp at h

theorem top_spin_valid (n k : Nat) (d : PermDef) (h : permFamily "top_spin" [n, k] = some d) :
    (∀ p ∈ d.gens, IsPermOf n p) ∧ d.central = List.range n ∧ d.names.length = d.gens.length := by
  obtain ⟨⟨hk2, hk⟩, rfl⟩ := topSpin_eq n k d h
  refine ⟨?_, rfl, rfl⟩
  intro p hp
  simp only [List.mem_cons, List.not_mem_nil, or_false] at hp
  rcases hp with rfl | rfl | rfl
  · exact (shiftL_invPair n).isPermOf
  · exact (shiftR_invPair n).isPermOf
  · exact (prefixRevFn_invPair hk).isPermOf

theorem top_spin_count (n k : Nat) (d : PermDef) (h : permFamily "top_spin" [n, k] = some d) :
    d.gens.length = 3 := by
  obtain ⟨_, rfl⟩ := topSpin_eq n k d h; rfl

/-- left shift, right shift, reversal of the first `k` entries; default names -/
theorem top_spin_structure (n k : Nat) (d : PermDef) (h : permFamily "top_spin" [n, k] = some d) :
    d.names = d.gens.map defaultName ∧
    d.gens = [List.range' 1 (n - 1) ++ [0], [n - 1] ++ List.range (n - 1),
              (List.range k).reverse ++ List.range' k (n - k)] ∧
    ∀ x : List Nat, x.length = n →
      apply (List.range' 1 (n - 1) ++ [0]) x = x.drop 1 ++ x.take 1 ∧
      apply ([n - 1] ++ List.range (n - 1)) x = x.drop (n - 1) ++ x.take (n - 1) ∧
      apply ((List.range k).reverse ++ List.range' k (n - k)) x = (x.take k).reverse ++ x.drop k := by
  obtain ⟨⟨hk2, hk⟩, rfl⟩ := topSpin_eq n k d h
  refine ⟨rfl, ?_, ?_⟩
  · simp only [oneLine_shiftL n (by omega), oneLine_shiftR n (by omega), oneLine_prefixRev n k hk]
  · intro x hx
    rw [← oneLine_shiftL n (by omega), ← oneLine_shiftR n (by omega), ← oneLine_prefixRev n k hk]
    exact ⟨apply_shiftL n (by omega) x hx, apply_shiftR n (by omega) x hx, apply_prefixRev n k hk x hx⟩

theorem top_spin_inverse_closed (n k : Nat) (d : PermDef) (h : permFamily "top_spin" [n, k] = some d) :
    d.inverseClosed = true := by
  obtain ⟨⟨hk2, hk⟩, rfl⟩ := topSpin_eq n k d h
  rw [inverseClosed_true_iff]
  intro p hp
  simp only [List.mem_cons, List.not_mem_nil, or_false] at hp
  rcases hp with rfl | rfl | rfl
  · rw [(shiftL_invPair n).inverse_eq]; simp
  · rw [(shiftR_invPair n).inverse_eq]; simp
  · rw [(prefixRevFn_invPair hk).inverse_eq]; simp

theorem top_spin_defined_iff (n k : Nat) :
    (permFamily "top_spin" [n, k]).isSome ↔ 2 ≤ k ∧ k ≤ n := by
  rw [permFamily_topSpin]; unfold topSpin; split <;> simp_all

/-! ## coxeter -/

theorem permFamily_coxeter (n : Nat) : permFamily "coxeter" [n] = coxeter n := rfl

theorem coxeter_eq (n : Nat) (d : PermDef) (h : permFamily "coxeter" [n] = some d) :
    2 ≤ n ∧ d = mk n (List.range (n - 1)) (fun i => swapFn i (i + 1)) (fun i => s!"({i},{i + 1})")
      ("coxeter-" ++ showNat n) := by
  rw [permFamily_coxeter] at h
  unfold coxeter at h
  split at h
  · rename_i hn; simp only [Option.some.injEq] at h; exact ⟨hn, h.symm⟩
  · simp at h

theorem coxeter_valid (n : Nat) (d : PermDef) (h : permFamily "coxeter" [n] = some d) :
    (∀ p ∈ d.gens, IsPermOf n p) ∧ d.central = List.range n ∧ d.names.length = d.gens.length := by
  obtain ⟨hn, rfl⟩ := coxeter_eq n d h
  apply mk_valid_of_invPair _ _ _ (fun i => swapFn i (i + 1))
  intro i hi
  have := List.mem_range.1 hi
  exact swapFn_invPair (by omega) (by omega)

theorem coxeter_count (n : Nat) (d : PermDef) (h : permFamily "coxeter" [n] = some d) :
    d.gens.length = n - 1 := by
  obtain ⟨hn, rfl⟩ := coxeter_eq n d h
  simp [mk_count]

/-- generator `i` is the adjacent transposition `(i, i+1)`, named `"(i,i+1)"` -/
theorem coxeter_structure (n : Nat) (d : PermDef) (h : permFamily "coxeter" [n] = some d) :
    ∀ i, i + 1 < n →
      d.gens[i]? = transposition n i (i + 1) ∧
      d.names[i]? = some ("(" ++ toString i ++ "," ++ toString (i + 1) ++ ")") ∧
      ∀ x : List Nat, x.length = n →
        (d.gens[i]?.map fun g => apply g x) = some ((x.set i (x.getD (i + 1) 0)).set (i + 1) (x.getD i 0)) := by
  obtain ⟨hn, rfl⟩ := coxeter_eq n d h
  intro i hi
  have hg : (mk n (List.range (n - 1)) (fun i => swapFn i (i + 1)) (fun i => s!"({i},{i + 1})")
      ("coxeter-" ++ showNat n)).gens[i]? = some (oneLine n (swapFn i (i + 1))) := by
    rw [mk_gens, List.getElem?_map, List.getElem?_range (by omega)]; rfl
  refine ⟨?_, ?_, ?_⟩
  · rw [hg, transposition_eq n i (i + 1) (by omega) hi (by omega)]
  · rw [mk_names, List.getElem?_map, List.getElem?_range (by omega)]; rfl
  · intro x hx
    rw [hg, Option.map_some, apply_swap n i (i + 1) (by omega) hi x hx]

theorem coxeter_inverse_closed (n : Nat) (d : PermDef) (h : permFamily "coxeter" [n] = some d) :
    d.inverseClosed = true := by
  obtain ⟨hn, rfl⟩ := coxeter_eq n d h
  apply mk_inverseClosed_of_invol
  intro i hi
  have := List.mem_range.1 hi
  exact swapFn_invPair (by omega) (by omega)

theorem coxeter_defined_iff (n : Nat) : (permFamily "coxeter" [n]).isSome ↔ 2 ≤ n := by
  rw [permFamily_coxeter]; unfold coxeter; split <;> simp_all

/-! ## cyclic_coxeter -/

theorem permFamily_cyclicCoxeter (n : Nat) : permFamily "cyclic_coxeter" [n] = cyclicCoxeter n := rfl

theorem cyclicCoxeter_eq (n : Nat) (d : PermDef) (h : permFamily "cyclic_coxeter" [n] = some d) :
    2 ≤ n ∧ d = mk n (List.range n)
      (fun i => if i + 1 < n then swapFn i (i + 1) else swapFn 0 (n - 1))
      (fun i => if i + 1 < n then s!"({i},{i + 1})" else s!"(0,{n - 1})")
      ("cyclic_coxeter-" ++ showNat n) := by
  rw [permFamily_cyclicCoxeter] at h
  unfold cyclicCoxeter at h
  split at h
  · rename_i hn; simp only [Option.some.injEq] at h; exact ⟨hn, h.symm⟩
  · simp at h

theorem cyclicCoxeter_invPair (n i : Nat) (hn : 2 ≤ n) (hi : i < n) :
    InvPair n (if i + 1 < n then swapFn i (i + 1) else swapFn 0 (n - 1))
      (if i + 1 < n then swapFn i (i + 1) else swapFn 0 (n - 1)) := by
  split
  · exact swapFn_invPair (by omega) (by omega)
  · exact swapFn_invPair (by omega) (by omega)

theorem cyclic_coxeter_valid (n : Nat) (d : PermDef) (h : permFamily "cyclic_coxeter" [n] = some d) :
    (∀ p ∈ d.gens, IsPermOf n p) ∧ d.central = List.range n ∧ d.names.length = d.gens.length := by
  obtain ⟨hn, rfl⟩ := cyclicCoxeter_eq n d h
  apply mk_valid_of_invPair _ _ _ (fun i => if i + 1 < n then swapFn i (i + 1) else swapFn 0 (n - 1))
  intro i hi
  exact cyclicCoxeter_invPair n i hn (List.mem_range.1 hi)

theorem cyclic_coxeter_count (n : Nat) (d : PermDef) (h : permFamily "cyclic_coxeter" [n] = some d) :
    d.gens.length = n := by
  obtain ⟨hn, rfl⟩ := cyclicCoxeter_eq n d h
  simp [mk_count]

/-- generators `0..n-2` are the adjacent transpositions, generator `n-1` is `(0, n-1)` -/
theorem cyclic_coxeter_structure (n : Nat) (d : PermDef)
    (h : permFamily "cyclic_coxeter" [n] = some d) :
    (∀ i, i + 1 < n →
      d.gens[i]? = transposition n i (i + 1) ∧
      d.names[i]? = some ("(" ++ toString i ++ "," ++ toString (i + 1) ++ ")")) ∧
    d.gens[n - 1]? = transposition n 0 (n - 1) ∧
    d.names[n - 1]? = some ("(0," ++ toString (n - 1) ++ ")") := by
  obtain ⟨hn, rfl⟩ := cyclicCoxeter_eq n d h
  refine ⟨?_, ?_, ?_⟩
  · intro i hi
    constructor
    · rw [mk_gens, List.getElem?_map, List.getElem?_range (by omega)]
      simp only [Option.map_some, if_pos hi]
      rw [transposition_eq n i (i + 1) (by omega) hi (by omega)]
    · rw [mk_names, List.getElem?_map, List.getElem?_range (by omega)]
      simp only [Option.map_some, if_pos hi]; rfl
  · rw [mk_gens, List.getElem?_map, List.getElem?_range (by omega)]
    simp only [Option.map_some, if_neg (show ¬ n - 1 + 1 < n by omega)]
    rw [transposition_eq n 0 (n - 1) (by omega) (by omega) (by omega)]
  · rw [mk_names, List.getElem?_map, List.getElem?_range (by omega)]
    simp only [Option.map_some, if_neg (show ¬ n - 1 + 1 < n by omega)]; rfl

theorem cyclic_coxeter_inverse_closed (n : Nat) (d : PermDef)
    (h : permFamily "cyclic_coxeter" [n] = some d) : d.inverseClosed = true := by
  obtain ⟨hn, rfl⟩ := cyclicCoxeter_eq n d h
  apply mk_inverseClosed_of_invol
  intro i hi
  exact cyclicCoxeter_invPair n i hn (List.mem_range.1 hi)

theorem cyclic_coxeter_defined_iff (n : Nat) : (permFamily "cyclic_coxeter" [n]).isSome ↔ 2 ≤ n := by
  rw [permFamily_cyclicCoxeter]; unfold cyclicCoxeter; split <;> simp_all

/-- boundary observation: for `n = 2` the "cyclic" transposition `(0, n-1)` coincides with `(0,1)`,
so the generator list contains a duplicate -/
example : (permFamily "cyclic_coxeter" [2]).map (·.gens) = some [[1, 0], [1, 0]] := by decide

/-! ## stars, generalized_stars, all_transpositions -/

theorem permFamily_stars (n : Nat) : permFamily "stars" [n] = stars n := rfl

theorem stars_eq (n : Nat) (d : PermDef) (h : permFamily "stars" [n] = some d) :
    3 ≤ n ∧ d = mk n (List.range' 1 (n - 1)) (fun i => swapFn 0 i) (fun i => "S" ++ showNat i)
      ("stars-" ++ showNat n) := by
  rw [permFamily_stars] at h
  unfold stars at h
  split at h
  · rename_i hn; simp only [Option.some.injEq] at h; exact ⟨hn, h.symm⟩
  · simp at h

theorem stars_valid (n : Nat) (d : PermDef) (h : permFamily "stars" [n] = some d) :
    (∀ p ∈ d.gens, IsPermOf n p) ∧ d.central = List.range n ∧ d.names.length = d.gens.length := by
  obtain ⟨hn, rfl⟩ := stars_eq n d h
  apply mk_valid_of_invPair _ _ _ (fun i => swapFn 0 i)
  intro i hi
  have := List.mem_range'_1.1 hi
  exact swapFn_invPair (by omega) (by omega)

theorem stars_count (n : Nat) (d : PermDef) (h : permFamily "stars" [n] = some d) :
    d.gens.length = n - 1 := by
  obtain ⟨hn, rfl⟩ := stars_eq n d h
  simp [mk_count]

/-- generator number `i-1` is the transposition `(0, i)`, named `S<i>` -/
theorem stars_structure (n : Nat) (d : PermDef) (h : permFamily "stars" [n] = some d) :
    ∀ i, 1 ≤ i → i < n →
      d.gens[i - 1]? = transposition n 0 i ∧ d.names[i - 1]? = some ("S" ++ toString i) := by
  obtain ⟨hn, rfl⟩ := stars_eq n d h
  intro i h1 hi
  constructor
  · rw [mk_gens, List.getElem?_map, List.getElem?_range' (by omega)]
    simp only [Option.map_some, Nat.one_mul]
    rw [show 1 + (i - 1) = i by omega, transposition_eq n 0 i (by omega) hi (by omega)]
  · rw [mk_names, List.getElem?_map, List.getElem?_range' (by omega)]
    simp only [Option.map_some, Nat.one_mul, showNat]
    rw [show 1 + (i - 1) = i by omega]

theorem stars_inverse_closed (n : Nat) (d : PermDef) (h : permFamily "stars" [n] = some d) :
    d.inverseClosed = true := by
  obtain ⟨hn, rfl⟩ := stars_eq n d h
  apply mk_inverseClosed_of_invol
  intro i hi
  have := List.mem_range'_1.1 hi
  exact swapFn_invPair (by omega) (by omega)

theorem stars_defined_iff (n : Nat) : (permFamily "stars" [n]).isSome ↔ 3 ≤ n := by
  rw [permFamily_stars]; unfold stars; split <;> simp_all

theorem permFamily_generalizedStars (n k : Nat) :
    permFamily "generalized_stars" [n, k] = generalizedStars n k := rfl
theorem permFamily_generalizedStars_default (n : Nat) :
    permFamily "generalized_stars" [n] = permFamily "generalized_stars" [n, 1] := rfl

theorem generalizedStars_eq (n k : Nat) (d : PermDef)
    (h : permFamily "generalized_stars" [n, k] = some d) :
    (3 ≤ n ∧ 1 ≤ k ∧ k < n) ∧
    d = mk n (pairsSplit n k) (fun x => swapFn x.1 x.2) (fun x => s!"S{x.1}-{x.2}")
      ("generalized-stars-" ++ showNat n ++ "-" ++ showNat k) := by
  rw [permFamily_generalizedStars] at h
  unfold generalizedStars at h
  split at h
  · rename_i hn; simp only [Option.some.injEq] at h; exact ⟨hn, h.symm⟩
  · simp at h

theorem generalized_stars_valid (n k : Nat) (d : PermDef)
    (h : permFamily "generalized_stars" [n, k] = some d) :
    (∀ p ∈ d.gens, IsPermOf n p) ∧ d.central = List.range n ∧ d.names.length = d.gens.length := by
  obtain ⟨hn, rfl⟩ := generalizedStars_eq n k d h
  apply mk_valid_of_invPair _ _ _ (fun x => swapFn x.1 x.2)
  rintro ⟨i, j⟩ hx
  have := (mem_pairsSplit n k i j).1 hx
  exact swapFn_invPair (by omega) (by omega)

theorem generalized_stars_count (n k : Nat) (d : PermDef)
    (h : permFamily "generalized_stars" [n, k] = some d) : d.gens.length = k * (n - k) := by
  obtain ⟨hn, rfl⟩ := generalizedStars_eq n k d h
  rw [mk_count, length_pairsSplit]

/-- the generators are the transpositions `(i j)`, `i < k ≤ j < n`, named `S<i>-<j>` -/
theorem generalized_stars_structure (n k : Nat) (d : PermDef)
    (h : permFamily "generalized_stars" [n, k] = some d) :
    d.gens.map some = (pairsSplit n k).map (fun x => transposition n x.1 x.2) ∧
    d.names = (pairsSplit n k).map (fun x => "S" ++ toString x.1 ++ "-" ++ toString x.2) ∧
    ∀ i j, (i, j) ∈ pairsSplit n k ↔ i < k ∧ k ≤ j ∧ j < n := by
  obtain ⟨hn, rfl⟩ := generalizedStars_eq n k d h
  refine ⟨?_, rfl, mem_pairsSplit n k⟩
  rw [mk_gens, List.map_map]
  apply List.map_congr_left
  rintro ⟨i, j⟩ hx
  have := (mem_pairsSplit n k i j).1 hx
  simp only [Function.comp_apply]
  rw [transposition_eq n i j (by omega) (by omega) (by omega)]

theorem generalized_stars_inverse_closed (n k : Nat) (d : PermDef)
    (h : permFamily "generalized_stars" [n, k] = some d) : d.inverseClosed = true := by
  obtain ⟨hn, rfl⟩ := generalizedStars_eq n k d h
  apply mk_inverseClosed_of_invol
  rintro ⟨i, j⟩ hx
  have := (mem_pairsSplit n k i j).1 hx
  exact swapFn_invPair (by omega) (by omega)

theorem generalized_stars_defined_iff (n k : Nat) :
    (permFamily "generalized_stars" [n, k]).isSome ↔ 3 ≤ n ∧ 1 ≤ k ∧ k < n := by
  rw [permFamily_generalizedStars]; unfold generalizedStars; split <;> simp_all

theorem permFamily_allTranspositions (n : Nat) :
    permFamily "all_transpositions" [n] = allTranspositions n := rfl

theorem allTranspositions_eq (n : Nat) (d : PermDef)
    (h : permFamily "all_transpositions" [n] = some d) :
    2 ≤ n ∧ d = mk n (pairsLt n) (fun x => swapFn x.1 x.2) (fun x => s!"({x.1},{x.2})") "" := by
  rw [permFamily_allTranspositions] at h
  unfold allTranspositions at h
  split at h
  · rename_i hn; simp only [Option.some.injEq] at h; exact ⟨hn, h.symm⟩
  · simp at h

theorem all_transpositions_valid (n : Nat) (d : PermDef)
    (h : permFamily "all_transpositions" [n] = some d) :
    (∀ p ∈ d.gens, IsPermOf n p) ∧ d.central = List.range n ∧ d.names.length = d.gens.length := by
  obtain ⟨hn, rfl⟩ := allTranspositions_eq n d h
  apply mk_valid_of_invPair _ _ _ (fun x => swapFn x.1 x.2)
  rintro ⟨i, j⟩ hx
  have := (mem_pairsLt n i j).1 hx
  exact swapFn_invPair (by omega) (by omega)

/-- `n(n-1)/2` generators -/
theorem all_transpositions_count (n : Nat) (d : PermDef)
    (h : permFamily "all_transpositions" [n] = some d) : 2 * d.gens.length = n * (n - 1) := by
  obtain ⟨hn, rfl⟩ := allTranspositions_eq n d h
  rw [mk_count, length_pairsLt]

/-- the generators are the transpositions `(i j)`, `i < j < n`, in lexicographic order, named `(i,j)` -/
theorem all_transpositions_structure (n : Nat) (d : PermDef)
    (h : permFamily "all_transpositions" [n] = some d) :
    d.gens.map some = (pairsLt n).map (fun x => transposition n x.1 x.2) ∧
    d.names = (pairsLt n).map (fun x => "(" ++ toString x.1 ++ "," ++ toString x.2 ++ ")") ∧
    ∀ i j, (i, j) ∈ pairsLt n ↔ i < j ∧ j < n := by
  obtain ⟨hn, rfl⟩ := allTranspositions_eq n d h
  refine ⟨?_, rfl, mem_pairsLt n⟩
  rw [mk_gens, List.map_map]
  apply List.map_congr_left
  rintro ⟨i, j⟩ hx
  have := (mem_pairsLt n i j).1 hx
  simp only [Function.comp_apply]
  rw [transposition_eq n i j (by omega) (by omega) (by omega)]

theorem all_transpositions_inverse_closed (n : Nat) (d : PermDef)
    (h : permFamily "all_transpositions" [n] = some d) : d.inverseClosed = true := by
  obtain ⟨hn, rfl⟩ := allTranspositions_eq n d h
  apply mk_inverseClosed_of_invol
  rintro ⟨i, j⟩ hx
  have := (mem_pairsLt n i j).1 hx
  exact swapFn_invPair (by omega) (by omega)

theorem all_transpositions_defined_iff (n : Nat) :
    (permFamily "all_transpositions" [n]).isSome ↔ 2 ≤ n := by
  rw [permFamily_allTranspositions]; unfold allTranspositions; split <;> simp_all

/-! ## full_reversals -/

/-- reversal of the segment `i..j` as a list -/
theorem oneLine_rev (n i j : Nat) (hij : i ≤ j) (hj : j < n) :
    oneLine n (revFn i j) =
      List.range i ++ (List.range' i (j + 1 - i)).reverse ++ List.range' (j + 1) (n - (j + 1)) := by
  rw [oneLine_eq_ico, ico_cut 0 n i (by omega) (by omega), ico_cut i n (j + 1) (by omega) (by omega),
    List.map_append, List.map_append, List.range_eq_range', ← List.append_assoc]
  congr 1
  · congr 1
    · apply map_ico_id; intro p _ hp; unfold revFn; pw
    · apply map_ico_desc; intro p h1 h2; unfold revFn; pw
  · apply map_ico_id; intro p h1 _; unfold revFn; pw

/-- it reverses the entries `i..j` of a sequence -/
theorem apply_rev (n i j : Nat) (hij : i ≤ j) (hj : j < n) (x : List Nat) (hx : x.length = n) :
    apply (oneLine n (revFn i j)) x =
      x.take i ++ ((x.drop i).take (j + 1 - i)).reverse ++ x.drop (j + 1) := by
  rw [oneLine_rev n i j hij hj, apply_append, apply_append, apply_reverse,
    apply_range i x (by omega), apply_range' i (j + 1 - i) x (by omega), ← hx,
    apply_range'_to_end (j + 1) x (by omega)]

theorem permFamily_fullReversals (n : Nat) : permFamily "full_reversals" [n] = fullReversals n := rfl

theorem fullReversals_eq (n : Nat) (d : PermDef) (h : permFamily "full_reversals" [n] = some d) :
    2 ≤ n ∧ d = mk n (pairsLt n) (fun x => revFn x.1 x.2) (fun x => s!"R[{x.1}..{x.2}]") "" := by
  rw [permFamily_fullReversals] at h
  unfold fullReversals at h
  split at h
  · rename_i hn; simp only [Option.some.injEq] at h; exact ⟨hn, h.symm⟩
  · simp at h

theorem full_reversals_valid (n : Nat) (d : PermDef) (h : permFamily "full_reversals" [n] = some d) :
    (∀ p ∈ d.gens, IsPermOf n p) ∧ d.central = List.range n ∧ d.names.length = d.gens.length := by
  obtain ⟨hn, rfl⟩ := fullReversals_eq n d h
  apply mk_valid_of_invPair _ _ _ (fun x => revFn x.1 x.2)
  rintro ⟨i, j⟩ hx
  have := (mem_pairsLt n i j).1 hx
  exact revFn_invPair (by omega)

/-- `n(n-1)/2` generators -/
theorem full_reversals_count (n : Nat) (d : PermDef) (h : permFamily "full_reversals" [n] = some d) :
    2 * d.gens.length = n * (n - 1) := by
  obtain ⟨hn, rfl⟩ := fullReversals_eq n d h
  rw [mk_count, length_pairsLt]

/-- the generators are the reversals of the substrings `i..j`, `i < j < n` (lexicographic order),
named `R[i..j]` -/
theorem full_reversals_structure (n : Nat) (d : PermDef)
    (h : permFamily "full_reversals" [n] = some d) :
    d.gens = (pairsLt n).map (fun x =>
      List.range x.1 ++ (List.range' x.1 (x.2 + 1 - x.1)).reverse ++ List.range' (x.2 + 1) (n - (x.2 + 1))) ∧
    d.names = (pairsLt n).map (fun x => "R[" ++ toString x.1 ++ ".." ++ toString x.2 ++ "]") ∧
    (∀ i j, (i, j) ∈ pairsLt n ↔ i < j ∧ j < n) ∧
    ∀ i j, i < j → j < n → ∀ x : List Nat, x.length = n →
      apply (List.range i ++ (List.range' i (j + 1 - i)).reverse ++ List.range' (j + 1) (n - (j + 1))) x =
        x.take i ++ ((x.drop i).take (j + 1 - i)).reverse ++ x.drop (j + 1) := by
  obtain ⟨hn, rfl⟩ := fullReversals_eq n d h
  refine ⟨?_, rfl, mem_pairsLt n, ?_⟩
  · rw [mk_gens]
    apply List.map_congr_left
    rintro ⟨i, j⟩ hx
    have := (mem_pairsLt n i j).1 hx
    exact oneLine_rev n i j (by omega) (by omega)
  · intro i j hij hj x hx
    rw [← oneLine_rev n i j (by omega) hj]; exact apply_rev n i j (by omega) hj x hx

theorem full_reversals_inverse_closed (n : Nat) (d : PermDef)
    (h : permFamily "full_reversals" [n] = some d) : d.inverseClosed = true := by
  obtain ⟨hn, rfl⟩ := fullReversals_eq n d h
  apply mk_inverseClosed_of_invol
  rintro ⟨i, j⟩ hx
  have := (mem_pairsLt n i j).1 hx
  exact revFn_invPair (by omega)

theorem full_reversals_defined_iff (n : Nat) : (permFamily "full_reversals" [n]).isSome ↔ 2 ≤ n := by
  rw [permFamily_fullReversals]; unfold fullReversals; split <;> simp_all

/-! ## signed_reversals, burnt_pancake -/

/-- signed reversal of the elements `i..j` as a list of `2n` sides -/
theorem oneLine_signedRev (n i j : Nat) (hij : i ≤ j) (hj : j < n) :
    oneLine (2 * n) (signedRevFn n i j) =
      List.range i ++ (List.range' (n + i) (j + 1 - i)).reverse ++ List.range' (j + 1) (n - (j + 1)) ++
      List.range' n i ++ (List.range' i (j + 1 - i)).reverse ++
      List.range' (n + j + 1) (n - (j + 1)) := by
  rw [oneLine_eq_ico, ico_cut 0 (2 * n) i (by omega) (by omega),
    ico_cut i (2 * n) (j + 1) (by omega) (by omega), ico_cut (j + 1) (2 * n) n (by omega) (by omega),
    ico_cut n (2 * n) (n + i) (by omega) (by omega),
    ico_cut (n + i) (2 * n) (n + j + 1) (by omega) (by omega)]
  simp only [List.map_append, List.range_eq_range', ← List.append_assoc]
  congr 1
  · congr 1
    · congr 1
      · congr 1
        · congr 1
          · apply map_ico_asc' _ _ _ _ (by omega); intro p _ hp; unfold signedRevFn; pw
          · apply map_ico_desc' _ _ _ _ (by omega); intro p h1 h2; unfold signedRevFn; pw
        · apply map_ico_asc' _ _ _ _ (by omega); intro p h1 h2; unfold signedRevFn; pw
      · apply map_ico_asc' _ _ _ _ (by omega); intro p h1 h2; unfold signedRevFn; pw
    · apply map_ico_desc' _ _ _ _ (by omega); intro p h1 h2; unfold signedRevFn; pw
  · apply map_ico_asc' _ _ _ _ (by omega); intro p h1 h2; unfold signedRevFn; pw

/-- action on a sequence `B ++ T` of `n` bottom sides followed by `n` top sides: the segment `i..j` is
reversed and every element in it is turned over (its bottom and top sides are exchanged) -/
theorem apply_signedRev (n i j : Nat) (hij : i ≤ j) (hj : j < n) (B T : List Nat)
    (hB : B.length = n) (hT : T.length = n) :
    apply (oneLine (2 * n) (signedRevFn n i j)) (B ++ T) =
      (B.take i ++ ((T.drop i).take (j + 1 - i)).reverse ++ B.drop (j + 1)) ++
      (T.take i ++ ((B.drop i).take (j + 1 - i)).reverse ++ T.drop (j + 1)) := by
  have hx : (B ++ T).length = 2 * n := by simp [hB, hT]; omega
  rw [oneLine_signedRev n i j hij hj]
  simp only [apply_append, apply_reverse]
  rw [apply_range i _ (by omega), apply_range' (n + i) (j + 1 - i) _ (by omega),
    apply_range' (j + 1) (n - (j + 1)) _ (by omega), apply_range' n i _ (by omega),
    apply_range' i (j + 1 - i) _ (by omega), apply_range' (n + j + 1) (n - (j + 1)) _ (by omega)]
  have e1 : (B ++ T).take i = B.take i := by rw [List.take_append_of_le_length (by omega)]
  have e2 : (B ++ T).drop (n + i) = T.drop i := by
    rw [List.drop_append, List.drop_of_length_le (by omega), List.nil_append,
      show n + i - B.length = i by omega]
  have e3 : ((B ++ T).drop (j + 1)).take (n - (j + 1)) = B.drop (j + 1) := by
    rw [List.drop_append_of_le_length (by omega),
      List.take_append_of_le_length (by rw [List.length_drop]; omega)]
    apply List.take_of_length_le; rw [List.length_drop]; omega
  have e4 : ((B ++ T).drop n).take i = T.take i := by
    rw [List.drop_append, List.drop_of_length_le (by omega), List.nil_append,
      show n - B.length = 0 by omega, List.drop_zero]
  have e5 : ((B ++ T).drop i).take (j + 1 - i) = (B.drop i).take (j + 1 - i) := by
    rw [List.drop_append_of_le_length (by omega),
      List.take_append_of_le_length (by rw [List.length_drop]; omega)]
  have e6 : ((B ++ T).drop (n + j + 1)).take (n - (j + 1)) = T.drop (j + 1) := by
    rw [List.drop_append, List.drop_of_length_le (by omega), List.nil_append,
      show n + j + 1 - B.length = j + 1 by omega]
    apply List.take_of_length_le; rw [List.length_drop]; omega
  rw [e1, e2, e3, e4, e5, e6]
  simp only [List.append_assoc]

theorem permFamily_signedReversals (n : Nat) :
    permFamily "signed_reversals" [n] = signedReversals n := rfl

theorem signedReversals_eq (n : Nat) (d : PermDef) (h : permFamily "signed_reversals" [n] = some d) :
    1 ≤ n ∧ d = mk (2 * n) (pairsLe n) (fun x => signedRevFn n x.1 x.2)
      (fun x => s!"R[{x.1}..{x.2}]") "" := by
  rw [permFamily_signedReversals] at h
  unfold signedReversals at h
  split at h
  · rename_i hn; simp only [Option.some.injEq] at h; exact ⟨hn, h.symm⟩
  · simp at h

theorem signed_reversals_valid (n : Nat) (d : PermDef)
    (h : permFamily "signed_reversals" [n] = some d) :
    (∀ p ∈ d.gens, IsPermOf (2 * n) p) ∧ d.central = List.range (2 * n) ∧
      d.names.length = d.gens.length := by
  obtain ⟨hn, rfl⟩ := signedReversals_eq n d h
  apply mk_valid_of_invPair _ _ _ (fun x => signedRevFn n x.1 x.2)
  rintro ⟨i, j⟩ hx
  have := (mem_pairsLe n i j).1 hx
  exact signedRevFn_invPair (by omega)

/-- `n(n+1)/2` generators -/
theorem signed_reversals_count (n : Nat) (d : PermDef)
    (h : permFamily "signed_reversals" [n] = some d) : 2 * d.gens.length = n * (n + 1) := by
  obtain ⟨hn, rfl⟩ := signedReversals_eq n d h
  rw [mk_count, length_pairsLe]

theorem signed_reversals_structure (n : Nat) (d : PermDef)
    (h : permFamily "signed_reversals" [n] = some d) :
    d.gens = (pairsLe n).map (fun x =>
      List.range x.1 ++ (List.range' (n + x.1) (x.2 + 1 - x.1)).reverse ++
      List.range' (x.2 + 1) (n - (x.2 + 1)) ++ List.range' n x.1 ++
      (List.range' x.1 (x.2 + 1 - x.1)).reverse ++ List.range' (n + x.2 + 1) (n - (x.2 + 1))) ∧
    d.names = (pairsLe n).map (fun x => "R[" ++ toString x.1 ++ ".." ++ toString x.2 ++ "]") ∧
    (∀ i j, (i, j) ∈ pairsLe n ↔ i ≤ j ∧ j < n) ∧
    ∀ i j, i ≤ j → j < n → ∀ B T : List Nat, B.length = n → T.length = n →
      apply (oneLine (2 * n) (signedRevFn n i j)) (B ++ T) =
        (B.take i ++ ((T.drop i).take (j + 1 - i)).reverse ++ B.drop (j + 1)) ++
        (T.take i ++ ((B.drop i).take (j + 1 - i)).reverse ++ T.drop (j + 1)) := by
  obtain ⟨hn, rfl⟩ := signedReversals_eq n d h
  refine ⟨?_, rfl, mem_pairsLe n, ?_⟩
  · rw [mk_gens]
    apply List.map_congr_left
    rintro ⟨i, j⟩ hx
    have := (mem_pairsLe n i j).1 hx
    exact oneLine_signedRev n i j (by omega) (by omega)
  · intro i j hij hj B T hB hT
    exact apply_signedRev n i j hij hj B T hB hT

theorem signed_reversals_inverse_closed (n : Nat) (d : PermDef)
    (h : permFamily "signed_reversals" [n] = some d) : d.inverseClosed = true := by
  obtain ⟨hn, rfl⟩ := signedReversals_eq n d h
  apply mk_inverseClosed_of_invol
  rintro ⟨i, j⟩ hx
  have := (mem_pairsLe n i j).1 hx
  exact signedRevFn_invPair (by omega)

theorem signed_reversals_defined_iff (n : Nat) :
    (permFamily "signed_reversals" [n]).isSome ↔ 1 ≤ n := by
  rw [permFamily_signedReversals]; unfold signedReversals; split <;> simp_all

theorem permFamily_burntPancake (n : Nat) : permFamily "burnt_pancake" [n] = burntPancake n := rfl

theorem burntPancake_eq (n : Nat) (d : PermDef) (h : permFamily "burnt_pancake" [n] = some d) :
    1 ≤ n ∧ d = mk (2 * n) (List.range n) (fun t => signedRevFn n 0 t)
      (fun t => "R" ++ showNat (t + 1)) ("burnt_pancake-" ++ showNat n) := by
  rw [permFamily_burntPancake] at h
  unfold burntPancake at h
  split at h
  · rename_i hn; simp only [Option.some.injEq] at h; exact ⟨hn, h.symm⟩
  · simp at h

theorem burnt_pancake_valid (n : Nat) (d : PermDef) (h : permFamily "burnt_pancake" [n] = some d) :
    (∀ p ∈ d.gens, IsPermOf (2 * n) p) ∧ d.central = List.range (2 * n) ∧
      d.names.length = d.gens.length := by
  obtain ⟨hn, rfl⟩ := burntPancake_eq n d h
  apply mk_valid_of_invPair _ _ _ (fun t => signedRevFn n 0 t)
  intro t ht
  exact signedRevFn_invPair (List.mem_range.1 ht)

theorem burnt_pancake_count (n : Nat) (d : PermDef) (h : permFamily "burnt_pancake" [n] = some d) :
    d.gens.length = n := by
  obtain ⟨hn, rfl⟩ := burntPancake_eq n d h
  simp [mk_count]

/-- generator `t` (named `R<t+1>`) reverses the top `t+1` pancakes and turns each of them over -/
theorem burnt_pancake_structure (n : Nat) (d : PermDef)
    (h : permFamily "burnt_pancake" [n] = some d) :
    ∀ t, t < n →
      d.gens[t]? = some ((List.range' n (t + 1)).reverse ++ List.range' (t + 1) (n - (t + 1)) ++
        (List.range (t + 1)).reverse ++ List.range' (n + t + 1) (n - (t + 1))) ∧
      d.names[t]? = some ("R" ++ toString (t + 1)) ∧
      ∀ B T : List Nat, B.length = n → T.length = n →
        (d.gens[t]?.map fun g => apply g (B ++ T)) =
          some (((T.take (t + 1)).reverse ++ B.drop (t + 1)) ++ ((B.take (t + 1)).reverse ++ T.drop (t + 1))) := by
  obtain ⟨hn, rfl⟩ := burntPancake_eq n d h
  intro t ht
  have hg : (mk (2 * n) (List.range n) (fun t => signedRevFn n 0 t)
      (fun t => "R" ++ showNat (t + 1)) ("burnt_pancake-" ++ showNat n)).gens[t]? =
      some (oneLine (2 * n) (signedRevFn n 0 t)) := by
    rw [mk_gens, List.getElem?_map, List.getElem?_range ht]; rfl
  refine ⟨?_, ?_, ?_⟩
  · rw [hg, oneLine_signedRev n 0 t (by omega) ht]
    simp [List.range_eq_range']
  · rw [mk_names, List.getElem?_map, List.getElem?_range ht]; rfl
  · intro B T hB hT
    rw [hg, Option.map_some, apply_signedRev n 0 t (by omega) ht B T hB hT]
    simp

theorem burnt_pancake_inverse_closed (n : Nat) (d : PermDef)
    (h : permFamily "burnt_pancake" [n] = some d) : d.inverseClosed = true := by
  obtain ⟨hn, rfl⟩ := burntPancake_eq n d h
  apply mk_inverseClosed_of_invol
  intro t ht
  exact signedRevFn_invPair (List.mem_range.1 ht)

theorem burnt_pancake_defined_iff (n : Nat) : (permFamily "burnt_pancake" [n]).isSome ↔ 1 ≤ n := by
  rw [permFamily_burntPancake]; unfold burntPancake; split <;> simp_all

/-! ## transposons -/

/-- the substring `i..j-1` moved behind the substring `j..k`, as a list -/
theorem oneLine_transposon (n i j k : Nat) (h1 : i < j) (h2 : j ≤ k) (h3 : k < n) :
    oneLine n (transposonFn i j k) =
      List.range i ++ List.range' j (k + 1 - j) ++ List.range' i (j - i) ++
      List.range' (k + 1) (n - (k + 1)) := by
  rw [oneLine_eq_ico, ico_cut 0 n i (by omega) (by omega),
    ico_cut i n (i + (k + 1 - j)) (by omega) (by omega),
    ico_cut (i + (k + 1 - j)) n (k + 1) (by omega) (by omega)]
  simp only [List.map_append, List.range_eq_range', ← List.append_assoc]
  congr 1
  · congr 1
    · congr 1
      · apply map_ico_asc' _ _ _ _ (by omega); intro p _ hp; unfold transposonFn; pw
      · apply map_ico_asc' _ _ _ _ (by omega); intro p _ hp; unfold transposonFn; pw
    · apply map_ico_asc' _ _ _ _ (by omega); intro p _ hp; unfold transposonFn; pw
  · apply map_ico_asc' _ _ _ _ (by omega); intro p _ hp; unfold transposonFn; pw

theorem apply_transposon (n i j k : Nat) (h1 : i < j) (h2 : j ≤ k) (h3 : k < n) (x : List Nat)
    (hx : x.length = n) :
    apply (oneLine n (transposonFn i j k)) x =
      x.take i ++ (x.drop j).take (k + 1 - j) ++ (x.drop i).take (j - i) ++ x.drop (k + 1) := by
  rw [oneLine_transposon n i j k h1 h2 h3]
  simp only [apply_append]
  rw [apply_range i x (by omega), apply_range' j (k + 1 - j) x (by omega),
    apply_range' i (j - i) x (by omega), ← hx, apply_range'_to_end (k + 1) x (by omega)]

theorem permFamily_transposons (n : Nat) : permFamily "transposons" [n] = transposons n := rfl

theorem transposons_eq (n : Nat) (d : PermDef) (h : permFamily "transposons" [n] = some d) :
    2 ≤ n ∧ d = mk n (triplesT n) (fun x => transposonFn x.1 x.2.1 x.2.2)
      (fun x => s!"T[{x.1}..{x.2.1 - 1},{x.2.2}]") "" := by
  rw [permFamily_transposons] at h
  unfold transposons at h
  split at h
  · rename_i hn; simp only [Option.some.injEq] at h; exact ⟨hn, h.symm⟩
  · simp at h

theorem transposons_valid (n : Nat) (d : PermDef) (h : permFamily "transposons" [n] = some d) :
    (∀ p ∈ d.gens, IsPermOf n p) ∧ d.central = List.range n ∧ d.names.length = d.gens.length := by
  obtain ⟨hn, rfl⟩ := transposons_eq n d h
  apply mk_valid_of_invPair _ _ _ (fun x => transposonFn x.1 (x.1 + (x.2.2 + 1 - x.2.1)) x.2.2)
  rintro ⟨i, j, k⟩ hx
  obtain ⟨h1, h2, h3⟩ := (mem_triplesT n i j k).1 hx
  exact transposonFn_invPair h1 h2 h3

/-- the generators are the moves "substring `i..j-1` behind substring `j..k`" for all
`i < j ≤ k < n` (lexicographic order), named `T[i..j-1,k]` -/
theorem transposons_structure (n : Nat) (d : PermDef) (h : permFamily "transposons" [n] = some d) :
    d.gens = (triplesT n).map (fun x =>
      List.range x.1 ++ List.range' x.2.1 (x.2.2 + 1 - x.2.1) ++ List.range' x.1 (x.2.1 - x.1) ++
      List.range' (x.2.2 + 1) (n - (x.2.2 + 1))) ∧
    d.names = (triplesT n).map (fun x =>
      "T[" ++ toString x.1 ++ ".." ++ toString (x.2.1 - 1) ++ "," ++ toString x.2.2 ++ "]") ∧
    (∀ i j k, (i, j, k) ∈ triplesT n ↔ i < j ∧ j ≤ k ∧ k < n) ∧
    ∀ i j k, i < j → j ≤ k → k < n → ∀ x : List Nat, x.length = n →
      apply (List.range i ++ List.range' j (k + 1 - j) ++ List.range' i (j - i) ++
          List.range' (k + 1) (n - (k + 1))) x =
        x.take i ++ (x.drop j).take (k + 1 - j) ++ (x.drop i).take (j - i) ++ x.drop (k + 1) := by
  obtain ⟨hn, rfl⟩ := transposons_eq n d h
  refine ⟨?_, rfl, mem_triplesT n, ?_⟩
  · rw [mk_gens]
    apply List.map_congr_left
    rintro ⟨i, j, k⟩ hx
    obtain ⟨h1, h2, h3⟩ := (mem_triplesT n i j k).1 hx
    exact oneLine_transposon n i j k h1 h2 h3
  · intro i j k h1 h2 h3 x hx
    rw [← oneLine_transposon n i j k h1 h2 h3]; exact apply_transposon n i j k h1 h2 h3 x hx

/-- inverse-closed: moving `i..j-1` behind `j..k` is undone by moving the (new) first block back -/
theorem transposons_inverse_closed (n : Nat) (d : PermDef)
    (h : permFamily "transposons" [n] = some d) : d.inverseClosed = true := by
  obtain ⟨hn, rfl⟩ := transposons_eq n d h
  apply mk_inverseClosed
  rintro ⟨i, j, k⟩ hx
  obtain ⟨h1, h2, h3⟩ := (mem_triplesT n i j k).1 hx
  exact ⟨(i, i + (k + 1 - j), k), (mem_triplesT n _ _ _).2 ⟨by omega, by omega, h3⟩,
    (transposonFn_invPair h1 h2 h3).inverse_eq⟩

theorem transposons_defined_iff (n : Nat) : (permFamily "transposons" [n]).isSome ↔ 2 ≤ n := by
  rw [permFamily_transposons]; unfold transposons; split <;> simp_all

/-! ## block_interchange -/

theorem oneLine_interchange (n i j k l : Nat) (h1 : i < j) (h2 : j ≤ k) (h3 : k < l) (h4 : l ≤ n) :
    oneLine n (interchangeFn i j k l) =
      List.range i ++ List.range' k (l - k) ++ List.range' j (k - j) ++ List.range' i (j - i) ++
      List.range' l (n - l) := by
  rw [oneLine_eq_ico, ico_cut 0 n i (by omega) (by omega),
    ico_cut i n (i + (l - k)) (by omega) (by omega),
    ico_cut (i + (l - k)) n (i + (l - k) + (k - j)) (by omega) (by omega),
    ico_cut (i + (l - k) + (k - j)) n l (by omega) (by omega)]
  simp only [List.map_append, List.range_eq_range', ← List.append_assoc]
  congr 1
  · congr 1
    · congr 1
      · congr 1
        · apply map_ico_asc' _ _ _ _ (by omega); intro p _ hp; unfold interchangeFn; pw
        · apply map_ico_asc' _ _ _ _ (by omega); intro p _ hp; unfold interchangeFn; pw
      · apply map_ico_asc' _ _ _ _ (by omega); intro p _ hp; unfold interchangeFn; pw
    · apply map_ico_asc' _ _ _ _ (by omega); intro p _ hp; unfold interchangeFn; pw
  · apply map_ico_asc' _ _ _ _ (by omega); intro p _ hp; unfold interchangeFn; pw

theorem apply_interchange (n i j k l : Nat) (h1 : i < j) (h2 : j ≤ k) (h3 : k < l) (h4 : l ≤ n)
    (x : List Nat) (hx : x.length = n) :
    apply (oneLine n (interchangeFn i j k l)) x =
      x.take i ++ (x.drop k).take (l - k) ++ (x.drop j).take (k - j) ++ (x.drop i).take (j - i) ++
      x.drop l := by
  rw [oneLine_interchange n i j k l h1 h2 h3 h4]
  simp only [apply_append]
  rw [apply_range i x (by omega), apply_range' k (l - k) x (by omega),
    apply_range' j (k - j) x (by omega), apply_range' i (j - i) x (by omega), ← hx,
    apply_range'_to_end l x (by omega)]

theorem permFamily_blockInterchange (n : Nat) :
    permFamily "block_interchange" [n] = blockInterchange n := rfl

theorem blockInterchange_eq (n : Nat) (d : PermDef)
    (h : permFamily "block_interchange" [n] = some d) :
    2 ≤ n ∧ d = mk n (quadsI n) (fun x => interchangeFn x.1 x.2.1 x.2.2.1 x.2.2.2)
      (fun x => s!"I[{x.1}..{x.2.1 - 1},{x.2.2.1}..{x.2.2.2 - 1}]") "" := by
  rw [permFamily_blockInterchange] at h
  unfold blockInterchange at h
  split at h
  · rename_i hn; simp only [Option.some.injEq] at h; exact ⟨hn, h.symm⟩
  · simp at h

theorem block_interchange_valid (n : Nat) (d : PermDef)
    (h : permFamily "block_interchange" [n] = some d) :
    (∀ p ∈ d.gens, IsPermOf n p) ∧ d.central = List.range n ∧ d.names.length = d.gens.length := by
  obtain ⟨hn, rfl⟩ := blockInterchange_eq n d h
  apply mk_valid_of_invPair _ _ _ (fun x => interchangeFn x.1 (x.1 + (x.2.2.2 - x.2.2.1))
    (x.1 + (x.2.2.2 - x.2.2.1) + (x.2.2.1 - x.2.1)) x.2.2.2)
  rintro ⟨i, j, k, l⟩ hx
  obtain ⟨h1, h2, h3, h4⟩ := (mem_quadsI n i j k l).1 hx
  exact interchangeFn_invPair h1 h2 h3 h4

/-- the generators interchange the substrings `i..j-1` and `k..l-1` for all `i < j ≤ k < l ≤ n`
(lexicographic order), named `I[i..j-1,k..l-1]` -/
theorem block_interchange_structure (n : Nat) (d : PermDef)
    (h : permFamily "block_interchange" [n] = some d) :
    d.gens = (quadsI n).map (fun x =>
      List.range x.1 ++ List.range' x.2.2.1 (x.2.2.2 - x.2.2.1) ++ List.range' x.2.1 (x.2.2.1 - x.2.1) ++
      List.range' x.1 (x.2.1 - x.1) ++ List.range' x.2.2.2 (n - x.2.2.2)) ∧
    d.names = (quadsI n).map (fun x =>
      "I[" ++ toString x.1 ++ ".." ++ toString (x.2.1 - 1) ++ "," ++ toString x.2.2.1 ++ ".." ++
        toString (x.2.2.2 - 1) ++ "]") ∧
    (∀ i j k l, (i, j, k, l) ∈ quadsI n ↔ i < j ∧ j ≤ k ∧ k < l ∧ l ≤ n) ∧
    ∀ i j k l, i < j → j ≤ k → k < l → l ≤ n → ∀ x : List Nat, x.length = n →
      apply (List.range i ++ List.range' k (l - k) ++ List.range' j (k - j) ++ List.range' i (j - i) ++
          List.range' l (n - l)) x =
        x.take i ++ (x.drop k).take (l - k) ++ (x.drop j).take (k - j) ++ (x.drop i).take (j - i) ++
          x.drop l := by
  obtain ⟨hn, rfl⟩ := blockInterchange_eq n d h
  refine ⟨?_, rfl, mem_quadsI n, ?_⟩
  · rw [mk_gens]
    apply List.map_congr_left
    rintro ⟨i, j, k, l⟩ hx
    obtain ⟨h1, h2, h3, h4⟩ := (mem_quadsI n i j k l).1 hx
    exact oneLine_interchange n i j k l h1 h2 h3 h4
  · intro i j k l h1 h2 h3 h4 x hx
    rw [← oneLine_interchange n i j k l h1 h2 h3 h4]
    exact apply_interchange n i j k l h1 h2 h3 h4 x hx

theorem block_interchange_inverse_closed (n : Nat) (d : PermDef)
    (h : permFamily "block_interchange" [n] = some d) : d.inverseClosed = true := by
  obtain ⟨hn, rfl⟩ := blockInterchange_eq n d h
  apply mk_inverseClosed
  rintro ⟨i, j, k, l⟩ hx
  obtain ⟨h1, h2, h3, h4⟩ := (mem_quadsI n i j k l).1 hx
  exact ⟨(i, i + (l - k), i + (l - k) + (k - j), l),
    (mem_quadsI n _ _ _ _).2 ⟨by omega, by omega, by omega, h4⟩,
    (interchangeFn_invPair h1 h2 h3 h4).inverse_eq⟩

theorem block_interchange_defined_iff (n : Nat) :
    (permFamily "block_interchange" [n]).isSome ↔ 2 ≤ n := by
  rw [permFamily_blockInterchange]; unfold blockInterchange; split <;> simp_all

/-! ## cubic_pancake -/

theorem permFamily_cubicPancake (n s : Nat) :
    permFamily "cubic_pancake" [n, s] = cubicPancake n s := rfl

theorem cubicLengths_length (n s : Nat) (ls : List Int) (h : cubicLengths n s = some ls) :
    ls.length = 3 := by
  unfold cubicLengths at h
  split at h <;> simp at h <;> subst h <;> rfl

theorem cubicPancake_eq (n s : Nat) (d : PermDef) (h : permFamily "cubic_pancake" [n, s] = some d) :
    ∃ ls, cubicLengths n s = some ls ∧ 2 ≤ n ∧ (∀ l ∈ ls, 0 ≤ l ∧ l ≤ (n : Int)) ∧
      d = mk n ls (fun l => prefixRevFn l.toNat) (fun l => "R" ++ toString l)
        ("cubic_pancake-" ++ showNat n ++ "-" ++ showNat s) := by
  rw [permFamily_cubicPancake] at h
  unfold cubicPancake at h
  split at h
  · simp at h
  · rename_i ls hls
    split at h
    · rename_i hc
      simp only [Option.some.injEq] at h
      refine ⟨ls, hls, hc.1, ?_, h.symm⟩
      intro l hl
      have := List.all_eq_true.1 hc.2 l hl
      simpa using this
    · simp at h

theorem cubic_pancake_valid (n s : Nat) (d : PermDef)
    (h : permFamily "cubic_pancake" [n, s] = some d) :
    (∀ p ∈ d.gens, IsPermOf n p) ∧ d.central = List.range n ∧ d.names.length = d.gens.length := by
  obtain ⟨ls, _, hn, hr, rfl⟩ := cubicPancake_eq n s d h
  apply mk_valid_of_invPair _ _ _ (fun l => prefixRevFn l.toNat)
  intro l hl
  have := hr l hl
  exact prefixRevFn_invPair (by omega)

theorem cubic_pancake_count (n s : Nat) (d : PermDef)
    (h : permFamily "cubic_pancake" [n, s] = some d) : d.gens.length = 3 := by
  obtain ⟨ls, hls, _, _, rfl⟩ := cubicPancake_eq n s d h
  rw [mk_count, cubicLengths_length n s ls hls]

/-- the three generators are the prefix reversals of the lengths listed in the docstring table
(`cubicLengths`), named `R<length>`; here `R<i>` reverses the first `i` entries -/
theorem cubic_pancake_structure (n s : Nat) (d : PermDef)
    (h : permFamily "cubic_pancake" [n, s] = some d) :
    ∃ ls : List Nat, cubicLengths n s = some (ls.map Int.ofNat) ∧ ls.length = 3 ∧ (∀ l ∈ ls, l ≤ n) ∧
      d.gens = ls.map (fun l => (List.range l).reverse ++ List.range' l (n - l)) ∧
      d.names = ls.map (fun l => "R" ++ toString l) ∧
      ∀ l ∈ ls, ∀ x : List Nat, x.length = n →
        apply ((List.range l).reverse ++ List.range' l (n - l)) x = (x.take l).reverse ++ x.drop l := by
  obtain ⟨ls, hls, hn, hr, rfl⟩ := cubicPancake_eq n s d h
  have hmap : (ls.map Int.toNat).map Int.ofNat = ls := by
    rw [List.map_map]
    conv => rhs; rw [← List.map_id ls]
    apply List.map_congr_left
    intro l hl
    have := hr l hl
    simp only [Function.comp_apply, id]
    exact Int.toNat_of_nonneg this.1
  have hle : ∀ l ∈ ls.map Int.toNat, l ≤ n := by
    intro l hl
    obtain ⟨l', hl', rfl⟩ := List.mem_map.1 hl
    have := hr l' hl'; omega
  refine ⟨ls.map Int.toNat, by rw [hmap]; exact hls, by simp [cubicLengths_length n s ls hls],
    hle, ?_, ?_, ?_⟩
  · rw [mk_gens, List.map_map]
    apply List.map_congr_left
    intro l hl
    have := hr l hl
    exact oneLine_prefixRev n l.toNat (by omega)
  · rw [mk_names, List.map_map]
    apply List.map_congr_left
    intro l hl
    have := hr l hl
    simp only [Function.comp_apply]
    obtain ⟨m, rfl⟩ := Int.eq_ofNat_of_zero_le this.1
    rfl
  · intro l hl x hx
    rw [← oneLine_prefixRev n l (hle l hl)]; exact apply_prefixRev n l (hle l hl) x hx

theorem cubic_pancake_inverse_closed (n s : Nat) (d : PermDef)
    (h : permFamily "cubic_pancake" [n, s] = some d) : d.inverseClosed = true := by
  obtain ⟨ls, _, hn, hr, rfl⟩ := cubicPancake_eq n s d h
  apply mk_inverseClosed_of_invol
  intro l hl
  have := hr l hl
  exact prefixRevFn_invPair (by omega)

/-- the library returns a definition for `n ≥ 2`, `subset ∈ 1..7`, EXCEPT for `n = 2` and
`subset ∈ {2, 4, 6, 7}` (the docstring promises all `n ≥ 2`): there a requested prefix length
(`3` or `n-3 = -1`) does not exist and `CayleyGraphDef.create` rejects the generator. -/
theorem cubic_pancake_defined_iff (n s : Nat) :
    (permFamily "cubic_pancake" [n, s]).isSome ↔
      2 ≤ n ∧ 1 ≤ s ∧ s ≤ 7 ∧ (n = 2 → s = 1 ∨ s = 3 ∨ s = 5) := by
  rw [permFamily_cubicPancake]
  rcases s with _|_|_|_|_|_|_|_|s <;>
    simp [cubicPancake, cubicLengths, Option.isSome_iff_exists] <;> omega

end Cv.Families
