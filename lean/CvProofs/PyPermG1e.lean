/-
  G1 part 5: complements — exact failure conditions and arbitrary `Int` inputs.  Core Lean only.
-/
import CvProofs.PyPermG1d

namespace Cv.PyG1
open Cv.Py Cv.PyGen Cv.Perm

/-- a loop fails if one index makes the body fail in every state satisfying an invariant of the loop -/
theorem foldlM_none_of_mem_inv {σ ι : Type} (P : σ → Prop) (f : σ → ι → Option σ) (l : List ι) (j : ι) (hj : j ∈ l)
    (hinv : ∀ s, P s → ∀ i ∈ l, ∀ s', f s i = some s' → P s')
    (hf : ∀ s, P s → f s j = none) (init : σ) (h0 : P init) : l.foldlM f init = none := by
  induction l generalizing init with
  | nil => simp at hj
  | cons a t ih =>
    rw [List.foldlM_cons]
    by_cases e : j = a
    · subst e; rw [hf _ h0]; rfl
    · have hjt : j ∈ t := by simpa [e] using hj
      cases hs : f init a with
      | none => rfl
      | some s' =>
        exact ih hjt (fun s hs i hi => hinv s hs i (by simp [hi])) s' (hinv init h0 a (by simp) s' hs)

theorem length_pySet {α : Type} (x x' : List α) (i : Int) (v : α) (h : pySet x i v = some x') :
    x'.length = x.length := by
  unfold pySet at h
  split at h
  · split at h
    · cases h; simp
    · cases h
  · split at h
    · cases h; simp
    · cases h

/-- `inverse_permutation` raises IndexError as soon as an entry is out of range -/
theorem inverse_permutation_gen_none (p : List Nat) (h : ¬ ∀ i ∈ p, i < p.length) :
    PyGen.Perm.inverse_permutation (toI p) = none := by
  have hex : ∃ v ∈ p, ¬ v < p.length := by
    apply Classical.byContradiction
    intro hne
    apply h
    intro v hv
    apply Classical.byContradiction
    intro hb
    exact hne ⟨v, hv, hb⟩
  obtain ⟨v, hv, hbad⟩ := hex
  obtain ⟨j, hj, e⟩ := List.getElem_of_mem hv
  unfold PyGen.Perm.inverse_permutation
  rw [pyLen_toI]
  dsimp only
  rw [pyRange_zero_one_nat, show toI (List.range p.length) = (List.range p.length).map Int.ofNat from rfl,
    List.foldlM_map, bind_pure]
  refine foldlM_none_of_mem_inv (fun s => s.length = p.length) _ _ j (List.mem_range.2 hj) ?_ ?_ _ ?_
  · intro s hs i _ s' h'
    have hgi : ∃ t, pyGet (toI p) (Int.ofNat i) = some t ∧ pySet s t (Int.ofNat i) = some s' := by
      cases hg : pyGet (toI p) (Int.ofNat i) with
      | none => rw [show (do let t_1 ← pyGet (toI p) (Int.ofNat i); pySet s t_1 (Int.ofNat i)) =
            (pyGet (toI p) (Int.ofNat i)).bind (fun t_1 => pySet s t_1 (Int.ofNat i)) from rfl, hg] at h'
                cases h'
      | some t => exact ⟨t, rfl, by
          rw [show (do let t_1 ← pyGet (toI p) (Int.ofNat i); pySet s t_1 (Int.ofNat i)) =
            (pyGet (toI p) (Int.ofNat i)).bind (fun t_1 => pySet s t_1 (Int.ofNat i)) from rfl, hg] at h'
          exact h'⟩
    obtain ⟨t, _, hset⟩ := hgi
    rw [length_pySet _ _ _ _ hset]; exact hs
  · intro s hs
    have hg : pyGet (toI p) (Int.ofNat j) = some (Int.ofNat v) := by
      have := pyGet_toI p j
      rw [List.getElem?_eq_getElem hj, e] at this
      exact this
    show (pyGet (toI p) (Int.ofNat j)).bind (fun t_1 => pySet s t_1 (Int.ofNat j)) = none
    rw [hg, Option.bind_some]
    show pySet s ((v : Nat) : Int) _ = none
    rw [pySet_nat, if_neg (by omega)]
  · simp [pyRepeat]

/-- exact form: the generated `inverse_permutation` on natural entries -/
theorem inverse_permutation_gen_exact (p : List Nat) [Decidable (∀ i ∈ p, i < p.length)] :
    PyGen.Perm.inverse_permutation (toI p) =
      if ∀ i ∈ p, i < p.length then some (toI (Cv.Perm.inverse p)) else none := by
  split
  · next h => exact inverse_permutation_gen p h
  · next h => exact inverse_permutation_gen_none p h

/-- `compose_permutations` without range hypothesis -/
theorem compose_permutations_gen_option (p q : List Nat) :
    PyGen.Perm.compose_permutations (toI p) (toI q) = (Cv.Perm.apply? p q).map toI := by
  rw [compose_permutations_eq, apply_permutation_gen]

/-- a list of non-negative integers is `toI` of a list of naturals -/
theorem eq_toI_of_nonneg (p : List Int) (h : ∀ i ∈ p, 0 ≤ i) : p = toI (p.map Int.toNat) := by
  unfold toI
  rw [List.map_map]
  conv => lhs; rw [← List.map_id p]
  apply List.map_congr_left
  intro a ha
  have := h a ha
  show a = ((a.toNat : Nat) : Int)
  omega

/-- `is_permutation` on ARBITRARY integer lists: true exactly on (the images of) permutations of `0..len-1` -/
theorem is_permutation_gen_int (p : List Int) :
    PyGen.Perm.is_permutation p = some true ↔ ∃ q : List Nat, p = toI q ∧ IsPermOf q.length q := by
  constructor
  · intro h
    by_cases hn : ∀ i ∈ p, 0 ≤ i
    · refine ⟨p.map Int.toNat, eq_toI_of_nonneg p hn, ?_⟩
      rw [eq_toI_of_nonneg p hn] at h
      exact (gen_is_permutation_iff _).1 h
    · have hex : ∃ i ∈ p, i < 0 := by
        apply Classical.byContradiction
        intro hne
        apply hn
        intro v hv
        apply Classical.byContradiction
        intro hb
        exact hne ⟨v, hv, by omega⟩
      rw [is_permutation_gen_neg p hex] at h
      cases h
  · rintro ⟨q, rfl, hq⟩
    exact (gen_is_permutation_iff q).2 hq

/-- `is_permutation` never raises -/
theorem is_permutation_isSome (p : List Int) : (PyGen.Perm.is_permutation p).isSome = true := rfl

/-- the default `offset` of the source is the default of the model -/
theorem permutation_from_cycles_gen_default (n : Nat) (cycles : List (List Int)) :
    PyGen.Perm.permutation_from_cycles (n : Int) cycles PyGen.Perm.permutation_from_cycles_default_offset
      = (Cv.Perm.fromCycles n cycles).map toI :=
  permutation_from_cycles_gen n cycles 0

/-- `transposition` with a non-positive `n` always asserts -/
theorem transposition_gen_nonpos (n i j : Int) (h : n ≤ 0) : PyGen.Perm.transposition n i j = none := by
  unfold PyGen.Perm.transposition
  have h1 : (decide ((0 : Int) ≤ i) && decide (i < n)) = false := by
    rw [Bool.and_eq_false_iff]; simp only [decide_eq_false_iff_not]; omega
  rw [pyAssert_false _ h1]; rfl

/-- `permutation_from_cycles` with a negative `n` behaves as with `n = 0` (only empty cycles are accepted) -/
theorem permutation_from_cycles_gen_neg (n : Int) (h : n ≤ 0) (cycles : List (List Int)) (offset : Int) :
    PyGen.Perm.permutation_from_cycles n cycles offset = PyGen.Perm.permutation_from_cycles 0 cycles offset := by
  unfold PyGen.Perm.permutation_from_cycles
  dsimp only
  rw [pyRange_zero_one_nonpos n h, pyRange_zero_one_nonpos 0 (by omega)]
  have hb : ∀ t : Int, (decide (0 ≤ t) && decide (t < n)) = (decide (0 ≤ t) && decide (t < 0)) := by
    intro t
    have e1 : (decide (0 ≤ t) && decide (t < n)) = false := by
      rw [Bool.and_eq_false_iff]; simp only [decide_eq_false_iff_not]; omega
    have e2 : (decide (0 ≤ t) && decide (t < 0)) = false := by
      rw [Bool.and_eq_false_iff]; simp only [decide_eq_false_iff_not]; omega
    rw [e1, e2]
  simp only [hb]

end Cv.PyG1
