/-
  Generic lemmas for `CvModel/Families.lean`: one-line permutations given by point functions,
  inverse pairs, families built by `mk`, index lists.  Core Lean only.
-/
import CvModel.Families
import CvProofs.Perm
import CvProofs.GraphDef
namespace Cv.Families
open Cv.Perm Cv.GraphDef

/-- split all `if`s of a piecewise-linear goal and finish by `omega` -/
macro "pw" : tactic => `(tactic| ((repeat' split) <;> omega))

/-! ### `oneLine` -/

@[simp] theorem length_oneLine (n : Nat) (f : Nat → Nat) : (oneLine n f).length = n := by
  simp [oneLine]

theorem getElem_oneLine (n : Nat) (f : Nat → Nat) (i : Nat) (h : i < (oneLine n f).length) :
    (oneLine n f)[i] = f i := by
  simp [oneLine]

theorem getElem?_oneLine (n : Nat) (f : Nat → Nat) (i : Nat) (h : i < n) :
    (oneLine n f)[i]? = some (f i) := by
  simp [oneLine, h]

theorem getD_oneLine (n : Nat) (f : Nat → Nat) (i : Nat) (h : i < n) :
    (oneLine n f).getD i 0 = f i := by
  simp [oneLine, List.getD_eq_getElem?_getD, h]

theorem oneLine_congr {n : Nat} {f g : Nat → Nat} (h : ∀ i, i < n → f i = g i) :
    oneLine n f = oneLine n g := by
  unfold oneLine
  apply List.map_congr_left
  intro i hi; exact h i (List.mem_range.1 hi)

theorem oneLine_eq_iff {n : Nat} {f g : Nat → Nat} :
    oneLine n f = oneLine n g ↔ ∀ i, i < n → f i = g i := by
  constructor
  · intro h i hi
    have : (oneLine n f).getD i 0 = (oneLine n g).getD i 0 := by rw [h]
    rwa [getD_oneLine _ _ _ hi, getD_oneLine _ _ _ hi] at this
  · exact oneLine_congr

theorem oneLine_ne_of {n : Nat} {f g : Nat → Nat} (i : Nat) (hi : i < n) (h : f i ≠ g i) :
    oneLine n f ≠ oneLine n g := by
  intro e; exact h (oneLine_eq_iff.1 e i hi)

theorem oneLine_id (n : Nat) : oneLine n (fun p => p) = List.range n := by
  simp [oneLine]

/-- every list is the one-line list of its own `getD` -/
theorem eq_oneLine_getD (p : List Nat) : p = oneLine p.length (fun i => p.getD i 0) := by
  apply List.ext_getElem (by simp)
  intro i h1 h2
  rw [getElem_oneLine, getD_eq_getElem h1]

theorem isPermOf_oneLine {n : Nat} {f : Nat → Nat} (hlt : ∀ i, i < n → f i < n)
    (hinj : ∀ i j, i < n → j < n → f i = f j → i = j) : IsPermOf n (oneLine n f) := by
  apply isPermOf_of_getD (by simp)
  · intro j hj; rw [getD_oneLine _ _ _ hj]; exact hlt j hj
  · intro i j hi hj; rw [getD_oneLine _ _ _ hi, getD_oneLine _ _ _ hj]; exact hinj i j hi hj

/-- `f` maps `[0,n)` into itself and `g` is a left inverse of `f` there -/
structure InvPair (n : Nat) (f g : Nat → Nat) : Prop where
  lt : ∀ i, i < n → f i < n
  inv : ∀ i, i < n → g (f i) = i

theorem InvPair.isPermOf {n : Nat} {f g : Nat → Nat} (h : InvPair n f g) : IsPermOf n (oneLine n f) := by
  apply isPermOf_oneLine h.lt
  intro i j hi hj e
  have := congrArg g e
  rw [h.inv i hi, h.inv j hj] at this
  exact this

/-- the inverse permutation is given by the inverse point function -/
theorem InvPair.inverse_eq {n : Nat} {f g : Nat → Nat} (h : InvPair n f g) :
    inverse (oneLine n f) = oneLine n g := by
  have hp := h.isPermOf
  apply List.ext_getElem (by simp)
  intro j h1 h2
  have hj : j < n := by simpa using h2
  obtain ⟨i, hi, e⟩ := hp.exists_index hj
  have key := inverse_getD n _ hp i hi
  rw [e, getD_eq_getElem h1] at key
  rw [key, getElem_oneLine]
  rw [getD_oneLine _ _ _ hi] at e
  rw [← e, h.inv i hi]

theorem InvPair.congr {n : Nat} {f g f' g' : Nat → Nat} (h : InvPair n f g)
    (hf : ∀ i, i < n → f' i = f i) (hg : ∀ i, i < n → g' i = g i) : InvPair n f' g' :=
  ⟨fun i hi => by rw [hf i hi]; exact h.lt i hi,
   fun i hi => by rw [hf i hi, hg _ (h.lt i hi)]; exact h.inv i hi⟩

/-- the action of a one-line permutation on a sequence: position `i` receives the old entry `f i` -/
theorem apply_oneLine (n : Nat) (f : Nat → Nat) (x : List Nat) :
    apply (oneLine n f) x = (List.range n).map fun i => x.getD (f i) 0 := by
  simp [apply, oneLine, List.map_map, Function.comp_def]

theorem getD_apply_oneLine (n : Nat) (f : Nat → Nat) (x : List Nat) (i : Nat) (hi : i < n) :
    (apply (oneLine n f) x).getD i 0 = x.getD (f i) 0 := by
  rw [getD_apply _ _ (by simpa using hi), getD_oneLine _ _ _ hi]

/-! ### families built by `mk` -/

theorem mk_gens {ι : Type} (len : Nat) (idx : List ι) (g : ι → Nat → Nat) (nm : ι → String)
    (name : String) : (mk len idx g nm name).gens = idx.map fun x => oneLine len (g x) := rfl

theorem mk_names {ι : Type} (len : Nat) (idx : List ι) (g : ι → Nat → Nat) (nm : ι → String)
    (name : String) : (mk len idx g nm name).names = idx.map nm := rfl

/-- the three basic well-formedness facts -/
def Valid (len : Nat) (d : PermDef) : Prop :=
  (∀ p ∈ d.gens, IsPermOf len p) ∧ d.central = List.range len ∧ d.names.length = d.gens.length

theorem mk_valid {ι : Type} (len : Nat) (idx : List ι) (g : ι → Nat → Nat) (nm : ι → String)
    (name : String) (h : ∀ x ∈ idx, IsPermOf len (oneLine len (g x))) :
    Valid len (mk len idx g nm name) := by
  refine ⟨?_, rfl, by simp [mk]⟩
  intro p hp
  obtain ⟨x, hx, rfl⟩ := List.mem_map.1 hp
  exact h x hx

theorem mk_count {ι : Type} (len : Nat) (idx : List ι) (g : ι → Nat → Nat) (nm : ι → String)
    (name : String) : (mk len idx g nm name).gens.length = idx.length := by simp [mk]

theorem inverseClosed_true_iff (d : PermDef) :
    d.inverseClosed = true ↔ ∀ p ∈ d.gens, inverse p ∈ d.gens := by
  unfold PermDef.inverseClosed; exact inverseClosed_iff d.gens

theorem inverseClosed_false_of (d : PermDef) (p : List Nat) (hp : p ∈ d.gens)
    (h : inverse p ∉ d.gens) : d.inverseClosed = false := by
  cases hc : d.inverseClosed with
  | false => rfl
  | true => exact absurd ((inverseClosed_true_iff d).1 hc p hp) h

theorem mk_inverseClosed {ι : Type} (len : Nat) (idx : List ι) (g : ι → Nat → Nat) (nm : ι → String)
    (name : String)
    (h : ∀ x ∈ idx, ∃ y ∈ idx, inverse (oneLine len (g x)) = oneLine len (g y)) :
    (mk len idx g nm name).inverseClosed = true := by
  rw [inverseClosed_true_iff]
  intro p hp
  obtain ⟨x, hx, rfl⟩ := List.mem_map.1 hp
  obtain ⟨y, hy, e⟩ := h x hx
  rw [e]; exact List.mem_map.2 ⟨y, hy, rfl⟩

/-- families of involutions are inverse-closed -/
theorem mk_inverseClosed_of_invol {ι : Type} (len : Nat) (idx : List ι) (g : ι → Nat → Nat)
    (nm : ι → String) (name : String) (h : ∀ x ∈ idx, InvPair len (g x) (g x)) :
    (mk len idx g nm name).inverseClosed = true :=
  mk_inverseClosed len idx g nm name fun x hx => ⟨x, hx, (h x hx).inverse_eq⟩

theorem mk_valid_of_invPair {ι : Type} (len : Nat) (idx : List ι) (g g' : ι → Nat → Nat)
    (nm : ι → String) (name : String) (h : ∀ x ∈ idx, InvPair len (g x) (g' x)) :
    Valid len (mk len idx g nm name) :=
  mk_valid len idx g nm name fun x hx => (h x hx).isPermOf

/-! ### index lists -/

theorem mem_pairsLt (n i j : Nat) : (i, j) ∈ pairsLt n ↔ i < j ∧ j < n := by
  simp only [pairsLt, List.mem_flatMap, List.mem_range, List.mem_map, List.mem_range'_1, Prod.mk.injEq]
  constructor
  · rintro ⟨a, ha, b, hb, rfl, rfl⟩; omega
  · rintro ⟨h1, h2⟩; exact ⟨i, by omega, j, by omega, rfl, rfl⟩

theorem mem_pairsLe (n i j : Nat) : (i, j) ∈ pairsLe n ↔ i ≤ j ∧ j < n := by
  simp only [pairsLe, List.mem_flatMap, List.mem_range, List.mem_map, List.mem_range'_1, Prod.mk.injEq]
  constructor
  · rintro ⟨a, ha, b, hb, rfl, rfl⟩; omega
  · rintro ⟨h1, h2⟩; exact ⟨i, by omega, j, by omega, rfl, rfl⟩

theorem mem_triplesT (n i j k : Nat) : (i, j, k) ∈ triplesT n ↔ i < j ∧ j ≤ k ∧ k < n := by
  simp only [triplesT, List.mem_flatMap, List.mem_map, List.mem_range'_1, Prod.mk.injEq, Prod.exists,
    mem_pairsLt]
  constructor
  · rintro ⟨a, b, ⟨h1, h2⟩, c, hc, rfl, rfl, rfl⟩; omega
  · rintro ⟨h1, h2, h3⟩; exact ⟨i, j, ⟨h1, by omega⟩, k, by omega, rfl, rfl, rfl⟩

theorem mem_quadsI (n i j k l : Nat) :
    (i, j, k, l) ∈ quadsI n ↔ i < j ∧ j ≤ k ∧ k < l ∧ l ≤ n := by
  simp only [quadsI, List.mem_flatMap, List.mem_map, List.mem_range'_1, Prod.mk.injEq, Prod.exists,
    mem_triplesT]
  constructor
  · rintro ⟨a, b, c, ⟨h1, h2, h3⟩, e, he, rfl, rfl, rfl, rfl⟩; omega
  · rintro ⟨h1, h2, h3, h4⟩
    by_cases hk : k < n
    · exact ⟨i, j, k, ⟨h1, h2, hk⟩, l, by omega, rfl, rfl, rfl, rfl⟩
    · omega

theorem mem_pairsSplit (n k i j : Nat) : (i, j) ∈ pairsSplit n k ↔ i < k ∧ k ≤ j ∧ j < n := by
  simp only [pairsSplit, List.mem_flatMap, List.mem_range, List.mem_map, List.mem_range'_1,
    Prod.mk.injEq]
  constructor
  · rintro ⟨a, ha, b, hb, rfl, rfl⟩; omega
  · rintro ⟨h1, h2, h3⟩; exact ⟨i, h1, j, by omega, rfl, rfl⟩

theorem mem_pairsNe1 (n i j : Nat) :
    (i, j) ∈ pairsNe1 n ↔ 1 ≤ i ∧ i < n ∧ 1 ≤ j ∧ j < n ∧ i ≠ j := by
  simp only [pairsNe1, List.mem_flatMap, List.mem_map, List.mem_filter, List.mem_range'_1,
    Prod.mk.injEq, bne_iff_ne]
  constructor
  · rintro ⟨a, ha, b, ⟨hb, hne⟩, rfl, rfl⟩; omega
  · rintro ⟨h1, h2, h3, h4, h5⟩
    exact ⟨i, by omega, j, ⟨by omega, fun e => h5 e.symm⟩, rfl, rfl⟩

theorem mem_triplesMinFirst (n a b c : Nat) :
    (a, b, c) ∈ triplesMinFirst n ↔ a < b ∧ a < c ∧ b ≠ c ∧ b < n ∧ c < n := by
  simp only [triplesMinFirst, List.mem_flatMap, List.mem_map, List.mem_filter, List.mem_range'_1,
    Prod.mk.injEq, bne_iff_ne, Prod.exists, mem_pairsLt]
  constructor
  · rintro ⟨x, y, ⟨h1, h2⟩, z, ⟨hz, hne⟩, rfl, rfl, rfl⟩
    refine ⟨h1, by omega, fun e => hne e.symm, h2, by omega⟩
  · rintro ⟨h1, h2, h3, h4, h5⟩
    exact ⟨a, b, ⟨h1, h4⟩, c, ⟨by omega, fun e => h3 e.symm⟩, rfl, rfl, rfl⟩

/-! ### sizes of the index lists -/

theorem length_flatMap_range {β : Type} (n : Nat) (f : Nat → List β) :
    ((List.range n).flatMap f).length = ((List.range n).map fun i => (f i).length).sum := by
  rw [List.length_flatMap]

theorem sum_range_succ (n : Nat) (f : Nat → Nat) :
    ((List.range (n + 1)).map f).sum = ((List.range n).map f).sum + f n := by
  simp [List.range_succ, List.sum_append]

theorem sum_shift (n m : Nat) (hm : m ≤ n) :
    ((List.range m).map fun i => n - i).sum = ((List.range m).map fun i => n - (i + 1)).sum + m := by
  induction m with
  | zero => simp
  | succ m ih => rw [sum_range_succ, sum_range_succ, ih (by omega)]; omega

/-- `Σ_{i<n} (n - (i+1)) = n(n-1)/2` -/
theorem sum_range_rev (n : Nat) : 2 * ((List.range n).map fun i => n - (i + 1)).sum = n * (n - 1) := by
  induction n with
  | zero => simp
  | succ n ih =>
    rw [sum_range_succ]
    have e : (List.range n).map (fun i => n + 1 - (i + 1)) = (List.range n).map (fun i => n - i) := by
      apply List.map_congr_left; intro i _; omega
    rw [e, sum_shift n n (Nat.le_refl _)]
    simp only [Nat.add_sub_cancel, Nat.sub_self, Nat.add_zero]
    rw [Nat.mul_add, ih]
    cases n with
    | zero => rfl
    | succ k => simp only [Nat.add_sub_cancel]; grind

theorem length_pairsLt (n : Nat) : 2 * (pairsLt n).length = n * (n - 1) := by
  unfold pairsLt
  rw [length_flatMap_range]
  simp only [List.length_map, List.length_range']
  exact sum_range_rev n

theorem length_pairsLe (n : Nat) : 2 * (pairsLe n).length = n * (n + 1) := by
  unfold pairsLe
  rw [length_flatMap_range]
  simp only [List.length_map, List.length_range']
  have h := sum_range_rev (n + 1)
  rw [sum_range_succ] at h
  simp only [Nat.add_sub_cancel, Nat.sub_self, Nat.add_zero] at h
  have e : (List.range n).map (fun i => n + 1 - (i + 1)) = (List.range n).map (fun i => n - i) := by
    apply List.map_congr_left; intro i _; omega
  rw [e] at h
  rw [h, Nat.mul_comm]

theorem length_pairsSplit (n k : Nat) : (pairsSplit n k).length = k * (n - k) := by
  unfold pairsSplit
  rw [length_flatMap_range]
  simp only [List.length_map, List.length_range']
  induction k with
  | zero => simp
  | succ k ih => rw [sum_range_succ]; simp only [List.map_const', List.length_range, List.sum_replicate_nat] at *; rw [Nat.add_mul]; omega

/-! ### point functions: inverse pairs -/

theorem swapFn_invPair {n i j : Nat} (hi : i < n) (hj : j < n) :
    InvPair n (swapFn i j) (swapFn i j) :=
  ⟨fun p hp => by unfold swapFn; pw, fun p _ => by unfold swapFn; pw⟩

theorem revFn_invPair {n i j : Nat} (hj : j < n) : InvPair n (revFn i j) (revFn i j) :=
  ⟨fun p hp => by unfold revFn; pw, fun p _ => by unfold revFn; pw⟩

theorem prefixRevFn_invPair {n k : Nat} (hk : k ≤ n) : InvPair n (prefixRevFn k) (prefixRevFn k) :=
  ⟨fun p hp => by unfold prefixRevFn; pw, fun p _ => by unfold prefixRevFn; pw⟩

theorem shiftLFn_eq {n p : Nat} (hp : p < n) : shiftLFn n p = if p + 1 = n then 0 else p + 1 := by
  unfold shiftLFn
  split
  · rename_i h; rw [h, Nat.mod_self]
  · exact Nat.mod_eq_of_lt (by omega)

theorem shiftRFn_eq {n p : Nat} (hp : p < n) : shiftRFn n p = if p = 0 then n - 1 else p - 1 := by
  unfold shiftRFn
  split
  · rename_i h; subst h; rw [Nat.zero_add]; exact Nat.mod_eq_of_lt (by omega)
  · have : p + (n - 1) = (p - 1) + n := by omega
    rw [this, Nat.add_mod_right]; exact Nat.mod_eq_of_lt (by omega)

theorem shiftL_invPair (n : Nat) : InvPair n (shiftLFn n) (shiftRFn n) := by
  refine InvPair.congr (f := fun p => if p + 1 = n then 0 else p + 1)
    (g := fun p => if p = 0 then n - 1 else p - 1) ⟨?_, ?_⟩
    (fun i hi => shiftLFn_eq hi) (fun i hi => shiftRFn_eq hi)
  · intro p hp; pw
  · intro p hp; pw

theorem shiftR_invPair (n : Nat) : InvPair n (shiftRFn n) (shiftLFn n) := by
  refine InvPair.congr (g := fun p => if p + 1 = n then 0 else p + 1)
    (f := fun p => if p = 0 then n - 1 else p - 1) ⟨?_, ?_⟩
    (fun i hi => shiftRFn_eq hi) (fun i hi => shiftLFn_eq hi)
  · intro p hp; pw
  · intro p hp; pw

theorem transposonFn_invPair {n i j k : Nat} (h1 : i < j) (h2 : j ≤ k) (h3 : k < n) :
    InvPair n (transposonFn i j k) (transposonFn i (i + (k + 1 - j)) k) :=
  ⟨fun p hp => by unfold transposonFn; pw, fun p _ => by unfold transposonFn; pw⟩

theorem interchangeFn_invPair {n i j k l : Nat} (h1 : i < j) (h2 : j ≤ k) (h3 : k < l) (h4 : l ≤ n) :
    InvPair n (interchangeFn i j k l)
      (interchangeFn i (i + (l - k)) (i + (l - k) + (k - j)) l) :=
  ⟨fun p hp => by unfold interchangeFn; pw, fun p _ => by unfold interchangeFn; pw⟩

theorem signedRevFn_invPair {n i j : Nat} (hj : j < n) :
    InvPair (2 * n) (signedRevFn n i j) (signedRevFn n i j) :=
  ⟨fun p hp => by unfold signedRevFn; pw, fun p _ => by unfold signedRevFn; pw⟩

theorem cyc3Fn_invPair {n a b c : Nat} (ha : a < n) (hb : b < n) (hc : c < n)
    (hab : a ≠ b) (hac : a ≠ c) (hbc : b ≠ c) : InvPair n (cyc3Fn a b c) (cyc3Fn a c b) :=
  ⟨fun p hp => by unfold cyc3Fn; pw, fun p _ => by unfold cyc3Fn; pw⟩

theorem rangeCycleFn_invPair {n i k : Nat} (hk : 1 ≤ k) (hik : i + k ≤ n) :
    InvPair n (rangeCycleFn i k) (rangeCycleInvFn i k) :=
  ⟨fun p hp => by unfold rangeCycleFn; pw,
   fun p _ => by unfold rangeCycleFn rangeCycleInvFn; pw⟩

theorem rangeCycleInvFn_invPair {n i k : Nat} (hk : 1 ≤ k) (hik : i + k ≤ n) :
    InvPair n (rangeCycleInvFn i k) (rangeCycleFn i k) :=
  ⟨fun p hp => by unfold rangeCycleInvFn; pw,
   fun p _ => by unfold rangeCycleFn rangeCycleInvFn; pw⟩

theorem adjSwapsFn_invPair {n r m : Nat} (hm : m ≤ n) : InvPair n (adjSwapsFn r m) (adjSwapsFn r m) :=
  ⟨fun p hp => by unfold adjSwapsFn; pw, fun p _ => by unfold adjSwapsFn; pw⟩

/-! ### one-line lists as concatenations of ascending / descending runs -/

theorem oneLine_eq_range' (n : Nat) (f : Nat → Nat) : oneLine n f = (List.range' 0 n).map f := by
  simp [oneLine, List.range_eq_range']

/-- a piece on which `f` is a translation: ascending run `t, t+1, …` -/
theorem map_range'_asc {f : Nat → Nat} (s len t : Nat)
    (h : ∀ p, s ≤ p → p < s + len → f p = t + (p - s)) :
    (List.range' s len).map f = List.range' t len := by
  apply List.ext_getElem (by simp)
  intro i h1 h2
  simp only [List.length_map, List.length_range'] at h1
  simp only [List.getElem_map, List.getElem_range', Nat.one_mul]
  rw [h (s + i) (by omega) (by omega)]; omega

/-- a piece on which `f` is a reflection: descending run `t+len-1, …, t` -/
theorem map_range'_desc {f : Nat → Nat} (s len t : Nat)
    (h : ∀ p, s ≤ p → p < s + len → f p + (p - s) + 1 = t + len) :
    (List.range' s len).map f = (List.range' t len).reverse := by
  apply List.ext_getElem (by simp)
  intro i h1 h2
  simp only [List.length_map, List.length_range'] at h1
  simp only [List.getElem_map, List.getElem_range', Nat.one_mul, List.getElem_reverse,
    List.length_range']
  have := h (s + i) (by omega) (by omega)
  omega

theorem range'_split (s a b : Nat) : List.range' s (a + b) = List.range' s a ++ List.range' (s + a) b :=
  List.range'_append_1.symm

/-- splitting `[0, n)` at `a ≤ n` -/
theorem range'_split_at (s n a : Nat) (h : a ≤ n) :
    List.range' s n = List.range' s a ++ List.range' (s + a) (n - a) := by
  rw [← range'_split]; congr 1; omega

/-! ### the action of runs on sequences -/

theorem apply_append (a b x : List Nat) : apply (a ++ b) x = apply a x ++ apply b x := by
  simp [apply]

theorem apply_reverse (a x : List Nat) : apply a.reverse x = (apply a x).reverse := by
  simp [apply]

theorem apply_range' (s len : Nat) (x : List Nat) (h : s + len ≤ x.length) :
    apply (List.range' s len) x = (x.drop s).take len := by
  apply List.ext_getElem (by simp [apply]; omega)
  intro i h1 h2
  simp only [apply, List.length_map, List.length_range'] at h1
  simp only [apply, List.getElem_map, List.getElem_range', Nat.one_mul, List.getElem_take,
    List.getElem_drop]
  rw [getD_eq_getElem (by omega)]

theorem apply_range (k : Nat) (x : List Nat) (h : k ≤ x.length) :
    apply (List.range k) x = x.take k := by
  rw [List.range_eq_range', apply_range' 0 k x (by omega)]; simp

theorem apply_range'_to_end (s : Nat) (x : List Nat) (h : s ≤ x.length) :
    apply (List.range' s (x.length - s)) x = x.drop s := by
  rw [apply_range' s _ x (by omega)]
  apply List.take_of_length_le; simp

theorem apply_singleton (i : Nat) (x : List Nat) : apply [i] x = [x.getD i 0] := rfl

/-! ### shifts and transpositions as lists / their action -/

theorem oneLine_shiftL (n : Nat) (hn : 1 ≤ n) :
    oneLine n (shiftLFn n) = List.range' 1 (n - 1) ++ [0] := by
  rw [oneLine_eq_range', range'_split_at 0 n (n - 1) (by omega), List.map_append]
  congr 1
  · apply map_range'_asc; intro p _ hp; rw [shiftLFn_eq (by omega)]; pw
  · rw [show n - (n - 1) = 1 by omega]
    simp only [List.range'_one, List.map_cons, List.map_nil, Nat.zero_add]
    rw [shiftLFn_eq (by omega)]; simp; omega

theorem oneLine_shiftR (n : Nat) (hn : 1 ≤ n) :
    oneLine n (shiftRFn n) = [n - 1] ++ List.range (n - 1) := by
  rw [oneLine_eq_range', range'_split_at 0 n 1 (by omega), List.map_append, List.range_eq_range']
  congr 1
  · simp only [List.range'_one, List.map_cons, List.map_nil]
    rw [shiftRFn_eq (by omega)]; simp
  · apply map_range'_asc; intro p hp _; rw [shiftRFn_eq (by omega)]; pw

/-- shift left: the first entry moves to the end -/
theorem apply_shiftL (n : Nat) (hn : 1 ≤ n) (x : List Nat) (hx : x.length = n) :
    apply (oneLine n (shiftLFn n)) x = x.drop 1 ++ x.take 1 := by
  rw [oneLine_shiftL n hn, apply_append, ← hx, apply_range'_to_end 1 x (by omega), apply_singleton]
  congr 1
  cases x with
  | nil => simp at hx; omega
  | cons a t => simp

/-- shift right: the last entry moves to the front -/
theorem apply_shiftR (n : Nat) (hn : 1 ≤ n) (x : List Nat) (hx : x.length = n) :
    apply (oneLine n (shiftRFn n)) x = x.drop (n - 1) ++ x.take (n - 1) := by
  rw [oneLine_shiftR n hn, apply_append, apply_range (n - 1) x (by omega), apply_singleton]
  congr 1
  apply List.ext_getElem (by simp; omega)
  intro i h1 h2
  have hi : i = 0 := by simp at h1; omega
  subst hi
  simp only [List.getElem_cons_zero, List.getElem_drop, Nat.add_zero]
  exact getD_eq_getElem (by omega)

/-- the model of the library helper `transposition(n, i, j)` returns the one-line list of `swapFn` -/
theorem transposition_eq (n i j : Nat) (hi : i < n) (hj : j < n) (hij : i ≠ j) :
    transposition n i j = some (oneLine n (swapFn i j)) := by
  unfold transposition
  rw [if_pos ⟨hi, hj, hij⟩]
  congr 1
  apply List.ext_getElem (by simp)
  intro k h1 h2
  have hk : k < n := by simpa using h2
  have := transposition_getD n i j k hk
  rw [getD_eq_getElem h1] at this
  rw [this, getElem_oneLine]
  unfold swapFn; pw

/-- a transposition exchanges two entries of a sequence -/
theorem apply_swap (n i j : Nat) (hi : i < n) (hj : j < n) (x : List Nat) (hx : x.length = n) :
    apply (oneLine n (swapFn i j)) x = (x.set i (x.getD j 0)).set j (x.getD i 0) := by
  apply List.ext_getElem (by simp [hx])
  intro k h1 h2
  have hk : k < n := by simpa using h1
  have := getD_apply_oneLine n (swapFn i j) x k hk
  rw [getD_eq_getElem h1] at this
  rw [this]
  simp only [List.getElem_set]
  unfold swapFn
  by_cases e1 : k = j
  · subst e1; simp
    split
    · rename_i e; subst e; rfl
    · rfl
  · by_cases e2 : k = i
    · subst e2; simp [Ne.symm e1]
    · simp only [e1, e2, if_false, Ne.symm e1, Ne.symm e2]
      exact getD_eq_getElem (by omega)

/-! ### half-open intervals with absolute end points (convenient for cutting `[0,n)` into pieces) -/

/-- `[s, e)` -/
def ico (s e : Nat) : List Nat := List.range' s (e - s)

theorem oneLine_eq_ico (n : Nat) (f : Nat → Nat) : oneLine n f = (ico 0 n).map f := by
  rw [oneLine_eq_range']; rfl

theorem ico_cut (s e m : Nat) (h1 : s ≤ m) (h2 : m ≤ e) : ico s e = ico s m ++ ico m e := by
  unfold ico
  rw [range'_split_at s (e - s) (m - s) (by omega)]
  congr 2 <;> omega

theorem map_ico_asc {f : Nat → Nat} (s e t : Nat) (h : ∀ p, s ≤ p → p < e → f p = t + (p - s)) :
    (ico s e).map f = List.range' t (e - s) :=
  map_range'_asc s (e - s) t fun p h1 h2 => h p h1 (by omega)

theorem map_ico_desc {f : Nat → Nat} (s e t : Nat)
    (h : ∀ p, s ≤ p → p < e → f p + (p - s) + 1 = t + (e - s)) :
    (ico s e).map f = (List.range' t (e - s)).reverse :=
  map_range'_desc s (e - s) t fun p h1 h2 => h p h1 (by omega)

theorem map_ico_id {f : Nat → Nat} (s e : Nat) (h : ∀ p, s ≤ p → p < e → f p = p) :
    (ico s e).map f = List.range' s (e - s) :=
  map_ico_asc s e s fun p h1 h2 => by rw [h p h1 h2]; omega

/-- variants with a free length (to be matched up to arithmetic) -/
theorem map_ico_asc' {f : Nat → Nat} (s e t len : Nat) (hlen : e - s = len)
    (h : ∀ p, s ≤ p → p < e → f p = t + (p - s)) : (ico s e).map f = List.range' t len := by
  subst hlen; exact map_ico_asc s e t h

theorem map_ico_desc' {f : Nat → Nat} (s e t len : Nat) (hlen : e - s = len)
    (h : ∀ p, s ≤ p → p < e → f p + (p - s) + 1 = t + len) :
    (ico s e).map f = (List.range' t len).reverse := by
  subst hlen; exact map_ico_desc s e t h

end Cv.Families
