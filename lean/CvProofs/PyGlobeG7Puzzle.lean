/-
  G7 part 6: `globe_puzzle` regenerated from the source = the specification `Cv.Puzzles.globe`.  Core Lean only.
-/
import CvProofs.PyGlobeG7Gens

namespace Cv.PyG7
open Cv.Py Cv.PyGen Cv.Puzzles

/-- a loop that appends to a pair of lists -/
theorem foldlM_pair_flat {ι A B : Type} (L : List ι) (body : List A × List B → ι → Option (List A × List B))
    (F : ι → List A) (G : ι → List B)
    (h : ∀ x ∈ L, ∀ st, body st x = some (st.1 ++ F x, st.2 ++ G x)) (init : List A × List B) :
    L.foldlM body init = some (init.1 ++ L.flatMap F, init.2 ++ L.flatMap G) := by
  induction L generalizing init with
  | nil => simp
  | cons a t ih =>
    rw [List.foldlM_cons, h a List.mem_cons_self]
    simp only [Option.bind_eq_bind, Option.bind_some]
    rw [ih (fun x hx => h x (List.mem_cons_of_mem _ hx))]
    simp [List.append_assoc]

theorem row_inverse_gen (a b k : Nat) (hk : k < a + 1) :
    PyGen.Perm.inverse_permutation (toI (globeRow a b k)) = some (toI (globeRowInv a b k)) := by
  rcases Nat.eq_zero_or_pos b with rfl | hb
  · have e1 : globeRow a 0 k = [] := by simp [globeRow, ofFn]
    have e2 : globeRowInv a 0 k = [] := by simp [globeRowInv, ofFn]
    rw [e1, e2, PyG1.inverse_permutation_gen [] (by simp)]
    rfl
  obtain ⟨h1, h2⟩ := globeRow_perm a b k hk hb
  rw [PyG1.inverse_permutation_gen _ (by rw [h1.length_eq]; exact h1.lt), h2]

theorem globe_puzzle_gen_all (a b : Nat) :
    Globe.globe_puzzle a b = some { gens := (globe a b).gens.map toI, central := some (toI (globe a b).central),
                                    names := some (globe a b).names,
                                    name := some ("globe_puzzle-" ++ toString a ++ "-" ++ toString b) } := by
  unfold Globe.globe_puzzle
  dsimp only
  rw [globe_gens_gen_all a b]
  simp only [Option.bind_eq_bind, Option.bind_some]
  rw [List.foldlM_append, List.foldlM_map]
  rw [foldlM_pair_flat (List.range (a + 1)) _ (fun k => [toI (globeRow a b k), toI (globeRowInv a b k)])
    (fun k => ["r" ++ toString k, "r" ++ toString k ++ "_inv"]) ?hrow]
  case hrow =>
    intro k hk st
    have hk := List.mem_range.1 hk
    simp only [contains_r, if_true, row_inverse_gen a b k hk, Option.bind_some]
    simp [List.append_assoc]
  simp only [Option.bind_eq_bind, Option.bind_some, List.nil_append]
  rw [List.foldlM_map]
  rw [foldlM_pair_flat (List.range (2 * b)) _ (fun c => [toI (globeFlip a b c)])
    (fun c => ["f" ++ toString c]) ?hflip]
  case hflip =>
    intro c _ st
    simp only [not_contains_f]
    rfl
  simp only [Option.bind_some]
  have hcen : pyRange 0 (2 * (b : Int) * ((a : Int) + 1)) 1 = toI (List.range (2 * (a + 1) * b)) := by
    apply pyRange_zero_of
    rw [Nat.mul_right_comm]; push_cast; rfl
  rw [hcen, globe_name_str, globe_names_eq]
  simp only [pure, globe, List.map_append, List.map_flatMap, List.map_cons, List.map_nil, List.map_map,
    PyG2.flatMap_single]
  rfl

theorem globe_puzzle_gen (a b : Nat) (_hb : 1 ≤ b) :
    Globe.globe_puzzle a b = some { gens := (globe a b).gens.map toI, central := some (toI (globe a b).central),
                                    names := some (globe a b).names,
                                    name := some ("globe_puzzle-" ++ toString a ++ "-" ++ toString b) } :=
  globe_puzzle_gen_all a b

end Cv.PyG7
