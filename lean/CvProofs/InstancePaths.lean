/-
  The path algorithms on the library's concrete permutation graphs (`CvModel/Instance.lean`, `CvModel/InstancePaths.lean`).

  The abstract hypothesis `PathHyp g gi` is FALSE for the encoded pair (rows of the wrong length are not restored by the
  inverse routine; see `CvProps/C04e.lean`), so the pair is shown to satisfy `PathHypOn (Valid w n) g gi`
  (`CvProofs/Restrict.lean`): everything holds on the rows that encode an encodable state.  The theorems of
  `CvProofs/Restrict.lean` are then decoded to the MATHEMATICAL graph `permGraphNb perms` / action `genAct perms`.
  Core Lean only.
-/
import CvModel.InstancePaths
import CvProofs.Instance
import CvProofs.Restrict
import CvProofs.GraphDef
namespace Cv.Instance
open Cv Cv.Codec

/-! ### the inverted generator list -/

theorem inverse_perms (n : Nat) (perms : List (List Nat)) (hp : ∀ p ∈ perms, Cv.Perm.IsPermOf n p) :
    ∀ p ∈ perms.map Cv.Perm.inverse, Cv.Perm.IsPermOf n p := by
  intro p hpm
  obtain ⟨q, hq, rfl⟩ := List.mem_map.1 hpm
  exact Cv.Perm.inverse_isPerm n q (hp q hq)

theorem getD_map_inverse (perms : List (List Nat)) (i : Nat) (hi : i < perms.length) :
    (perms.map Cv.Perm.inverse).getD i [] = Cv.Perm.inverse (perms.getD i []) := by
  rw [getD_of_lt' _ _ _ (by simpa using hi), getD_of_lt' _ _ _ hi]
  simp

/-- the inverses of an inverse-closed list are inverse-closed -/
theorem inverse_closed_map (n : Nat) (perms : List (List Nat)) (hp : ∀ p ∈ perms, Cv.Perm.IsPermOf n p)
    (hic : ∀ p ∈ perms, Cv.Perm.inverse p ∈ perms) :
    ∀ p ∈ perms.map Cv.Perm.inverse, Cv.Perm.inverse p ∈ perms.map Cv.Perm.inverse := by
  intro p hpm
  obtain ⟨q, hq, rfl⟩ := List.mem_map.1 hpm
  rw [Cv.Perm.inverse_inverse n q (hp q hq)]
  exact List.mem_map.2 ⟨Cv.Perm.inverse q, hic q hq, Cv.Perm.inverse_inverse n q (hp q hq)⟩

/-- `with_inverted_generators` keeps the flag `generators_inverse_closed` -/
theorem inverted_flag_eq (n : Nat) (perms : List (List Nat)) (hp : ∀ p ∈ perms, Cv.Perm.IsPermOf n p) :
    (Cv.GraphDef.inverseMapPerm (perms.map Cv.Perm.inverse)).isSome = (Cv.GraphDef.inverseMapPerm perms).isSome := by
  rw [Bool.eq_iff_iff, Cv.GraphDef.inverseClosed_iff, Cv.GraphDef.inverseClosed_iff]
  constructor
  · intro h p hpm
    have h1 := inverse_closed_map n _ (inverse_perms n perms hp) h
    have e : (perms.map Cv.Perm.inverse).map Cv.Perm.inverse = perms := by
      rw [List.map_map]
      conv => rhs; rw [← List.map_id perms]
      apply List.map_congr_left
      intro q hq
      exact Cv.Perm.inverse_inverse n q (hp q hq)
    rw [e] at h1
    exact h1 p hpm
  · exact inverse_closed_map n perms hp

/-! ### the mathematical action -/

theorem genAct_mem (perms : List (List Nat)) (i : Nat) (hi : i < perms.length) (s : List Nat) :
    genAct perms i s ∈ permGraphNb perms s :=
  List.mem_map.2 ⟨perms.getD i [], getD_mem perms [] i hi, rfl⟩

theorem genAct_inverse (n : Nat) (perms : List (List Nat)) (hp : ∀ p ∈ perms, Cv.Perm.IsPermOf n p)
    (i : Nat) (hi : i < perms.length) (s : List Nat) (hs : s.length = n) :
    genAct (perms.map Cv.Perm.inverse) i (genAct perms i s) = s ∧
    genAct perms i (genAct (perms.map Cv.Perm.inverse) i s) = s := by
  unfold genAct
  rw [getD_map_inverse perms i hi]
  exact Cv.Perm.apply_inverse_cancel n _ (hp _ (getD_mem perms [] i hi)) s hs

theorem encodable_genAct (w n : Nat) (perms : List (List Nat)) (hp : ∀ p ∈ perms, Cv.Perm.IsPermOf n p)
    (i : Nat) (hi : i < perms.length) (s : List Nat) (hs : encodable w n s = true) :
    encodable w n (genAct perms i s) = true :=
  encodable_apply _ w n (hp _ (getD_mem perms [] i hi)) s hs

theorem encodable_applyPath (w n : Nat) (perms : List (List Nat)) (hp : ∀ p ∈ perms, Cv.Perm.IsPermOf n p)
    (s : List Nat) (hs : encodable w n s = true) (p : List Nat) (hv : ∀ i ∈ p, i < perms.length) :
    encodable w n (applyPath (genAct perms) s p) = true := by
  induction p generalizing s with
  | nil => exact hs
  | cons i p ih =>
    rw [applyPath_cons]
    exact ih _ (encodable_genAct w n perms hp i (hv i (by simp)) s hs) (fun j hj => hv j (by simp [hj]))

/-! ### the encoded pair -/

section enc
variable (w n : Nat) (hw : 1 ≤ w) (hw' : w ≤ 64) (perms : List (List Nat))
  (hp : ∀ p ∈ perms, Cv.Perm.IsPermOf n p) (hash : List W → Int) (ic : Bool) (batch : Nat)
include hw hw' hp

theorem encoded_act_genAct (i : Nat) (hi : i < perms.length) (s : List Nat) :
    (encodedPermGraph w n perms hash ic batch).act i (encode w n s) = encode w n (genAct perms i s) :=
  encoded_act_encode w n hw hw' perms hp hash ic batch i hi s

theorem encoded_closed : ClosedOn (Valid w n) (encodedPermGraph w n perms hash ic batch) := by
  intro i hi x hx
  obtain ⟨s, hs, rfl⟩ := hx
  have hi' : i < perms.length := hi
  rw [encoded_act_genAct w n hw hw' perms hp hash ic batch i hi' s]
  exact ⟨_, encodable_genAct w n perms hp i hi' s hs, rfl⟩

/-- replaying a path on an encoding = encoding of the path replayed with the mathematical action -/
theorem encoded_applyPath (s : List Nat) (p : List Nat) (hv : ∀ i ∈ p, i < perms.length) :
    applyPath (encodedPermGraph w n perms hash ic batch).act (encode w n s) p =
      encode w n (applyPath (genAct perms) s p) := by
  induction p generalizing s with
  | nil => rfl
  | cons i p ih =>
    rw [applyPath_cons, applyPath_cons,
      encoded_act_genAct w n hw hw' perms hp hash ic batch i (hv i (by simp)) s]
    exact ih _ (fun j hj => hv j (by simp [hj]))

/-- **`PathHyp` on the rows that encode a state**: the library's inverted copy (inverse permutations compiled with the
same encoder, same hasher) undoes every generator on encodings, and `Valid` is closed under both generator families -/
theorem encoded_pathHypOn (hinj : ∀ x y, Valid w n x → Valid w n y → hash x = hash y → x = y) :
    PathHypOn (Valid w n) (encodedPermGraph w n perms hash ic batch)
      (encodedPermGraphInv w n perms hash ic batch) where
  hashEq := fun _ _ => rfl
  nGens := by simp [encodedPermGraphInv, encodedPermGraph]
  closed := encoded_closed w n hw hw' perms hp hash ic batch
  closedI := encoded_closed w n hw hw' _ (inverse_perms n perms hp) hash ic batch
  inv := by
    intro i hi x hx
    obtain ⟨s, hs, rfl⟩ := hx
    have hi' : i < perms.length := hi
    have hi2 : i < (perms.map Cv.Perm.inverse).length := by simpa using hi'
    have hpi := inverse_perms n perms hp
    have hsl := length_of_encodable hs
    unfold encodedPermGraphInv
    constructor
    · rw [encoded_act_genAct w n hw hw' perms hp hash ic batch i hi' s,
        encoded_act_genAct w n hw hw' _ hpi hash ic batch i hi2 _,
        (genAct_inverse n perms hp i hi' s hsl).1]
    · rw [encoded_act_genAct w n hw hw' _ hpi hash ic batch i hi2 s,
        encoded_act_genAct w n hw hw' perms hp hash ic batch i hi' _,
        (genAct_inverse n perms hp i hi' s hsl).2]
  inj := hinj

/-- inverse-closed generator list ⇒ the encoded graph is symmetric on encodings -/
theorem encoded_symmOn (hic : ∀ p ∈ perms, Cv.Perm.inverse p ∈ perms) :
    SymmOn (Valid w n) (encodedPermGraph w n perms hash ic batch) := by
  intro x y hx hy
  obtain ⟨s, hs, rfl⟩ := hx
  rw [encoded_nb_encode w n hw hw' perms hp hash ic batch s] at hy
  obtain ⟨t, ht, rfl⟩ := List.mem_map.1 hy
  rw [encoded_nb_encode w n hw hw' perms hp hash ic batch t]
  apply List.mem_map_of_mem
  obtain ⟨p, hpm, rfl⟩ := List.mem_map.1 ht
  have := (Cv.Perm.apply_inverse_cancel n p (hp p hpm) s (length_of_encodable hs)).1
  unfold Cv.Perm.apply at this
  exact List.mem_map.2 ⟨Cv.Perm.inverse p, hic p hpm, this⟩

/-- the library's `generators_inverse_map` is an inverse map on encodings -/
theorem encoded_isInvMapOn (m : List Nat) (hm : permInvMap perms = some m) :
    IsInvMapOn (Valid w n) (encodedPermGraph w n perms hash ic batch) m := by
  obtain ⟨h1, h2⟩ := Cv.GraphDef.inverseMapPerm_spec n perms hp m hm
  refine ⟨h1, ?_⟩
  intro i hi
  have hi' : i < perms.length := hi
  obtain ⟨j, hj1, hj2, hj3, -, -⟩ := h2 i hi'
  refine ⟨j, hj1, hj2, ?_⟩
  intro x hx
  obtain ⟨s, hs, rfl⟩ := hx
  rw [encoded_act_genAct w n hw hw' perms hp hash ic batch i hi' s,
    encoded_act_genAct w n hw hw' perms hp hash ic batch j hj2 _]
  congr 1
  unfold genAct
  rw [hj3]
  exact (Cv.Perm.apply_inverse_cancel n _ (hp _ (getD_mem perms [] i hi')) s (length_of_encodable hs)).1

/-! ### decoding the mathematics -/

omit hw hw' in
theorem orbit_encodable (S : List (List Nat)) (hS : ∀ s ∈ S, encodable w n s = true) (s : List Nat)
    (h : InOrbit (permGraphNb perms) S s) : encodable w n s = true :=
  Transport.inOrbit_invariant _ _ (fun s => encodable w n s = true) hS
    (fun a b ha hb => encodable_of_mem_nb w n perms hp a b ha hb) s h

theorem enc_hcomm (S : List (List Nat)) : ∀ s, InOrbit (permGraphNb perms) S s →
    (permGraphNb perms s).map (encode w n) = (encodedPermGraph w n perms hash ic batch).nb (encode w n s) :=
  fun s _ => (encoded_nb_encode w n hw hw' perms hp hash ic batch s).symm

theorem enc_hinj (S : List (List Nat)) (hS : ∀ s ∈ S, encodable w n s = true) :
    ∀ x y, InOrbit (permGraphNb perms) S x → InOrbit (permGraphNb perms) S y →
      encode w n x = encode w n y → x = y :=
  fun x y hx hy e => encode_injective w n hw hw' x y (orbit_encodable w n perms hp S hS x hx)
    (orbit_encodable w n perms hp S hS y hy) e

/-- `Reach` in the encoded graph between encodings = `Reach` in the mathematical graph -/
theorem enc_reach_iff (S : List (List Nat)) (hS : ∀ s ∈ S, encodable w n s = true) (k : Nat) (q : List Nat)
    (hq : encodable w n q = true) :
    Reach (encodedPermGraph w n perms hash ic batch).nb (S.map (encode w n)) k (encode w n q) ↔
      Reach (permGraphNb perms) S k q := by
  constructor
  · intro h
    obtain ⟨x, hx, e⟩ := Transport.reach_lift (permGraphNb perms) _ (encode w n) S
      (enc_hcomm w n hw hw' perms hp hash ic batch S) k _ h
    have := encode_injective w n hw hw' x q (orbit_encodable w n perms hp S hS x ⟨k, hx⟩) hq e
    rw [← this]; exact hx
  · exact Transport.reach_map (permGraphNb perms) _ (encode w n) S
      (enc_hcomm w n hw hw' perms hp hash ic batch S) k q

/-- distance classes of encodings in the encoded graph = mathematical distance classes (query state ANY encodable state,
inside or outside the orbit) -/
theorem enc_distLayer_iff (S : List (List Nat)) (hS : ∀ s ∈ S, encodable w n s = true) (k : Nat) (q : List Nat)
    (hq : encodable w n q = true) :
    DistLayer (encodedPermGraph w n perms hash ic batch).nb (S.map (encode w n)) k (encode w n q) ↔
      DistLayer (permGraphNb perms) S k q := by
  unfold DistLayer
  simp only [enc_reach_iff w n hw hw' perms hp hash ic batch S hS _ q hq]

theorem enc_walk_iff (k : Nat) (a b : List Nat) (ha : encodable w n a = true) (hb : encodable w n b = true) :
    Walk (encodedPermGraph w n perms hash ic batch).nb k (encode w n a) (encode w n b) ↔
      Walk (permGraphNb perms) k a b := by
  rw [← reach_singleton, ← reach_singleton]
  exact enc_reach_iff w n hw hw' perms hp hash ic batch [a] (by simpa using ha) k b hb

/-- a layer enumeration of the encoded graph decodes to a layer enumeration of the mathematical graph (same length) -/
theorem enc_layer (S : List (List Nat)) (hS : ∀ s ∈ S, encodable w n s = true) (k : Nat) (L : List (List W))
    (hL : IsLayer (encodedPermGraph w n perms hash ic batch) (S.map (encode w n)) k L) :
    ∃ L' : List (List Nat), L'.length = L.length ∧ L'.Nodup ∧ ∀ s, s ∈ L' ↔ DistLayer (permGraphNb perms) S k s := by
  obtain ⟨h1, h2⟩ := encoded_layer_map w n hw hw' perms hp hash ic batch S hS k L hL
  exact ⟨L.map (decode w n), by simp, h1, h2⟩

/-! ### end to end: the ball -/

local notation "G" => encodedPermGraph w n perms hash ic batch
local notation "GI" => encodedPermGraphInv w n perms hash ic batch
local notation "Math" => permGraphNb perms
local notation "MathI" => permGraphNb (perms.map Cv.Perm.inverse)

omit hw hw' hp in
theorem valid_encode (s : List Nat) (hs : encodable w n s = true) : Valid w n (encode w n s) := ⟨s, hs, rfl⟩

/-- a BFS run of the model with `return_all_hashes` from the encoded central state returns a ball of the encoded graph -/
theorem encoded_ball (hinj : ∀ x y, Valid w n x → Valid w n y → hash x = hash y → x = y)
    (hic : ic = true → ∀ p ∈ perms, Cv.Perm.inverse p ∈ perms) (hb : 0 < batch)
    (c : BfsCfg (List W)) (hr : c.returnHashes = true) (central : List Nat) (hc : encodable w n central = true) :
    ∃ K, K ≤ c.maxDiameter ∧ (bfs G c [encode w n central]).hashes.length = K + 1 ∧
      IsBall G (encode w n central) (bfs G c [encode w n central]).hashes :=
  bfs_isBall_on (encoded_closed w n hw hw' perms hp hash ic batch) hinj
    (fun h => encoded_symmOn w n hw hw' perms hp hash ic batch (hic h)) hb c hr [encode w n central]
    (fun s hs => by
      rw [List.mem_singleton] at hs; subst hs; exact valid_encode w n central hc)

/-- what a ball of the encoded graph is, in terms of the MATHEMATICAL graph: layer `i` is the strictly sorted tensor of
the hashes of the encodings of the states at distance exactly `i` from the central state -/
theorem encoded_ball_math (central : List Nat) (hc : encodable w n central = true) (Hs : List (List Int))
    (hball : IsBall G (encode w n central) Hs) :
    ∀ i H, Hs[i]? = some H → H.Pairwise (· < ·) ∧ ∃ L : List (List Nat), L.Nodup ∧
      (∀ s, s ∈ L ↔ DistLayer Math [central] i s) ∧ H.Perm (L.map fun s => hash (encode w n s)) := by
  intro i H hi
  obtain ⟨h1, L, hnd, hmem, hperm⟩ := hball i H hi
  have hS : ∀ s ∈ [central], encodable w n s = true := by simpa using hc
  have hval : ∀ x ∈ L, Valid w n x := fun x hx =>
    valid_of_inOrbit w n hw hw' perms hp hash ic batch [central] hS x ((hmem x).1 hx).inOrbit
  obtain ⟨h2, h3⟩ := encoded_layer_map w n hw hw' perms hp hash ic batch [central] hS i L ⟨hnd, hmem⟩
  refine ⟨h1, L.map (decode w n), h2, h3, ?_⟩
  rw [List.map_map]
  have : L.map ((fun s => hash (encode w n s)) ∘ decode w n) = L.map hash := by
    apply List.map_congr_left
    intro x hx
    obtain ⟨s, hs, rfl⟩ := hval x hx
    simp only [Function.comp, decode_encode w n hw hw' s hs]
  rw [this]
  exact hperm

/-! ### end to end: C04 -/

/-- decoding the `found` branch: a replayed path -/
theorem decode_path (a b : List Nat) (ha : encodable w n a = true) (hb : encodable w n b = true) (p : List Nat)
    (hv : ∀ i ∈ p, i < perms.length) (h : applyPath (G).act (encode w n a) p = encode w n b) :
    applyPath (genAct perms) a p = b := by
  rw [encoded_applyPath w n hw hw' perms hp hash ic batch a p hv] at h
  exact encode_injective w n hw hw' _ _ (encodable_applyPath w n perms hp a ha p hv) hb h

/-- **C04e** `find_path_to` on the encoded graph, in terms of the mathematical graph -/
theorem encoded_findPathTo_spec (hinj : ∀ x y, Valid w n x → Valid w n y → hash x = hash y → x = y)
    (central : List Nat) (hc : encodable w n central = true) (Hs : List (List Int))
    (hball : IsBall G (encode w n central) Hs) (q : List Nat) (hq : encodable w n q = true) :
    match findPathTo G GI Hs (encode w n q) with
    | .found p => applyPath (genAct perms) central p = q ∧ DistLayer Math [central] p.length q ∧
        p.length < Hs.length ∧ ∀ i ∈ p, i < perms.length
    | .notFound => ∀ i, i < Hs.length → ¬ DistLayer Math [central] i q
    | .assertFail _ => False := by
  have key := findPathTo_spec_on (encoded_pathHypOn w n hw hw' perms hp hash ic batch hinj)
    (encode w n central) (valid_encode w n central hc) Hs hball (encode w n q) (valid_encode w n q hq)
  have hS : ∀ s ∈ [central], encodable w n s = true := by simpa using hc
  have hd := fun k => enc_distLayer_iff w n hw hw' perms hp hash ic batch [central] hS k q hq
  cases hr : findPathTo G GI Hs (encode w n q) with
  | found p =>
    rw [hr] at key
    simp only at key ⊢
    obtain ⟨h1, h2, h3, h4⟩ := key
    exact ⟨decode_path w n hw hw' perms hp hash ic batch central q hc hq p h4 h1, (hd _).1 h2, h3, h4⟩
  | notFound =>
    rw [hr] at key
    intro i hi hdl
    exact key i hi ((hd i).2 hdl)
  | assertFail m => rw [hr] at key; exact key

omit hw hw' hp in
/-- `generators_inverse_map` exists for an inverse-closed generator list -/
theorem permInvMap_some (hcl : ∀ p ∈ perms, Cv.Perm.inverse p ∈ perms) : ∃ m, permInvMap perms = some m := by
  have := (Cv.GraphDef.inverseClosed_iff perms).2 hcl
  exact Option.isSome_iff_exists.1 this

/-- **C04e** `find_path_from` on the encoded graph (inverse-closed generators) -/
theorem encoded_findPathFrom_spec (hinj : ∀ x y, Valid w n x → Valid w n y → hash x = hash y → x = y)
    (hic : ic = true) (hcl : ∀ p ∈ perms, Cv.Perm.inverse p ∈ perms)
    (central : List Nat) (hc : encodable w n central = true) (Hs : List (List Int))
    (hball : IsBall G (encode w n central) Hs) (q : List Nat) (hq : encodable w n q = true) :
    match findPathFrom G GI (permInvMap perms) Hs (encode w n q) with
    | .found p => applyPath (genAct perms) q p = central ∧ DistLayer Math [central] p.length q ∧
        p.length < Hs.length ∧ ∀ i ∈ p, i < perms.length
    | .notFound => ∀ i, i < Hs.length → ¬ DistLayer Math [central] i q
    | .assertFail _ => False := by
  obtain ⟨m, hm⟩ := permInvMap_some perms hcl
  rw [hm]
  have key := findPathFrom_spec_on (encoded_pathHypOn w n hw hw' perms hp hash ic batch hinj) hic m
    (encoded_isInvMapOn w n hw hw' perms hp hash ic batch m hm)
    (encode w n central) (valid_encode w n central hc) Hs hball (encode w n q) (valid_encode w n q hq)
  have hS : ∀ s ∈ [central], encodable w n s = true := by simpa using hc
  have hd := fun k => enc_distLayer_iff w n hw hw' perms hp hash ic batch [central] hS k q hq
  cases hr : findPathFrom G GI (some m) Hs (encode w n q) with
  | found p =>
    rw [hr] at key
    simp only at key ⊢
    obtain ⟨h1, h2, h3, h4⟩ := key
    exact ⟨decode_path w n hw hw' perms hp hash ic batch q central hq hc p h4 h1, (hd _).1 h2, h3, h4⟩
  | notFound =>
    rw [hr] at key
    intro i hi hdl
    exact key i hi ((hd i).2 hdl)
  | assertFail m => rw [hr] at key; exact key

/-! ### end to end: C05 -/

/-- the inverted encoded graph is symmetric on encodings when the flag is truthful -/
theorem encodedInv_symmOn (hcl : ∀ p ∈ perms, Cv.Perm.inverse p ∈ perms) : SymmOn (Valid w n) GI :=
  encoded_symmOn w n hw hw' _ (inverse_perms n perms hp) hash ic batch (inverse_closed_map n perms hp hcl)

/-- transport of the size hypothesis `hexp` of the MITM theorems: layers of the inverted encoded graph have the size of
the mathematical layers of the inverse generators -/
theorem encodedInv_hexp (dest : List Nat) (hd : encodable w n dest = true) (D : Nat)
    (hexp : ∀ k (L : List (List Nat)), 1 ≤ k → k ≤ D → L.Nodup →
      (∀ s, s ∈ L ↔ DistLayer MathI [dest] k s) → L.length < 10^12) :
    ∀ k L, 1 ≤ k → k ≤ D → IsLayer GI [encode w n dest] k L → L.length < 10^12 := by
  intro k L hk1 hk2 hL
  have hS : ∀ s ∈ [dest], encodable w n s = true := by simpa using hd
  obtain ⟨L', hlen, hnd, hmem⟩ :=
    enc_layer w n hw hw' _ (inverse_perms n perms hp) hash ic batch [dest] hS k L hL
  rw [← hlen]
  exact hexp k L' hk1 hk2 hnd hmem

/-- **C05e** meet in the middle `find_path_to` on the encoded graph; `hexp` is the size hypothesis of the abstract
theorem (the backward BFS runs with the default `max_layer_size_to_explore = 10**12`), stated for the mathematical graph
of the INVERSE generators around the destination -/
theorem encoded_mitmFindPathTo_spec (hinj : ∀ x y, Valid w n x → Valid w n y → hash x = hash y → x = y)
    (hic : ic = true → ∀ p ∈ perms, Cv.Perm.inverse p ∈ perms) (hb : 0 < batch)
    (central : List Nat) (hc : encodable w n central = true) (Hs : List (List Int))
    (hball : IsBall G (encode w n central) Hs) (hne : Hs ≠ []) (dest : List Nat) (hd : encodable w n dest = true)
    (hexp : ∀ k (L : List (List Nat)), 1 ≤ k → k ≤ Hs.length - 1 → L.Nodup →
      (∀ s, s ∈ L ↔ DistLayer MathI [dest] k s) → L.length < 10^12) :
    match mitmFindPathTo G GI Hs (encode w n dest) with
    | .found p => applyPath (genAct perms) central p = dest ∧ DistLayer Math [central] p.length dest ∧
        p.length ≤ 2 * (Hs.length - 1) ∧ ∀ i ∈ p, i < perms.length
    | .notFound => ∀ k, k ≤ 2 * (Hs.length - 1) → ¬ Walk Math k central dest
    | .assertFail _ => False := by
  have key := mitmFindPathTo_spec_on (encoded_pathHypOn w n hw hw' perms hp hash ic batch hinj)
    (fun h => encodedInv_symmOn w n hw hw' perms hp hash ic batch (hic h)) hb
    (encode w n central) (valid_encode w n central hc) Hs hball hne (encode w n dest) (valid_encode w n dest hd)
    (encodedInv_hexp w n hw hw' perms hp hash ic batch dest hd _ hexp)
  have hS : ∀ s ∈ [central], encodable w n s = true := by simpa using hc
  cases hr : mitmFindPathTo G GI Hs (encode w n dest) with
  | found p =>
    rw [hr] at key
    simp only at key ⊢
    obtain ⟨h1, h2, h3, h4⟩ := key
    exact ⟨decode_path w n hw hw' perms hp hash ic batch central dest hc hd p h4 h1,
      (enc_distLayer_iff w n hw hw' perms hp hash ic batch [central] hS _ dest hd).1 h2, h3, h4⟩
  | notFound =>
    rw [hr] at key
    intro k hk wk
    exact key k hk ((enc_walk_iff w n hw hw' perms hp hash ic batch k central dest hc hd).2 wk)
  | assertFail m => rw [hr] at key; exact key

/-- **C05e** meet in the middle `find_path_from` on the encoded graph (inverse-closed generators) -/
theorem encoded_mitmFindPathFrom_spec (hinj : ∀ x y, Valid w n x → Valid w n y → hash x = hash y → x = y)
    (hic : ic = true) (hcl : ∀ p ∈ perms, Cv.Perm.inverse p ∈ perms) (hb : 0 < batch)
    (central : List Nat) (hc : encodable w n central = true) (Hs : List (List Int))
    (hball : IsBall G (encode w n central) Hs) (hne : Hs ≠ []) (start : List Nat)
    (hs : encodable w n start = true)
    (hexp : ∀ k (L : List (List Nat)), 1 ≤ k → k ≤ Hs.length - 1 → L.Nodup →
      (∀ s, s ∈ L ↔ DistLayer MathI [start] k s) → L.length < 10^12) :
    match mitmFindPathFrom G GI (permInvMap perms) Hs (encode w n start) with
    | .found p => applyPath (genAct perms) start p = central ∧ p.length ≤ 2 * (Hs.length - 1) ∧
        (∀ k, Walk Math k start central → p.length ≤ k) ∧ ∀ i ∈ p, i < perms.length
    | .notFound => ∀ k, k ≤ 2 * (Hs.length - 1) → ¬ Walk Math k start central
    | .assertFail _ => False := by
  obtain ⟨m, hm⟩ := permInvMap_some perms hcl
  rw [hm]
  have key := mitmFindPathFrom_spec_on (encoded_pathHypOn w n hw hw' perms hp hash ic batch hinj) hic
    (encoded_symmOn w n hw hw' perms hp hash ic batch hcl)
    (fun _ => encodedInv_symmOn w n hw hw' perms hp hash ic batch hcl) hb m
    (encoded_isInvMapOn w n hw hw' perms hp hash ic batch m hm)
    (encode w n central) (valid_encode w n central hc) Hs hball hne (encode w n start) (valid_encode w n start hs)
    (encodedInv_hexp w n hw hw' perms hp hash ic batch start hs _ hexp)
  cases hr : mitmFindPathFrom G GI (some m) Hs (encode w n start) with
  | found p =>
    rw [hr] at key
    simp only at key ⊢
    obtain ⟨h1, h2, h3, h4⟩ := key
    exact ⟨decode_path w n hw hw' perms hp hash ic batch start central hs hc p h4 h1, h2,
      fun k wk => h3 k ((enc_walk_iff w n hw hw' perms hp hash ic batch k start central hs hc).2 wk), h4⟩
  | notFound =>
    rw [hr] at key
    intro k hk wk
    exact key k hk ((enc_walk_iff w n hw hw' perms hp hash ic batch k start central hs hc).2 wk)
  | assertFail m => rw [hr] at key; exact key

/-- **C05e** `find_path_between` on the encoded graph: start set and destination set are lists of encodable states -/
theorem encoded_between_spec (hinj : ∀ x y, Valid w n x → Valid w n y → hash x = hash y → x = y)
    (S T : List (List Nat)) (hS : ∀ s ∈ S, encodable w n s = true) (hT : ∀ t ∈ T, encodable w n t = true)
    (M : Nat) :
    match findPathBetween G GI (S.map (encode w n)) (T.map (encode w n)) M with
    | none => False
    | some none => ∀ s ∈ S, ∀ t ∈ T, ∀ k, k ≤ 2 * M → ¬ Walk Math k s t
    | some (some r) =>
        ∃ s, s ∈ S ∧ r.start = encode w n s ∧ applyPath (genAct perms) s r.edges ∈ T ∧
          (∀ i ∈ r.edges, i < perms.length) ∧ r.edges.length ≤ 2 * M ∧
          ∀ s ∈ S, ∀ t ∈ T, ∀ k, Walk Math k s t → r.edges.length ≤ k := by
  have key := between_spec_on (encoded_pathHypOn w n hw hw' perms hp hash ic batch hinj)
    (S.map (encode w n)) (T.map (encode w n))
    (fun x hx => by obtain ⟨s, hs, rfl⟩ := List.mem_map.1 hx; exact valid_encode w n s (hS s hs))
    (fun x hx => by obtain ⟨t, ht, rfl⟩ := List.mem_map.1 hx; exact valid_encode w n t (hT t ht)) M
  cases hr : findPathBetween G GI (S.map (encode w n)) (T.map (encode w n)) M with
  | none => rw [hr] at key; exact key
  | some o =>
    cases o with
    | none =>
      rw [hr] at key
      simp only at key ⊢
      intro s hs t ht k hk wk
      exact key _ (List.mem_map_of_mem hs) _ (List.mem_map_of_mem ht) k hk
        ((enc_walk_iff w n hw hw' perms hp hash ic batch k s t (hS s hs) (hT t ht)).2 wk)
    | some r =>
      rw [hr] at key
      simp only at key ⊢
      obtain ⟨h1, h2, h3, h4, h5⟩ := key
      obtain ⟨s, hs, hrs⟩ := List.mem_map.1 h1
      refine ⟨s, hs, hrs.symm, ?_, h3, h4, ?_⟩
      · rw [← hrs, encoded_applyPath w n hw hw' perms hp hash ic batch s r.edges h3] at h2
        obtain ⟨t, ht, e⟩ := List.mem_map.1 h2
        have := encode_injective w n hw hw' _ _ (hT t ht)
          (encodable_applyPath w n perms hp s (hS s hs) r.edges h3) e
        rw [← this]; exact ht
      · intro s' hs' t ht k wk
        exact h5 _ (List.mem_map_of_mem hs') _ (List.mem_map_of_mem ht) k
          ((enc_walk_iff w n hw hw' perms hp hash ic batch k s' t (hS s' hs') (hT t ht)).2 wk)

/-! ### end to end: C12 -/

/-- the hypotheses of the `find_path` theorems hold on encodings -/
theorem encoded_findHypOn (hinj : ∀ x y, Valid w n x → Valid w n y → hash x = hash y → x = y)
    (hic : ic = true → ∀ p ∈ perms, Cv.Perm.inverse p ∈ perms) (hb : 0 < batch) :
    FindHypOn (Valid w n) G GI (permInvMap perms) where
  path := encoded_pathHypOn w n hw hw' perms hp hash ic batch hinj
  symG := fun h => encoded_symmOn w n hw hw' perms hp hash ic batch (hic h)
  symGi := fun h => encodedInv_symmOn w n hw hw' perms hp hash ic batch (hic h)
  batchG := hb
  batchGi := hb
  invMap := fun h => by
    obtain ⟨m, hm⟩ := permInvMap_some perms (hic h)
    exact ⟨m, hm, encoded_isInvMapOn w n hw hw' perms hp hash ic batch m hm⟩

/-- the ball `find_path` caches: around the central state in `g` (inverse-closed) or in the inverted graph -/
def encodedFindBall (w n : Nat) (perms : List (List Nat)) (hash : List W → Int) (ic : Bool) (batch : Nat)
    (central : List Nat) (me md : Option Nat) : List (List Int) :=
  if ic then (precomputeBfs (encodedPermGraph w n perms hash ic batch) (encode w n central) me md).hashes
  else (precomputeBfs (encodedPermGraphInv w n perms hash ic batch) (encode w n central) me md).hashes

/-- **C12e** whatever `find_path` returns on the encoded graph replays, with the MATHEMATICAL action, from the start
state to the central state -/
theorem encoded_findPath_valid (hinj : ∀ x y, Valid w n x → Valid w n y → hash x = hash y → x = y)
    (hic : ic = true → ∀ p ∈ perms, Cv.Perm.inverse p ∈ perms) (hb : 0 < batch)
    (central start : List Nat) (hc : encodable w n central = true) (hs : encodable w n start = true)
    (me md : Option Nat) :
    match findPath G GI (permInvMap perms) (encode w n central) (encode w n start) me md with
    | .found p => applyPath (genAct perms) start p = central ∧ ∀ i ∈ p, i < perms.length
    | .notFound => True
    | .assertFail _ => False := by
  have key := findPath_valid_on (permInvMap perms)
    (encoded_findHypOn w n hw hw' perms hp hash ic batch hinj hic hb)
    (encode w n central) (encode w n start) (valid_encode w n central hc) (valid_encode w n start hs) me md
  cases hr : findPath G GI (permInvMap perms) (encode w n central) (encode w n start) me md with
  | found p =>
    rw [hr] at key
    exact ⟨decode_path w n hw hw' perms hp hash ic batch start central hs hc p key.2 key.1, key.2⟩
  | notFound => trivial
  | assertFail m => rw [hr] at key; exact key

/-- **C12e** `find_path` on the encoded graph returns a shortest path whenever one of length at most twice the depth of
the cached ball exists; `hexp` as in the abstract theorem (mathematical layers around the start state: of the inverse
generators when inverse-closed, of the generators otherwise) -/
theorem encoded_findPath_shortest (hinj : ∀ x y, Valid w n x → Valid w n y → hash x = hash y → x = y)
    (hic : ic = true → ∀ p ∈ perms, Cv.Perm.inverse p ∈ perms) (hb : 0 < batch)
    (central start : List Nat) (hc : encodable w n central = true) (hs : encodable w n start = true)
    (me md : Option Nat)
    (hexp : ∀ k (L : List (List Nat)), 1 ≤ k →
      k ≤ (encodedFindBall w n perms hash ic batch central me md).length - 1 → L.Nodup →
      (∀ s, s ∈ L ↔ DistLayer (permGraphNb (if ic then perms.map Cv.Perm.inverse else perms)) [start] k s) →
      L.length < 10^12) :
    match findPath G GI (permInvMap perms) (encode w n central) (encode w n start) me md with
    | .found p => p.length ≤ 2 * ((encodedFindBall w n perms hash ic batch central me md).length - 1) ∧
        ∀ k, Walk Math k start central → p.length ≤ k
    | .notFound => ∀ k, k ≤ 2 * ((encodedFindBall w n perms hash ic batch central me md).length - 1) →
        ¬ Walk Math k start central
    | .assertFail _ => False := by
  have hS : ∀ s ∈ [start], encodable w n s = true := by simpa using hs
  have hG : (G).invClosed = ic := rfl
  have key := findPath_shortest_on (permInvMap perms)
    (encoded_findHypOn w n hw hw' perms hp hash ic batch hinj hic hb)
    (encode w n central) (encode w n start) (valid_encode w n central hc) (valid_encode w n start hs) me md
    (by
      intro k L hk1 hk2 hL
      rw [hG] at hk2 hL
      cases hicb : ic with
      | true =>
        rw [hicb] at hk2 hL
        simp only [if_true] at hk2 hL
        obtain ⟨L', hlen, hnd, hmem⟩ :=
          enc_layer w n hw hw' _ (inverse_perms n perms hp) hash true batch [start] hS k L hL
        rw [← hlen]
        refine hexp k L' hk1 ?_ hnd ?_
        · unfold encodedFindBall; rw [hicb]; exact hk2
        · rw [hicb]; exact hmem
      | false =>
        rw [hicb] at hk2 hL
        simp only [Bool.false_eq_true, if_false] at hk2 hL
        obtain ⟨L', hlen, hnd, hmem⟩ := enc_layer w n hw hw' perms hp hash false batch [start] hS k L hL
        rw [← hlen]
        refine hexp k L' hk1 ?_ hnd ?_
        · unfold encodedFindBall; rw [hicb]; exact hk2
        · rw [hicb]; exact hmem)
  simp only at key
  have hball : (if (G).invClosed = true then (precomputeBfs G (encode w n central) me md).hashes
      else (precomputeBfs GI (encode w n central) me md).hashes) =
      encodedFindBall w n perms hash ic batch central me md := rfl
  rw [hball] at key
  cases hr : findPath G GI (permInvMap perms) (encode w n central) (encode w n start) me md with
  | found p =>
    rw [hr] at key
    exact ⟨key.1, fun k wk =>
      key.2 k ((enc_walk_iff w n hw hw' perms hp hash ic batch k start central hs hc).2 wk)⟩
  | notFound =>
    rw [hr] at key
    intro k hk wk
    exact key k hk ((enc_walk_iff w n hw hw' perms hp hash ic batch k start central hs hc).2 wk)
  | assertFail m => rw [hr] at key; exact key

end enc

/-! ### single-word states: the graph built from the 1-D routines gives the same answers -/

/-- on encodings (rows of one word) the 1-D routine `lambda x: t1 | t2 | …` is the 2-D routine -/
theorem encoded1d_agree (w n : Nat) (hw : 1 ≤ w) (hw' : w ≤ 64) (hlen : encLen w n = 1)
    (perms : List (List Nat)) (hp : ∀ p ∈ perms, Cv.Perm.IsPermOf n p) (hash : List W → Int) (ic : Bool)
    (batch : Nat) :
    AgreeOn (Valid w n) (encodedPermGraph1d w n perms hash ic batch) (encodedPermGraph w n perms hash ic batch) where
  nGens := rfl
  act := by
    intro i hi x hx
    have hi' : i < perms.length := hi
    have hpi := hp _ (getD_mem perms [] i hi')
    have hxl : x.length = 1 := by rw [length_of_valid hx, hlen]
    match x, hxl with
    | [a], _ =>
      show [evalProg1d (compile (perms.getD i []) w n) a] =
        evalProg (compile (perms.getD i []) w n) (encLen w n) [a]
      rw [hlen]
      exact evalProg1d_eq _ a (compile_src_dst_zero _ w n hw hw' hpi.length_eq
        ((Cv.Perm.isPermOf_iff_perm n _).1 hpi) hlen)
  hash := fun _ _ => rfl
  invClosed := rfl
  batch := rfl

theorem encoded1dInv_agree (w n : Nat) (hw : 1 ≤ w) (hw' : w ≤ 64) (hlen : encLen w n = 1)
    (perms : List (List Nat)) (hp : ∀ p ∈ perms, Cv.Perm.IsPermOf n p) (hash : List W → Int) (ic : Bool)
    (batch : Nat) :
    AgreeOn (Valid w n) (encodedPermGraph1dInv w n perms hash ic batch)
      (encodedPermGraphInv w n perms hash ic batch) :=
  encoded1d_agree w n hw hw' hlen _ (inverse_perms n perms hp) hash ic batch

/-! ### the un-encoded pair (`bit_encoding_width=None`)

`P` = states of the right length whose entries satisfy an arbitrary predicate `Q` (`fun _ => True`, or a bound that makes
the hash injective). -/

/-- states of length `n` with entries in `Q` -/
def PlainValid (n : Nat) (Q : Nat → Prop) (s : List Nat) : Prop := s.length = n ∧ ∀ v ∈ s, Q v

theorem plainInv_nb (perms : List (List Nat)) (hash : List Nat → Int) (ic : Bool) (batch : Nat) :
    (plainPermGraphInv perms hash ic batch).nb = permGraphNb (perms.map Cv.Perm.inverse) :=
  plain_nb _ hash ic batch

section plain
variable (n : Nat) (Q : Nat → Prop) (perms : List (List Nat)) (hp : ∀ p ∈ perms, Cv.Perm.IsPermOf n p)
  (hash : List Nat → Int) (ic : Bool) (batch : Nat)
include hp

local notation "G" => plainPermGraph perms hash ic batch
local notation "GI" => plainPermGraphInv perms hash ic batch
local notation "Math" => permGraphNb perms
local notation "MathI" => permGraphNb (perms.map Cv.Perm.inverse)

theorem plainValid_genAct (i : Nat) (hi : i < perms.length) (s : List Nat) (hs : PlainValid n Q s) :
    PlainValid n Q (genAct perms i s) := by
  have hpi := hp _ (getD_mem perms [] i hi)
  refine ⟨by unfold genAct; rw [List.length_map]; exact hpi.length_eq, ?_⟩
  intro v hv
  obtain ⟨j, hj, rfl⟩ := List.mem_map.1 hv
  have hjl : j < s.length := by rw [hs.1]; exact hpi.lt j hj
  rw [getD_of_lt' _ _ _ hjl]
  exact hs.2 _ (List.getElem_mem hjl)

theorem plain_closed : ClosedOn (PlainValid n Q) G :=
  fun i hi s hs => plainValid_genAct n Q perms hp i hi s hs

/-- `PathHyp` for the un-encoded pair on the states of length `n` (entries in `Q`) -/
theorem plain_pathHypOn (hinj : ∀ s t, PlainValid n Q s → PlainValid n Q t → hash s = hash t → s = t) :
    PathHypOn (PlainValid n Q) G GI where
  hashEq := fun _ _ => rfl
  nGens := by simp [plainPermGraphInv, plainPermGraph]
  closed := plain_closed n Q perms hp hash ic batch
  closedI := plain_closed n Q _ (inverse_perms n perms hp) hash ic batch
  inv := fun i hi s hs => genAct_inverse n perms hp i hi s hs.1
  inj := hinj

theorem plain_symmOn (hcl : ∀ p ∈ perms, Cv.Perm.inverse p ∈ perms) : SymmOn (PlainValid n Q) G := by
  intro s t hs ht
  rw [plain_nb] at ht ⊢
  obtain ⟨p, hpm, rfl⟩ := List.mem_map.1 ht
  have := (Cv.Perm.apply_inverse_cancel n p (hp p hpm) s hs.1).1
  unfold Cv.Perm.apply at this
  exact List.mem_map.2 ⟨Cv.Perm.inverse p, hcl p hpm, this⟩

theorem plainInv_symmOn (hcl : ∀ p ∈ perms, Cv.Perm.inverse p ∈ perms) : SymmOn (PlainValid n Q) GI :=
  plain_symmOn n Q _ (inverse_perms n perms hp) hash ic batch (inverse_closed_map n perms hp hcl)

theorem plain_isInvMapOn (m : List Nat) (hm : permInvMap perms = some m) :
    IsInvMapOn (PlainValid n Q) G m := by
  obtain ⟨h1, h2⟩ := Cv.GraphDef.inverseMapPerm_spec n perms hp m hm
  refine ⟨h1, ?_⟩
  intro i hi
  have hi' : i < perms.length := hi
  obtain ⟨j, hj1, hj2, hj3, -, -⟩ := h2 i hi'
  refine ⟨j, hj1, hj2, ?_⟩
  intro s hs
  show genAct perms j (genAct perms i s) = s
  unfold genAct
  rw [hj3]
  exact (Cv.Perm.apply_inverse_cancel n _ (hp _ (getD_mem perms [] i hi')) s hs.1).1

/-- a BFS run with `return_all_hashes` from the central state returns a ball -/
theorem plain_ball (hinj : ∀ s t, PlainValid n Q s → PlainValid n Q t → hash s = hash t → s = t)
    (hic : ic = true → ∀ p ∈ perms, Cv.Perm.inverse p ∈ perms) (hb : 0 < batch)
    (c : BfsCfg (List Nat)) (hr : c.returnHashes = true) (central : List Nat) (hc : PlainValid n Q central) :
    ∃ K, K ≤ c.maxDiameter ∧ (bfs G c [central]).hashes.length = K + 1 ∧
      IsBall G central (bfs G c [central]).hashes :=
  bfs_isBall_on (plain_closed n Q perms hp hash ic batch) hinj
    (fun h => plain_symmOn n Q perms hp hash ic batch (hic h)) hb c hr [central]
    (fun s hs => by rw [List.mem_singleton] at hs; subst hs; exact hc)

omit hp in
/-- a ball of the un-encoded graph in terms of the mathematical graph -/
theorem plain_ball_math (central : List Nat) (Hs : List (List Int)) (hball : IsBall G central Hs) :
    ∀ i H, Hs[i]? = some H → H.Pairwise (· < ·) ∧ ∃ L : List (List Nat), L.Nodup ∧
      (∀ s, s ∈ L ↔ DistLayer Math [central] i s) ∧ H.Perm (L.map hash) := by
  intro i H hi
  have := hball i H hi
  rw [plain_nb] at this
  exact this

/-- **C04e, un-encoded** `find_path_to` -/
theorem plain_findPathTo_spec (hinj : ∀ s t, PlainValid n Q s → PlainValid n Q t → hash s = hash t → s = t)
    (central : List Nat) (hc : PlainValid n Q central) (Hs : List (List Int)) (hball : IsBall G central Hs)
    (q : List Nat) (hq : PlainValid n Q q) :
    match findPathTo G GI Hs q with
    | .found p => applyPath (genAct perms) central p = q ∧ DistLayer Math [central] p.length q ∧
        p.length < Hs.length ∧ ∀ i ∈ p, i < perms.length
    | .notFound => ∀ i, i < Hs.length → ¬ DistLayer Math [central] i q
    | .assertFail _ => False := by
  have key := findPathTo_spec_on (plain_pathHypOn n Q perms hp hash ic batch hinj) central hc Hs hball q hq
  rw [plain_nb] at key
  exact key

/-- **C04e, un-encoded** `find_path_from` -/
theorem plain_findPathFrom_spec (hinj : ∀ s t, PlainValid n Q s → PlainValid n Q t → hash s = hash t → s = t)
    (hic : ic = true) (hcl : ∀ p ∈ perms, Cv.Perm.inverse p ∈ perms)
    (central : List Nat) (hc : PlainValid n Q central) (Hs : List (List Int)) (hball : IsBall G central Hs)
    (q : List Nat) (hq : PlainValid n Q q) :
    match findPathFrom G GI (permInvMap perms) Hs q with
    | .found p => applyPath (genAct perms) q p = central ∧ DistLayer Math [central] p.length q ∧
        p.length < Hs.length ∧ ∀ i ∈ p, i < perms.length
    | .notFound => ∀ i, i < Hs.length → ¬ DistLayer Math [central] i q
    | .assertFail _ => False := by
  obtain ⟨m, hm⟩ := permInvMap_some perms hcl
  rw [hm]
  have key := findPathFrom_spec_on (plain_pathHypOn n Q perms hp hash ic batch hinj) hic m
    (plain_isInvMapOn n Q perms hp hash ic batch m hm) central hc Hs hball q hq
  rw [plain_nb] at key
  exact key

/-- **C04e** `revert_path` (a statement about the generator list only): reverting a valid path `A → B` with the
library's inverse map gives a valid path `B → A` of the same length -/
theorem perm_revertPath_spec (hcl : ∀ p ∈ perms, Cv.Perm.inverse p ∈ perms) (p : List Nat)
    (hv : ∀ i ∈ p, i < perms.length) (A : List Nat) (hA : A.length = n) :
    ∃ r, revertPathM (permInvMap perms) p = some r ∧ r.length = p.length ∧ (∀ i ∈ r, i < perms.length) ∧
      applyPath (genAct perms) (applyPath (genAct perms) A p) r = A := by
  obtain ⟨m, hm⟩ := permInvMap_some perms hcl
  rw [hm]
  exact revertPathM_spec_on (g := plainPermGraph perms (fun _ => 0) true 1)
    (plain_closed n (fun _ => True) perms hp (fun _ => 0) true 1) m
    (plain_isInvMapOn n (fun _ => True) perms hp (fun _ => 0) true 1 m hm) p hv A ⟨hA, fun _ _ => trivial⟩

omit hp in
/-- transport of `hexp` for the un-encoded inverted graph -/
theorem plainInv_hexp (dest : List Nat) (D : Nat)
    (hexp : ∀ k (L : List (List Nat)), 1 ≤ k → k ≤ D → L.Nodup →
      (∀ s, s ∈ L ↔ DistLayer MathI [dest] k s) → L.length < 10^12) :
    ∀ k L, 1 ≤ k → k ≤ D → IsLayer GI [dest] k L → L.length < 10^12 := by
  intro k L hk1 hk2 hL
  have h2 := hL.2
  rw [plainInv_nb] at h2
  exact hexp k L hk1 hk2 hL.1 h2

/-- **C05e, un-encoded** meet in the middle `find_path_to` -/
theorem plain_mitmFindPathTo_spec (hinj : ∀ s t, PlainValid n Q s → PlainValid n Q t → hash s = hash t → s = t)
    (hic : ic = true → ∀ p ∈ perms, Cv.Perm.inverse p ∈ perms) (hb : 0 < batch)
    (central : List Nat) (hc : PlainValid n Q central) (Hs : List (List Int)) (hball : IsBall G central Hs)
    (hne : Hs ≠ []) (dest : List Nat) (hd : PlainValid n Q dest)
    (hexp : ∀ k (L : List (List Nat)), 1 ≤ k → k ≤ Hs.length - 1 → L.Nodup →
      (∀ s, s ∈ L ↔ DistLayer MathI [dest] k s) → L.length < 10^12) :
    match mitmFindPathTo G GI Hs dest with
    | .found p => applyPath (genAct perms) central p = dest ∧ DistLayer Math [central] p.length dest ∧
        p.length ≤ 2 * (Hs.length - 1) ∧ ∀ i ∈ p, i < perms.length
    | .notFound => ∀ k, k ≤ 2 * (Hs.length - 1) → ¬ Walk Math k central dest
    | .assertFail _ => False := by
  have key := mitmFindPathTo_spec_on (plain_pathHypOn n Q perms hp hash ic batch hinj)
    (fun h => plainInv_symmOn n Q perms hp hash ic batch (hic h)) hb central hc Hs hball hne dest hd
    (plainInv_hexp perms hash ic batch dest _ hexp)
  rw [plain_nb] at key
  exact key

/-- **C05e, un-encoded** meet in the middle `find_path_from` -/
theorem plain_mitmFindPathFrom_spec
    (hinj : ∀ s t, PlainValid n Q s → PlainValid n Q t → hash s = hash t → s = t)
    (hic : ic = true) (hcl : ∀ p ∈ perms, Cv.Perm.inverse p ∈ perms) (hb : 0 < batch)
    (central : List Nat) (hc : PlainValid n Q central) (Hs : List (List Int)) (hball : IsBall G central Hs)
    (hne : Hs ≠ []) (start : List Nat) (hs : PlainValid n Q start)
    (hexp : ∀ k (L : List (List Nat)), 1 ≤ k → k ≤ Hs.length - 1 → L.Nodup →
      (∀ s, s ∈ L ↔ DistLayer MathI [start] k s) → L.length < 10^12) :
    match mitmFindPathFrom G GI (permInvMap perms) Hs start with
    | .found p => applyPath (genAct perms) start p = central ∧ p.length ≤ 2 * (Hs.length - 1) ∧
        (∀ k, Walk Math k start central → p.length ≤ k) ∧ ∀ i ∈ p, i < perms.length
    | .notFound => ∀ k, k ≤ 2 * (Hs.length - 1) → ¬ Walk Math k start central
    | .assertFail _ => False := by
  obtain ⟨m, hm⟩ := permInvMap_some perms hcl
  rw [hm]
  have key := mitmFindPathFrom_spec_on (plain_pathHypOn n Q perms hp hash ic batch hinj) hic
    (plain_symmOn n Q perms hp hash ic batch hcl) (fun _ => plainInv_symmOn n Q perms hp hash ic batch hcl) hb m
    (plain_isInvMapOn n Q perms hp hash ic batch m hm) central hc Hs hball hne start hs
    (plainInv_hexp perms hash ic batch start _ hexp)
  rw [plain_nb] at key
  exact key

/-- **C05e, un-encoded** `find_path_between` -/
theorem plain_between_spec (hinj : ∀ s t, PlainValid n Q s → PlainValid n Q t → hash s = hash t → s = t)
    (S T : List (List Nat)) (hS : ∀ s ∈ S, PlainValid n Q s) (hT : ∀ t ∈ T, PlainValid n Q t) (M : Nat) :
    match findPathBetween G GI S T M with
    | none => False
    | some none => ∀ s ∈ S, ∀ t ∈ T, ∀ k, k ≤ 2 * M → ¬ Walk Math k s t
    | some (some r) =>
        r.start ∈ S ∧ applyPath (genAct perms) r.start r.edges ∈ T ∧ (∀ i ∈ r.edges, i < perms.length) ∧
        r.edges.length ≤ 2 * M ∧ ∀ s ∈ S, ∀ t ∈ T, ∀ k, Walk Math k s t → r.edges.length ≤ k := by
  have key := between_spec_on (plain_pathHypOn n Q perms hp hash ic batch hinj) S T hS hT M
  rw [plain_nb] at key
  cases hr : findPathBetween G GI S T M with
  | none => rw [hr] at key; exact key
  | some o =>
    cases o with
    | none => rw [hr] at key; exact key
    | some r => rw [hr] at key; exact key

/-- the hypotheses of the `find_path` theorems hold for the un-encoded pair -/
theorem plain_findHypOn (hinj : ∀ s t, PlainValid n Q s → PlainValid n Q t → hash s = hash t → s = t)
    (hic : ic = true → ∀ p ∈ perms, Cv.Perm.inverse p ∈ perms) (hb : 0 < batch) :
    FindHypOn (PlainValid n Q) G GI (permInvMap perms) where
  path := plain_pathHypOn n Q perms hp hash ic batch hinj
  symG := fun h => plain_symmOn n Q perms hp hash ic batch (hic h)
  symGi := fun h => plainInv_symmOn n Q perms hp hash ic batch (hic h)
  batchG := hb
  batchGi := hb
  invMap := fun h => by
    obtain ⟨m, hm⟩ := permInvMap_some perms (hic h)
    exact ⟨m, hm, plain_isInvMapOn n Q perms hp hash ic batch m hm⟩

/-- the ball `find_path` caches (un-encoded) -/
def plainFindBall (perms : List (List Nat)) (hash : List Nat → Int) (ic : Bool) (batch : Nat)
    (central : List Nat) (me md : Option Nat) : List (List Int) :=
  if ic then (precomputeBfs (plainPermGraph perms hash ic batch) central me md).hashes
  else (precomputeBfs (plainPermGraphInv perms hash ic batch) central me md).hashes

/-- **C12e, un-encoded** `find_path` returns valid paths -/
theorem plain_findPath_valid (hinj : ∀ s t, PlainValid n Q s → PlainValid n Q t → hash s = hash t → s = t)
    (hic : ic = true → ∀ p ∈ perms, Cv.Perm.inverse p ∈ perms) (hb : 0 < batch)
    (central start : List Nat) (hc : PlainValid n Q central) (hs : PlainValid n Q start) (me md : Option Nat) :
    match findPath G GI (permInvMap perms) central start me md with
    | .found p => applyPath (genAct perms) start p = central ∧ ∀ i ∈ p, i < perms.length
    | .notFound => True
    | .assertFail _ => False :=
  findPath_valid_on (permInvMap perms) (plain_findHypOn n Q perms hp hash ic batch hinj hic hb)
    central start hc hs me md

/-- **C12e, un-encoded** `find_path` returns shortest paths -/
theorem plain_findPath_shortest (hinj : ∀ s t, PlainValid n Q s → PlainValid n Q t → hash s = hash t → s = t)
    (hic : ic = true → ∀ p ∈ perms, Cv.Perm.inverse p ∈ perms) (hb : 0 < batch)
    (central start : List Nat) (hc : PlainValid n Q central) (hs : PlainValid n Q start) (me md : Option Nat)
    (hexp : ∀ k (L : List (List Nat)), 1 ≤ k →
      k ≤ (plainFindBall perms hash ic batch central me md).length - 1 → L.Nodup →
      (∀ s, s ∈ L ↔ DistLayer (permGraphNb (if ic then perms.map Cv.Perm.inverse else perms)) [start] k s) →
      L.length < 10^12) :
    match findPath G GI (permInvMap perms) central start me md with
    | .found p => p.length ≤ 2 * ((plainFindBall perms hash ic batch central me md).length - 1) ∧
        ∀ k, Walk Math k start central → p.length ≤ k
    | .notFound => ∀ k, k ≤ 2 * ((plainFindBall perms hash ic batch central me md).length - 1) →
        ¬ Walk Math k start central
    | .assertFail _ => False := by
  have hG : (G).invClosed = ic := rfl
  have key := findPath_shortest_on (permInvMap perms) (plain_findHypOn n Q perms hp hash ic batch hinj hic hb)
    central start hc hs me md
    (by
      intro k L hk1 hk2 hL
      rw [hG] at hk2 hL
      have h2 := hL.2
      cases hicb : ic with
      | true =>
        rw [hicb] at hk2 h2
        simp only [if_true] at hk2 h2
        rw [plainInv_nb] at h2
        refine hexp k L hk1 ?_ hL.1 ?_
        · unfold plainFindBall; rw [hicb]; exact hk2
        · rw [hicb]; exact h2
      | false =>
        rw [hicb] at hk2 h2
        simp only [Bool.false_eq_true, if_false] at hk2 h2
        rw [plain_nb] at h2
        refine hexp k L hk1 ?_ hL.1 ?_
        · unfold plainFindBall; rw [hicb]; exact hk2
        · rw [hicb]; exact h2)
  simp only at key
  rw [plain_nb] at key
  exact key

end plain

/-! ### how the size hypothesis `hexp` is discharged -/

/-- every distance class lies inside any set of states that contains the start states and is closed under the
generators; so its enumerations are at most as long -/
theorem layer_le_of_closed (perms : List (List Nat)) (A : List (List Nat))
    (hA : ∀ s ∈ A, ∀ t ∈ permGraphNb perms s, t ∈ A) (S : List (List Nat)) (hS : ∀ s ∈ S, s ∈ A) (k : Nat)
    (L : List (List Nat)) (hnd : L.Nodup) (hmem : ∀ s, s ∈ L ↔ DistLayer (permGraphNb perms) S k s) :
    L.length ≤ A.length := by
  apply hnd.length_le_of_subset
  intro s hs
  exact Transport.inOrbit_invariant _ _ (fun s => s ∈ A) hS (fun a b ha hb => hA a ha b hb) s
    ((hmem s).1 hs).inOrbit

end Cv.Instance
