/-
  Proofs for the graph-object session model (`CvModel/Session.lean`), property C14.
-/
import CvModel.Session
namespace Cv.Session

section
variable {Def Enc Hasher Arg Res : Type}

/-! ### what a fresh computation gives -/

/-- immutable part of `modified_copy(new_def)` -/
def copyImm (c : Compute Def Enc Hasher Arg Res) (i : Imm Def Enc Hasher) (d : Def) : Imm Def Enc Hasher :=
  ⟨d, i.enc, i.hasher, c.defaultBatch⟩

/-- immutable part of `with_inverted_generators` -/
def invImm (c : Compute Def Enc Hasher Arg Res) (i : Imm Def Enc Hasher) : Imm Def Enc Hasher :=
  copyImm c i (c.invert i.defn)

/-- the chain graph → inverted copy → its inverted copy …, `d` levels -/
def invChain (c : Compute Def Enc Hasher Arg Res) : Nat → Imm Def Enc Hasher → List (Imm Def Enc Hasher)
  | 0, _ => []
  | d+1, i => invImm c i :: invChain c d (invImm c i)

/-- what an operation returns on a freshly constructed object with immutable part `i`: a function of `i` and the
arguments alone -/
def spec (c : Compute Def Enc Hasher Arg Res) (i : Imm Def Enc Hasher) : Op Def Arg Res → OutView Def Enc Hasher Res
  | .bfs _ opts => .value (c.bfs i opts)
  | .walks _ a d => .value (c.walks i a d)
  | .exportGraph _ a => .value (c.exportGraph i a)
  | .pathQuery _ q ball => .value (c.pathQuery i (invChain c (c.pathQueryDepth i q ball) i) q ball)
  | .beam _ a => .value (c.beam i (invChain c (c.beamDepth i a) i) a)
  | .takeInverted _ => .obj (invImm c i)
  | .modifiedCopy _ d => .obj (copyImm c i d)
  | .findPath _ start lim =>
    if c.hasModel i.defn then
      .value (c.beam i (invChain c (c.beamDepth i (c.modelBeamArgs start lim)) i) (c.modelBeamArgs start lim))
    else if c.invClosed i.defn then
      .value (c.pathFrom i (invChain c (c.mitmDepth i start (c.bfs i (c.ballOpts lim.key))) i) start
        (c.bfs i (c.ballOpts lim.key)))
    else
      .value (c.revPathTo (invImm c i)
        (invChain c (c.mitmDepth (invImm c i) start (c.bfs (invImm c i) (c.ballOpts lim.key))) (invImm c i)) start
        (c.bfs (invImm c i) (c.ballOpts lim.key)))

theorem spec_retarget (c : Compute Def Enc Hasher Arg Res) (i : Imm Def Enc Hasher) (k : ObjId)
    (op : Op Def Arg Res) : spec c i (op.retarget k) = spec c i op := by
  cases op <;> rfl

theorem target_retarget (k : ObjId) (op : Op Def Arg Res) : (op.retarget k).target = k := by
  cases op <;> rfl

theorem copyOf_imm (c : Compute Def Enc Hasher Arg Res) (o : Obj Def Enc Hasher Res) (d : Def) :
    (copyOf c o d).imm = copyImm c o.imm d := rfl

theorem new_imm (i : Imm Def Enc Hasher) : (Obj.new i : Obj Def Enc Hasher Res).imm = i := rfl

/-! ### the invariant -/

/-- every cache entry equals what a fresh computation with its key produces -/
structure Inv (c : Compute Def Enc Hasher Arg Res) (s : Session Def Enc Hasher Res) : Prop where
  ball : ∀ (k : Nat) (o : Obj Def Enc Hasher Res) (key : BallKey) (b : Res),
    s.objs[k]? = some o → o.ballCache = some (key, b) → b = c.bfs o.imm (c.ballOpts key)
  inv : ∀ (k : Nat) (o : Obj Def Enc Hasher Res) (id : ObjId), s.objs[k]? = some o → o.invertedCache = some id →
    ∃ oi : Obj Def Enc Hasher Res, s.objs[id]? = some oi ∧ oi.imm = invImm c o.imm

/-- immutable parts never change (and objects never disappear) -/
def Ext (s s' : Session Def Enc Hasher Res) : Prop :=
  ∀ (j : Nat) (o : Obj Def Enc Hasher Res), s.objs[j]? = some o →
    ∃ o' : Obj Def Enc Hasher Res, s'.objs[j]? = some o' ∧ o'.imm = o.imm

theorem Ext.refl (s : Session Def Enc Hasher Res) : Ext s s := fun _ o h => ⟨o, h, rfl⟩

theorem Ext.trans {s1 s2 s3 : Session Def Enc Hasher Res} (h12 : Ext s1 s2) (h23 : Ext s2 s3) : Ext s1 s3 := by
  intro j o h
  obtain ⟨o2, h2, e2⟩ := h12 j o h
  obtain ⟨o3, h3, e3⟩ := h23 j o2 h2
  exact ⟨o3, h3, e3.trans e2⟩

theorem inv_fresh (c : Compute Def Enc Hasher Arg Res) (root : Imm Def Enc Hasher) :
    Inv c (fresh root : Session Def Enc Hasher Res) := by
  constructor
  · intro k o key b ho hb
    cases k with
    | zero =>
      simp only [fresh, List.getElem?_cons_zero, Option.some.injEq] at ho
      subst ho; simp [Obj.new] at hb
    | succ k => simp [fresh] at ho
  · intro k o id ho hb
    cases k with
    | zero =>
      simp only [fresh, List.getElem?_cons_zero, Option.some.injEq] at ho
      subst ho; simp [Obj.new] at hb
    | succ k => simp [fresh] at ho

/-! ### updating one object and appending new ones -/

theorem lookup_upd (l extra : List (Obj Def Enc Hasher Res)) (k : Nat) (o' x : Obj Def Enc Hasher Res) (j : Nat)
    (_hk : k < l.length) (h : ((l ++ extra).set k o')[j]? = some x) :
    (j = k ∧ x = o') ∨ (j ≠ k ∧ j < l.length ∧ l[j]? = some x) ∨
      (j ≠ k ∧ l.length ≤ j ∧ extra[j - l.length]? = some x) := by
  rw [List.getElem?_set] at h
  by_cases hjk : k = j
  · subst hjk
    rw [if_pos rfl] at h
    split at h
    · left; exact ⟨rfl, (Option.some.inj h).symm⟩
    · cases h
  · rw [if_neg hjk] at h
    right
    by_cases hj : j < l.length
    · left
      rw [List.getElem?_append_left hj] at h
      exact ⟨fun e => hjk e.symm, hj, h⟩
    · right
      rw [List.getElem?_append_right (by omega)] at h
      exact ⟨fun e => hjk e.symm, by omega, h⟩

theorem lookup_upd_self (l extra : List (Obj Def Enc Hasher Res)) (k : Nat) (o' : Obj Def Enc Hasher Res)
    (hk : k < l.length) : ((l ++ extra).set k o')[k]? = some o' := by
  rw [List.getElem?_set]
  simp
  omega

theorem lookup_upd_old (l extra : List (Obj Def Enc Hasher Res)) (k : Nat) (o' : Obj Def Enc Hasher Res) (j : Nat)
    (hjk : j ≠ k) (hj : j < l.length) : ((l ++ extra).set k o')[j]? = l[j]? := by
  rw [List.getElem?_set, if_neg (fun e => hjk e.symm), List.getElem?_append_left hj]

theorem lookup_upd_new (l extra : List (Obj Def Enc Hasher Res)) (k : Nat) (o' : Obj Def Enc Hasher Res) (t : Nat)
    (hk : k < l.length) : ((l ++ extra).set k o')[l.length + t]? = extra[t]? := by
  rw [List.getElem?_set, if_neg (by omega), List.getElem?_append_right (by omega)]
  congr 1; omega

theorem lt_of_getElem? {α : Type} {l : List α} {k : Nat} {o : α} (h : l[k]? = some o) : k < l.length := by
  rcases Nat.lt_or_ge k l.length with h' | h'
  · exact h'
  · rw [List.getElem?_eq_none h'] at h; cases h

theorem ext_upd (s : Session Def Enc Hasher Res) (extra : List (Obj Def Enc Hasher Res)) (k : Nat)
    (o o' : Obj Def Enc Hasher Res) (ho : s.objs[k]? = some o) (himm : o'.imm = o.imm) :
    Ext s ⟨(s.objs ++ extra).set k o'⟩ := by
  have hk := lt_of_getElem? ho
  intro j x hx
  by_cases hjk : j = k
  · subst hjk
    rw [ho] at hx; cases hx
    exact ⟨o', lookup_upd_self _ _ _ _ hk, himm⟩
  · refine ⟨x, ?_, rfl⟩
    show ((s.objs ++ extra).set k o')[j]? = some x
    rw [lookup_upd_old _ _ _ _ _ hjk (lt_of_getElem? hx)]
    exact hx

/-- the invariant survives "rewrite the caches of object `k` with correct entries and append cache-less objects" -/
theorem inv_upd (c : Compute Def Enc Hasher Arg Res) (s : Session Def Enc Hasher Res)
    (extra : List (Obj Def Enc Hasher Res)) (k : Nat) (o o' : Obj Def Enc Hasher Res) (hinv : Inv c s)
    (ho : s.objs[k]? = some o) (himm : o'.imm = o.imm)
    (hball : ∀ key b, o'.ballCache = some (key, b) → b = c.bfs o.imm (c.ballOpts key))
    (hic : ∀ id, o'.invertedCache = some id →
      ∃ oi, ((s.objs ++ extra).set k o')[id]? = some oi ∧ oi.imm = invImm c o.imm)
    (hextra : ∀ x ∈ extra, x.ballCache = none ∧ x.invertedCache = none) :
    Inv c ⟨(s.objs ++ extra).set k o'⟩ := by
  have hk := lt_of_getElem? ho
  have hext := ext_upd s extra k o o' ho himm
  constructor
  · intro j x key b hx hb
    rcases lookup_upd _ _ _ _ _ _ hk hx with ⟨_, rfl⟩ | ⟨_, _, hx'⟩ | ⟨_, _, hx'⟩
    · rw [himm]; exact hball key b hb
    · exact hinv.ball j x key b hx' hb
    · have := (hextra x (List.mem_of_getElem? hx')).1
      rw [this] at hb; cases hb
  · intro j x id hx hb
    rcases lookup_upd _ _ _ _ _ _ hk hx with ⟨_, rfl⟩ | ⟨_, _, hx'⟩ | ⟨_, _, hx'⟩
    · rw [himm]; exact hic id hb
    · obtain ⟨oi, h1, h2⟩ := hinv.inv j x id hx' hb
      obtain ⟨oi', h1', h2'⟩ := hext id oi h1
      exact ⟨oi', h1', h2'.trans h2⟩
    · have := (hextra x (List.mem_of_getElem? hx')).2
      rw [this] at hb; cases hb

theorem set_self_eq {α : Type} (l : List α) (k : Nat) (o : α) (h : l[k]? = some o) : l.set k o = l := by
  apply List.ext_getElem?
  intro j
  rw [List.getElem?_set]
  split
  · rename_i hkj
    subst hkj
    split
    · exact h.symm
    · rename_i hlt
      rw [List.getElem?_eq_none (by omega)]
  · rfl

/-! ### the primitives -/

theorem inverted_spec (c : Compute Def Enc Hasher Arg Res) (s : Session Def Enc Hasher Res) (k : ObjId)
    (o : Obj Def Enc Hasher Res) (hinv : Inv c s) (ho : s.objs[k]? = some o) :
    ∃ s1 id oi, inverted c s k = (s1, some id) ∧ s1.objs[id]? = some oi ∧ oi.imm = invImm c o.imm ∧
      Inv c s1 ∧ Ext s s1 := by
  have hk := lt_of_getElem? ho
  unfold inverted
  rw [ho]
  simp only
  cases hc : o.invertedCache with
  | some id =>
    obtain ⟨oi, h1, h2⟩ := hinv.inv k o id ho hc
    exact ⟨s, id, oi, rfl, h1, h2, hinv, Ext.refl s⟩
  | none =>
    simp only
    have hnew : ((s.objs ++ [copyOf c o (c.invert o.defn)]).set k
        { o with invertedCache := some s.objs.length })[s.objs.length]? =
        some (copyOf c o (c.invert o.defn)) := by
      have := lookup_upd_new s.objs [copyOf c o (c.invert o.defn)] k
        { o with invertedCache := some s.objs.length } 0 hk
      rw [Nat.add_zero] at this
      rw [this]; rfl
    refine ⟨_, _, copyOf c o (c.invert o.defn), rfl, hnew, rfl, ?_, ?_⟩
    · apply inv_upd c s [copyOf c o (c.invert o.defn)] k o { o with invertedCache := some s.objs.length } hinv ho rfl
      · intro key b hb
        exact hinv.ball k o key b ho hb
      · intro id hid
        simp only [Option.some.injEq] at hid
        subst hid
        exact ⟨_, hnew, rfl⟩
      · intro x hx
        simp only [List.mem_singleton] at hx
        subst hx
        exact ⟨rfl, rfl⟩
    · exact ext_upd s _ k o _ ho rfl

theorem inverted_none (c : Compute Def Enc Hasher Arg Res) (s : Session Def Enc Hasher Res) (k : ObjId)
    (ho : s.objs[k]? = none) : inverted c s k = (s, none) := by
  unfold inverted
  rw [ho]

theorem precompute_spec (c : Compute Def Enc Hasher Arg Res) (s : Session Def Enc Hasher Res) (k : ObjId)
    (o : Obj Def Enc Hasher Res) (key : BallKey) (hinv : Inv c s) (ho : s.objs[k]? = some o) :
    ∃ s1, precompute true c s k key = (s1, some (c.bfs o.imm (c.ballOpts key))) ∧ Inv c s1 ∧ Ext s s1 := by
  unfold precompute
  rw [ho]
  simp only
  have hre : ∃ s1, ((⟨s.objs.set k { o with ballCache := some (key, c.bfs o.imm (c.ballOpts key)) }⟩,
      some (c.bfs o.imm (c.ballOpts key))) : Session Def Enc Hasher Res × Option Res) =
      (s1, some (c.bfs o.imm (c.ballOpts key))) ∧ Inv c s1 ∧ Ext s s1 := by
    refine ⟨_, rfl, ?_, ?_⟩
    · have := inv_upd c s [] k o { o with ballCache := some (key, c.bfs o.imm (c.ballOpts key)) } hinv ho rfl
        (by
          intro key' b hb
          simp only [Option.some.injEq, Prod.mk.injEq] at hb
          obtain ⟨rfl, rfl⟩ := hb
          rfl)
        (by
          intro id hid
          obtain ⟨oi, h1, h2⟩ := hinv.inv k o id ho hid
          obtain ⟨oi', h1', h2'⟩ := ext_upd s [] k o
            { o with ballCache := some (key, c.bfs o.imm (c.ballOpts key)) } ho rfl id oi h1
          exact ⟨oi', h1', h2'.trans h2⟩)
        (by simp)
      simpa using this
    · have := ext_upd s [] k o { o with ballCache := some (key, c.bfs o.imm (c.ballOpts key)) } ho rfl
      simpa using this
  cases hc : o.ballCache with
  | none => exact hre
  | some p =>
    obtain ⟨key', b⟩ := p
    simp only [Bool.not_true, Bool.false_or, decide_eq_true_eq]
    by_cases hkey : key' = key
    · rw [if_pos hkey]
      subst hkey
      have := hinv.ball k o key' b ho hc
      exact ⟨s, by rw [this], hinv, Ext.refl s⟩
    · rw [if_neg hkey]
      exact hre

theorem touchChain_spec (c : Compute Def Enc Hasher Arg Res) (d : Nat) (s : Session Def Enc Hasher Res) (k : ObjId)
    (o : Obj Def Enc Hasher Res) (hinv : Inv c s) (ho : s.objs[k]? = some o) :
    (touchChain c d s k).2 = invChain c d o.imm ∧ Inv c (touchChain c d s k).1 ∧ Ext s (touchChain c d s k).1 := by
  induction d generalizing s k o with
  | zero => exact ⟨rfl, hinv, Ext.refl s⟩
  | succ d ih =>
    obtain ⟨s1, id, oi, h1, h2, h3, h4, h5⟩ := inverted_spec c s k o hinv ho
    obtain ⟨ih1, ih2, ih3⟩ := ih s1 id oi h4 h2
    simp only [touchChain, h1, h2, invChain]
    refine ⟨?_, ih2, h5.trans ih3⟩
    rw [ih1, h3]

theorem touchChain_none (c : Compute Def Enc Hasher Arg Res) (d : Nat) (s : Session Def Enc Hasher Res) (k : ObjId)
    (ho : s.objs[k]? = none) : (touchChain c d s k).1 = s := by
  cases d with
  | zero => rfl
  | succ d => simp only [touchChain, inverted_none c s k ho]

/-! ### one step -/

/-- on a session satisfying the invariant, an operation on an existing object returns what the specification says
(a function of the immutable part of that object), keeps the invariant and changes no immutable part -/
theorem step_spec (c : Compute Def Enc Hasher Arg Res) (s : Session Def Enc Hasher Res) (op : Op Def Arg Res)
    (o : Obj Def Enc Hasher Res) (hinv : Inv c s) (ho : s.objs[op.target]? = some o) :
    view (step c s op) = spec c o.imm op ∧ Inv c (step c s op).1 ∧ Ext s (step c s op).1 := by
  cases op with
  | bfs k opts =>
    simp only [Op.target] at ho
    simp only [step, stepWith, ho, view, spec]
    exact ⟨trivial, hinv, Ext.refl s⟩
  | walks k a d =>
    simp only [Op.target] at ho
    simp only [step, stepWith, ho, view, spec]
    exact ⟨trivial, hinv, Ext.refl s⟩
  | exportGraph k a =>
    simp only [Op.target] at ho
    simp only [step, stepWith, ho, view, spec]
    exact ⟨trivial, hinv, Ext.refl s⟩
  | pathQuery k q ball =>
    simp only [Op.target] at ho
    obtain ⟨h1, h2, h3⟩ := touchChain_spec c (c.pathQueryDepth o.imm q ball) s k o hinv ho
    simp only [step, stepWith, ho, view, spec, h1]
    exact ⟨trivial, h2, h3⟩
  | beam k a =>
    simp only [Op.target] at ho
    obtain ⟨h1, h2, h3⟩ := touchChain_spec c (c.beamDepth o.imm a) s k o hinv ho
    simp only [step, stepWith, ho, view, spec, h1]
    exact ⟨trivial, h2, h3⟩
  | takeInverted k =>
    simp only [Op.target] at ho
    obtain ⟨s1, id, oi, h1, h2, h3, h4, h5⟩ := inverted_spec c s k o hinv ho
    simp only [step, stepWith, h1, view, h2, spec, h3]
    exact ⟨trivial, h4, h5⟩
  | modifiedCopy k d =>
    simp only [Op.target] at ho
    have hk := lt_of_getElem? ho
    have hlook : (s.objs ++ [copyOf c o d])[s.objs.length]? = some (copyOf c o d) := by
      rw [List.getElem?_append_right (Nat.le_refl _)]; simp
    have heq : (s.objs ++ [copyOf c o d]) = (s.objs ++ [copyOf c o d]).set k o :=
      (set_self_eq _ k o (by rw [List.getElem?_append_left hk]; exact ho)).symm
    simp only [step, stepWith, ho, view, hlook, spec, copyOf_imm]
    refine ⟨trivial, ?_, ?_⟩
    · rw [heq]
      apply inv_upd c s [copyOf c o d] k o o hinv ho rfl
      · intro key b hb; exact hinv.ball k o key b ho hb
      · intro id hid
        obtain ⟨oi, h1, h2⟩ := hinv.inv k o id ho hid
        obtain ⟨oi', h1', h2'⟩ := ext_upd s [copyOf c o d] k o o ho rfl id oi h1
        exact ⟨oi', h1', h2'.trans h2⟩
      · intro x hx
        simp only [List.mem_singleton] at hx
        subst hx; exact ⟨rfl, rfl⟩
    · rw [heq]
      exact ext_upd s [copyOf c o d] k o o ho rfl
  | findPath k start lim =>
    simp only [Op.target] at ho
    have hdefn : o.defn = o.imm.defn := rfl
    by_cases hm : c.hasModel o.defn = true
    · obtain ⟨h1, h2, h3⟩ := touchChain_spec c (c.beamDepth o.imm (c.modelBeamArgs start lim)) s k o hinv ho
      simp only [step, stepWith, ho, hm, if_true, view, spec, ← hdefn, h1]
      exact ⟨trivial, h2, h3⟩
    · replace hm : c.hasModel o.defn = false := by simpa using hm
      by_cases hcl : c.invClosed o.defn = true
      · obtain ⟨s1, p1, p2, p3⟩ := precompute_spec c s k o lim.key hinv ho
        obtain ⟨o1, ho1, hi1⟩ := p3 k o ho
        obtain ⟨h1, h2, h3⟩ := touchChain_spec c
          (c.mitmDepth o.imm start (c.bfs o.imm (c.ballOpts lim.key))) s1 k o1 p2 ho1
        simp only [step, stepWith, ho, hm, hcl, Bool.false_eq_true, if_true, if_false, p1, view, spec, ← hdefn, h1,
          hi1]
        exact ⟨trivial, h2, p3.trans h3⟩
      · replace hcl : c.invClosed o.defn = false := by simpa using hcl
        obtain ⟨s1, gi, oi, q1, q2, q3, q4, q5⟩ := inverted_spec c s k o hinv ho
        obtain ⟨s2, p1, p2, p3⟩ := precompute_spec c s1 gi oi lim.key q4 q2
        obtain ⟨o2, ho2, hi2⟩ := p3 gi oi q2
        rw [q3] at p1
        obtain ⟨h1, h2, h3⟩ := touchChain_spec c
          (c.mitmDepth (invImm c o.imm) start (c.bfs (invImm c o.imm) (c.ballOpts lim.key))) s2 gi o2 p2 ho2
        rw [hi2, q3] at h1
        simp only [step, stepWith, ho, hm, hcl, Bool.false_eq_true, if_false, q1, q2, p1, view, spec, ← hdefn, h1,
          q3]
        exact ⟨trivial, h2, (q5.trans p3).trans h3⟩

/-- an operation addressed to a non-existent object changes nothing -/
theorem step_none (c : Compute Def Enc Hasher Arg Res) (s : Session Def Enc Hasher Res) (op : Op Def Arg Res)
    (ho : s.objs[op.target]? = none) : (step c s op).1 = s := by
  cases op <;> simp only [Op.target] at ho <;> simp only [step, stepWith, ho, inverted_none c s _ ho]

theorem step_inv (c : Compute Def Enc Hasher Arg Res) (s : Session Def Enc Hasher Res) (op : Op Def Arg Res)
    (hinv : Inv c s) : Inv c (step c s op).1 ∧ Ext s (step c s op).1 := by
  cases ho : s.objs[op.target]? with
  | none => rw [step_none c s op ho]; exact ⟨hinv, Ext.refl s⟩
  | some o => exact (step_spec c s op o hinv ho).2

theorem run_inv (c : Compute Def Enc Hasher Arg Res) (s : Session Def Enc Hasher Res) (ops : List (Op Def Arg Res))
    (hinv : Inv c s) : Inv c (run c s ops) ∧ Ext s (run c s ops) := by
  induction ops generalizing s with
  | nil => exact ⟨hinv, Ext.refl s⟩
  | cons op t ih =>
    obtain ⟨h1, h2⟩ := step_inv c s op hinv
    obtain ⟨h3, h4⟩ := ih (step c s op).1 h1
    exact ⟨h3, h2.trans h4⟩

/-! ### history independence -/

theorem retarget_target (op : Op Def Arg Res) : op.retarget op.target = op := by
  cases op <;> rfl

/-- the invariant form: on ANY session satisfying the invariant, an operation on object `k` returns what it returns
on a fresh session whose only object has the same immutable part -/
theorem history_independent_of_inv (c : Compute Def Enc Hasher Arg Res) (s : Session Def Enc Hasher Res)
    (op : Op Def Arg Res) (o : Obj Def Enc Hasher Res) (hinv : Inv c s) (ho : s.objs[op.target]? = some o) :
    view (step c s op) = view (step c (fresh o.imm) (op.retarget 0)) := by
  rw [(step_spec c s op o hinv ho).1]
  have hf : (fresh o.imm : Session Def Enc Hasher Res).objs[(op.retarget 0).target]? = some (Obj.new o.imm) := by
    rw [target_retarget]; rfl
  rw [(step_spec c (fresh o.imm) (op.retarget 0) (Obj.new o.imm) (inv_fresh c o.imm) hf).1, new_imm, spec_retarget]

theorem history_independent' (c : Compute Def Enc Hasher Arg Res) (root : Imm Def Enc Hasher)
    (ops : List (Op Def Arg Res)) (op : Op Def Arg Res) (o : Obj Def Enc Hasher Res)
    (ho : (run c (fresh root) ops).objs[op.target]? = some o) :
    view (step c (run c (fresh root) ops) op) = view (step c (fresh o.imm) (op.retarget 0)) :=
  history_independent_of_inv c _ op o (run_inv c (fresh root) ops (inv_fresh c root)).1 ho

/-- the root object keeps its immutable part -/
theorem root_imm (c : Compute Def Enc Hasher Arg Res) (root : Imm Def Enc Hasher) (ops : List (Op Def Arg Res)) :
    ∃ o : Obj Def Enc Hasher Res, (run c (fresh root) ops).objs[0]? = some o ∧ o.imm = root := by
  obtain ⟨o, h1, h2⟩ := (run_inv c (fresh root) ops (inv_fresh c root)).2 0 (Obj.new root) rfl
  exact ⟨o, h1, h2⟩

theorem history_independent_root' (c : Compute Def Enc Hasher Arg Res) (root : Imm Def Enc Hasher)
    (ops : List (Op Def Arg Res)) (op : Op Def Arg Res) (ht : op.target = 0) :
    view (step c (run c (fresh root) ops) op) = view (step c (fresh root) op) := by
  obtain ⟨o, h1, h2⟩ := root_imm (Res := Res) c root ops
  have := history_independent' c root ops op o (by rw [ht]; exact h1)
  rw [this, h2, ← ht, retarget_target]

theorem run_append (c : Compute Def Enc Hasher Arg Res) (s : Session Def Enc Hasher Res)
    (ops ops' : List (Op Def Arg Res)) : run c s (ops ++ ops') = run c (run c s ops) ops' := by
  simp [run, runWith, List.foldl_append]

/-- immutable parts never change, objects never disappear -/
theorem imm_stable' (c : Compute Def Enc Hasher Arg Res) (root : Imm Def Enc Hasher)
    (ops ops' : List (Op Def Arg Res)) (k : ObjId) (o : Obj Def Enc Hasher Res)
    (ho : (run c (fresh root) ops).objs[k]? = some o) :
    ∃ o' : Obj Def Enc Hasher Res, (run c (fresh root) (ops ++ ops')).objs[k]? = some o' ∧ o'.imm = o.imm := by
  rw [run_append]
  exact (run_inv c _ ops' (run_inv c (fresh root) ops (inv_fresh c root)).1).2 k o ho

/-! ### copies -/

theorem takeInverted_shares (c : Compute Def Enc Hasher Arg Res) (s : Session Def Enc Hasher Res) (k : ObjId)
    (o : Obj Def Enc Hasher Res) (hinv : Inv c s) (ho : s.objs[k]? = some o) :
    ∃ (id : ObjId) (o' : Obj Def Enc Hasher Res), (step c s (.takeInverted k)).2 = .obj id ∧
      (step c s (.takeInverted k)).1.objs[id]? = some o' ∧
      o'.defn = c.invert o.defn ∧ o'.enc = o.enc ∧ o'.hasher = o.hasher := by
  obtain ⟨s1, id, oi, h1, h2, h3, _, _⟩ := inverted_spec c s k o hinv ho
  refine ⟨id, oi, ?_, ?_, ?_, ?_, ?_⟩
  · simp only [step, stepWith, h1]
  · simp only [step, stepWith, h1]; exact h2
  · exact congrArg Imm.defn h3
  · exact congrArg Imm.enc h3
  · exact congrArg Imm.hasher h3

theorem modifiedCopy_shares (c : Compute Def Enc Hasher Arg Res) (s : Session Def Enc Hasher Res) (k : ObjId)
    (o : Obj Def Enc Hasher Res) (d : Def) (ho : s.objs[k]? = some o) :
    ∃ (id : ObjId) (o' : Obj Def Enc Hasher Res), (step c s (.modifiedCopy k d)).2 = .obj id ∧
      (step c s (.modifiedCopy k d)).1.objs[id]? = some o' ∧
      o'.defn = d ∧ o'.enc = o.enc ∧ o'.hasher = o.hasher := by
  refine ⟨s.objs.length, copyOf c o d, ?_, ?_, rfl, rfl, rfl⟩
  · simp only [step, stepWith, ho]
  · simp only [step, stepWith, ho]
    rw [List.getElem?_append_right (Nat.le_refl _)]; simp

/-- the cached inverted copy is one object: asking twice returns the same reference, and the second call changes
nothing -/
theorem takeInverted_twice (c : Compute Def Enc Hasher Arg Res) (s : Session Def Enc Hasher Res) (k : ObjId)
    (o : Obj Def Enc Hasher Res) (ho : s.objs[k]? = some o) :
    step c (step c s (.takeInverted k)).1 (.takeInverted k) =
      ((step c s (.takeInverted k)).1, (step c s (.takeInverted k)).2) := by
  have hk := lt_of_getElem? ho
  cases hc : o.invertedCache with
  | some id =>
    have h1 : inverted c s k = (s, some id) := by simp only [inverted, ho, hc]
    simp only [step, stepWith, h1]
  | none =>
    have h1 : inverted c s k =
        (⟨(s.objs ++ [copyOf c o (c.invert o.defn)]).set k { o with invertedCache := some s.objs.length }⟩,
          some s.objs.length) := by
      simp only [inverted, ho, hc]
    have h2 : inverted c
        ⟨(s.objs ++ [copyOf c o (c.invert o.defn)]).set k { o with invertedCache := some s.objs.length }⟩ k =
        (⟨(s.objs ++ [copyOf c o (c.invert o.defn)]).set k { o with invertedCache := some s.objs.length }⟩,
          some s.objs.length) := by
      simp only [inverted, lookup_upd_self _ _ _ _ hk]
    simp only [step, stepWith, h1, h2]

/-! ### every object of a session hashes and encodes like the root -/

/-- all objects use encoder `e` and hasher `h` -/
def Share (e : Enc) (h : Hasher) (s : Session Def Enc Hasher Res) : Prop :=
  ∀ o ∈ s.objs, o.enc = e ∧ o.hasher = h

theorem share_upd (e : Enc) (h : Hasher) (s : Session Def Enc Hasher Res) (extra : List (Obj Def Enc Hasher Res))
    (k : Nat) (o o' : Obj Def Enc Hasher Res) (hs : Share e h s) (ho : s.objs[k]? = some o) (himm : o'.imm = o.imm)
    (hextra : ∀ x ∈ extra, x.enc = e ∧ x.hasher = h) : Share e h ⟨(s.objs ++ extra).set k o'⟩ := by
  have hk := lt_of_getElem? ho
  intro x hx
  obtain ⟨j, hj⟩ := List.mem_iff_getElem?.1 hx
  rcases lookup_upd _ _ _ _ _ _ hk hj with ⟨_, rfl⟩ | ⟨_, _, hx'⟩ | ⟨_, _, hx'⟩
  · have := hs o (List.mem_of_getElem? ho)
    exact ⟨(congrArg Imm.enc himm).trans this.1, (congrArg Imm.hasher himm).trans this.2⟩
  · exact hs x (List.mem_of_getElem? hx')
  · exact hextra x (List.mem_of_getElem? hx')

theorem inverted_share (c : Compute Def Enc Hasher Arg Res) (e : Enc) (h : Hasher) (s : Session Def Enc Hasher Res)
    (k : ObjId) (hs : Share e h s) : Share e h (inverted c s k).1 := by
  unfold inverted
  cases ho : s.objs[k]? with
  | none => exact hs
  | some o =>
    simp only
    cases hc : o.invertedCache with
    | some id => exact hs
    | none =>
      simp only
      apply share_upd e h s [copyOf c o (c.invert o.defn)] k o { o with invertedCache := some s.objs.length } hs ho rfl
      intro x hx
      simp only [List.mem_singleton] at hx
      subst hx
      exact hs o (List.mem_of_getElem? ho)

theorem precompute_share (keyed : Bool) (c : Compute Def Enc Hasher Arg Res) (e : Enc) (h : Hasher)
    (s : Session Def Enc Hasher Res) (k : ObjId) (key : BallKey) (hs : Share e h s) :
    Share e h (precompute keyed c s k key).1 := by
  unfold precompute
  cases ho : s.objs[k]? with
  | none => exact hs
  | some o =>
    simp only
    have hre : Share e h
        (⟨s.objs.set k { o with ballCache := some (key, c.bfs o.imm (c.ballOpts key)) }⟩ :
          Session Def Enc Hasher Res) := by
      have := share_upd e h s [] k o { o with ballCache := some (key, c.bfs o.imm (c.ballOpts key)) } hs ho rfl
        (by simp)
      simpa using this
    cases hc : o.ballCache with
    | none => exact hre
    | some p =>
      simp only
      split
      · exact hs
      · exact hre

theorem touchChain_share (c : Compute Def Enc Hasher Arg Res) (e : Enc) (h : Hasher) (d : Nat)
    (s : Session Def Enc Hasher Res) (k : ObjId) (hs : Share e h s) : Share e h (touchChain c d s k).1 := by
  induction d generalizing s k with
  | zero => exact hs
  | succ d ih =>
    have h1 := inverted_share c e h s k hs
    rcases hi : inverted c s k with ⟨s1, _ | id⟩
    · rw [hi] at h1
      simp only [touchChain, hi]; exact h1
    · rw [hi] at h1
      simp only [touchChain, hi]
      cases s1.objs[id]? with
      | none => exact h1
      | some oi => exact ih s1 id h1

theorem step_share (keyed : Bool) (c : Compute Def Enc Hasher Arg Res) (e : Enc) (h : Hasher)
    (s : Session Def Enc Hasher Res) (op : Op Def Arg Res) (hs : Share e h s) :
    Share e h (stepWith keyed c s op).1 := by
  cases op with
  | bfs k opts => simp only [stepWith]; split <;> exact hs
  | walks k a d => simp only [stepWith]; split <;> exact hs
  | exportGraph k a => simp only [stepWith]; split <;> exact hs
  | pathQuery k q ball =>
    simp only [stepWith]; split
    · exact hs
    · exact touchChain_share c e h _ s k hs
  | beam k a =>
    simp only [stepWith]; split
    · exact hs
    · exact touchChain_share c e h _ s k hs
  | takeInverted k =>
    have h1 := inverted_share c e h s k hs
    simp only [stepWith]
    rcases hi : inverted c s k with ⟨s1, _ | id⟩ <;> (rw [hi] at h1; exact h1)
  | modifiedCopy k d =>
    simp only [stepWith]
    cases ho : s.objs[k]? with
    | none => exact hs
    | some o =>
      simp only
      have heq : (s.objs ++ [copyOf c o d]) = (s.objs ++ [copyOf c o d]).set k o :=
        (set_self_eq _ k o (by rw [List.getElem?_append_left (lt_of_getElem? ho)]; exact ho)).symm
      rw [heq]
      apply share_upd e h s [copyOf c o d] k o o hs ho rfl
      intro x hx
      simp only [List.mem_singleton] at hx
      subst hx
      exact hs o (List.mem_of_getElem? ho)
  | findPath k start lim =>
    simp only [stepWith]
    cases ho : s.objs[k]? with
    | none => exact hs
    | some o =>
      simp only
      split
      · exact touchChain_share c e h _ s k hs
      · split
        · have h1 := precompute_share keyed c e h s k lim.key hs
          rcases hp : precompute keyed c s k lim.key with ⟨s1, _ | ball⟩
          · rw [hp] at h1; exact h1
          · rw [hp] at h1; exact touchChain_share c e h _ s1 k h1
        · have h1 := inverted_share c e h s k hs
          rcases hi : inverted c s k with ⟨s1, _ | gi⟩
          · rw [hi] at h1; exact h1
          · rw [hi] at h1
            simp only
            cases hoi : s1.objs[gi]? with
            | none => exact h1
            | some oi =>
              simp only
              have h2 := precompute_share keyed c e h s1 gi lim.key h1
              rcases hp : precompute keyed c s1 gi lim.key with ⟨s2, _ | ball⟩
              · rw [hp] at h2; exact h2
              · rw [hp] at h2; exact touchChain_share c e h _ s2 gi h2

theorem run_share (keyed : Bool) (c : Compute Def Enc Hasher Arg Res) (e : Enc) (h : Hasher)
    (s : Session Def Enc Hasher Res) (ops : List (Op Def Arg Res)) (hs : Share e h s) :
    Share e h (runWith keyed c s ops) := by
  induction ops generalizing s with
  | nil => exact hs
  | cons op t ih => exact ih _ (step_share keyed c e h s op hs)

theorem all_share_root' (c : Compute Def Enc Hasher Arg Res) (root : Imm Def Enc Hasher)
    (ops : List (Op Def Arg Res)) :
    ∀ o ∈ (run c (fresh root : Session Def Enc Hasher Res) ops).objs, o.enc = root.enc ∧ o.hasher = root.hasher := by
  apply run_share true c root.enc root.hasher (fresh root) ops
  intro o ho
  simp only [fresh, List.mem_singleton] at ho
  subst ho
  exact ⟨rfl, rfl⟩

end
end Cv.Session
