/-
  G1 part 3: `permutation_from_cycles`.  Core Lean only.

  The generated code stores `nxt` (an `Int`, possibly negative) where the model stores `nxt.toNat`; the two
  states differ only between writing a negative `nxt = cycle[i+1]` and the range assertion on `cycle[i+1]` in the
  next iteration, which fails on both sides.  The proof avoids tracking that intermediate state: either every
  entry of the (offsetted) cycle is in `[0, n)` — then every `nxt` is non-negative and the states stay related by
  `toI` — or some entry is out of range — then both loops fail.
-/
import CvProofs.PyPermG1b

namespace Cv.PyG1
open Cv.Py Cv.PyGen

theorem pyGet_getD (c : List Int) (i : Nat) (hi : i < c.length) : pyGet c (Int.ofNat i) = some (c.getD i 0) := by
  show pyGet c ((i : Nat) : Int) = _
  rw [pyGet_nat, List.getD_eq_getElem?_getD, List.getElem?_eq_getElem hi]; rfl

theorem pyMod_succ (i len : Nat) (hlen : 0 < len) :
    pyMod (Int.ofNat i + 1) (len : Int) = some (Int.ofNat ((i + 1) % len)) := by
  unfold pyMod
  rw [if_neg (by omega)]
  show some (Int.fmod (((i + 1 : Nat)) : Int) (len : Int)) = _
  rw [← Int.ofNat_fmod]; rfl

theorem getD_mem_or (c : List Int) (i : Nat) (hi : i < c.length) : c.getD i 0 ∈ c := by
  rw [List.getD_eq_getElem?_getD, List.getElem?_eq_getElem hi]; exact List.getElem_mem hi

/-- one iteration of the inner loop (as in the generated text) on related states, entries in range -/
theorem inner_step (n : Nat) (c : List Int) (s : List Nat) (hs : s.length = n) (i : Nat) (hi : i < c.length)
    (hall : ∀ v ∈ c, 0 ≤ v ∧ v < (n : Int)) :
    (do
        let t_1 ← pyGet c (Int.ofNat i)
        pyAssert (decide (0 ≤ t_1) && decide (t_1 < (n : Int)))
        let t_2 ← pyGet c (Int.ofNat i)
        let t_3 ← pyGet (toI s) t_2
        let t_4 ← pyGet c (Int.ofNat i)
        pyAssert (t_3 == t_4)
        let t_5 ← pyMod (Int.ofNat i + 1) (pyLen c)
        let t_6 ← pyGet c t_5
        let t_7 ← pyGet c (Int.ofNat i)
        pySet (toI s) t_7 t_6) =
      Option.map toI
        (if 0 ≤ c.getD i 0 ∧ c.getD i 0 < (n : Int) ∧ s.getD (c.getD i 0).toNat 0 = (c.getD i 0).toNat then
          some (s.set (c.getD i 0).toNat (c.getD ((i + 1) % c.length) 0).toNat)
        else none) := by
  have hm : (i + 1) % c.length < c.length := Nat.mod_lt _ (by omega)
  obtain ⟨hv0, hvn⟩ := hall _ (getD_mem_or c i hi)
  obtain ⟨hx0, _⟩ := hall _ (getD_mem_or c _ hm)
  generalize hv : c.getD i 0 = v at *
  generalize hx : c.getD ((i + 1) % c.length) 0 = nx at *
  obtain ⟨k, rfl⟩ : ∃ k : Nat, v = (k : Int) := ⟨v.toNat, by omega⟩
  obtain ⟨m, rfl⟩ : ∃ m : Nat, nx = (m : Int) := ⟨nx.toNat, by omega⟩
  simp only [Int.toNat_natCast]
  have hget : pyGet c (Int.ofNat i) = some (k : Int) := by rw [pyGet_getD c i hi, hv]
  have hgetx : pyGet c (Int.ofNat ((i + 1) % c.length)) = some (m : Int) := by rw [pyGet_getD c _ hm, hx]
  have hvlt : k < s.length := by omega
  have hgs : pyGet (toI s) (k : Int) = some (Int.ofNat (s.getD k 0)) := by
    rw [pyGet_toI, List.getElem?_eq_getElem hvlt, Cv.Perm.getD_eq_getElem hvlt]
    rfl
  have ha1 : pyAssert (decide (0 ≤ (k : Int)) && decide ((k : Int) < (n : Int))) = some () :=
    pyAssert_true _ (by simp [hv0, hvn])
  have hmod : pyMod (Int.ofNat i + 1) (pyLen c) = some (Int.ofNat ((i + 1) % c.length)) :=
    pyMod_succ i c.length (by omega)
  simp only [Option.bind_eq_bind, hget, Option.bind_some, ha1, hgs, hmod, hgetx]
  by_cases hfix : s.getD k 0 = k
  · have ha2 : pyAssert (Int.ofNat (s.getD k 0) == (k : Int)) = some () := by
      apply pyAssert_true
      rw [beq_iff_eq, hfix]; rfl
    rw [ha2, if_pos ⟨hv0, hvn, hfix⟩]
    simp only [Option.bind_some, Option.map_some]
    rw [pySet_nat, if_pos (by simpa using hvlt), toI_set]
  · have ha2 : pyAssert (Int.ofNat (s.getD k 0) == (k : Int)) = none := by
      apply pyAssert_false
      rw [beq_eq_false_iff_ne]
      intro e
      apply hfix
      have : ((s.getD k 0 : Nat) : Int) = (k : Int) := e
      omega
    rw [ha2, if_neg (fun h => hfix h.2.2)]
    rfl

/-- an iteration at an out-of-range entry fails, whatever the state -/
theorem inner_step_fail (n : Nat) (c : List Int) (st : List Int) (i : Nat) (hi : i < c.length)
    (hbad : ¬ (0 ≤ c.getD i 0 ∧ c.getD i 0 < (n : Int))) :
    (do
        let t_1 ← pyGet c (Int.ofNat i)
        pyAssert (decide (0 ≤ t_1) && decide (t_1 < (n : Int)))
        let t_2 ← pyGet c (Int.ofNat i)
        let t_3 ← pyGet st t_2
        let t_4 ← pyGet c (Int.ofNat i)
        pyAssert (t_3 == t_4)
        let t_5 ← pyMod (Int.ofNat i + 1) (pyLen c)
        let t_6 ← pyGet c t_5
        let t_7 ← pyGet c (Int.ofNat i)
        pySet st t_7 t_6) = none := by
  have ha1 : pyAssert (decide (0 ≤ c.getD i 0) && decide (c.getD i 0 < (n : Int))) = none := by
    apply pyAssert_false
    rw [Bool.and_eq_false_iff]
    simp only [decide_eq_false_iff_not]
    omega
  simp only [Option.bind_eq_bind, pyGet_getD c i hi, Option.bind_some, ha1, Option.bind_none]

/-- the inner loop of the generated `permutation_from_cycles` = the model's `writeCycle` -/
theorem inner_loop (n : Nat) (c : List Int) (s : List Nat) (hs : s.length = n) :
    List.foldlM
      (fun st i => do
        let t_1 ← pyGet c i
        pyAssert (decide (0 ≤ t_1) && decide (t_1 < (n : Int)))
        let t_2 ← pyGet c i
        let t_3 ← pyGet st t_2
        let t_4 ← pyGet c i
        pyAssert (t_3 == t_4)
        let t_5 ← pyMod (i + 1) (pyLen c)
        let t_6 ← pyGet c t_5
        let t_7 ← pyGet c i
        pySet st t_7 t_6)
      (toI s) (pyRange 0 (pyLen c) 1) =
    Option.map toI (Cv.Perm.writeCycle n c s) := by
  rw [pyLen, pyRange_zero_one_nat, show toI (List.range c.length) = (List.range c.length).map Int.ofNat from rfl,
    List.foldlM_map]
  unfold Cv.Perm.writeCycle
  by_cases hall : ∀ v ∈ c, 0 ≤ v ∧ v < (n : Int)
  · refine foldlM_toI (fun s => s.length = n) _ _ _ ?_ ?_ _ hs
    · intro s hs i hi
      exact inner_step n c s hs i (List.mem_range.1 hi) hall
    · intro s hs i _ s' h
      dsimp only at h
      split at h
      · cases h; simpa using hs
      · cases h
  · have hex : ∃ v ∈ c, ¬ (0 ≤ v ∧ v < (n : Int)) := by
      apply Classical.byContradiction
      intro hne
      apply hall
      intro v hv
      apply Classical.byContradiction
      intro hb
      exact hne ⟨v, hv, hb⟩
    obtain ⟨v, hv, hbad⟩ := hex
    obtain ⟨j, hj, e⟩ := List.getElem_of_mem hv
    have hgd : c.getD j 0 = v := by
      rw [List.getD_eq_getElem?_getD, List.getElem?_eq_getElem hj]; exact e
    rw [foldlM_none_of_mem _ _ j (List.mem_range.2 hj) (fun st => inner_step_fail n c st j hj (by rw [hgd]; exact hbad)),
      foldlM_none_of_mem _ _ j (List.mem_range.2 hj)]
    · rfl
    · intro st
      dsimp only
      rw [if_neg]
      rw [hgd]
      intro h
      exact hbad ⟨h.1, h.2.1⟩

theorem writeCycle_length (n : Nat) (c : List Int) (s s' : List Nat) (h : Cv.Perm.writeCycle n c s = some s') :
    s'.length = s.length := by
  unfold Cv.Perm.writeCycle at h
  generalize List.range c.length = l at h
  induction l generalizing s with
  | nil => cases h; rfl
  | cons a t ih =>
    rw [List.foldlM_cons] at h
    dsimp only at h
    split at h
    · simp only [Option.bind_eq_bind, Option.bind_some] at h
      rw [ih _ h]; simp
    · cases h

theorem permutation_from_cycles_gen (n : Nat) (cycles : List (List Int)) (offset : Int) :
    PyGen.Perm.permutation_from_cycles (n : Int) cycles offset = (Cv.Perm.fromCycles n cycles offset).map toI := by
  unfold PyGen.Perm.permutation_from_cycles Cv.Perm.fromCycles
  dsimp only
  rw [pyRange_zero_one_nat, bind_pure]
  refine foldlM_toI (fun s => s.length = n) _ _ _ ?_ ?_ _ ?_
  · intro s hs c _
    simp only [bind_pure]
    exact inner_loop n c s hs
  · intro s hs c _ s' h
    rw [writeCycle_length n c s s' h]; exact hs
  · simp

end Cv.PyG1
