/-
  G6 — three_cycles_0ij, three_cycles: generated = specification.  Core Lean only.
-/
import CvProofs.PyFamG6Lemmas
namespace Cv.PyG6
open Cv.Py Cv.PyGen Cv.Families Cv.PyG4
open Cv.GraphDef (PermDef)

theorem pyPermutationsR_nat {α : Type} (l : List α) (r : Nat) :
    pyPermutationsR l (r : Int) = pyPermutationsN r l := by
  unfold pyPermutationsR
  rw [if_neg (by omega)]; rfl

theorem pyAssert_len2 (a b : Int) : pyAssert (pyLen [a, b] == (2 : Int)) = some () := rfl
theorem pyAssert_len3 (a b c : Int) : pyAssert (pyLen [a, b, c] == (3 : Int)) = some () := rfl
theorem pyGet2_0 (a b : Int) : pyGet [a, b] 0 = some a := rfl
theorem pyGet2_1 (a b : Int) : pyGet [a, b] 1 = some b := rfl
theorem pyGet3_0 (a b c : Int) : pyGet [a, b, c] 0 = some a := rfl
theorem pyGet3_1 (a b c : Int) : pyGet [a, b, c] 1 = some b := rfl
theorem pyGet3_2 (a b c : Int) : pyGet [a, b, c] 2 = some c := rfl
theorem name0 : ("(" ++ pyStr 0 ++ " ") = "(0 " := by decide

/-! ### three_cycles_0ij -/

theorem perms2_range (n : Nat) :
    pyPermutationsR (pyRange 1 (n : Int) 1) 2 = (pairsNe1 n).map fun x => [(x.1 : Int), (x.2 : Int)] := by
  have hr : pyRange 1 (n : Int) 1 = toI (List.range' 1 (n - 1)) := by
    rw [← pyRange_nat]; rfl
  rw [hr, show (2 : Int) = ((2 : Nat) : Int) from rfl, pyPermutationsR_nat]
  unfold toI
  rw [pyPermutationsN_map, pyPermutationsN_two _ (List.nodup_range' (step := 1))]
  unfold pairsNe1
  simp only [List.map_flatMap, List.map_map]
  rfl

theorem three_cycles_0ij_raw (n : Nat) (hn : 3 ≤ n) :
    Fam.three_cycles_0ij (n : Int) = some (rawOf (mk n (pairsNe1 n) (fun x => cyc3Fn 0 x.1 x.2)
      (fun x => s!"(0 {x.1} {x.2})") ("three_cycles_0ij-" ++ showNat n))) := by
  unfold Fam.three_cycles_0ij
  simp only [Option.bind_eq_bind, Option.pure_def]
  rw [perms2_range, List.foldlM_map, pyRange_zero_nat, pyStr_nat]
  rw [foldlM_outer (A := fun (x : Nat × Nat) => [toI (oneLine n (cyc3Fn 0 x.1 x.2))])
    (B := fun (x : Nat × Nat) => [s!"(0 {x.1} {x.2})"])]
  · simp only [Option.bind_some, List.nil_append, flatMap_single]
    simp [rawOf, mk, toI]
  · rintro ⟨i, j⟩ hx st
    obtain ⟨h1, h2, h3, h4, h5⟩ := (mem_pairsNe1 n i j).1 hx
    have hp := pfc_cyc3 n 0 i j (by omega) h2 h4 (by omega) (by omega) h5
    have hp' : Perm.permutation_from_cycles (n : Int) [[0, (i : Int), (j : Int)]] 0 =
        some (toI (oneLine n (cyc3Fn 0 i j))) := hp
    simp only [pyAssert_len2, pyGet2_0, pyGet2_1, hp', Option.bind_some, name0]
    rfl

theorem three_cycles_0ij_gen (n : Nat) :
    (Fam.three_cycles_0ij (n : Int)).bind rawToPermDef = Families.threeCycles0ij n := by
  by_cases hn : 3 ≤ n
  · have hs : threeCycles0ij n = some (mk n (pairsNe1 n) (fun x => cyc3Fn 0 x.1 x.2)
        (fun x => s!"(0 {x.1} {x.2})") ("three_cycles_0ij-" ++ showNat n)) := by
      unfold threeCycles0ij; rw [if_pos hn]
    rw [hs]
    refine bind_rawOf n _ _ (three_cycles_0ij_raw n hn)
      (three_cycles_0ij_valid n _ ((permFamily_threeCycles0ij n).trans hs)) ?_ (by omega)
    rw [mk_gens]
    have : (1, 2) ∈ pairsNe1 n := (mem_pairsNe1 n 1 2).2 (by omega)
    intro e
    rw [List.map_eq_nil_iff] at e
    rw [e] at this; exact absurd this List.not_mem_nil
  · have : threeCycles0ij n = none := by unfold threeCycles0ij; rw [if_neg hn]
    rw [this]
    -- no assertion in the source: the generator list is empty and `create` raises
    rcases n with _ | _ | _ | n
    · decide
    · decide
    · decide
    · omega

/-- no lower-bound assertion in the source: for a negative `n` the constructor still hands an empty generator
list to `create`, which raises -/
theorem three_cycles_0ij_gen_neg_bind (n : Int) (h : n < 0) :
    (Fam.three_cycles_0ij n).bind rawToPermDef = none := by
  unfold Fam.three_cycles_0ij
  have hr : pyRange 1 n 1 = [] := by
    unfold pyRange
    rw [if_pos (by omega)]
    have : ((n - 1 + 1 - 1) / 1).toNat = 0 := by omega
    rw [this]; rfl
  have hr0 : pyRange 0 n 1 = [] := by
    unfold pyRange
    rw [if_pos (by omega)]
    have : ((n - 0 + 1 - 1) / 1).toNat = 0 := by omega
    rw [this]; rfl
  rw [hr, hr0]
  rfl

/-! ### three_cycles -/

/-- ordered triples of distinct numbers `< n`, in the order of `itertools.permutations(range(n), 3)` -/
def perms3 (n : Nat) : List (Nat × Nat × Nat) :=
  (List.range n).flatMap fun a => ((List.range n).filter (· != a)).flatMap fun b =>
    (((List.range n).filter (· != a)).filter (· != b)).map fun c => (a, b, c)

theorem perms3_range (n : Nat) :
    pyPermutationsR (pyRange 0 (n : Int) 1) 3 =
      (perms3 n).map fun x => [(x.1 : Int), (x.2.1 : Int), (x.2.2 : Int)] := by
  rw [pyRange_zero_nat, show (3 : Int) = ((3 : Nat) : Int) from rfl, pyPermutationsR_nat]
  unfold toI
  rw [pyPermutationsN_map, pyPermutationsN_three _ List.nodup_range]
  unfold perms3
  simp only [List.map_flatMap, List.map_map]
  rfl

theorem mem_perms3 (n a b c : Nat) :
    (a, b, c) ∈ perms3 n ↔ a < n ∧ b < n ∧ c < n ∧ b ≠ a ∧ c ≠ a ∧ c ≠ b := by
  unfold perms3
  simp only [List.mem_flatMap, List.mem_map, List.mem_filter, List.mem_range, bne_iff_ne, ne_eq,
    Prod.mk.injEq]
  constructor
  · rintro ⟨a', ha, b', ⟨hb, hba⟩, c', ⟨⟨hc, hca⟩, hcb⟩, rfl, rfl, rfl⟩
    exact ⟨ha, hb, hc, hba, hca, hcb⟩
  · rintro ⟨ha, hb, hc, hba, hca, hcb⟩
    exact ⟨a, ha, b, ⟨hb, hba⟩, c, ⟨⟨hc, hca⟩, hcb⟩, rfl, rfl, rfl⟩

theorem range_filter_gt (n a : Nat) (ha : a < n) :
    ((List.range n).filter (· != a)).filter (fun b => decide (a < b)) = List.range' (a + 1) (n - (a + 1)) := by
  have hsplit : List.range n = List.range' 0 (a + 1) ++ List.range' (0 + (a + 1)) (n - (a + 1)) := by
    rw [List.range'_append_1, List.range_eq_range']; congr 1; omega
  rw [hsplit, List.filter_filter, List.filter_append]
  have h1 : (List.range' 0 (a + 1)).filter (fun b => decide (a < b) && (b != a)) = [] := by
    rw [List.filter_eq_nil_iff]
    intro x hx
    have := List.mem_range'_1.1 hx
    simp only [Bool.and_eq_true, decide_eq_true_eq, not_and]
    omega
  have h2 : (List.range' (0 + (a + 1)) (n - (a + 1))).filter (fun b => decide (a < b) && (b != a)) =
      List.range' (0 + (a + 1)) (n - (a + 1)) := by
    rw [List.filter_eq_self]
    intro x hx
    have := List.mem_range'_1.1 hx
    simp only [Bool.and_eq_true, decide_eq_true_eq, bne_iff_ne, ne_eq]
    omega
  rw [h1, h2, List.nil_append, Nat.zero_add]

theorem flatMap_filter_of {α β : Type} (p : α → Bool) (f : α → List β) (l : List α)
    (h : ∀ x ∈ l, p x = false → f x = []) : l.flatMap f = (l.filter p).flatMap f := by
  induction l with
  | nil => rfl
  | cons a t ih =>
    have iht := ih (fun x hx => h x (List.mem_cons_of_mem _ hx))
    rw [List.filter_cons]
    cases hp : p a
    · simp only [List.flatMap_cons, h a List.mem_cons_self hp, List.nil_append, iht,
        Bool.false_eq_true, if_false]
    · simp only [List.flatMap_cons, iht, if_true]

theorem perms3_filter (n : Nat) :
    (perms3 n).filter (fun x => decide (x.1 < x.2.1) && decide (x.1 < x.2.2)) = triplesMinFirst n := by
  unfold perms3 triplesMinFirst pairsLt
  rw [List.flatMap_assoc, List.filter_flatMap]
  apply flatMap_congr
  intro a ha
  have ha' := List.mem_range.1 ha
  rw [List.flatMap_map, List.filter_flatMap]
  simp only []
  have hR := range_filter_gt n a ha'
  generalize List.range' (a + 1) (n - (a + 1)) = R at hR ⊢
  subst hR
  rw [flatMap_filter_of (fun b => decide (a < b))]
  · apply flatMap_congr
    intro b hb
    have hab : a < b := by simpa using (List.mem_filter.1 hb).2
    rw [List.filter_map]
    simp only [hab, decide_true, Bool.true_and, Function.comp_def, List.filter_filter]
    congr 1
    apply List.filter_congr
    intro c _
    simp only [Bool.and_comm, Bool.and_assoc, Bool.and_left_comm]
  · intro b _ hb
    have hab : ¬ a < b := by simpa using hb
    rw [List.filter_map]
    simp only [hab, decide_false, Bool.false_and, Function.comp_def]
    simp

/-- the filtered `permutations(range(n), 3)` at the `Int` level -/
theorem perms3_filter_gen (n : Nat) :
    (pyPermutationsR (pyRange 0 (n : Int) 1) 3).filter
        (fun t => decide (t.getD 0 0 < t.getD 1 0) && decide (t.getD 0 0 < t.getD 2 0)) =
      (triplesMinFirst n).map fun x => [(x.1 : Int), (x.2.1 : Int), (x.2.2 : Int)] := by
  rw [perms3_range, List.filter_map, ← perms3_filter]
  congr 1
  apply List.filter_congr
  intro x _
  simp only [Function.comp_apply, List.getD_cons_zero, List.getD_cons_succ, Int.ofNat_lt]

theorem flatMap_ite {α β : Type} (p : α → Bool) (f : α → β) (l : List α) :
    l.flatMap (fun x => if p x = true then [f x] else []) = (l.filter p).map f := by
  induction l with
  | nil => rfl
  | cons a t ih =>
    rw [List.flatMap_cons, ih, List.filter_cons]
    cases p a <;> simp

theorem three_cycles_raw (n : Nat) (hn : 3 ≤ n) :
    Fam.three_cycles (n : Int) = some (rawOf (mk n (triplesMinFirst n) (fun x => cyc3Fn x.1 x.2.1 x.2.2)
      (fun x => s!"({x.1} {x.2.1} {x.2.2})") ("three_cycles-" ++ showNat n))) := by
  unfold Fam.three_cycles
  have ha : pyAssert (decide ((n : Int) ≥ 3)) = some () := by
    apply pyAssert_true; simp only [decide_eq_true_eq]; omega
  simp only [ha, Option.bind_eq_bind, Option.bind_some, Option.pure_def]
  rw [perms3_range, List.foldlM_map, pyRange_zero_nat, pyStr_nat]
  rw [foldlM_outer
    (A := fun (x : Nat × Nat × Nat) => if (decide (x.1 < x.2.1) && decide (x.1 < x.2.2)) = true
      then [toI (oneLine n (cyc3Fn x.1 x.2.1 x.2.2))] else [])
    (B := fun (x : Nat × Nat × Nat) => if (decide (x.1 < x.2.1) && decide (x.1 < x.2.2)) = true
      then [s!"({x.1} {x.2.1} {x.2.2})"] else [])]
  · simp only [Option.bind_some, List.nil_append, flatMap_ite, perms3_filter]
    simp [rawOf, mk, toI]
  · rintro ⟨a, b, c⟩ hx st
    obtain ⟨h1, h2, h3, h4, h5, h6⟩ := (mem_perms3 n a b c).1 hx
    have hp : Perm.permutation_from_cycles (n : Int) [[(a : Int), (b : Int), (c : Int)]] 0 =
        some (toI (oneLine n (cyc3Fn a b c))) :=
      pfc_cyc3 n a b c h1 h2 h3 (Ne.symm h4) (Ne.symm h5) (Ne.symm h6)
    simp only [pyAssert_len3, pyGet3_0, pyGet3_1, pyGet3_2, Option.bind_some, Int.ofNat_lt]
    by_cases hc : (decide (a < b) && decide (a < c)) = true
    · simp only [hc, if_true, hp, Option.bind_some]
      rfl
    · simp only [hc, Bool.false_eq_true, if_false, Option.bind_some, List.append_nil]

theorem three_cycles_gen (n : Nat) :
    (Fam.three_cycles (n : Int)).bind rawToPermDef = Families.threeCycles n := by
  by_cases hn : 3 ≤ n
  · have hs : threeCycles n = some (mk n (triplesMinFirst n) (fun x => cyc3Fn x.1 x.2.1 x.2.2)
        (fun x => s!"({x.1} {x.2.1} {x.2.2})") ("three_cycles-" ++ showNat n)) := by
      unfold threeCycles; rw [if_pos hn]
    rw [hs]
    refine bind_rawOf n _ _ (three_cycles_raw n hn)
      (three_cycles_valid n _ ((permFamily_threeCycles n).trans hs)) ?_ (by omega)
    rw [mk_gens]
    have : (0, 1, 2) ∈ triplesMinFirst n := (mem_triplesMinFirst n 0 1 2).2 (by omega)
    intro e
    rw [List.map_eq_nil_iff] at e
    rw [e] at this; exact absurd this List.not_mem_nil
  · have : threeCycles n = none := by unfold threeCycles; rw [if_neg hn]
    rw [this]
    unfold Fam.three_cycles
    rw [assert_fail_int _ _ (by omega)]; rfl

theorem three_cycles_gen_neg (n : Int) (h : n < 0) : Fam.three_cycles n = none := by
  unfold Fam.three_cycles
  rw [assert_fail_int _ _ (by omega)]; rfl

end Cv.PyG6
