/-
  G1 part 2: `transposition`, `inverse_permutation`.  Core Lean only.
-/
import CvProofs.PyPermG1

namespace Cv.PyG1
open Cv.Py Cv.PyGen

theorem pyAssert_true (b : Bool) (h : b = true) : pyAssert b = some () := by simp [pyAssert, h]
theorem pyAssert_false (b : Bool) (h : b = false) : pyAssert b = none := by simp [pyAssert, h]

theorem transposition_gen (n i j : Nat) :
    PyGen.Perm.transposition (n : Int) (i : Int) (j : Int) = (Cv.Perm.transposition n i j).map toI := by
  unfold PyGen.Perm.transposition Cv.Perm.transposition
  rw [pyRange_zero_one_nat]
  by_cases hi : i < n
  · by_cases hj : j < n
    · by_cases hne : i = j
      · have h3 : ((i : Int) != (j : Int)) = false := by simp [hne]
        rw [pyAssert_false _ h3]
        simp [hne]
      · have h1 : (decide ((0 : Int) ≤ i) && decide ((i : Int) < n)) = true := by simp; omega
        have h2 : (decide ((0 : Int) ≤ j) && decide ((j : Int) < n)) = true := by simp; omega
        have h3 : ((i : Int) != (j : Int)) = true := by simp; omega
        rw [pyAssert_true _ h1, pyAssert_true _ h2, pyAssert_true _ h3]
        simp only [hi, hj, hne, ne_eq, not_false_eq_true, and_self, if_true, Option.map_some]
        show (pySet (toI (List.range n)) (i : Int) (j : Int)).bind (fun perm => pySet perm (j : Int) (i : Int)) = _
        rw [pySet_nat, if_pos (by simpa using hi), toI_set]
        show pySet _ (j : Int) (i : Int) = _
        rw [pySet_nat, if_pos (by simpa using hj), toI_set]
    · have h2 : (decide ((0 : Int) ≤ j) && decide ((j : Int) < n)) = false := by simp; omega
      rw [pyAssert_false _ h2]
      simp only [hj, false_and, and_false, if_false]
      cases pyAssert (decide ((0 : Int) ≤ i) && decide ((i : Int) < n)) <;> rfl
  · have h1 : (decide ((0 : Int) ≤ i) && decide ((i : Int) < n)) = false := by simp; omega
    rw [pyAssert_false _ h1]
    simp only [hi, false_and, if_false]
    rfl

theorem transposition_gen_neg (n i j : Int) (h : i < 0 ∨ j < 0) : PyGen.Perm.transposition n i j = none := by
  unfold PyGen.Perm.transposition
  by_cases hi : i < 0
  · have h1 : (decide ((0 : Int) ≤ i) && decide (i < n)) = false := by simp; omega
    rw [pyAssert_false _ h1]; rfl
  · have hj : j < 0 := by omega
    have h2 : (decide ((0 : Int) ≤ j) && decide (j < n)) = false := by simp; omega
    rw [pyAssert_false _ h2]
    cases pyAssert (decide ((0 : Int) ≤ i) && decide (i < n)) <;> rfl

/-! ### loops -/

/-- a loop whose body mirrors a model step on `toI`-related states (under an invariant `P` of the model state) -/
theorem foldlM_toI {ι : Type} (P : List Nat → Prop)
    (f : List Int → ι → Option (List Int)) (f' : List Nat → ι → Option (List Nat)) (l : List ι)
    (hstep : ∀ s, P s → ∀ i ∈ l, f (toI s) i = (f' s i).map toI)
    (hinv : ∀ s, P s → ∀ i ∈ l, ∀ s', f' s i = some s' → P s')
    (init : List Nat) (h0 : P init) :
    l.foldlM f (toI init) = (l.foldlM f' init).map toI := by
  induction l generalizing init with
  | nil => rfl
  | cons a t ih =>
    rw [List.foldlM_cons, List.foldlM_cons, hstep init h0 a (by simp)]
    cases hs : f' init a with
    | none => rfl
    | some s' =>
      have hP := hinv init h0 a (by simp) s' hs
      simp only [Option.map_some, Option.bind_eq_bind, Option.bind_some]
      exact ih (fun s hs i hi => hstep s hs i (by simp [hi])) (fun s hs i hi => hinv s hs i (by simp [hi])) s' hP

/-- the same with a total model step -/
theorem foldlM_toI_total {ι : Type} (P : List Nat → Prop)
    (f : List Int → ι → Option (List Int)) (f' : List Nat → ι → List Nat) (l : List ι)
    (hstep : ∀ s, P s → ∀ i ∈ l, f (toI s) i = some (toI (f' s i)))
    (hinv : ∀ s, P s → ∀ i ∈ l, P (f' s i))
    (init : List Nat) (h0 : P init) :
    l.foldlM f (toI init) = some (toI (l.foldl f' init)) := by
  induction l generalizing init with
  | nil => rfl
  | cons a t ih =>
    rw [List.foldlM_cons, List.foldl_cons, hstep init h0 a (by simp)]
    simp only [Option.bind_eq_bind, Option.bind_some]
    exact ih (fun s hs i hi => hstep s hs i (by simp [hi])) (fun s hs i hi => hinv s hs i (by simp [hi]))
      _ (hinv init h0 a (by simp))

/-- a loop fails as soon as one index makes the body fail in every state -/
theorem foldlM_none_of_mem {σ ι : Type} (f : σ → ι → Option σ) (l : List ι) (j : ι) (hj : j ∈ l)
    (hf : ∀ s, f s j = none) (init : σ) : l.foldlM f init = none := by
  induction l generalizing init with
  | nil => simp at hj
  | cons a t ih =>
    rw [List.foldlM_cons]
    by_cases e : j = a
    · subst e; rw [hf]; rfl
    · have hjt : j ∈ t := by simpa [e] using hj
      cases f init a with
      | none => rfl
      | some s' => exact ih hjt s'

/-! ### `inverse_permutation` -/

theorem inverse_permutation_gen (p : List Nat) (h : ∀ i ∈ p, i < p.length) :
    PyGen.Perm.inverse_permutation (toI p) = some (toI (Cv.Perm.inverse p)) := by
  unfold PyGen.Perm.inverse_permutation Cv.Perm.inverse
  rw [pyLen_toI]
  dsimp only
  rw [pyRange_zero_one_nat]
  have hrep : pyRepeat (0 : Int) (p.length : Int) = toI (List.replicate p.length 0) := by
    simp [pyRepeat, toI]
  rw [hrep]
  rw [show toI (List.range p.length) = (List.range p.length).map Int.ofNat from rfl, List.foldlM_map,
    bind_pure]
  refine foldlM_toI_total (fun s => s.length = p.length) _ (fun ans i => ans.set (p.getD i 0) i) _ ?_ ?_ _ ?_
  · intro s hs i hi
    have hi' : i < p.length := List.mem_range.1 hi
    have hg : pyGet (toI p) (Int.ofNat i) = some (Int.ofNat (p.getD i 0)) := by
      have := pyGet_toI p i
      rw [List.getElem?_eq_getElem hi'] at this
      rw [Cv.Perm.getD_eq_getElem hi']
      exact this
    have hlt : p.getD i 0 < s.length := by
      rw [hs, Cv.Perm.getD_eq_getElem hi']; exact h _ (List.getElem_mem hi')
    show (pyGet (toI p) (Int.ofNat i)).bind _ = _
    rw [hg]
    show pySet (toI s) ((p.getD i 0 : Nat) : Int) ((i : Nat) : Int) = _
    rw [pySet_nat, if_pos (by simpa using hlt), toI_set]
  · intro s hs i _
    simpa using hs
  · simp

end Cv.PyG1
