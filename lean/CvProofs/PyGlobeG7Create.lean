/-
  G7 part 7: `globe_puzzle` followed by the model of `CayleyGraphDef.create`.  Core Lean only.
-/
import CvProofs.PyGlobeG7Puzzle
import CvProofs.PyLemmasG5

namespace Cv.PyG7
open Cv.Py Cv.PyGen Cv.Puzzles Cv.GraphDef

/-- the specified globe puzzle as a `PermDef` -/
def globeDef (a b : Nat) : PermDef :=
  { gens := (globe a b).gens, names := (globe a b).names, central := (globe a b).central,
    name := "globe_puzzle-" ++ toString a ++ "-" ++ toString b }

theorem globe_puzzle_create (a b : Nat) (hb : 1 ≤ b) :
    (Globe.globe_puzzle a b).bind rawToPermDef = some (globeDef a b) := by
  rw [globe_puzzle_gen_all a b, Option.bind_some]
  have hn : 0 < 2 * (a + 1) * b := Nat.mul_pos (by omega) hb
  have hwf : PyG5.WF (globeDef a b) := by
    apply PyG5.wf_of_valid (2 * (a + 1) * b) _ hn
    · intro e
      have := congrArg List.length e
      rw [show (globeDef a b).gens = (globe a b).gens from rfl, (globe_counts a b).1] at this
      simp at this
    · exact ⟨globe_gens_perm a b hb, (globe_counts a b).2.2, (globe_counts a b).2.1⟩
  exact PyG5.rawToPermDef_of_wf (globeDef a b) hwf

/-- `b = 0`: `globe_puzzle` itself does not raise, but `create` rejects the empty permutations -/
theorem globe_puzzle_create_zero (a : Nat) : (Globe.globe_puzzle a (0 : Nat)).bind rawToPermDef = none := by
  rw [globe_puzzle_gen_all a 0, Option.bind_some]
  apply PyG5.rawToPermDef_of_not_wf (globeDef a 0)
  intro h
  exact h.2.2.2.1 (by simp [globeDef, globe])

end Cv.PyG7
