/-
  Sizes of the remaining index lists (not stated in the docstrings): number of generators of
  three_cycles_0ij, three_cycles, transposons, block_interchange.  Core Lean only.
-/
import CvProofs.Families
import CvProofs.FamiliesMore
namespace Cv.Families
open Cv.Perm Cv.GraphDef

/-- `Σ_{i<n} f i` -/
def sumTo (n : Nat) (f : Nat → Nat) : Nat := ((List.range n).map f).sum

theorem sumTo_succ (n : Nat) (f : Nat → Nat) : sumTo (n + 1) f = sumTo n f + f n := sum_range_succ n f

/-- splitting off the first term -/
theorem sumTo_succ' (n : Nat) (f : Nat → Nat) : sumTo (n + 1) f = f 0 + sumTo n (fun i => f (i + 1)) := by
  induction n with
  | zero => simp [sumTo]
  | succ n ih => rw [sumTo_succ, ih, sumTo_succ]; omega

theorem sumTo_congr (n : Nat) (f g : Nat → Nat) (h : ∀ i, i < n → f i = g i) : sumTo n f = sumTo n g := by
  unfold sumTo
  congr 1
  apply List.map_congr_left
  intro i hi; exact h i (List.mem_range.1 hi)

theorem sumTo_mul (n c : Nat) (f : Nat → Nat) : c * sumTo n f = sumTo n (fun i => c * f i) := by
  induction n with
  | zero => simp [sumTo]
  | succ n ih => rw [sumTo_succ, sumTo_succ, Nat.mul_add, ih]

theorem sumTo_const (n c : Nat) : sumTo n (fun _ => c) = n * c := by
  induction n with
  | zero => simp [sumTo]
  | succ n ih => rw [sumTo_succ, ih, Nat.add_mul]; omega

/-- reflection of the summation index -/
theorem sumTo_reflect (n : Nat) (h : Nat → Nat) : sumTo n (fun i => h (n - 1 - i)) = sumTo n h := by
  induction n with
  | zero => rfl
  | succ n ih =>
    rw [sumTo_succ', sumTo_succ]
    simp only [Nat.add_sub_cancel, Nat.sub_zero]
    have : sumTo n (fun i => h (n - (i + 1))) = sumTo n (fun i => h (n - 1 - i)) := by
      apply sumTo_congr; intro i _; congr 1; omega
    rw [this, ih]; omega

/-- the size of a `flatMap` over `range n` -/
theorem length_flatMap_sumTo {β : Type} (n : Nat) (f : Nat → List β) :
    ((List.range n).flatMap f).length = sumTo n (fun i => (f i).length) := by
  unfold sumTo; rw [List.length_flatMap]

/-- the size of a `flatMap` over `range' s len` -/
theorem length_flatMap_range' {β : Type} (s len : Nat) (f : Nat → List β) :
    ((List.range' s len).flatMap f).length = sumTo len (fun t => (f (s + t)).length) := by
  rw [List.range'_eq_map_range, List.flatMap_map, length_flatMap_sumTo]

/-! ### closed forms -/

/-- `2·Σ_{t<m} (m - t) = m(m+1)` -/
theorem two_sum_down (m : Nat) : 2 * sumTo m (fun t => m - t) = m * (m + 1) := by
  have h1 := sum_shift m m (Nat.le_refl m)
  have h2 := sum_range_rev m
  unfold sumTo
  rw [h1, Nat.mul_add, h2]
  cases m with
  | zero => rfl
  | succ k => simp only [Nat.add_sub_cancel]; grind

/-- `3·Σ_{m<n} m(m+1) = (n-1)n(n+1)`, stated without subtraction -/
theorem three_sum_oblong (n : Nat) : 3 * sumTo (n + 1) (fun m => m * (m + 1)) = n * (n + 1) * (n + 2) := by
  induction n with
  | zero => simp [sumTo]
  | succ n ih => rw [sumTo_succ, Nat.mul_add, ih]; grind

/-- `4·Σ_{m<n+1} m(m+1)(m+2) = n(n+1)(n+2)(n+3)` -/
theorem four_sum_tetra (n : Nat) :
    4 * sumTo (n + 1) (fun m => m * (m + 1) * (m + 2)) = n * (n + 1) * (n + 2) * (n + 3) := by
  induction n with
  | zero => simp [sumTo]
  | succ n ih => rw [sumTo_succ, Nat.mul_add, ih]; grind

/-! ### sizes of `flatMap`s over the index lists -/

theorem length_flatMap_pairsLt {β : Type} (n : Nat) (F : Nat × Nat → List β) :
    ((pairsLt n).flatMap F).length =
      sumTo n (fun i => sumTo (n - (i + 1)) (fun t => (F (i, i + 1 + t)).length)) := by
  unfold pairsLt
  rw [List.flatMap_assoc, length_flatMap_sumTo]
  apply sumTo_congr
  intro i _
  rw [List.flatMap_map, length_flatMap_range']

theorem length_flatMap_triplesT {β : Type} (n : Nat) (G : Nat × Nat × Nat → List β) :
    ((triplesT n).flatMap G).length =
      sumTo n (fun i => sumTo (n - (i + 1)) (fun t =>
        sumTo (n - (i + 1 + t)) (fun u => (G (i, i + 1 + t, i + 1 + t + u)).length))) := by
  unfold triplesT
  rw [List.flatMap_assoc, length_flatMap_pairsLt]
  apply sumTo_congr
  intro i _
  apply sumTo_congr
  intro t _
  rw [List.flatMap_map, length_flatMap_range']

/-! ### three_cycles_0ij : `(n-1)(n-2)` generators -/

theorem length_filter_ne_range' (s len i : Nat) (hi : s ≤ i ∧ i < s + len) :
    ((List.range' s len).filter fun j => j != i).length = len - 1 := by
  rw [← (List.nodup_range' (s := s) (n := len)).erase_eq_filter i, List.length_erase,
    if_pos (List.mem_range'_1.2 hi), List.length_range']

theorem length_pairsNe1 (n : Nat) : (pairsNe1 n).length = (n - 1) * (n - 2) := by
  unfold pairsNe1
  rw [length_flatMap_range']
  rw [sumTo_congr (n - 1) _ (fun _ => n - 2) (fun t ht => by
    rw [List.length_map, length_filter_ne_range' 1 (n - 1) (1 + t) (by omega)]; omega)]
  exact sumTo_const _ _

theorem three_cycles_0ij_count (n : Nat) (d : PermDef)
    (h : permFamily "three_cycles_0ij" [n] = some d) : d.gens.length = (n - 1) * (n - 2) := by
  obtain ⟨_, rfl⟩ := threeCycles0ij_eq n d h
  rw [mk_count, length_pairsNe1]

/-! ### three_cycles : `n(n-1)(n-2)/3` generators -/

theorem length_triplesMinFirst (n : Nat) : 3 * (triplesMinFirst n).length = n * (n - 1) * (n - 2) := by
  unfold triplesMinFirst
  rw [length_flatMap_pairsLt]
  -- inner blocks have `n - i - 2` elements
  rw [sumTo_congr n _ (fun i => (n - 1 - i) * (n - 1 - i - 1)) (fun i hi => by
    rw [sumTo_congr (n - (i + 1)) _ (fun _ => n - 1 - i - 1) (fun t ht => by
      rw [List.length_map, length_filter_ne_range' (i + 1) (n - (i + 1)) (i + 1 + t) (by omega)]
      omega)]
    rw [sumTo_const]; congr 1; omega)]
  rw [sumTo_reflect n (fun m => m * (m - 1))]
  match n with
  | 0 => rfl
  | 1 => rfl
  | N + 2 =>
    rw [sumTo_succ']
    simp only [Nat.zero_mul, Nat.zero_add, Nat.add_sub_cancel]
    have := three_sum_oblong N
    rw [sumTo_congr (N + 1) (fun i => (i + 1) * i) (fun m => m * (m + 1)) (fun i _ => Nat.mul_comm _ _),
      this]
    simp only [show N + 2 - 1 = N + 1 by omega]
    grind

theorem three_cycles_count (n : Nat) (d : PermDef) (h : permFamily "three_cycles" [n] = some d) :
    3 * d.gens.length = n * (n - 1) * (n - 2) := by
  obtain ⟨_, rfl⟩ := threeCycles_eq n d h
  rw [mk_count, length_triplesMinFirst]

/-! ### transposons : `(n+1)n(n-1)/6` generators -/

theorem length_triplesT (n : Nat) : 6 * (triplesT n).length = (n - 1) * n * (n + 1) := by
  have h0 : (triplesT n).length = ((triplesT n).flatMap fun x => [x]).length := by simp
  rw [h0, length_flatMap_triplesT]
  simp only [List.length_cons, List.length_nil, Nat.zero_add]
  -- innermost: `n - j` elements
  have e1 : ∀ i t, sumTo (n - (i + 1 + t)) (fun _ => 1) = n - (i + 1 + t) := by
    intro i t; rw [sumTo_const]; omega
  simp only [e1]
  -- middle sums
  have e2 : ∀ i, i < n → 2 * sumTo (n - (i + 1)) (fun t => n - (i + 1 + t)) =
      (n - 1 - i) * (n - 1 - i + 1) := by
    intro i hi
    rw [sumTo_congr (n - (i + 1)) _ (fun t => (n - (i + 1)) - t) (fun t _ => by omega),
      two_sum_down, show n - (i + 1) = n - 1 - i by omega]
  have e3 : 2 * sumTo n (fun i => sumTo (n - (i + 1)) (fun t => n - (i + 1 + t))) =
      sumTo n (fun m => m * (m + 1)) := by
    rw [sumTo_mul, sumTo_congr n _ (fun i => (n - 1 - i) * (n - 1 - i + 1)) e2,
      sumTo_reflect n (fun m => m * (m + 1))]
  have : 6 * sumTo n (fun i => sumTo (n - (i + 1)) (fun t => n - (i + 1 + t))) =
      3 * sumTo n (fun m => m * (m + 1)) := by rw [← e3]; omega
  rw [this]
  match n with
  | 0 => rfl
  | N + 1 => rw [three_sum_oblong N]; simp only [Nat.add_sub_cancel]

theorem transposons_count (n : Nat) (d : PermDef) (h : permFamily "transposons" [n] = some d) :
    6 * d.gens.length = (n - 1) * n * (n + 1) := by
  obtain ⟨_, rfl⟩ := transposons_eq n d h
  rw [mk_count, length_triplesT]

/-! ### block_interchange : `(n+2)(n+1)n(n-1)/24` generators -/

/-- `3·Σ_{t<m} (m-t)(m-t+1) = m(m+1)(m+2)` -/
theorem three_sum_oblong_down (m : Nat) :
    3 * sumTo m (fun t => (m - t) * (m - t + 1)) = m * (m + 1) * (m + 2) := by
  rw [sumTo_congr m _ (fun t => (fun s => (s + 1) * (s + 2)) (m - 1 - t)) (fun t ht => by
    simp only; rw [show m - 1 - t + 1 = m - t by omega, show m - 1 - t + 2 = m - t + 1 by omega])]
  rw [sumTo_reflect m (fun s => (s + 1) * (s + 2)), ← three_sum_oblong m, sumTo_succ']
  simp

theorem length_quadsI (n : Nat) : 24 * (quadsI n).length = (n - 1) * n * (n + 1) * (n + 2) := by
  unfold quadsI
  rw [length_flatMap_triplesT]
  simp only [List.length_map, List.length_range']
  -- innermost sums
  have e1 : ∀ i t, 2 * sumTo (n - (i + 1 + t)) (fun u => n - (i + 1 + t + u)) =
      (n - (i + 1) - t) * (n - (i + 1) - t + 1) := by
    intro i t
    rw [sumTo_congr (n - (i + 1 + t)) _ (fun u => (n - (i + 1 + t)) - u) (fun u _ => by omega),
      two_sum_down, show n - (i + 1 + t) = n - (i + 1) - t by omega]
  -- middle sums
  have e2 : ∀ i, 6 * sumTo (n - (i + 1)) (fun t =>
      sumTo (n - (i + 1 + t)) (fun u => n - (i + 1 + t + u))) =
      (n - 1 - i) * (n - 1 - i + 1) * (n - 1 - i + 2) := by
    intro i
    have : 6 * sumTo (n - (i + 1)) (fun t =>
        sumTo (n - (i + 1 + t)) (fun u => n - (i + 1 + t + u))) =
        3 * sumTo (n - (i + 1)) (fun t => 2 *
          sumTo (n - (i + 1 + t)) (fun u => n - (i + 1 + t + u))) := by
      rw [← sumTo_mul]; omega
    rw [this, sumTo_congr _ _ _ (fun t _ => e1 i t), three_sum_oblong_down,
      show n - (i + 1) = n - 1 - i by omega]
  have e3 : 24 * sumTo n (fun i => sumTo (n - (i + 1)) (fun t =>
      sumTo (n - (i + 1 + t)) (fun u => n - (i + 1 + t + u)))) =
      4 * sumTo n (fun m => m * (m + 1) * (m + 2)) := by
    have : 24 * sumTo n (fun i => sumTo (n - (i + 1)) (fun t =>
        sumTo (n - (i + 1 + t)) (fun u => n - (i + 1 + t + u)))) =
        4 * sumTo n (fun i => 6 * sumTo (n - (i + 1)) (fun t =>
          sumTo (n - (i + 1 + t)) (fun u => n - (i + 1 + t + u)))) := by
      rw [← sumTo_mul]; omega
    rw [this, sumTo_congr _ _ _ (fun i _ => e2 i),
      sumTo_reflect n (fun m => m * (m + 1) * (m + 2))]
  rw [e3]
  match n with
  | 0 => rfl
  | N + 1 => rw [four_sum_tetra N]; simp only [Nat.add_sub_cancel]

theorem block_interchange_count (n : Nat) (d : PermDef)
    (h : permFamily "block_interchange" [n] = some d) :
    24 * d.gens.length = (n - 1) * n * (n + 1) * (n + 2) := by
  obtain ⟨_, rfl⟩ := blockInterchange_eq n d h
  rw [mk_count, length_quadsI]

end Cv.Families
