/-
  G4 — prefix_cycles, consecutive_k_cycles, down_cycles: generated = specification.  Core Lean only.
-/
import CvGen.PyFamilies
import CvProofs.PyFamG4Lemmas
namespace Cv.PyG4
open Cv.Py Cv.PyGen Cv.Families
open Cv.GraphDef (PermDef)

/-- the raw `create` arguments of a specified definition (everything given explicitly) -/
def rawOf (d : PermDef) : RawDef :=
  RawDef.mk (d.gens.map toI) (some (toI d.central)) (some d.names) (some d.name)

theorem bind_rawOf (n : Nat) (d : PermDef) (r : Option RawDef) (hr : r = some (rawOf d))
    (hv : Valid n d) (hne : d.gens ≠ []) (hn : 0 < n) : r.bind rawToPermDef = some d := by
  subst hr
  exact rawToPermDef_valid n d hv hne hn

/-- `permutation_from_cycles(n, [list(range(i, i+k))])` -/
theorem pfc_rangeCycle (n i k : Nat) (hk : 1 ≤ k) (hik : i + k ≤ n) :
    Perm.permutation_from_cycles (n : Int) [toI (List.range' i k)] 0 =
      some (toI (oneLine n (rangeCycleFn i k))) := by
  have := pfc_gen n [List.range' i k]
  simp only [List.map_cons, List.map_nil] at this
  rw [this, fromCycles_rangeCycle n i k hk hik]; rfl

theorem prefix_cycles_raw (n : Nat) (hn : 2 ≤ n) :
    Fam.prefix_cycles (n : Int) = some (rawOf (mk n (List.range' 2 (n - 1)) (fun j => rangeCycleFn 0 j)
      (fun j => tupleName "," (List.range j)) ("prefix_cycles-" ++ showNat n))) := by
  unfold Fam.prefix_cycles
  have ha : pyAssert (decide ((n : Int) ≥ 2)) = some () := by
    unfold pyAssert; rw [if_pos]; simp only [decide_eq_true_eq]; omega
  simp only [ha, Option.bind_eq_bind, Option.bind_some, Option.pure_def]
  have hr : pyRange 2 ((n : Int) + 1) 1 = toI (List.range' 2 (n - 1)) := by
    have := pyRange_nat 2 (n + 1)
    rw [show n + 1 - 2 = n - 1 by omega] at this
    rw [← this]; rfl
  rw [hr]
  unfold toI
  rw [List.foldlM_map]
  rw [foldlM_append_pair (fun (j : Nat) => Perm.permutation_from_cycles (n : Int) [pyRange 0 (Int.ofNat j) 1] 0)
    (fun j => toI (oneLine n (rangeCycleFn 0 j)))
    (fun (j : Nat) => "(" ++ pyJoin "," (List.map pyStr (pyRange 0 (Int.ofNat j) 1)) ++ ")")
    (fun (j : Nat) => tupleName "," (List.range j))]
  · simp only [Option.bind_some, List.nil_append]
    rw [pyRange_zero_nat, pyStr_nat]
    simp [rawOf, mk, toI]
  · intro j hj
    have := List.mem_range'_1.1 hj
    simp only [Int.ofNat_eq_natCast]
    rw [pyRange_zero_nat, List.range_eq_range']
    exact pfc_rangeCycle n 0 j (by omega) (by omega)
  · intro j _
    simp only [Int.ofNat_eq_natCast]
    rw [pyRange_zero_nat, tupleName_gen]

theorem assert_fail_int (n m : Int) (h : n < m) : pyAssert (decide (n ≥ m)) = none := by
  unfold pyAssert; rw [if_neg]; simp only [decide_eq_true_eq]; omega

theorem prefix_cycles_gen (n : Nat) :
    (Fam.prefix_cycles (n : Int)).bind rawToPermDef = Families.prefixCycles n := by
  by_cases hn : 2 ≤ n
  · have hs : prefixCycles n = some (mk n (List.range' 2 (n - 1)) (fun j => rangeCycleFn 0 j)
        (fun j => tupleName "," (List.range j)) ("prefix_cycles-" ++ showNat n)) := by
      unfold prefixCycles; rw [if_pos hn]
    rw [hs]
    refine bind_rawOf n _ _ (prefix_cycles_raw n hn) (prefix_cycles_valid n _ hs) ?_ (by omega)
    rw [mk_gens]
    have : List.range' 2 (n - 1) = 2 :: List.range' 3 (n - 2) := by
      rw [show n - 1 = (n - 2) + 1 by omega]; rfl
    rw [this]; simp
  · have : prefixCycles n = none := by unfold prefixCycles; rw [if_neg hn]
    rw [this]
    unfold Fam.prefix_cycles
    rw [assert_fail_int _ _ (by omega)]; rfl

theorem prefix_cycles_gen_neg (n : Int) (h : n < 0) : Fam.prefix_cycles n = none := by
  unfold Fam.prefix_cycles
  rw [assert_fail_int _ _ (by omega)]; rfl

theorem pyAssert_true (b : Bool) (h : b = true) : pyAssert b = some () := by subst h; rfl
theorem pyAssert_false (b : Bool) (h : b = false) : pyAssert b = none := by subst h; rfl

/-! ### consecutive_k_cycles -/

theorem consecutive_k_cycles_raw (n k : Nat) (h : 1 ≤ n ∧ 1 ≤ k ∧ k ≤ n) :
    Fam.consecutive_k_cycles (n : Int) (k : Int) =
      some (rawOf (mk n (List.range (n - k + 1)) (fun i => rangeCycleFn i k)
        (fun i => tupleName "," (List.range' i k))
        ("consecutive_k_cycles-" ++ showNat n ++ "-" ++ showNat k))) := by
  unfold Fam.consecutive_k_cycles
  have ha : pyAssert ((decide ((n : Int) ≥ 1)) && (decide ((1 : Int) ≤ (k : Int)) && decide ((k : Int) ≤ (n : Int)))) = some () := by
    apply pyAssert_true
    simp only [Bool.and_eq_true, decide_eq_true_eq]; omega
  simp only [ha, Option.bind_eq_bind, Option.bind_some, Option.pure_def]
  have hr : pyRange 0 ((n : Int) - (k : Int) + 1) 1 = toI (List.range (n - k + 1)) := by
    rw [← pyRange_zero_nat]; congr 1; omega
  rw [hr]
  unfold toI
  rw [List.foldlM_map]
  rw [foldlM_append_pair
    (fun (i : Nat) => Perm.permutation_from_cycles (n : Int) [pyRange (Int.ofNat i) (Int.ofNat i + (k : Int)) 1] 0)
    (fun i => toI (oneLine n (rangeCycleFn i k)))
    (fun (i : Nat) => "(" ++ pyJoin "," (List.map pyStr (pyRange (Int.ofNat i) (Int.ofNat i + (k : Int)) 1)) ++ ")")
    (fun (i : Nat) => tupleName "," (List.range' i k))]
  · simp only [Option.bind_some, List.nil_append]
    rw [pyRange_zero_nat, pyStr_nat, pyStr_nat]
    simp [rawOf, mk, toI]
  · intro i hi
    have := List.mem_range.1 hi
    have e : pyRange (Int.ofNat i) (Int.ofNat i + (k : Int)) 1 = toI (List.range' i k) := by
      have := pyRange_nat i (i + k)
      rw [show i + k - i = k by omega] at this
      rw [← this]; rfl
    rw [e]
    exact pfc_rangeCycle n i k (by omega) (by omega)
  · intro i _
    have e : pyRange (Int.ofNat i) (Int.ofNat i + (k : Int)) 1 = toI (List.range' i k) := by
      have := pyRange_nat i (i + k)
      rw [show i + k - i = k by omega] at this
      rw [← this]; rfl
    rw [e, tupleName_gen]

theorem consecutive_k_cycles_gen (n k : Nat) :
    (Fam.consecutive_k_cycles (n : Int) (k : Int)).bind rawToPermDef = Families.consecutiveKCycles n k := by
  by_cases h : 1 ≤ n ∧ 1 ≤ k ∧ k ≤ n
  · have hs : consecutiveKCycles n k = some (mk n (List.range (n - k + 1)) (fun i => rangeCycleFn i k)
        (fun i => tupleName "," (List.range' i k))
        ("consecutive_k_cycles-" ++ showNat n ++ "-" ++ showNat k)) := by
      unfold consecutiveKCycles; rw [if_pos h]
    rw [hs]
    refine bind_rawOf n _ _ (consecutive_k_cycles_raw n k h) (consecutive_k_cycles_valid n k _ hs) ?_ (by omega)
    rw [mk_gens, List.range_succ]; simp
  · have : consecutiveKCycles n k = none := by unfold consecutiveKCycles; rw [if_neg h]
    rw [this]
    unfold Fam.consecutive_k_cycles
    rw [pyAssert_false]; rfl
    rw [Bool.eq_false_iff]
    intro hb
    simp only [Bool.and_eq_true, decide_eq_true_eq] at hb
    omega

theorem consecutive_k_cycles_gen_neg (n k : Int) (h : n < 0 ∨ k < 0) :
    Fam.consecutive_k_cycles n k = none := by
  unfold Fam.consecutive_k_cycles
  rw [pyAssert_false]; rfl
  rw [Bool.eq_false_iff]
  intro hb
  simp only [Bool.and_eq_true, decide_eq_true_eq] at hb
  omega

/-! ### down_cycles -/

theorem down_cycles_raw (n : Nat) (hn : 2 ≤ n) :
    Fam.down_cycles (n : Int) = some (rawOf (mk n (pairsLt n) (fun x => rangeCycleFn x.1 (x.2 + 1 - x.1))
      (fun x => tupleName "," (List.range' x.1 (x.2 + 1 - x.1))) ("down_cycles-" ++ showNat n))) := by
  unfold Fam.down_cycles
  have ha : pyAssert (decide ((n : Int) ≥ 2)) = some () := by
    apply pyAssert_true; simp only [decide_eq_true_eq]; omega
  simp only [ha, Option.bind_eq_bind, Option.bind_some, Option.pure_def]
  rw [pyRange_zero_nat]
  unfold toI
  rw [List.foldlM_map]
  rw [foldlM_outer
    (A := fun (i : Nat) => (List.range' (i + 1) (n - (i + 1))).map fun j => toI (oneLine n (rangeCycleFn i (j + 1 - i))))
    (B := fun (i : Nat) => (List.range' (i + 1) (n - (i + 1))).map fun j => tupleName "," (List.range' i (j + 1 - i)))]
  · simp only [Option.bind_some, List.nil_append]
    rw [pyStr_nat]
    simp [rawOf, mk, toI, pairsLt, List.map_flatMap]
    exact ⟨rfl, rfl⟩
  · intro i hi st
    have hi' := List.mem_range.1 hi
    have hr : pyRange (Int.ofNat i + 1) (n : Int) 1 = toI (List.range' (i + 1) (n - (i + 1))) := by
      rw [← pyRange_nat]; rfl
    have e : ∀ j : Nat, i < j → pyRange (Int.ofNat i) (Int.ofNat j + 1) 1 = toI (List.range' i (j + 1 - i)) := by
      intro j hj
      rw [← pyRange_nat]; rfl
    rw [hr]
    unfold toI
    rw [List.foldlM_map]
    rw [foldlM_append_pair
      (fun (j : Nat) => Perm.permutation_from_cycles (n : Int) [pyRange (Int.ofNat i) (Int.ofNat j + 1) 1] 0)
      (fun j => toI (oneLine n (rangeCycleFn i (j + 1 - i))))
      (fun (j : Nat) => "(" ++ pyJoin "," (List.map pyStr (pyRange (Int.ofNat i) (Int.ofNat j + 1) 1)) ++ ")")
      (fun (j : Nat) => tupleName "," (List.range' i (j + 1 - i)))]
    · rfl
    · intro j hj
      have := List.mem_range'_1.1 hj
      rw [e j (by omega)]
      exact pfc_rangeCycle n i (j + 1 - i) (by omega) (by omega)
    · intro j hj
      have := List.mem_range'_1.1 hj
      rw [e j (by omega), tupleName_gen]

theorem down_cycles_gen (n : Nat) :
    (Fam.down_cycles (n : Int)).bind rawToPermDef = Families.downCycles n := by
  by_cases hn : 2 ≤ n
  · have hs : downCycles n = some (mk n (pairsLt n) (fun x => rangeCycleFn x.1 (x.2 + 1 - x.1))
        (fun x => tupleName "," (List.range' x.1 (x.2 + 1 - x.1))) ("down_cycles-" ++ showNat n)) := by
      unfold downCycles; rw [if_pos hn]
    rw [hs]
    refine bind_rawOf n _ _ (down_cycles_raw n hn) (down_cycles_valid n _ hs) ?_ (by omega)
    rw [mk_gens]
    have : (0, 1) ∈ pairsLt n := (mem_pairsLt n 0 1).2 ⟨by omega, by omega⟩
    intro h
    rw [List.map_eq_nil_iff] at h
    rw [h] at this
    cases this
  · have : downCycles n = none := by unfold downCycles; rw [if_neg hn]
    rw [this]
    unfold Fam.down_cycles
    rw [assert_fail_int _ _ (by omega)]; rfl

theorem down_cycles_gen_neg (n : Int) (h : n < 0) : Fam.down_cycles n = none := by
  unfold Fam.down_cycles
  rw [assert_fail_int _ _ (by omega)]; rfl

end Cv.PyG4
