/-
  G6 — increasing_k_cycles: generated = specification.  Core Lean only.
-/
import CvProofs.PyFamG6Lemmas
namespace Cv.PyG6
open Cv.Py Cv.PyGen Cv.Families Cv.PyG4
open Cv.GraphDef (PermDef)

/-- the prelude's `itertools.combinations` is the model's -/
theorem pyCombinationsN_eq {α : Type} (l : List α) (k : Nat) :
    pyCombinationsN l k = Cv.Perm.combinations l k := by
  induction l generalizing k with
  | nil => cases k <;> rfl
  | cons a t ih =>
    cases k with
    | zero => rfl
    | succ k => simp only [pyCombinationsN, Cv.Perm.combinations, ih]

theorem combinations_map {α β : Type} (f : α → β) (l : List α) (k : Nat) :
    Cv.Perm.combinations (l.map f) k = (Cv.Perm.combinations l k).map (List.map f) := by
  induction l generalizing k with
  | nil => cases k <;> rfl
  | cons a t ih =>
    cases k with
    | zero => rfl
    | succ k =>
      simp only [List.map_cons, Cv.Perm.combinations, ih, List.map_append, List.map_map]
      congr 1

theorem pyCombinations_range (n k : Nat) :
    pyCombinations (pyRange 0 (n : Int) 1) (k : Int) =
      (Cv.Perm.combinations (List.range n) k).map toI := by
  unfold pyCombinations
  rw [if_neg (by omega), pyRange_zero_nat, pyCombinationsN_eq]
  unfold toI
  rw [combinations_map]; rfl

theorem increasing_k_cycles_raw (n k : Nat) (h : 1 ≤ n ∧ 1 ≤ k ∧ k ≤ n) :
    Fam.increasing_k_cycles (n : Int) (k : Int) =
      some (rawOf (mk n (Cv.Perm.combinations (List.range n) k) (fun c => cycleFn c) (tupleName ",")
        ("increasing_k_cycles-" ++ showNat n ++ "-" ++ showNat k))) := by
  unfold Fam.increasing_k_cycles
  have ha : pyAssert (decide ((n : Int) ≥ 1) && (decide ((1 : Int) ≤ (k : Int)) && decide ((k : Int) ≤ (n : Int)))) = some () := by
    apply pyAssert_true
    simp only [Bool.and_eq_true, decide_eq_true_eq]; omega
  simp only [ha, Option.bind_eq_bind, Option.bind_some, Option.pure_def]
  rw [pyCombinations_range, List.foldlM_map, pyRange_zero_nat, pyStr_nat, pyStr_nat]
  rw [foldlM_append_pair
    (fun (c : List Nat) => Perm.permutation_from_cycles (n : Int) [toI c] 0)
    (fun c => toI (oneLine n (cycleFn c)))
    (fun (c : List Nat) => "(" ++ pyJoin "," (List.map pyStr (toI c)) ++ ")")
    (tupleName ",")]
  · simp [rawOf, mk, toI]
  · intro c hc
    obtain ⟨h1, _⟩ := Cv.Perm.combinations_spec _ _ _ hc
    obtain ⟨_, g2, g3⟩ := sublist_range_props n c h1
    exact pfc_cycleFn n c g2 g3
  · intro c _
    exact tupleName_gen "," c

theorem increasing_k_cycles_gen (n k : Nat) :
    (Fam.increasing_k_cycles (n : Int) (k : Int)).bind rawToPermDef = Families.increasingKCycles n k := by
  by_cases h : 1 ≤ n ∧ 1 ≤ k ∧ k ≤ n
  · have hs : increasingKCycles n k = some (mk n (Cv.Perm.combinations (List.range n) k) (fun c => cycleFn c)
        (tupleName ",") ("increasing_k_cycles-" ++ showNat n ++ "-" ++ showNat k)) := by
      unfold increasingKCycles; rw [if_pos h]
    rw [hs]
    refine bind_rawOf n _ _ (increasing_k_cycles_raw n k h)
      (increasing_k_cycles_valid n k _ ((permFamily_increasingKCycles n k).trans hs)) ?_ (by omega)
    rw [mk_gens]
    have : List.range k ∈ Cv.Perm.combinations (List.range n) k :=
      (mem_combinations_range n k _).2 ⟨List.pairwise_lt_range, fun v hv => by
        have := List.mem_range.1 hv; omega, List.length_range⟩
    intro e
    rw [List.map_eq_nil_iff] at e
    rw [e] at this; exact absurd this List.not_mem_nil
  · have : increasingKCycles n k = none := by unfold increasingKCycles; rw [if_neg h]
    rw [this]
    unfold Fam.increasing_k_cycles
    rw [pyAssert_false]; · rfl
    simp only [Bool.and_eq_false_iff, decide_eq_false_iff_not]
    omega

theorem increasing_k_cycles_gen_neg (n k : Int) (h : n < 0 ∨ k < 0) :
    Fam.increasing_k_cycles n k = none := by
  unfold Fam.increasing_k_cycles
  rw [pyAssert_false]; · rfl
  simp only [Bool.and_eq_false_iff, decide_eq_false_iff_not]
  omega

end Cv.PyG6
