/-
  Beam search (`CvModel/Beam.lean`): predictor lemmas (C19) and soundness / exactness of the two beam
  modes (C06).  Core Lean only.  Uses `CvProofs/Paths.lean` (task A6) for `PathHyp`, `IsBall`, `IsInvMap`,
  `restorePath_chain` and `findPathFrom_spec`.
-/
import CvModel.Beam
import CvProofs.Spec
import CvProofs.Tensor
import CvProofs.Paths
namespace Cv
/- all helper lemmas of this file live in `Cv.BW` ("beam / walks") so that their short names cannot clash
   with the lemma files of the other proof tasks -/
namespace BW

variable {α : Type}

/-! ### graph basics shared by the beam and walk proofs -/

theorem mem_nb (g : Graph α) (x y : α) : y ∈ g.nb x ↔ ∃ i, i < g.nGens ∧ y = g.act i x := by
  simp only [Graph.nb, nbOf, List.mem_map, List.mem_range]
  constructor
  · rintro ⟨i, hi, rfl⟩; exact ⟨i, hi, rfl⟩
  · rintro ⟨i, hi, rfl⟩; exact ⟨i, hi, rfl⟩

theorem mem_neighbors (g : Graph α) (xs : List α) (y : α) :
    y ∈ g.neighbors xs ↔ ∃ x ∈ xs, y ∈ g.nb x := by
  simp only [Graph.neighbors, List.mem_flatMap, List.mem_range, List.mem_map, mem_nb]
  constructor
  · rintro ⟨i, hi, x, hx, rfl⟩; exact ⟨x, hx, i, hi, rfl⟩
  · rintro ⟨x, hx, i, hi, rfl⟩; exact ⟨i, hi, x, hx, rfl⟩

theorem gather_subset (l : List α) (idx : List Nat) : ∀ x ∈ gather l idx, x ∈ l := by
  intro x hx
  simp only [gather, List.mem_filterMap] at hx
  obtain ⟨i, _, hi⟩ := hx
  exact List.mem_of_getElem? hi

theorem unique_subset (g : Graph α) (xs : List α) : ∀ x ∈ g.unique xs, x ∈ xs :=
  uniqueStates_subset g.hash xs

theorem unique_nodup (g : Graph α) (xs : List α) : (g.unique xs).Nodup := uniqueStates_nodup g.hash xs

theorem mem_unique (g : Graph α) (hinj : Function.Injective g.hash) (xs : List α) (x : α) :
    x ∈ g.unique xs ↔ x ∈ xs :=
  uniqueStates_mem g.hash xs (fun _ _ _ _ h => hinj h) x

theorem walk_step (g : Graph α) {n : Nat} {s x y : α} (w : Walk g.nb n s x) (h : y ∈ g.nb x) :
    Walk g.nb (n + 1) s y := .snoc w h

/-- one expansion step preserves "reachable in exactly `n` edges" -/
theorem walk_neighbors (g : Graph α) (n : Nat) (s : α) (xs : List α)
    (h : ∀ x ∈ xs, Walk g.nb n s x) : ∀ y ∈ g.neighbors xs, Walk g.nb (n + 1) s y := by
  intro y hy
  obtain ⟨x, hx, hxy⟩ := (mem_neighbors g xs y).1 hy
  exact .snoc (h x hx) hxy

/-- a walk of `n` edges bounds the distance: the target has a distance class, and it is `≤ n` -/
theorem walk_dist_le {nb : α → List α} {n : Nat} {s x : α} (w : Walk nb n s x) :
    (∃ d, DistLayer nb [s] d x) ∧ ∀ d, DistLayer nb [s] d x → d ≤ n := by
  have hr : Reach nb [s] n x := ⟨s, by simp, w⟩
  obtain ⟨j, _, hj⟩ := reach_distLayer' nb [s] n x hr
  refine ⟨⟨j, hj⟩, ?_⟩
  intro d hd
  rcases Nat.lt_or_ge n d with hlt | hge
  · exact absurd hr (hd.2 n hlt)
  · exact hge

/-! ### Predictor (C19) -/

theorem hamming_nil_left (s : List Int) : hamming [] s = 0 := by simp [hamming]

theorem hamming_nil_right (c : List Int) : hamming c [] = 0 := by simp [hamming]

theorem hamming_cons (a b : Int) (c s : List Int) :
    hamming (a :: c) (b :: s) = (if a != b then 1 else 0) + hamming c s := by
  unfold hamming
  simp only [List.zip_cons_cons, List.filter_cons]
  split <;> simp <;> omega

theorem hamming_spec' (c s : List Int) (hl : c.length = s.length) :
    hamming c s = ((List.range c.length).filter fun i => c.getD i 0 != s.getD i 0).length := by
  induction c generalizing s with
  | nil => simp [hamming]
  | cons a c ih =>
    cases s with
    | nil => simp at hl
    | cons b s =>
      simp only [List.length_cons, Nat.add_right_cancel_iff] at hl
      rw [hamming_cons, ih s hl, List.length_cons, List.range_succ_eq_map, List.filter_cons,
        List.filter_map]
      have : ((fun i => (a :: c).getD i 0 != (b :: s).getD i 0) ∘ Nat.succ) =
          (fun i => c.getD i 0 != s.getD i 0) := by
        funext i; simp
      rw [this]
      simp only [List.getD_cons_zero]
      split <;> simp <;> omega

theorem hamming_self' (c : List Int) : hamming c c = 0 := by
  induction c with
  | nil => simp [hamming]
  | cons a c ih => rw [hamming_cons, ih]; simp

theorem hamming_zero_iff' (c s : List Int) (hl : c.length = s.length) : hamming c s = 0 ↔ s = c := by
  induction c generalizing s with
  | nil =>
    cases s with
    | nil => simp [hamming]
    | cons b s => simp at hl
  | cons a c ih =>
    cases s with
    | nil => simp at hl
    | cons b s =>
      simp only [List.length_cons, Nat.add_right_cancel_iff] at hl
      rw [hamming_cons]
      by_cases hab : a = b
      · subst hab
        simp [ih s hl]
      · have : (a != b) = true := by simpa using hab
        simp only [this, if_true, List.cons.injEq]
        constructor
        · intro h; omega
        · rintro ⟨h, _⟩; exact absurd h.symm hab

theorem hamming_le' (c s : List Int) : hamming c s ≤ c.length := by
  unfold hamming
  refine Nat.le_trans (List.length_filter_le _ _) ?_
  rw [List.length_zip]
  exact Nat.min_le_left _ _

/-- the equal-length hypothesis of `hamming_zero_iff` is needed: `zip` truncates -/
example : hamming [1, 2] [1, 2, 3] = 0 ∧ ([1, 2, 3] : List Int) ≠ [1, 2] := by decide

theorem flatMap_eq_of_append {β γ : Type} (predict : List β → List γ)
    (happ : ∀ a b, predict (a ++ b) = predict a ++ predict b) (hnil : predict [] = [])
    (L : List (List β)) : L.flatMap predict = predict L.flatten := by
  induction L with
  | nil => simp [hnil]
  | cons a L ih => simp [List.flatMap_cons, ih, happ]

theorem predictBatched_eq_of_append' {β γ : Type} (predict : List β → List γ)
    (happ : ∀ a b, predict (a ++ b) = predict a ++ predict b) (hnil : predict [] = [])
    (batchSize : Nat) (hb : 0 < batchSize) (states : List β) :
    predictBatched predict batchSize states = predict states := by
  have _ := hb
  unfold predictBatched
  simp only []
  split
  · rename_i h
    rw [flatMap_eq_of_append predict happ hnil, flatten_tensorSplit _ (by omega)]
  · rfl

/-- scoring is batch-independent: any row-wise predictor, any batch size ≥ 1 -/
theorem predictBatched_eq' {β γ : Type} (f : β → γ) (batchSize : Nat) (hb : 0 < batchSize)
    (states : List β) : predictBatched (List.map f) batchSize states = states.map f :=
  predictBatched_eq_of_append' (List.map f) (by simp) (by simp) batchSize hb states

/-! ### simple beam: soundness (C06) -/

theorem unique_singleton (g : Graph α) (x : α) : g.unique [x] = [x] := by
  simp [Graph.unique, uniqueStates, sortByKey, dedupAdj]

/-- the pruning step of the simple beam -/
def simpleNext (c : SimpleCfg α) (i : Nat) (layer2 : List α) : List α :=
  if layer2.length ≥ c.beamWidth then gather layer2 (c.select i layer2) else layer2

theorem simpleNext_subset (c : SimpleCfg α) (i : Nat) (layer2 : List α) :
    ∀ x ∈ simpleNext c i layer2, x ∈ layer2 := by
  intro x hx
  unfold simpleNext at hx
  split at hx
  · exact gather_subset _ _ x hx
  · exact hx

theorem simpleLoop_succ (g gi : Graph α) (invMap : Option (List Nat)) (central : α) (c : SimpleCfg α)
    (ballH : List (List Int)) (fuel i : Nat) (layer1 : List α) (allH : List (List Int)) :
    simpleLoop g gi invMap central c ballH (fuel + 1) i layer1 allH =
      let layer2 := g.unique (g.neighbors layer1)
      match checkPathFound ballH (layer2.map g.hash) with
      | some j =>
        if !c.returnPath then some { found := true, length := i + j + 1, path := none }
        else if j == 0 then
          (restorePath gi allH central).map fun p => { found := true, length := i + j + 1, path := some p }
        else
          match layer2.find? (fun x => isinSorted (ballH.getD j []) (g.hash x)) with
          | none => none
          | some middle =>
            match restorePath gi allH middle, findPathFrom g gi invMap ballH middle with
            | some p1, .found p2 =>
              if (p1 ++ p2).length == i + j + 1 then
                some { found := true, length := i + j + 1, path := some (p1 ++ p2) }
              else none
            | _, _ => none
      | none =>
        simpleLoop g gi invMap central c ballH fuel (i + 1) (simpleNext c i layer2)
          (if c.returnPath then allH ++ [(simpleNext c i layer2).map g.hash] else allH) := by
  rfl

theorem checkPathFound_some (ball : List (List Int)) (hs : List Int) (hsorted : hs.Pairwise (· ≤ ·)) (j : Nat)
    (h : checkPathFound ball hs = some j) :
    ∃ H, ball[j]? = some H ∧ ∃ v ∈ H, v ∈ hs := by
  unfold checkPathFound at h
  rw [List.findIdx?_eq_some_iff_getElem] at h
  obtain ⟨hj, hp, _⟩ := h
  refine ⟨ball[j], by simp [hj], ?_⟩
  simp only [List.any_eq_true] at hp
  obtain ⟨v, hv, hvs⟩ := hp
  exact ⟨v, hv, (isinSorted_iff hs hsorted v).1 hvs⟩

theorem checkPathFound_none (ball : List (List Int)) (hs : List Int) (hsorted : hs.Pairwise (· ≤ ·))
    (h : checkPathFound ball hs = none) : ∀ H ∈ ball, ∀ v ∈ H, v ∉ hs := by
  unfold checkPathFound at h
  rw [List.findIdx?_eq_none_iff] at h
  intro H hH v hv hvs
  have := h H hH
  simp only [List.any_eq_false] at this
  exact this v hv ((isinSorted_iff hs hsorted v).2 hvs)

theorem unique_hash_sorted (g : Graph α) (xs : List α) : ((g.unique xs).map g.hash).Pairwise (· ≤ ·) :=
  (uniqueStates_keys_strict g.hash xs).imp (fun h => Int.le_of_lt h)

/-- invariant of the simple beam loop -/
structure SInv (g : Graph α) (start : α) (c : SimpleCfg α) (i : Nat) (layer1 : List α)
    (allH : List (List Int)) : Prop where
  walk : ∀ x ∈ layer1, Walk g.nb i start x
  head : allH[0]? = some [g.hash start]
  chain : ∀ j H, allH[j + 1]? = some H → ∀ v ∈ H,
    ∃ H' y x, allH[j]? = some H' ∧ g.hash y ∈ H' ∧ x ∈ g.nb y ∧ g.hash x = v
  len : c.returnPath = true → allH.length = i + 1
  last : c.returnPath = true → allH.getLast? = some (layer1.map g.hash)

theorem SInv.init (g : Graph α) (start : α) (c : SimpleCfg α) :
    SInv g start c 0 (g.unique [start]) [(g.unique [start]).map g.hash] := by
  rw [unique_singleton]
  refine ⟨?_, by simp, ?_, by simp, by simp⟩
  · intro x hx; rw [List.mem_singleton.1 hx]; exact .nil _
  · intro j H hj; simp at hj

theorem SInv.step (g : Graph α) (start : α) (c : SimpleCfg α) (i : Nat) (layer1 : List α)
    (allH : List (List Int)) (inv : SInv g start c i layer1 allH) (layer2' : List α)
    (hsub : ∀ x ∈ layer2', x ∈ g.neighbors layer1) :
    SInv g start c (i + 1) layer2' (if c.returnPath then allH ++ [layer2'.map g.hash] else allH) := by
  have hw : ∀ x ∈ layer2', Walk g.nb (i + 1) start x := fun x hx =>
    walk_neighbors g i start layer1 inv.walk x (hsub x hx)
  by_cases hrp : c.returnPath = true
  · rw [if_pos hrp]
    have hlen := inv.len hrp
    have hlast := inv.last hrp
    refine ⟨hw, ?_, ?_, fun _ => by simp [hlen], fun _ => by simp⟩
    · rw [List.getElem?_append_left (by omega)]; exact inv.head
    · intro j H hj v hv
      by_cases hjl : j + 1 < allH.length
      · rw [List.getElem?_append_left hjl] at hj
        obtain ⟨H', y, x, h1, h2, h3, h4⟩ := inv.chain j H hj v hv
        exact ⟨H', y, x, by rw [List.getElem?_append_left (by omega)]; exact h1, h2, h3, h4⟩
      · have hje : j + 1 = allH.length := by
          have := (List.getElem?_eq_some_iff.1 hj).1
          simp at this; omega
        rw [hje, List.getElem?_append_right (Nat.le_refl _)] at hj
        simp only [Nat.sub_self, List.getElem?_cons_zero, Option.some.injEq] at hj
        subst hj
        obtain ⟨x, hx, rfl⟩ := List.mem_map.1 hv
        obtain ⟨y, hy, hxy⟩ := (mem_neighbors g layer1 x).1 (hsub x hx)
        refine ⟨layer1.map g.hash, y, x, ?_, List.mem_map_of_mem hy, hxy, rfl⟩
        rw [List.getElem?_append_left (by omega)]
        rw [List.getLast?_eq_getElem?] at hlast
        rw [← hlast]; congr 1; omega
  · rw [if_neg hrp]
    exact ⟨hw, inv.head, inv.chain, fun h => absurd h hrp, fun h => absurd h hrp⟩

/-- `restore_path` through the (pruned, unsorted) layers kept by the beam -/
theorem restorePath_beam {g gi : Graph α} (h : PathHyp g gi) (start : α) (Hs : List (List Int))
    (hhead : Hs[0]? = some [g.hash start])
    (hchain : ∀ j H, Hs[j + 1]? = some H → ∀ v ∈ H,
      ∃ H' y x, Hs[j]? = some H' ∧ g.hash y ∈ H' ∧ x ∈ g.nb y ∧ g.hash x = v)
    (to : α) (hto : ∃ H' y, Hs.getLast? = some H' ∧ g.hash y ∈ H' ∧ to ∈ g.nb y) :
    ∃ p, restorePath gi Hs to = some p ∧ p.length = Hs.length ∧ (∀ i ∈ p, i < g.nGens) ∧
      applyPath g.act start p = to := by
  let Good : Nat → α → Prop := fun j x =>
    (∃ H, Hs[j]? = some H ∧ g.hash x ∈ H) ∨ (j = Hs.length ∧ x = to)
  have hne : 0 < Hs.length := (List.getElem?_eq_some_iff.1 hhead).1
  obtain ⟨p, hp, hpl, hpv, c, hc, hcp⟩ := restorePath_chain h Good Hs
    (by
      intro j x hj hg
      rcases hg with ⟨H, hH, hx⟩ | ⟨hjl, rfl⟩
      · obtain ⟨H', y, x', h1, h2, h3, h4⟩ := hchain j H hH _ hx
        have : x' = x := h.inj h4
        subst this
        exact ⟨y, Or.inl ⟨H', h1, h2⟩, h3⟩
      · obtain ⟨H', y, h1, h2, h3⟩ := hto
        refine ⟨y, Or.inl ⟨H', ?_, h2⟩, h3⟩
        rw [List.getLast?_eq_getElem?] at h1
        rw [← h1]; congr 1; omega)
    (by
      intro j H hj x
      constructor
      · intro hx; exact Or.inl ⟨H, hj, hx⟩
      · rintro (⟨H2, hH2, hx⟩ | ⟨hjl, _⟩)
        · rw [hj] at hH2; cases hH2; exact hx
        · have := (List.getElem?_eq_some_iff.1 hj).1; omega)
    to (Or.inr ⟨rfl, rfl⟩)
  refine ⟨p, hp, hpl, hpv, ?_⟩
  rcases hc with ⟨H, hH, hx⟩ | ⟨h0, _⟩
  · rw [hhead] at hH; cases hH
    have : c = start := h.inj (List.mem_singleton.1 hx)
    rw [← this]; exact hcp
  · omega


/-- soundness of the simple beam loop for an arbitrary list `ballH` of target layers -/
theorem simpleLoop_sound {g gi : Graph α} (h : PathHyp g gi) (invMap : Option (List Nat))
    (central start : α) (c : SimpleCfg α) (ballH : List (List Int))
    (hwalk : ∀ j H m, ballH[j]? = some H → g.hash m ∈ H → Walk g.nb j m central)
    (h0 : ∀ H, ballH[0]? = some H → ∀ v ∈ H, v = g.hash central)
    (hfrom : 1 < ballH.length → ∀ q p2, findPathFrom g gi invMap ballH q = .found p2 →
      applyPath g.act q p2 = central ∧ ∀ k ∈ p2, k < g.nGens)
    (fuel : Nat) : ∀ (i : Nat) (layer1 : List α) (allH : List (List Int)) (r : BeamRes),
    SInv g start c i layer1 allH →
    simpleLoop g gi invMap central c ballH fuel i layer1 allH = some r → r.found = true →
    Walk g.nb r.length start central ∧
    ∀ p, r.path = some p → p.length = r.length ∧ (∀ k ∈ p, k < g.nGens) ∧
      applyPath g.act start p = central := by
  induction fuel with
  | zero =>
    intro i layer1 allH r _ hr hf
    simp only [simpleLoop, Option.some.injEq] at hr
    subst hr; cases hf
  | succ fuel ih =>
    intro i layer1 allH r inv hr hf
    rw [simpleLoop_succ] at hr
    simp only [] at hr
    have hl2 : ∀ x ∈ g.unique (g.neighbors layer1), x ∈ g.neighbors layer1 := unique_subset g _
    have hw2 : ∀ x ∈ g.unique (g.neighbors layer1), Walk g.nb (i + 1) start x := fun x hx =>
      walk_neighbors g i start layer1 inv.walk x (hl2 x hx)
    split at hr
    · rename_i j hj
      obtain ⟨H, hH, v, hvH, hv2⟩ := checkPathFound_some ballH _ (unique_hash_sorted g _) j hj
      obtain ⟨m, hm, rfl⟩ := List.mem_map.1 hv2
      have hjlt : j < ballH.length := (List.getElem?_eq_some_iff.1 hH).1
      have hwalkr : Walk g.nb (i + j + 1) start central := by
        have := Walk.append (hw2 m hm) (hwalk j H m hH hvH)
        rwa [Nat.add_right_comm] at this
      -- path restoration needs: target is a neighbour of a state of the last kept layer
      have hto : c.returnPath = true → ∀ t ∈ g.unique (g.neighbors layer1),
          ∃ H' y, allH.getLast? = some H' ∧ g.hash y ∈ H' ∧ t ∈ g.nb y := by
        intro hrp t ht
        obtain ⟨y, hy, hty⟩ := (mem_neighbors g layer1 t).1 (hl2 t ht)
        exact ⟨_, y, inv.last hrp, List.mem_map_of_mem hy, hty⟩
      split at hr
      · cases hr
        exact ⟨hwalkr, by intro p hp; cases hp⟩
      · rename_i hrp
        have hrp : c.returnPath = true := by simpa using hrp
        have hlen := inv.len hrp
        split at hr
        · rename_i hj0
          have hj0 : j = 0 := by simpa using hj0
          subst hj0
          have hmc : m = central := h.inj (h0 H hH _ hvH)
          subst hmc
          obtain ⟨p, hp, hpl, hpv, hpa⟩ := restorePath_beam h start allH inv.head inv.chain m
            (hto hrp m hm)
          rw [hp] at hr
          simp only [Option.map_some, Option.some.injEq] at hr
          subst hr
          refine ⟨hwalkr, ?_⟩
          intro p' hp'
          cases hp'
          exact ⟨by rw [hpl, hlen], hpv, hpa⟩
        · rename_i hjne
          have hjne : j ≠ 0 := by simpa using hjne
          split at hr
          · cases hr
          · rename_i middle hmid
            have hmidm := List.mem_of_find?_eq_some hmid
            obtain ⟨p1', hp1', hpl1, hpv1, hpa1⟩ := restorePath_beam h start allH inv.head inv.chain
              middle (hto hrp middle hmidm)
            split at hr
            · rename_i p1 p2 hp1 hp2
              split at hr
              · rename_i hlen2
                cases hr
                rw [hp1'] at hp1
                cases hp1
                obtain ⟨hfa, hfv⟩ := hfrom (by omega) middle p2 hp2
                refine ⟨hwalkr, ?_⟩
                intro p' hp'
                cases hp'
                refine ⟨by simpa using hlen2, ?_, ?_⟩
                · intro k hk
                  rcases List.mem_append.1 hk with hk | hk
                  · exact hpv1 k hk
                  · exact hfv k hk
                · rw [applyPath_append, hpa1, hfa]
              · cases hr
            · cases hr
    · exact ih (i + 1) _ _ r
        (inv.step g start c i layer1 allH _ (fun x hx => hl2 x (simpleNext_subset c i _ x hx))) hr hf


theorem beamSimple_sound_noball' (g gi : Graph α) (h : PathHyp g gi) (invMap : Option (List Nat))
    (central start : α) (c : SimpleCfg α) (hb : c.ball = none) (r : BeamRes)
    (hr : beamSimple g gi invMap central start c = some r) (hf : r.found = true) :
    Walk g.nb r.length start central ∧
    ∀ p, r.path = some p → p.length = r.length ∧ (∀ i ∈ p, i < g.nGens) ∧
      applyPath g.act start p = central := by
  unfold beamSimple at hr
  simp only [] at hr
  split at hr
  · rename_i hh
    rw [unique_singleton] at hh
    have : start = central := h.inj (by simpa using hh)
    subst this
    cases hr
    exact ⟨.nil _, by intro p hp; cases hp; exact ⟨rfl, by simp, rfl⟩⟩
  · rw [hb] at hr
    simp only [] at hr
    refine simpleLoop_sound h invMap central start c [[g.hash central]] ?_ ?_ ?_ c.maxSteps 0 _ _ r
      (SInv.init g start c) hr hf
    · intro j H m hj hm
      match j, hj with
      | 0, hj =>
        simp only [List.getElem?_cons_zero, Option.some.injEq] at hj
        subst hj
        rw [h.inj (List.mem_singleton.1 hm)]; exact .nil _
      | j + 1, hj => simp at hj
    · intro H hH v hv
      simp only [List.getElem?_cons_zero, Option.some.injEq] at hH
      subst hH
      exact List.mem_singleton.1 hv
    · intro hlt; simp at hlt

theorem beamSimple_sound_ball' (g gi : Graph α) (h : PathHyp g gi) (hsym : Symm g.nb) (m : List Nat)
    (hm : IsInvMap g m) (central start : α) (c : SimpleCfg α) (ball : List (List Int))
    (hb : c.ball = some ball) (hball : IsBall g central ball) (hne : ball ≠ []) (r : BeamRes)
    (hr : beamSimple g gi (some m) central start c = some r) (hf : r.found = true) :
    Walk g.nb r.length start central ∧
    ∀ p, r.path = some p → p.length = r.length ∧ (∀ i ∈ p, i < g.nGens) ∧
      applyPath g.act start p = central := by
  have _ := hne
  unfold beamSimple at hr
  simp only [] at hr
  split at hr
  · rename_i hh
    rw [unique_singleton] at hh
    have : start = central := h.inj (by simpa using hh)
    subst this
    cases hr
    exact ⟨.nil _, by intro p hp; cases hp; exact ⟨rfl, by simp, rfl⟩⟩
  · rw [hb] at hr
    simp only [] at hr
    split at hr
    · cases hr
    · rename_i hic
      have hic : g.invClosed = true := by simpa using hic
      have hballS : IsBallS g [central] ball := hball
      refine simpleLoop_sound h (some m) central start c ball ?_ ?_ ?_ c.maxSteps 0 _ _ r
        (SInv.init g start c) hr hf
      · intro j H x hj hx
        have hd : DistLayer g.nb [central] j x := (hballS.mem_iff h.inj hj x).1 hx
        obtain ⟨s, hs, w⟩ := hd.1
        rw [List.mem_singleton.1 hs] at w
        exact walk_reverse hsym w
      · intro H hH v hv
        obtain ⟨-, L, -, hL, hperm⟩ := hball 0 H hH
        obtain ⟨x, hx, rfl⟩ := List.mem_map.1 (hperm.mem_iff.1 hv)
        have := ((hL x).1 hx).1
        rw [reach_zero] at this
        rw [List.mem_singleton.1 this]
      · intro _ q p2 hq
        have h1 := findPathFrom_spec h hic m hm central ball hball q
        rw [hq] at h1
        exact ⟨h1.1, findPathFrom_valid h hic m hm central ball hball q p2 hq⟩


/-! ### advanced beam: soundness (C06) -/

section Advanced
variable [DecidableEq α]

/-- the history filter + ring update of one advanced-beam step -/
def advKeep (g : Graph α) (c : AdvCfg α) (new : List α) (ring : Ring) (cyc : Nat) :
    Option (List α × Ring × Nat) :=
  if c.historyDepth > 0 then
    let newH := new.map g.hash
    let banned := ring.flatten
    let kept := new.filter fun x => !banned.contains (g.hash x)
    if kept.isEmpty then none
    else
      let cyc' := (cyc + 1) % c.historyDepth
      match writeColumn (ring.getD cyc' []) newH with
      | some col => some (kept, ring.set cyc' col, cyc')
      | none => none
  else some (new, ring, cyc)

theorem advLoop_succ (g : Graph α) (dest : α) (c : AdvCfg α) (fuel iStep : Nat) (beam : List α)
    (ring : Ring) (cyc : Nat) :
    advLoop g dest c (fuel + 1) iStep beam ring cyc =
      let new := g.unique (g.neighbors beam)
      if new.any (· == dest) then some { found := true, length := iStep, path := none }
      else
        match advKeep g c new ring cyc with
        | none =>
          if c.historyDepth > 0 ∧ (new.filter fun x => !ring.flatten.contains (g.hash x)).isEmpty then
            some { found := false, length := iStep, path := none }
          else none
        | some (kept, ring', cyc') =>
          let beam' := if kept.length > c.beamWidth then gather kept (c.select iStep kept) else kept
          advLoop g dest c fuel (iStep + 1) beam' ring' cyc' := by
  rfl

omit [DecidableEq α] in
theorem advKeep_subset (g : Graph α) (c : AdvCfg α) (new : List α) (ring : Ring) (cyc : Nat)
    (kept : List α) (ring' : Ring) (cyc' : Nat) (h : advKeep g c new ring cyc = some (kept, ring', cyc')) :
    ∀ x ∈ kept, x ∈ new := by
  unfold advKeep at h
  simp only [] at h
  split at h
  · split at h
    · cases h
    · split at h
      · cases h
        intro x hx
        exact (List.mem_filter.1 hx).1
      · cases h
  · cases h
    exact fun x hx => hx

theorem advLoop_sound (g : Graph α) (start dest : α) (c : AdvCfg α) (fuel : Nat) :
    ∀ (i : Nat) (beam : List α) (ring : Ring) (cyc : Nat) (r : BeamRes),
    (∀ x ∈ beam, Walk g.nb i start x) →
    advLoop g dest c fuel (i + 1) beam ring cyc = some r → r.found = true →
    Walk g.nb r.length start dest := by
  induction fuel with
  | zero =>
    intro i beam ring cyc r _ hr hf
    simp only [advLoop, Option.some.injEq] at hr
    subst hr
    cases hf
  | succ fuel ih =>
    intro i beam ring cyc r hbeam hr hf
    rw [advLoop_succ] at hr
    simp only [] at hr
    have hnew : ∀ x ∈ g.unique (g.neighbors beam), Walk g.nb (i + 1) start x := fun x hx =>
      walk_neighbors g i start beam hbeam x (unique_subset g _ x hx)
    split at hr
    · rename_i hany
      cases hr
      simp only [List.any_eq_true, beq_iff_eq] at hany
      obtain ⟨x, hx, rfl⟩ := hany
      exact hnew x hx
    · split at hr
      · split at hr
        · cases hr; cases hf
        · cases hr
      · rename_i kept ring' cyc' hk
        have hkept := advKeep_subset g c _ ring cyc kept ring' cyc' hk
        refine ih (i + 1) _ ring' cyc' r ?_ hr hf
        intro x hx
        apply hnew x
        apply hkept
        split at hx
        · exact gather_subset _ _ x hx
        · exact hx

theorem beamAdvanced_sound' (g : Graph α) (hinj : Function.Injective g.hash) (start dest : α)
    (c : AdvCfg α) (r : BeamRes) (hr : beamAdvanced g start dest c = some r) (hf : r.found = true) :
    Walk g.nb r.length start dest := by
  have _ := hinj
  unfold beamAdvanced at hr
  split at hr
  · rename_i h
    cases hr
    have : start = dest := by simpa using h
    subst this
    exact .nil _
  · exact advLoop_sound g start dest c c.maxSteps 0 [start] _ 0 r
      (by intro x hx; rw [List.mem_singleton.1 hx]; exact .nil _) hr hf


end Advanced

/-! ### exactness of the never-pruned beam (C06) -/

theorem checkPathFound_single (hc : Int) (hs : List Int) (hsorted : hs.Pairwise (· ≤ ·)) :
    checkPathFound [[hc]] hs = if hc ∈ hs then some 0 else none := by
  have := isinSorted_iff hs hsorted hc
  by_cases h : hc ∈ hs
  · rw [if_pos h]
    simp [checkPathFound, List.findIdx?_cons, this.2 h]
  · rw [if_neg h]
    have : isinSorted hs hc = false := by
      cases hv : isinSorted hs hc with
      | false => rfl
      | true => exact absurd (this.1 hv) h
    simp [checkPathFound, List.findIdx?_cons, this]

/-- the exact (never pruned) simple beam: the layer after `i` steps is the set of states reachable by a
walk of exactly `i` edges -/
theorem simpleLoop_exact {g gi : Graph α} (h : PathHyp g gi) (invMap : Option (List Nat))
    (central start : α) (c : SimpleCfg α) (d : Nat) (hd : DistLayer g.nb [start] d central)
    (hwide : ∀ (k : Nat) (L : List α), L.Nodup → (∀ x ∈ L, Reach g.nb [start] k x) → L.length < c.beamWidth)
    (fuel : Nat) : ∀ (i : Nat) (layer1 : List α) (allH : List (List Int)),
    i < d → d ≤ i + fuel → SInv g start c i layer1 allH → (∀ x, x ∈ layer1 ↔ Reach g.nb [start] i x) →
    ∃ r, simpleLoop g gi invMap central c [[g.hash central]] fuel i layer1 allH = some r ∧
      r.found = true ∧ r.length = d := by
  induction fuel with
  | zero => intro i _ _ h1 h2; omega
  | succ fuel ih =>
    intro i layer1 allH hid hfuel inv hlayer
    rw [simpleLoop_succ]
    simp only []
    have hmem2 : ∀ x, x ∈ g.unique (g.neighbors layer1) ↔ Reach g.nb [start] (i + 1) x := by
      intro x
      rw [mem_unique g h.inj, mem_neighbors, reach_succ]
      constructor
      · rintro ⟨y, hy, hxy⟩; exact ⟨y, (hlayer y).1 hy, hxy⟩
      · rintro ⟨y, hy, hxy⟩; exact ⟨y, (hlayer y).2 hy, hxy⟩
    have hcm : g.hash central ∈ (g.unique (g.neighbors layer1)).map g.hash ↔
        central ∈ g.unique (g.neighbors layer1) := by
      constructor
      · intro hm
        obtain ⟨x, hx, hxc⟩ := List.mem_map.1 hm
        rwa [← h.inj hxc]
      · exact fun hm => List.mem_map_of_mem hm
    rw [checkPathFound_single _ _ (unique_hash_sorted g _)]
    by_cases hlast : i + 1 = d
    · have hc2 : central ∈ g.unique (g.neighbors layer1) := (hmem2 central).2 (hlast ▸ hd.1)
      rw [if_pos (hcm.2 hc2)]
      simp only []
      by_cases hrp : c.returnPath = true
      · obtain ⟨y, hy, hcy⟩ := (mem_neighbors g layer1 central).1 (unique_subset g _ _ hc2)
        obtain ⟨p, hp, -, -, -⟩ := restorePath_beam h start allH inv.head inv.chain central
          ⟨_, y, inv.last hrp, List.mem_map_of_mem hy, hcy⟩
        simp [hrp, hp, hlast]
      · have hrp : c.returnPath = false := by simpa using hrp
        simp [hrp, hlast]
    · have hc2 : central ∉ g.unique (g.neighbors layer1) := fun hm =>
        hd.2 (i + 1) (by omega) ((hmem2 central).1 hm)
      rw [if_neg (fun hm => hc2 (hcm.1 hm))]
      simp only []
      have hnp : simpleNext c i (g.unique (g.neighbors layer1)) = g.unique (g.neighbors layer1) := by
        unfold simpleNext
        have := hwide (i + 1) _ (unique_nodup g (g.neighbors layer1)) (fun x hx => (hmem2 x).1 hx)
        rw [if_neg (by omega)]
      rw [hnp]
      refine ih (i + 1) _ _ (by omega) (by omega) ?_ hmem2
      have := inv.step g start c i layer1 allH (g.unique (g.neighbors layer1)) (unique_subset g _)
      exact this

theorem beamSimple_exact_unpruned' (g gi : Graph α) (h : PathHyp g gi) (invMap : Option (List Nat))
    (central start : α) (c : SimpleCfg α) (hb : c.ball = none) (d : Nat)
    (hd : DistLayer g.nb [start] d central) (hsteps : d ≤ c.maxSteps)
    (hwide : ∀ (k : Nat) (L : List α), L.Nodup → (∀ x ∈ L, Reach g.nb [start] k x) → L.length < c.beamWidth) :
    ∃ r, beamSimple g gi invMap central start c = some r ∧ r.found = true ∧ r.length = d := by
  unfold beamSimple
  simp only [unique_singleton, List.map_cons, List.map_nil, List.head?_cons]
  by_cases hsc : start = central
  · subst hsc
    have hd0 : d = 0 := by
      rcases Nat.eq_zero_or_pos d with h0 | h0
      · exact h0
      · exact absurd ((reach_zero ..).2 (by simp)) (hd.2 0 h0)
    simp [hd0]
  · have hne : ¬ ((some (g.hash start) == some (g.hash central)) = true) := by
      simp only [beq_iff_eq, Option.some.injEq]
      exact fun he => hsc (h.inj he)
    rw [if_neg hne, hb]
    simp only []
    have hd1 : 0 < d := by
      rcases Nat.eq_zero_or_pos d with h0 | h0
      · subst h0
        have := hd.1
        rw [reach_zero, List.mem_singleton] at this
        exact absurd this.symm hsc
      · exact h0
    have hinit := SInv.init g start c
    rw [unique_singleton] at hinit
    exact simpleLoop_exact h invMap central start c d hd hwide c.maxSteps 0 [start] _ hd1 (by omega)
      hinit (by intro x; rw [reach_zero])


theorem length_neighbors (g : Graph α) (xs : List α) : (g.neighbors xs).length = g.nGens * xs.length := by
  unfold Graph.neighbors
  generalize g.nGens = n
  induction n with
  | zero => simp
  | succ n ih =>
    rw [List.range_succ, List.flatMap_append, List.length_append, ih]
    simp [Nat.succ_mul]

theorem length_unique_le (g : Graph α) (xs : List α) : (g.unique xs).length ≤ xs.length := by
  have h1 := (uniqueStates_sublist_sort g.hash xs).length_le
  have h2 := (sortByKey_perm g.hash xs).length_eq
  unfold Graph.unique
  omega

/-- every distance class below the class of a reachable state is inhabited -/
theorem distLayer_nonempty_below (nb : α → List α) (S : List α) (d : Nat) (x : α)
    (hd : DistLayer nb S d x) : ∀ k, k ≤ d → ∃ y, DistLayer nb S k y := by
  induction d generalizing x with
  | zero => intro k hk; exact ⟨x, by rw [Nat.le_zero.1 hk]; exact hd⟩
  | succ d ih =>
    intro k hk
    by_cases hkd : k = d + 1
    · exact ⟨x, hkd ▸ hd⟩
    · obtain ⟨y, hy, _⟩ := distLayer_pred' nb S d x hd
      exact ih y hy k (by omega)

section AdvancedExact
variable [DecidableEq α]

/-- invariant of the never-pruned advanced beam after `i` steps -/
structure AInv (g : Graph α) (start : α) (c : AdvCfg α) (i : Nat) (beam : List α) (ring : Ring) : Prop where
  nodup : beam.Nodup
  sub : ∀ x ∈ beam, Reach g.nb [start] i x
  sup : ∀ x, DistLayer g.nb [start] i x → x ∈ beam
  shape : c.historyDepth > 0 → ring.length = c.historyDepth ∧ ∀ col ∈ ring, col.length = c.beamWidth * g.nGens
  hist : ∀ v ∈ ring.flatten, ∃ y j, j ≤ i ∧ Reach g.nb [start] j y ∧ g.hash y = v

omit [DecidableEq α] in
theorem advKeep_exact (g : Graph α) (start : α) (c : AdvCfg α) (i : Nat) (new : List α) (ring : Ring)
    (cyc : Nat)
    (hsub : ∀ x ∈ new, Reach g.nb [start] (i + 1) x)
    (hkeep : ∀ x ∈ new, DistLayer g.nb [start] (i + 1) x → g.hash x ∉ ring.flatten)
    (hz : ∃ z ∈ new, DistLayer g.nb [start] (i + 1) z)
    (hlen : new.length ≤ c.beamWidth * g.nGens)
    (shape : c.historyDepth > 0 →
      ring.length = c.historyDepth ∧ ∀ col ∈ ring, col.length = c.beamWidth * g.nGens)
    (hist : ∀ v ∈ ring.flatten, ∃ y j, j ≤ i ∧ Reach g.nb [start] j y ∧ g.hash y = v) :
    ∃ kept ring' cyc', advKeep g c new ring cyc = some (kept, ring', cyc') ∧ kept.Sublist new ∧
      (∀ x ∈ new, DistLayer g.nb [start] (i + 1) x → x ∈ kept) ∧
      (c.historyDepth > 0 →
        ring'.length = c.historyDepth ∧ ∀ col ∈ ring', col.length = c.beamWidth * g.nGens) ∧
      (∀ v ∈ ring'.flatten, ∃ y j, j ≤ i + 1 ∧ Reach g.nb [start] j y ∧ g.hash y = v) := by
  unfold advKeep
  by_cases hh : c.historyDepth > 0
  · obtain ⟨hrl, hcols⟩ := shape hh
    rw [if_pos hh]
    simp only []
    have hne : ¬ ((new.filter fun x => !ring.flatten.contains (g.hash x)).isEmpty = true) := by
      obtain ⟨z, hz1, hz2⟩ := hz
      have : z ∈ new.filter fun x => !ring.flatten.contains (g.hash x) := by
        rw [List.mem_filter]
        refine ⟨hz1, ?_⟩
        simpa using hkeep z hz1 hz2
      intro he
      rw [List.isEmpty_iff] at he
      rw [he] at this
      simp at this
    rw [if_neg hne]
    have hcyc : (cyc + 1) % c.historyDepth < ring.length := by rw [hrl]; exact Nat.mod_lt _ hh
    have hgetD : ring.getD ((cyc + 1) % c.historyDepth) [] = ring[(cyc + 1) % c.historyDepth] := by
      simp [List.getD, hcyc]
    have hcolmem : ring[(cyc + 1) % c.historyDepth] ∈ ring := List.getElem_mem hcyc
    have hcollen := hcols _ hcolmem
    rw [hgetD]
    unfold writeColumn
    rw [if_pos (by rw [List.length_map, hcollen]; exact hlen)]
    simp only []
    refine ⟨_, _, _, rfl, List.filter_sublist, ?_, fun _ => ⟨by rw [List.length_set, hrl], ?_⟩, ?_⟩
    · intro x hx hdx
      rw [List.mem_filter]
      exact ⟨hx, by simpa using hkeep x hx hdx⟩
    · intro col hcol
      rcases List.mem_or_eq_of_mem_set hcol with hcol | hcol
      · exact hcols col hcol
      · rw [hcol, List.length_append, List.length_drop, List.length_map, hcollen]
        omega
    · intro v hv
      rw [List.mem_flatten] at hv
      obtain ⟨col, hcol, hvcol⟩ := hv
      rcases List.mem_or_eq_of_mem_set hcol with hcol | hcol
      · obtain ⟨y, j, hj, hy, hyv⟩ := hist v (List.mem_flatten.2 ⟨col, hcol, hvcol⟩)
        exact ⟨y, j, by omega, hy, hyv⟩
      · rw [hcol] at hvcol
        rcases List.mem_append.1 hvcol with hv1 | hv1
        · obtain ⟨x, hx, rfl⟩ := List.mem_map.1 hv1
          exact ⟨x, i + 1, Nat.le_refl _, hsub x hx, rfl⟩
        · have hv2 := List.mem_of_mem_drop hv1
          obtain ⟨y, j, hj, hy, hyv⟩ := hist v (List.mem_flatten.2 ⟨_, hcolmem, hv2⟩)
          exact ⟨y, j, by omega, hy, hyv⟩
  · rw [if_neg hh]
    refine ⟨_, _, _, rfl, List.Sublist.refl _, fun x hx _ => hx, fun h => absurd h hh, ?_⟩
    intro v hv
    obtain ⟨y, j, hj, hy, hyv⟩ := hist v hv
    exact ⟨y, j, by omega, hy, hyv⟩

theorem advLoop_exact (g : Graph α) (hinj : Function.Injective g.hash) (start dest : α) (c : AdvCfg α)
    (d : Nat) (hd : DistLayer g.nb [start] d dest)
    (hwide : ∀ (k : Nat) (L : List α), L.Nodup → (∀ x ∈ L, Reach g.nb [start] k x) → L.length ≤ c.beamWidth)
    (fuel : Nat) : ∀ (i : Nat) (beam : List α) (ring : Ring) (cyc : Nat),
    i < d → d ≤ i + fuel → AInv g start c i beam ring →
    ∃ r, advLoop g dest c fuel (i + 1) beam ring cyc = some r ∧ r.found = true ∧ r.length = d := by
  induction fuel with
  | zero => intro i _ _ _ h1 h2; omega
  | succ fuel ih =>
    intro i beam ring cyc hid hfuel inv
    rw [advLoop_succ]
    simp only []
    have hnewsub : ∀ x ∈ g.unique (g.neighbors beam), Reach g.nb [start] (i + 1) x := by
      intro x hx
      obtain ⟨y, hy, hxy⟩ := (mem_neighbors g beam x).1 (unique_subset g _ x hx)
      exact (reach_succ ..).2 ⟨y, inv.sub y hy, hxy⟩
    have hnewsup : ∀ x, DistLayer g.nb [start] (i + 1) x → x ∈ g.unique (g.neighbors beam) := by
      intro x hx
      obtain ⟨y, hy, hxy⟩ := distLayer_pred' g.nb [start] i x hx
      exact (mem_unique g hinj _ x).2 ((mem_neighbors g beam x).2 ⟨y, inv.sup y hy, hxy⟩)
    have hnewnd := unique_nodup g (g.neighbors beam)
    by_cases hlast : i + 1 = d
    · have : (g.unique (g.neighbors beam)).any (· == dest) = true := by
        simp only [List.any_eq_true, beq_iff_eq]
        exact ⟨dest, hnewsup dest (hlast ▸ hd), rfl⟩
      rw [if_pos this]
      exact ⟨_, rfl, rfl, hlast⟩
    · have hnd : ¬ ((g.unique (g.neighbors beam)).any (· == dest) = true) := by
        simp only [List.any_eq_true, beq_iff_eq, not_exists, not_and]
        intro x hx hxd
        subst hxd
        exact hd.2 (i + 1) (by omega) (hnewsub x hx)
      rw [if_neg hnd]
      -- the history filter keeps the whole distance class `i + 1`
      have hkeep : ∀ x, DistLayer g.nb [start] (i + 1) x → g.hash x ∉ ring.flatten := by
        intro x hx hmem
        obtain ⟨y, j, hj, hy, hyx⟩ := inv.hist _ hmem
        rw [hinj hyx] at hy
        exact hx.2 j (by omega) hy
      obtain ⟨z, hz⟩ := distLayer_nonempty_below g.nb [start] d dest hd (i + 1) (by omega)
      have hbeamlen : beam.length ≤ c.beamWidth := hwide i beam inv.nodup inv.sub
      have hnewlen : (g.unique (g.neighbors beam)).length ≤ c.beamWidth * g.nGens := by
        have h1 := length_unique_le g (g.neighbors beam)
        rw [length_neighbors] at h1
        have h2 : g.nGens * beam.length ≤ g.nGens * c.beamWidth := Nat.mul_le_mul_left _ hbeamlen
        rw [Nat.mul_comm c.beamWidth]; omega
      obtain ⟨kept, ring', cyc', hk, hksub, hksup, hshape', hhist'⟩ :=
        advKeep_exact g start c i (g.unique (g.neighbors beam)) ring cyc hnewsub
          (fun x _ hx => hkeep x hx) ⟨z, hnewsup z hz, hz⟩ hnewlen inv.shape inv.hist
      rw [hk]
      simp only []
      have hkn : kept.Nodup := hnewnd.sublist hksub
      have hkr : ∀ x ∈ kept, Reach g.nb [start] (i + 1) x := fun x hx => hnewsub x (hksub.subset hx)
      have hklen : kept.length ≤ c.beamWidth := hwide (i + 1) kept hkn hkr
      rw [if_neg (by omega)]
      exact ih (i + 1) kept ring' cyc' (by omega) (by omega)
        ⟨hkn, hkr, fun x hx => hksup x (hnewsup x hx) hx, hshape', hhist'⟩

theorem beamAdvanced_exact_unpruned' (g : Graph α) (hinj : Function.Injective g.hash) (start dest : α)
    (c : AdvCfg α) (d : Nat) (hd : DistLayer g.nb [start] d dest) (hsteps : d ≤ c.maxSteps)
    (hwide : ∀ (k : Nat) (L : List α), L.Nodup → (∀ x ∈ L, Reach g.nb [start] k x) → L.length ≤ c.beamWidth) :
    ∃ r, beamAdvanced g start dest c = some r ∧ r.found = true ∧ r.length = d := by
  unfold beamAdvanced
  by_cases hsd : start = dest
  · subst hsd
    have hd0 : d = 0 := by
      rcases Nat.eq_zero_or_pos d with h0 | h0
      · exact h0
      · exact absurd ((reach_zero ..).2 (by simp)) (hd.2 0 h0)
    simp [hd0]
  · have hne : ¬ ((start == dest) = true) := by simpa using hsd
    rw [if_neg hne]
    simp only []
    have hd1 : 0 < d := by
      rcases Nat.eq_zero_or_pos d with h0 | h0
      · subst h0
        have := hd.1
        rw [reach_zero, List.mem_singleton] at this
        exact absurd this.symm hsd
      · exact h0
    refine advLoop_exact g hinj start dest c d hd hwide c.maxSteps 0 [start] _ 0 hd1 (by omega) ?_
    refine ⟨by simp, ?_, ?_, ?_, ?_⟩
    · intro x hx; rw [reach_zero]; exact hx
    · intro x hx
      have := hx.1
      rwa [reach_zero] at this
    · intro hh
      rw [if_pos hh]
      refine ⟨by simp, ?_⟩
      intro col hcol
      rw [(List.mem_replicate.1 hcol).2]; simp
    · intro v hv
      split at hv
      · rw [List.mem_flatten] at hv
        obtain ⟨col, hcol, hvcol⟩ := hv
        rw [(List.mem_replicate.1 hcol).2] at hvcol
        exact ⟨start, 0, Nat.le_refl _, (reach_zero ..).2 (by simp), ((List.mem_replicate.1 hvcol).2).symm⟩
      · simp at hv

end AdvancedExact
end BW
end Cv
