/-
  ∀-n proofs about the closed-form n×n×n cube of `CvModel/Puzzles.lean`: every layer turn is a permutation of
  order exactly 4, moves exactly the stickers of its layer (minus an in-place rotating face centre), turns of one
  axis commute, the generator sets are inverse-closed.  Core Lean only.
-/
import CvModel.Puzzles
import CvProofs.Puzzles
namespace Cv.Puzzles
open Cv.Perm Cv.Gap

/-! ## sticker coordinates -/

/-- a sticker of the `n`-cube: cubie coordinates in range and lying on the face it names -/
def Valid (n : Nat) (s : Sticker) : Prop :=
  s.x < n ∧ s.y < n ∧ s.z < n ∧
  ((s.face = 0 ∧ s.y = 0) ∨ (s.face = 1 ∧ s.z = 0) ∨ (s.face = 2 ∧ s.x = n - 1) ∨
   (s.face = 3 ∧ s.z = n - 1) ∨ (s.face = 4 ∧ s.x = 0) ∨ (s.face = 5 ∧ s.y = n - 1))

/-- point `face * n² + row * n + col` -/
def pt3 (n F R C : Nat) : Nat := F * (n * n) + (R * n + C)

theorem pt3_facts (n F R C : Nat) (hR : R < n) (hC : C < n) :
    pt3 n F R C / (n * n) = F ∧ pt3 n F R C % (n * n) / n = R ∧ pt3 n F R C % n = C := by
  have hlt : R * n + C < n * n := pt_lt n n R C hR hC
  unfold pt3
  refine ⟨pt_div (n * n) F _ hlt, ?_, ?_⟩
  · rw [pt_mod (n * n) F _ hlt, pt_div n R C hC]
  · have : F * (n * n) + (R * n + C) = (F * n + R) * n + C := by
      rw [Nat.add_mul, Nat.mul_assoc, Nat.add_assoc]
    rw [this, pt_mod n _ C hC]

theorem pt3_lt (n F R C : Nat) (hF : F < 6) (hR : R < n) (hC : C < n) : pt3 n F R C < 6 * n * n := by
  have := pt_lt 6 (n * n) F (R * n + C) hF (pt_lt n n R C hR hC)
  rw [Nat.mul_assoc]
  exact this

/-- every point below `6 n²` is a `pt3` -/
theorem exists_pt3 (n i : Nat) (hi : i < 6 * n * n) :
    ∃ F R C, F < 6 ∧ R < n ∧ C < n ∧ i = pt3 n F R C := by
  have hn : 0 < n := by
    apply Nat.pos_of_ne_zero; intro h; subst h; simp at hi
  have hnn : 0 < n * n := Nat.mul_pos hn hn
  refine ⟨i / (n * n), i % (n * n) / n, i % (n * n) % n, ?_, ?_, Nat.mod_lt _ hn, ?_⟩
  · exact div_lt_rows 6 (n * n) i (by rw [← Nat.mul_assoc]; exact hi)
  · exact div_lt_rows n n _ (Nat.mod_lt _ hnn)
  · unfold pt3
    have h1 := Nat.div_add_mod i (n * n)
    have h2 := Nat.div_add_mod (i % (n * n)) n
    rw [Nat.mul_comm] at h1 h2
    omega

/-- the sticker at (face, row, col) -/
def mkSticker (n F R C : Nat) : Sticker :=
  match F with
  | 0 => ⟨0, C, 0, n - 1 - R⟩
  | 1 => ⟨1, C, R, 0⟩
  | 2 => ⟨2, n - 1, R, C⟩
  | 3 => ⟨3, n - 1 - C, R, n - 1⟩
  | 4 => ⟨4, 0, R, n - 1 - C⟩
  | _ => ⟨5, C, n - 1, R⟩

theorem stickerOf_pt3 (n F R C : Nat) (hR : R < n) (hC : C < n) :
    stickerOf n (pt3 n F R C) = mkSticker n F R C := by
  obtain ⟨h1, h2, h3⟩ := pt3_facts n F R C hR hC
  have : stickerOf n (pt3 n F R C) =
      mkSticker n (pt3 n F R C / (n * n)) (pt3 n F R C % (n * n) / n) (pt3 n F R C % n) := rfl
  rw [this, h1, h2, h3]

/-- (face, row, col) of a sticker -/
def rowOf (n : Nat) (s : Sticker) : Nat :=
  match s.face with
  | 0 => n - 1 - s.z
  | 5 => s.z
  | _ => s.y
def colOf (n : Nat) (s : Sticker) : Nat :=
  match s.face with
  | 2 => s.z
  | 3 => n - 1 - s.x
  | 4 => n - 1 - s.z
  | _ => s.x

theorem valid_cases {n : Nat} {s : Sticker} (h : Valid n s) :
    (s = ⟨0, s.x, 0, s.z⟩ ∨ s = ⟨1, s.x, s.y, 0⟩ ∨ s = ⟨2, n - 1, s.y, s.z⟩ ∨ s = ⟨3, s.x, s.y, n - 1⟩ ∨
      s = ⟨4, 0, s.y, s.z⟩ ∨ s = ⟨5, s.x, n - 1, s.z⟩) ∧ s.x < n ∧ s.y < n ∧ s.z < n := by
  obtain ⟨f, x, y, z⟩ := s
  obtain ⟨hx, hy, hz, hf⟩ := h
  simp only at hx hy hz hf
  refine ⟨?_, hx, hy, hz⟩
  simpa [Sticker.mk.injEq] using hf

theorem indexOf_eq (n : Nat) (s : Sticker) (h : Valid n s) :
    indexOf n s = pt3 n s.face (rowOf n s) (colOf n s) ∧ rowOf n s < n ∧ colOf n s < n ∧ s.face < 6 := by
  obtain ⟨f, x, y, z⟩ := s
  obtain ⟨hx, hy, hz, hf⟩ := h
  simp only at hx hy hz hf
  rcases hf with ⟨rfl, h⟩ | ⟨rfl, h⟩ | ⟨rfl, h⟩ | ⟨rfl, h⟩ | ⟨rfl, h⟩ | ⟨rfl, h⟩ <;>
    simp only [indexOf, pt3, rowOf, colOf] <;> omega

theorem mk_of_valid (n : Nat) (s : Sticker) (h : Valid n s) :
    mkSticker n s.face (rowOf n s) (colOf n s) = s := by
  obtain ⟨f, x, y, z⟩ := s
  obtain ⟨hx, hy, hz, hf⟩ := h
  simp only at hx hy hz hf
  rcases hf with ⟨rfl, h⟩ | ⟨rfl, h⟩ | ⟨rfl, h⟩ | ⟨rfl, h⟩ | ⟨rfl, h⟩ | ⟨rfl, h⟩ <;>
    simp only [mkSticker, rowOf, colOf, Sticker.mk.injEq, true_and, and_true] <;> omega

theorem stickerOf_indexOf (n : Nat) (s : Sticker) (h : Valid n s) :
    indexOf n s < 6 * n * n ∧ stickerOf n (indexOf n s) = s := by
  obtain ⟨e, hr, hc, hf⟩ := indexOf_eq n s h
  rw [e]
  refine ⟨pt3_lt n _ _ _ hf hr hc, ?_⟩
  rw [stickerOf_pt3 n _ _ _ hr hc]
  exact mk_of_valid n s h

theorem valid_mkSticker (n F R C : Nat) (hF : F < 6) (hR : R < n) (hC : C < n) :
    Valid n (mkSticker n F R C) ∧ indexOf n (mkSticker n F R C) = pt3 n F R C := by
  have hRR : n - 1 - (n - 1 - R) = R := by omega
  have hCC : n - 1 - (n - 1 - C) = C := by omega
  have : F = 0 ∨ F = 1 ∨ F = 2 ∨ F = 3 ∨ F = 4 ∨ F = 5 := by omega
  rcases this with rfl | rfl | rfl | rfl | rfl | rfl <;>
    simp only [mkSticker, Valid, indexOf, pt3, hRR, hCC] <;>
    exact ⟨⟨by omega, by omega, by omega, by simp⟩, by omega⟩

/-- every point below `6 n²` decodes to a valid sticker and encodes back -/
theorem indexOf_stickerOf (n i : Nat) (hi : i < 6 * n * n) :
    Valid n (stickerOf n i) ∧ indexOf n (stickerOf n i) = i := by
  obtain ⟨F, R, C, hF, hR, hC, rfl⟩ := exists_pt3 n i hi
  rw [stickerOf_pt3 n F R C hR hC]
  exact valid_mkSticker n F R C hF hR hC

/-! ## the rigid quarter turn -/

theorem quarter_valid (n : Nat) (ax : Axis) (s : Sticker) (h : Valid n s) : Valid n (quarter n ax s) := by
  obtain ⟨f, x, y, z⟩ := s
  obtain ⟨hx, hy, hz, hf⟩ := h
  simp only at hx hy hz hf
  rcases hf with ⟨rfl, h⟩ | ⟨rfl, h⟩ | ⟨rfl, h⟩ | ⟨rfl, h⟩ | ⟨rfl, h⟩ | ⟨rfl, h⟩ <;> cases ax <;>
    simp only [quarter, Valid] <;> exact ⟨by omega, by omega, by omega, by simp; try omega⟩

theorem quarter_layer (n : Nat) (ax : Axis) (j : Nat) (s : Sticker) (h : Valid n s) :
    inLayer n ax j (quarter n ax s) = inLayer n ax j s := by
  obtain ⟨f, x, y, z⟩ := s
  cases ax <;> simp only [quarter, inLayer]

theorem quarter_four (n : Nat) (ax : Axis) (s : Sticker) (h : Valid n s) :
    quarter n ax (quarter n ax (quarter n ax (quarter n ax s))) = s := by
  obtain ⟨f, x, y, z⟩ := s
  obtain ⟨hx, hy, hz, hf⟩ := h
  simp only at hx hy hz hf
  have e1 : n - 1 - (n - 1 - x) = x := by omega
  have e2 : n - 1 - (n - 1 - y) = y := by omega
  have e3 : n - 1 - (n - 1 - z) = z := by omega
  rcases hf with ⟨rfl, h⟩ | ⟨rfl, h⟩ | ⟨rfl, h⟩ | ⟨rfl, h⟩ | ⟨rfl, h⟩ | ⟨rfl, h⟩ <;> cases ax <;>
    simp only [quarter, e1, e2, e3]

/-- a sticker of the layer is fixed by the quarter turn iff it is the centre of a face perpendicular to the axis -/
theorem quarter_fixed_iff (n : Nat) (ax : Axis) (s : Sticker) (h : Valid n s) :
    quarter n ax s = s ↔ isAxisCentre n ax s = true := by
  obtain ⟨f, x, y, z⟩ := s
  obtain ⟨hx, hy, hz, hf⟩ := h
  simp only at hx hy hz hf
  rcases hf with ⟨rfl, h⟩ | ⟨rfl, h⟩ | ⟨rfl, h⟩ | ⟨rfl, h⟩ | ⟨rfl, h⟩ | ⟨rfl, h⟩ <;> cases ax <;>
    simp [quarter, isAxisCentre] <;> omega

/-! ## permutations of the sticker positions induced by maps on stickers -/

/-- the point map induced by a map on stickers -/
def onSt (n : Nat) (φ : Sticker → Sticker) (i : Nat) : Nat := indexOf n (φ (stickerOf n i))

/-- `φ` maps stickers of the `n`-cube to stickers of the `n`-cube -/
def StMap (n : Nat) (φ : Sticker → Sticker) : Prop := ∀ s, Valid n s → Valid n (φ s)

theorem onSt_lt {n : Nat} {φ : Sticker → Sticker} (h : StMap n φ) (i : Nat) (hi : i < 6 * n * n) :
    onSt n φ i < 6 * n * n :=
  (stickerOf_indexOf n _ (h _ (indexOf_stickerOf n i hi).1)).1

theorem stickerOf_onSt {n : Nat} {φ : Sticker → Sticker} (h : StMap n φ) (i : Nat) (hi : i < 6 * n * n) :
    stickerOf n (onSt n φ i) = φ (stickerOf n i) :=
  (stickerOf_indexOf n _ (h _ (indexOf_stickerOf n i hi).1)).2

theorem onSt_comp {n : Nat} {φ : Sticker → Sticker} (ψ : Sticker → Sticker) (h : StMap n φ) (i : Nat)
    (hi : i < 6 * n * n) : onSt n ψ (onSt n φ i) = onSt n (fun s => ψ (φ s)) i := by
  show indexOf n (ψ (stickerOf n (onSt n φ i))) = _
  rw [stickerOf_onSt h i hi]; rfl

theorem onSt_fixed (n : Nat) (φ : Sticker → Sticker) (i : Nat) (hi : i < 6 * n * n)
    (h : φ (stickerOf n i) = stickerOf n i) : onSt n φ i = i := by
  unfold onSt; rw [h]; exact (indexOf_stickerOf n i hi).2

theorem onSt_fixed_iff {n : Nat} {φ : Sticker → Sticker} (h : StMap n φ) (i : Nat) (hi : i < 6 * n * n) :
    onSt n φ i = i ↔ φ (stickerOf n i) = stickerOf n i := by
  constructor
  · intro e
    have := stickerOf_onSt h i hi
    rw [e] at this
    exact this.symm
  · exact onSt_fixed n φ i hi

/-- the layer turn on stickers -/
def turn (n : Nat) (ax : Axis) (j : Nat) (s : Sticker) : Sticker :=
  if inLayer n ax j s then quarter n ax s else s

theorem turn_stMap (n : Nat) (ax : Axis) (j : Nat) : StMap n (turn n ax j) := by
  intro s hs
  unfold turn
  split
  · exact quarter_valid n ax s hs
  · exact hs

theorem turn_layer (n : Nat) (ax : Axis) (j j' : Nat) (s : Sticker) (hs : Valid n s) :
    inLayer n ax j' (turn n ax j s) = inLayer n ax j' s := by
  unfold turn
  split
  · exact quarter_layer n ax j' s hs
  · rfl

theorem turn_four (n : Nat) (ax : Axis) (j : Nat) (s : Sticker) (hs : Valid n s) :
    turn n ax j (turn n ax j (turn n ax j (turn n ax j s))) = s := by
  by_cases hl : inLayer n ax j s = true
  · have v1 := quarter_valid n ax s hs
    have v2 := quarter_valid n ax _ v1
    have v3 := quarter_valid n ax _ v2
    have l1 : inLayer n ax j (quarter n ax s) = true := by rw [quarter_layer n ax j s hs]; exact hl
    have l2 : inLayer n ax j (quarter n ax (quarter n ax s)) = true := by
      rw [quarter_layer n ax j _ v1]; exact l1
    have l3 : inLayer n ax j (quarter n ax (quarter n ax (quarter n ax s))) = true := by
      rw [quarter_layer n ax j _ v2]; exact l2
    simp only [turn, hl, l1, l2, l3, if_true]
    exact quarter_four n ax s hs
  · simp only [turn, hl, if_false, Bool.false_eq_true]

theorem cubeMove_eq (n : Nat) (ax : Axis) (j : Nat) :
    cubeMove n ax j = ofFn (6 * n * n) (onSt n (turn n ax j)) := by
  unfold cubeMove
  apply ofFn_congr
  intro i hi
  simp only [onSt, turn]
  split
  · rfl
  · exact (indexOf_stickerOf n i hi).2.symm

/-- every layer turn is a permutation of the `6 n²` sticker positions; its inverse is the triple turn -/
theorem cubeMove_perm (n : Nat) (ax : Axis) (j : Nat) :
    IsPermOf (6 * n * n) (cubeMove n ax j) ∧
    inverse (cubeMove n ax j) =
      ofFn (6 * n * n) (onSt n fun s => turn n ax j (turn n ax j (turn n ax j s))) := by
  rw [cubeMove_eq]
  have h1 := turn_stMap n ax j
  have h3 : StMap n fun s => turn n ax j (turn n ax j (turn n ax j s)) :=
    fun s hs => h1 _ (h1 _ (h1 _ hs))
  have hgf : ∀ i, i < 6 * n * n →
      onSt n (fun s => turn n ax j (turn n ax j (turn n ax j s))) (onSt n (turn n ax j) i) = i := by
    intro i hi
    rw [onSt_comp _ h1 i hi]
    exact onSt_fixed n _ i hi (turn_four n ax j _ (indexOf_stickerOf n i hi).1)
  exact ⟨ofFn_isPerm _ _ _ (onSt_lt h1) hgf, inverse_ofFn _ _ _ (onSt_lt h1) hgf⟩

/-! ## order 4 -/

/-- a sticker of layer `j` that the half turn moves to another face -/
def witness (n : Nat) (ax : Axis) (j : Nat) : Sticker :=
  match ax with
  | .f => ⟨0, 0, 0, j⟩
  | .r => ⟨0, n - 1 - j, 0, 0⟩
  | .d => ⟨1, 0, n - 1 - j, 0⟩

theorem witness_facts (n : Nat) (ax : Axis) (j : Nat) (hj : j < n) :
    Valid n (witness n ax j) ∧ inLayer n ax j (witness n ax j) = true ∧
    (quarter n ax (quarter n ax (witness n ax j))).face ≠ (witness n ax j).face := by
  cases ax <;> simp only [witness, Valid, inLayer, quarter] <;>
    exact ⟨⟨by omega, by omega, by omega, by simp⟩, by simp, by decide⟩

theorem compose_cubeMove_sq (n : Nat) (ax : Axis) (j : Nat) :
    compose (cubeMove n ax j) (cubeMove n ax j) =
      ofFn (6 * n * n) (onSt n fun s => turn n ax j (turn n ax j s)) := by
  have h1 := turn_stMap n ax j
  rw [cubeMove_eq, compose_ofFn _ _ _ (onSt_lt h1)]
  apply ofFn_congr
  intro i hi
  exact onSt_comp _ h1 i hi

/-- every layer turn has order exactly 4 -/
theorem cubeMove_order4 (n : Nat) (ax : Axis) (j : Nat) (hj : j < n) :
    order4 (cubeMove n ax j) = true := by
  have h1 := turn_stMap n ax j
  have h2 : StMap n fun s => turn n ax j (turn n ax j s) := fun s hs => h1 _ (h1 _ hs)
  have hlen : (cubeMove n ax j).length = 6 * n * n := (cubeMove_perm n ax j).1.length_eq
  unfold order4
  simp only [hlen, compose_cubeMove_sq, Bool.and_eq_true, beq_iff_eq, bne_iff_ne, ne_eq]
  constructor
  · rw [compose_ofFn _ _ _ (onSt_lt h2), identity_eq_ofFn]
    apply ofFn_congr
    intro i hi
    rw [onSt_comp _ h2 i hi]
    exact onSt_fixed n _ i hi (turn_four n ax j _ (indexOf_stickerOf n i hi).1)
  · intro e
    obtain ⟨wv, wl, wf⟩ := witness_facts n ax j hj
    obtain ⟨hlt, hst⟩ := stickerOf_indexOf n _ wv
    have : (ofFn (6 * n * n) (onSt n fun s => turn n ax j (turn n ax j s))).getD (indexOf n (witness n ax j)) 0 =
        (identity (6 * n * n)).getD (indexOf n (witness n ax j)) 0 := by rw [e]
    rw [getD_ofFn _ _ _ hlt, identity_eq_ofFn, getD_ofFn _ _ _ hlt] at this
    have hfix := (onSt_fixed_iff h2 _ hlt).1 this
    rw [hst] at hfix
    have wl' : inLayer n ax j (quarter n ax (witness n ax j)) = true := by
      rw [quarter_layer n ax j _ wv]; exact wl
    simp only [turn, wl, wl', if_true] at hfix
    exact wf (congrArg Sticker.face hfix)

/-! ## support = layer -/

theorem cubeMove_getD (n : Nat) (ax : Axis) (j i : Nat) (hi : i < 6 * n * n) :
    (cubeMove n ax j).getD i 0 = onSt n (turn n ax j) i := by
  rw [cubeMove_eq, getD_ofFn _ _ _ hi]

/-- a layer turn moves exactly the stickers of its layer, except a face centre rotating in place -/
theorem cubeMove_support (n : Nat) (ax : Axis) (j : Nat) :
    supportOf (cubeMove n ax j) = cubeLayerMoved n ax j := by
  have hlen : (cubeMove n ax j).length = 6 * n * n := (cubeMove_perm n ax j).1.length_eq
  unfold supportOf cubeLayerMoved cubeLayer
  rw [hlen, List.filter_filter]
  apply List.filter_congr
  intro i hi
  have hi' : i < 6 * n * n := List.mem_range.1 hi
  have hv := (indexOf_stickerOf n i hi').1
  rw [cubeMove_getD n ax j i hi']
  by_cases hl : inLayer n ax j (stickerOf n i) = true
  · rw [hl, Bool.and_true]
    have hiff := onSt_fixed_iff (turn_stMap n ax j) i hi'
    simp only [turn, hl, if_true] at hiff
    rw [quarter_fixed_iff n ax _ hv] at hiff
    by_cases hc : isAxisCentre n ax (stickerOf n i) = true
    · rw [hc]; simp only [Bool.not_true, bne_eq_false_iff_eq]
      exact hiff.2 hc
    · have : isAxisCentre n ax (stickerOf n i) = false := by simpa using hc
      rw [this]; simp only [Bool.not_false, bne_iff_ne, ne_eq]
      intro e
      exact hc (hiff.1 (by simpa [turn, hl] using e))
  · have hl' : inLayer n ax j (stickerOf n i) = false := by simpa using hl
    rw [hl', Bool.and_false]
    simp only [bne_eq_false_iff_eq]
    exact onSt_fixed n _ i hi' (by simp [turn, hl'])

/-- … stated pointwise: position `i` is moved iff its sticker is in the layer and is not such a centre -/
theorem cubeMove_moved_iff (n : Nat) (ax : Axis) (j i : Nat) (hi : i < 6 * n * n) :
    (cubeMove n ax j).getD i 0 ≠ i ↔
      (inLayer n ax j (stickerOf n i) = true ∧ isAxisCentre n ax (stickerOf n i) = false) := by
  have h := cubeMove_support n ax j
  have hlen : (cubeMove n ax j).length = 6 * n * n := (cubeMove_perm n ax j).1.length_eq
  have : i ∈ supportOf (cubeMove n ax j) ↔ i ∈ cubeLayerMoved n ax j := by rw [h]
  rw [mem_supportOf, hlen] at this
  simp only [cubeLayerMoved, cubeLayer, List.mem_filter, List.mem_range, Bool.not_eq_eq_eq_not,
    Bool.not_true] at this
  constructor
  · intro hne
    have := this.1 ⟨hi, hne⟩
    exact ⟨this.1.2, this.2⟩
  · intro ⟨h1, h2⟩
    exact (this.2 ⟨⟨hi, h1⟩, h2⟩).2

/-! ## turns of one axis commute -/

theorem turn_comm (n : Nat) (ax : Axis) (j1 j2 : Nat) (s : Sticker) (hs : Valid n s) :
    turn n ax j1 (turn n ax j2 s) = turn n ax j2 (turn n ax j1 s) := by
  have q1 := quarter_layer n ax j1 s hs
  have q2 := quarter_layer n ax j2 s hs
  cases h1 : inLayer n ax j1 s <;> cases h2 : inLayer n ax j2 s <;>
    simp [turn, h1, h2, q1, q2]

theorem cubeMove_commute (n : Nat) (ax : Axis) (j1 j2 : Nat) :
    commute (cubeMove n ax j1) (cubeMove n ax j2) = true := by
  unfold commute
  rw [beq_iff_eq, cubeMove_eq, cubeMove_eq, compose_ofFn _ _ _ (onSt_lt (turn_stMap n ax j1)),
    compose_ofFn _ _ _ (onSt_lt (turn_stMap n ax j2))]
  apply ofFn_congr
  intro i hi
  rw [onSt_comp _ (turn_stMap n ax j1) i hi, onSt_comp _ (turn_stMap n ax j2) i hi]
  simp only [onSt]
  rw [turn_comm n ax j2 j1 _ (indexOf_stickerOf n i hi).1]

/-! ## inverse-closed generator sets -/

/-- the half turn is a permutation and its own inverse -/
theorem cubeMove_sq_perm (n : Nat) (ax : Axis) (j : Nat) :
    IsPermOf (6 * n * n) (compose (cubeMove n ax j) (cubeMove n ax j)) ∧
    inverse (compose (cubeMove n ax j) (cubeMove n ax j)) = compose (cubeMove n ax j) (cubeMove n ax j) := by
  have h1 := turn_stMap n ax j
  have h2 : StMap n fun s => turn n ax j (turn n ax j s) := fun s hs => h1 _ (h1 _ hs)
  rw [compose_cubeMove_sq]
  have hgf : ∀ i, i < 6 * n * n →
      onSt n (fun s => turn n ax j (turn n ax j s)) (onSt n (fun s => turn n ax j (turn n ax j s)) i) = i := by
    intro i hi
    rw [onSt_comp _ h2 i hi]
    exact onSt_fixed n _ i hi (turn_four n ax j _ (indexOf_stickerOf n i hi).1)
  exact ⟨ofFn_isPerm _ _ _ (onSt_lt h2) hgf, inverse_ofFn _ _ _ (onSt_lt h2) hgf⟩

theorem mem_cubeMoves (n : Nat) (m : String × List Nat) (h : m ∈ cubeMoves n) :
    ∃ ax j, j < n ∧ m.2 = cubeMove n ax j := by
  simp only [cubeMoves, List.mem_flatMap, List.mem_map, List.mem_range] at h
  obtain ⟨ax, _, j, hj, rfl⟩ := h
  exact ⟨ax, j, hj, rfl⟩

theorem mem_cubeOuterMoves (n : Nat) (m : String × List Nat) (h : m ∈ cubeOuterMoves n) :
    ∃ ax j, j < n ∧ m.2 = cubeMove n ax j := by
  simp only [cubeOuterMoves, List.mem_flatMap, List.mem_map, List.mem_filter, List.mem_range] at h
  obtain ⟨ax, _, j, ⟨hj, _⟩, rfl⟩ := h
  exact ⟨ax, j, hj, rfl⟩

theorem cubeQstm_inverse_closed (n : Nat) : isInverseClosedSet (cubeQstm n).gens = true := by
  rw [isInverseClosedSet_iff]
  intro g hg
  simp only [cubeQstm, List.mem_flatMap, List.mem_cons, List.not_mem_nil, or_false] at hg ⊢
  obtain ⟨m, hm, hg⟩ := hg
  obtain ⟨ax, j, _, e⟩ := mem_cubeMoves n m hm
  refine ⟨m, hm, ?_⟩
  rcases hg with rfl | rfl
  · exact Or.inr rfl
  · left; rw [e]; exact inverse_inverse _ _ (cubeMove_perm n ax j).1

theorem cubeQtm_inverse_closed (n : Nat) : isInverseClosedSet (cubeQtm n).gens = true := by
  rw [isInverseClosedSet_iff]
  intro g hg
  simp only [cubeQtm, List.mem_flatMap, List.mem_cons, List.not_mem_nil, or_false] at hg ⊢
  obtain ⟨m, hm, hg⟩ := hg
  obtain ⟨ax, j, _, e⟩ := mem_cubeOuterMoves n m hm
  refine ⟨m, hm, ?_⟩
  rcases hg with rfl | rfl
  · exact Or.inr rfl
  · left; rw [e]; exact inverse_inverse _ _ (cubeMove_perm n ax j).1

theorem cubeHtm_inverse_closed (n : Nat) : isInverseClosedSet (cubeHtm n).gens = true := by
  rw [isInverseClosedSet_iff]
  intro g hg
  simp only [cubeHtm, List.mem_flatMap, List.mem_cons, List.not_mem_nil, or_false] at hg ⊢
  obtain ⟨m, hm, hg⟩ := hg
  obtain ⟨ax, j, _, e⟩ := mem_cubeOuterMoves n m hm
  refine ⟨m, hm, ?_⟩
  rcases hg with rfl | rfl | rfl
  · exact Or.inr (Or.inl rfl)
  · left; rw [e]; exact inverse_inverse _ _ (cubeMove_perm n ax j).1
  · right; right; rw [e]; exact (cubeMove_sq_perm n ax j).2

/-- the decidable check `cubeCheck n` holds for EVERY `n` -/
theorem cubeCheck_all (n : Nat) : cubeCheck n = true := by
  unfold cubeCheck
  simp only [Bool.and_eq_true, List.all_eq_true, List.mem_range, beq_iff_eq, decide_eq_true_eq,
    cubeQstm_inverse_closed, cubeQtm_inverse_closed, cubeHtm_inverse_closed, and_true]
  intro ax _ j hj
  have hp := (cubeMove_perm n ax j).1
  refine ⟨⟨⟨⟨hp.length_eq, ?_⟩, cubeMove_order4 n ax j hj⟩, cubeMove_support n ax j⟩, ?_⟩
  · intro x hx; exact hp.lt x hx
  · intro j' _; exact cubeMove_commute n ax j j'

end Cv.Puzzles
