/-
  Path restoration (`restore_path`, `find_path_to`, `find_path_from`), the interactive BFS engine and the
  bidirectional set-to-set search (`find_path_between`).  Core Lean only.
-/
import CvModel.Paths
import CvProofs.Spec
import CvProofs.Tensor
namespace Cv

variable {α : Type}

/-- induction from the right end of a list -/
theorem list_snoc_induction {β : Type} {motive : List β → Prop} (nil : motive [])
    (snoc : ∀ l a, motive l → motive (l ++ [a])) (l : List β) : motive l := by
  have : ∀ r : List β, motive r.reverse := by
    intro r
    induction r with
    | nil => exact nil
    | cons a t ih => rw [List.reverse_cons]; exact snoc _ _ ih
  simpa using this l.reverse

/-! ### walks: generic facts -/

theorem Walk.cons {nb : α → List α} {n : Nat} {a b c : α} (hab : b ∈ nb a) (w : Walk nb n b c) :
    Walk nb (n+1) a c := by
  induction w with
  | nil => exact .snoc (.nil a) hab
  | snoc _ h ih => exact .snoc (ih hab) h

theorem Walk.append {nb : α → List α} {n m : Nat} {a b c : α} (w1 : Walk nb n a b) (w2 : Walk nb m b c) :
    Walk nb (n+m) a c := by
  induction w2 with
  | nil => exact w1
  | snoc _ h ih => exact .snoc (ih w1) h

theorem Walk.split {nb : α → List α} (n : Nat) {m : Nat} {a c : α} (w : Walk nb (n+m) a c) :
    ∃ b, Walk nb n a b ∧ Walk nb m b c := by
  induction m generalizing c with
  | zero => exact ⟨c, w, .nil c⟩
  | succ m ih =>
    cases w with
    | snoc w' h =>
      obtain ⟨b, w1, w2⟩ := ih w'
      exact ⟨b, w1, .snoc w2 h⟩

theorem walk_zero_iff {nb : α → List α} {a b : α} : Walk nb 0 a b ↔ a = b := by
  constructor
  · intro w; cases w; rfl
  · rintro rfl; exact .nil a

theorem walk_succ_iff {nb : α → List α} {n : Nat} {a c : α} :
    Walk nb (n+1) a c ↔ ∃ b, Walk nb n a b ∧ c ∈ nb b := by
  constructor
  · intro w; cases w with | snoc w h => exact ⟨_, w, h⟩
  · rintro ⟨b, w, h⟩; exact .snoc w h

/-- reversing every edge reverses every walk -/
theorem walk_reverse {nb nb' : α → List α} (hrev : ∀ x y, y ∈ nb x → x ∈ nb' y) {n : Nat} {a b : α}
    (w : Walk nb n a b) : Walk nb' n b a := by
  induction w with
  | nil => exact .nil _
  | snoc _ h ih => exact Walk.cons (hrev _ _ h) ih

/-- every reachable state has a well-defined distance class (generic version) -/
theorem reach_distLayer' (nb : α → List α) (S : List α) (n : Nat) (x : α) (h : Reach nb S n x) :
    ∃ j, j ≤ n ∧ DistLayer nb S j x := by
  induction n using Nat.strongRecOn with
  | _ n ih =>
    by_cases hex : ∃ j, j < n ∧ Reach nb S j x
    · obtain ⟨j, hj, hr⟩ := hex
      obtain ⟨j', hj', hd⟩ := ih j hj hr
      exact ⟨j', by omega, hd⟩
    · exact ⟨n, Nat.le_refl _, h, fun j hj hr => hex ⟨j, hj, hr⟩⟩

/-- a state of class `n+1` has a predecessor of class `n` (generic version) -/
theorem distLayer_pred' (nb : α → List α) (S : List α) (n : Nat) (x : α) (h : DistLayer nb S (n+1) x) :
    ∃ y, DistLayer nb S n y ∧ x ∈ nb y := by
  obtain ⟨hr, hmin⟩ := h
  obtain ⟨y, hy, hxy⟩ := (reach_succ ..).1 hr
  refine ⟨y, ⟨hy, ?_⟩, hxy⟩
  intro j hj hrj
  exact hmin (j+1) (by omega) ((reach_succ ..).2 ⟨y, hrj, hxy⟩)

theorem distLayer_idx_unique {nb : α → List α} {S : List α} {i j : Nat} {x : α}
    (hi : DistLayer nb S i x) (hj : DistLayer nb S j x) : i = j := by
  rcases Nat.lt_trichotomy i j with h | h | h
  · exact absurd hi.1 (hj.2 i h)
  · exact h
  · exact absurd hj.1 (hi.2 j h)

theorem distLayer_zero_iff (nb : α → List α) (S : List α) (x : α) : DistLayer nb S 0 x ↔ x ∈ S := by
  simp [DistLayer, reach_zero]

/-- the recurrence for distance classes: next class = neighbours of the current class not in any class so far -/
theorem distLayer_succ_iff (nb : α → List α) (S : List α) (k : Nat) (x : α) :
    DistLayer nb S (k+1) x ↔ (∃ y, DistLayer nb S k y ∧ x ∈ nb y) ∧ ∀ j, j ≤ k → ¬ DistLayer nb S j x := by
  constructor
  · intro h
    refine ⟨distLayer_pred' nb S k x h, ?_⟩
    intro j hj hd
    have := distLayer_idx_unique h hd
    omega
  · rintro ⟨⟨y, hy, hxy⟩, hno⟩
    refine ⟨(reach_succ ..).2 ⟨y, hy.1, hxy⟩, ?_⟩
    intro j hj hr
    obtain ⟨j', hj', hd⟩ := reach_distLayer' nb S j x hr
    exact hno j' (by omega) hd

/-- in an undirected graph a neighbour of a class-`k` state is not in a class below `k-1` -/
theorem distLayer_symm_lower {nb : α → List α} (hs : Symm nb) {S : List α} {k j : Nat} {x y : α}
    (hy : DistLayer nb S k y) (hxy : x ∈ nb y) (hx : DistLayer nb S j x) : k ≤ j + 1 := by
  have hr : Reach nb S (j+1) y := (reach_succ ..).2 ⟨x, hx.1, hs _ _ hxy⟩
  rcases Nat.lt_or_ge (j+1) k with hlt | hge
  · exact absurd hr (hy.2 _ hlt)
  · exact hge

/-- undirected graphs: next class = neighbours of the current class not in the last two classes -/
theorem distLayer_succ_iff_symm {nb : α → List α} (hs : Symm nb) (S : List α) (k : Nat) (x : α) :
    DistLayer nb S (k+1) x ↔
      (∃ y, DistLayer nb S k y ∧ x ∈ nb y) ∧ ∀ j, j ≤ k → k ≤ j + 1 → ¬ DistLayer nb S j x := by
  rw [distLayer_succ_iff]
  constructor
  · rintro ⟨h1, h2⟩; exact ⟨h1, fun j hj _ => h2 j hj⟩
  · rintro ⟨⟨y, hy, hxy⟩, h2⟩
    refine ⟨⟨y, hy, hxy⟩, fun j hj hd => h2 j hj ?_ hd⟩
    exact distLayer_symm_lower hs hy hxy hd

/-! ### graphs: neighbours, paths -/

theorem Graph.mem_nb (g : Graph α) (x y : α) : y ∈ g.nb x ↔ ∃ i, i < g.nGens ∧ g.act i x = y := by
  simp [Graph.nb, nbOf]

theorem applyPath_nil (act : Nat → α → α) (s : α) : applyPath act s [] = s := rfl

theorem applyPath_cons (act : Nat → α → α) (s : α) (i : Nat) (p : List Nat) :
    applyPath act s (i :: p) = applyPath act (act i s) p := rfl

theorem applyPath_append (act : Nat → α → α) (s : α) (p q : List Nat) :
    applyPath act s (p ++ q) = applyPath act (applyPath act s p) q := by
  simp [applyPath, List.foldl_append]

theorem applyPath_snoc (act : Nat → α → α) (s : α) (p : List Nat) (i : Nat) :
    applyPath act s (p ++ [i]) = act i (applyPath act s p) := by
  simp [applyPath_append, applyPath_cons, applyPath_nil]

/-- walk/path bridge: a walk of `n` edges is a list of `n` valid generator indices -/
theorem walk_iff_path (g : Graph α) (n : Nat) (a b : α) :
    Walk g.nb n a b ↔ ∃ p : List Nat, p.length = n ∧ (∀ i ∈ p, i < g.nGens) ∧ applyPath g.act a p = b := by
  constructor
  · intro w
    induction w with
    | nil => exact ⟨[], rfl, by simp, rfl⟩
    | snoc _ h ih =>
      obtain ⟨p, hl, hv, hp⟩ := ih
      obtain ⟨i, hi, hact⟩ := (g.mem_nb _ _).1 h
      refine ⟨p ++ [i], by simp [hl], ?_, ?_⟩
      · intro j hj
        rcases List.mem_append.1 hj with hj | hj
        · exact hv j hj
        · simp at hj; omega
      · rw [applyPath_snoc, hp, hact]
  · rintro ⟨p, hl, hv, hp⟩
    induction p using list_snoc_induction generalizing n b with
    | nil => subst hl; subst hp; exact .nil a
    | snoc p i ih =>
      subst hl; subst hp
      rw [applyPath_snoc]
      have hv' : ∀ j ∈ p, j < g.nGens := fun j hj => hv j (List.mem_append_left _ hj)
      have hi : i < g.nGens := hv i (by simp)
      have w := ih p.length _ rfl hv' rfl
      have : Walk g.nb (p.length + 1) a (g.act i (applyPath g.act a p)) :=
        .snoc w ((g.mem_nb _ _).2 ⟨i, hi, rfl⟩)
      simpa using this

theorem path_walk (g : Graph α) (a : α) (p : List Nat) (hv : ∀ i ∈ p, i < g.nGens) :
    Walk g.nb p.length a (applyPath g.act a p) :=
  (walk_iff_path g _ _ _).2 ⟨p, rfl, hv, rfl⟩

/-! ### the inverted copy -/

/-- `gi` is the inverted copy of `g`: same hasher, generator i of gi undoes generator i of g; hash collisions excluded -/
structure PathHyp (g gi : Graph α) : Prop where
  hashEq : gi.hash = g.hash
  nGens : gi.nGens = g.nGens
  inv : ∀ i, i < g.nGens → ∀ x, gi.act i (g.act i x) = x ∧ g.act i (gi.act i x) = x
  inj : Function.Injective g.hash

variable {g gi : Graph α}

theorem PathHyp.symm (h : PathHyp g gi) : PathHyp gi g where
  hashEq := h.hashEq.symm
  nGens := h.nGens.symm
  inv := fun i hi x => ⟨(h.inv i (h.nGens ▸ hi) x).2, (h.inv i (h.nGens ▸ hi) x).1⟩
  inj := h.hashEq ▸ h.inj

theorem PathHyp.edge (h : PathHyp g gi) (x y : α) : x ∈ gi.nb y ↔ y ∈ g.nb x := by
  rw [Graph.mem_nb, Graph.mem_nb, h.nGens]
  constructor
  · rintro ⟨i, hi, rfl⟩; exact ⟨i, hi, (h.inv i hi y).2⟩
  · rintro ⟨i, hi, rfl⟩; exact ⟨i, hi, (h.inv i hi x).1⟩

-- the reverse graph: walks in gi are reversed walks in g
theorem walk_inv (h : PathHyp g gi) (n : Nat) (x y : α) : Walk gi.nb n y x ↔ Walk g.nb n x y := by
  constructor
  · exact walk_reverse (fun a b hb => (h.edge b a).1 hb)
  · exact walk_reverse (fun a b hb => (h.edge a b).2 hb)

theorem PathHyp.symm_gi (h : PathHyp g gi) (hs : Symm g.nb) : Symm gi.nb := by
  intro x y hy
  exact (h.edge x y).2 (hs _ _ ((h.edge y x).1 hy))

/-- replaying a path backwards in the inverted copy undoes it -/
theorem applyPath_undo (h : PathHyp g gi) (p : List Nat) (hv : ∀ i ∈ p, i < g.nGens) (a : α) :
    applyPath gi.act (applyPath g.act a p) p.reverse = a := by
  induction p using list_snoc_induction with
  | nil => rfl
  | snoc p i ih =>
    have hv' : ∀ j ∈ p, j < g.nGens := fun j hj => hv j (List.mem_append_left _ hj)
    have hi : i < g.nGens := hv i (by simp)
    rw [List.reverse_append, applyPath_snoc]
    simp only [List.reverse_cons, List.reverse_nil, List.nil_append, List.cons_append, applyPath_cons]
    rw [(h.inv i hi _).1]
    exact ih hv'

/-! ### restore_path -/

/-- one layer of `restore_path`: the first generator of `gi` leading into the layer -/
def rpFind (gi : Graph α) (layer : List Int) (x : α) : Option Nat :=
  ((List.range gi.nGens).map fun i => gi.act i x).findIdx? (fun c => layer.contains (gi.hash c))

theorem rpFind_some {gi : Graph α} {layer : List Int} {x : α} {k : Nat} (hk : rpFind gi layer x = some k) :
    k < gi.nGens ∧ gi.hash (gi.act k x) ∈ layer ∧ ∀ j, j < k → gi.hash (gi.act j x) ∉ layer := by
  unfold rpFind at hk
  rw [List.findIdx?_eq_some_iff_getElem] at hk
  obtain ⟨hlt, hp, hmin⟩ := hk
  simp only [List.length_map, List.length_range] at hlt
  refine ⟨hlt, ?_, ?_⟩
  · simpa using hp
  · intro j hj
    have := hmin j hj
    simpa using this

theorem rpFind_none {gi : Graph α} {layer : List Int} {x : α} (hk : rpFind gi layer x = none) :
    ∀ j, j < gi.nGens → gi.hash (gi.act j x) ∉ layer := by
  unfold rpFind at hk
  rw [List.findIdx?_eq_none_iff] at hk
  intro j hj
  have := hk (gi.act j x) (List.mem_map.2 ⟨j, List.mem_range.2 hj, rfl⟩)
  simpa using this

/-- the fold of `restore_path` started from an arbitrary accumulator -/
def rpFold (gi : Graph α) (rev : List (List Int)) (acc : α × List Nat) : Option (α × List Nat) :=
  rev.foldlM (fun (acc : α × List Nat) (layer : List Int) =>
      let cands := (List.range gi.nGens).map fun i => gi.act i acc.1
      match cands.findIdx? (fun c => layer.contains (gi.hash c)) with
      | some k => some (gi.act k acc.1, k :: acc.2)
      | none => none) acc

theorem restorePath_eq_rpFold (gi : Graph α) (Hs : List (List Int)) (q : α) :
    restorePath gi Hs q = (rpFold gi Hs.reverse (q, [])).map (·.2) := rfl

theorem rpFold_nil (gi : Graph α) (acc : α × List Nat) : rpFold gi [] acc = some acc := rfl

theorem rpFold_cons (gi : Graph α) (H : List Int) (rev : List (List Int)) (acc : α × List Nat) :
    rpFold gi (H :: rev) acc =
      match rpFind gi H acc.1 with
      | some k => rpFold gi rev (gi.act k acc.1, k :: acc.2)
      | none => none := by
  unfold rpFold rpFind
  rw [List.foldlM_cons]
  dsimp only
  generalize ((List.range gi.nGens).map fun i => gi.act i acc.1).findIdx? (fun c => H.contains (gi.hash c)) = o
  cases o <;> rfl

/-- the accumulated path is only ever extended at the front -/
theorem rpFold_acc (gi : Graph α) (rev : List (List Int)) (x : α) (acc : List Nat) :
    rpFold gi rev (x, acc) = (rpFold gi rev (x, [])).map fun r => (r.1, r.2 ++ acc) := by
  induction rev generalizing x acc with
  | nil => simp [rpFold_nil]
  | cons H rev ih =>
    rw [rpFold_cons, rpFold_cons]
    cases rpFind gi H x with
    | none => rfl
    | some k =>
      simp only
      rw [ih (gi.act k x) (k :: acc), ih (gi.act k x) [k]]
      cases rpFold gi rev (gi.act k x, []) <;> simp

theorem restorePath_nil (gi : Graph α) (q : α) : restorePath gi [] q = some [] := rfl

/-- recursive characterisation of `restore_path`: handle the last layer, then the rest from the chosen predecessor -/
theorem restorePath_snoc (gi : Graph α) (Hs : List (List Int)) (H : List Int) (q : α) :
    restorePath gi (Hs ++ [H]) q =
      match rpFind gi H q with
      | some k => (restorePath gi Hs (gi.act k q)).map (· ++ [k])
      | none => none := by
  rw [restorePath_eq_rpFold, List.reverse_append, List.reverse_singleton, List.singleton_append, rpFold_cons]
  cases rpFind gi H q with
  | none => rfl
  | some k =>
    simp only
    rw [rpFold_acc, restorePath_eq_rpFold]
    cases rpFold gi Hs.reverse (gi.act k q, []) <;> simp

/-- General soundness/completeness of `restore_path` for a chain of layers described by predicates `Good j`:
every hash in layer `j` is the hash of a `Good j` state and vice versa, and every `Good (j+1)` state has a
`Good j` predecessor in `g`.  Then from any `Good Hs.length` state the walk back succeeds and yields a valid
path of length `Hs.length` from some `Good 0` state. -/
theorem restorePath_chain (h : PathHyp g gi) (Good : Nat → α → Prop) (Hs : List (List Int))
    (hpred : ∀ j x, j < Hs.length → Good (j+1) x → ∃ y, Good j y ∧ x ∈ g.nb y)
    (hmem : ∀ j H, Hs[j]? = some H → ∀ x, g.hash x ∈ H ↔ Good j x)
    (q : α) (hq : Good Hs.length q) :
    ∃ p, restorePath gi Hs q = some p ∧ p.length = Hs.length ∧ (∀ i ∈ p, i < g.nGens) ∧
      ∃ c, Good 0 c ∧ applyPath g.act c p = q := by
  induction Hs using list_snoc_induction generalizing q with
  | nil => exact ⟨[], rfl, rfl, by simp, q, hq, rfl⟩
  | snoc Hs H ih =>
    have hlen : (Hs ++ [H]).length = Hs.length + 1 := by simp
    rw [hlen] at hq
    have hH : ∀ x, g.hash x ∈ H ↔ Good Hs.length x := hmem Hs.length H (by simp)
    obtain ⟨y, hy, hqy⟩ := hpred Hs.length q (by omega) hq
    obtain ⟨i, hi, hact⟩ := (g.mem_nb _ _).1 hqy
    have hyq : gi.act i q = y := by rw [← hact]; exact (h.inv i hi y).1
    rw [restorePath_snoc]
    cases hf : rpFind gi H q with
    | none =>
      exfalso
      have := rpFind_none hf i (h.nGens ▸ hi)
      rw [h.hashEq, hyq] at this
      exact this ((hH y).2 hy)
    | some k =>
      obtain ⟨hk, hkm, -⟩ := rpFind_some hf
      rw [h.nGens] at hk
      rw [h.hashEq] at hkm
      have hgk : Good Hs.length (gi.act k q) := (hH _).1 hkm
      obtain ⟨p, hp, hpl, hpv, c, hc, hcp⟩ := ih
        (fun j x hj => hpred j x (by omega))
        (fun j H' hj => hmem j H' (by
          rw [List.getElem?_append_left (by
            rcases Nat.lt_or_ge j Hs.length with hlt | hge
            · exact hlt
            · rw [List.getElem?_eq_none hge] at hj; cases hj)]
          exact hj))
        (gi.act k q) hgk
      refine ⟨p ++ [k], by simp [hp], by simp [hpl], ?_, c, hc, ?_⟩
      · intro j hj
        rcases List.mem_append.1 hj with hj | hj
        · exact hpv j hj
        · simp at hj; omega
      · rw [applyPath_snoc, hcp]; exact (h.inv k hk q).2

/-- `Hs` are per-layer hashes of the ball around `c`: layer i holds exactly the hashes of distance class i, sorted -/
def IsBall (g : Graph α) (c : α) (Hs : List (List Int)) : Prop :=
  ∀ i H, Hs[i]? = some H →
    H.Pairwise (· < ·) ∧ ∃ L : List α, L.Nodup ∧ (∀ x, x ∈ L ↔ DistLayer g.nb [c] i x) ∧ H.Perm (L.map g.hash)

/-- the same for a list of start states -/
def IsBallS (g : Graph α) (S : List α) (Hs : List (List Int)) : Prop :=
  ∀ i H, Hs[i]? = some H →
    H.Pairwise (· < ·) ∧ ∃ L : List α, L.Nodup ∧ (∀ x, x ∈ L ↔ DistLayer g.nb S i x) ∧ H.Perm (L.map g.hash)

theorem isBall_iff_isBallS (g : Graph α) (c : α) (Hs : List (List Int)) : IsBall g c Hs ↔ IsBallS g [c] Hs := Iff.rfl

theorem IsBallS.mem_iff {S : List α} {Hs : List (List Int)} (hinj : Function.Injective g.hash)
    (hb : IsBallS g S Hs) {i : Nat} {H : List Int} (hi : Hs[i]? = some H) (x : α) :
    g.hash x ∈ H ↔ DistLayer g.nb S i x := by
  obtain ⟨-, L, -, hL, hperm⟩ := hb i H hi
  rw [hperm.mem_iff, ← hL, List.mem_map]
  constructor
  · rintro ⟨y, hy, hxy⟩; rwa [← hinj hxy]
  · intro hx; exact ⟨x, hx, rfl⟩

theorem IsBallS.take {S : List α} {Hs : List (List Int)} (hb : IsBallS g S Hs) (n : Nat) :
    IsBallS g S (Hs.take n) := by
  intro i H hi
  rw [List.getElem?_take] at hi
  split at hi
  · exact hb i H hi
  · cases hi

/-- `restore_path` from a class-`|Hs|` state through the layers of a multi-source ball -/
theorem restorePath_specS (h : PathHyp g gi) (S : List α) (Hs : List (List Int)) (hb : IsBallS g S Hs)
    (q : α) (hq : DistLayer g.nb S Hs.length q) :
    ∃ p, restorePath gi Hs q = some p ∧ p.length = Hs.length ∧ (∀ i ∈ p, i < g.nGens) ∧
      ∃ c, c ∈ S ∧ applyPath g.act c p = q := by
  obtain ⟨p, hp, hl, hv, c, hc, hcp⟩ := restorePath_chain h (fun j x => DistLayer g.nb S j x) Hs
    (fun j x _ hx => distLayer_pred' g.nb S j x hx)
    (fun j H hj x => hb.mem_iff h.inj hj x) q hq
  exact ⟨p, hp, hl, hv, c, (distLayer_zero_iff ..).1 hc, hcp⟩

/-- core: walking back through layers 0..k-1 from a state of class k yields a valid shortest path -/
theorem restorePath_spec (h : PathHyp g gi) (c : α) (Hs : List (List Int)) (hb : IsBall g c Hs)
    (q : α) (hq : DistLayer g.nb [c] Hs.length q) :
    ∃ p, restorePath gi Hs q = some p ∧ p.length = Hs.length ∧ (∀ i ∈ p, i < g.nGens) ∧ applyPath g.act c p = q := by
  obtain ⟨p, hp, hl, hv, c', hc, hcp⟩ := restorePath_specS h [c] Hs hb q hq
  simp only [List.mem_singleton] at hc
  subst hc
  exact ⟨p, hp, hl, hv, hcp⟩

/-! ### find_path_to -/

theorem IsBallS.sorted {S : List α} {Hs : List (List Int)} (hb : IsBallS g S Hs) {i : Nat} {H : List Int}
    (hi : Hs[i]? = some H) : H.Pairwise (· ≤ ·) :=
  (hb i H hi).1.imp (fun h => Int.le_of_lt h)

/-- `find_path_to` on a multi-source ball -/
theorem findPathTo_specS (h : PathHyp g gi) (S : List α) (Hs : List (List Int)) (hb : IsBallS g S Hs) (q : α) :
    match findPathTo g gi Hs q with
    | .found p => (∃ c, c ∈ S ∧ applyPath g.act c p = q) ∧ DistLayer g.nb S p.length q ∧ p.length < Hs.length ∧
        ∀ i ∈ p, i < g.nGens
    | .notFound => ∀ i, i < Hs.length → ¬ DistLayer g.nb S i q
    | .assertFail _ => False := by
  unfold findPathTo
  cases hf : Hs.findIdx? (fun layer => isinSorted layer (g.hash q)) with
  | none =>
    simp only
    rw [List.findIdx?_eq_none_iff] at hf
    intro i hi hd
    have hget : Hs[i]? = some Hs[i] := List.getElem?_eq_getElem hi
    have hmem := (hb.mem_iff h.inj hget q).2 hd
    have := hf Hs[i] (List.getElem_mem hi)
    rw [(isinSorted_iff _ (hb.sorted hget) _).2 hmem] at this
    cases this
  | some i =>
    simp only
    rw [List.findIdx?_eq_some_iff_getElem] at hf
    obtain ⟨hi, hp, -⟩ := hf
    have hget : Hs[i]? = some Hs[i] := List.getElem?_eq_getElem hi
    have hd : DistLayer g.nb S i q :=
      (hb.mem_iff h.inj hget q).1 ((isinSorted_iff _ (hb.sorted hget) _).1 hp)
    have hlen : (Hs.take i).length = i := by rw [List.length_take]; omega
    obtain ⟨p, hp, hl, hv, hc⟩ := restorePath_specS h S (Hs.take i) (hb.take i) q (by rw [hlen]; exact hd)
    rw [hp]
    simp only
    rw [hl, hlen]
    exact ⟨hc, hd, hi, hv⟩

/-- find_path_to: a path iff the state is in layers 0..D; the path is valid and shortest; the assertion is unreachable -/
theorem findPathTo_spec (h : PathHyp g gi) (c : α) (Hs : List (List Int)) (hb : IsBall g c Hs) (q : α) :
    match findPathTo g gi Hs q with
    | .found p => applyPath g.act c p = q ∧ DistLayer g.nb [c] p.length q ∧ p.length < Hs.length ∧ ∀ i ∈ p, i < g.nGens
    | .notFound => ∀ i, i < Hs.length → ¬ DistLayer g.nb [c] i q
    | .assertFail _ => False := by
  have := findPathTo_specS h [c] Hs hb q
  cases hr : findPathTo g gi Hs q with
  | found p =>
    rw [hr] at this
    simp only at this ⊢
    obtain ⟨⟨c', hc', hcp⟩, h2, h3, h4⟩ := this
    simp only [List.mem_singleton] at hc'
    subst hc'
    exact ⟨hcp, h2, h3, h4⟩
  | notFound => rw [hr] at this; exact this
  | assertFail m => rw [hr] at this; exact this

/-! ### revert_path, find_path_from -/

/-- `invMap` is a correct inverse map: generator `m[i]` undoes generator `i` -/
def IsInvMap (g : Graph α) (m : List Nat) : Prop :=
  m.length = g.nGens ∧ ∀ i, i < g.nGens → ∃ j, m[i]? = some j ∧ j < g.nGens ∧ ∀ x, g.act j (g.act i x) = x

/-- reverting a valid path A→B gives a valid path B→A of the same length -/
theorem revertPathM_spec (g : Graph α) (m : List Nat) (hm : IsInvMap g m) (p : List Nat) (hp : ∀ i ∈ p, i < g.nGens) (A : α) :
    ∃ r, revertPathM (some m) p = some r ∧ r.length = p.length ∧ (∀ i ∈ r, i < g.nGens) ∧
         applyPath g.act (applyPath g.act A p) r = A := by
  unfold revertPathM
  simp only
  induction p using list_snoc_induction with
  | nil => exact ⟨[], rfl, rfl, by simp, rfl⟩
  | snoc p i ih =>
    have hv' : ∀ j ∈ p, j < g.nGens := fun j hj => hp j (List.mem_append_left _ hj)
    have hi : i < g.nGens := hp i (by simp)
    obtain ⟨r, hr, hrl, hrv, hra⟩ := ih hv'
    obtain ⟨j, hj, hjn, hju⟩ := hm.2 i hi
    refine ⟨j :: r, ?_, by simp [hrl], ?_, ?_⟩
    · rw [List.reverse_append, List.reverse_singleton, List.singleton_append, List.mapM_cons, hj, hr]
      rfl
    · intro k hk
      rcases List.mem_cons.1 hk with rfl | hk
      · exact hjn
      · exact hrv k hk
    · rw [applyPath_snoc, applyPath_cons, hju]; exact hra

/-- `find_path_from` on a multi-source ball (inverse-closed generators) -/
theorem findPathFrom_specS (h : PathHyp g gi) (hic : g.invClosed = true) (m : List Nat) (hm : IsInvMap g m)
    (S : List α) (Hs : List (List Int)) (hb : IsBallS g S Hs) (q : α) :
    match findPathFrom g gi (some m) Hs q with
    | .found p => applyPath g.act q p ∈ S ∧ DistLayer g.nb S p.length q ∧ p.length < Hs.length ∧
        ∀ i ∈ p, i < g.nGens
    | .notFound => ∀ i, i < Hs.length → ¬ DistLayer g.nb S i q
    | .assertFail _ => False := by
  have := findPathTo_specS h S Hs hb q
  unfold findPathFrom
  rw [hic]
  simp only [Bool.not_true, Bool.false_eq_true, if_false]
  cases hr : findPathTo g gi Hs q with
  | found p =>
    rw [hr] at this
    simp only at this ⊢
    obtain ⟨⟨c, hc, hcp⟩, h2, h3, h4⟩ := this
    obtain ⟨r, hrr, hrl, hrv, hra⟩ := revertPathM_spec g m hm p h4 c
    rw [hrr]
    simp only
    rw [hrl]
    refine ⟨?_, h2, h3, hrv⟩
    rw [← hcp, hra]; exact hc
  | notFound => rw [hr] at this; exact this
  | assertFail m => rw [hr] at this; exact this

/-- find_path_from (inverse-closed generators): valid shortest path from the state to the central state -/
theorem findPathFrom_spec (h : PathHyp g gi) (hic : g.invClosed = true) (m : List Nat) (hm : IsInvMap g m)
    (c : α) (Hs : List (List Int)) (hb : IsBall g c Hs) (q : α) :
    match findPathFrom g gi (some m) Hs q with
    | .found p => applyPath g.act q p = c ∧ DistLayer g.nb [c] p.length q ∧ p.length < Hs.length
    | .notFound => ∀ i, i < Hs.length → ¬ DistLayer g.nb [c] i q
    | .assertFail _ => False := by
  have := findPathFrom_specS h hic m hm [c] Hs hb q
  cases hr : findPathFrom g gi (some m) Hs q with
  | found p =>
    rw [hr] at this
    simp only [List.mem_singleton] at this ⊢
    exact ⟨this.1, this.2.1, this.2.2.1⟩
  | notFound => rw [hr] at this; exact this
  | assertFail m => rw [hr] at this; exact this

/-- the paths returned by `find_path_from` use valid generator indices (not part of the requested statement) -/
theorem findPathFrom_valid (h : PathHyp g gi) (hic : g.invClosed = true) (m : List Nat) (hm : IsInvMap g m)
    (c : α) (Hs : List (List Int)) (hb : IsBall g c Hs) (q : α) (p : List Nat)
    (hp : findPathFrom g gi (some m) Hs q = .found p) : ∀ i ∈ p, i < g.nGens := by
  have := findPathFrom_specS h hic m hm [c] Hs hb q
  rw [hp] at this
  exact this.2.2.2

/-! ### InteractiveBfs -/

structure IHyp (g : Graph α) : Prop where
  inj : Function.Injective g.hash
  symm : g.invClosed = true → Symm g.nb

def IBfs.iter (g : Graph α) (b : IBfs α) : Nat → IBfs α
  | 0 => b
  | k+1 => (IBfs.iter g b k).step g

theorem Graph.mem_neighbors (g : Graph α) (xs : List α) (x : α) :
    x ∈ g.neighbors xs ↔ ∃ y, y ∈ xs ∧ x ∈ g.nb y := by
  simp only [Graph.neighbors, List.mem_flatMap, List.mem_range, List.mem_map, Graph.mem_nb]
  constructor
  · rintro ⟨i, hi, y, hy, rfl⟩; exact ⟨y, hy, i, hi, rfl⟩
  · rintro ⟨y, hy, i, hi, rfl⟩; exact ⟨i, hi, y, hy, rfl⟩

theorem Graph.mem_unique (g : Graph α) (hinj : Function.Injective g.hash) (xs : List α) (x : α) :
    x ∈ g.unique xs ↔ x ∈ xs :=
  uniqueStates_mem g.hash xs (fun _ _ _ _ e => hinj e) x

/-- which layers `_remove_seen_states` consults -/
theorem mem_seenLayers (hashes : List (List Int)) (ic : Bool) (s : List Int) :
    s ∈ hashes.drop (hashes.length - 2) ++ (if ic then [] else hashes.take (hashes.length - 2)) ↔
      ∃ j, hashes[j]? = some s ∧ (ic = true → hashes.length - 2 ≤ j) := by
  rw [List.mem_append]
  constructor
  · rintro (hs | hs)
    · obtain ⟨j, hj, rfl⟩ := List.mem_drop_iff_getElem.1 hs
      exact ⟨hashes.length - 2 + j, List.getElem?_eq_getElem _, fun _ => by omega⟩
    · cases ic with
      | true => simp at hs
      | false =>
        simp only [Bool.false_eq_true, if_false] at hs
        obtain ⟨j, hj, rfl⟩ := List.mem_take_iff_getElem.1 hs
        exact ⟨j, List.getElem?_eq_getElem _, by simp⟩
  · rintro ⟨j, hj, hic⟩
    obtain ⟨hlt, rfl⟩ := List.getElem?_eq_some_iff.1 hj
    rcases Nat.lt_or_ge j (hashes.length - 2) with hlo | hhi
    · right
      cases ic with
      | true => have := hic rfl; omega
      | false =>
        simp only [Bool.false_eq_true, if_false]
        exact List.mem_take_iff_getElem.2 ⟨j, by omega, rfl⟩
    · left
      refine List.mem_drop_iff_getElem.2 ⟨j - (hashes.length - 2), by omega, ?_⟩
      congr 1; omega

/-- invariant of the interactive BFS after `k` steps -/
structure IInv (g : Graph α) (S : List α) (k : Nat) (b : IBfs α) : Prop where
  nodup : b.cur.Nodup
  cur : ∀ x, x ∈ b.cur ↔ DistLayer g.nb S k x
  len : b.hashes.length = k + 1
  layers : ∀ i H, b.hashes[i]? = some H → H.Pairwise (· < ·) ∧
      ∃ L : List α, L.Nodup ∧ (∀ x, x ∈ L ↔ DistLayer g.nb S i x) ∧ H = L.map g.hash
  last : b.hashes.getLast? = some (b.cur.map g.hash)

theorem IInv.mem_layer {S : List α} {k : Nat} {b : IBfs α} (hinj : Function.Injective g.hash)
    (hI : IInv g S k b) {i : Nat} {H : List Int} (hi : b.hashes[i]? = some H) (x : α) :
    g.hash x ∈ H ↔ DistLayer g.nb S i x := by
  obtain ⟨-, L, -, hL, rfl⟩ := hI.layers i H hi
  rw [← hL, List.mem_map]
  constructor
  · rintro ⟨y, hy, hxy⟩; rwa [← hinj hxy]
  · intro hx; exact ⟨x, hx, rfl⟩

theorem IInv.isin_layer {S : List α} {k : Nat} {b : IBfs α} (hinj : Function.Injective g.hash)
    (hI : IInv g S k b) {i : Nat} {H : List Int} (hi : b.hashes[i]? = some H) (x : α) :
    isinSorted H (g.hash x) = true ↔ DistLayer g.nb S i x := by
  rw [isinSorted_iff _ ((hI.layers i H hi).1.imp (fun h => Int.le_of_lt h)), hI.mem_layer hinj hi]

theorem IInv.isBallS {S : List α} {k : Nat} {b : IBfs α} (hI : IInv g S k b) : IsBallS g S b.hashes := by
  intro i H hi
  obtain ⟨hs, L, hn, hL, rfl⟩ := hI.layers i H hi
  exact ⟨hs, L, hn, hL, List.Perm.refl _⟩

theorem IInv.notSeen_iff {S : List α} {k : Nat} {b : IBfs α} (hinj : Function.Injective g.hash)
    (hI : IInv g S k b) (x : α) :
    b.notSeen g (g.hash x) = true ↔
      ∀ j, j ≤ k → (g.invClosed = true → k ≤ j + 1) → ¬ DistLayer g.nb S j x := by
  unfold IBfs.notSeen
  simp only [List.all_eq_true, mem_seenLayers]
  have hlen := hI.len
  constructor
  · intro hall j hj hic hd
    have hlt : j < b.hashes.length := by rw [hI.len]; omega
    have hget : b.hashes[j]? = some b.hashes[j] := List.getElem?_eq_getElem hlt
    have := hall b.hashes[j] ⟨j, hget, fun e => by have := hic e; omega⟩
    rw [(hI.isin_layer hinj hget x).2 hd] at this
    cases this
  · rintro hall s ⟨j, hj, hic⟩
    have hlt : j < k + 1 := by
      rw [← hI.len]; exact (List.getElem?_eq_some_iff.1 hj).1
    cases hin : isinSorted s (g.hash x) with
    | false => rfl
    | true =>
      exfalso
      exact hall j (by omega) (fun e => by have := hic e; omega) ((hI.isin_layer hinj hj x).1 hin)

theorem iinv_init (h : IHyp g) (S : List α) : IInv g S 0 (IBfs.init g S) where
  nodup := uniqueStates_nodup g.hash S
  cur := fun x => by
    rw [distLayer_zero_iff]; exact g.mem_unique h.inj S x
  len := rfl
  layers := by
    intro i H hi
    have : i = 0 ∧ H = (g.unique S).map g.hash := by
      cases i with
      | zero => simp [IBfs.init] at hi; exact ⟨rfl, hi.symm⟩
      | succ i => simp [IBfs.init] at hi
    obtain ⟨rfl, rfl⟩ := this
    refine ⟨uniqueStates_keys_strict g.hash S, g.unique S, uniqueStates_nodup g.hash S, ?_, rfl⟩
    intro x
    rw [distLayer_zero_iff]; exact g.mem_unique h.inj S x
  last := rfl

theorem iinv_step (h : IHyp g) (S : List α) (k : Nat) (b : IBfs α) (hI : IInv g S k b) :
    IInv g S (k+1) (b.step g) := by
  have hsub : ((g.unique (g.neighbors b.cur)).filter fun x => b.notSeen g (g.hash x)).Sublist
      (g.unique (g.neighbors b.cur)) := List.filter_sublist
  have hnd : ((g.unique (g.neighbors b.cur)).filter fun x => b.notSeen g (g.hash x)).Nodup :=
    hsub.nodup (uniqueStates_nodup g.hash _)
  have hsorted : (((g.unique (g.neighbors b.cur)).filter fun x => b.notSeen g (g.hash x)).map g.hash).Pairwise
      (· < ·) := (uniqueStates_keys_strict g.hash _).sublist (hsub.map g.hash)
  have hcur : ∀ x, x ∈ ((g.unique (g.neighbors b.cur)).filter fun x => b.notSeen g (g.hash x)) ↔
      DistLayer g.nb S (k+1) x := by
    intro x
    rw [List.mem_filter, g.mem_unique h.inj, g.mem_neighbors, hI.notSeen_iff h.inj]
    have hex : (∃ y, y ∈ b.cur ∧ x ∈ g.nb y) ↔ ∃ y, DistLayer g.nb S k y ∧ x ∈ g.nb y := by
      constructor
      · rintro ⟨y, hy, hxy⟩; exact ⟨y, (hI.cur y).1 hy, hxy⟩
      · rintro ⟨y, hy, hxy⟩; exact ⟨y, (hI.cur y).2 hy, hxy⟩
    rw [hex]
    cases hic : g.invClosed with
    | false =>
      rw [distLayer_succ_iff]
      simp
    | true =>
      rw [distLayer_succ_iff_symm (h.symm hic)]
      simp
  refine ⟨hnd, hcur, ?_, ?_, ?_⟩
  · simp [IBfs.step, hI.len]
  · intro i H hi
    simp only [IBfs.step] at hi
    rcases Nat.lt_or_ge i b.hashes.length with hlt | hge
    · rw [List.getElem?_append_left hlt] at hi
      exact hI.layers i H hi
    · rw [List.getElem?_append_right hge] at hi
      have hi0 : i - b.hashes.length = 0 := by
        rcases Nat.eq_zero_or_pos (i - b.hashes.length) with h0 | hpos
        · exact h0
        · rw [List.getElem?_eq_none (by simp; omega)] at hi; cases hi
      rw [hi0] at hi
      simp only [List.getElem?_cons_zero, Option.some.injEq] at hi
      have hik : i = k + 1 := by rw [hI.len] at hge hi0; omega
      subst hik
      subst hi
      exact ⟨hsorted, _, hnd, hcur, rfl⟩
  · simp only [IBfs.step]
    exact List.getLast?_concat

theorem iinv_iter (h : IHyp g) (S : List α) (k : Nat) : IInv g S k (IBfs.iter g (IBfs.init g S) k) := by
  induction k with
  | zero => exact iinv_init h S
  | succ k ih => exact iinv_step h S k _ ih

theorem ibfs_layers (h : IHyp g) (S : List α) (k : Nat) :
    let b := IBfs.iter g (IBfs.init g S) k
    b.cur.Nodup ∧ (∀ x, x ∈ b.cur ↔ DistLayer g.nb S k x) ∧ b.hashes.length = k + 1 ∧
    (∀ i H, b.hashes[i]? = some H → H.Pairwise (· < ·) ∧
        ∃ L : List α, L.Nodup ∧ (∀ x, x ∈ L ↔ DistLayer g.nb S i x) ∧ H = L.map g.hash) ∧
    b.hashes.getLast? = some (b.cur.map g.hash) := by
  have hI := iinv_iter h S k
  exact ⟨hI.nodup, hI.cur, hI.len, hI.layers, hI.last⟩

/-! ### find_path_between

The search never relies on the layers being the exact distance classes: it is enough that layer `i` of each
engine contains the whole distance class `i`, contains only states reachable by walks of exactly `i` edges,
and that every state of layer `i+1` has a predecessor in layer `i`.  This weaker invariant holds for
`InteractiveBfs` whatever the `generators_inverse_closed` flag says (no symmetry hypothesis), so the
correctness of `find_path_between` does not depend on that flag being truthful. -/

theorem mem_map_hash (hinj : Function.Injective g.hash) (L : List α) (x : α) :
    g.hash x ∈ L.map g.hash ↔ x ∈ L := by
  rw [List.mem_map]
  constructor
  · rintro ⟨y, hy, hxy⟩; rwa [← hinj hxy]
  · intro hx; exact ⟨x, hx, rfl⟩

theorem getElem?_snoc_cases {β : Type} {l : List β} {a b : β} {i : Nat} (hi : (l ++ [a])[i]? = some b) :
    (i < l.length ∧ l[i]? = some b) ∨ (i = l.length ∧ b = a) := by
  rcases Nat.lt_or_ge i l.length with hlt | hge
  · rw [List.getElem?_append_left hlt] at hi; exact Or.inl ⟨hlt, hi⟩
  · rw [List.getElem?_append_right hge] at hi
    rcases Nat.eq_zero_or_pos (i - l.length) with h0 | hpos
    · rw [h0] at hi
      simp only [List.getElem?_cons_zero, Option.some.injEq] at hi
      exact Or.inr ⟨by omega, hi.symm⟩
    · rw [List.getElem?_eq_none (by simp; omega)] at hi; cases hi

/-- weak invariant of the interactive BFS after `k` steps (no symmetry needed) -/
structure WInv (g : Graph α) (S : List α) (k : Nat) (b : IBfs α) : Prop where
  len : b.hashes.length = k + 1
  sorted : ∀ (i : Nat) (H : List Int), b.hashes[i]? = some H → H.Pairwise (· < ·)
  sound : ∀ (i : Nat) (H : List Int) (x : α), b.hashes[i]? = some H → g.hash x ∈ H → Reach g.nb S i x
  complete : ∀ (i : Nat) (H : List Int) (x : α), b.hashes[i]? = some H → DistLayer g.nb S i x → g.hash x ∈ H
  chain : ∀ (i : Nat) (H : List Int) (x : α), b.hashes[i+1]? = some H → g.hash x ∈ H →
    ∃ (y : α) (H' : List Int), b.hashes[i]? = some H' ∧ g.hash y ∈ H' ∧ x ∈ g.nb y
  zero : ∀ (H : List Int) (x : α), b.hashes[0]? = some H → g.hash x ∈ H → x ∈ S
  cur : ∀ x, x ∈ b.cur ↔ ∃ H : List Int, b.hashes[k]? = some H ∧ g.hash x ∈ H

theorem winv_init (hinj : Function.Injective g.hash) (S : List α) : WInv g S 0 (IBfs.init g S) := by
  have hget : ∀ i H, (IBfs.init g S).hashes[i]? = some H → i = 0 ∧ H = (g.unique S).map g.hash := by
    intro i H hi
    cases i with
    | zero => simp [IBfs.init] at hi; exact ⟨rfl, hi.symm⟩
    | succ i => simp [IBfs.init] at hi
  refine ⟨rfl, ?_, ?_, ?_, ?_, ?_, ?_⟩
  · intro i H hi
    obtain ⟨rfl, rfl⟩ := hget i H hi
    exact uniqueStates_keys_strict g.hash S
  · intro i H x hi hx
    obtain ⟨rfl, rfl⟩ := hget i H hi
    rw [mem_map_hash hinj, g.mem_unique hinj] at hx
    exact (reach_zero ..).2 hx
  · intro i H x hi hx
    obtain ⟨rfl, rfl⟩ := hget i H hi
    rw [mem_map_hash hinj, g.mem_unique hinj]
    exact (distLayer_zero_iff ..).1 hx
  · intro i H x hi
    have := (hget _ H hi).1
    omega
  · intro H x hi hx
    obtain ⟨-, rfl⟩ := hget 0 H hi
    rwa [mem_map_hash hinj, g.mem_unique hinj] at hx
  · intro x
    constructor
    · intro hx; exact ⟨_, rfl, (mem_map_hash hinj _ x).2 hx⟩
    · rintro ⟨H, hi, hx⟩
      obtain ⟨-, rfl⟩ := hget 0 H hi
      exact (mem_map_hash hinj _ x).1 hx

theorem notSeen_of_all (b : IBfs α) (v : Int)
    (hall : ∀ (j : Nat) (H : List Int), b.hashes[j]? = some H → isinSorted H v = false) :
    b.notSeen g v = true := by
  unfold IBfs.notSeen
  simp only [List.all_eq_true, mem_seenLayers]
  rintro s ⟨j, hj, -⟩
  rw [hall j s hj]; rfl

theorem winv_step (hinj : Function.Injective g.hash) (S : List α) (k : Nat) (b : IBfs α) (hW : WInv g S k b) :
    WInv g S (k+1) (b.step g) := by
  have hsub : ((g.unique (g.neighbors b.cur)).filter fun x => b.notSeen g (g.hash x)).Sublist
      (g.unique (g.neighbors b.cur)) := List.filter_sublist
  have hsorted : (((g.unique (g.neighbors b.cur)).filter fun x => b.notSeen g (g.hash x)).map g.hash).Pairwise
      (· < ·) := (uniqueStates_keys_strict g.hash _).sublist (hsub.map g.hash)
  have hstep : (b.step g).hashes =
      b.hashes ++ [((g.unique (g.neighbors b.cur)).filter fun x => b.notSeen g (g.hash x)).map g.hash] := rfl
  have hcur' : (b.step g).cur = (g.unique (g.neighbors b.cur)).filter fun x => b.notSeen g (g.hash x) := rfl
  -- members of the new layer come from the current one
  have hfrom : ∀ x, x ∈ ((g.unique (g.neighbors b.cur)).filter fun x => b.notSeen g (g.hash x)) →
      ∃ y H', b.hashes[k]? = some H' ∧ g.hash y ∈ H' ∧ x ∈ g.nb y := by
    intro x hx
    have hx' := (List.mem_filter.1 hx).1
    rw [g.mem_unique hinj, g.mem_neighbors] at hx'
    obtain ⟨y, hy, hxy⟩ := hx'
    obtain ⟨H', hH', hyH⟩ := (hW.cur y).1 hy
    exact ⟨y, H', hH', hyH, hxy⟩
  have hold : ∀ i H, i < b.hashes.length → b.hashes[i]? = some H → (b.step g).hashes[i]? = some H := by
    intro i H hi hH
    rw [hstep, List.getElem?_append_left hi]; exact hH
  refine ⟨by rw [hstep]; simp [hW.len], ?_, ?_, ?_, ?_, ?_, ?_⟩
  · intro i H hi
    rw [hstep] at hi
    rcases getElem?_snoc_cases hi with ⟨-, hi⟩ | ⟨-, rfl⟩
    · exact hW.sorted i H hi
    · exact hsorted
  · intro i H x hi hx
    rw [hstep] at hi
    rcases getElem?_snoc_cases hi with ⟨-, hi⟩ | ⟨hik, rfl⟩
    · exact hW.sound i H x hi hx
    · rw [hW.len] at hik
      subst hik
      rw [mem_map_hash hinj] at hx
      obtain ⟨y, H', hH', hyH, hxy⟩ := hfrom x hx
      exact (reach_succ ..).2 ⟨y, hW.sound k H' y hH' hyH, hxy⟩
  · intro i H x hi hx
    rw [hstep] at hi
    rcases getElem?_snoc_cases hi with ⟨-, hi⟩ | ⟨hik, rfl⟩
    · exact hW.complete i H x hi hx
    · rw [hW.len] at hik
      subst hik
      rw [mem_map_hash hinj, List.mem_filter, g.mem_unique hinj, g.mem_neighbors]
      obtain ⟨y, hy, hxy⟩ := distLayer_pred' g.nb S k x hx
      have hklt : k < b.hashes.length := by rw [hW.len]; omega
      have hyc : y ∈ b.cur :=
        (hW.cur y).2 ⟨_, List.getElem?_eq_getElem hklt, hW.complete k _ y (List.getElem?_eq_getElem hklt) hy⟩
      refine ⟨⟨y, hyc, hxy⟩, notSeen_of_all b _ ?_⟩
      intro j H hj
      cases hin : isinSorted H (g.hash x) with
      | false => rfl
      | true =>
        exfalso
        have hjlt : j < k + 1 := by rw [← hW.len]; exact (List.getElem?_eq_some_iff.1 hj).1
        have hmem := (isinSorted_iff _ ((hW.sorted j H hj).imp (fun h => Int.le_of_lt h)) _).1 hin
        exact hx.2 j hjlt (hW.sound j H x hj hmem)
  · intro i H x hi hx
    rw [hstep] at hi
    rcases getElem?_snoc_cases hi with ⟨hlt, hi⟩ | ⟨hik, rfl⟩
    · obtain ⟨y, H', hH', hyH, hxy⟩ := hW.chain i H x hi hx
      exact ⟨y, H', hold i H' (by omega) hH', hyH, hxy⟩
    · rw [hW.len] at hik
      have hik' : i = k := by omega
      subst hik'
      rw [mem_map_hash hinj] at hx
      obtain ⟨y, H', hH', hyH, hxy⟩ := hfrom x hx
      exact ⟨y, H', hold i H' (by rw [hW.len]; omega) hH', hyH, hxy⟩
  · intro H x hi hx
    rw [hstep] at hi
    rcases getElem?_snoc_cases hi with ⟨-, hi⟩ | ⟨hik, -⟩
    · exact hW.zero H x hi hx
    · rw [hW.len] at hik; omega
  · intro x
    rw [hcur', hstep]
    have hlast : (b.hashes ++
        [((g.unique (g.neighbors b.cur)).filter fun x => b.notSeen g (g.hash x)).map g.hash])[k+1]? =
        some (((g.unique (g.neighbors b.cur)).filter fun x => b.notSeen g (g.hash x)).map g.hash) := by
      rw [← hW.len]; exact List.getElem?_concat_length
    constructor
    · intro hx; exact ⟨_, hlast, (mem_map_hash hinj _ x).2 hx⟩
    · rintro ⟨H, hi, hx⟩
      rw [hlast] at hi
      cases hi
      exact (mem_map_hash hinj _ x).1 hx

/-- `restore_path` through the first `n` layers of an engine, from any state of layer `n` -/
theorem winv_restore (h : PathHyp g gi) {S : List α} {k : Nat} {b : IBfs α} (hW : WInv g S k b)
    (n : Nat) (H : List Int) (hH : b.hashes[n]? = some H) (q : α) (hq : g.hash q ∈ H) :
    ∃ p, restorePath gi (b.hashes.take n) q = some p ∧ p.length = n ∧ (∀ i ∈ p, i < g.nGens) ∧
      ∃ c, c ∈ S ∧ applyPath g.act c p = q := by
  have hnlt : n < b.hashes.length := (List.getElem?_eq_some_iff.1 hH).1
  have hlen : (b.hashes.take n).length = n := by rw [List.length_take]; omega
  obtain ⟨p, hp, hl, hv, c, ⟨H0, hH0, hc0⟩, hcp⟩ := restorePath_chain h
    (fun j x => ∃ H, b.hashes[j]? = some H ∧ g.hash x ∈ H) (b.hashes.take n)
    (by
      rintro j x - ⟨H', hH', hx⟩
      obtain ⟨y, H'', hH'', hy, hxy⟩ := hW.chain j H' x hH' hx
      exact ⟨y, ⟨H'', hH'', hy⟩, hxy⟩)
    (by
      intro j H' hj x
      rw [List.getElem?_take] at hj
      split at hj
      · constructor
        · intro hx; exact ⟨H', hj, hx⟩
        · rintro ⟨H'', hH'', hx⟩
          rw [hj] at hH''; cases hH''; exact hx
      · cases hj)
    q (by rw [hlen]; exact ⟨H, hH, hq⟩)
  exact ⟨p, hp, by rw [hl, hlen], hv, c, hW.zero H0 c hH0 hc0, hcp⟩

/-- the middle vertex of a globally shortest `S`–`T` walk lies in the matching distance classes on both sides -/
theorem midpoint (h : PathHyp g gi) (S T : List α) (a b : Nat) (s t : α) (hs : s ∈ S) (ht : t ∈ T)
    (w : Walk g.nb (a+b) s t) (hno : ∀ s ∈ S, ∀ t ∈ T, ∀ n, n < a+b → ¬ Walk g.nb n s t) :
    ∃ mid, DistLayer g.nb S a mid ∧ DistLayer gi.nb T b mid := by
  obtain ⟨mid, w1, w2⟩ := Walk.split a w
  refine ⟨mid, ⟨⟨s, hs, w1⟩, ?_⟩, ⟨⟨t, ht, (walk_inv h _ _ _).2 w2⟩, ?_⟩⟩
  · rintro j hj ⟨s', hs', w'⟩
    exact hno s' hs' t ht (j+b) (by omega) (w'.append w2)
  · rintro j hj ⟨t', ht', w'⟩
    exact hno s hs t' ht' (a+j) (by omega) (w1.append ((walk_inv h _ _ _).1 w'))

/-- the postcondition of `find_path_between` with diameter bound `M` -/
def BetweenPost (g : Graph α) (S T : List α) (M : Nat) : Option (Option (BetweenRes α)) → Prop
  | none => False
  | some none => ∀ s ∈ S, ∀ t ∈ T, ∀ n, n ≤ 2 * M → ¬ Walk g.nb n s t
  | some (some r) =>
      r.start ∈ S ∧ applyPath g.act r.start r.edges ∈ T ∧ (∀ i ∈ r.edges, i < g.nGens) ∧ r.edges.length ≤ 2 * M ∧
      ∀ s ∈ S, ∀ t ∈ T, ∀ n, Walk g.nb n s t → r.edges.length ≤ n

/-- the two `restore_path` calls once a meeting state is known -/
def betweenFinish (g gi : Graph α) (b1 : IBfs α) (mid : α) (hs2 : List (List Int)) :
    Option (Option (BetweenRes α)) :=
  match restorePath g hs2 mid, restorePath gi b1.hashes.dropLast mid with
  | some p2, some p1 => some (some { start := applyPath gi.act mid p1.reverse, edges := p1 ++ p2.reverse })
  | _, _ => none

theorem betweenLoop_succ (g gi : Graph α) (fuel : Nat) (b1 b2 : IBfs α) :
    betweenLoop g gi (fuel+1) b1 b2 =
      match (b1.step g).findOnLast g ((b2.step gi).hashes.getD ((b2.step gi).hashes.length - 2) []) with
      | some m => betweenFinish g gi (b1.step g) m ((b2.step gi).hashes.take ((b2.step gi).hashes.length - 2))
      | none =>
        match (b1.step g).findOnLast g ((b2.step gi).hashes.getD ((b2.step gi).hashes.length - 1) []) with
        | some m => betweenFinish g gi (b1.step g) m ((b2.step gi).hashes.take ((b2.step gi).hashes.length - 1))
        | none => betweenLoop g gi fuel (b1.step g) (b2.step gi) := by
  rw [betweenLoop]
  dsimp only
  cases (b1.step g).findOnLast g ((b2.step gi).hashes.getD ((b2.step gi).hashes.length - 2) []) with
  | some m => rfl
  | none =>
    cases (b1.step g).findOnLast g ((b2.step gi).hashes.getD ((b2.step gi).hashes.length - 1) []) with
    | some m => rfl
    | none => rfl

/-- `find_on_last_layer` against a layer of the other search: a hit is in both layers -/
theorem findOnLast_some (h : PathHyp g gi) {S T : List α} {k j i : Nat} {b1 b2 : IBfs α}
    (_h1 : WInv g S k b1) (h2 : WInv gi T j b2) {H : List Int} (hi : b2.hashes[i]? = some H) {mid : α}
    (hf : b1.findOnLast g H = some mid) : mid ∈ b1.cur ∧ gi.hash mid ∈ H := by
  unfold IBfs.findOnLast at hf
  refine ⟨List.mem_of_find?_eq_some hf, ?_⟩
  have := List.find?_some hf
  rw [h.hashEq]
  exact (isinSorted_iff _ ((h2.sorted i H hi).imp (fun h => Int.le_of_lt h)) _).1 this

/-- no hit: the exact distance classes on the two sides are disjoint -/
theorem findOnLast_none (h : PathHyp g gi) {S T : List α} {k j i : Nat} {b1 b2 : IBfs α}
    (h1 : WInv g S k b1) (h2 : WInv gi T j b2) {H : List Int} (hi : b2.hashes[i]? = some H)
    (hf : b1.findOnLast g H = none) (x : α) (hx1 : DistLayer g.nb S k x) : ¬ DistLayer gi.nb T i x := by
  unfold IBfs.findOnLast at hf
  rw [List.find?_eq_none] at hf
  intro hx2
  have hklt : k < b1.hashes.length := by rw [h1.len]; omega
  have hxc : x ∈ b1.cur :=
    (h1.cur x).2 ⟨_, List.getElem?_eq_getElem hklt, h1.complete k _ x (List.getElem?_eq_getElem hklt) hx1⟩
  have hmem : g.hash x ∈ H := by
    rw [← h.hashEq]; exact h2.complete i H x hi hx2
  exact hf x hxc ((isinSorted_iff _ ((h2.sorted i H hi).imp (fun h => Int.le_of_lt h)) _).2 hmem)

theorem betweenFinish_spec (h : PathHyp g gi) {S T : List α} {k j i : Nat} {b1 b2 : IBfs α}
    (h1 : WInv g S (k+1) b1) (h2 : WInv gi T j b2) {H : List Int} (hi : b2.hashes[i]? = some H) {mid : α}
    (hm1 : mid ∈ b1.cur) (hm2 : gi.hash mid ∈ H) (M : Nat) (hM : k + 1 + i ≤ 2 * M)
    (hno : ∀ s ∈ S, ∀ t ∈ T, ∀ n, n < k + 1 + i → ¬ Walk g.nb n s t) :
    BetweenPost g S T M (betweenFinish g gi b1 mid (b2.hashes.take i)) := by
  obtain ⟨H1, hH1, hmH1⟩ := (h1.cur mid).1 hm1
  have hdl : b1.hashes.dropLast = b1.hashes.take (k+1) := by
    rw [List.dropLast_eq_take, h1.len]; rfl
  obtain ⟨p1, hp1, hl1, hv1, s, hs, hsp⟩ := winv_restore h h1 (k+1) H1 hH1 mid hmH1
  obtain ⟨p2, hp2, hl2, hv2, t, ht, htp⟩ := winv_restore h.symm h2 i H hi mid hm2
  rw [h.nGens] at hv2
  have hstart : applyPath gi.act mid p1.reverse = s := by
    rw [← hsp]; exact applyPath_undo h p1 hv1 s
  have hend : applyPath g.act mid p2.reverse = t := by
    rw [← htp]; exact applyPath_undo h.symm p2 (by rw [h.nGens]; exact hv2) t
  unfold betweenFinish
  rw [hdl, hp1, hp2]
  simp only [BetweenPost]
  have hlen : (p1 ++ p2.reverse).length = k + 1 + i := by simp [hl1, hl2]
  rw [hstart, hlen]
  refine ⟨hs, ?_, ?_, hM, ?_⟩
  · rw [applyPath_append, hsp, hend]; exact ht
  · intro i hi
    rcases List.mem_append.1 hi with hi | hi
    · exact hv1 i hi
    · exact hv2 i (List.mem_reverse.1 hi)
  · intro s hs t ht n w
    rcases Nat.lt_or_ge n (k + 1 + i) with hlt | hge
    · exact absurd w (hno s hs t ht n hlt)
    · exact hge

theorem betweenLoop_spec (h : PathHyp g gi) (S T : List α)
    (fuel t : Nat) (b1 b2 : IBfs α) (h1 : WInv g S t b1) (h2 : WInv gi T t b2)
    (hno : ∀ s ∈ S, ∀ t' ∈ T, ∀ n, n ≤ 2 * t → ¬ Walk g.nb n s t') :
    BetweenPost g S T (t + fuel) (betweenLoop g gi fuel b1 b2) := by
  induction fuel generalizing t b1 b2 with
  | zero => exact hno
  | succ fuel ih =>
    have h1' := winv_step h.inj S t b1 h1
    have h2' := winv_step h.symm.inj T t b2 h2
    have hlen2 : (b2.step gi).hashes.length = t + 2 := h2'.len
    obtain ⟨HA, hgetA⟩ : ∃ H, (b2.step gi).hashes[t]? = some H :=
      ⟨_, List.getElem?_eq_getElem (by omega)⟩
    obtain ⟨HB, hgetB⟩ : ∃ H, (b2.step gi).hashes[t+1]? = some H :=
      ⟨_, List.getElem?_eq_getElem (by omega)⟩
    have hA : (b2.step gi).hashes.getD ((b2.step gi).hashes.length - 2) [] = HA := by
      rw [hlen2, List.getD_eq_getElem?_getD, show t + 2 - 2 = t from rfl, hgetA]; rfl
    have hB : (b2.step gi).hashes.getD ((b2.step gi).hashes.length - 1) [] = HB := by
      rw [hlen2, List.getD_eq_getElem?_getD, show t + 2 - 1 = t + 1 from rfl, hgetB]; rfl
    rw [betweenLoop_succ, hA, hB, hlen2, show t + 2 - 2 = t from rfl, show t + 2 - 1 = t + 1 from rfl]
    cases hfA : (b1.step g).findOnLast g HA with
    | some m =>
      simp only
      obtain ⟨hm1, hm2⟩ := findOnLast_some h h1' h2' hgetA hfA
      refine betweenFinish_spec h h1' h2' hgetA hm1 hm2 _ (by omega) ?_
      intro s hs t' ht' n hn
      exact hno s hs t' ht' n (by omega)
    | none =>
      simp only
      have hnoA : ∀ s ∈ S, ∀ t' ∈ T, ∀ n, n ≤ 2 * t + 1 → ¬ Walk g.nb n s t' := by
        intro s hs t' ht' n hn w
        rcases Nat.lt_or_ge n (2 * t + 1) with hlt | hge
        · exact hno s hs t' ht' n (by omega) w
        · have hn' : n = (t + 1) + t := by omega
          subst hn'
          obtain ⟨mid, hm1, hm2⟩ := midpoint h S T (t+1) t s t' hs ht' w
            (fun s hs t' ht' n hn => hno s hs t' ht' n (by omega))
          exact findOnLast_none h h1' h2' hgetA hfA mid hm1 hm2
      cases hfB : (b1.step g).findOnLast g HB with
      | some m =>
        simp only
        obtain ⟨hm1, hm2⟩ := findOnLast_some h h1' h2' hgetB hfB
        refine betweenFinish_spec h h1' h2' hgetB hm1 hm2 _ (by omega) ?_
        intro s hs t' ht' n hn
        exact hnoA s hs t' ht' n (by omega)
      | none =>
        simp only
        have hnoB : ∀ s ∈ S, ∀ t' ∈ T, ∀ n, n ≤ 2 * (t + 1) → ¬ Walk g.nb n s t' := by
          intro s hs t' ht' n hn w
          rcases Nat.lt_or_ge n (2 * t + 2) with hlt | hge
          · exact hnoA s hs t' ht' n (by omega) w
          · have hn' : n = (t + 1) + (t + 1) := by omega
            subst hn'
            obtain ⟨mid, hm1, hm2⟩ := midpoint h S T (t+1) (t+1) s t' hs ht' w
              (fun s hs t' ht' n hn => hnoA s hs t' ht' n (by omega))
            exact findOnLast_none h h1' h2' hgetB hfB mid hm1 hm2
        have := ih (t+1) (b1.step g) (b2.step gi) h1' h2' hnoB
        rw [show t + 1 + fuel = t + (fuel + 1) by omega] at this
        exact this

/-- `find_path_between` is correct for every graph/inverted-copy pair with a collision-free hasher; the
`generators_inverse_closed` flags of `g` and `gi` play no role -/
theorem findPathBetween_post (h : PathHyp g gi) (S T : List α) (M : Nat) :
    BetweenPost g S T M (findPathBetween g gi S T M) := by
  have h1 := winv_init h.inj S
  have h2 := winv_init h.symm.inj T
  have hget : (IBfs.init gi T).hashes[0]? = some ((gi.unique T).map gi.hash) := rfl
  unfold findPathBetween
  have hlast : (IBfs.init gi T).hashes.getLast?.getD [] = (gi.unique T).map gi.hash := rfl
  simp only [hlast]
  cases hf : (IBfs.init g S).findOnLast g ((gi.unique T).map gi.hash) with
  | some mid =>
    simp only [BetweenPost]
    obtain ⟨hm1, hm2⟩ := findOnLast_some h h1 h2 hget hf
    obtain ⟨H1, hH1, hmH1⟩ := (h1.cur mid).1 hm1
    exact ⟨h1.zero H1 mid hH1 hmH1, h2.zero _ mid hget hm2, by simp, by simp, by simp⟩
  | none =>
    simp only
    have hno : ∀ s ∈ S, ∀ t' ∈ T, ∀ n, n ≤ 2 * 0 → ¬ Walk g.nb n s t' := by
      intro s hs t' ht' n hn w
      have hn0 : n = 0 := by omega
      subst hn0
      have := walk_zero_iff.1 w
      subst this
      exact findOnLast_none h h1 h2 hget hf s ((distLayer_zero_iff ..).2 hs) ((distLayer_zero_iff ..).2 ht')
    have := betweenLoop_spec h S T M 0 _ _ h1 h2 hno
    rw [Nat.zero_add] at this
    exact this

/-- `find_path_between` returns a globally shortest path between the sets iff the minimum distance is ≤ 2M and never
trips an assertion — with no assumption relating `generators_inverse_closed` to the graph -/
theorem between_spec_noflag (h : PathHyp g gi) (S T : List α) (M : Nat) :
    match findPathBetween g gi S T M with
    | none => False
    | some none => ∀ s ∈ S, ∀ t ∈ T, ∀ n, n ≤ 2 * M → ¬ Walk g.nb n s t
    | some (some r) =>
        r.start ∈ S ∧ applyPath g.act r.start r.edges ∈ T ∧ (∀ i ∈ r.edges, i < g.nGens) ∧ r.edges.length ≤ 2 * M ∧
        ∀ s ∈ S, ∀ t ∈ T, ∀ n, Walk g.nb n s t → r.edges.length ≤ n := by
  have := findPathBetween_post h S T M
  cases hr : findPathBetween g gi S T M with
  | none => rw [hr] at this; exact this
  | some o =>
    cases o with
    | none => rw [hr] at this; exact this
    | some r => rw [hr] at this; exact this

/-- returns a globally shortest path between the sets iff the minimum distance is ≤ 2M; never trips an assertion.
(`hsym` is part of the requested statement; the proof does not need it.) -/
theorem between_spec (h : PathHyp g gi) (_hsym : g.invClosed = true → Symm g.nb) (S T : List α) (M : Nat) :
    match findPathBetween g gi S T M with
    | none => False
    | some none => ∀ s ∈ S, ∀ t ∈ T, ∀ n, n ≤ 2 * M → ¬ Walk g.nb n s t
    | some (some r) =>
        r.start ∈ S ∧ applyPath g.act r.start r.edges ∈ T ∧ (∀ i ∈ r.edges, i < g.nGens) ∧ r.edges.length ≤ 2 * M ∧
        ∀ s ∈ S, ∀ t ∈ T, ∀ n, Walk g.nb n s t → r.edges.length ≤ n :=
  between_spec_noflag h S T M

end Cv
