/-
  The beam-search and random-walk theorems (C06, C07) under hypotheses RESTRICTED to a set `P` of states that is closed
  under the generators and contains the states the run starts from.  Core Lean only.

  The abstract theorems ask for hash injectivity, `PathHyp` (generator `i` of `gi` undoes generator `i` of `g`),
  symmetry … on the WHOLE state type; a concrete representation only has them on the rows that encode a state.  By
  naturality (`CvProofs/Natural*.lean`) a run on `g` from states of `P` is the image under `Subtype.val` of the run on
  `g.restrictB P`, where the restricted hypotheses are global.
-/
import CvProofs.Natural
import CvProofs.NaturalWalks
import CvProofs.NaturalBeam
import CvProofs.Beam
import CvProofs.Walks
namespace Cv

variable {α : Type}

/-! ### walks, distance classes and paths in `g.restrictB P` -/

section basics
variable (g : Graph α) (P : α → Prop) (hP : ∀ i, i < g.nGens → ∀ x, P x → P (g.act i x))

theorem restrict_nb (x : {x : α // P x}) : ((g.restrictB P hP).nb x).map Subtype.val = g.nb x.1 :=
  (g.restrict_map P hP).nb x

theorem restrict_mem_nb (x y : {x : α // P x}) : y ∈ (g.restrictB P hP).nb x ↔ y.1 ∈ g.nb x.1 := by
  rw [← restrict_nb g P hP x, List.mem_map]
  constructor
  · intro h; exact ⟨y, h, rfl⟩
  · rintro ⟨z, hz, hzy⟩
    rw [← Subtype.ext hzy]; exact hz

theorem restrict_walk {n : Nat} {a b : {x : α // P x}} (w : Walk (g.restrictB P hP).nb n a b) :
    Walk g.nb n a.1 b.1 := by
  induction w with
  | nil => exact .nil _
  | snoc _ hc ih => exact .snoc ih ((restrict_mem_nb g P hP _ _).1 hc)

theorem restrict_walk_lift {n : Nat} (a : {x : α // P x}) (y : α) (w : Walk g.nb n a.1 y) :
    ∃ b : {x : α // P x}, b.1 = y ∧ Walk (g.restrictB P hP).nb n a b := by
  generalize ha : a.1 = a0 at w
  induction w with
  | nil => exact ⟨a, ha, .nil _⟩
  | snoc _ hc ih =>
    obtain ⟨b, hb, wb⟩ := ih ha
    rw [← hb, ← restrict_nb g P hP b] at hc
    obtain ⟨c, hc1, hc2⟩ := List.mem_map.1 hc
    exact ⟨c, hc2, .snoc wb hc1⟩

theorem restrict_reach_iff (s x : {x : α // P x}) (k : Nat) :
    Reach (g.restrictB P hP).nb [s] k x ↔ Reach g.nb [s.1] k x.1 := by
  constructor
  · rintro ⟨t, ht, w⟩
    rw [List.mem_singleton] at ht
    subst ht
    exact ⟨t.1, by simp, restrict_walk g P hP w⟩
  · rintro ⟨t, ht, w⟩
    rw [List.mem_singleton] at ht
    subst ht
    obtain ⟨b, hb, wb⟩ := restrict_walk_lift g P hP s x.1 w
    rw [Subtype.ext hb] at wb
    exact ⟨s, by simp, wb⟩

theorem restrict_distLayer_iff (s x : {x : α // P x}) (k : Nat) :
    DistLayer (g.restrictB P hP).nb [s] k x ↔ DistLayer g.nb [s.1] k x.1 := by
  unfold DistLayer
  simp only [restrict_reach_iff]

include hP in
/-- a state reachable from a state of `P` lies in `P` -/
theorem mem_of_reach (s : α) (hs : P s) (k : Nat) (x : α) (h : Reach g.nb [s] k x) : P x := by
  obtain ⟨t, ht, w⟩ := h
  rw [List.mem_singleton] at ht
  subst ht
  obtain ⟨b, hb, -⟩ := restrict_walk_lift g P hP ⟨t, hs⟩ x w
  rw [← hb]; exact b.2

theorem restrict_applyPath (x : {x : α // P x}) (p : List Nat) (hv : ∀ i ∈ p, i < g.nGens) :
    (applyPath (g.restrictB P hP).act x p).1 = applyPath g.act x.1 p := by
  induction p generalizing x with
  | nil => rfl
  | cons i t ih =>
    rw [applyPath_cons, applyPath_cons, ih _ (fun j hj => hv j (by simp [hj])),
      (g.restrict_map P hP).act i (hv i (by simp)) x]

/-- a duplicate-free list of states of `P`, as a list in the subtype -/
theorem exists_attach (L : List α) (hL : ∀ x ∈ L, P x) : ∃ L' : List {x : α // P x}, L'.map Subtype.val = L :=
  ⟨L.attachWith P hL, List.attachWith_map_subtype_val _⟩

theorem nodup_map_val {L : List {x : α // P x}} (h : L.Nodup) : (L.map Subtype.val).Nodup := by
  rw [List.nodup_iff_pairwise_ne, List.pairwise_map]
  exact List.Pairwise.imp (fun {a b} hab hv => hab (Subtype.ext hv)) h

theorem nodup_of_map_val {L : List {x : α // P x}} (h : (L.map Subtype.val).Nodup) : L.Nodup := by
  rw [List.nodup_iff_pairwise_ne, List.pairwise_map] at h
  exact List.Pairwise.imp (fun {a b} hab hv => hab (congrArg Subtype.val hv)) h

end basics

/-! ### the restricted hypotheses -/

/-- `PathHyp` on a set `P` closed under the generators of `g` and of its inverted copy `gi` -/
structure PathHypOnB (g gi : Graph α) (P : α → Prop) : Prop where
  hashEq : gi.hash = g.hash
  nGens : gi.nGens = g.nGens
  closed : ∀ i, i < g.nGens → ∀ x, P x → P (g.act i x)
  closedI : ∀ i, i < gi.nGens → ∀ x, P x → P (gi.act i x)
  inv : ∀ i, i < g.nGens → ∀ x, P x → gi.act i (g.act i x) = x ∧ g.act i (gi.act i x) = x
  inj : ∀ x y, P x → P y → g.hash x = g.hash y → x = y

theorem PathHypOnB.toRestrict {g gi : Graph α} {P : α → Prop} (h : PathHypOnB g gi P) :
    PathHyp (g.restrictB P h.closed) (gi.restrictB P h.closedI) where
  hashEq := by
    funext x
    show gi.hash x.1 = g.hash x.1
    rw [h.hashEq]
  nGens := h.nGens
  inv := by
    intro i hi x
    have hi' : i < gi.nGens := by rw [h.nGens]; exact hi
    have hi0 : i < g.nGens := hi
    constructor
    · apply Subtype.ext
      simp only [Graph.restrictB, hi0, hi', dite_true]
      exact (h.inv i hi0 x.1 x.2).1
    · apply Subtype.ext
      simp only [Graph.restrictB, hi0, hi', dite_true]
      exact (h.inv i hi0 x.1 x.2).2
  inj := fun x y hxy => Subtype.ext (h.inj x.1 y.1 x.2 y.2 hxy)

/-- symmetry on `P` -/
def SymmOnB (g : Graph α) (P : α → Prop) : Prop := ∀ x y, P x → y ∈ g.nb x → x ∈ g.nb y

theorem SymmOnB.toRestrict {g : Graph α} {P : α → Prop} (hP : ∀ i, i < g.nGens → ∀ x, P x → P (g.act i x))
    (h : SymmOnB g P) : Symm (g.restrictB P hP).nb := by
  intro x y hy
  rw [restrict_mem_nb] at hy ⊢
  exact h x.1 y.1 x.2 hy

/-- a correct inverse map on `P` -/
def IsInvMapOnB (g : Graph α) (P : α → Prop) (m : List Nat) : Prop :=
  m.length = g.nGens ∧
    ∀ i, i < g.nGens → ∃ j, m[i]? = some j ∧ j < g.nGens ∧ ∀ x, P x → g.act j (g.act i x) = x

theorem IsInvMapOnB.toRestrict {g : Graph α} {P : α → Prop} (hP : ∀ i, i < g.nGens → ∀ x, P x → P (g.act i x))
    {m : List Nat} (h : IsInvMapOnB g P m) : IsInvMap (g.restrictB P hP) m := by
  refine ⟨h.1, ?_⟩
  intro i hi
  have hi0 : i < g.nGens := hi
  obtain ⟨j, hj1, hj2, hj3⟩ := h.2 i hi0
  refine ⟨j, hj1, hj2, ?_⟩
  intro x
  apply Subtype.ext
  simp only [Graph.restrictB, hi0, hj2, dite_true]
  exact hj3 x.1 x.2

theorem IsBall.toRestrict {g : Graph α} {P : α → Prop} (hP : ∀ i, i < g.nGens → ∀ x, P x → P (g.act i x))
    {c : α} (hc : P c) {Hs : List (List Int)} (h : IsBall g c Hs) : IsBall (g.restrictB P hP) ⟨c, hc⟩ Hs := by
  intro i H hi
  obtain ⟨hsorted, L, hnd, hmem, hperm⟩ := h i H hi
  have hLP : ∀ x ∈ L, P x := fun x hx => mem_of_reach g P hP c hc i x ((hmem x).1 hx).1
  obtain ⟨L', hL'⟩ := exists_attach P L hLP
  refine ⟨hsorted, L', nodup_of_map_val P (by rw [hL']; exact hnd), ?_, ?_⟩
  · intro x
    rw [restrict_distLayer_iff, ← hmem, ← hL', List.mem_map]
    constructor
    · intro hx; exact ⟨x, hx, rfl⟩
    · rintro ⟨z, hz, hzx⟩
      rw [← Subtype.ext hzx]; exact hz
  · have : L'.map (g.restrictB P hP).hash = L.map g.hash := by
      rw [← hL', List.map_map]; rfl
    rw [this]; exact hperm

/-! ### C07 (BFS-mode walks) under restricted hypotheses -/

section walks
variable (g : Graph α) (P : α → Prop) (hP : ∀ i, i < g.nGens → ∀ x, P x → P (g.act i x))
  (hinj : ∀ x y, P x → P y → g.hash x = g.hash y → x = y)
include hP hinj

theorem restrict_hash_inj : Function.Injective (g.restrictB P hP).hash :=
  fun x y h => Subtype.ext (hinj x.1 y.1 x.2 y.2 h)

theorem walksBfs_spec_on (width length : Nat) (hw : 1 ≤ width) (hl : 1 ≤ length) (start : α) (hs : P start)
    (perms : List (List Nat)) (hp : ∀ p ∈ perms, p.Nodup) :
    let out := walksBfs g width length start perms
    out.head? = some (start, 0) ∧ (∀ p ∈ out, Walk g.nb p.2 start p.1) ∧ (out.map (·.1)).Nodup := by
  intro out
  have hmap : out = (walksBfs (g.restrictB P hP) width length ⟨start, hs⟩ perms).map (Prod.map Subtype.val id) :=
    (walksBfs_map (g.restrict_map P hP) width length ⟨start, hs⟩ perms).symm
  obtain ⟨h1, h2, h3⟩ := BW.walksBfs_spec' (g.restrictB P hP) (restrict_hash_inj g P hP hinj) width length hw hl
    ⟨start, hs⟩ perms hp
  rw [hmap]
  refine ⟨?_, ?_, ?_⟩
  · rw [List.head?_map, h1]; rfl
  · intro p hp'
    obtain ⟨q, hq, rfl⟩ := List.mem_map.1 hp'
    exact restrict_walk g P hP (h2 q hq)
  · rw [List.map_map]
    have : (fun p : α × Nat => p.1) ∘ Prod.map Subtype.val id =
        (Subtype.val : {x : α // P x} → α) ∘ (fun p : {x : α // P x} × Nat => p.1) := rfl
    rw [this, ← List.map_map]
    exact nodup_map_val P h3

theorem walksBfs_exact_on (width length : Nat) (start : α) (hs : P start) (perms : List (List Nat))
    (hwide : ∀ (k : Nat) (L : List α), L.Nodup → (∀ x ∈ L, DistLayer g.nb [start] k x) → L.length ≤ width)
    (ecc : Nat) (hecc : ∀ x, ¬ DistLayer g.nb [start] (ecc + 1) x) (hlen : ecc < length) (x : α) (k : Nat) :
    (x, k) ∈ walksBfs g width length start perms ↔ DistLayer g.nb [start] k x := by
  have hmap : walksBfs g width length start perms =
      (walksBfs (g.restrictB P hP) width length ⟨start, hs⟩ perms).map (Prod.map Subtype.val id) :=
    (walksBfs_map (g.restrict_map P hP) width length ⟨start, hs⟩ perms).symm
  have key := BW.walksBfs_exact' (g.restrictB P hP) (restrict_hash_inj g P hP hinj) width length ⟨start, hs⟩ perms
    (by
      intro k L hnd hL
      have := hwide k (L.map Subtype.val) (nodup_map_val P hnd) (by
        intro y hy
        obtain ⟨z, hz, rfl⟩ := List.mem_map.1 hy
        exact (restrict_distLayer_iff g P hP ⟨start, hs⟩ z k).1 (hL z hz))
      rwa [List.length_map] at this)
    ecc (fun y hy => hecc y.1 ((restrict_distLayer_iff g P hP ⟨start, hs⟩ y (ecc + 1)).1 hy)) hlen
  rw [hmap, List.mem_map]
  constructor
  · rintro ⟨⟨y, k'⟩, hq, heq⟩
    simp only [Prod.map, id, Prod.mk.injEq] at heq
    obtain ⟨rfl, rfl⟩ := heq
    exact (restrict_distLayer_iff g P hP ⟨start, hs⟩ y k').1 ((key y k').1 hq)
  · intro hd
    have hx : P x := mem_of_reach g P hP start hs k x hd.1
    exact ⟨(⟨x, hx⟩, k), (key ⟨x, hx⟩ k).2 ((restrict_distLayer_iff g P hP ⟨start, hs⟩ ⟨x, hx⟩ k).2 hd), rfl⟩

end walks

/-! ### C06 (beam search) under restricted hypotheses -/

section beam
variable (g gi : Graph α) (P : α → Prop)

theorem beamSimple_restrict (h : PathHypOnB g gi P) (invMap : Option (List Nat)) (central start : α)
    (hc : P central) (hs : P start) (c : SimpleCfg α) :
    beamSimple (g.restrictB P h.closed) (gi.restrictB P h.closedI) invMap ⟨central, hc⟩ ⟨start, hs⟩
      (c.comap Subtype.val) = beamSimple g gi invMap central start c :=
  beamSimple_map (g.restrict_map P h.closed) (gi.restrict_map P h.closedI) invMap ⟨central, hc⟩ ⟨start, hs⟩ c

/-- simple mode without a ball -/
theorem beamSimple_sound_noball_on (h : PathHypOnB g gi P) (invMap : Option (List Nat)) (central start : α)
    (hc : P central) (hs : P start) (c : SimpleCfg α) (hb : c.ball = none) (r : BeamRes)
    (hr : beamSimple g gi invMap central start c = some r) (hf : r.found = true) :
    Walk g.nb r.length start central ∧
    ∀ p, r.path = some p → p.length = r.length ∧ (∀ i ∈ p, i < g.nGens) ∧ applyPath g.act start p = central := by
  rw [← beamSimple_restrict g gi P h invMap central start hc hs c] at hr
  obtain ⟨h1, h2⟩ := BW.beamSimple_sound_noball' _ _ h.toRestrict invMap ⟨central, hc⟩ ⟨start, hs⟩
    (c.comap Subtype.val) hb r hr hf
  refine ⟨restrict_walk g P h.closed h1, ?_⟩
  intro p hp
  obtain ⟨a, b, e⟩ := h2 p hp
  refine ⟨a, b, ?_⟩
  rw [← restrict_applyPath g P h.closed ⟨start, hs⟩ p b, e]

/-- simple mode with a ball -/
theorem beamSimple_sound_ball_on (h : PathHypOnB g gi P) (hsym : SymmOnB g P) (m : List Nat)
    (hm : IsInvMapOnB g P m) (central start : α) (hc : P central) (hs : P start) (c : SimpleCfg α)
    (ball : List (List Int)) (hb : c.ball = some ball) (hball : IsBall g central ball) (hne : ball ≠ [])
    (r : BeamRes) (hr : beamSimple g gi (some m) central start c = some r) (hf : r.found = true) :
    Walk g.nb r.length start central ∧
    ∀ p, r.path = some p → p.length = r.length ∧ (∀ i ∈ p, i < g.nGens) ∧ applyPath g.act start p = central := by
  rw [← beamSimple_restrict g gi P h (some m) central start hc hs c] at hr
  obtain ⟨h1, h2⟩ := BW.beamSimple_sound_ball' _ _ h.toRestrict (hsym.toRestrict h.closed) m
    (hm.toRestrict h.closed) ⟨central, hc⟩ ⟨start, hs⟩ (c.comap Subtype.val) ball hb
    (hball.toRestrict h.closed hc) hne r hr hf
  refine ⟨restrict_walk g P h.closed h1, ?_⟩
  intro p hp
  obtain ⟨a, b, e⟩ := h2 p hp
  refine ⟨a, b, ?_⟩
  rw [← restrict_applyPath g P h.closed ⟨start, hs⟩ p b, e]

/-- exactness of the unpruned simple beam -/
theorem beamSimple_exact_unpruned_on (h : PathHypOnB g gi P) (invMap : Option (List Nat)) (central start : α)
    (hc : P central) (hs : P start) (c : SimpleCfg α) (hb : c.ball = none) (d : Nat)
    (hd : DistLayer g.nb [start] d central) (hsteps : d ≤ c.maxSteps)
    (hwide : ∀ (k : Nat) (L : List α), L.Nodup → (∀ x ∈ L, Reach g.nb [start] k x) → L.length < c.beamWidth) :
    ∃ r, beamSimple g gi invMap central start c = some r ∧ r.found = true ∧ r.length = d := by
  rw [← beamSimple_restrict g gi P h invMap central start hc hs c]
  apply BW.beamSimple_exact_unpruned' _ _ h.toRestrict invMap ⟨central, hc⟩ ⟨start, hs⟩ (c.comap Subtype.val) hb d
    ((restrict_distLayer_iff g P h.closed ⟨start, hs⟩ ⟨central, hc⟩ d).2 hd) hsteps
  intro k L hnd hL
  have := hwide k (L.map Subtype.val) (nodup_map_val P hnd) (by
    intro y hy
    obtain ⟨z, hz, rfl⟩ := List.mem_map.1 hy
    exact (restrict_reach_iff g P h.closed ⟨start, hs⟩ z k).1 (hL z hz))
  rwa [List.length_map] at this

end beam

section adv
variable [DecidableEq α] (g : Graph α) (P : α → Prop) (hP : ∀ i, i < g.nGens → ∀ x, P x → P (g.act i x))
  (hinj : ∀ x y, P x → P y → g.hash x = g.hash y → x = y)

theorem beamAdvanced_restrict (start dest : α) (hs : P start) (hd : P dest) (c : AdvCfg α) :
    beamAdvanced (g.restrictB P hP) ⟨start, hs⟩ ⟨dest, hd⟩ (c.comap Subtype.val) = beamAdvanced g start dest c :=
  beamAdvanced_map (g.restrict_map P hP) (fun _ _ h => Subtype.ext h) ⟨start, hs⟩ ⟨dest, hd⟩ c

include hP hinj

/-- advanced mode -/
theorem beamAdvanced_sound_on (start dest : α) (hs : P start) (hd : P dest) (c : AdvCfg α) (r : BeamRes)
    (hr : beamAdvanced g start dest c = some r) (hf : r.found = true) : Walk g.nb r.length start dest := by
  rw [← beamAdvanced_restrict g P hP start dest hs hd c] at hr
  exact restrict_walk g P hP
    (BW.beamAdvanced_sound' _ (restrict_hash_inj g P hP hinj) ⟨start, hs⟩ ⟨dest, hd⟩ (c.comap Subtype.val) r hr hf)

/-- exactness of the unpruned advanced beam -/
theorem beamAdvanced_exact_unpruned_on (start dest : α) (hs : P start) (hdP : P dest) (c : AdvCfg α) (d : Nat)
    (hd : DistLayer g.nb [start] d dest) (hsteps : d ≤ c.maxSteps)
    (hwide : ∀ (k : Nat) (L : List α), L.Nodup → (∀ x ∈ L, Reach g.nb [start] k x) → L.length ≤ c.beamWidth) :
    ∃ r, beamAdvanced g start dest c = some r ∧ r.found = true ∧ r.length = d := by
  rw [← beamAdvanced_restrict g P hP start dest hs hdP c]
  apply BW.beamAdvanced_exact_unpruned' _ (restrict_hash_inj g P hP hinj) ⟨start, hs⟩ ⟨dest, hdP⟩
    (c.comap Subtype.val) d ((restrict_distLayer_iff g P hP ⟨start, hs⟩ ⟨dest, hdP⟩ d).2 hd) hsteps
  intro k L hnd hL
  have := hwide k (L.map Subtype.val) (nodup_map_val P hnd) (by
    intro y hy
    obtain ⟨z, hz, rfl⟩ := List.mem_map.1 hy
    exact (restrict_reach_iff g P hP ⟨start, hs⟩ z k).1 (hL z hz))
  rwa [List.length_map] at this

end adv

end Cv
