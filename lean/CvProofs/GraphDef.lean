/-
  Proofs about `CvModel/GraphDef.lean` (model of `CayleyGraphDef`, permutation part) and
  `CvModel/Matrix.lean` (`inv`, `isInverse`).  Core Lean only.
-/
import CvModel.GraphDef
import CvModel.Spec
import CvProofs.Perm
namespace Cv.GraphDef
open Cv.Perm

/-! ### `Option`-valued `mapM` -/

theorem mapM_eq_some_iff {α β : Type} (f : α → Option β) (l : List α) (m : List β) :
    l.mapM f = some m ↔ l.map f = m.map some := by
  induction l generalizing m with
  | nil => cases m <;> simp
  | cons a t ih =>
    rw [List.mapM_cons]
    cases hfa : f a with
    | none => cases m <;> simp [hfa]
    | some b =>
      cases ht : t.mapM f with
      | none =>
        cases m with
        | nil => simp
        | cons c m' =>
          have := (not_congr (ih m')).1 (by simp [ht])
          simp [hfa]
          intro _; exact this
      | some m₀ =>
        have h0 := (ih m₀).1 ht
        cases m with
        | nil => simp
        | cons c m' =>
          simp only [List.map_cons, hfa, List.cons.injEq, Option.some.injEq]
          constructor
          · intro h
            simp at h
            obtain ⟨h1, h2⟩ := h
            subst h1 h2
            exact ⟨rfl, h0⟩
          · rintro ⟨h1, h2⟩
            have := (ih m').2 h2
            rw [ht] at this
            simp at this
            subst h1 this
            rfl

theorem mapM_isSome_iff {α β : Type} (f : α → Option β) (l : List α) :
    (l.mapM f).isSome = true ↔ ∀ a ∈ l, (f a).isSome = true := by
  induction l with
  | nil => simp
  | cons a t ih =>
    rw [List.mapM_cons]
    cases hfa : f a with
    | none => simp [hfa]
    | some b =>
      cases ht : t.mapM f with
      | none =>
        have := (not_congr ih).1 (by simp [ht])
        simp [hfa]
        simpa using this
      | some m₀ =>
        have := ih.1 (by simp [ht])
        simp [hfa]
        simpa using this

theorem mapM_some_length {α β : Type} {f : α → Option β} {l : List α} {m : List β}
    (h : l.mapM f = some m) : m.length = l.length := by
  have := congrArg List.length ((mapM_eq_some_iff f l m).1 h)
  simpa using this.symm

theorem mapM_some_getElem {α β : Type} {f : α → Option β} {l : List α} {m : List β}
    (h : l.mapM f = some m) (i : Nat) (hi : i < l.length) :
    ∃ b, m[i]? = some b ∧ f l[i] = some b := by
  have hl := mapM_some_length h
  have e := (mapM_eq_some_iff f l m).1 h
  have := congrArg (fun z => z[i]?) e
  simp only [List.getElem?_map, List.getElem?_eq_getElem hi, Option.map_some] at this
  have hi' : i < m.length := by omega
  rw [List.getElem?_eq_getElem hi'] at this ⊢
  exact ⟨m[i], rfl, by simpa using this⟩

/-! ### `lastIndexOf` -/

def lastAux {β : Type} [BEq β] (l : List β) (x : β) (k : Nat) : Option Nat :=
  (List.range k).foldl (fun acc j => if l[j]? == some x then some j else acc) none

theorem lastAux_succ {β : Type} [BEq β] (l : List β) (x : β) (k : Nat) :
    lastAux l x (k+1) = if l[k]? == some x then some k else lastAux l x k := by
  simp [lastAux, List.range_succ, List.foldl_append]

theorem lastAux_spec {β : Type} [BEq β] [LawfulBEq β] (l : List β) (x : β) (k : Nat) :
    (∀ j, lastAux l x k = some j → j < k ∧ l[j]? = some x ∧ ∀ i, j < i → i < k → l[i]? ≠ some x) ∧
    (lastAux l x k = none ↔ ∀ i, i < k → l[i]? ≠ some x) := by
  induction k with
  | zero => simp [lastAux]
  | succ k ih =>
    rw [lastAux_succ]
    by_cases hk : l[k]? = some x
    · simp only [hk, beq_self_eq_true, if_true]
      constructor
      · intro j hj
        simp only [Option.some.injEq] at hj
        subst hj
        exact ⟨by omega, hk, fun i h1 h2 => by omega⟩
      · simp only [reduceCtorEq, false_iff]
        intro h; exact h k (by omega) hk
    · have hk' : (l[k]? == some x) = false := by simpa using hk
      simp only [hk', Bool.false_eq_true, if_false]
      constructor
      · intro j hj
        obtain ⟨h1, h2, h3⟩ := ih.1 j hj
        refine ⟨by omega, h2, ?_⟩
        intro i hi1 hi2
        by_cases hik : i = k
        · subst hik; exact hk
        · exact h3 i hi1 (by omega)
      · rw [ih.2]
        constructor
        · intro h i hi
          by_cases hik : i = k
          · subst hik; exact hk
          · exact h i (by omega)
        · intro h i hi; exact h i (by omega)

theorem lastIndexOf_spec {β : Type} [BEq β] [LawfulBEq β] (l : List β) (x : β) :
    (∀ j, lastIndexOf l x = some j → l[j]? = some x ∧ ∀ k, j < k → l[k]? ≠ some x) ∧
    (lastIndexOf l x = none ↔ x ∉ l) := by
  have h := lastAux_spec l x l.length
  change (∀ j, lastAux l x l.length = some j → _) ∧ (lastAux l x l.length = none ↔ _)
  constructor
  · intro j hj
    obtain ⟨h1, h2, h3⟩ := h.1 j hj
    refine ⟨h2, ?_⟩
    intro k hjk
    by_cases hk : k < l.length
    · exact h3 k hjk hk
    · have : l[k]? = none := by simp; omega
      simp [this]
  · rw [h.2, List.mem_iff_getElem?]
    constructor
    · rintro h1 ⟨i, hi⟩
      have hil : i < l.length := by
        apply Classical.byContradiction; intro hn
        have : l[i]? = none := by simp; omega
        simp [this] at hi
      exact h1 i hil hi
    · intro h1 i _ hi; exact h1 ⟨i, hi⟩

theorem lastIndexOf_lt {β : Type} [BEq β] [LawfulBEq β] (l : List β) (x : β) (j : Nat)
    (h : lastIndexOf l x = some j) : j < l.length :=
  ((lastAux_spec l x l.length).1 j h).1

theorem lastIndexOf_isSome_iff {β : Type} [BEq β] [LawfulBEq β] (l : List β) (x : β) :
    (lastIndexOf l x).isSome = true ↔ x ∈ l := by
  have := (lastIndexOf_spec l x).2
  cases h : lastIndexOf l x with
  | none => simp [this.1 h]
  | some j =>
    simp
    apply Classical.byContradiction
    intro hn
    rw [this.2 hn] at h
    simp at h


/-! ### `inverseMapPerm` -/

theorem inverseMapPerm_spec (n : Nat) (ps : List (List Nat)) (hps : ∀ p ∈ ps, IsPermOf n p)
    (m : List Nat) (h : inverseMapPerm ps = some m) :
    m.length = ps.length ∧ ∀ i, i < ps.length →
      ∃ j, m[i]? = some j ∧ j < ps.length ∧ ps.getD j [] = inverse (ps.getD i []) ∧
           compose (ps.getD i []) (ps.getD j []) = identity n ∧
           compose (ps.getD j []) (ps.getD i []) = identity n := by
  unfold inverseMapPerm at h
  refine ⟨mapM_some_length h, ?_⟩
  intro i hi
  obtain ⟨j, hj1, hj2⟩ := mapM_some_getElem h i hi
  have hjlt := lastIndexOf_lt _ _ _ hj2
  have hj3 := ((lastIndexOf_spec ps (inverse ps[i])).1 j hj2).1
  have ei : ps.getD i [] = ps[i] := by
    rw [List.getD_eq_getElem?_getD, List.getElem?_eq_getElem hi]; rfl
  have ej : ps.getD j [] = inverse ps[i] := by
    rw [List.getD_eq_getElem?_getD, hj3]; rfl
  have hp : IsPermOf n ps[i] := hps _ (List.getElem_mem hi)
  refine ⟨j, hj1, hjlt, ?_, ?_, ?_⟩
  · rw [ej, ei]
  · rw [ej, ei]; exact compose_inverse_right n _ hp
  · rw [ej, ei]; exact compose_inverse_left n _ hp

/-- the inverse-closed flag is correct -/
theorem inverseClosed_iff (ps : List (List Nat)) :
    (inverseMapPerm ps).isSome = true ↔ ∀ p ∈ ps, inverse p ∈ ps := by
  unfold inverseMapPerm
  rw [mapM_isSome_iff]
  constructor
  · intro h p hp; exact (lastIndexOf_isSome_iff _ _).1 (h p hp)
  · intro h p hp; exact (lastIndexOf_isSome_iff _ _).2 (h p hp)

/-! ### `PermDef.create` -/

theorem create_eq_some_iff (gens : List (List Nat)) (names : Option (List String))
    (central : Option (List Nat)) (name : String) (d : PermDef) :
    PermDef.create gens names central name = some d ↔
      ∃ g0 rest, gens = g0 :: rest ∧ (∀ p ∈ gens, IsPermOf g0.length p) ∧
        (names.getD (gens.map defaultName)).length = gens.length ∧
        (∀ p ∈ gens, p.length = (central.getD (List.range g0.length)).length) ∧
        central.getD (List.range g0.length) ≠ [] ∧
        (∀ x ∈ central.getD (List.range g0.length),
            x < (central.getD (List.range g0.length)).length) ∧
        d = ⟨gens, names.getD (gens.map defaultName), central.getD (List.range g0.length), name⟩ := by
  cases gens with
  | nil => simp [PermDef.create]
  | cons g0 rest =>
    simp only [PermDef.create]
    constructor
    · intro h
      split at h
      · simp at h
      · rename_i h1
        split at h
        · simp at h
        · rename_i h2
          split at h
          · simp at h
          · rename_i h3
            split at h
            · simp at h
            · rename_i h4
              split at h
              · simp at h
              · rename_i h5
                refine ⟨g0, rest, rfl, ?_, ?_, ?_, ?_, ?_, ?_⟩
                · intro p hp
                  simp only [Bool.not_eq_true', Bool.not_eq_false, List.all_eq_true] at h1
                  exact (sort_eq_range_iff _ _).1 (h1 p hp)
                · simpa using h2
                · intro p hp
                  simp only [Bool.not_eq_true', Bool.not_eq_false, List.all_eq_true] at h3
                  simpa using h3 p hp
                · intro e; simp [e] at h4
                · intro x hx
                  simp only [Bool.not_eq_true', Bool.not_eq_false, List.all_eq_true] at h5
                  simpa using h5 x hx
                · simp at h; exact h.symm
    · rintro ⟨g0', rest', e, h1, h2, h3, h4, h5, h6⟩
      simp only [List.cons.injEq] at e
      obtain ⟨e1, e2⟩ := e
      subst e1 e2
      have c1 : (g0 :: rest).all (fun p => p.mergeSort (fun a b => decide (a ≤ b)) == List.range g0.length) = true := by
        rw [List.all_eq_true]; intro p hp; exact (sort_eq_range_iff _ _).2 (h1 p hp)
      have c3 : (g0 :: rest).all (fun p => p.length == (central.getD (List.range g0.length)).length) = true := by
        rw [List.all_eq_true]; intro p hp; simpa using h3 p hp
      have c4 : (central.getD (List.range g0.length)).isEmpty = false := by
        cases hc : central.getD (List.range g0.length) with
        | nil => exact absurd hc h4
        | cons _ _ => rfl
      have c5 : (central.getD (List.range g0.length)).all
          (fun x => decide (x < (central.getD (List.range g0.length)).length)) = true := by
        rw [List.all_eq_true]; intro x hx; simpa using h5 x hx
      rw [c1]
      simp only [Bool.not_true, Bool.false_eq_true, if_false]
      rw [if_neg (by simpa using h2), c3]
      simp only [Bool.not_true, Bool.false_eq_true, if_false]
      rw [c4]
      simp only [Bool.false_eq_true, if_false]
      rw [c5]
      simp [h6]


/-! ### `inverted` -/

/-- inverted definition: generator i undoes generator i, same central state -/
theorem inverted_spec (d d' : PermDef) (h : d.inverted = some d') :
    d'.central = d.central ∧ d'.gens = d.gens.map inverse := by
  unfold PermDef.inverted at h
  obtain ⟨g0, rest, _, _, _, _, _, _, e⟩ := (create_eq_some_iff _ _ _ _ _).1 h
  subst e
  simp

theorem inverted_succeeds (d : PermDef)
    (hd : PermDef.create d.gens (some d.names) (some d.central) d.name = some d) :
    (d.inverted).isSome = true := by
  obtain ⟨g0, rest, e, h1, h2, h3, h4, h5, _⟩ := (create_eq_some_iff _ _ _ _ _).1 hd
  simp only [Option.getD_some] at h2 h3 h4 h5
  unfold PermDef.inverted
  have : PermDef.create (d.gens.map inverse) none (some d.central) =
      some ⟨d.gens.map inverse, (d.gens.map inverse).map defaultName, d.central, ""⟩ := by
    rw [create_eq_some_iff]
    refine ⟨inverse g0, rest.map inverse, by simp [e], ?_, by simp, ?_, by simpa using h4,
      by simpa using h5, by simp⟩
    · intro q hq
      obtain ⟨p, hp, rfl⟩ := List.mem_map.1 hq
      simp only [length_inverse]
      exact inverse_isPerm _ _ (h1 p hp)
    · intro q hq
      obtain ⟨p, hp, rfl⟩ := List.mem_map.1 hq
      simpa using h3 p hp
  rw [this]; rfl

/-- a created definition has valid generators of the central state's length -/
theorem create_valid (d : PermDef)
    (hd : PermDef.create d.gens (some d.names) (some d.central) d.name = some d) :
    ∀ p ∈ d.gens, IsPermOf d.central.length p := by
  obtain ⟨g0, rest, e, h1, h2, h3, h4, h5, _⟩ := (create_eq_some_iff _ _ _ _ _).1 hd
  simp only [Option.getD_some] at h2 h3 h4 h5
  have : g0.length = d.central.length := h3 g0 (by simp [e])
  intro p hp
  rw [← this]; exact h1 p hp

/-- `create` re-validates a definition exactly when it is well formed (decidable form, handy for
concrete instances) -/
theorem create_self_iff (d : PermDef) :
    PermDef.create d.gens (some d.names) (some d.central) d.name = some d ↔
      d.gens ≠ [] ∧ (∀ p ∈ d.gens, IsPermOf d.central.length p) ∧ d.names.length = d.gens.length ∧
      d.central ≠ [] ∧ ∀ x ∈ d.central, x < d.central.length := by
  rw [create_eq_some_iff]
  simp only [Option.getD_some]
  constructor
  · rintro ⟨g0, rest, e, h1, h2, h3, h4, h5, _⟩
    have : g0.length = d.central.length := h3 g0 (by simp [e])
    refine ⟨by simp [e], ?_, h2, h4, h5⟩
    intro p hp; rw [← this]; exact h1 p hp
  · rintro ⟨h0, h1, h2, h4, h5⟩
    cases hg : d.gens with
    | nil => exact absurd hg h0
    | cons g0 rest =>
      have hl : g0.length = d.central.length := (h1 g0 (by simp [hg])).length_eq
      refine ⟨g0, rest, rfl, ?_, ?_, ?_, h4, h5, ?_⟩
      · intro p hp; rw [hl]; exact h1 p (by rw [hg]; exact hp)
      · rw [← hg]; exact h2
      · intro p hp; exact (h1 p (by rw [hg]; exact hp)).length_eq
      · trivial

/-! ### `makeInverseClosed` -/

/-- the list of (inverse, name') pairs appended by `make_inverse_closed` -/
def icExtra (d : PermDef) : List (List Nat × String) :=
  (List.zip d.gens d.names).filterMap fun (p, nm) =>
    let ip := Perm.inverse p
    if d.gens.contains ip then none else some (ip, nm ++ "'")

theorem makeIC_unfold (d : PermDef) :
    d.makeInverseClosed = if d.inverseClosed then some d else
      PermDef.create (d.gens ++ (icExtra d).map (·.1)) (some (d.names ++ (icExtra d).map (·.2)))
        (some d.central) (if d.name != "" then d.name ++ "-ic" else d.name) := rfl

theorem length_icExtra_map (d : PermDef) :
    ((icExtra d).map (·.1)).length = ((icExtra d).map (·.2)).length := by simp

theorem mem_icExtra_fst (d : PermDef) (hl : d.names.length = d.gens.length) (q : List Nat) :
    q ∈ (icExtra d).map (·.1) ↔ ∃ p ∈ d.gens, q = inverse p ∧ inverse p ∉ d.gens := by
  simp only [icExtra, List.mem_map, List.mem_filterMap]
  constructor
  · rintro ⟨⟨q', nm'⟩, ⟨⟨p, nm⟩, hz, hif⟩, rfl⟩
    simp only at hif
    split at hif
    · simp at hif
    · rename_i hc
      simp only [Option.some.injEq, Prod.mk.injEq] at hif
      refine ⟨p, (List.of_mem_zip hz).1, hif.1.symm, ?_⟩
      simpa using hc
  · rintro ⟨p, hp, rfl, hn⟩
    obtain ⟨i, hi, rfl⟩ := List.getElem_of_mem hp
    have hi' : i < d.names.length := by omega
    refine ⟨(inverse d.gens[i], d.names[i] ++ "'"), ⟨(d.gens[i], d.names[i]), ?_, ?_⟩, rfl⟩
    · rw [List.mem_iff_getElem]
      exact ⟨i, by simp; omega, by simp⟩
    · simp [hn]

theorem makeIC_prefix (d d' : PermDef) (h : d.makeInverseClosed = some d') :
    d'.central = d.central ∧ d.gens <+: d'.gens ∧ d.names <+: d'.names ∧
    (∀ q, q ∈ d'.gens ↔ q ∈ d.gens ∨ (∃ p ∈ d.gens, q = inverse p ∧ inverse p ∉ d.gens)) := by
  rw [makeIC_unfold] at h
  split at h
  · rename_i hc
    simp only [Option.some.injEq] at h
    subst h
    refine ⟨rfl, List.prefix_refl _, List.prefix_refl _, ?_⟩
    intro q
    constructor
    · exact Or.inl
    · rintro (hq | ⟨p, hp, rfl, hn⟩)
      · exact hq
      · exact absurd ((inverseClosed_iff d.gens).1 hc p hp) hn
  · obtain ⟨g0, rest, _, _, h2, _, _, _, e⟩ := (create_eq_some_iff _ _ _ _ _).1 h
    have hl : d.names.length = d.gens.length := by
      simp only [Option.getD_some, List.length_append, List.length_map] at h2
      omega
    subst e
    refine ⟨rfl, List.prefix_append _ _, List.prefix_append _ _, ?_⟩
    intro q
    simp only [List.mem_append]
    rw [mem_icExtra_fst d hl]


theorem makeIC_closed (d d' : PermDef) (hvalid : ∀ p ∈ d.gens, IsPermOf d.central.length p)
    (h : d.makeInverseClosed = some d') : d'.inverseClosed = true := by
  unfold PermDef.inverseClosed
  rw [inverseClosed_iff]
  obtain ⟨_, _, _, hmem⟩ := makeIC_prefix d d' h
  intro q hq
  rw [hmem] at hq
  rw [hmem]
  rcases hq with hq | ⟨p, hp, rfl, hn⟩
  · by_cases hin : inverse q ∈ d.gens
    · exact Or.inl hin
    · exact Or.inr ⟨q, hq, rfl, hin⟩
  · left
    rw [inverse_inverse _ p (hvalid p hp)]
    exact hp

theorem makeIC_idem (d d' : PermDef) (hvalid : ∀ p ∈ d.gens, IsPermOf d.central.length p)
    (h : d.makeInverseClosed = some d') : d'.makeInverseClosed = some d' := by
  rw [makeIC_unfold, makeIC_closed d d' hvalid h]
  rfl

theorem makeIC_succeeds (d : PermDef)
    (hd : PermDef.create d.gens (some d.names) (some d.central) d.name = some d) :
    (d.makeInverseClosed).isSome = true := by
  rw [makeIC_unfold]
  split
  · rfl
  · obtain ⟨g0, rest, e, h1, h2, h3, h4, h5, _⟩ := (create_eq_some_iff _ _ _ _ _).1 hd
    simp only [Option.getD_some] at h2 h3 h4 h5
    have hx : ∀ q ∈ (icExtra d).map (·.1), ∃ p ∈ d.gens, q = inverse p := by
      intro q hq
      obtain ⟨p, hp, e, _⟩ := (mem_icExtra_fst d h2 q).1 hq
      exact ⟨p, hp, e⟩
    have : PermDef.create (d.gens ++ (icExtra d).map (·.1))
        (some (d.names ++ (icExtra d).map (·.2))) (some d.central)
        (if d.name != "" then d.name ++ "-ic" else d.name) =
        some ⟨d.gens ++ (icExtra d).map (·.1), d.names ++ (icExtra d).map (·.2), d.central,
          (if d.name != "" then d.name ++ "-ic" else d.name)⟩ := by
      rw [create_eq_some_iff]
      refine ⟨g0, rest ++ (icExtra d).map (·.1), by simp [e], ?_, ?_, ?_, by simpa using h4,
        by simpa using h5, by simp⟩
      · intro q hq
        rcases List.mem_append.1 hq with hq | hq
        · exact h1 q hq
        · obtain ⟨p, hp, rfl⟩ := hx q hq
          exact inverse_isPerm _ _ (h1 p hp)
      · simp [h2]
      · intro q hq
        rcases List.mem_append.1 hq with hq | hq
        · simpa using h3 q hq
        · obtain ⟨p, hp, rfl⟩ := hx q hq
          simpa using h3 p hp
    rw [this]; rfl

theorem makeIC_names (d d' : PermDef) (h : d.makeInverseClosed = some d')
    (hnc : d.inverseClosed = false) :
    d'.names = d.names ++ ((List.zip d.gens d.names).filterMap fun (p, nm) =>
        if d.gens.contains (inverse p) then none else some (nm ++ "'")) ∧
    d'.name = (if d.name != "" then d.name ++ "-ic" else d.name) := by
  rw [makeIC_unfold, hnc] at h
  simp only [Bool.false_eq_true, if_false] at h
  obtain ⟨g0, rest, _, _, _, _, _, _, e⟩ := (create_eq_some_iff _ _ _ _ _).1 h
  subst e
  refine ⟨?_, rfl⟩
  simp only [Option.getD_some, icExtra, List.map_filterMap]
  congr 2
  funext ⟨p, nm⟩
  simp only
  split <;> rfl

theorem filterMap_zip_fst {α β γ : Type} (g : α → Option γ) (l : List α) (m : List β)
    (h : m.length = l.length) : (List.zip l m).filterMap (fun x => g x.1) = l.filterMap g := by
  induction l generalizing m with
  | nil => simp
  | cons a t ih =>
    cases m with
    | nil => simp at h
    | cons b m' =>
      simp only [List.zip_cons_cons, List.filterMap_cons]
      rw [ih m' (by simpa using h)]

/-- the appended generators are exactly the missing inverses, in generator order -/
theorem makeIC_gens (d d' : PermDef) (h : d.makeInverseClosed = some d')
    (hnc : d.inverseClosed = false) :
    d'.gens = d.gens ++ (d.gens.filter fun p => !d.gens.contains (inverse p)).map inverse := by
  rw [makeIC_unfold, hnc] at h
  simp only [Bool.false_eq_true, if_false] at h
  obtain ⟨g0, rest, _, _, h2, _, _, _, e⟩ := (create_eq_some_iff _ _ _ _ _).1 h
  have hl : d.names.length = d.gens.length := by
    simp only [Option.getD_some, List.length_append, List.length_map] at h2
    omega
  subst e
  simp only
  congr 1
  simp only [icExtra, List.map_filterMap]
  have : (fun x : List Nat × String => Option.map (fun x => x.1)
      (match x with
        | (p, nm) => if d.gens.contains (inverse p) = true then none else some (inverse p, nm ++ "'"))) =
      fun x => (fun p => if d.gens.contains (inverse p) = true then none else some (inverse p)) x.1 := by
    funext ⟨p, nm⟩
    simp only
    split <;> rfl
  rw [this, filterMap_zip_fst
    (fun p => if d.gens.contains (inverse p) = true then none else some (inverse p)) _ _ hl]
  rw [← List.filterMap_eq_filter, List.map_filterMap]
  congr 1
  funext p
  by_cases hc : inverse p ∈ d.gens
  · simp [Option.guard, hc]
  · simp [Option.guard, hc]

/-! ### `revertPath` -/

theorem applyPath_append {α : Type} (act : Nat → α → α) (s : α) (p q : List Nat) :
    Cv.applyPath act s (p ++ q) = Cv.applyPath act (Cv.applyPath act s p) q := by
  simp [Cv.applyPath, List.foldl_append]

theorem applyPath_length (ps : List (List Nat)) (n : Nat) (hps : ∀ p ∈ ps, p.length = n)
    (path : List Nat) (hpath : ∀ i ∈ path, i < ps.length) (A : List Nat) (hA : A.length = n) :
    (Cv.applyPath (fun i s => apply (ps.getD i []) s) A path).length = n := by
  induction path generalizing A with
  | nil => simpa [Cv.applyPath] using hA
  | cons i t ih =>
    simp only [Cv.applyPath, List.foldl_cons]
    apply ih (fun j hj => hpath j (by simp [hj]))
    have hi : i < ps.length := hpath i (by simp)
    rw [length_apply, List.getD_eq_getElem?_getD, List.getElem?_eq_getElem hi]
    exact hps _ (List.getElem_mem hi)

theorem revert_aux (n : Nat) (ps : List (List Nat)) (hps : ∀ p ∈ ps, IsPermOf n p)
    (m : List Nat) (hm : inverseMapPerm ps = some m) (path r : List Nat)
    (hpath : ∀ i ∈ path, i < ps.length)
    (hr : path.map (fun i => m[i]?) = r.map some) (A : List Nat) (hA : A.length = n) :
    Cv.applyPath (fun i s => apply (ps.getD i []) s)
      (Cv.applyPath (fun i s => apply (ps.getD i []) s) A path) r.reverse = A := by
  obtain ⟨hml, hmspec⟩ := inverseMapPerm_spec n ps hps m hm
  induction path generalizing r A with
  | nil =>
    have : r = [] := by simpa using hr.symm
    subst this; rfl
  | cons i t ih =>
    cases r with
    | nil => simp at hr
    | cons j r' =>
      simp only [List.map_cons, List.cons.injEq] at hr
      obtain ⟨hj, hr'⟩ := hr
      have hi : i < ps.length := hpath i (by simp)
      obtain ⟨j', hj1, hj2, hj3, _, _⟩ := hmspec i hi
      rw [hj] at hj1
      simp only [Option.some.injEq] at hj1
      subst hj1
      have hpi : IsPermOf n (ps.getD i []) := by
        rw [List.getD_eq_getElem?_getD, List.getElem?_eq_getElem hi]
        exact hps _ (List.getElem_mem hi)
      rw [List.reverse_cons, applyPath_append]
      have hA' : (apply (ps.getD i []) A).length = n := by
        rw [length_apply]; exact hpi.length_eq
      have := ih r' (fun k hk => hpath k (by simp [hk])) hr' (apply (ps.getD i []) A) hA'
      simp only [Cv.applyPath, List.foldl_cons, List.foldl_nil] at this ⊢
      rw [this, hj3]
      exact (apply_inverse_cancel n (ps.getD i []) hpi A hA).1

/-- reverting a valid path A→B gives a valid path B→A of the same length (action on states of length n) -/
theorem revertPath_spec (n : Nat) (ps : List (List Nat)) (hps : ∀ p ∈ ps, IsPermOf n p)
    (m path rev : List Nat) (hm : inverseMapPerm ps = some m) (hpath : ∀ i ∈ path, i < ps.length)
    (hr : revertPath (some m) path = some rev) (A : List Nat) (hA : A.length = n) :
    rev.length = path.length ∧
    Cv.applyPath (fun i s => apply (ps.getD i []) s)
      (Cv.applyPath (fun i s => apply (ps.getD i []) s) A path) rev = A := by
  simp only [revertPath] at hr
  have hlen : rev.length = path.length := by
    have := mapM_some_length hr; simpa using this
  refine ⟨hlen, ?_⟩
  have h1 := (mapM_eq_some_iff _ _ _).1 hr
  have h2 : path.map (fun i => m[i]?) = rev.reverse.map some := by
    have := congrArg List.reverse h1
    simpa [List.map_reverse] using this
  have := revert_aux n ps hps m hm path rev.reverse hpath h2 A hA
  simpa using this

/-! ### matrices: soundness of `inv` and `isInverse` -/

theorem Matrix.inv_sound (B n : Nat) (A cand R : List Nat) (h : Cv.Matrix.inv B n A cand = some R) :
    Cv.Matrix.apply B n n A R = Cv.Matrix.eye n := by
  unfold Cv.Matrix.inv at h
  split at h
  · rename_i hc
    simp only [Option.some.injEq] at h
    subst h
    exact beq_iff_eq.1 hc
  · simp at h

theorem Matrix.isInverse_symm (B n : Nat) (A C : List Nat) :
    Cv.Matrix.isInverse B n A C = Cv.Matrix.isInverse B n C A := by
  unfold Cv.Matrix.isInverse
  exact Bool.and_comm _ _

/-- `isInverse` is sound: both products are the identity matrix -/
theorem Matrix.isInverse_sound (B n : Nat) (A C : List Nat) (h : Cv.Matrix.isInverse B n A C = true) :
    Cv.Matrix.apply B n n A C = Cv.Matrix.eye n ∧ Cv.Matrix.apply B n n C A = Cv.Matrix.eye n := by
  unfold Cv.Matrix.isInverse at h
  simpa using h

end Cv.GraphDef
