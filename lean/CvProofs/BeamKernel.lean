/-
  Kernel-evaluable copies of the beam searches and of the BFS-mode random walk (`CvModel/Beam.lean`).  Core Lean only.

  `beamSimple`, `beamAdvanced` and `walksBfs` call `Graph.unique` (= `uniqueStates`, a `List.mergeSort`) and `sortInts`;
  `List.mergeSort` is defined by well-founded recursion, so `decide +kernel` cannot evaluate them.  The `…K` functions
  are literal copies using the structural sorts of `CvProofs/BfsKernel.lean`; the equalities hold for EVERY graph,
  configuration and input, so a concrete run is evaluated by `rw [beamSimple_eq_beamSimpleK]; decide +kernel`.
  `walksClassic` and `walksNbt` do not sort and are evaluated directly (see the tests at the end).
-/
import CvProofs.BfsKernel
import CvModel.Beam
import CvProofs.InstanceExample
namespace Cv.Kernel

variable {α : Type}

/-! ### `search_simple` -/

def simpleLoopK (g gi : Graph α) (invMap : Option (List Nat)) (central : α) (c : SimpleCfg α)
    (ballH : List (List Int)) : Nat → Nat → List α → List (List Int) → Option BeamRes
  | 0, _, _, _ => some { found := false, length := 0, path := none }
  | fuel+1, i, layer1, allH =>
    let layer2 := uniqueStatesK g.hash (g.neighbors layer1)
    let layer2H := layer2.map g.hash
    match checkPathFound ballH layer2H with
    | some j =>
      if !c.returnPath then some { found := true, length := i + j + 1, path := none }
      else if j == 0 then
        (restorePath gi allH central).map fun p => { found := true, length := i + j + 1, path := some p }
      else
        match layer2.find? (fun x => isinSorted (ballH.getD j []) (g.hash x)) with
        | none => none
        | some middle =>
          match restorePath gi allH middle, findPathFrom g gi invMap ballH middle with
          | some p1, .found p2 =>
            if (p1 ++ p2).length == i + j + 1 then
              some { found := true, length := i + j + 1, path := some (p1 ++ p2) }
            else none
          | _, _ => none
    | none =>
      let layer2' := if layer2.length ≥ c.beamWidth then gather layer2 (c.select i layer2) else layer2
      simpleLoopK g gi invMap central c ballH fuel (i + 1) layer2'
        (if c.returnPath then allH ++ [layer2'.map g.hash] else allH)

theorem simpleLoop_eq_simpleLoopK (g gi : Graph α) (invMap : Option (List Nat)) (central : α) (c : SimpleCfg α)
    (ballH : List (List Int)) :
    ∀ fuel i layer1 allH, simpleLoop g gi invMap central c ballH fuel i layer1 allH =
      simpleLoopK g gi invMap central c ballH fuel i layer1 allH := by
  intro fuel
  induction fuel with
  | zero => intro i layer1 allH; rfl
  | succ fuel ih =>
    intro i layer1 allH
    simp only [simpleLoop, simpleLoopK, Graph.unique, uniqueStates_eq, ih]
    rfl

def beamSimpleK (g gi : Graph α) (invMap : Option (List Nat)) (central start : α) (c : SimpleCfg α) :
    Option BeamRes :=
  let layer1 := uniqueStatesK g.hash [start]
  let layer1H := layer1.map g.hash
  if layer1H.head? == some (g.hash central) then some { found := true, length := 0, path := some [] }
  else
    match c.ball with
    | some b =>
      if !g.invClosed then none
      else simpleLoopK g gi invMap central c b c.maxSteps 0 layer1 [layer1H]
    | none => simpleLoopK g gi invMap central c [[g.hash central]] c.maxSteps 0 layer1 [layer1H]

/-- **`beamSimpleK` is `beamSimple`** -/
theorem beamSimple_eq_beamSimpleK (g gi : Graph α) (invMap : Option (List Nat)) (central start : α)
    (c : SimpleCfg α) :
    beamSimple g gi invMap central start c = beamSimpleK g gi invMap central start c := by
  simp only [beamSimple, beamSimpleK, Graph.unique, uniqueStates_eq, simpleLoop_eq_simpleLoopK]
  rfl

/-! ### `search_advanced` -/

def advLoopK [DecidableEq α] (g : Graph α) (dest : α) (c : AdvCfg α) :
    Nat → Nat → List α → Ring → Nat → Option BeamRes
  | 0, _, _, _, _ => some { found := false, length := c.maxSteps, path := none }
  | fuel+1, iStep, beam, ring, cyc =>
    let new := uniqueStatesK g.hash (g.neighbors beam)
    if new.any (· == dest) then some { found := true, length := iStep, path := none }
    else
      let r : Option (List α × Ring × Nat) :=
        if c.historyDepth > 0 then
          let newH := new.map g.hash
          let banned := ring.flatten
          let kept := new.filter fun x => !banned.contains (g.hash x)
          if kept.isEmpty then none
          else
            let cyc' := (cyc + 1) % c.historyDepth
            match writeColumn (ring.getD cyc' []) newH with
            | some col => some (kept, ring.set cyc' col, cyc')
            | none => none
        else some (new, ring, cyc)
      match r with
      | none =>
        if c.historyDepth > 0 ∧ (new.filter fun x => !ring.flatten.contains (g.hash x)).isEmpty then
          some { found := false, length := iStep, path := none }
        else none
      | some (kept, ring', cyc') =>
        let beam' := if kept.length > c.beamWidth then gather kept (c.select iStep kept) else kept
        advLoopK g dest c fuel (iStep + 1) beam' ring' cyc'

theorem advLoop_eq_advLoopK [DecidableEq α] (g : Graph α) (dest : α) (c : AdvCfg α) :
    ∀ fuel iStep beam ring cyc, advLoop g dest c fuel iStep beam ring cyc =
      advLoopK g dest c fuel iStep beam ring cyc := by
  intro fuel
  induction fuel with
  | zero => intro iStep beam ring cyc; rfl
  | succ fuel ih =>
    intro iStep beam ring cyc
    simp only [advLoop, advLoopK, Graph.unique, uniqueStates_eq, ih]
    rfl

def beamAdvancedK [DecidableEq α] (g : Graph α) (start dest : α) (c : AdvCfg α) : Option BeamRes :=
  if start == dest then some { found := true, length := 0, path := some [] }
  else
    let ring : Ring :=
      if c.historyDepth > 0 then
        List.replicate c.historyDepth (List.replicate (c.beamWidth * g.nGens) (g.hash start))
      else []
    advLoopK g dest c c.maxSteps 1 [start] ring 0

/-- **`beamAdvancedK` is `beamAdvanced`** -/
theorem beamAdvanced_eq_beamAdvancedK [DecidableEq α] (g : Graph α) (start dest : α) (c : AdvCfg α) :
    beamAdvanced g start dest c = beamAdvancedK g start dest c := by
  simp only [beamAdvanced, beamAdvancedK, advLoop_eq_advLoopK]

/-! ### random walks, BFS mode -/

def _root_.Cv.HashSetM.addSortedK (s : HashSetM) (h : List Int) : HashSetM :=
  let d := s.data ++ [h]
  if d.length ≥ 10 then { data := [sortIntsK d.flatten] } else { data := d }

theorem addSorted_eq_addSortedK (s : HashSetM) (h : List Int) : s.addSorted h = s.addSortedK h := by
  simp only [HashSetM.addSorted, HashSetM.addSortedK, sortInts_eq]

def walksBfsLoopK (g : Graph α) (width : Nat) : Nat → Nat → List α → HashSetM → List (List Nat) →
    List (α × Nat) → List (α × Nat)
  | 0, _, _, _, _, out => out
  | fuel+1, iStep, cur, seen, perms, out =>
    let nxt := uniqueStatesK g.hash (g.neighbors cur)
    let nxt := nxt.filter fun x => seen.unseen (g.hash x)
    if nxt.isEmpty then out
    else
      let (layer, perms') :=
        if nxt.length > width then
          match perms with
          | p :: rest => (gather nxt (p.take width), rest)
          | [] => (nxt.take width, [])
        else (nxt, perms)
      walksBfsLoopK g width fuel (iStep + 1) layer (seen.addSortedK (sortIntsK (layer.map g.hash))) perms'
        (out ++ layer.map fun x => (x, iStep))

theorem walksBfsLoop_eq_walksBfsLoopK (g : Graph α) (width : Nat) :
    ∀ fuel iStep cur seen perms out, walksBfsLoop g width fuel iStep cur seen perms out =
      walksBfsLoopK g width fuel iStep cur seen perms out := by
  intro fuel
  induction fuel with
  | zero => intro iStep cur seen perms out; rfl
  | succ fuel ih =>
    intro iStep cur seen perms out
    simp only [walksBfsLoop, walksBfsLoopK, Graph.unique, uniqueStates_eq, sortInts_eq, addSorted_eq_addSortedK, ih]
    rfl

def walksBfsK (g : Graph α) (width length : Nat) (start : α) (perms : List (List Nat)) : List (α × Nat) :=
  walksBfsLoopK g width (length - 1) 1 [start] (({} : HashSetM).addSortedK [g.hash start]) perms [(start, 0)]

/-- **`walksBfsK` is `walksBfs`** -/
theorem walksBfs_eq_walksBfsK (g : Graph α) (width length : Nat) (start : α) (perms : List (List Nat)) :
    walksBfs g width length start perms = walksBfsK g width length start perms := by
  simp only [walksBfs, walksBfsK, walksBfsLoop_eq_walksBfsLoopK, addSorted_eq_addSortedK]

/-! ### tests: the runs evaluated in the kernel on the encoded LRX(4) graph (non-vacuity evidence)

`gB` is the one-word encoding of LRX(4) (`Cv.Instance.Example.gI`), `giB` its copy with inverted generators
(`lrx4.map inverse = [R, L, X]`, inverse map `[1, 0, 2]`).  The state `[1, 0, 3, 2]` is the unique state at distance 6
from the identity. -/

section Tests
open Cv.Codec Cv.Instance Cv.Instance.Example

def gB : Graph (List W) := encodedPermGraph 2 4 lrx4 identityHash true 1
def giB : Graph (List W) := encodedPermGraph 2 4 (lrx4.map Cv.Perm.inverse) identityHash true 1

theorem lrx4_inverses : lrx4.map Cv.Perm.inverse = [[3, 0, 1, 2], [1, 2, 3, 0], [1, 0, 2, 3]] := by decide

/-- beam of width 3, no ball, path restored: the target is still reached in 6 steps -/
theorem lrx4_beam_noball :
    beamSimple gB giB none (encode 2 4 id4) (encode 2 4 [1, 0, 3, 2])
      { beamWidth := 3, maxSteps := 10, returnPath := true, ball := none,
        select := fun _ l => List.range (min 3 l.length) } =
      some { found := true, length := 6, path := some [2, 0, 0, 2, 1, 1] } := by
  rw [beamSimple_eq_beamSimpleK]; decide +kernel

/-- beam wider than the graph (nothing is cut): length 6 = the distance -/
theorem lrx4_beam_wide :
    beamSimple gB giB none (encode 2 4 id4) (encode 2 4 [1, 0, 3, 2])
      { beamWidth := 30, maxSteps := 10, returnPath := true, ball := none,
        select := fun _ l => List.range (min 30 l.length) } =
      some { found := true, length := 6, path := some [2, 0, 0, 2, 0, 0] } := by
  rw [beamSimple_eq_beamSimpleK]; decide +kernel

/-- the hashes of the BFS layers of `gB` from the identity (identity hasher: the word itself) -/
theorem lrx4_ball_hashes :
    (bfs gB { returnHashes := true } [encode 2 4 id4]).hashes =
      [[228], [57, 147, 225], [54, 78, 120, 135, 156], [30, 39, 75, 114, 141, 216], [27, 45, 99, 201, 210],
       [108, 180, 198], [177]] ∧
    (bfs gB { returnHashes := true } [encode 2 4 id4]).hashes.take 3 =
      [[228], [57, 147, 225], [54, 78, 120, 135, 156]] := by
  rw [bfs_eq_bfsK]; decide +kernel

/-- beam of width 3 with the ball of radius 2 (layers 0, 1, 2) around the identity -/
theorem lrx4_beam_ball :
    beamSimple gB giB (some [1, 0, 2]) (encode 2 4 id4) (encode 2 4 [1, 0, 3, 2])
      { beamWidth := 3, maxSteps := 10, returnPath := true,
        ball := some [[228], [57, 147, 225], [54, 78, 120, 135, 156]],
        select := fun _ l => List.range (min 3 l.length) } =
      some { found := true, length := 6, path := some [2, 0, 0, 2, 1, 1] } := by
  rw [beamSimple_eq_beamSimpleK]; decide +kernel

/-- the same with a beam wider than the graph, and without restoring the path -/
theorem lrx4_beam_ball_wide :
    beamSimple gB giB (some [1, 0, 2]) (encode 2 4 id4) (encode 2 4 [1, 0, 3, 2])
      { beamWidth := 30, maxSteps := 10, returnPath := true,
        ball := some [[228], [57, 147, 225], [54, 78, 120, 135, 156]],
        select := fun _ l => List.range (min 30 l.length) } =
      some { found := true, length := 6, path := some [0, 2, 0, 0, 2, 1] } ∧
    beamSimple gB giB (some [1, 0, 2]) (encode 2 4 id4) (encode 2 4 [1, 0, 3, 2])
      { beamWidth := 30, maxSteps := 10, returnPath := false,
        ball := some [[228], [57, 147, 225], [54, 78, 120, 135, 156]],
        select := fun _ l => List.range (min 30 l.length) } =
      some { found := true, length := 6, path := none } := by
  rw [beamSimple_eq_beamSimpleK, beamSimple_eq_beamSimpleK]; decide +kernel

/-- the three returned paths lead from `[1, 0, 3, 2]` to the identity -/
theorem lrx4_beam_paths_valid :
    applyPath gB.act (encode 2 4 [1, 0, 3, 2]) [2, 0, 0, 2, 1, 1] = encode 2 4 id4 ∧
    applyPath gB.act (encode 2 4 [1, 0, 3, 2]) [2, 0, 0, 2, 0, 0] = encode 2 4 id4 ∧
    applyPath gB.act (encode 2 4 [1, 0, 3, 2]) [0, 2, 0, 0, 2, 1] = encode 2 4 id4 := by decide +kernel

/-- `search_advanced`, history of depth 2: wide beam (nothing cut) and beam of width 2 (detour: 8 steps) -/
theorem lrx4_beam_adv :
    beamAdvanced gB (encode 2 4 [1, 0, 3, 2]) (encode 2 4 id4)
      { beamWidth := 30, maxSteps := 10, historyDepth := 2, select := fun _ l => List.range l.length } =
      some { found := true, length := 6, path := none } ∧
    beamAdvanced gB (encode 2 4 [1, 0, 3, 2]) (encode 2 4 id4)
      { beamWidth := 2, maxSteps := 10, historyDepth := 2, select := fun _ _ => List.range 2 } =
      some { found := true, length := 8, path := none } := by
  rw [beamAdvanced_eq_beamAdvancedK, beamAdvanced_eq_beamAdvancedK]; decide +kernel

/-- BFS-mode walks of width 2 and length 5, thinned by the given permutations -/
theorem lrx4_walksBfs_thin :
    walksBfs gB 2 5 (encode 2 4 id4) [[1, 0, 2], [0, 1, 2, 3], [2, 0, 1]] =
      [([0xe4#64], 0), ([0x93#64], 1), ([0x39#64], 1), ([0x36#64], 2), ([0x4e#64], 2), ([0xd8#64], 3),
       ([0x4b#64], 3), ([0x2d#64], 4), ([0x63#64], 4)] ∧
    (walksBfs gB 2 5 (encode 2 4 id4) [[1, 0, 2], [0, 1, 2, 3], [2, 0, 1]]).map
        (fun p => (decode 2 4 p.1, p.2)) =
      [([0, 1, 2, 3], 0), ([3, 0, 1, 2], 1), ([1, 2, 3, 0], 1), ([2, 1, 3, 0], 2), ([2, 3, 0, 1], 2),
       ([0, 2, 1, 3], 3), ([3, 2, 0, 1], 3), ([1, 3, 2, 0], 4), ([3, 0, 2, 1], 4)] := by
  rw [walksBfs_eq_walksBfsK]; decide +kernel

/-- BFS-mode walks wider than the graph: all 24 states with their distances (growth `[1, 3, 5, 6, 5, 3, 1]`) -/
theorem lrx4_walksBfs_all :
    walksBfs gB 30 10 (encode 2 4 id4) [] =
      [([0xe4#64], 0),
       ([0x39#64], 1), ([0x93#64], 1), ([0xe1#64], 1),
       ([0x36#64], 2), ([0x4e#64], 2), ([0x78#64], 2), ([0x87#64], 2), ([0x9c#64], 2),
       ([0x1e#64], 3), ([0x27#64], 3), ([0x4b#64], 3), ([0x72#64], 3), ([0x8d#64], 3), ([0xd8#64], 3),
       ([0x1b#64], 4), ([0x2d#64], 4), ([0x63#64], 4), ([0xc9#64], 4), ([0xd2#64], 4),
       ([0x6c#64], 5), ([0xb4#64], 5), ([0xc6#64], 5),
       ([0xb1#64], 6)] := by
  rw [walksBfs_eq_walksBfsK]; decide +kernel

theorem lrx4_walksBfs_all_decoded :
    (walksBfs gB 30 10 (encode 2 4 id4) []).map (fun p => (decode 2 4 p.1, p.2)) =
      [([0, 1, 2, 3], 0),
       ([1, 2, 3, 0], 1), ([3, 0, 1, 2], 1), ([1, 0, 2, 3], 1),
       ([2, 1, 3, 0], 2), ([2, 3, 0, 1], 2), ([0, 2, 3, 1], 2), ([3, 1, 0, 2], 2), ([0, 3, 1, 2], 2),
       ([2, 3, 1, 0], 3), ([3, 1, 2, 0], 3), ([3, 2, 0, 1], 3), ([2, 0, 3, 1], 3), ([1, 3, 0, 2], 3),
       ([0, 2, 1, 3], 3),
       ([3, 2, 1, 0], 4), ([1, 3, 2, 0], 4), ([3, 0, 2, 1], 4), ([1, 2, 0, 3], 4), ([2, 0, 1, 3], 4),
       ([0, 3, 2, 1], 5), ([0, 1, 3, 2], 5), ([2, 1, 0, 3], 5),
       ([1, 0, 3, 2], 6)] := by
  rw [walksBfs_eq_walksBfsK]; decide +kernel

/-- classic mode does not sort: evaluated directly -/
theorem lrx4_walksClassic :
    walksClassic gB 2 3 (encode 2 4 id4) [[0, 2], [1, 1]] =
      [([0xe4#64], 0), ([0xe4#64], 0), ([0x39#64], 1), ([0xe1#64], 1), ([0xe4#64], 2), ([0x87#64], 2)] ∧
    (walksClassic gB 2 3 (encode 2 4 id4) [[0, 2], [1, 1]]).map (fun p => (decode 2 4 p.1, p.2)) =
      [([0, 1, 2, 3], 0), ([0, 1, 2, 3], 0), ([1, 2, 3, 0], 1), ([1, 0, 2, 3], 1), ([0, 1, 2, 3], 2),
       ([3, 1, 0, 2], 2)] := by decide +kernel

/-- non-backtracking mode does not sort: evaluated directly -/
theorem lrx4_walksNbt :
    walksNbt gB 2 3 1 (encode 2 4 id4) [[0, 1, 2, 3, 4, 5], [0, 1, 2, 3, 4, 5]] =
      [([0xe4#64], 0), ([0xe4#64], 0), ([0x39#64], 1), ([0x39#64], 1), ([0x4e#64], 2), ([0x4e#64], 2)] ∧
    (walksNbt gB 2 3 1 (encode 2 4 id4) [[0, 1, 2, 3, 4, 5], [0, 1, 2, 3, 4, 5]]).map
        (fun p => (decode 2 4 p.1, p.2)) =
      [([0, 1, 2, 3], 0), ([0, 1, 2, 3], 0), ([1, 2, 3, 0], 1), ([1, 2, 3, 0], 1), ([2, 3, 0, 1], 2),
       ([2, 3, 0, 1], 2)] := by decide +kernel

end Tests

end Cv.Kernel
