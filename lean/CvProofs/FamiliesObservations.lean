/-
  Boundary observations about the library graph families (concrete instances, checked by `decide` on
  the specification `CvModel/Families.lean`, which agrees with the library on all of these parameter
  values — see compare_families.py).  None of them is classified as a defect here; they are the
  places where the library's output is degenerate or deviates from its own docstrings.
-/
import CvModel.Families
namespace Cv.Families.Observations
open Cv.Families

/-- `cyclic_coxeter(2)`: the "cyclic" transposition `(0, n-1)` coincides with `(0,1)`: duplicate
generator (and duplicate generator name) -/
theorem cyclic_coxeter_2 :
    (permFamily "cyclic_coxeter" [2]).map (fun d => (d.gens, d.names)) =
      some ([[1, 0], [1, 0]], ["(0,1)", "(0,1)"]) := by decide

/-- `cubic_pancake(2, subset)` raises for `subset ∈ {2, 4, 6, 7}` although the docstring promises every
`n ≥ 2`; and for small `n` the "three prefix reversals" contain identities / duplicates (here `R_i`
reverses the first `i` entries, unlike in `pancake`, where `R_i` reverses `i+1` entries) -/
theorem cubic_pancake_small :
    (permFamily "cubic_pancake" [2, 2]).isNone ∧ (permFamily "cubic_pancake" [2, 4]).isNone ∧
    (permFamily "cubic_pancake" [2, 6]).isNone ∧ (permFamily "cubic_pancake" [2, 7]).isNone ∧
    (permFamily "cubic_pancake" [2, 1]).map (fun d => (d.gens, d.names)) =
      some ([[1, 0], [0, 1], [1, 0]], ["R2", "R1", "R2"]) ∧
    (permFamily "cubic_pancake" [3, 7]).map (fun d => (d.gens, d.names)) =
      some ([[2, 1, 0], [0, 1, 2], [0, 1, 2]], ["R3", "R1", "R0"]) ∧
    (permFamily "cubic_pancake" [4, 4]).map (fun d => (d.gens, d.names)) =
      some ([[3, 2, 1, 0], [2, 1, 0, 3], [0, 1, 2, 3]], ["R4", "R3", "R1"]) := by decide

/-- `burnt_pancake`: `R_i` turns over the top `i` pancakes (`R1` exchanges only the two sides of pancake
0), while the docstring describes `R_i` as the reversal of the elements `0..i, n..n+i` (`i+1` pancakes) -/
theorem burnt_pancake_2 :
    (permFamily "burnt_pancake" [2]).map (fun d => (d.gens, d.names)) =
      some ([[2, 1, 0, 3], [3, 2, 1, 0]], ["R1", "R2"]) := by decide

/-- `signed_reversals(n)` has `n(n+1)/2` generators named `R[i..j]` with 0-based `i ≤ j` (the docstring
also says "n generators denoted R[1..1],R[1..2]..R[n..n]") -/
theorem signed_reversals_2 :
    (permFamily "signed_reversals" [2]).map (fun d => (d.gens.length, d.names)) =
      some (3, ["R[0..0]", "R[0..1]", "R[1..1]"]) := by decide

/-- `rapaport_m2`: for `n = 2, 3` the first two generators coincide; for `n = 2` the third one is the
identity -/
theorem rapaport_m2_small :
    (permFamily "rapaport_m2" [2]).map (·.gens) = some [[1, 0], [1, 0], [0, 1]] ∧
    (permFamily "rapaport_m2" [3]).map (·.gens) = some [[1, 0, 2], [1, 0, 2], [0, 2, 1]] := by decide

/-- `wrapped_k_cycles(n, n)`: all `n` generators are the same permutation (under `n` different names) -/
theorem wrapped_k_cycles_3_3 :
    (permFamily "wrapped_k_cycles" [3, 3]).map (fun d => (d.gens, d.names)) =
      some ([[1, 2, 0], [1, 2, 0], [1, 2, 0]], ["(0 1 2)", "(1 2 0)", "(2 0 1)"]) := by decide

/-- `increasing_k_cycles(n, 1)` and `consecutive_k_cycles(n, 1)`: every generator is the identity -/
theorem k_cycles_k1 :
    (permFamily "increasing_k_cycles" [3, 1]).map (·.gens) = some [[0, 1, 2], [0, 1, 2], [0, 1, 2]] ∧
    (permFamily "consecutive_k_cycles" [3, 1]).map (·.gens) = some [[0, 1, 2], [0, 1, 2], [0, 1, 2]] := by
  decide

/-- `koltsov3(n, 1, k, 0)`: the "transposition `(k, k+d)`" with `d = 0` is accepted and is the identity;
the graph name records neither the type nor `d` -/
theorem koltsov3_d0 :
    (permFamily "koltsov3" [4, 1, 1, 0]).map (fun d => (d.gens, d.name)) =
      some ([[1, 0, 3, 2], [0, 2, 1, 3], [0, 1, 2, 3]], "koltsov3-n4-k1") ∧
    (permFamily "koltsov3" [4, 1, 1, 1]).map (·.name) = some "koltsov3-n4-k1" := by decide

/-- `larx(2)`: the second generator is the identity -/
theorem larx_2 : (permFamily "larx" [2]).map (fun d => (d.gens, d.names)) =
    some ([[1, 0], [0, 1]], ["(1 0)", "(0 1)"]) := by decide

/-- `lsl_cycles`: the graph name does not tell whether the inverses were added -/
theorem lsl_cycles_names :
    (permFamily "lsl_cycles" [4] [true]).map (·.name) = some "lsl_cycles-4" ∧
    (permFamily "lsl_cycles" [4] [false]).map (·.name) = some "lsl_cycles-4" := by decide

/-- `heisenberg(modulo=2)`: `2(n-2)` generators and no `-ic` suffix although inverses were requested
(the docstring: "4(n-2) when inverses are added") -/
theorem heisenberg_mod2 :
    (matFamily "heisenberg" [3, 2] [true]).map (fun d => (d.gens.length, d.name)) =
      some (2, "heisenberg-3%2") ∧
    (matFamily "heisenberg" [3, 3] [true]).map (fun d => (d.gens.length, d.name)) =
      some (4, "heisenberg-3%3-ic") := by decide

/-- modulo 2 the SL families contain every root generator twice (`e' = e`, and for `n = 2` also
`w' = w`) -/
theorem sl_mod2 :
    (matFamily "special_linear_fundamental_roots" [2, 2]).map (·.gens) =
      some [[1, 1, 0, 1], [1, 1, 0, 1], [1, 0, 1, 1], [1, 0, 1, 1]] ∧
    (matFamily "special_linear_root_weyl" [2, 2]).map (·.gens) =
      some [[1, 1, 0, 1], [1, 1, 0, 1], [0, 1, 1, 0], [0, 1, 1, 0]] := by decide

/-- `prepare_graph`: `"lx-<s>"` / `"lrx-<s>"` go through Python's `int`, so signs, blanks, underscores and
non-ASCII digits are accepted, the keyword `n` is ignored; a definition's own name is otherwise never a
valid lookup name (e.g. `"coxeter-4"`, `"lrx-5(k=2)"`, and the empty names of `all_transpositions` …) -/
theorem lookup_oddities :
    (lookup "lx- +0_5 " 9).map (·.name) = some "lx-5" ∧
    (lookup "lrx-٥" 9).map (·.name) = some "lrx-5" ∧
    (lookup "coxeter-4" 4).isNone ∧ (lookup "lrx-5(k=2)" 5).isNone ∧ (lookup "" 4).isNone ∧
    (lookup "top_spin" 6).map (·.name) = some "top_spin-6-4" ∧
    (lookup "01i" 4).map (·.name) = some "three_cycles_01i-4-ic" := by decide

end Cv.Families.Observations
