/-
  G1 part 4: the C20 property theorems transferred to the generated functions.  Core Lean only.
-/
import CvProofs.PyPermG1c

namespace Cv.PyG1
open Cv.Py Cv.PyGen Cv.Perm

theorem isPermOf_of_isPerm {p : List Nat} (hp : isPerm p = true) : IsPermOf p.length p := (isPerm_iff p).1 hp

theorem getD_mem' (l : List Nat) (i : Nat) (hi : i < l.length) : l.getD i 0 ∈ l := by
  rw [getD_eq_getElem hi]; exact List.getElem_mem hi

theorem apply_mem_lt (p x : List Nat) (hp : ∀ i ∈ p, i < x.length) (m : Nat) (hx : ∀ i ∈ x, i < m) :
    ∀ i ∈ apply p x, i < m := by
  intro i hi
  unfold apply at hi
  obtain ⟨a, ha, rfl⟩ := List.mem_map.1 hi
  exact hx _ (getD_mem' x a (hp a ha))

theorem gen_is_permutation_iff (p : List Nat) :
    PyGen.Perm.is_permutation (toI p) = some true ↔ IsPermOf p.length p := by
  rw [is_permutation_gen, ← isPerm_iff]
  constructor
  · intro h; exact Option.some.inj h
  · intro h; rw [h]

theorem gen_is_permutation_iff' (p : List Nat) :
    PyGen.Perm.is_permutation (toI p) = some true ↔ (p.Nodup ∧ ∀ i ∈ p, i < p.length) := by
  rw [gen_is_permutation_iff]
  unfold IsPermOf
  simp

theorem gen_compose_inverse_right (p : List Nat) (hp : isPerm p = true) :
    (PyGen.Perm.inverse_permutation (toI p)).bind (fun q => PyGen.Perm.compose_permutations (toI p) q)
      = some (toI (identity p.length)) := by
  have h := isPermOf_of_isPerm hp
  have hinv := inverse_isPerm _ p h
  rw [inverse_permutation_gen p h.lt, Option.bind_some,
    compose_permutations_gen p (inverse p) (by rw [hinv.length_eq]; exact h.lt),
    compose_inverse_right _ p h]

theorem gen_compose_inverse_left (p : List Nat) (hp : isPerm p = true) :
    (PyGen.Perm.inverse_permutation (toI p)).bind (fun q => PyGen.Perm.compose_permutations q (toI p))
      = some (toI (identity p.length)) := by
  have h := isPermOf_of_isPerm hp
  have hinv := inverse_isPerm _ p h
  rw [inverse_permutation_gen p h.lt, Option.bind_some,
    compose_permutations_gen (inverse p) p hinv.lt,
    compose_inverse_left _ p h]

theorem gen_inverse_inverse (p : List Nat) (hp : isPerm p = true) :
    (PyGen.Perm.inverse_permutation (toI p)).bind PyGen.Perm.inverse_permutation = some (toI p) := by
  have h := isPermOf_of_isPerm hp
  have hinv := inverse_isPerm _ p h
  rw [inverse_permutation_gen p h.lt, Option.bind_some,
    inverse_permutation_gen (inverse p) (by rw [hinv.length_eq]; exact hinv.lt),
    inverse_inverse _ p h]

theorem gen_inverse_is_permutation (p : List Nat) (hp : isPerm p = true) :
    (PyGen.Perm.inverse_permutation (toI p)).bind PyGen.Perm.is_permutation = some true := by
  have h := isPermOf_of_isPerm hp
  have hinv := inverse_isPerm _ p h
  rw [inverse_permutation_gen p h.lt, Option.bind_some, is_permutation_gen]
  congr 1
  rw [isPerm_iff, hinv.length_eq]; exact hinv

theorem gen_apply_compose (p q x : List Nat) (hp : ∀ i ∈ p, i < q.length) (hq : ∀ i ∈ q, i < x.length) :
    (PyGen.Perm.compose_permutations (toI p) (toI q)).bind (fun r => PyGen.Perm.apply_permutation r (toI x))
      = (PyGen.Perm.apply_permutation (toI q) (toI x)).bind (fun y => PyGen.Perm.apply_permutation (toI p) y) := by
  rw [compose_permutations_gen p q hp, Option.bind_some,
    apply_permutation_gen_total (compose p q) x (apply_mem_lt p q hp _ hq),
    apply_permutation_gen_total q x hq, Option.bind_some,
    apply_permutation_gen_total p (apply q x) (by simpa using hp),
    apply_compose p q x hp]

theorem gen_compose_assoc (p q r : List Nat) (hp : ∀ i ∈ p, i < q.length) (hq : ∀ i ∈ q, i < r.length) :
    (PyGen.Perm.compose_permutations (toI p) (toI q)).bind (fun s => PyGen.Perm.compose_permutations s (toI r))
      = (PyGen.Perm.compose_permutations (toI q) (toI r)).bind (fun t => PyGen.Perm.compose_permutations (toI p) t) := by
  rw [compose_permutations_gen p q hp, Option.bind_some,
    compose_permutations_gen (compose p q) r (apply_mem_lt p q hp _ hq),
    compose_permutations_gen q r hq, Option.bind_some,
    compose_permutations_gen p (compose q r) (by simpa using hp),
    compose_assoc p q r hp]

theorem gen_apply_identity (x : List Nat) :
    (PyGen.Perm.identity_perm (x.length : Int)).bind (fun e => PyGen.Perm.apply_permutation e (toI x)) = some (toI x) := by
  rw [identity_perm_gen, Option.bind_some,
    apply_permutation_gen_total _ x (by intro i hi; simpa [identity] using hi), apply_identity]

/-- generator `p` followed by `inverse p` restores every state of the right length -/
theorem gen_apply_inverse_cancel (p s : List Nat) (hp : isPerm p = true) (hs : s.length = p.length) :
    (PyGen.Perm.apply_permutation (toI p) (toI s)).bind (fun t =>
      (PyGen.Perm.inverse_permutation (toI p)).bind (fun q => PyGen.Perm.apply_permutation q t)) = some (toI s) := by
  have h := isPermOf_of_isPerm hp
  have hinv := inverse_isPerm _ p h
  rw [apply_permutation_gen_total p s (by rw [hs]; exact h.lt), Option.bind_some,
    inverse_permutation_gen p h.lt, Option.bind_some,
    apply_permutation_gen_total (inverse p) (apply p s) (by simpa using hinv.lt),
    (apply_inverse_cancel _ p h s hs).1]

theorem gen_transposition_spec (n i j : Nat) (q : List Int)
    (h : PyGen.Perm.transposition (n : Int) (i : Int) (j : Int) = some q) :
    ∃ p, q = toI p ∧ IsPermOf n p ∧ p.getD i 0 = j ∧ p.getD j 0 = i ∧
      ∀ k, k < n → k ≠ i → k ≠ j → p.getD k 0 = k := by
  rw [transposition_gen] at h
  cases hm : Cv.Perm.transposition n i j with
  | none => rw [hm] at h; cases h
  | some p =>
    rw [hm] at h
    exact ⟨p, (Option.some.inj h).symm, transposition_spec n i j p hm⟩

theorem gen_transposition_none_iff (n i j : Nat) :
    PyGen.Perm.transposition (n : Int) (i : Int) (j : Int) = none ↔ ¬ (i < n ∧ j < n ∧ i ≠ j) := by
  rw [transposition_gen, Option.map_eq_none_iff]
  exact transposition_none_iff

theorem gen_fromCycles_spec (n : Nat) (cycles : List (List Int)) (offset : Int) (q : List Int)
    (h : PyGen.Perm.permutation_from_cycles (n : Int) cycles offset = some q)
    (hnd : (cycles.flatten.map (· - offset)).Nodup) :
    ∃ p, q = toI p ∧ IsPermOf n p ∧
    (∀ c ∈ cycles, ∀ i, i < c.length →
        p.getD (c.getD i 0 - offset).toNat 0 = (c.getD ((i + 1) % c.length) 0 - offset).toNat) ∧
    (∀ k, k < n → (∀ c ∈ cycles, (↑k + offset) ∉ c) → p.getD k 0 = k) := by
  rw [permutation_from_cycles_gen] at h
  cases hm : fromCycles n cycles offset with
  | none => rw [hm] at h; cases h
  | some p =>
    rw [hm] at h
    exact ⟨p, (Option.some.inj h).symm, fromCycles_spec n cycles offset p hm hnd⟩

/-- the result of the generated `permutation_from_cycles`, when it does not raise, is always a permutation -/
theorem gen_fromCycles_is_permutation (n : Nat) (cycles : List (List Int)) (offset : Int) (q : List Int)
    (h : PyGen.Perm.permutation_from_cycles (n : Int) cycles offset = some q) :
    PyGen.Perm.is_permutation q = some true ∧ q.length = n := by
  rw [permutation_from_cycles_gen] at h
  cases hm : fromCycles n cycles offset with
  | none => rw [hm] at h; cases h
  | some p =>
    rw [hm] at h
    have hq : q = toI p := (Option.some.inj h).symm
    have hp := (fromCycles_spec_general n cycles offset p hm).1
    subst hq
    refine ⟨?_, by simpa using hp.length_eq⟩
    rw [gen_is_permutation_iff, hp.length_eq]; exact hp

theorem gen_fromCycles_isSome_iff (n : Nat) (cycles : List (List Int)) (offset : Int) :
    (PyGen.Perm.permutation_from_cycles (n : Int) cycles offset).isSome = true ↔
      (∀ v ∈ cycles.flatten, 0 ≤ v - offset ∧ v - offset < n) ∧
      (allWrites cycles).Pairwise (fun a b => a.1 = b.1 → a.2 = a.1) := by
  rw [permutation_from_cycles_gen, Option.isSome_map]
  exact fromCycles_isSome_iff_exact n cycles offset

end Cv.PyG1
