/-
  Proofs for the instantiated session model (`CvModel/SessionInst.lean`), property C14 with real semantics.
  The bookkeeping theorems are those of `CvProofs/Session.lean` (they hold for every `Compute`); what is added here:
  the answers of the instantiated semantics ARE the algorithm models of `CvModel/Paths.lean` etc., and the end-to-end
  theorems of `CvProofs/InstancePaths.lean` apply to them after any history.
-/
import CvModel.SessionInst
import CvProofs.Session
import CvProofs.InstancePaths
import CvProofs.Mitm
namespace Cv.SessionInst
open Cv Cv.Session Cv.Instance Cv.Codec

/-! ### the inverted copy -/

theorem invImm_eq (db : Nat) (i : IImm) : invImm (instC db) i = invOf db i := rfl

theorem graphOf_invOf (db : Nat) (i : IImm) :
    graphOf (invOf db i) = encodedPermGraphInv i.enc.w i.enc.n i.defn.perms i.hasher i.defn.ic db := rfl

theorem centralOf_invOf (db : Nat) (i : IImm) : centralOf (invOf db i) = centralOf i := rfl

theorem encOf_invOf (db : Nat) (i : IImm) (s : List Nat) : encOf (invOf db i) s = encOf i s := rfl

/-! ### the ball of `find_path` depends on the limits through the key only -/

theorem filter_getD_eq_orDefault (x : Option Nat) (d : Nat) : (x.filter (· ≠ 0)).getD d = orDefault x d := by
  cases x with
  | none => rfl
  | some n => cases n <;> simp [orDefault, Option.filter]

theorem precomputeBfs_eq_key (g : Graph (List W)) (central : List W) (lim : Limits) :
    precomputeBfs g central lim.maxLayerSizeToExplore lim.maxDiameter = bfs g (ballCfgOfKey lim.key) [central] := by
  simp only [precomputeBfs, ballCfgOfKey, Limits.key, filter_getD_eq_orDefault]

/-- the ball a fresh `_precompute_bfs` computes on an object -/
theorem runBfs_ballOpts (db : Nat) (i : IImm) (key : BallKey) :
    (instC db).bfs i ((instC db).ballOpts key) = .bfs (bfs (graphOf i) (ballCfgOfKey key) [centralOf i]) := rfl

/-! ### a BFS that does not batch does not look at the batch size -/

/-- the same graph with another batch size -/
def withBatch {α : Type} (g : Graph α) (b : Nat) : Graph α := { g with batchSize := b }

theorem bfsLoop_withBatch {α : Type} (g : Graph α) (b : Nat) (c : BfsCfg α) (hd : c.disableBatching = true)
    (fuel i : Nat) (s : BfsLoop α) : bfsLoop (withBatch g b) c fuel i s = bfsLoop g c fuel i s := by
  induction fuel generalizing i s with
  | zero => rfl
  | succ fuel ih =>
    simp only [bfsLoop, hd, Bool.not_true, Bool.and_false, Bool.false_and, Bool.false_eq_true, if_false, ih]
    rfl

theorem bfs_withBatch {α : Type} (g : Graph α) (b : Nat) (c : BfsCfg α) (hd : c.disableBatching = true)
    (starts : List α) : bfs (withBatch g b) c starts = bfs g c starts := by
  simp only [bfs, bfsLoop_withBatch g b c hd]
  rfl


theorem restorePath_withBatch {α : Type} (g : Graph α) (b : Nat) (Hs : List (List Int)) (m : α) :
    restorePath (withBatch g b) Hs m = restorePath g Hs m := rfl

theorem findPathTo_withBatch {α : Type} (g gi : Graph α) (b : Nat) (Hs : List (List Int)) (q : α) :
    findPathTo g (withBatch gi b) Hs q = findPathTo g gi Hs q := rfl

theorem mitm_go_withBatch {α : Type} (g gi : Graph α) (b : Nat) (Hs : List (List Int)) (r2 : BfsOut α)
    (ms : List α) : mitmFindPathTo.go g (withBatch gi b) Hs r2 ms = mitmFindPathTo.go g gi Hs r2 ms := by
  induction ms with
  | nil => rfl
  | cons m rest ih => rw [mitm_go_cons, mitm_go_cons, ih, restorePath_withBatch]

/-- `MeetInTheMiddle.find_path_to` does not depend on the batch size of the inverted copy (its backward BFS runs with
`disable_batching=True`) -/
theorem mitmFindPathTo_withBatch {α : Type} (g gi : Graph α) (b : Nat) (Hs : List (List Int)) (dest : α) :
    mitmFindPathTo g (withBatch gi b) Hs dest = mitmFindPathTo g gi Hs dest := by
  rw [mitmFindPathTo_eq, mitmFindPathTo_eq, findPathTo_withBatch, bfs_withBatch gi b _ rfl, mitm_go_withBatch]


/-! ### the inverted copy of the inverted copy -/

theorem map_inverse_inverse (n : Nat) (perms : List (List Nat)) (hp : ∀ p ∈ perms, Cv.Perm.IsPermOf n p) :
    (perms.map Cv.Perm.inverse).map Cv.Perm.inverse = perms := by
  rw [List.map_map]
  conv => rhs; rw [← List.map_id perms]
  apply List.map_congr_left
  intro p hpm
  exact Cv.Perm.inverse_inverse n p (hp p hpm)

/-- for a list of permutations, the inverted copy of the inverted copy is the graph itself up to the batch size -/
theorem graphOf_invOf_invOf (db : Nat) (i : IImm) (hp : ∀ p ∈ i.defn.perms, Cv.Perm.IsPermOf i.enc.n p) :
    graphOf (invOf db (invOf db i)) = withBatch (graphOf i) db := by
  simp only [graphOf, invOf, SDef.inverted, withBatch, encodedPermGraph, map_inverse_inverse _ _ hp]

/-! ### what the operations return on a fresh object: the algorithm models -/

section spec
variable (db : Nat) (i : IImm) (k : ObjId)

theorem spec_bfs (cfg : BfsCfg (List W)) (starts : List (List Nat)) :
    spec (instC db) i (opBfs k cfg (some starts)) = .value (.bfs (bfs (graphOf i) cfg (starts.map (encOf i)))) := rfl

theorem spec_bfs_central (cfg : BfsCfg (List W)) :
    spec (instC db) i (opBfs k cfg none) = .value (.bfs (bfs (graphOf i) cfg [centralOf i])) := rfl

theorem spec_findPathTo (q : List Nat) (D : Nat) :
    spec (instC db) i (opFindPathTo k q D) = .value (.path (findPathTo (graphOf i) (graphOf (invOf db i))
      (bfs (graphOf i) (ballCfg D) [centralOf i]).hashes (encOf i q))) := rfl

theorem spec_findPathFrom (q : List Nat) (D : Nat) :
    spec (instC db) i (opFindPathFrom k q D) = .value (.path (findPathFrom (graphOf i) (graphOf (invOf db i))
      (permInvMap i.defn.perms) (bfs (graphOf i) (ballCfg D) [centralOf i]).hashes (encOf i q))) := rfl

theorem spec_mitmTo (q : List Nat) (D : Nat) :
    spec (instC db) i (opMitmTo k q D) = .value (.path (mitmFindPathTo (graphOf i) (graphOf (invOf db i))
      (bfs (graphOf i) (ballCfg D) [centralOf i]).hashes (encOf i q))) := rfl

theorem spec_mitmFrom (q : List Nat) (D : Nat) :
    spec (instC db) i (opMitmFrom k q D) = .value (.path (mitmFindPathFrom (graphOf i) (graphOf (invOf db i))
      (permInvMap i.defn.perms) (bfs (graphOf i) (ballCfg D) [centralOf i]).hashes (encOf i q))) := rfl

theorem spec_findPathToHeld (q : List Nat) (r : BfsOut (List W)) :
    spec (instC db) i (opFindPathToHeld k q (.bfs r)) =
      .value (.path (findPathTo (graphOf i) (graphOf (invOf db i)) r.hashes (encOf i q))) := rfl

theorem spec_mitmToHeld (q : List Nat) (r : BfsOut (List W)) :
    spec (instC db) i (opMitmToHeld k q (.bfs r)) =
      .value (.path (mitmFindPathTo (graphOf i) (graphOf (invOf db i)) r.hashes (encOf i q))) := rfl

theorem spec_between (S T : List (List Nat)) (M : Nat) :
    spec (instC db) i (opBetween k S T M) = .value (.between
      ((findPathBetween (graphOf i) (graphOf (invOf db i)) (S.map (encOf i)) (T.map (encOf i)) M).map
        (Option.map fun r => (decOf i r.start, r.edges)))) := rfl

theorem spec_beamSimple (start : List Nat) (cfg : SimpleCfg (List W)) :
    spec (instC db) i (opBeamSimple k start cfg) = .value (.beam (beamSimple (graphOf i) (graphOf (invOf db i))
      (permInvMap i.defn.perms) (centralOf i) (encOf i start) cfg)) := rfl

theorem spec_beamAdvanced (start dest : List Nat) (cfg : AdvCfg (List W)) :
    spec (instC db) i (opBeamAdvanced k start dest cfg) =
      .value (.beam (beamAdvanced (graphOf i) (encOf i start) (encOf i dest) cfg)) := rfl

theorem spec_applyPath (s p : List Nat) (hv : ∀ j ∈ p, j < i.defn.perms.length) :
    spec (instC db) i (opApplyPath k s p) =
      .value (.applied (some (decOf i (applyPath (graphOf i).act (encOf i s) p)))) := by
  have : (p.all fun j => decide (j < (graphOf i).nGens)) = true := by
    simpa [graphOf, encodedPermGraph] using hv
  simp only [opApplyPath, spec, instC, runApplyPath, this, if_true]

theorem spec_switchToInverted : spec (instC db) i (opSwitchToInverted k) = .obj (invOf db i) := rfl

theorem spec_modifiedCopy (d : SDef) :
    spec (instC db) i (opModifiedCopy k d) = .obj ⟨d, i.enc, i.hasher, db⟩ := rfl

/-- `find_path` on a fresh object, inverse-closed flag set: `Cv.findPath` -/
theorem spec_findPath_ic (start : List Nat) (lim : Limits) (hic : i.defn.ic = true) :
    spec (instC db) i (opFindPath k start lim) = .value (.path (findPath (graphOf i) (graphOf (invOf db i))
      (permInvMap i.defn.perms) (centralOf i) (encOf i start) lim.maxLayerSizeToExplore lim.maxDiameter)) := by
  have hg : (graphOf i).invClosed = true := hic
  simp only [findPath, hg, if_true, precomputeBfs_eq_key]
  simp only [opFindPath, spec, instC, hic, if_true, Bool.false_eq_true, if_false, invChain, runBfs, runPathFrom]
  rfl

/-- `find_path` on a fresh object, flag not set, as the code runs it: `MeetInTheMiddle.find_path_to` on the inverted copy
with the inverted copy OF THE INVERTED COPY, reversed -/
theorem spec_findPath_not_ic_raw (start : List Nat) (lim : Limits) (hic : i.defn.ic = false) :
    spec (instC db) i (opFindPath k start lim) = .value (.path (reversed (mitmFindPathTo
      (graphOf (invOf db i)) (graphOf (invOf db (invOf db i)))
      (bfs (graphOf (invOf db i)) (ballCfgOfKey lim.key) [centralOf i]).hashes (encOf i start)))) := by
  simp only [opFindPath, spec, show (instC db).hasModel i.defn = false from rfl,
    show (instC db).invClosed i.defn = i.defn.ic from rfl, hic, Bool.false_eq_true, if_false]
  rfl

/-- `find_path` on a fresh object, flag not set: `Cv.findPath` as well, provided the generators are permutations (the code
works with the inverted copy of the inverted copy where `Cv.findPath` works with the graph itself) -/
theorem spec_findPath_not_ic (start : List Nat) (lim : Limits) (hic : i.defn.ic = false)
    (hp : ∀ p ∈ i.defn.perms, Cv.Perm.IsPermOf i.enc.n p) :
    spec (instC db) i (opFindPath k start lim) = .value (.path (findPath (graphOf i) (graphOf (invOf db i))
      (permInvMap i.defn.perms) (centralOf i) (encOf i start) lim.maxLayerSizeToExplore lim.maxDiameter)) := by
  have hg : (graphOf i).invClosed = false := hic
  rw [spec_findPath_not_ic_raw db i k start lim hic, graphOf_invOf_invOf db i hp, mitmFindPathTo_withBatch]
  simp only [findPath, hg, Bool.false_eq_true, if_false, precomputeBfs_eq_key]
  generalize mitmFindPathTo _ _ _ _ = r
  cases r <;> rfl

theorem spec_findPath (start : List Nat) (lim : Limits)
    (hp : i.defn.ic = false → ∀ p ∈ i.defn.perms, Cv.Perm.IsPermOf i.enc.n p) :
    spec (instC db) i (opFindPath k start lim) = .value (.path (findPath (graphOf i) (graphOf (invOf db i))
      (permInvMap i.defn.perms) (centralOf i) (encOf i start) lim.maxLayerSizeToExplore lim.maxDiameter)) := by
  cases hic : i.defn.ic with
  | true => exact spec_findPath_ic db i k start lim hic
  | false => exact spec_findPath_not_ic db i k start lim hic (hp hic)

end spec


/-! ### after any history -/

/-- after any history, an operation on an existing object returns what the specification says: a function of the immutable
part of that object and of the arguments -/
theorem session_spec (db : Nat) (root : IImm) (ops : List IOp) (op : IOp) (o : IObj)
    (ho : (run (instC db) (fresh root) ops).objs[op.target]? = some o) :
    view (step (instC db) (run (instC db) (fresh root) ops) op) = spec (instC db) o.imm op :=
  (step_spec (instC db) _ op o (run_inv (instC db) (fresh root) ops (inv_fresh (instC db) root)).1 ho).1

theorem session_answers_fresh' (db : Nat) (root : IImm) (ops : List IOp) (op : IOp) (o : IObj)
    (ho : (run (instC db) (fresh root) ops).objs[op.target]? = some o) :
    view (step (instC db) (run (instC db) (fresh root) ops) op) =
      view (step (instC db) (fresh o.imm) (op.retarget 0)) :=
  history_independent' (instC db) root ops op o ho

/-- `find_path` after any history is `Cv.findPath` of the object's graph and its inverted copy -/
theorem session_findPath_eq' (db : Nat) (root : IImm) (ops : List IOp) (k : ObjId) (o : IObj)
    (ho : (run (instC db) (fresh root) ops).objs[k]? = some o)
    (hp : o.defn.ic = false → ∀ p ∈ o.defn.perms, Cv.Perm.IsPermOf o.enc.n p) (start : List Nat) (lim : Limits) :
    view (step (instC db) (run (instC db) (fresh root) ops) (opFindPath k start lim)) =
      .value (.path (findPath (graphOf o.imm) (graphOf (invOf db o.imm)) (permInvMap o.defn.perms) (centralOf o.imm)
        (encOf o.imm start) lim.maxLayerSizeToExplore lim.maxDiameter)) := by
  rw [session_spec db root ops (opFindPath k start lim) o ho]
  exact spec_findPath db o.imm k start lim hp

/-- the root object -/
theorem session_spec_root (db : Nat) (root : IImm) (ops : List IOp) (op : IOp) (ht : op.target = 0) :
    view (step (instC db) (run (instC db) (fresh root) ops) op) = spec (instC db) root op := by
  obtain ⟨o, h1, h2⟩ := root_imm (Res := IRes) (instC db) root ops
  rw [session_spec db root ops op o (by rw [ht]; exact h1), h2]

/-- an object with a known immutable part, spelled out -/
theorem obj_of_imm (o : IObj) (i : IImm) (h : o.imm = i) :
    o = { defn := i.defn, enc := i.enc, hasher := i.hasher, batch := i.batch, invertedCache := o.invertedCache,
          ballCache := o.ballCache } := by
  subst h; rfl

/-- the root object after any history: the immutable part it was constructed with, and some caches -/
theorem root_obj (db : Nat) (root : IImm) (ops : List IOp) :
    ∃ ic bc, (run (instC db) (fresh root) ops).objs[0]? = some
      { defn := root.defn, enc := root.enc, hasher := root.hasher, batch := root.batch, invertedCache := ic,
        ballCache := bc } := by
  obtain ⟨o, h1, h2⟩ := root_imm (Res := IRes) (instC db) root ops
  exact ⟨o.invertedCache, o.ballCache, by rw [h1, obj_of_imm o root h2]⟩

/-- what the caches hold after any history: the cached inverted copy is the freshly built one, a cached ball is the
ball a fresh `_precompute_bfs` with its key computes -/
theorem session_caches (db : Nat) (root : IImm) (ops : List IOp) (k : ObjId) (o : IObj)
    (ho : (run (instC db) (fresh root) ops).objs[k]? = some o) :
    (∀ id, o.invertedCache = some id →
      ∃ oi : IObj, (run (instC db) (fresh root) ops).objs[id]? = some oi ∧ oi.imm = invOf db o.imm) ∧
    (∀ key b, o.ballCache = some (key, b) →
      b = .bfs (bfs (graphOf o.imm) (ballCfgOfKey key) [centralOf o.imm])) := by
  have hinv := (run_inv (instC db) (fresh root) ops (inv_fresh (instC db) root)).1
  exact ⟨fun id hid => hinv.inv k o id ho hid, fun key b hb => hinv.ball k o key b ho hb⟩

/-- (b) `_precompute_bfs` on an object that holds a ball for the key `key'`: the ball is reused exactly when the requested
key is `key'`; otherwise the ball of the requested key is computed and replaces it -/
theorem ball_reuse (db : Nat) (s : ISession) (k : ObjId) (o : IObj) (ho : s.objs[k]? = some o) (key' key : BallKey)
    (b : IRes) (hb : o.ballCache = some (key', b)) :
    (key' = key → precompute true (instC db) s k key = (s, some b)) ∧
    (key' ≠ key →
      let fresh : IRes := .bfs (bfs (graphOf o.imm) (ballCfgOfKey key) [centralOf o.imm])
      precompute true (instC db) s k key = (⟨s.objs.set k { o with ballCache := some (key, fresh) }⟩, some fresh)) := by
  constructor
  · intro h
    simp only [precompute, ho, hb, h, Bool.not_true, Bool.false_or, decide_true, if_true]
  · intro h
    simp only [precompute, ho, hb, h, Bool.not_true, Bool.false_or, decide_false, Bool.false_eq_true, if_false,
      runBfs_ballOpts]

/-! ### the definition is never changed -/

theorem fingerprint_run_append (db : Nat) (root : IImm) (ops ops' : List IOp) (k : ObjId)
    (hk : k < (run (instC db) (fresh root) ops).objs.length) :
    fingerprint (run (instC db) (fresh root) (ops ++ ops')) k = fingerprint (run (instC db) (fresh root) ops) k := by
  have hsome : (run (instC db) (fresh root) ops).objs[k]? = some ((run (instC db) (fresh root) ops).objs[k]) :=
    List.getElem?_eq_getElem hk
  obtain ⟨o', h1, h2⟩ := imm_stable' (instC db) root ops ops' k _ hsome
  simp only [fingerprint, h1, hsome, Option.map_some, h2]

theorem fingerprint_root (db : Nat) (root : IImm) (ops : List IOp) :
    fingerprint (run (instC db) (fresh root) ops) 0 = some root := by
  obtain ⟨o, h1, h2⟩ := root_imm (Res := IRes) (instC db) root ops
  simp only [fingerprint, h1, Option.map_some, h2]

theorem run_snoc (db : Nat) (s : ISession) (ops : List IOp) (op : IOp) :
    run (instC db) s (ops ++ [op]) = (step (instC db) (run (instC db) s ops) op).1 := by
  simp [run, runWith, step, List.foldl_append]


/-! ### the un-keyed cache (the code before the repair of `find_path`) -/

/-- with a ball cache that ignores the limits, the second `find_path` on an inverse-closed graph answers from the ball of
the FIRST call's limits -/
theorem unkeyed_second (db : Nat) (i : IImm) (hic : i.defn.ic = true) (a b : List Nat) (l1 l2 : Limits) :
    view (stepWith false (instC db) (runWith false (instC db) (fresh i) [opFindPath 0 a l1]) (opFindPath 0 b l2)) =
      .value (.path (mitmFindPathFrom (graphOf i) (graphOf (invOf db i)) (permInvMap i.defn.perms)
        (bfs (graphOf i) (ballCfgOfKey l1.key) [centralOf i]).hashes (encOf i b))) := by
  obtain ⟨⟨perms, central, ic⟩, enc, hash, batch⟩ := i
  subst hic
  rfl

/-- … whereas the code (keyed cache) answers from the ball of the second call's limits, as a fresh object does -/
theorem keyed_second (db : Nat) (i : IImm) (hic : i.defn.ic = true) (a b : List Nat) (l1 l2 : Limits) :
    view (step (instC db) (run (instC db) (fresh i) [opFindPath 0 a l1]) (opFindPath 0 b l2)) =
      .value (.path (mitmFindPathFrom (graphOf i) (graphOf (invOf db i)) (permInvMap i.defn.perms)
        (bfs (graphOf i) (ballCfgOfKey l2.key) [centralOf i]).hashes (encOf i b))) := by
  obtain ⟨o, h1, h2⟩ := root_imm (Res := IRes) (instC db) i [opFindPath 0 a l1]
  rw [session_spec db i _ _ o h1, h2]
  obtain ⟨⟨perms, central, ic⟩, enc, hash, batch⟩ := i
  subst hic
  rfl

/-! ### the end-to-end theorems for the pair (object, its inverted copy with the default batch size) -/

section e2e
variable (db : Nat) (hdb : 0 < db) (i : IImm) (hw : 1 ≤ i.enc.w) (hw' : i.enc.w ≤ 64)
  (hp : ∀ p ∈ i.defn.perms, Cv.Perm.IsPermOf i.enc.n p)
  (hinj : ∀ x y, Valid i.enc.w i.enc.n x → Valid i.enc.w i.enc.n y → i.hasher x = i.hasher y → x = y)
  (hic : i.defn.ic = true → ∀ p ∈ i.defn.perms, Cv.Perm.inverse p ∈ i.defn.perms) (hb : 0 < i.batch)
include hdb hw hw' hp hinj hic hb

/-- the hypotheses of the `find_path` theorems hold for an object and its inverted copy, whose batch size is the
constructor default and not the object's -/
theorem sess_findHypOn :
    FindHypOn (Valid i.enc.w i.enc.n) (graphOf i) (graphOf (invOf db i)) (permInvMap i.defn.perms) := by
  have H := encoded_findHypOn i.enc.w i.enc.n hw hw' i.defn.perms hp i.hasher i.defn.ic i.batch hinj hic hb
  exact
    { path := ⟨H.path.hashEq, H.path.nGens, H.path.closed, H.path.closedI, H.path.inv, H.path.inj⟩
      symG := H.symG
      symGi := H.symGi
      batchG := hb
      batchGi := hdb
      invMap := H.invMap }

theorem sess_findPath_valid (start : List Nat) (hc : encodable i.enc.w i.enc.n i.defn.central = true)
    (hs : encodable i.enc.w i.enc.n start = true) (me md : Option Nat) :
    match findPath (graphOf i) (graphOf (invOf db i)) (permInvMap i.defn.perms) (centralOf i) (encOf i start) me md with
    | .found p => applyPath (genAct i.defn.perms) start p = i.defn.central ∧ ∀ j ∈ p, j < i.defn.perms.length
    | .notFound => True
    | .assertFail _ => False := by
  have key := findPath_valid_on (permInvMap i.defn.perms) (sess_findHypOn db hdb i hw hw' hp hinj hic hb)
    (centralOf i) (encOf i start) (valid_encode i.enc.w i.enc.n i.defn.central hc)
    (valid_encode i.enc.w i.enc.n start hs) me md
  cases hr : findPath (graphOf i) (graphOf (invOf db i)) (permInvMap i.defn.perms) (centralOf i) (encOf i start)
      me md with
  | found p =>
    rw [hr] at key
    exact ⟨decode_path i.enc.w i.enc.n hw hw' i.defn.perms hp i.hasher i.defn.ic i.batch start i.defn.central hs hc p
      key.2 key.1, key.2⟩
  | notFound => trivial
  | assertFail m => rw [hr] at key; exact key

theorem sess_findPath_shortest (start : List Nat) (hc : encodable i.enc.w i.enc.n i.defn.central = true)
    (hs : encodable i.enc.w i.enc.n start = true) (lim : Limits)
    (hexp : ∀ k (L : List (List Nat)), 1 ≤ k → k ≤ (sessFindBall db i lim).length - 1 → L.Nodup →
      (∀ s, s ∈ L ↔ DistLayer (permGraphNb (if i.defn.ic then i.defn.perms.map Cv.Perm.inverse else i.defn.perms))
        [start] k s) → L.length < 10^12) :
    match findPath (graphOf i) (graphOf (invOf db i)) (permInvMap i.defn.perms) (centralOf i) (encOf i start)
        lim.maxLayerSizeToExplore lim.maxDiameter with
    | .found p => p.length ≤ 2 * ((sessFindBall db i lim).length - 1) ∧
        ∀ k, Walk (permGraphNb i.defn.perms) k start i.defn.central → p.length ≤ k
    | .notFound => ∀ k, k ≤ 2 * ((sessFindBall db i lim).length - 1) →
        ¬ Walk (permGraphNb i.defn.perms) k start i.defn.central
    | .assertFail _ => False := by
  have hS : ∀ s ∈ [start], encodable i.enc.w i.enc.n s = true := by simpa using hs
  have hG : (graphOf i).invClosed = i.defn.ic := rfl
  have hball : (if (graphOf i).invClosed = true
      then (precomputeBfs (graphOf i) (centralOf i) lim.maxLayerSizeToExplore lim.maxDiameter).hashes
      else (precomputeBfs (graphOf (invOf db i)) (centralOf i) lim.maxLayerSizeToExplore lim.maxDiameter).hashes) =
      sessFindBall db i lim := rfl
  have key := findPath_shortest_on (permInvMap i.defn.perms) (sess_findHypOn db hdb i hw hw' hp hinj hic hb)
    (centralOf i) (encOf i start) (valid_encode i.enc.w i.enc.n i.defn.central hc)
    (valid_encode i.enc.w i.enc.n start hs) lim.maxLayerSizeToExplore lim.maxDiameter
    (by
      intro k L hk1 hk2 hL
      rw [hball] at hk2
      rw [hG] at hL
      cases hicb : i.defn.ic with
      | true =>
        rw [hicb] at hL hexp
        simp only [if_true] at hL hexp
        obtain ⟨L', hlen, hnd, hmem⟩ :=
          enc_layer i.enc.w i.enc.n hw hw' _ (inverse_perms i.enc.n i.defn.perms hp) i.hasher i.defn.ic db [start] hS k
            L hL
        rw [← hlen]
        exact hexp k L' hk1 hk2 hnd hmem
      | false =>
        rw [hicb] at hL hexp
        simp only [Bool.false_eq_true, if_false] at hL hexp
        obtain ⟨L', hlen, hnd, hmem⟩ :=
          enc_layer i.enc.w i.enc.n hw hw' i.defn.perms hp i.hasher i.defn.ic i.batch [start] hS k L hL
        rw [← hlen]
        exact hexp k L' hk1 hk2 hnd hmem)
  simp only at key
  rw [hball] at key
  cases hr : findPath (graphOf i) (graphOf (invOf db i)) (permInvMap i.defn.perms) (centralOf i) (encOf i start)
      lim.maxLayerSizeToExplore lim.maxDiameter with
  | found p =>
    rw [hr] at key
    exact ⟨key.1, fun k wk => key.2 k ((enc_walk_iff i.enc.w i.enc.n hw hw' i.defn.perms hp i.hasher i.defn.ic i.batch
      k start i.defn.central hs hc).2 wk)⟩
  | notFound =>
    rw [hr] at key
    intro k hk wk
    exact key k hk ((enc_walk_iff i.enc.w i.enc.n hw hw' i.defn.perms hp i.hasher i.defn.ic i.batch k start
      i.defn.central hs hc).2 wk)
  | assertFail m => rw [hr] at key; exact key

end e2e


/-! ### the end-to-end theorems after any history -/

theorem pathOf_value (r : PathRes) : pathOf (.value (.path r)) = some r := rfl

section after
variable (db : Nat) (hdb : 0 < db) (root : IImm) (ops : List IOp) (k : ObjId) (o : IObj)
  (ho : (run (instC db) (fresh root) ops).objs[k]? = some o)
  (hw : 1 ≤ o.enc.w) (hw' : o.enc.w ≤ 64) (hp : ∀ p ∈ o.defn.perms, Cv.Perm.IsPermOf o.enc.n p)
  (hinj : ∀ x y : List W, x.length = encLen o.enc.w o.enc.n → y.length = encLen o.enc.w o.enc.n →
    o.hasher x = o.hasher y → x = y)
  (hic : o.defn.ic = true → ∀ p ∈ o.defn.perms, Cv.Perm.inverse p ∈ o.defn.perms) (hb : 0 < o.batch)
include hdb ho hw hw' hp hinj hic hb

theorem session_findPath_valid' (start : List Nat) (hc : encodable o.enc.w o.enc.n o.defn.central = true)
    (hs : encodable o.enc.w o.enc.n start = true) (lim : Limits) :
    match pathOf (view (step (instC db) (run (instC db) (fresh root) ops) (opFindPath k start lim))) with
    | some (.found p) => applyPath (genAct o.defn.perms) start p = o.defn.central ∧ ∀ j ∈ p, j < o.defn.perms.length
    | some .notFound => True
    | some (.assertFail _) => False
    | none => False := by
  rw [session_findPath_eq' db root ops k o ho (fun _ => hp) start lim, pathOf_value]
  have key : (match findPath (graphOf o.imm) (graphOf (invOf db o.imm)) (permInvMap o.defn.perms) (centralOf o.imm)
        (encOf o.imm start) lim.maxLayerSizeToExplore lim.maxDiameter with
      | .found p => applyPath (genAct o.defn.perms) start p = o.defn.central ∧ ∀ j ∈ p, j < o.defn.perms.length
      | .notFound => True
      | .assertFail _ => False) :=
    sess_findPath_valid db hdb o.imm hw hw' hp
      (fun x y hx hy h => hinj x y (length_of_valid hx) (length_of_valid hy) h) hic hb start hc hs
      lim.maxLayerSizeToExplore lim.maxDiameter
  revert key
  generalize findPath _ _ _ _ _ _ _ = r
  cases r <;> exact fun h => h

theorem session_findPath_shortest' (start : List Nat) (hc : encodable o.enc.w o.enc.n o.defn.central = true)
    (hs : encodable o.enc.w o.enc.n start = true) (lim : Limits)
    (hexp : ∀ j (L : List (List Nat)), 1 ≤ j → j ≤ (sessFindBall db o.imm lim).length - 1 → L.Nodup →
      (∀ s, s ∈ L ↔ DistLayer (permGraphNb (if o.defn.ic then o.defn.perms.map Cv.Perm.inverse else o.defn.perms))
        [start] j s) → L.length < 10^12) :
    match pathOf (view (step (instC db) (run (instC db) (fresh root) ops) (opFindPath k start lim))) with
    | some (.found p) => p.length ≤ 2 * ((sessFindBall db o.imm lim).length - 1) ∧
        ∀ j, Walk (permGraphNb o.defn.perms) j start o.defn.central → p.length ≤ j
    | some .notFound => ∀ j, j ≤ 2 * ((sessFindBall db o.imm lim).length - 1) →
        ¬ Walk (permGraphNb o.defn.perms) j start o.defn.central
    | some (.assertFail _) => False
    | none => False := by
  rw [session_findPath_eq' db root ops k o ho (fun _ => hp) start lim, pathOf_value]
  have key : (match findPath (graphOf o.imm) (graphOf (invOf db o.imm)) (permInvMap o.defn.perms) (centralOf o.imm)
        (encOf o.imm start) lim.maxLayerSizeToExplore lim.maxDiameter with
      | .found p => p.length ≤ 2 * ((sessFindBall db o.imm lim).length - 1) ∧
          ∀ j, Walk (permGraphNb o.defn.perms) j start o.defn.central → p.length ≤ j
      | .notFound => ∀ j, j ≤ 2 * ((sessFindBall db o.imm lim).length - 1) →
          ¬ Walk (permGraphNb o.defn.perms) j start o.defn.central
      | .assertFail _ => False) :=
    sess_findPath_shortest db hdb o.imm hw hw' hp
      (fun x y hx hy h => hinj x y (length_of_valid hx) (length_of_valid hy) h) hic hb start hc hs lim hexp
  revert key
  generalize findPath _ _ _ _ _ _ _ = r
  cases r <;> exact fun h => h

end after

end Cv.SessionInst
