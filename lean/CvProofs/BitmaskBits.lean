/-
  Proofs about `CvModel/Bitmask.lean`, part 3: the bit sets (arrays of `uint64` words): setting bits, word-wise
  and-not / or, counting, `_materialize_permutations`.  Core Lean only.
-/
import CvProofs.BitmaskCount
namespace Cv.Bitmask

/-- bit `r` of a bit set (`false` beyond the end) -/
def bitAt (b : Bits) (r : Nat) : Bool := (b.getD (r / 64) 0#64).getLsbD (r % 64)

theorem bitAt_eq (b : Bits) (r : Nat) : bitAt b r = (b[r / 64]?.getD 0#64).getLsbD (r % 64) := by
  rw [bitAt, Array.getD_eq_getD_getElem?]

theorem bitAt_replicate (k r : Nat) : bitAt (Array.replicate k 0#64) r = false := by
  rw [bitAt_eq, Array.getElem?_replicate]
  split <;> simp

theorem lt_of_bitAt {b : Bits} {r : Nat} (h : bitAt b r = true) : r < 64 * b.size := by
  apply Classical.byContradiction
  intro hn
  rw [bitAt_eq, Array.getElem?_eq_none (by omega)] at h
  simp at h

/-- `1 << k` has exactly bit `k` -/
theorem getLsbD_one_shiftLeft (k i : Nat) (hk : k < 64) (hi : i < 64) :
    ((1#64 : BitVec 64) <<< k).getLsbD i = decide (i = k) := by
  rw [BitVec.getLsbD_shiftLeft, BitVec.getLsbD_one]
  by_cases h : i = k
  · subst h; simp [hi]
  · by_cases h2 : i < k
    · simp [h2, h]
    · have : i - k ≠ 0 := by omega
      simp [this, h]

theorem size_setBit (b : Bits) (r : Nat) : (setBit b r).size = b.size := by
  unfold setBit; rw [Array.size_modify]

/-- `gray[rank // 64] |= 1 << (rank % 64)` sets bit `rank` and nothing else -/
theorem bitAt_setBit (b : Bits) (r r' : Nat) (hr : r / 64 < b.size) :
    bitAt (setBit b r) r' = (bitAt b r' || decide (r' = r)) := by
  rw [bitAt_eq, bitAt_eq, setBit, Array.getElem?_modify]
  by_cases hw : r / 64 = r' / 64
  · rw [if_pos hw, ← hw, Array.getElem?_eq_getElem hr]
    simp only [Option.map_some, Option.getD_some, BitVec.getLsbD_or]
    rw [getLsbD_one_shiftLeft _ _ (Nat.mod_lt _ (by omega)) (Nat.mod_lt _ (by omega))]
    congr 1
    apply decide_eq_decide.2
    constructor
    · intro h; omega
    · intro h; rw [h]
  · rw [if_neg hw]
    have : decide (r' = r) = false := by
      apply decide_eq_false
      intro h; rw [h] at hw; exact hw rfl
    rw [this, Bool.or_false]

theorem size_foldl_setBit (ranks : List Nat) (b : Bits) : (ranks.foldl setBit b).size = b.size := by
  induction ranks generalizing b with
  | nil => rfl
  | cons a t ih => rw [List.foldl_cons, ih, size_setBit]

theorem bitAt_foldl_setBit (ranks : List Nat) (b : Bits) (h : ∀ r ∈ ranks, r / 64 < b.size) (r' : Nat) :
    bitAt (ranks.foldl setBit b) r' = (bitAt b r' || ranks.contains r') := by
  induction ranks generalizing b with
  | nil => simp
  | cons a t ih =>
    rw [List.foldl_cons, ih _ (by intro r hr; rw [size_setBit]; exact h r (List.mem_cons_of_mem _ hr)),
      bitAt_setBit b a r' (h a List.mem_cons_self), List.contains_cons, Bool.or_assoc]
    congr 1

/-- `gray &= ~black` -/
theorem bitAt_andNot (g b : Bits) (r : Nat) :
    bitAt (Array.zipWith (fun g b => g &&& ~~~b) g b) r = (bitAt g r && !bitAt b r && decide (r / 64 < b.size)) := by
  rw [bitAt_eq, bitAt_eq, bitAt_eq, Array.getElem?_zipWith]
  cases hg : g[r / 64]? with
  | none => simp
  | some wg =>
    cases hb : b[r / 64]? with
    | none =>
      have : ¬ r / 64 < b.size := by
        intro h; rw [Array.getElem?_eq_getElem h] at hb; cases hb
      simp [this]
    | some wb =>
      have : r / 64 < b.size := by
        apply Classical.byContradiction
        intro h; rw [Array.getElem?_eq_none (by omega)] at hb; cases hb
      simp [this, Nat.mod_lt]

/-- `black |= gray` -/
theorem bitAt_or (a b : Bits) (h : a.size = b.size) (r : Nat) :
    bitAt (Array.zipWith (· ||| ·) a b) r = (bitAt a r || bitAt b r) := by
  rw [bitAt_eq, bitAt_eq, bitAt_eq, Array.getElem?_zipWith]
  by_cases hr : r / 64 < a.size
  · rw [Array.getElem?_eq_getElem hr, Array.getElem?_eq_getElem (h ▸ hr)]
    simp [BitVec.getLsbD_or]
  · rw [Array.getElem?_eq_none (by omega), Array.getElem?_eq_none (by omega)]
    simp

/-! ### counting -/

/-- the set bits of a bit set, in increasing order -/
def setBits (b : Bits) : List Nat := (List.range (64 * b.size)).filter (bitAt b)

theorem mem_setBits (b : Bits) (r : Nat) : r ∈ setBits b ↔ bitAt b r = true := by
  unfold setBits
  rw [List.mem_filter, List.mem_range]
  exact ⟨fun h => h.2, fun h => ⟨lt_of_bitAt h, h⟩⟩

theorem nodup_setBits (b : Bits) : (setBits b).Nodup :=
  List.nodup_range.sublist List.filter_sublist

theorem count_words (l : List (BitVec 64)) (k : Nat) :
    ((List.range (64 * k)).filter fun r => ((l[r / 64]?).getD 0#64).getLsbD (r % 64)).length =
      ((List.range k).map fun j => ((List.range 64).filter fun i => ((l[j]?).getD 0#64).getLsbD i).length).sum := by
  induction k with
  | zero => simp
  | succ k ih =>
    have hr : List.range (k + 1) = List.range k ++ [k] := List.range_succ
    rw [Nat.mul_succ, List.range_add, List.filter_append, List.length_append, ih, hr, List.map_append,
      List.sum_append, List.filter_map, List.length_map]
    congr 1
    simp only [List.map_cons, List.map_nil, List.sum_cons, List.sum_nil, Nat.add_zero]
    congr 1
    apply List.filter_congr
    intro i hi
    have hi8 := List.mem_range.1 hi
    have e1 : (64 * k + i) / 64 = k := by omega
    have e2 : (64 * k + i) % 64 = i := by omega
    simp only [Function.comp, e1, e2]

/-- `_bit_count` returns the number of set bits -/
theorem bitCount_eq_length (b : Bits) : bitCount b = (setBits b).length := by
  rw [bitCount_eq, setBits]
  have h := count_words b.toList b.size
  have e1 : ((List.range (64 * b.size)).filter (bitAt b)) =
      ((List.range (64 * b.size)).filter fun r => ((b.toList[r / 64]?).getD 0#64).getLsbD (r % 64)) := by
    apply List.filter_congr
    intro r _
    rw [bitAt_eq, Array.getElem?_toList]
  rw [e1, h]
  congr 1
  apply List.ext_getElem
  · simp
  · intro j h1 h2
    have hj : j < b.size := by simpa using h1
    simp only [List.getElem_map, List.getElem_range]
    rw [List.getElem?_eq_getElem (by simpa using hj)]
    simp

theorem bitAt_false_of_count_zero (b : Bits) (h : bitCount b = 0) (r : Nat) : bitAt b r = false := by
  rw [bitCount_eq_length] at h
  apply Classical.byContradiction
  intro hb
  have : r ∈ setBits b := (mem_setBits b r).2 (by simpa using hb)
  rw [List.length_eq_zero_iff.1 h] at this
  cases this

/-! ### `_materialize_permutations` -/

/-- the test `(mask >> i2) & 1 == 1` reads bit `i2` -/
theorem and_one_eq (y : BitVec 64) : y &&& 1#64 = if y.getLsbD 0 then 1#64 else 0#64 := by
  apply BitVec.eq_of_getLsbD_eq
  intro i hi
  rw [BitVec.getLsbD_and, BitVec.getLsbD_one]
  by_cases h0 : i = 0
  · subst h0
    cases y.getLsbD 0 <;> simp
  · cases y.getLsbD 0 <;> simp [h0, BitVec.getLsbD_one]

theorem test_bit (mask : BitVec 64) (i2 : Nat) : ((mask >>> i2) &&& 1#64 == 1#64) = mask.getLsbD i2 := by
  rw [and_one_eq, BitVec.getLsbD_ushiftRight, Nat.add_zero]
  cases mask.getLsbD i2
  · decide
  · decide

theorem filterMap_ite {α β : Type} (l : List α) (p : α → Bool) (f : α → β) :
    l.filterMap (fun a => if p a then some (f a) else none) = (l.filter p).map f := by
  induction l with
  | nil => rfl
  | cons a t ih =>
    by_cases h : p a <;> simp [h, ih]

theorem getLsbD_false_of_eq_zero (w : BitVec 64) (h : (w == 0#64) = true) (i : Nat) : w.getLsbD i = false := by
  rw [beq_iff_eq] at h; subst h; simp

/-- the words are scanned in order, set bits are materialised in increasing rank order (the zero-word shortcut is
invisible) -/
theorem materialize_prefix (R : Nat) (c : Chunk) (bits : Bits) (k : Nat) :
    ((List.range k).flatMap fun i1 =>
      if (bits.getD i1 0#64 == 0#64) = true then [] else
        (List.range 64).filterMap fun i2 =>
          if ((bits.getD i1 0#64) >>> i2) &&& 1#64 == 1#64 then some (rankToPerm R c (64 * i1 + i2)) else none) =
      ((List.range (64 * k)).filter (bitAt bits)).map (rankToPerm R c) := by
  induction k with
  | zero => simp
  | succ k ih =>
    have hr : List.range (k + 1) = List.range k ++ [k] := List.range_succ
    rw [hr, List.flatMap_append, ih, Nat.mul_succ, List.range_add, List.filter_append, List.map_append]
    congr 1
    simp only [List.flatMap_cons, List.flatMap_nil, List.append_nil]
    rw [List.filter_map, List.map_map]
    have hbit : ∀ i2, i2 < 64 → bitAt bits (64 * k + i2) = (bits.getD k 0#64).getLsbD i2 := by
      intro i2 hi2
      have e1 : (64 * k + i2) / 64 = k := by omega
      have e2 : (64 * k + i2) % 64 = i2 := by omega
      rw [bitAt, e1, e2]
    have hfilt : (List.range 64).filter (bitAt bits ∘ fun x => 64 * k + x) =
        (List.range 64).filter fun i2 => (bits.getD k 0#64).getLsbD i2 := by
      apply List.filter_congr
      intro i2 hi2
      exact hbit i2 (List.mem_range.1 hi2)
    rw [hfilt]
    split
    · rename_i hz
      have : (List.range 64).filter (fun i2 => (bits.getD k 0#64).getLsbD i2) = [] := by
        rw [List.filter_eq_nil_iff]
        intro i2 _
        rw [getLsbD_false_of_eq_zero _ hz]; simp
      rw [this]; rfl
    · have := filterMap_ite (List.range 64) (fun i2 => ((bits.getD k 0#64) >>> i2) &&& 1#64 == 1#64)
        (fun i2 => rankToPerm R c (64 * k + i2))
      rw [this]
      congr 1
      apply List.filter_congr
      intro i2 _
      exact test_bit _ _

theorem materializeBits_eq (R : Nat) (c : Chunk) (bits : Bits) (hsize : bits.size = numWords R) :
    materializeBits R c bits = (setBits bits).map (rankToPerm R c) := by
  unfold materializeBits setBits
  rw [hsize]
  exact materialize_prefix R c bits (numWords R)

theorem length_materializeBits (R : Nat) (c : Chunk) (bits : Bits) (hsize : bits.size = numWords R) :
    (materializeBits R c bits).length = bitCount bits := by
  rw [materializeBits_eq R c bits hsize, List.length_map, bitCount_eq_length]

end Cv.Bitmask
