/-
  Concrete instances for `CvProps/C04e.lean`, `C05e.lean`, `C12e.lean`: LRX(4) (A13's `lrx4`, `id4`) and the directed
  LX(4), width 2 (one word), collision-free `posHash`; the un-encoded graph with the base-4 hash; the single-word graph
  with the identity hasher.  The models are EVALUATED in the kernel: `bfs` through `Cv.Kernel.bfs_eq_bfsK`,
  `InteractiveBfs` through `uniqueStates_eq` (`List.mergeSort` does not reduce in the kernel); everything else
  (`restore_path`, `find_path_to`, the compiled routines on `BitVec 64`) reduces as it is.
-/
import CvProofs.InstancePaths
import CvProofs.InstanceExample
import CvProofs.BfsKernel
namespace Cv.Instance.PathsExample
open Cv Cv.Instance Cv.Instance.Example Cv.Codec Cv.Kernel

/-! ### the graphs -/

/-- LRX(4), width 2, collision-free hash, flagged inverse-closed (it is), batch size 3 -/
def gE : Graph (List W) := encodedPermGraph 2 4 lrx4 posHash true 3
def gEi : Graph (List W) := encodedPermGraphInv 2 4 lrx4 posHash true 3

/-- LX(4): rotation and swap only — NOT inverse-closed, flag `false` -/
def lx4 : List (List Nat) := [[1, 2, 3, 0], [1, 0, 2, 3]]
def gD : Graph (List W) := encodedPermGraph 2 4 lx4 posHash false 3
def gDi : Graph (List W) := encodedPermGraphInv 2 4 lx4 posHash false 3

/-- un-encoded LRX(4), base-4 hash -/
def gPi : Graph (List Nat) := plainPermGraphInv lrx4 b4Hash true 2

/-- single word, identity hasher -/
def gIi : Graph (List W) := encodedPermGraphInv 2 4 lrx4 identityHash true 1
def gI1 : Graph (List W) := encodedPermGraph1d 2 4 lrx4 identityHash true 1
def gI1i : Graph (List W) := encodedPermGraph1dInv 2 4 lrx4 identityHash true 1

theorem lx4_perm : ∀ p ∈ lx4, Cv.Perm.IsPermOf 4 p := by decide
theorem lx4_not_closed : ¬ ∀ p ∈ lx4, Cv.Perm.inverse p ∈ lx4 := by decide
theorem lx4_invMap : permInvMap lx4 = none := by decide
theorem lrx4_invMap : permInvMap lrx4 = some [1, 0, 2] := by decide

theorem posHash_inj_valid (w n : Nat) : ∀ x y, Valid w n x → Valid w n y → posHash x = posHash y → x = y :=
  fun _ _ _ _ h => posHash_injective h

/-! ### `PathHyp` itself fails on the encoded pair -/

/-- generator 0 maps the EMPTY row to a row of one word; no routine maps that back to the empty row -/
theorem gE_not_pathHyp : ¬ PathHyp gE gEi := fun h => by
  have := (h.inv 0 (by decide) []).1
  revert this
  decide +kernel

/-- … and the identity hasher is not injective on all rows -/
theorem gI_not_pathHyp : ¬ PathHyp gI gIi := fun h => by
  have := @PathHyp.inj _ _ _ h [] [0#64] (by decide)
  revert this
  decide

/-! ### the ball of depth 2 (evaluated) -/

def cBall (D : Nat) : BfsCfg (List W) := { returnHashes := true, maxDiameter := D }

def ball2 : List (List Int) :=
  [[18446744073709551844],
   [18446744073709551673, 18446744073709551763, 18446744073709551841],
   [18446744073709551670, 18446744073709551694, 18446744073709551736, 18446744073709551751,
    18446744073709551772]]

theorem ball2_eq : (bfs gE (cBall 2) [encode 2 4 id4]).hashes = ball2 := by
  rw [bfs_eq_bfsK]; decide +kernel

theorem id4_enc : encodable 2 4 id4 = true := by decide

/-- the evaluated list IS a ball (by `encoded_ball`, not by inspection) -/
theorem ball2_isBall : IsBall gE (encode 2 4 id4) ball2 := by
  obtain ⟨_, _, _, h⟩ := encoded_ball 2 4 (by decide) (by decide) lrx4 lrx4_perm posHash true 3
    (posHash_inj_valid 2 4) (fun _ => lrx4_invClosed) (by decide) (cBall 2) rfl id4 id4_enc
  rw [← ball2_eq]; exact h

/-! ### C04e evaluated -/

theorem to_found : findPathTo gE gEi ball2 (encode 2 4 [2, 3, 0, 1]) = .found [0, 0] := by decide +kernel
/-- distance 3: outside the ball -/
theorem to_outside : findPathTo gE gEi ball2 (encode 2 4 [1, 3, 0, 2]) = .notFound := by decide +kernel
/-- not a rearrangement of the central state: outside the orbit -/
theorem to_offOrbit : findPathTo gE gEi ball2 (encode 2 4 [0, 0, 1, 1]) = .notFound := by decide +kernel
theorem from_found : findPathFrom gE gEi (permInvMap lrx4) ball2 (encode 2 4 [2, 3, 0, 1]) = .found [1, 1] := by
  decide +kernel
theorem from_outside : findPathFrom gE gEi (permInvMap lrx4) ball2 (encode 2 4 [1, 3, 0, 2]) = .notFound := by
  decide +kernel
theorem revert_ex : revertPathM (permInvMap lrx4) [0, 0, 2] = some [2, 1, 1] := by decide

/-- `hq` is needed: `[4, 1, 2, 3]` does not fit width 2 (the library's `encode` asserts); the model's `encode` truncates
it to the encoding of the central state and `find_path_to` answers with the empty path -/
theorem hq_needed : encodable 2 4 [4, 1, 2, 3] = false ∧
    findPathTo gE gEi ball2 (encode 2 4 [4, 1, 2, 3]) = .found [] ∧
    applyPath (genAct lrx4) id4 [] ≠ [4, 1, 2, 3] := by
  refine ⟨by decide, by decide +kernel, by decide⟩

/-- `hinj` is needed: with a constant hash the list `[[0]]` is a ball of depth 0 around the central state, and EVERY
query state is "found" with the empty path -/
def gC : Graph (List W) := encodedPermGraph 2 4 lrx4 (fun _ => 0) true 3
def gCi : Graph (List W) := encodedPermGraphInv 2 4 lrx4 (fun _ => 0) true 3

theorem hinj_needed : IsBall gC (encode 2 4 id4) [[0]] ∧
    findPathTo gC gCi [[0]] (encode 2 4 [1, 2, 3, 0]) = .found [] ∧
    applyPath (genAct lrx4) id4 [] ≠ [1, 2, 3, 0] := by
  refine ⟨?_, by decide +kernel, by decide⟩
  intro i H hi
  match i, hi with
  | 0, hi =>
    simp only [List.getElem?_cons_zero, Option.some.injEq] at hi
    subst hi
    refine ⟨by simp, [encode 2 4 id4], by simp, ?_, by simp [gC, encodedPermGraph]⟩
    intro x
    rw [distLayer_zero_iff]
  | i + 1, hi => simp at hi

/-! ### C05e evaluated -/

/-- distance 4 = 2·D: found by the backward search -/
theorem mitm_found : mitmFindPathTo gE gEi ball2 (encode 2 4 [3, 2, 1, 0]) = .found [2, 0, 0, 2] := by
  rw [mitmFindPathTo_eq]; simp only [bfs_eq_bfsK]; decide +kernel
/-- distance 6 > 2·D -/
theorem mitm_far : mitmFindPathTo gE gEi ball2 (encode 2 4 [1, 0, 3, 2]) = .notFound := by
  rw [mitmFindPathTo_eq]; simp only [bfs_eq_bfsK]; decide +kernel
/-- outside the orbit -/
theorem mitm_offOrbit : mitmFindPathTo gE gEi ball2 (encode 2 4 [0, 0, 1, 1]) = .notFound := by
  rw [mitmFindPathTo_eq]; simp only [bfs_eq_bfsK]; decide +kernel
theorem mitmFrom_found :
    mitmFindPathFrom gE gEi (permInvMap lrx4) ball2 (encode 2 4 [3, 2, 1, 0]) = .found [2, 1, 1, 2] := by
  simp only [mitmFindPathFrom, mitmFindPathTo_eq, bfs_eq_bfsK]; decide +kernel

/-- the 24 arrangements are closed under the INVERSE generators as well -/
theorem all24_closedInv : ∀ s ∈ all24, ∀ t ∈ permGraphNb (lrx4.map Cv.Perm.inverse) s, t ∈ all24 := by
  decide +kernel

theorem mem_all24 (s : List Nat) (h : decide (s ∈ all24) = true) : s ∈ all24 := of_decide_eq_true h

/-- `hexp` for every destination among the 24 arrangements: every class has at most 24 states -/
theorem hexp24 (dest : List Nat) (hd : dest ∈ all24) (D : Nat) :
    ∀ k (L : List (List Nat)), 1 ≤ k → k ≤ D → L.Nodup →
      (∀ s, s ∈ L ↔ DistLayer (permGraphNb (lrx4.map Cv.Perm.inverse)) [dest] k s) → L.length < 10^12 := by
  intro k L _ _ hnd hmem
  have := layer_le_of_closed _ all24 all24_closedInv [dest] (by simpa using hd) k L hnd hmem
  rw [all24_length] at this
  omega

/-- the 6 arrangements of `[0, 0, 1, 1]` -/
def all6 : List (List Nat) := (absSt (permGraphNb lrx4) [[0, 0, 1, 1]] 3).1
theorem all6_length : all6.length = 6 := by decide +kernel
theorem all6_closedInv : ∀ s ∈ all6, ∀ t ∈ permGraphNb (lrx4.map Cv.Perm.inverse) s, t ∈ all6 := by
  decide +kernel

theorem hexp6 (D : Nat) :
    ∀ k (L : List (List Nat)), 1 ≤ k → k ≤ D → L.Nodup →
      (∀ s, s ∈ L ↔ DistLayer (permGraphNb (lrx4.map Cv.Perm.inverse)) [[0, 0, 1, 1]] k s) → L.length < 10^12 := by
  intro k L _ _ hnd hmem
  have := layer_le_of_closed _ all6 all6_closedInv [[0, 0, 1, 1]] (by decide +kernel) k L hnd hmem
  rw [all6_length] at this
  omega

theorem unique_eqK {α : Type} (g : Graph α) (xs : List α) : g.unique xs = uniqueStatesK g.hash xs :=
  uniqueStates_eq _ _

/-- set to set: the closest pair is `[1, 0, 2, 3]`, `[3, 2, 1, 0]` at distance 3 -/
theorem between_found :
    (findPathBetween gE gEi ([[0, 1, 2, 3], [1, 0, 2, 3]].map (encode 2 4))
        ([[3, 2, 1, 0], [1, 0, 3, 2]].map (encode 2 4)) 5).map
      (Option.map fun r => (decode 2 4 r.start, r.edges)) = some (some ([1, 0, 2, 3], [0, 0, 2])) := by
  simp only [findPathBetween, betweenLoop, IBfs.init, IBfs.step, unique_eqK]
  decide +kernel
/-- distance 6 > 2·2 -/
theorem between_none :
    (findPathBetween gE gEi ([[0, 1, 2, 3]].map (encode 2 4)) ([[1, 0, 3, 2]].map (encode 2 4)) 2).map
      (Option.map fun r => (decode 2 4 r.start, r.edges)) = some none := by
  simp only [findPathBetween, betweenLoop, IBfs.init, IBfs.step, unique_eqK]
  decide +kernel

/-! ### C12e evaluated -/

theorem find_found :
    findPath gE gEi (permInvMap lrx4) (encode 2 4 id4) (encode 2 4 [3, 2, 1, 0]) none (some 2) =
      .found [2, 1, 1, 2] := by
  simp only [findPath, precomputeBfs, mitmFindPathFrom, mitmFindPathTo_eq, bfs_eq_bfsK]; decide +kernel
theorem find_far :
    findPath gE gEi (permInvMap lrx4) (encode 2 4 id4) (encode 2 4 [1, 0, 3, 2]) none (some 2) = .notFound := by
  simp only [findPath, precomputeBfs, mitmFindPathFrom, mitmFindPathTo_eq, bfs_eq_bfsK]; decide +kernel
/-- the branch for generators that are not inverse-closed: ball in the inverted graph, path reversed -/
theorem findD_found :
    findPath gD gDi (permInvMap lx4) (encode 2 4 id4) (encode 2 4 [3, 2, 1, 0]) none (some 2) =
      .found [1, 0, 0, 1] := by
  simp only [findPath, precomputeBfs, mitmFindPathFrom, mitmFindPathTo_eq, bfs_eq_bfsK]; decide +kernel
theorem findD_far :
    findPath gD gDi (permInvMap lx4) (encode 2 4 id4) (encode 2 4 [3, 2, 1, 0]) none (some 1) = .notFound := by
  simp only [findPath, precomputeBfs, mitmFindPathFrom, mitmFindPathTo_eq, bfs_eq_bfsK]; decide +kernel

theorem all24_closed' : ∀ s ∈ all24, ∀ t ∈ permGraphNb lx4 s, t ∈ all24 := by decide +kernel

/-! ### the un-encoded graph -/

/-- the base-4 hash is injective on the states of length 4 with entries below 4 -/
theorem b4Hash_inj4 : ∀ s t, PlainValid 4 (· < 4) s → PlainValid 4 (· < 4) t → b4Hash s = b4Hash t → s = t := by
  intro s t hs ht h
  match s, t, hs, ht with
  | [a, b, c, d], [a', b', c', d'], hs, ht =>
    have h1 := hs.2; have h2 := ht.2
    simp only [List.mem_cons, List.not_mem_nil, or_false, forall_eq_or_imp, forall_eq] at h1 h2
    simp only [b4Hash, List.foldl_cons, List.foldl_nil, Int.ofNat_eq_natCast, Int.natCast_inj] at h
    have : a = a' ∧ b = b' ∧ c = c' ∧ d = d' := by omega
    obtain ⟨rfl, rfl, rfl, rfl⟩ := this
    rfl

theorem id4_plain : PlainValid 4 (· < 4) id4 := by
  refine ⟨rfl, ?_⟩
  decide

theorem plainValid_of (s : List Nat) (h : (decide (s.length = 4) && s.all (fun v => decide (v < 4))) = true) :
    PlainValid 4 (· < 4) s := by
  simp only [Bool.and_eq_true, decide_eq_true_eq, List.all_eq_true] at h
  exact ⟨h.1, h.2⟩

def cBallP (D : Nat) : BfsCfg (List Nat) := { returnHashes := true, maxDiameter := D }
def ballP : List (List Int) := [[27], [75, 108, 198], [45, 54, 156, 177, 210]]

theorem ballP_eq : (bfs gP (cBallP 2) [id4]).hashes = ballP := by rw [bfs_eq_bfsK]; decide +kernel

theorem ballP_isBall : IsBall gP id4 ballP := by
  obtain ⟨_, _, _, h⟩ := plain_ball 4 (· < 4) lrx4 lrx4_perm b4Hash true 2 b4Hash_inj4 (fun _ => lrx4_invClosed)
    (by decide) (cBallP 2) rfl id4 id4_plain
  rw [← ballP_eq]; exact h

theorem plain_to_found : findPathTo gP gPi ballP [2, 3, 0, 1] = .found [0, 0] := by decide +kernel
theorem plain_to_outside : findPathTo gP gPi ballP [1, 3, 0, 2] = .notFound := by decide +kernel
theorem plain_from_found : findPathFrom gP gPi (permInvMap lrx4) ballP [2, 3, 0, 1] = .found [1, 1] := by
  decide +kernel
theorem plain_mitm_found : mitmFindPathTo gP gPi ballP [3, 2, 1, 0] = .found [2, 0, 0, 2] := by
  rw [mitmFindPathTo_eq]; simp only [bfs_eq_bfsK]; decide +kernel
theorem plain_mitm_far : mitmFindPathTo gP gPi ballP [1, 0, 3, 2] = .notFound := by
  rw [mitmFindPathTo_eq]; simp only [bfs_eq_bfsK]; decide +kernel
theorem plain_between_found :
    (findPathBetween gP gPi [[0, 1, 2, 3], [1, 0, 2, 3]] [[3, 2, 1, 0], [1, 0, 3, 2]] 5).map
      (Option.map fun r => (r.start, r.edges)) = some (some ([1, 0, 2, 3], [0, 0, 2])) := by
  simp only [findPathBetween, betweenLoop, IBfs.init, IBfs.step, unique_eqK]
  decide +kernel
theorem plain_find_found : findPath gP gPi (permInvMap lrx4) id4 [3, 2, 1, 0] none (some 2) = .found [2, 1, 1, 2] := by
  simp only [findPath, precomputeBfs, mitmFindPathFrom, mitmFindPathTo_eq, bfs_eq_bfsK]; decide +kernel

/-- the hash has to be injective on a set that contains the QUERY state, not only on the orbit: `[0, 0, 0, 27]` collides
with the central state under the base-4 hash (which is injective on the orbit, `b4Hash_inj`) -/
theorem plain_hinj_query : findPathTo gP gPi ballP [0, 0, 0, 27] = .found [] ∧
    applyPath (genAct lrx4) id4 [] ≠ [0, 0, 0, 27] ∧ [0, 0, 0, 27].length = 4 := by
  refine ⟨by decide +kernel, by decide, rfl⟩

/-- a wrongly set flag (`ic = true` for a single 3-cycle, A13's example): the two-layer window forgets layer 0, the
central state comes back as "layer 3", and the returned list is NOT a ball -/
theorem wrong_flag_not_ball :
    (bfs (plainPermGraph [[1, 2, 0]] b4Hash true 2) (cBallP 3) [[0, 1, 2]]).hashes = [[6], [24], [33], [6]] ∧
    ¬ IsBall (plainPermGraph [[1, 2, 0]] b4Hash true 2) [0, 1, 2] [[6], [24], [33], [6]] := by
  refine ⟨by rw [bfs_eq_bfsK]; decide +kernel, ?_⟩
  intro h
  obtain ⟨-, L, -, hmem, hperm⟩ := h 3 [6] rfl
  rw [plain_nb] at hmem
  have hempty := hic_wrong_flag.2.2.2.2
  match L, hmem, hperm with
  | [], _, hperm => simp at hperm
  | x :: _, hmem, _ => exact hempty x ((hmem x).1 (by simp))

/-! ### single word, identity hasher -/

def ballI : List (List Int) := [[228], [57, 147, 225], [54, 78, 120, 135, 156]]

theorem ballI_eq : (bfs gI (cBall 2) [encode 2 4 id4]).hashes = ballI := by rw [bfs_eq_bfsK]; decide +kernel

theorem ballI_isBall : IsBall gI (encode 2 4 id4) ballI := by
  obtain ⟨_, _, _, h⟩ := encoded_ball 2 4 (by decide) (by decide) lrx4 lrx4_perm identityHash true 1
    (identityHash_inj_valid 2 4 encLen_2_4) (fun _ => lrx4_invClosed) (by decide) (cBall 2) rfl id4 id4_enc
  rw [← ballI_eq]; exact h

theorem single_to_found : findPathTo gI gIi ballI (encode 2 4 [2, 3, 0, 1]) = .found [0, 0] := by decide +kernel
theorem single_to_outside : findPathTo gI gIi ballI (encode 2 4 [1, 3, 0, 2]) = .notFound := by decide +kernel
theorem single_from_found :
    findPathFrom gI gIi (permInvMap lrx4) ballI (encode 2 4 [2, 3, 0, 1]) = .found [1, 1] := by decide +kernel
theorem single_mitm_found : mitmFindPathTo gI gIi ballI (encode 2 4 [3, 2, 1, 0]) = .found [2, 0, 0, 2] := by
  rw [mitmFindPathTo_eq]; simp only [bfs_eq_bfsK]; decide +kernel
theorem single_find_found :
    findPath gI gIi (permInvMap lrx4) (encode 2 4 id4) (encode 2 4 [3, 2, 1, 0]) none (some 2) =
      .found [2, 1, 1, 2] := by
  simp only [findPath, precomputeBfs, mitmFindPathFrom, mitmFindPathTo_eq, bfs_eq_bfsK]; decide +kernel
/-- the graph built from the 1-D routines, evaluated directly -/
theorem single1d_to_found : findPathTo gI1 gI1i ballI (encode 2 4 [2, 3, 0, 1]) = .found [0, 0] := by
  decide +kernel

end Cv.Instance.PathsExample
