/-
  G6 — derangements: generated = specification.  Core Lean only.
-/
import CvProofs.PyFamG6Lemmas
namespace Cv.PyG6
open Cv.Py Cv.PyGen Cv.Families Cv.PyG4
open Cv.GraphDef (PermDef)

/-! ### `itertools.permutations(l)` of the prelude = `permsOf` of the model -/

theorem pyPicks_eq {α : Type} (l : List α) : pyPicks l = Cv.Perm.picks l := by
  induction l with
  | nil => rfl
  | cons a t ih => simp only [pyPicks, Cv.Perm.picks, ih]

theorem pyPicks_length {α : Type} (l : List α) : ∀ p ∈ pyPicks l, p.2.length + 1 = l.length := by
  induction l with
  | nil => intro p hp; simp [pyPicks] at hp
  | cons a t ih =>
    intro p hp
    simp only [pyPicks, List.mem_cons, List.mem_map] at hp
    rcases hp with rfl | ⟨q, hq, rfl⟩
    · rfl
    · simp only [List.length_cons]; rw [ih q hq]

theorem permsOf_eq {α : Type} (fuel : Nat) (l : List α) (h : l.length = fuel) :
    Cv.Perm.permsOf fuel l = pyPermutationsN fuel l := by
  induction fuel generalizing l with
  | zero => rfl
  | succ fuel ih =>
    have hne : l.isEmpty = false := by
      cases l with
      | nil => simp at h
      | cons a t => rfl
    simp only [Cv.Perm.permsOf, hne, Bool.false_eq_true, if_false, pyPermutationsN, ← pyPicks_eq]
    apply flatMap_congr
    intro p hp
    rw [ih p.2 (by have := pyPicks_length l p hp; omega)]

theorem pyPermutations_range (n : Nat) :
    pyPermutations (pyRange 0 (n : Int) 1) = (allPerms n).map toI := by
  rw [pyRange_zero_nat]
  unfold pyPermutations allPerms
  rw [toI_length, List.length_range, permsOf_eq n _ List.length_range]
  unfold toI
  rw [pyPermutationsN_map]

/-! ### `enumerate`, `any` -/

theorem pyEnumerate_aux {α : Type} (l : List α) (k : Nat) :
    List.zipWith (fun (i : Nat) (a : α) => ((i : Int), a)) (List.range' k l.length) l =
      (l.zipIdx k).map fun x => ((x.2 : Int), x.1) := by
  induction l generalizing k with
  | nil => rfl
  | cons a t ih =>
    simp only [List.length_cons, List.range'_succ, List.zipWith_cons_cons, List.zipIdx_cons, List.map_cons, ih]

theorem pyEnumerate_eq {α : Type} (l : List α) :
    pyEnumerate l = l.zipIdx.map fun x => ((x.2 : Int), x.1) := by
  unfold pyEnumerate
  rw [List.range_eq_range', pyEnumerate_aux]

theorem zipIdx_map' {α β : Type} (f : α → β) (l : List α) (k : Nat) :
    (l.map f).zipIdx k = (l.zipIdx k).map fun x => (f x.1, x.2) := by
  induction l generalizing k with
  | nil => rfl
  | cons a t ih => simp only [List.map_cons, List.zipIdx_cons, ih]

theorem pyAnyM_some {α : Type} (f : α → Option Bool) (g : α → Bool) (l : List α)
    (h : ∀ x ∈ l, f x = some (g x)) : pyAnyM f l = some (l.any g) := by
  induction l with
  | nil => rfl
  | cons a t ih =>
    simp only [pyAnyM, h a List.mem_cons_self, Option.bind_eq_bind, Option.bind_some, List.any_cons,
      Option.pure_def]
    cases g a
    · simp only [Bool.false_eq_true, if_false, Bool.false_or]
      exact ih (fun x hx => h x (List.mem_cons_of_mem _ hx))
    · simp only [if_true, Bool.true_or]

/-- the translated fixed-point test -/
theorem hasFixedPoint_gen (n : Nat) (p : List Nat) (hp : p.length = n) :
    pyAnyM (fun i => do let t_2 ← pyGet (toI p) i; pure ((t_2 == i))) (pyRange 0 (n : Int) 1) =
      some (hasFixedPoint p) := by
  rw [pyRange_zero_nat, pyAnyM_some _ (fun i : Int => (p.getD i.toNat 0 : Int) == i)]
  · unfold hasFixedPoint toI
    rw [List.any_map, hp]
    congr 2
    funext i
    simp only [Function.comp_apply, Int.ofNat_eq_natCast, Int.toNat_natCast]
    generalize p.getD i 0 = v
    by_cases e : v = i
    · subst e; simp
    · have : ¬ (v : Int) = (i : Int) := by omega
      rw [beq_eq_false_iff_ne.2 this, beq_eq_false_iff_ne.2 e]
  · intro x hx
    unfold toI at hx
    obtain ⟨j, hj, rfl⟩ := List.mem_map.1 hx
    have hj' := List.mem_range.1 hj
    simp only [Int.ofNat_eq_natCast, Int.toNat_natCast]
    rw [pyGet_toI_lt p j (by omega)]
    rfl

/-! ### derangements -/

theorem flatMap_ite' {α β : Type} (p : α → Bool) (f : α → β) (l : List α) :
    l.flatMap (fun x => if p x = true then [f x] else []) = (l.filter p).map f := by
  induction l with
  | nil => rfl
  | cons a t ih =>
    rw [List.flatMap_cons, ih, List.filter_cons]
    cases p a <;> simp

theorem enumerate_perms (n : Nat) :
    pyEnumerate (pyPermutations (pyRange 0 (n : Int) 1)) =
      (allPerms n).zipIdx.map fun x => ((x.2 : Int), toI x.1) := by
  rw [pyPermutations_range, pyEnumerate_eq, zipIdx_map', List.map_map]
  rfl

/-- the specified definition -/
def derSpec (n : Nat) : PermDef :=
  { gens := ((allPerms n).zipIdx.filter fun x => !hasFixedPoint x.1).map (·.1)
    names := ((allPerms n).zipIdx.filter fun x => !hasFixedPoint x.1).map fun x => "D" ++ showNat x.2
    central := List.range n
    name := "derangements-" ++ showNat n }

theorem derangements_raw (n : Nat) (hn : 2 ≤ n) :
    Fam.derangements (n : Int) = some (rawOf (derSpec n)) := by
  unfold Fam.derangements
  have ha : pyAssert (decide ((n : Int) ≥ 2)) = some () := by
    apply pyAssert_true; simp only [decide_eq_true_eq]; omega
  simp only [ha, Option.bind_eq_bind, Option.bind_some, Option.pure_def]
  rw [enumerate_perms, List.foldlM_map]
  rw [foldlM_outer
    (A := fun (x : List Nat × Nat) => if (!hasFixedPoint x.1) = true then [toI x.1] else [])
    (B := fun (x : List Nat × Nat) => if (!hasFixedPoint x.1) = true then ["D" ++ showNat x.2] else [])]
  · simp only [Option.bind_some, List.nil_append, flatMap_ite', pyRange_zero_nat, pyStr_nat]
    simp [rawOf, derSpec, toI]
  · rintro ⟨p, r⟩ hx st
    have hmem : p ∈ allPerms n := List.mem_of_getElem? (List.mem_zipIdx_iff_getElem?.1 hx)
    have hlen : p.length = n := ((mem_allPerms n p).1 hmem).length_eq
    have hf := hasFixedPoint_gen n p hlen
    simp only [Option.bind_eq_bind, Option.pure_def] at hf
    simp only [hf, Option.bind_some]
    cases hasFixedPoint p
    · simp only [Bool.not_false, if_true, Option.bind_some, pyStr_nat]
    · simp only [Bool.not_true, Bool.false_eq_true, if_false, Option.bind_some, List.append_nil]

theorem derSpec_eq (n : Nat) (hn : 2 ≤ n) : Families.derangements n = some (derSpec n) := by
  unfold Families.derangements; rw [if_pos hn]; rfl

/-- the rotation `i ↦ i+1 mod n` is a derangement: the generator list is not empty -/
theorem derSpec_gens_ne (n : Nat) (hn : 2 ≤ n) : (derSpec n).gens ≠ [] := by
  have hmem : oneLine n (shiftLFn n) ∈ (derSpec n).gens := by
    apply (mem_derangements_gens n _).2
    refine ⟨(shiftL_invPair n).isPermOf, ?_⟩
    intro i hi
    rw [getD_oneLine _ _ _ hi, shiftLFn_eq hi]
    split <;> omega
  intro e
  rw [e] at hmem; exact absurd hmem List.not_mem_nil

theorem derangements_gen (n : Nat) :
    (Fam.derangements (n : Int)).bind rawToPermDef = Families.derangements n := by
  by_cases hn : 2 ≤ n
  · have hs := derSpec_eq n hn
    rw [hs]
    exact bind_rawOf n _ _ (derangements_raw n hn)
      (derangements_valid n _ ((permFamily_derangements n).trans hs)) (derSpec_gens_ne n hn) (by omega)
  · have : Families.derangements n = none := by unfold Families.derangements; rw [if_neg hn]
    rw [this]
    unfold Fam.derangements
    rw [assert_fail_int _ _ (by omega)]; rfl

theorem derangements_gen_neg (n : Int) (h : n < 0) : Fam.derangements n = none := by
  unfold Fam.derangements
  rw [assert_fail_int _ _ (by omega)]; rfl

end Cv.PyG6
