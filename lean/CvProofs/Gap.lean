/-
  Proofs about `CvModel/Gap.lean` (GAP text reader / printer, cycle notation, central state from
  identical pieces).  Core Lean only.
-/
import CvModel.Gap
import CvProofs.Perm
import CvProofs.PermConj
namespace Cv.Gap
open Cv.Perm

/-! ## building a permutation from a cycle decomposition -/

theorem getD_ext {n : Nat} {p q : List Nat} (hp : p.length = n) (hq : q.length = n)
    (h : ∀ k, k < n → p.getD k 0 = q.getD k 0) : p = q := by
  apply List.ext_getElem (by omega)
  intro k h1 h2
  have := h k (by omega)
  rwa [getD_eq_getElem h1, getD_eq_getElem h2] at this

theorem getD_map_ofNat_add (c : List Nat) (o i : Nat) (hi : i < c.length) :
    (c.map fun x => Int.ofNat (x + o)).getD i 0 = Int.ofNat (c.getD i 0 + o) := by
  rw [List.getD_eq_getElem?_getD, List.getD_eq_getElem?_getD, List.getElem?_map,
    List.getElem?_eq_getElem hi]
  rfl

/-- `permutation_from_cycles` applied to a decomposition of `p` into disjoint cycles (fixed points may be
omitted), written with any offset, gives back `p`. -/
theorem fromCycles_of_decomp (n : Nat) (p : List Nat) (hp : IsPermOf n p) (cs : List (List Nat))
    (hnd : cs.flatten.Nodup) (hcyc : ∀ c ∈ cs, CycleOn p c) (hlt : ∀ k ∈ cs.flatten, k < n)
    (hfix : ∀ k, k < n → k ∉ cs.flatten → p.getD k 0 = k) (o : Nat) :
    fromCycles n (cs.map fun c => c.map fun x => Int.ofNat (x + o)) (Int.ofNat o) = some p := by
  have hflat : (cs.map fun c => c.map fun x => Int.ofNat (x + o)).flatten =
      cs.flatten.map fun x => Int.ofNat (x + o) := by
    rw [List.map_flatten]
  have hnd' : (((cs.map fun c => c.map fun x => Int.ofNat (x + o)).flatten).map
      (· - Int.ofNat o)).Nodup := by
    rw [hflat, List.map_map]
    have : ((fun x : Int => x - Int.ofNat o) ∘ fun x : Nat => Int.ofNat (x + o)) = fun x => Int.ofNat x := by
      funext x; simp only [Function.comp, Int.ofNat_eq_natCast]; omega
    rw [this]
    rw [List.nodup_iff_pairwise_ne, List.pairwise_map]
    exact (List.nodup_iff_pairwise_ne.1 hnd).imp (fun h e => h (by
      simp only [Int.ofNat_eq_natCast] at e; omega))
  have hr : ∀ v ∈ (cs.map fun c => c.map fun x => Int.ofNat (x + o)).flatten,
      0 ≤ v - Int.ofNat o ∧ v - Int.ofNat o < n := by
    rw [hflat]
    intro v hv
    obtain ⟨x, hx, rfl⟩ := List.mem_map.1 hv
    have := hlt x hx
    simp only [Int.ofNat_eq_natCast]; omega
  have hsome := fromCycles_isSome_of_nodup n _ _ hnd' hr
  obtain ⟨q, hq⟩ := Option.isSome_iff_exists.1 hsome
  rw [hq]
  congr 1
  obtain ⟨q1, q2, q3⟩ := fromCycles_spec n _ _ q hq hnd'
  apply getD_ext q1.length_eq hp.length_eq
  intro k hk
  by_cases hmem : k ∈ cs.flatten
  · obtain ⟨c, hc, hkc⟩ := List.mem_flatten.1 hmem
    obtain ⟨i, hi, e⟩ := List.getElem_of_mem hkc
    have hc' : (c.map fun x => Int.ofNat (x + o)) ∈ cs.map fun c => c.map fun x => Int.ofNat (x + o) :=
      List.mem_map_of_mem hc
    have := q2 _ hc' i (by simpa using hi)
    have hpos : 0 < c.length := by omega
    rw [List.length_map, getD_map_ofNat_add c o i hi,
      getD_map_ofNat_add c o _ (Nat.mod_lt _ hpos)] at this
    have e1 : c.getD i 0 = k := by rw [getD_eq_getElem hi]; exact e
    have e2 : ((Int.ofNat (c.getD i 0 + o)) - Int.ofNat o).toNat = k := by
      rw [e1]; simp only [Int.ofNat_eq_natCast]; omega
    have e3 : ((Int.ofNat (c.getD ((i + 1) % c.length) 0 + o)) - Int.ofNat o).toNat =
        c.getD ((i + 1) % c.length) 0 := by
      simp only [Int.ofNat_eq_natCast]; omega
    rw [e2, e3] at this
    rw [this, ← (hcyc c hc).step i hi, e1]
  · rw [hfix k hk hmem]
    apply q3 k hk
    intro c' hc' hin
    obtain ⟨c, hc, rfl⟩ := List.mem_map.1 hc'
    obtain ⟨x, hx, e⟩ := List.mem_map.1 hin
    apply hmem
    have : x = k := by simp only [Int.ofNat_eq_natCast] at e; omega
    exact List.mem_flatten.2 ⟨c, hc, this ▸ hx⟩

/-! ## `toCycles` -/

theorem rot_zero (c : List Nat) : rot c 0 = c := by
  apply List.ext_getElem (by simp)
  intro i h1 h2
  simp only [rot, List.getElem_map, List.getElem_range, Nat.zero_add]
  rw [Nat.mod_eq_of_lt h2, getD_eq_getElem h2]

/-- a cycle of a permutation is closed under going back along the orbit -/
theorem iter_mem_cycle_back {n : Nat} {p c : List Nat} (hp : IsPermOf n p) (hc : CycleOn p c)
    (hlt : ∀ y ∈ c, y < n) {x : Nat} (hx : x < n) (i : Nat) (h : iter p x i ∈ c) : x ∈ c := by
  induction i with
  | zero => exact h
  | succ i ih => exact ih (cycle_preimage hp hc hlt (iter_lt hp hx i) h)

theorem cycleOn_length_le {n : Nat} {p c : List Nat} (hc : CycleOn p c) (hlt : ∀ y ∈ c, y < n) :
    c.length ≤ n := by
  have hsub : c ⊆ List.range n := fun y hy => List.mem_range.2 (hlt y hy)
  simpa using hc.nodup.length_le_of_subset hsub

/-- the step function of `toCycles` -/
def tcStep (p : List Nat) (acc : List (List Nat)) (i : Nat) : List (List Nat) :=
  if p.getD i 0 = i ∨ acc.any (·.contains i) then acc
  else acc ++ [cycleOf p i (p.length + 1)]

theorem toCycles_eq (p : List Nat) : toCycles p = (List.range p.length).foldl (tcStep p) [] := rfl

/-- what `toCycles` has built after looking at the points `< k` -/
structure TcInv (n : Nat) (p : List Nat) (k : Nat) (acc : List (List Nat)) : Prop where
  cyc : ∀ c ∈ acc, CycleOn p c
  lt : ∀ y ∈ acc.flatten, y < n
  moved : ∀ y ∈ acc.flatten, p.getD y 0 ≠ y
  nodup : acc.flatten.Nodup
  cover : ∀ i, i < k → p.getD i 0 ≠ i → i ∈ acc.flatten

theorem any_contains_iff (acc : List (List Nat)) (i : Nat) :
    acc.any (·.contains i) = true ↔ i ∈ acc.flatten := by
  simp [List.mem_flatten]

theorem cycleOn_moved {p c : List Nat} (hc : CycleOn p c) (h2 : 2 ≤ c.length) :
    ∀ y ∈ c, p.getD y 0 ≠ y := by
  intro y hy e
  obtain ⟨i, hi, rfl⟩ := List.getElem_of_mem hy
  have hs := hc.step i hi
  rw [getD_eq_getElem hi, e] at hs
  have hm : (i + 1) % c.length < c.length := Nat.mod_lt _ (by omega)
  rw [getD_eq_getElem hm] at hs
  have := (List.getElem_inj hc.nodup).1 hs
  by_cases h : i + 1 < c.length
  · rw [Nat.mod_eq_of_lt h] at this; omega
  · have h' : i + 1 = c.length := by omega
    rw [h', Nat.mod_self] at this
    omega

theorem tcStep_inv {n : Nat} {p : List Nat} (hp : IsPermOf n p) (k : Nat) (hk : k < n)
    (acc : List (List Nat)) (h : TcInv n p k acc) : TcInv n p (k + 1) (tcStep p acc k) := by
  unfold tcStep
  split
  · rename_i hcond
    refine ⟨h.cyc, h.lt, h.moved, h.nodup, ?_⟩
    intro i hi hne
    by_cases hik : i = k
    · subst hik
      rcases hcond with h1 | h1
      · exact absurd h1 hne
      · exact (any_contains_iff acc i).1 h1
    · exact h.cover i (by omega) hne
  · rename_i hcond
    have hnf : p.getD k 0 ≠ k := fun e => hcond (Or.inl e)
    have hnm : k ∉ acc.flatten := fun e => hcond (Or.inr ((any_contains_iff acc k).2 e))
    obtain ⟨c, hc, hc0, hiter⟩ := orbit_cycle hp hk
    have hclt : ∀ y ∈ c, y < n := by
      intro y hy; obtain ⟨i, rfl⟩ := hiter y hy; exact iter_lt hp hk i
    have hpos : 0 < c.length := List.length_pos_iff.2 hc.ne
    have hcyc : cycleOf p k (p.length + 1) = c := by
      have := cycleOf_spec p c hc 0 hpos p.length (by rw [hp.length_eq]; exact cycleOn_length_le hc hclt)
      rw [hc0, rot_zero] at this
      exact this
    rw [hcyc]
    have hkc : k ∈ c := by rw [← hc0, getD_eq_getElem hpos]; exact List.getElem_mem _
    have h2 : 2 ≤ c.length := by
      apply Classical.byContradiction
      intro hlt2
      have h1 : c.length = 1 := by omega
      have := hc.step 0 hpos
      rw [h1, hc0] at this
      exact hnf (by simpa using this)
    have hdisj : ∀ y ∈ c, y ∉ acc.flatten := by
      intro y hy hy'
      obtain ⟨c', hc', hyc'⟩ := List.mem_flatten.1 hy'
      obtain ⟨i, rfl⟩ := hiter y hy
      have hlt' : ∀ z ∈ c', z < n := fun z hz => h.lt z (List.mem_flatten.2 ⟨c', hc', hz⟩)
      exact hnm (List.mem_flatten.2 ⟨c', hc', iter_mem_cycle_back hp (h.cyc c' hc') hlt' hk i hyc'⟩)
    refine ⟨?_, ?_, ?_, ?_, ?_⟩
    · intro c' hc'
      rcases List.mem_append.1 hc' with g | g
      · exact h.cyc c' g
      · rw [List.mem_singleton.1 g]; exact hc
    · intro y hy
      rw [List.flatten_append, List.mem_append] at hy
      rcases hy with g | g
      · exact h.lt y g
      · exact hclt y (by simpa using g)
    · intro y hy
      rw [List.flatten_append, List.mem_append] at hy
      rcases hy with g | g
      · exact h.moved y g
      · exact cycleOn_moved hc h2 y (by simpa using g)
    · rw [List.flatten_append, List.nodup_append]
      refine ⟨h.nodup, by simpa using hc.nodup, ?_⟩
      intro a ha b hb e
      subst e
      exact hdisj a (by simpa using hb) ha
    · intro i hi hne
      rw [List.flatten_append, List.mem_append]
      by_cases hik : i = k
      · right; subst hik; simpa using hkc
      · left; exact h.cover i (by omega) hne

theorem toCycles_inv {n : Nat} {p : List Nat} (hp : IsPermOf n p) :
    ∀ k, k ≤ n → TcInv n p k ((List.range k).foldl (tcStep p) []) := by
  intro k
  induction k with
  | zero =>
    intro _
    exact ⟨by simp, by simp, by simp, by simp, by intro i hi; omega⟩
  | succ k ih =>
    intro hk
    rw [List.range_succ, List.foldl_append]
    exact tcStep_inv hp k (by omega) _ (ih (by omega))

/-- SPECIFICATION of `toCycles`: disjoint cycles of `p`, in range, covering exactly the moved points -/
theorem toCycles_spec {n : Nat} {p : List Nat} (hp : IsPermOf n p) :
    (∀ c ∈ toCycles p, CycleOn p c) ∧ (toCycles p).flatten.Nodup ∧
    (∀ y, y ∈ (toCycles p).flatten ↔ (y < n ∧ p.getD y 0 ≠ y)) := by
  have h := toCycles_inv hp n (Nat.le_refl n)
  rw [← hp.length_eq, ← toCycles_eq] at h
  refine ⟨h.cyc, h.nodup, fun y => ⟨fun hy => ⟨?_, h.moved y hy⟩, fun hy => ?_⟩⟩
  · have := h.lt y hy; rwa [hp.length_eq] at this
  · exact h.cover y (by rw [hp.length_eq]; exact hy.1) hy.2

/-- cycle notation is a right inverse of `permutation_from_cycles` -/
theorem fromCycles_toCycles (n : Nat) (p : List Nat) (hp : IsPermOf n p) :
    fromCycles n ((toCycles p).map (·.map Int.ofNat)) 0 = some p := by
  obtain ⟨h1, h2, h3⟩ := toCycles_spec hp
  have := fromCycles_of_decomp n p hp (toCycles p) h2 h1 (fun k hk => ((h3 k).1 hk).1)
    (fun k hk hnot => Classical.byContradiction fun hne => hnot ((h3 k).2 ⟨hk, hne⟩)) 0
  have e : ((toCycles p).map fun c => c.map fun x => Int.ofNat (x + 0)) =
      (toCycles p).map (·.map Int.ofNat) := by simp
  rw [e] at this
  exact this

/-! ## `_central_state_from_ip` -/

/-- `i` and `j` (0-based) are declared identical: equal, or in a common class of `ip` (1-based) -/
def SameCls (ip : List (List Int)) (i j : Nat) : Prop :=
  i = j ∨ ∃ cls ∈ ip, ((i : Int) + 1) ∈ cls ∧ ((j : Int) + 1) ∈ cls

instance (ip : List (List Int)) (i j : Nat) : Decidable (SameCls ip i j) := by
  unfold SameCls; infer_instance

/-- the classes are pairwise disjoint lists without repetitions of 1-based points in `1..n` -/
structure IpOk (n : Nat) (ip : List (List Int)) : Prop where
  range : ∀ x ∈ ip.flatten, 1 ≤ x ∧ x ≤ (n : Int)
  nodup : ip.flatten.Nodup

theorem eq_of_mem_flatten_nodup {α : Type} {cs : List (List α)} (h : cs.flatten.Nodup) {c c' : List α}
    (hc : c ∈ cs) (hc' : c' ∈ cs) {x : α} (hx : x ∈ c) (hx' : x ∈ c') : c = c' := by
  induction cs with
  | nil => simp at hc
  | cons c0 t ih =>
    rw [List.flatten_cons, List.nodup_append] at h
    obtain ⟨_, h2, h3⟩ := h
    rcases List.mem_cons.1 hc with e1 | g1 <;> rcases List.mem_cons.1 hc' with e2 | g2
    · rw [e1, e2]
    · subst e1; exact absurd rfl (h3 x hx x (List.mem_flatten.2 ⟨c', g2, hx'⟩))
    · subst e2; exact absurd rfl (h3 x hx' x (List.mem_flatten.2 ⟨c, g1, hx⟩))
    · exact ih h2 g1 g2

theorem SameCls.symm {ip : List (List Int)} {i j : Nat} (h : SameCls ip i j) : SameCls ip j i := by
  rcases h with rfl | ⟨cls, h1, h2, h3⟩
  · exact Or.inl rfl
  · exact Or.inr ⟨cls, h1, h3, h2⟩

theorem SameCls.trans {ip : List (List Int)} (hnd : ip.flatten.Nodup) {i j k : Nat}
    (h1 : SameCls ip i j) (h2 : SameCls ip j k) : SameCls ip i k := by
  rcases h1 with rfl | ⟨c1, a1, a2, a3⟩
  · exact h2
  · rcases h2 with rfl | ⟨c2, b1, b2, b3⟩
    · exact Or.inr ⟨c1, a1, a2, a3⟩
    · have := eq_of_mem_flatten_nodup hnd a1 b1 a3 b2
      subst this
      exact Or.inr ⟨c1, a1, a2, b3⟩

theorem lastClass_aux (ip : List (List Int)) (i : Nat) (acc : Option (List Int)) :
    (∀ cls, ip.foldl (fun acc cls => if cls.contains ((i : Int) + 1) then some cls else acc) acc = some cls →
      (acc = some cls ∨ (cls ∈ ip ∧ ((i : Int) + 1) ∈ cls))) ∧
    (ip.foldl (fun acc cls => if cls.contains ((i : Int) + 1) then some cls else acc) acc = none →
      acc = none ∧ ∀ cls ∈ ip, ((i : Int) + 1) ∉ cls) := by
  induction ip generalizing acc with
  | nil => simp
  | cons c t ih =>
    simp only [List.foldl_cons]
    obtain ⟨ih1, ih2⟩ := ih (if c.contains ((i : Int) + 1) then some c else acc)
    constructor
    · intro cls h
      rcases ih1 cls h with g | ⟨g1, g2⟩
      · split at g
        · rename_i hc
          cases g
          exact Or.inr ⟨by simp, by simpa using hc⟩
        · exact Or.inl g
      · exact Or.inr ⟨List.mem_cons_of_mem _ g1, g2⟩
    · intro h
      obtain ⟨g1, g2⟩ := ih2 h
      split at g1
      · cases g1
      · rename_i hc
        refine ⟨g1, ?_⟩
        intro cls hcls
        rcases List.mem_cons.1 hcls with rfl | g
        · simpa using hc
        · exact g2 cls g

theorem lastClass_some {ip : List (List Int)} {i : Nat} {cls : List Int} (h : lastClass ip i = some cls) :
    cls ∈ ip ∧ ((i : Int) + 1) ∈ cls := by
  rcases (lastClass_aux ip i none).1 cls h with g | g
  · cases g
  · exact g

theorem lastClass_none {ip : List (List Int)} {i : Nat} (h : lastClass ip i = none) :
    ∀ cls ∈ ip, ((i : Int) + 1) ∉ cls := ((lastClass_aux ip i none).2 h).2

/-- painting all (in range, 1-based) points of a class -/
theorem foldlM_pySet (cls : List Int) (v : Int) (a : List Int)
    (hr : ∀ j ∈ cls, 1 ≤ j ∧ j ≤ (a.length : Int)) :
    ∃ a', cls.foldlM (fun a j => pySet a (j - 1) v) a = some a' ∧ a'.length = a.length ∧
      ∀ m, m < a.length → a'.getD m (-1) = if ((m : Int) + 1) ∈ cls then v else a.getD m (-1) := by
  induction cls generalizing a with
  | nil => exact ⟨a, rfl, rfl, by simp⟩
  | cons j t ih =>
    have hj := hr j (by simp)
    have hset : pySet a (j - 1) v = some (a.set (j - 1).toNat v) := by
      unfold pySet; rw [if_pos (by omega)]
    obtain ⟨a', h1, h2, h3⟩ := ih (a.set (j - 1).toNat v) (by
      intro x hx; have := hr x (List.mem_cons_of_mem _ hx); simpa using this)
    refine ⟨a', ?_, by simpa using h2, ?_⟩
    · rw [List.foldlM_cons, hset]; exact h1
    · intro m hm
      rw [h3 m (by simpa using hm)]
      by_cases hmt : ((m : Int) + 1) ∈ t
      · simp [hmt]
      · rw [if_neg hmt]
        by_cases hmj : (m : Int) + 1 = j
        · have : (j - 1).toNat = m := by omega
          rw [this, List.getD_eq_getElem?_getD, List.getElem?_set_self hm]
          simp [hmj]
        · have : (j - 1).toNat ≠ m := by omega
          rw [List.getD_eq_getElem?_getD, List.getElem?_set_ne this, ← List.getD_eq_getElem?_getD]
          have : ¬ ((m : Int) + 1) ∈ j :: t := by
            intro h; rcases List.mem_cons.1 h with g | g
            · exact hmj g
            · exact hmt g
          rw [if_neg this]

/-- loop invariant of `_central_state_from_ip` after the points `< k` -/
structure CsInv (n : Nat) (ip : List (List Int)) (k : Nat) (st : List Int × Int) : Prop where
  len : st.1.length = n
  col : 0 ≤ st.2 ∧ st.2 ≤ (k : Int)
  bound : ∀ j, j < n → st.1.getD j (-1) = -1 ∨ (0 ≤ st.1.getD j (-1) ∧ st.1.getD j (-1) < st.2)
  done : ∀ j, j < k → j < n → st.1.getD j (-1) ≠ -1
  only : ∀ j, j < n → st.1.getD j (-1) ≠ -1 → ∃ i, i < k ∧ SameCls ip i j
  closed : ∀ i j, i < k → j < n → SameCls ip i j → st.1.getD j (-1) ≠ -1
  same : ∀ j1 j2, j1 < n → j2 < n → st.1.getD j1 (-1) ≠ -1 → st.1.getD j2 (-1) ≠ -1 →
    (st.1.getD j1 (-1) = st.1.getD j2 (-1) ↔ SameCls ip j1 j2)

theorem centralStep_inv {n : Nat} {ip : List (List Int)} (hok : IpOk n ip) (k : Nat) (hk : k < n)
    (st : List Int × Int) (h : CsInv n ip k st) :
    ∃ st', centralStep ip st k = some st' ∧ CsInv n ip (k + 1) st' := by
  obtain ⟨ans, color⟩ := st
  unfold centralStep
  simp only
  by_cases hck : ans.getD k (-1) ≠ -1
  · rw [if_pos hck]
    refine ⟨(ans, color), rfl, h.len, ⟨h.col.1, by have := h.col.2; omega⟩, h.bound, ?_, ?_, ?_, h.same⟩
    · intro j hj hjn
      by_cases hjk : j = k
      · subst hjk; exact hck
      · exact h.done j (by omega) hjn
    · intro j hj hne
      obtain ⟨i, hi, hs⟩ := h.only j hj hne
      exact ⟨i, by omega, hs⟩
    · intro i j hi hj hs
      by_cases hik : i = k
      · subst hik
        obtain ⟨i', hi', hs'⟩ := h.only i hk hck
        exact h.closed i' j hi' hj (hs'.trans hok.nodup hs)
      · exact h.closed i j (by omega) hj hs
  · rw [if_neg hck]
    have hk1 : ans.getD k (-1) = -1 := Classical.byContradiction fun e => hck e
    -- `k` is not identical to an earlier point
    have hnew : ∀ i, i < k → ¬ SameCls ip i k := fun i hi hs => h.closed i k hi hk hs hk1
    -- the class of `k` is not coloured yet
    have hfresh : ∀ j, j < n → SameCls ip k j → ans.getD j (-1) = -1 := by
      intro j hj hs
      apply Classical.byContradiction
      intro hne
      obtain ⟨i, hi, hs'⟩ := h.only j hj hne
      exact hnew i hi (hs'.trans hok.nodup hs.symm)
    -- common final argument: the new table colours exactly the class of `k` with `color`
    have key : ∀ ans' : List Int, ans'.length = n →
        (∀ m, m < n → ans'.getD m (-1) = if SameCls ip k m then color else ans.getD m (-1)) →
        CsInv n ip (k + 1) (ans', color + 1) := by
      intro ans' hlen hget
      have hsk : SameCls ip k k := Or.inl rfl
      refine ⟨hlen, ⟨by have := h.col.1; show (0:Int) ≤ color + 1; omega,
        by have := h.col.2; show color + 1 ≤ ((k + 1 : Nat) : Int); omega⟩, ?_, ?_, ?_, ?_, ?_⟩
      · intro j hj
        show ans'.getD j (-1) = -1 ∨ (0 ≤ ans'.getD j (-1) ∧ ans'.getD j (-1) < color + 1)
        rw [hget j hj]
        split
        · right; have := h.col.1; omega
        · rcases h.bound j hj with g | g
          · exact Or.inl g
          · right; have : ans.getD j (-1) < color := g.2; exact ⟨g.1, by omega⟩
      · intro j hj hjn
        show ans'.getD j (-1) ≠ -1
        rw [hget j hjn]
        split
        · have := h.col.1; omega
        · rename_i hns
          by_cases hjk : j = k
          · subst hjk; exact absurd hsk hns
          · exact h.done j (by omega) hjn
      · intro j hj hne
        have hne' : ans'.getD j (-1) ≠ -1 := hne
        rw [hget j hj] at hne'
        split at hne'
        · rename_i hs; exact ⟨k, by omega, hs⟩
        · obtain ⟨i, hi, hs⟩ := h.only j hj hne'
          exact ⟨i, by omega, hs⟩
      · intro i j hi hj hs
        show ans'.getD j (-1) ≠ -1
        rw [hget j hj]
        split
        · have := h.col.1; omega
        · rename_i hns
          by_cases hik : i = k
          · subst hik; exact absurd hs hns
          · exact h.closed i j (by omega) hj hs
      · intro j1 j2 h1 h2 hn1 hn2
        have hn1' : ans'.getD j1 (-1) ≠ -1 := hn1
        have hn2' : ans'.getD j2 (-1) ≠ -1 := hn2
        show ans'.getD j1 (-1) = ans'.getD j2 (-1) ↔ SameCls ip j1 j2
        rw [hget j1 h1] at hn1' ⊢
        rw [hget j2 h2] at hn2' ⊢
        by_cases s1 : SameCls ip k j1 <;> by_cases s2 : SameCls ip k j2
        · rw [if_pos s1, if_pos s2]
          exact ⟨fun _ => s1.symm.trans hok.nodup s2, fun _ => rfl⟩
        · rw [if_pos s1, if_neg s2]
          rw [if_neg s2] at hn2'
          constructor
          · intro e
            rcases h.bound j2 h2 with g | g
            · exact absurd g hn2'
            · have g' : ans.getD j2 (-1) < color := g.2
              omega
          · intro hs; exact absurd (s1.trans hok.nodup hs) s2
        · rw [if_neg s1, if_pos s2]
          rw [if_neg s1] at hn1'
          constructor
          · intro e
            rcases h.bound j1 h1 with g | g
            · exact absurd g hn1'
            · have g' : ans.getD j1 (-1) < color := g.2
              omega
          · intro hs; exact absurd (s2.trans hok.nodup hs.symm) s1
        · rw [if_neg s1, if_neg s2]
          rw [if_neg s1] at hn1'
          rw [if_neg s2] at hn2'
          exact h.same j1 j2 h1 h2 hn1' hn2'
    cases hlc : lastClass ip k with
    | none =>
      simp only
      refine ⟨_, rfl, key (ans.set k color) (by simpa using h.len) ?_⟩
      intro m hm
      have hno := lastClass_none hlc
      have hiff : SameCls ip k m ↔ k = m := by
        constructor
        · rintro (e | ⟨cls, c1, c2, _⟩)
          · exact e
          · exact absurd c2 (hno cls c1)
        · intro e; exact Or.inl e
      by_cases hkm : k = m
      · subst hkm
        rw [if_pos (show SameCls ip k k from Or.inl rfl), List.getD_eq_getElem?_getD,
          List.getElem?_set_self (by rw [h.len]; exact hk)]
        rfl
      · rw [if_neg (fun hs => hkm (hiff.1 hs)), List.getD_eq_getElem?_getD, List.getElem?_set_ne hkm,
          ← List.getD_eq_getElem?_getD]
    | some cls =>
      simp only
      obtain ⟨hc1, hc2⟩ := lastClass_some hlc
      have hr : ∀ j ∈ cls, 1 ≤ j ∧ j ≤ (ans.length : Int) := by
        intro j hj
        have := hok.range j (List.mem_flatten.2 ⟨cls, hc1, hj⟩)
        have hl : ans.length = n := h.len
        rw [hl]; exact this
      obtain ⟨a', f1, f2, f3⟩ := foldlM_pySet cls color ans hr
      rw [f1]
      refine ⟨_, rfl, key a' (by rw [f2]; exact h.len) ?_⟩
      intro m hm
      have hl : ans.length = n := h.len
      rw [f3 m (by omega)]
      have hiff : SameCls ip k m ↔ ((m : Int) + 1) ∈ cls := by
        constructor
        · rintro (e | ⟨cls', c1, c2, c3⟩)
          · subst e; exact hc2
          · have := eq_of_mem_flatten_nodup hok.nodup hc1 c1 hc2 c2
            subst this; exact c3
        · intro hm'; exact Or.inr ⟨cls, hc1, hc2, hm'⟩
      by_cases hs : SameCls ip k m
      · rw [if_pos hs, if_pos (hiff.1 hs)]
      · rw [if_neg hs, if_neg (fun e => hs (hiff.2 e))]

theorem central_loop {n : Nat} {ip : List (List Int)} (hok : IpOk n ip) :
    ∀ k, k ≤ n → ∃ st, (List.range k).foldlM (centralStep ip) (List.replicate n (-1), 0) = some st ∧
      CsInv n ip k st := by
  intro k
  induction k with
  | zero =>
    intro _
    refine ⟨_, rfl, by simp, ⟨by simp, by simp⟩, ?_, ?_, ?_, ?_, ?_⟩
    · intro j hj; left
      simp [List.getD_eq_getElem?_getD, hj]
    · intro j hj; omega
    · intro j hj hne
      exfalso; apply hne
      simp [List.getD_eq_getElem?_getD, hj]
    · intro i j hi; omega
    · intro j1 j2 h1 _ hne
      exfalso; apply hne
      simp [List.getD_eq_getElem?_getD, h1]
  | succ k ih =>
    intro hk
    obtain ⟨st, h1, h2⟩ := ih (by omega)
    obtain ⟨st', g1, g2⟩ := centralStep_inv hok k (by omega) st h2
    refine ⟨st', ?_, g2⟩
    rw [List.range_succ, List.foldlM_append, h1]
    simp [g1]

/-- SPECIFICATION of `_central_state_from_ip`: for pairwise disjoint classes of points in `1..n` the
result has length `n`, uses colours `< n`, and gives two points the same colour iff they are equal or lie
in a common class. -/
theorem centralFromIp_spec (n : Nat) (ip : List (List Int)) (hok : IpOk n ip) :
    ∃ cs, centralFromIp n ip = some cs ∧ cs.length = n ∧ (∀ i, i < n → cs.getD i 0 < n) ∧
      ∀ i j, i < n → j < n → (cs.getD i 0 = cs.getD j 0 ↔ SameCls ip i j) := by
  obtain ⟨st, h1, h2⟩ := central_loop hok n (Nat.le_refl n)
  refine ⟨st.1.map Int.toNat, by unfold centralFromIp; rw [h1]; rfl, by simpa using h2.len, ?_, ?_⟩
  all_goals
    have hget : ∀ i, i < n → (st.1.map Int.toNat).getD i 0 = (st.1.getD i (-1)).toNat := by
      intro i hi
      rw [List.getD_eq_getElem?_getD, List.getD_eq_getElem?_getD, List.getElem?_map,
        List.getElem?_eq_getElem (by rw [h2.len]; exact hi)]
      rfl
    have hnn : ∀ i, i < n → 0 ≤ st.1.getD i (-1) ∧ st.1.getD i (-1) < st.2 := by
      intro i hi
      rcases h2.bound i hi with g | g
      · exact absurd g (h2.done i hi hi)
      · exact g
  · intro i hi
    rw [hget i hi]
    have := hnn i hi; have := h2.col.2
    omega
  · intro i j hi hj
    rw [hget i hi, hget j hj, ← h2.same i j hi hj (h2.done i hi hi) (h2.done j hj hj)]
    have := hnn i hi; have := hnn j hj
    omega

/-! ## Python string primitives on printed text -/

theorem splitCharAux_acc (c : Char) (s cur : List Char) (acc : List (List Char)) :
    splitCharAux c s cur acc = acc.reverse ++ splitCharAux c s cur [] := by
  induction s generalizing cur acc with
  | nil => simp [splitCharAux]
  | cons x t ih =>
    simp only [splitCharAux]
    split
    · rw [ih [] (cur.reverse :: acc), ih [] [cur.reverse]]; simp
    · exact ih _ _

theorem splitCharAux_prefix (c : Char) (l rest cur : List Char) (acc : List (List Char)) (h : c ∉ l) :
    splitCharAux c (l ++ rest) cur acc = splitCharAux c rest (l.reverse ++ cur) acc := by
  induction l generalizing cur with
  | nil => rfl
  | cons x t ih =>
    have hx : x ≠ c := fun e => h (by simp [e])
    simp only [List.cons_append, splitCharAux, if_neg hx]
    rw [ih _ (fun e => h (List.mem_cons_of_mem _ e))]
    simp

theorem splitChar_line (c : Char) (l rest : List Char) (h : c ∉ l) :
    splitChar c (l ++ c :: rest) = l :: splitChar c rest := by
  unfold splitChar
  rw [splitCharAux_prefix c l _ [] [] h]
  simp only [splitCharAux, if_true]
  rw [splitCharAux_acc]; simp

theorem splitChar_single (c : Char) (l : List Char) (h : c ∉ l) : splitChar c l = [l] := by
  unfold splitChar
  have := splitCharAux_prefix c l [] [] [] h
  simp only [List.append_nil] at this
  rw [this]; simp [splitCharAux]

theorem splitChar_lines (c : Char) (ls : List (List Char)) (h : ∀ l ∈ ls, c ∉ l) :
    splitChar c (ls.flatMap (· ++ [c])) = ls ++ [[]] := by
  induction ls with
  | nil => rfl
  | cons l t ih =>
    rw [List.flatMap_cons, List.append_assoc, List.singleton_append,
      splitChar_line c l _ (h l (by simp)), ih (fun l' hl' => h l' (List.mem_cons_of_mem _ hl'))]
    rfl

theorem splitPairAux_acc (a b : Char) (s cur : List Char) (acc : List (List Char)) :
    splitPairAux a b s cur acc = acc.reverse ++ splitPairAux a b s cur [] := by
  induction hn : s.length using Nat.strongRecOn generalizing s cur acc with
  | _ n ih =>
    match s, hn with
    | [], _ => simp [splitPairAux]
    | [x], _ => simp [splitPairAux]
    | x :: y :: t, hn =>
      simp only [splitPairAux]
      split
      · rw [ih t.length (by simp at hn; omega) t [] (cur.reverse :: acc) rfl,
          ih t.length (by simp at hn; omega) t [] [cur.reverse] rfl]
        simp
      · exact ih (y :: t).length (by simp at hn ⊢; omega) (y :: t) _ _ rfl

theorem splitPairAux_prefix (a b : Char) (l rest cur : List Char) (acc : List (List Char)) (h : a ∉ l) :
    splitPairAux a b (l ++ rest) cur acc = splitPairAux a b rest (l.reverse ++ cur) acc := by
  induction l generalizing cur with
  | nil => rfl
  | cons x t ih =>
    have hx : x ≠ a := fun e => h (by simp [e])
    have ht : a ∉ t := fun e => h (List.mem_cons_of_mem _ e)
    cases htr : t ++ rest with
    | nil =>
      have h1 : t = [] := (List.append_eq_nil_iff.1 htr).1
      have h2 : rest = [] := (List.append_eq_nil_iff.1 htr).2
      subst h1 h2
      simp [splitPairAux]
    | cons y t' =>
      rw [List.cons_append, htr, splitPairAux, if_neg (fun e => hx e.1), ← htr, ih _ ht]
      simp

theorem splitPair_assign (a b : Char) (l r : List Char) (hl : a ∉ l) (hr : a ∉ r) :
    splitPair a b (l ++ a :: b :: r) = [l, r] := by
  unfold splitPair
  rw [splitPairAux_prefix a b l _ [] [] hl]
  simp only [splitPairAux, and_self, if_true]
  have := splitPairAux_prefix a b r [] [] [l] hr
  simp only [List.append_nil] at this
  simp only [List.append_nil, List.reverse_reverse]
  rw [this]
  simp [splitPairAux]

theorem splitPair_none (a b : Char) (l : List Char) (hl : a ∉ l) : splitPair a b l = [l] := by
  unfold splitPair
  have := splitPairAux_prefix a b l [] [] [] hl
  simp only [List.append_nil] at this
  rw [this]; simp [splitPairAux]

theorem removePairAux_noinfix (a b : Char) (s acc : List Char) (h : ¬ [a, b] <:+: s) :
    removePairAux a b s acc = acc.reverse ++ s := by
  induction hn : s.length using Nat.strongRecOn generalizing s acc with
  | _ n ih =>
    match s, hn with
    | [], _ => simp [removePairAux]
    | [x], _ => simp [removePairAux]
    | x :: y :: t, hn =>
      have hne : ¬ (x = a ∧ y = b) := by
        rintro ⟨rfl, rfl⟩
        exact h ⟨[], t, by simp⟩
      have ht : ¬ [a, b] <:+: (y :: t) := by
        rintro ⟨u, v, e⟩
        exact h ⟨x :: u, v, by simp [← e]⟩
      rw [removePairAux, if_neg hne, ih (y :: t).length (by simp at hn ⊢; omega) (y :: t) _ ht rfl]
      simp

theorem removePair_prefix (a b : Char) (s : List Char) (h : ¬ [a, b] <:+: s) :
    removePair a b (a :: b :: s) = s := by
  unfold removePair
  rw [removePairAux, if_pos ⟨rfl, rfl⟩, removePairAux_noinfix a b s [] h]
  rfl

/-! ## decimal numerals -/

theorem natStr_digit (k : Nat) : ∀ x ∈ natStr k, x.isDigit = true :=
  fun _ hx => Nat.isDigit_of_mem_toDigits (by decide) (by decide) hx

theorem natStr_ne_nil (k : Nat) : natStr k ≠ [] := Nat.toDigits_ne_nil

theorem natStr_value (k : Nat) : Nat.ofDigitChars 10 (natStr k) 0 = k := Nat.ofDigitChars_ten_toDigits

theorem joinChar_cons (sep : Char) (a : List Char) (t : List (List Char)) :
    joinChar sep (a :: t) = a ++ t.flatMap (sep :: ·) := by
  induction t generalizing a with
  | nil => simp [joinChar]
  | cons b t ih => rw [joinChar, ih]; simp

theorem splitChar_joinChar (sep : Char) (a : List Char) (t : List (List Char))
    (h : ∀ l ∈ a :: t, sep ∉ l) : splitChar sep (joinChar sep (a :: t)) = a :: t := by
  induction t generalizing a with
  | nil => simp only [joinChar]; exact splitChar_single sep a (h a (by simp))
  | cons b t ih =>
    rw [joinChar, splitChar_line sep a _ (h a (by simp)), ih b (fun l hl => h l (List.mem_cons_of_mem _ hl))]

theorem isDigit_ne {x c : Char} (hx : x.isDigit = true) (hc : c.isDigit = false) : x ≠ c := by
  intro e; subst e; rw [hx] at hc; cases hc

theorem mapM_natStr (xs : List Nat) :
    (xs.map natStr).mapM (fun piece => if piece.isEmpty then none else some (Nat.ofDigitChars 10 piece 0)) =
      some xs := by
  induction xs with
  | nil => rfl
  | cons x t ih =>
    rw [List.map_cons, List.mapM_cons, ih]
    have : (natStr x).isEmpty = false := by
      cases h : natStr x with
      | nil => exact absurd h (natStr_ne_nil x)
      | cons _ _ => rfl
    simp [this, natStr_value]

/-- `list(map(int, "a,b,c".split(",")))` on a printed non-empty list of numbers -/
theorem parseGroup_print (x : Nat) (xs : List Nat) :
    parseGroup (joinChar ',' ((x :: xs).map natStr)) = some (x :: xs) := by
  unfold parseGroup
  rw [List.map_cons, splitChar_joinChar ',' _ _ (by
    intro l hl
    rw [← List.map_cons] at hl
    obtain ⟨k, _, rfl⟩ := List.mem_map.1 hl
    intro hc
    exact isDigit_ne (natStr_digit k _ hc) (by decide) rfl), ← List.map_cons]
  exact mapM_natStr (x :: xs)

/-! ## the cycle regular expression on printed cycles -/

theorem findGroupsAux_run (run l rest : List Char) (acc : List (List Char))
    (h : ∀ x ∈ l, isCycChar x = true) :
    findGroupsAux (some run) (l ++ rest) acc = findGroupsAux (some (l.reverse ++ run)) rest acc := by
  induction l generalizing run with
  | nil => rfl
  | cons x t ih =>
    rw [List.cons_append, findGroupsAux, if_pos (h x (by simp)), ih _ (fun y hy => h y (List.mem_cons_of_mem _ hy))]
    simp

theorem findGroupsAux_cycle (body rest : List Char) (acc : List (List Char))
    (h : ∀ x ∈ body, isCycChar x = true) (hne : body ≠ []) :
    findGroupsAux none ('(' :: body ++ ')' :: rest) acc = findGroupsAux none rest (body :: acc) := by
  rw [List.cons_append, findGroupsAux, if_pos rfl, findGroupsAux_run [] body _ acc h, findGroupsAux,
    if_neg (by decide), if_pos ⟨rfl, by simpa using hne⟩]
  simp

theorem findGroups_cycles (bodies : List (List Char)) (acc : List (List Char))
    (h : ∀ b ∈ bodies, (∀ x ∈ b, isCycChar x = true) ∧ b ≠ []) :
    findGroupsAux none (bodies.flatMap fun b => '(' :: b ++ [')']) acc = acc.reverse ++ bodies := by
  induction bodies generalizing acc with
  | nil => simp [findGroupsAux]
  | cons b t ih =>
    rw [List.flatMap_cons, List.append_assoc, List.singleton_append,
      findGroupsAux_cycle b _ acc (h b (by simp)).1 (h b (by simp)).2,
      ih _ (fun b' hb' => h b' (List.mem_cons_of_mem _ hb'))]
    simp

theorem joinChar_natStr_cyc (xs : List Nat) : ∀ x ∈ joinChar ',' (xs.map natStr), isCycChar x = true := by
  cases xs with
  | nil => simp [joinChar]
  | cons a t =>
    rw [List.map_cons, joinChar_cons]
    intro x hx
    rw [List.mem_append, List.mem_flatMap] at hx
    rcases hx with g | ⟨l, hl, g⟩
    · simp [isCycChar, natStr_digit a x g]
    · obtain ⟨k, _, rfl⟩ := List.mem_map.1 hl
      rcases List.mem_cons.1 g with rfl | g'
      · rfl
      · simp [isCycChar, natStr_digit k x g']

/-- `_cycle_str_to_list` on printed cycles -/
theorem cycleStrToList_print (cs : List (List Nat)) (hne : ∀ c ∈ cs, c ≠ []) :
    cycleStrToList (cs.flatMap printCycle) = some (cs.map (·.map (· + 1))) := by
  unfold cycleStrToList findGroups
  have e : cs.flatMap printCycle =
      (cs.map fun c => joinChar ',' ((c.map (· + 1)).map natStr)).flatMap fun b => '(' :: b ++ [')'] := by
    rw [List.flatMap_map]
    congr 1
    funext c
    simp [printCycle, List.map_map, Function.comp_def]
  rw [e, findGroups_cycles _ [] (by
    intro b hb
    obtain ⟨c, hc, rfl⟩ := List.mem_map.1 hb
    refine ⟨joinChar_natStr_cyc _, ?_⟩
    cases hcc : c with
    | nil => exact absurd hcc (hne c hc)
    | cons a t =>
      rw [List.map_cons, List.map_cons, joinChar_cons]
      intro e
      exact natStr_ne_nil _ (List.append_eq_nil_iff.1 e).1)]
  simp only [List.reverse_nil, List.nil_append]
  clear e
  induction cs with
  | nil => rfl
  | cons c t ih =>
    rw [List.map_cons, List.mapM_cons, ih (fun c' hc' => hne c' (List.mem_cons_of_mem _ hc'))]
    cases hcc : c with
    | nil => exact absurd hcc (hne c (by simp))
    | cons a u =>
      rw [List.map_cons, parseGroup_print]
      rfl

/-! ## the JSON lexer / parser on a printed `ip` value -/

theorem natStr_head (k : Nat) (hk : 1 ≤ k) : (natStr k).head? ≠ some '0' := by
  induction k using Nat.strongRecOn with
  | _ k ih =>
    unfold natStr
    rw [Nat.toDigits_eq_if (by decide)]
    split
    · have : k = 1 ∨ k = 2 ∨ k = 3 ∨ k = 4 ∨ k = 5 ∨ k = 6 ∨ k = 7 ∨ k = 8 ∨ k = 9 := by omega
      rcases this with rfl | rfl | rfl | rfl | rfl | rfl | rfl | rfl | rfl <;> decide
    · have h1 : 1 ≤ k / 10 := by omega
      have := ih (k / 10) (by omega) h1
      unfold natStr at this
      cases h : Nat.toDigits 10 (k / 10) with
      | nil => exact absurd h Nat.toDigits_ne_nil
      | cons d ds => rw [h] at this; simpa using this

theorem finishNum_natStr (k : Nat) : finishNum false (natStr k) = some (Int.ofNat k) := by
  unfold finishNum
  have h1 : (natStr k).isEmpty = false := by
    cases h : natStr k with
    | nil => exact absurd h (natStr_ne_nil k)
    | cons _ _ => rfl
  rw [h1]
  have h2 : ¬ ((natStr k).head? = some '0' ∧ (natStr k).length ≠ 1) := by
    rintro ⟨g1, g2⟩
    by_cases hk : k = 0
    · subst hk; exact g2 (by simp [natStr])
    · exact natStr_head k (by omega) g1
  simp [h2, natStr_value]

theorem lexJsonAux_digits (neg : Bool) (ds l rest : List Char) (acc : List Tok)
    (h : ∀ x ∈ l, x.isDigit = true) :
    lexJsonAux (.num neg ds) (l ++ rest) acc = lexJsonAux (.num neg (l.reverse ++ ds)) rest acc := by
  induction l generalizing ds with
  | nil => rfl
  | cons x t ih =>
    rw [List.cons_append, lexJsonAux, if_pos (h x (by simp)), ih _ (fun y hy => h y (List.mem_cons_of_mem _ hy))]
    simp

theorem isDigit_not_ws {x : Char} (h : x.isDigit = true) : isJsonWs x = false := by
  cases hw : isJsonWs x with
  | false => rfl
  | true =>
    simp only [isJsonWs, Bool.or_eq_true, beq_iff_eq] at hw
    rcases hw with ((rfl | rfl) | rfl) | rfl <;> exact absurd h (by decide)

/-- the lexer reads a printed number up to the next character -/
theorem lexJsonAux_num (k : Nat) (rest : List Char) (acc : List Tok) :
    lexJsonAux .idle (natStr k ++ rest) acc =
      lexJsonAux (.num false (natStr k).reverse) rest acc := by
  cases h : natStr k with
  | nil => exact absurd h (natStr_ne_nil k)
  | cons d ds =>
    have hd : d.isDigit = true := natStr_digit k d (by rw [h]; simp)
    have hds : ∀ x ∈ ds, x.isDigit = true := fun x hx => natStr_digit k x (by rw [h]; simp [hx])
    rw [List.cons_append, lexJsonAux, if_neg (by simp [isDigit_not_ws hd]),
      if_neg (isDigit_ne hd (by decide)), if_neg (isDigit_ne hd (by decide)),
      if_neg (isDigit_ne hd (by decide)), if_neg (isDigit_ne hd (by decide)), if_pos hd,
      lexJsonAux_digits false [d] ds _ acc hds]
    simp

/-- a printed number followed by `,` -/
theorem lexJsonAux_num_comma (k : Nat) (rest : List Char) (acc : List Tok) :
    lexJsonAux .idle (natStr k ++ ',' :: rest) acc =
      lexJsonAux .idle rest (Tok.comma :: Tok.int (Int.ofNat k) :: acc) := by
  rw [lexJsonAux_num, lexJsonAux, if_neg (by decide), List.reverse_reverse, finishNum_natStr]
  simp [isJsonWs]

/-- a printed number followed by `]` -/
theorem lexJsonAux_num_rb (k : Nat) (rest : List Char) (acc : List Tok) :
    lexJsonAux .idle (natStr k ++ ']' :: rest) acc =
      lexJsonAux .idle rest (Tok.rb :: Tok.int (Int.ofNat k) :: acc) := by
  rw [lexJsonAux_num, lexJsonAux, if_neg (by decide), List.reverse_reverse, finishNum_natStr]
  simp [isJsonWs]

/-- tokens of one class -/
def classToks : List Nat → List Tok
  | [] => [Tok.lb, Tok.rb]
  | a :: t => Tok.lb :: Tok.int (Int.ofNat a) :: (t.flatMap fun x => [Tok.comma, Tok.int (Int.ofNat x)]) ++ [Tok.rb]

/-- printed form of one class -/
def printClass (cls : List Nat) : List Char := '[' :: joinChar ',' (cls.map natStr) ++ [']']

theorem lex_class_tail (a : Nat) (t : List Nat) (rest : List Char) (acc : List Tok) :
    lexJsonAux .idle (natStr a ++ (t.map natStr).flatMap (',' :: ·) ++ ']' :: rest) acc =
      lexJsonAux .idle rest (Tok.rb :: ((t.flatMap fun x => [Tok.comma, Tok.int (Int.ofNat x)]).reverse ++
        Tok.int (Int.ofNat a) :: acc)) := by
  induction t generalizing a acc with
  | nil => simp [lexJsonAux_num_rb]
  | cons b t ih =>
    rw [List.map_cons, List.flatMap_cons, List.append_assoc, List.append_assoc, List.cons_append,
      lexJsonAux_num_comma, ← List.append_assoc, ih]
    simp

theorem lex_class (cls : List Nat) (rest : List Char) (acc : List Tok) :
    lexJsonAux .idle (printClass cls ++ rest) acc = lexJsonAux .idle rest ((classToks cls).reverse ++ acc) := by
  cases cls with
  | nil =>
    simp [printClass, joinChar, classToks, lexJsonAux, isJsonWs]
  | cons a t =>
    rw [printClass, List.map_cons, joinChar_cons]
    simp only [List.cons_append, List.append_assoc, List.nil_append]
    rw [lexJsonAux, if_neg (by decide), if_pos rfl, ← List.append_assoc, lex_class_tail]
    simp [classToks]

/-- tokens of the whole `ip` value -/
def ipToks : List (List Nat) → List Tok
  | [] => [Tok.lb, Tok.rb]
  | a :: t => Tok.lb :: classToks a ++ (t.flatMap fun c => Tok.comma :: classToks c) ++ [Tok.rb]

/-- printed `ip` value (without the trailing `;`) -/
def printIpValue (identical : List (List Nat)) : List Char :=
  '[' :: joinChar ',' (identical.map printClass) ++ [']']

theorem lex_classes_tail (t : List (List Nat)) (acc : List Tok) :
    lexJsonAux .idle ((t.map printClass).flatMap (',' :: ·) ++ [']']) acc =
      some (acc.reverse ++ (t.flatMap fun c => Tok.comma :: classToks c) ++ [Tok.rb]) := by
  induction t generalizing acc with
  | nil =>
    simp only [List.map_nil, List.flatMap_nil, List.nil_append, List.append_nil]
    rw [lexJsonAux, if_neg (by decide), if_neg (by decide), if_pos rfl, lexJsonAux]
    simp
  | cons c t ih =>
    rw [List.map_cons, List.flatMap_cons, List.append_assoc, List.cons_append, lexJsonAux,
      if_neg (by decide), if_neg (by decide), if_neg (by decide), if_pos rfl, lex_class, ih]
    simp

theorem lexJson_ip (identical : List (List Nat)) :
    lexJson (printIpValue identical) = some (ipToks identical) := by
  unfold lexJson printIpValue
  cases identical with
  | nil =>
    simp [joinChar, ipToks, lexJsonAux, isJsonWs]
  | cons a t =>
    rw [List.map_cons, joinChar_cons]
    simp only [List.cons_append, List.append_assoc]
    rw [lexJsonAux, if_neg (by decide), if_pos rfl, lex_class, lex_classes_tail]
    simp [ipToks]

/-! parser -/

theorem parse_class_tail (outer : List (List Int)) (cur : List Int) (t : List Nat) (rest : List Tok) :
    parseToksAux .afterInt outer cur ((t.flatMap fun x => [Tok.comma, Tok.int (Int.ofNat x)]) ++ Tok.rb :: rest) =
      parseToksAux .afterInner ((cur.reverse ++ t.map Int.ofNat) :: outer) [] rest := by
  induction t generalizing cur with
  | nil => simp [parseToksAux]
  | cons b t ih =>
    rw [List.flatMap_cons, List.append_assoc]
    simp only [List.cons_append, List.nil_append, parseToksAux]
    rw [ih]
    simp

theorem parse_class (outer : List (List Int)) (cls : List Nat) (rest : List Tok) :
    parseToksAux .innerOpen outer [] ((classToks cls).tail ++ rest) =
      parseToksAux .afterInner (cls.map Int.ofNat :: outer) [] rest := by
  cases cls with
  | nil => simp [classToks, parseToksAux]
  | cons a t =>
    simp only [classToks, List.tail_cons, List.cons_append, parseToksAux, List.append_assoc]
    rw [parse_class_tail]
    simp

theorem classToks_eq (cls : List Nat) : classToks cls = Tok.lb :: (classToks cls).tail := by
  cases cls <;> rfl

theorem parse_classes_tail (outer : List (List Int)) (t : List (List Nat)) :
    parseToksAux .afterInner outer [] ((t.flatMap fun c => Tok.comma :: classToks c) ++ [Tok.rb]) =
      some (outer.reverse ++ t.map (·.map Int.ofNat)) := by
  induction t generalizing outer with
  | nil => simp [parseToksAux]
  | cons c t ih =>
    rw [List.flatMap_cons, List.append_assoc, List.cons_append, classToks_eq]
    simp only [List.cons_append, parseToksAux]
    rw [parse_class, ih]
    simp

/-- `json.loads` on a printed `ip` value -/
theorem parseJsonIp_print (identical : List (List Nat)) :
    parseJsonIp (printIpValue identical) = some (some (identical.map (·.map Int.ofNat))) := by
  unfold parseJsonIp
  rw [lexJson_ip]
  cases identical with
  | nil => simp [ipToks, parseToksAux]
  | cons a t =>
    simp only [ipToks, List.cons_append]
    rw [classToks_eq a]
    simp only [List.cons_append, parseToksAux, List.append_assoc]
    rw [parse_class, parse_classes_tail]
    simp

/-! ## one line of the printed text -/

/-- well-formed generator name: letters, digits, underscores, and no `M_` inside (the reader deletes every
`M_` from the key) -/
def NameOk (name : List Char) : Prop :=
  (∀ c ∈ name, c.isAlphanum = true ∨ c = '_') ∧ ¬ ['M', '_'] <:+: name

theorem NameOk.ne {name : List Char} (h : NameOk name) {c : Char} (hc : c.isAlphanum = false) (hu : c ≠ '_') :
    c ∉ name := by
  intro hm
  rcases h.1 c hm with g | g
  · rw [g] at hc; cases hc
  · exact hu g

/-- characters of printed cycles -/
theorem mem_cycles_chars (cs : List (List Nat)) :
    ∀ x ∈ cs.flatMap printCycle, x = '(' ∨ x = ')' ∨ isCycChar x = true := by
  intro x hx
  obtain ⟨c, _, hxc⟩ := List.mem_flatMap.1 hx
  unfold printCycle at hxc
  rw [List.mem_append, List.mem_cons] at hxc
  rcases hxc with (g | g) | g
  · exact Or.inl g
  · right; right
    have := joinChar_natStr_cyc (c.map (· + 1)) x
    rw [List.map_map] at this
    exact this g
  · exact Or.inr (Or.inl (by simpa using g))

theorem cycles_chars_ne (cs : List (List Nat)) {c : Char} (h1 : c ≠ '(') (h2 : c ≠ ')')
    (h3 : isCycChar c = false) : c ∉ cs.flatMap printCycle := by
  intro hm
  rcases mem_cycles_chars cs c hm with g | g | g
  · exact h1 g
  · exact h2 g
  · rw [g] at h3; cases h3

theorem filter_semicolon (l : List Char) (h : ';' ∉ l) : (l ++ [';']).filter (· != ';') = l := by
  rw [List.filter_append]
  have : l.filter (· != ';') = l := by
    rw [List.filter_eq_self]
    intro a ha
    have : a ≠ ';' := fun e => h (e ▸ ha)
    simpa using this
  rw [this]; simp

theorem stepLine_gen (acc : Acc) (name : List Char) (p : List Nat) (n : Nat) (hp : IsPermOf n p)
    (hn : NameOk name) :
    stepLine acc (printGenLine name p) =
      some { acc with defs := acc.defs ++ [(name, (toCycles p).map (·.map (· + 1)))] } := by
  have hkey : ':' ∉ 'M' :: '_' :: name := by
    intro h
    rcases List.mem_cons.1 h with g | g
    · cases g
    · rcases List.mem_cons.1 g with g' | g'
      · cases g'
      · exact hn.ne (by decide) (by decide) g'
  have hval : ':' ∉ (toCycles p).flatMap printCycle ++ [';'] := by
    intro h
    rcases List.mem_append.1 h with g | g
    · exact cycles_chars_ne _ (by decide) (by decide) (by decide) g
    · simp at g
  have hline : printGenLine name p =
      ('M' :: '_' :: name) ++ ':' :: '=' :: ((toCycles p).flatMap printCycle ++ [';']) := by
    simp [printGenLine]
  have hne : ∀ c ∈ toCycles p, c ≠ [] := fun c hc => ((toCycles_spec hp).1 c hc).ne
  unfold stepLine
  rw [hline, splitPair_assign ':' '=' _ _ hkey hval]
  simp only
  rw [filter_semicolon _ (cycles_chars_ne _ (by decide) (by decide) (by decide)),
    cycleStrToList_print _ hne, removePair_prefix 'M' '_' name hn.2]
  simp

theorem ipValue_chars (identical : List (List Nat)) :
    ∀ x ∈ printIpValue identical, x = '[' ∨ x = ']' ∨ isCycChar x = true := by
  intro x hx
  unfold printIpValue at hx
  rw [List.mem_append, List.mem_cons] at hx
  rcases hx with (g | g) | g
  · exact Or.inl g
  · cases identical with
    | nil => simp [joinChar] at g
    | cons a t =>
      rw [List.map_cons, joinChar_cons, List.mem_append] at g
      have hcls : ∀ cls : List Nat, ∀ y ∈ printClass cls, y = '[' ∨ y = ']' ∨ isCycChar y = true := by
        intro cls y hy
        unfold printClass at hy
        rw [List.mem_append, List.mem_cons] at hy
        rcases hy with (g | g) | g
        · exact Or.inl g
        · exact Or.inr (Or.inr (joinChar_natStr_cyc cls y g))
        · exact Or.inr (Or.inl (by simpa using g))
      rcases g with g | g
      · exact hcls a x g
      · obtain ⟨l, hl, hxl⟩ := List.mem_flatMap.1 g
        obtain ⟨cls, _, rfl⟩ := List.mem_map.1 hl
        rcases List.mem_cons.1 hxl with rfl | g'
        · right; right; rfl
        · exact hcls cls x g'
  · exact Or.inr (Or.inl (by simpa using g))

theorem ipValue_ne (identical : List (List Nat)) {c : Char} (h1 : c ≠ '[') (h2 : c ≠ ']')
    (h3 : isCycChar c = false) : c ∉ printIpValue identical := by
  intro hm
  rcases ipValue_chars identical c hm with g | g | g
  · exact h1 g
  · exact h2 g
  · rw [g] at h3; cases h3

theorem printIpLine_eq (identical : List (List Nat)) :
    printIpLine identical = ['i', 'p'] ++ ':' :: '=' :: (printIpValue identical ++ [';']) := by
  have : (fun cls : List Nat => '[' :: (joinChar ',' (cls.map natStr) ++ [']'])) = printClass := by
    funext cls; rfl
  simp [printIpLine, printIpValue, this]

theorem stepLine_ip (acc : Acc) (identical : List (List Nat)) :
    stepLine acc (printIpLine identical) =
      some { acc with ip := some (identical.map (·.map Int.ofNat)) } := by
  have hval : ':' ∉ printIpValue identical ++ [';'] := by
    intro h
    rcases List.mem_append.1 h with g | g
    · exact ipValue_ne _ (by decide) (by decide) (by decide) g
    · simp at g
  unfold stepLine
  rw [printIpLine_eq, splitPair_assign ':' '=' _ _ (by decide) hval]
  simp only
  rw [filter_semicolon _ (ipValue_ne _ (by decide) (by decide) (by decide)), parseJsonIp_print]
  simp

theorem stepLine_skip (acc : Acc) (line : List Char) (h : ':' ∉ line) : stepLine acc line = some acc := by
  unfold stepLine
  rw [splitPair_none ':' '=' line h]

theorem stepLine_hdr (acc : Acc) : stepLine acc ['G', 'e', 'n', ':', '=', '['] = some acc := rfl

/-! ## the line loop on the printed text -/

/-- the cycles the reader sees for a generator `p`: cycle notation, 1-based -/
def cycNat (p : List Nat) : List (List Nat) := (toCycles p).map (·.map (· + 1))

theorem foldlM_genLines (n : Nat) (gens : List (List Char × List Nat))
    (hperm : ∀ g ∈ gens, IsPermOf n g.2) (hnames : ∀ g ∈ gens, NameOk g.1) (acc : Acc) :
    (gens.map fun g => printGenLine g.1 g.2).foldlM stepLine acc =
      some { acc with defs := acc.defs ++ gens.map fun g => (g.1, cycNat g.2) } := by
  induction gens generalizing acc with
  | nil => simp
  | cons g t ih =>
    rw [List.map_cons, List.foldlM_cons, stepLine_gen acc g.1 g.2 n (hperm g (by simp)) (hnames g (by simp))]
    simp only [Option.bind_eq_bind, Option.bind_some]
    rw [ih (fun g' hg' => hperm g' (List.mem_cons_of_mem _ hg')) (fun g' hg' => hnames g' (List.mem_cons_of_mem _ hg'))]
    simp [cycNat]

theorem namelist_no_colon (gens : List (List Char × List Nat)) (hnames : ∀ g ∈ gens, NameOk g.1)
    {c : Char} (hc : c.isAlphanum = false) (hu : c ≠ '_') (hcomma : c ≠ ',') :
    c ∉ joinChar ',' (gens.map fun g => ['M', '_'] ++ g.1) := by
  cases gens with
  | nil => simp [joinChar]
  | cons a t =>
    rw [List.map_cons, joinChar_cons]
    have hone : ∀ g ∈ a :: t, c ∉ ['M', '_'] ++ g.1 := by
      intro g hg hm
      simp only [List.cons_append, List.nil_append, List.mem_cons] at hm
      rcases hm with rfl | rfl | hm
      · cases hc
      · exact hu rfl
      · exact (hnames g hg).ne hc hu hm
    intro hm
    rcases List.mem_append.1 hm with g | g
    · exact hone a (by simp) g
    · obtain ⟨l, hl, hcl⟩ := List.mem_flatMap.1 g
      obtain ⟨g', hg', rfl⟩ := List.mem_map.1 hl
      rcases List.mem_cons.1 hcl with e | e
      · exact hcomma e
      · exact hone g' (List.mem_cons_of_mem _ hg') e

theorem genLine_no_newline (name : List Char) (p : List Nat) (hn : NameOk name) :
    '\n' ∉ printGenLine name p := by
  intro h
  unfold printGenLine at h
  rcases List.mem_append.1 h with h | h
  · rcases List.mem_append.1 h with h | h
    · rcases List.mem_append.1 h with h | h
      · rcases List.mem_append.1 h with h | h
        · revert h; decide
        · exact hn.ne (c := '\n') (by decide) (by decide) h
      · revert h; decide
    · exact cycles_chars_ne _ (by decide) (by decide) (by decide) h
  · revert h; decide

theorem ipLine_no_newline (identical : List (List Nat)) : '\n' ∉ printIpLine identical := by
  rw [printIpLine_eq]
  intro h
  simp only [List.cons_append, List.nil_append, List.mem_cons, List.mem_append, List.not_mem_nil,
    or_false] at h
  rcases h with h | h | h | h | h | h
  · cases h
  · cases h
  · cases h
  · cases h
  · exact ipValue_ne _ (by decide) (by decide) (by decide) h
  · cases h

/-- the line loop of the reader on a printed text -/
theorem lines_printChars (n : Nat) (gens : List (List Char × List Nat))
    (hperm : ∀ g ∈ gens, IsPermOf n g.2) (hnames : ∀ g ∈ gens, NameOk g.1) (identical : List (List Nat)) :
    (splitChar '\n' (printChars gens identical)).foldlM stepLine {} =
      some { defs := gens.map fun g => (g.1, cycNat g.2), ip := some (identical.map (·.map Int.ofNat)) } := by
  unfold printChars
  rw [splitChar_lines '\n' _ (by
    intro l hl
    unfold printLines at hl
    rw [List.mem_append] at hl
    rcases hl with g | g
    · obtain ⟨g', hg', rfl⟩ := List.mem_map.1 g
      exact genLine_no_newline _ _ (hnames g' hg')
    · simp only [List.mem_cons, List.not_mem_nil, or_false] at g
      rcases g with rfl | rfl | rfl | rfl
      · decide
      · exact namelist_no_colon gens hnames (by decide) (by decide) (by decide)
      · decide
      · exact ipLine_no_newline identical)]
  unfold printLines
  rw [List.append_assoc, List.foldlM_append, foldlM_genLines n gens hperm hnames]
  show (Option.some _).bind (fun acc => List.foldlM stepLine acc
    (['G', 'e', 'n', ':', '=', '['] :: joinChar ',' (gens.map fun g => ['M', '_'] ++ g.1) :: [']', ';'] ::
      printIpLine identical :: [[]])) = _
  simp only [Option.bind_eq_bind, Option.bind_some, List.foldlM_cons, stepLine_hdr]
  rw [stepLine_skip _ _ (namelist_no_colon gens hnames (by decide) (by decide) (by decide))]
  simp only [Option.bind_some]
  rw [stepLine_skip _ [']', ';'] (by decide)]
  simp only [Option.bind_some]
  rw [stepLine_ip]
  simp only [Option.bind_some]
  rw [stepLine_skip _ [] (by simp)]
  simp

/-! ## after the line loop -/

theorem lookupLast_not_mem (defs : List (List Char × List (List Nat))) (name : List Char)
    (cur : List (List Nat)) (h : name ∉ defs.map (·.1)) :
    defs.foldl (fun cur d => if d.1 = name then d.2 else cur) cur = cur := by
  induction defs generalizing cur with
  | nil => rfl
  | cons e t ih =>
    rw [List.foldl_cons, if_neg (fun e' => h (by simp [e'])), ih _ (fun h' => h (by simp [h']))]

theorem lookupLast_nodup (defs : List (List Char × List (List Nat))) (hnd : (defs.map (·.1)).Nodup)
    (d : List Char × List (List Nat)) (hd : d ∈ defs) : lookupLast defs d.1 = d.2 := by
  unfold lookupLast
  generalize ([] : List (List Nat)) = cur
  induction defs generalizing cur with
  | nil => simp at hd
  | cons e t ih =>
    rw [List.map_cons, List.nodup_cons] at hnd
    rw [List.foldl_cons]
    rcases List.mem_cons.1 hd with rfl | hd'
    · rw [if_pos rfl, lookupLast_not_mem t d.1 _ hnd.1]
    · exact ih hnd.2 hd' _

theorem foldl_max_init (l : List Nat) (a : Nat) : l.foldl max a = max a (l.foldl max 0) := by
  induction l generalizing a with
  | nil => simp
  | cons x t ih => rw [List.foldl_cons, List.foldl_cons, ih, ih (max 0 x)]; omega

theorem foldl_max_ge (l : List Nat) : ∀ x ∈ l, x ≤ l.foldl max 0 := by
  induction l with
  | nil => simp
  | cons y t ih =>
    intro x hx
    rw [List.foldl_cons, foldl_max_init]
    rcases List.mem_cons.1 hx with rfl | h
    · omega
    · have := ih x h; omega

theorem foldl_max_mem (l : List Nat) : l.foldl max 0 = 0 ∨ l.foldl max 0 ∈ l := by
  induction l with
  | nil => simp
  | cons y t ih =>
    rw [List.foldl_cons, foldl_max_init]
    rcases ih with h | h
    · rw [h]
      by_cases hy : y = 0
      · left; omega
      · right; simp
    · by_cases hc : max (max 0 y) (t.foldl max 0) = t.foldl max 0
      · right; rw [hc]; exact List.mem_cons_of_mem _ h
      · right
        have : max (max 0 y) (t.foldl max 0) = y := by omega
        rw [this]; simp

theorem foldl_max_congr (l1 l2 : List Nat) (h : ∀ x, x ∈ l1 ↔ x ∈ l2) :
    l1.foldl max 0 = l2.foldl max 0 := by
  apply Nat.le_antisymm
  · rcases foldl_max_mem l1 with g | g
    · omega
    · exact foldl_max_ge l2 _ ((h _).1 g)
  · rcases foldl_max_mem l2 with g | g
    · omega
    · exact foldl_max_ge l1 _ ((h _).2 g)

theorem foldl_max_flatMap {α : Type} (ps : List α) (f : α → List Nat) (a : Nat) :
    (ps.map fun p => (f p).foldl max 0).foldl max a = (ps.flatMap f).foldl max a := by
  induction ps generalizing a with
  | nil => rfl
  | cons p t ih =>
    rw [List.map_cons, List.foldl_cons, List.flatMap_cons, List.foldl_append, ih, foldl_max_init (f p) a]

/-- the 1-based moved points of all generators -/
def movedSucc (ps : List (List Nat)) : List Nat := ps.flatMap fun p => (supportOf p).map (· + 1)

theorem maxMoved_eq (ps : List (List Nat)) : maxMoved ps = (movedSucc ps).foldl max 0 := by
  unfold maxMoved movedSucc
  rw [← foldl_max_flatMap]
  congr 1
  apply List.map_congr_left
  intro p _
  rw [List.foldl_map]

theorem mem_supportOf (p : List Nat) (x : Nat) : x ∈ supportOf p ↔ x < p.length ∧ p.getD x 0 ≠ x := by
  simp [supportOf]

theorem mem_movedSucc (ps : List (List Nat)) (y : Nat) :
    y ∈ movedSucc ps ↔ ∃ p ∈ ps, ∃ x, x < p.length ∧ p.getD x 0 ≠ x ∧ y = x + 1 := by
  unfold movedSucc
  rw [List.mem_flatMap]
  constructor
  · rintro ⟨p, hp, hy⟩
    obtain ⟨x, hx, rfl⟩ := List.mem_map.1 hy
    exact ⟨p, hp, x, ((mem_supportOf p x).1 hx).1, ((mem_supportOf p x).1 hx).2, rfl⟩
  · rintro ⟨p, hp, x, h1, h2, rfl⟩
    exact ⟨p, hp, List.mem_map.2 ⟨x, (mem_supportOf p x).2 ⟨h1, h2⟩, rfl⟩⟩

/-- every point `≥ maxMoved` is fixed by every generator -/
theorem fixed_of_maxMoved_le (ps : List (List Nat)) (p : List Nat) (hp : p ∈ ps) (i : Nat)
    (hi : i < p.length) (hm : maxMoved ps ≤ i) : p.getD i 0 = i := by
  apply Classical.byContradiction
  intro hne
  have := foldl_max_ge (movedSucc ps) (i + 1) ((mem_movedSucc ps _).2 ⟨p, hp, i, hi, hne, rfl⟩)
  rw [← maxMoved_eq] at this
  omega

theorem maxMoved_le (n : Nat) (ps : List (List Nat)) (h : ∀ p ∈ ps, p.length = n) : maxMoved ps ≤ n := by
  rw [maxMoved_eq]
  rcases foldl_max_mem (movedSucc ps) with g | g
  · omega
  · obtain ⟨p, hp, x, h1, _, e⟩ := (mem_movedSucc ps _).1 g
    rw [e, ← h p hp]; omega

/-! restriction of a permutation to an initial segment containing all moved points -/

theorem getD_take (p : List Nat) (m i : Nat) (hi : i < m) : (p.take m).getD i 0 = p.getD i 0 := by
  rw [List.getD_eq_getElem?_getD, List.getD_eq_getElem?_getD, List.getElem?_take_of_lt hi]

theorem take_isPermOf {n m : Nat} {p : List Nat} (hp : IsPermOf n p) (hm : m ≤ n)
    (hfix : ∀ i, m ≤ i → i < n → p.getD i 0 = i) : IsPermOf m (p.take m) := by
  apply isPermOf_of_getD (by rw [List.length_take, hp.length_eq]; omega)
  · intro j hj
    rw [getD_take p m j hj]
    apply Classical.byContradiction
    intro hge
    have hlt : p.getD j 0 < n := hp.getD_lt (by omega)
    have := hfix (p.getD j 0) (by omega) hlt
    have := (List.getD_inj (fallback := 0) (by rw [hp.length_eq]; exact hlt)
      (by rw [hp.length_eq]; omega) hp.nodup).1 this
    omega
  · intro i j hi hj e
    rw [getD_take p m i hi, getD_take p m j hj] at e
    exact (List.getD_inj (fallback := 0) (by rw [hp.length_eq]; omega) (by rw [hp.length_eq]; omega)
      hp.nodup).1 e

/-- the reader's reconstruction of one generator -/
theorem fromCycles_cycNat {n m : Nat} {p : List Nat} (hp : IsPermOf n p) (hm : m ≤ n)
    (hfix : ∀ i, m ≤ i → i < n → p.getD i 0 = i) :
    fromCycles m ((cycNat p).map (·.map Int.ofNat)) 1 = some (p.take m) := by
  obtain ⟨h1, h2, h3⟩ := toCycles_spec hp
  have hlt : ∀ k ∈ (toCycles p).flatten, k < m := by
    intro k hk
    obtain ⟨g1, g2⟩ := (h3 k).1 hk
    apply Classical.byContradiction
    intro hge
    exact g2 (hfix k (by omega) g1)
  have := fromCycles_of_decomp m (p.take m) (take_isPermOf hp hm hfix) (toCycles p) h2 (by
    intro c hc
    have hc' := h1 c hc
    refine ⟨hc'.ne, hc'.nodup, ?_⟩
    intro i hi
    have hmem : c.getD i 0 ∈ (toCycles p).flatten := by
      rw [getD_eq_getElem hi]; exact List.mem_flatten.2 ⟨c, hc, List.getElem_mem _⟩
    rw [getD_take p m _ (hlt _ hmem)]
    exact hc'.step i hi) hlt (by
    intro k hk hnot
    rw [getD_take p m k hk]
    apply Classical.byContradiction
    intro hne
    exact hnot ((h3 k).2 ⟨by omega, hne⟩)) 1
  have e : ((toCycles p).map fun c => c.map fun x => Int.ofNat (x + 1)) =
      (cycNat p).map (·.map Int.ofNat) := by
    simp [cycNat, List.map_map, Function.comp_def]
  rw [e] at this
  exact this

theorem mapM_fromCycles_cycNat {n m : Nat} (gens : List (List Char × List Nat))
    (hperm : ∀ g ∈ gens, IsPermOf n g.2) (hm : m ≤ n)
    (hfix : ∀ g ∈ gens, ∀ i, m ≤ i → i < n → g.2.getD i 0 = i) :
    (gens.map fun g => cycNat g.2).mapM (fun cs => fromCycles m (cs.map (·.map Int.ofNat)) 1) =
      some (gens.map fun g => g.2.take m) := by
  induction gens with
  | nil => rfl
  | cons g t ih =>
    rw [List.map_cons, List.mapM_cons, fromCycles_cycNat (hperm g (by simp)) hm (hfix g (by simp)),
      ih (fun g' hg' => hperm g' (List.mem_cons_of_mem _ hg')) (fun g' hg' => hfix g' (List.mem_cons_of_mem _ hg'))]
    rfl

theorem zip_map_map {α β γ : Type} (l : List α) (f : α → β) (g : α → γ) :
    (l.map f).zip (l.map g) = l.map fun x => (f x, g x) := by
  induction l with
  | nil => rfl
  | cons a t ih => simp [ih]

theorem mem_all_iff {n : Nat} (gens : List (List Char × List Nat)) (hperm : ∀ g ∈ gens, IsPermOf n g.2)
    (y : Nat) :
    y ∈ ((gens.map fun g => cycNat g.2).flatten.flatten) ↔ y ∈ movedSucc (gens.map (·.2)) := by
  rw [mem_movedSucc]
  simp only [List.mem_flatten, List.mem_map]
  constructor
  · rintro ⟨c, ⟨cs, ⟨g, hg, rfl⟩, hc⟩, hy⟩
    unfold cycNat at hc
    obtain ⟨c0, hc0, rfl⟩ := List.mem_map.1 hc
    obtain ⟨x, hx, rfl⟩ := List.mem_map.1 hy
    have hp := hperm g hg
    obtain ⟨g1, g2⟩ := ((toCycles_spec hp).2.2 x).1 (List.mem_flatten.2 ⟨c0, hc0, hx⟩)
    exact ⟨g.2, ⟨g, hg, rfl⟩, x, by rw [hp.length_eq]; exact g1, g2, rfl⟩
  · rintro ⟨p, ⟨g, hg, rfl⟩, x, h1, h2, rfl⟩
    have hp := hperm g hg
    obtain ⟨c0, hc0, hx⟩ := List.mem_flatten.1
      (((toCycles_spec hp).2.2 x).2 ⟨by rw [← hp.length_eq]; exact h1, h2⟩)
    exact ⟨c0.map (· + 1), ⟨cycNat g.2, ⟨g, hg, rfl⟩, List.mem_map.2 ⟨c0, hc0, rfl⟩⟩,
      List.mem_map.2 ⟨x, hx, rfl⟩⟩

/-- the part of the reader after the line loop, on the definitions produced from a printed text -/
theorem finish_print (n : Nat) (gens : List (List Char × List Nat))
    (hperm : ∀ g ∈ gens, IsPermOf n g.2) (hdist : (gens.map (·.1)).Nodup)
    (ipv : List (List Int)) (hm : 0 < maxMoved (gens.map (·.2))) (cs : List Nat)
    (hcs : centralFromIp (maxMoved (gens.map (·.2))) ipv = some cs) :
    finish { defs := gens.map fun g => (g.1, cycNat g.2), ip := some ipv } =
      some (gens.map fun g => (g.1, g.2.take (maxMoved (gens.map (·.2)))), cs) := by
  have hnames : (gens.map fun g => (g.1, cycNat g.2)).map (·.1) = gens.map (·.1) := by
    rw [List.map_map]; rfl
  have hcyc : (gens.map (·.1)).map (lookupLast (gens.map fun g => (g.1, cycNat g.2))) =
      gens.map fun g => cycNat g.2 := by
    rw [List.map_map]
    apply List.map_congr_left
    intro g hg
    exact lookupLast_nodup _ (by rw [hnames]; exact hdist) (g.1, cycNat g.2) (List.mem_map.2 ⟨g, hg, rfl⟩)
  have hmax : ((gens.map fun g => cycNat g.2).flatten.flatten).foldl max 0 = maxMoved (gens.map (·.2)) := by
    rw [maxMoved_eq]
    exact foldl_max_congr _ _ (mem_all_iff gens hperm)
  have hne : ((gens.map fun g => cycNat g.2).flatten.flatten).isEmpty = false := by
    cases h : (gens.map fun g => cycNat g.2).flatten.flatten with
    | nil => rw [h] at hmax; simp at hmax; omega
    | cons _ _ => rfl
  have hlen : ∀ p ∈ gens.map (·.2), p.length = n := by
    intro p hp
    obtain ⟨g, hg, rfl⟩ := List.mem_map.1 hp
    exact (hperm g hg).length_eq
  have hfix : ∀ g ∈ gens, ∀ i, maxMoved (gens.map (·.2)) ≤ i → i < n → g.2.getD i 0 = i := by
    intro g hg i h1 h2
    exact fixed_of_maxMoved_le _ g.2 (List.mem_map.2 ⟨g, hg, rfl⟩) i (by rw [(hperm g hg).length_eq]; exact h2) h1
  unfold finish
  simp only [hnames, hcyc, hne, hmax, Bool.false_eq_true, if_false]
  rw [mapM_fromCycles_cycNat gens hperm (maxMoved_le n _ hlen) hfix]
  simp only [hcs, Option.map_some, zip_map_map]

/-- ROUND TRIP on character lists -/
theorem parseChars_printChars (n : Nat) (gens : List (List Char × List Nat))
    (hperm : ∀ g ∈ gens, IsPermOf n g.2) (hnames : ∀ g ∈ gens, NameOk g.1)
    (hdist : (gens.map (·.1)).Nodup) (identical : List (List Nat))
    (hm : 0 < maxMoved (gens.map (·.2))) (cs : List Nat)
    (hcs : centralFromIp (maxMoved (gens.map (·.2))) (identical.map (·.map Int.ofNat)) = some cs) :
    parseChars (printChars gens identical) =
      some (gens.map fun g => (g.1, g.2.take (maxMoved (gens.map (·.2)))), cs) := by
  unfold parseChars scanChars
  rw [lines_printChars n gens hperm hnames identical]
  exact finish_print n gens hperm hdist _ hm cs hcs

theorem lookupLast_all_nil (defs : List (List Char × List (List Nat))) (h : ∀ d ∈ defs, d.2 = [])
    (name : List Char) : lookupLast defs name = [] := by
  unfold lookupLast
  have : ∀ cur : List (List Nat), cur = [] →
      defs.foldl (fun cur d => if d.1 = name then d.2 else cur) cur = [] := by
    induction defs with
    | nil => intro cur hcur; exact hcur
    | cons e t ih =>
      intro cur hcur
      rw [List.foldl_cons]
      apply ih (fun d hd => h d (List.mem_cons_of_mem _ hd))
      split
      · exact h e (by simp)
      · exact hcur
  exact this [] rfl

/-- if no generator moves a point the reader fails (`max()` of an empty sequence) -/
theorem parseChars_printChars_identity (n : Nat) (gens : List (List Char × List Nat))
    (hperm : ∀ g ∈ gens, IsPermOf n g.2) (hnames : ∀ g ∈ gens, NameOk g.1) (identical : List (List Nat))
    (hm : maxMoved (gens.map (·.2)) = 0) :
    parseChars (printChars gens identical) = none := by
  unfold parseChars scanChars
  rw [lines_printChars n gens hperm hnames identical]
  have hcn : ∀ g ∈ gens, cycNat g.2 = [] := by
    intro g hg
    have hp := hperm g hg
    obtain ⟨h1, _, h3⟩ := toCycles_spec hp
    cases hc : toCycles g.2 with
    | nil => simp [cycNat, hc]
    | cons c t =>
      exfalso
      have hcm : c ∈ toCycles g.2 := by rw [hc]; simp
      have hpos : 0 < c.length := List.length_pos_iff.2 (h1 c hcm).ne
      obtain ⟨g1, g2⟩ := (h3 c[0]).1 (List.mem_flatten.2 ⟨c, hcm, List.getElem_mem _⟩)
      have := fixed_of_maxMoved_le _ g.2 (List.mem_map.2 ⟨g, hg, rfl⟩) c[0]
        (by rw [hp.length_eq]; exact g1) (by rw [hm]; exact Nat.zero_le _)
      exact g2 this
  have hl : ∀ name, lookupLast (gens.map fun g => (g.1, cycNat g.2)) name = [] := by
    apply lookupLast_all_nil
    intro d hd
    obtain ⟨g, hg, rfl⟩ := List.mem_map.1 hd
    exact hcn g hg
  have hmap : ((gens.map fun g => (g.1, cycNat g.2)).map (·.1)).map
      (lookupLast (gens.map fun g => (g.1, cycNat g.2))) =
      ((gens.map fun g => (g.1, cycNat g.2)).map (·.1)).map fun _ => ([] : List (List Nat)) :=
    List.map_congr_left (fun name _ => hl name)
  have hemp : ((((gens.map fun g => (g.1, cycNat g.2)).map (·.1)).map
      fun _ => ([] : List (List Nat))).flatten.flatten).isEmpty = true := by
    simp only [List.isEmpty_iff, List.flatten_eq_nil_iff, List.mem_flatten, List.mem_map]
    rintro l ⟨x, ⟨_, _, rfl⟩, hl⟩
    simp at hl
  unfold finish
  simp only [hmap, hemp, if_true]

/-! ## the round trip on strings -/

/-- identical-piece classes as written in the file: pairwise disjoint lists of 1-based points in `1..m` -/
structure IpOkNat (m : Nat) (identical : List (List Nat)) : Prop where
  range : ∀ x ∈ identical.flatten, 1 ≤ x ∧ x ≤ m
  nodup : identical.flatten.Nodup

/-- `i` and `j` (0-based) are declared identical by the classes `identical` (1-based) -/
def SameClsNat (identical : List (List Nat)) (i j : Nat) : Prop :=
  i = j ∨ ∃ cls ∈ identical, (i + 1) ∈ cls ∧ (j + 1) ∈ cls

instance (identical : List (List Nat)) (i j : Nat) : Decidable (SameClsNat identical i j) := by
  unfold SameClsNat; infer_instance

theorem mem_map_ofNat (cls : List Nat) (i : Nat) : ((i : Int) + 1) ∈ cls.map Int.ofNat ↔ (i + 1) ∈ cls := by
  rw [List.mem_map]
  constructor
  · rintro ⟨x, hx, e⟩
    have : x = i + 1 := by simp only [Int.ofNat_eq_natCast] at e; omega
    exact this ▸ hx
  · intro h; exact ⟨i + 1, h, by simp⟩

theorem sameCls_nat (identical : List (List Nat)) (i j : Nat) :
    SameCls (identical.map (·.map Int.ofNat)) i j ↔ SameClsNat identical i j := by
  unfold SameCls SameClsNat
  constructor
  · rintro (h | ⟨cls, hc, h1, h2⟩)
    · exact Or.inl h
    · obtain ⟨c, hc', rfl⟩ := List.mem_map.1 hc
      exact Or.inr ⟨c, hc', (mem_map_ofNat c i).1 h1, (mem_map_ofNat c j).1 h2⟩
  · rintro (h | ⟨c, hc, h1, h2⟩)
    · exact Or.inl h
    · exact Or.inr ⟨c.map Int.ofNat, List.mem_map_of_mem hc, (mem_map_ofNat c i).2 h1, (mem_map_ofNat c j).2 h2⟩

theorem ipOk_of_nat {m : Nat} {identical : List (List Nat)} (h : IpOkNat m identical) :
    IpOk m (identical.map (·.map Int.ofNat)) := by
  have hflat : (identical.map (·.map Int.ofNat)).flatten = identical.flatten.map Int.ofNat := by
    rw [List.map_flatten]
  constructor
  · rw [hflat]
    intro x hx
    obtain ⟨y, hy, rfl⟩ := List.mem_map.1 hx
    have := h.range y hy
    simp only [Int.ofNat_eq_natCast]; omega
  · rw [hflat, List.nodup_iff_pairwise_ne, List.pairwise_map]
    exact (List.nodup_iff_pairwise_ne.1 h.nodup).imp (fun hne e => hne (by
      simp only [Int.ofNat_eq_natCast] at e; omega))

theorem toList_injective {s t : String} (h : s.toList = t.toList) : s = t := by
  rw [← String.ofList_toList (s := s), ← String.ofList_toList (s := t), h]

/-- ROUND TRIP: reading a printed text gives back the generators (restricted to the points up to the largest
moved one, which is all the reader can know) under their names, and a central state that colours two points
equally exactly when they are declared identical. -/
theorem parse_print (gens : List (String × List Nat)) (n : Nat)
    (hperm : ∀ g ∈ gens, IsPermOf n g.2)
    (hnames : ∀ g ∈ gens, NameOk g.1.toList) (hdist : (gens.map (·.1)).Nodup)
    (identical : List (List Nat)) (hid : IpOkNat (maxMoved (gens.map (·.2))) identical)
    (hm : 0 < maxMoved (gens.map (·.2))) :
    ∃ cs, parseGap (printGap gens identical) =
        some (gens.map fun g => (g.1, g.2.take (maxMoved (gens.map (·.2)))), cs) ∧
      cs.length = maxMoved (gens.map (·.2)) ∧
      (∀ i, i < maxMoved (gens.map (·.2)) → cs.getD i 0 < maxMoved (gens.map (·.2))) ∧
      ∀ i j, i < maxMoved (gens.map (·.2)) → j < maxMoved (gens.map (·.2)) →
        (cs.getD i 0 = cs.getD j 0 ↔ SameClsNat identical i j) := by
  have hsnd : (gens.map fun g => (g.1.toList, g.2)).map (·.2) = gens.map (·.2) := by
    rw [List.map_map]; rfl
  obtain ⟨cs, h1, h2, h3, h4⟩ := centralFromIp_spec _ _ (ipOk_of_nat hid)
  refine ⟨cs, ?_, h2, h3, fun i j hi hj => by rw [h4 i j hi hj, sameCls_nat]⟩
  unfold parseGap printGap
  rw [String.toList_ofList]
  rw [parseChars_printChars n (gens.map fun g => (g.1.toList, g.2))
    (by intro g hg; obtain ⟨g', hg', rfl⟩ := List.mem_map.1 hg; exact hperm g' hg')
    (by intro g hg; obtain ⟨g', hg', rfl⟩ := List.mem_map.1 hg; exact hnames g' hg')
    (by
      rw [List.map_map, List.nodup_iff_pairwise_ne, List.pairwise_map]
      rw [List.nodup_iff_pairwise_ne, List.pairwise_map] at hdist
      exact hdist.imp (fun hne e => hne (toList_injective e)))
    identical (by rw [hsnd]; exact hm) cs (by rw [hsnd]; exact h1)]
  simp only [Option.map_some, hsnd, List.map_map]
  congr 2
  apply List.map_congr_left
  intro g _
  simp [String.ofList_toList]

/-- if no generator moves any point, the reader fails on the printed text (`max()` of an empty sequence) -/
theorem parse_print_identity (gens : List (String × List Nat)) (n : Nat)
    (hperm : ∀ g ∈ gens, IsPermOf n g.2) (hnames : ∀ g ∈ gens, NameOk g.1.toList)
    (identical : List (List Nat)) (hm : maxMoved (gens.map (·.2)) = 0) :
    parseGap (printGap gens identical) = none := by
  have hsnd : (gens.map fun g => (g.1.toList, g.2)).map (·.2) = gens.map (·.2) := by
    rw [List.map_map]; rfl
  unfold parseGap printGap
  rw [String.toList_ofList, parseChars_printChars_identity n (gens.map fun g => (g.1.toList, g.2))
    (by intro g hg; obtain ⟨g', hg', rfl⟩ := List.mem_map.1 hg; exact hperm g' hg')
    (by intro g hg; obtain ⟨g', hg', rfl⟩ := List.mem_map.1 hg; exact hnames g' hg')
    identical (by rw [hsnd]; exact hm)]
  rfl

/-! ## meaning of the reader's answer on a well-formed file -/

/-- `p` is the permutation of `n` points written as the 1-based cycles `cycles` -/
def DefMeans (n : Nat) (cycles : List (List Nat)) (p : List Nat) : Prop :=
  IsPermOf n p ∧
  (∀ c ∈ cycles, ∀ i, i < c.length → p.getD (c.getD i 0 - 1) 0 = c.getD ((i + 1) % c.length) 0 - 1) ∧
  (∀ x, x < n → (x + 1) ∉ cycles.flatten → p.getD x 0 = x)

theorem getD_map_ofNat (c : List Nat) (i : Nat) (hi : i < c.length) :
    (c.map Int.ofNat).getD i 0 = Int.ofNat (c.getD i 0) := by
  rw [List.getD_eq_getElem?_getD, List.getD_eq_getElem?_getD, List.getElem?_map,
    List.getElem?_eq_getElem hi]
  rfl

theorem fromCycles_defMeans (n : Nat) (cycles : List (List Nat)) (hnd : cycles.flatten.Nodup)
    (hge : ∀ v ∈ cycles.flatten, 1 ≤ v) (hle : ∀ v ∈ cycles.flatten, v ≤ n) :
    ∃ p, fromCycles n (cycles.map (·.map Int.ofNat)) 1 = some p ∧ DefMeans n cycles p := by
  have hflat : (cycles.map (·.map Int.ofNat)).flatten = cycles.flatten.map Int.ofNat := by
    rw [List.map_flatten]
  have hnd' : (((cycles.map (·.map Int.ofNat)).flatten).map (· - (1 : Int))).Nodup := by
    rw [hflat, List.map_map, List.nodup_iff_pairwise_ne, List.pairwise_map]
    exact (List.nodup_iff_pairwise_ne.1 hnd).imp (fun h e => h (by
      simp only [Function.comp, Int.ofNat_eq_natCast] at e; omega))
  have hr : ∀ v ∈ (cycles.map (·.map Int.ofNat)).flatten, 0 ≤ v - (1 : Int) ∧ v - (1 : Int) < n := by
    rw [hflat]
    intro v hv
    obtain ⟨x, hx, rfl⟩ := List.mem_map.1 hv
    have := hge x hx; have := hle x hx
    simp only [Int.ofNat_eq_natCast]; omega
  obtain ⟨p, hp⟩ := Option.isSome_iff_exists.1 (fromCycles_isSome_of_nodup n _ 1 hnd' hr)
  obtain ⟨q1, q2, q3⟩ := fromCycles_spec n _ 1 p hp hnd'
  refine ⟨p, hp, q1, ?_, ?_⟩
  · intro c hc i hi
    have := q2 (c.map Int.ofNat) (List.mem_map_of_mem hc) i (by simpa using hi)
    have hpos : 0 < c.length := by omega
    rw [List.length_map, getD_map_ofNat c i hi, getD_map_ofNat c _ (Nat.mod_lt _ hpos)] at this
    have e1 : (Int.ofNat (c.getD i 0) - 1).toNat = c.getD i 0 - 1 := by
      simp only [Int.ofNat_eq_natCast]; omega
    have e2 : (Int.ofNat (c.getD ((i + 1) % c.length) 0) - 1).toNat = c.getD ((i + 1) % c.length) 0 - 1 := by
      simp only [Int.ofNat_eq_natCast]; omega
    rw [e1, e2] at this
    exact this
  · intro x hx hnot
    apply q3 x hx
    intro c' hc' hin
    obtain ⟨c, hc, rfl⟩ := List.mem_map.1 hc'
    obtain ⟨v, hv, e⟩ := List.mem_map.1 hin
    apply hnot
    have : v = x + 1 := by simp only [Int.ofNat_eq_natCast] at e; omega
    exact List.mem_flatten.2 ⟨c, hc, this ▸ hv⟩

theorem mapM_exists {α β : Type} (l : List α) (f : α → Option β) (P : α → β → Prop)
    (h : ∀ a ∈ l, ∃ b, f a = some b ∧ P a b) :
    ∃ bs, l.mapM f = some bs ∧ bs.length = l.length ∧
      ∀ k (hk : k < l.length) (hk' : k < bs.length), P l[k] bs[k] := by
  induction l with
  | nil => exact ⟨[], rfl, rfl, fun k hk => by simp at hk⟩
  | cons a t ih =>
    obtain ⟨b, hb, hP⟩ := h a (by simp)
    obtain ⟨bs, h1, h2, h3⟩ := ih (fun a' ha' => h a' (List.mem_cons_of_mem _ ha'))
    refine ⟨b :: bs, ?_, by simp [h2], ?_⟩
    · rw [List.mapM_cons, hb, h1]; rfl
    · intro k hk hk'
      cases k with
      | zero => exact hP
      | succ k => exact h3 k (by simpa using hk) (by simpa using hk')

/-- MEANING of the reader's answer on a well-formed file: the generators carry the names found by the line loop,
in order; each is the permutation of `n` points (`n` = largest point written in a cycle) whose cycles are exactly
the written ones (`DefMeans`); the central state has length `n` and is the identity when there is no `ip`, otherwise
colours two points equally iff they are equal or in a common class. -/
theorem parseChars_wellFormed (text : List Char) (acc : Acc) (hscan : scanChars text = some acc)
    (hwf : acc.wellFormed = true) :
    ∃ ps cs, parseChars text = some ((acc.defs.map (·.1)).zip ps, cs) ∧
      ps.length = acc.defs.length ∧
      (∀ k (hk : k < acc.defs.length) (hk' : k < ps.length),
        DefMeans (((acc.defs.map (·.2)).flatten.flatten).foldl max 0) (acc.defs[k]).2 ps[k]) ∧
      cs.length = ((acc.defs.map (·.2)).flatten.flatten).foldl max 0 ∧
      (acc.ip = none → cs = List.range (((acc.defs.map (·.2)).flatten.flatten).foldl max 0)) ∧
      (∀ ipv, acc.ip = some ipv → ∀ i j, i < cs.length → j < cs.length →
        (cs.getD i 0 = cs.getD j 0 ↔ SameCls ipv i j)) := by
  obtain ⟨defs, ip⟩ := acc
  simp only [Acc.wellFormed, Bool.and_eq_true, decide_eq_true_eq, Bool.not_eq_true', List.all_eq_true] at hwf
  obtain ⟨⟨⟨hnames, hne⟩, hdefs⟩, hip⟩ := hwf
  have hcyc : (defs.map (·.1)).map (lookupLast defs) = defs.map (·.2) := by
    rw [List.map_map]
    apply List.map_congr_left
    intro d hd
    exact lookupLast_nodup defs hnames d hd
  have hmax : ∀ d ∈ defs, ∀ v ∈ d.2.flatten, v ≤ ((defs.map (·.2)).flatten.flatten).foldl max 0 := by
    intro d hd v hv
    apply foldl_max_ge
    obtain ⟨c, hc, hvc⟩ := List.mem_flatten.1 hv
    exact List.mem_flatten.2 ⟨c, List.mem_flatten.2 ⟨d.2, List.mem_map_of_mem hd, hc⟩, hvc⟩
  obtain ⟨ps, hps, hlen, hmeans⟩ := mapM_exists (defs.map (·.2))
    (fun cs => fromCycles (((defs.map (·.2)).flatten.flatten).foldl max 0) (cs.map (·.map Int.ofNat)) 1)
    (fun cs p => DefMeans (((defs.map (·.2)).flatten.flatten).foldl max 0) cs p) (by
      intro cs hcs
      obtain ⟨d, hd, rfl⟩ := List.mem_map.1 hcs
      have := hdefs d hd
      exact fromCycles_defMeans _ d.2 this.1 (fun v hv => by simpa using this.2 v hv) (hmax d hd))
  simp only [List.length_map] at hlen
  unfold parseChars
  rw [hscan]
  unfold finish
  simp only [hcyc, hne, Bool.false_eq_true, if_false, hps]
  cases ip with
  | none =>
    refine ⟨ps, List.range _, rfl, hlen, ?_, by simp, (fun _ => rfl), (fun ipv h => by cases h)⟩
    intro k hk hk'
    have := hmeans k (by simpa using hk) hk'
    simpa using this
  | some ipv =>
    simp only [Bool.and_eq_true, decide_eq_true_eq, List.all_eq_true] at hip
    have hok : IpOk (((defs.map (·.2)).flatten.flatten).foldl max 0) ipv :=
      ⟨fun x hx => by simpa using hip.2 x hx, hip.1⟩
    obtain ⟨cs, c1, c2, _, c4⟩ := centralFromIp_spec _ ipv hok
    refine ⟨ps, cs, by simp [c1], hlen, ?_, c2, (fun h => by cases h), ?_⟩
    · intro k hk hk'
      have := hmeans k (by simpa using hk) hk'
      simpa using this
    · intro ipv' h i j hi hj
      cases h
      exact c4 i j (by omega) (by omega)

theorem map_zip_fst {α β γ : Type} (f : α → γ) (l : List α) (ps : List β) :
    (l.zip ps).map (fun g => (f g.1, g.2)) = (l.map f).zip ps := by
  induction l generalizing ps with
  | nil => rfl
  | cons a t ih =>
    cases ps with
    | nil => rfl
    | cons b u => simp [ih]

/-- the same for `parseGap` on strings -/
theorem parse_wellFormed (text : String) (acc : Acc) (hscan : scanChars text.toList = some acc)
    (hwf : acc.wellFormed = true) :
    ∃ ps cs, parseGap text = some ((acc.defs.map fun d => String.ofList d.1).zip ps, cs) ∧
      ps.length = acc.defs.length ∧
      (∀ k (hk : k < acc.defs.length) (hk' : k < ps.length),
        DefMeans (((acc.defs.map (·.2)).flatten.flatten).foldl max 0) (acc.defs[k]).2 ps[k]) ∧
      cs.length = ((acc.defs.map (·.2)).flatten.flatten).foldl max 0 ∧
      (acc.ip = none → cs = List.range (((acc.defs.map (·.2)).flatten.flatten).foldl max 0)) ∧
      (∀ ipv, acc.ip = some ipv → ∀ i j, i < cs.length → j < cs.length →
        (cs.getD i 0 = cs.getD j 0 ↔ SameCls ipv i j)) := by
  obtain ⟨ps, cs, h1, h2, h3, h4, h5, h6⟩ := parseChars_wellFormed text.toList acc hscan hwf
  refine ⟨ps, cs, ?_, h2, h3, h4, h5, h6⟩
  unfold parseGap
  rw [h1]
  simp only [Option.map_some]
  congr 2
  rw [map_zip_fst String.ofList, List.map_map]
  rfl

end Cv.Gap
