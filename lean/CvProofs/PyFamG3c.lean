/-
  Worker g3, part 3: cubic_pancake.
-/
import CvProofs.PyFamG3b
namespace Cv.PyG3
open Cv.Py Cv.Families Cv.GraphDef Cv.Perm Cv.PyGen

/-- the hoisted local helper `pancake_generator(k, n)` -/
def cubicG (n : Nat) (l : Int) : List Int :=
  pyRange (l - (1 : Int)) (-(1 : Int)) (-(1 : Int)) ++ pyRange l (n : Int) (1 : Int)

theorem cubic_helper_eq (k n : Nat) (hk : k ≤ n) :
    Fam.cubic_pancake_pancake_generator (k : Int) (n : Int) = some (toI (oneLine n (prefixRevFn k))) := by
  unfold Fam.cubic_pancake_pancake_generator
  rw [gen_prefixRev k n hk]; rfl

/-- the raw arguments produced by the source for prefix lengths `l1, l2, l3` -/
def cubicRaw (n s : Nat) (l1 l2 l3 : Int) : RawDef :=
  RawDef.mk [cubicG n l1, cubicG n l2, cubicG n l3] (some (pyRange (0 : Int) (n : Int) (1 : Int)))
    (some ["R" ++ pyStr l1, "R" ++ pyStr l2, "R" ++ pyStr l3])
    (some ("cubic_pancake-" ++ pyStr (n : Int) ++ "-" ++ pyStr (s : Int)))

theorem cubic_spec_none_of_lt (n s : Nat) (hn : ¬ 2 ≤ n) : cubicPancake n s = none := by
  unfold cubicPancake
  split
  · rfl
  · rw [if_neg (fun h => hn h.1)]

theorem cubic_gen_none_of_lt (n s : Int) (hn : ¬ 2 ≤ n) : Fam.cubic_pancake n s = none := by
  have ha : decide (n ≥ 2) = false := by simp; omega
  unfold Fam.cubic_pancake
  rw [ha]; rfl

theorem cubic_gen_none_of_subset (n s : Int) (hs : s < 1 ∨ 7 < s) : Fam.cubic_pancake n s = none := by
  have hb : List.contains [(1 : Int), 2, 3, 4, 5, 6, 7] s = false := by
    simp only [List.contains_cons, List.contains_nil, Bool.or_false, Bool.or_eq_false_iff,
      beq_eq_false_iff_ne, ne_eq]
    omega
  unfold Fam.cubic_pancake
  rw [hb]
  by_cases h : n ≥ 2
  · rw [decide_eq_true h]; rfl
  · rw [decide_eq_false h]; rfl

theorem cubic_core (n s m1 m2 m3 : Nat) (hn : 2 ≤ n) (h1 : m1 ≤ n) (h2 : m2 ≤ n) (h3 : m3 ≤ n)
    (hgen : Fam.cubic_pancake (n : Int) (s : Int) = some (cubicRaw n s m1 m2 m3))
    (hlen : cubicLengths n s = some [(m1 : Int), (m2 : Int), (m3 : Int)]) :
    (Fam.cubic_pancake (n : Int) (s : Int)).bind rawToPermDef = cubicPancake n s := by
  have hspec := permFamily_cubicPancake n s
  unfold cubicPancake at hspec ⊢
  rw [hlen] at hspec ⊢
  simp only [] at hspec ⊢
  have hcond : 2 ≤ n ∧ ([(m1 : Int), (m2 : Int), (m3 : Int)].all fun l => decide (0 ≤ l ∧ l ≤ (n : Int))) = true := by
    simp; omega
  rw [if_pos hcond] at hspec ⊢
  have hv := cubic_pancake_valid n s _ hspec
  rw [hgen, Option.bind_some]
  unfold cubicRaw cubicG
  rw [gen_prefixRev m1 n h1, gen_prefixRev m2 n h2, gen_prefixRev m3 n h3, identity_range]
  exact rawToPermDef_of _ _ n (by simp [mk]) rfl rfl (by simp [pyStr_nat, showNat, mk]) hv
    (by simp [mk]) (by omega)


theorem cubic_case1 (n : Nat) (hn : 2 ≤ n) :
    (Fam.cubic_pancake (n : Int) ((1 : Nat) : Int)).bind rawToPermDef = cubicPancake n 1 := by
  have ha : decide ((n : Int) ≥ 2) = true := by simp; omega
  apply cubic_core n 1 n (n - 1 : Nat) (2 : Nat) (by omega) (by omega) (by omega) (by omega)
  · unfold Fam.cubic_pancake cubicRaw cubicG Fam.cubic_pancake_pancake_generator
    rw [ha]
    try rw [show (((n - 1 : Nat) : Nat) : Int) = (n : Int) - 1 by omega]
    try rw [show (((n - 2 : Nat) : Nat) : Int) = (n : Int) - 2 by omega]
    try rw [show (((n - 3 : Nat) : Nat) : Int) = (n : Int) - 3 by omega]
    all_goals rfl
  · unfold cubicLengths
    simp only []
    try rw [show (((n - 1 : Nat) : Nat) : Int) = (n : Int) - 1 by omega]
    try rw [show (((n - 2 : Nat) : Nat) : Int) = (n : Int) - 2 by omega]
    try rw [show (((n - 3 : Nat) : Nat) : Int) = (n : Int) - 3 by omega]
    all_goals rfl

theorem cubic_case2 (n : Nat) (hn : 3 ≤ n) :
    (Fam.cubic_pancake (n : Int) ((2 : Nat) : Int)).bind rawToPermDef = cubicPancake n 2 := by
  have ha : decide ((n : Int) ≥ 2) = true := by simp; omega
  apply cubic_core n 2 n (n - 1 : Nat) (3 : Nat) (by omega) (by omega) (by omega) (by omega)
  · unfold Fam.cubic_pancake cubicRaw cubicG Fam.cubic_pancake_pancake_generator
    rw [ha]
    try rw [show (((n - 1 : Nat) : Nat) : Int) = (n : Int) - 1 by omega]
    try rw [show (((n - 2 : Nat) : Nat) : Int) = (n : Int) - 2 by omega]
    try rw [show (((n - 3 : Nat) : Nat) : Int) = (n : Int) - 3 by omega]
    all_goals rfl
  · unfold cubicLengths
    simp only []
    try rw [show (((n - 1 : Nat) : Nat) : Int) = (n : Int) - 1 by omega]
    try rw [show (((n - 2 : Nat) : Nat) : Int) = (n : Int) - 2 by omega]
    try rw [show (((n - 3 : Nat) : Nat) : Int) = (n : Int) - 3 by omega]
    all_goals rfl

theorem cubic_case3 (n : Nat) (hn : 2 ≤ n) :
    (Fam.cubic_pancake (n : Int) ((3 : Nat) : Int)).bind rawToPermDef = cubicPancake n 3 := by
  have ha : decide ((n : Int) ≥ 2) = true := by simp; omega
  apply cubic_core n 3 n (n - 1 : Nat) (n - 2 : Nat) (by omega) (by omega) (by omega) (by omega)
  · unfold Fam.cubic_pancake cubicRaw cubicG Fam.cubic_pancake_pancake_generator
    rw [ha]
    try rw [show (((n - 1 : Nat) : Nat) : Int) = (n : Int) - 1 by omega]
    try rw [show (((n - 2 : Nat) : Nat) : Int) = (n : Int) - 2 by omega]
    try rw [show (((n - 3 : Nat) : Nat) : Int) = (n : Int) - 3 by omega]
    all_goals rfl
  · unfold cubicLengths
    simp only []
    try rw [show (((n - 1 : Nat) : Nat) : Int) = (n : Int) - 1 by omega]
    try rw [show (((n - 2 : Nat) : Nat) : Int) = (n : Int) - 2 by omega]
    try rw [show (((n - 3 : Nat) : Nat) : Int) = (n : Int) - 3 by omega]
    all_goals rfl

theorem cubic_case4 (n : Nat) (hn : 3 ≤ n) :
    (Fam.cubic_pancake (n : Int) ((4 : Nat) : Int)).bind rawToPermDef = cubicPancake n 4 := by
  have ha : decide ((n : Int) ≥ 2) = true := by simp; omega
  apply cubic_core n 4 n (n - 1 : Nat) (n - 3 : Nat) (by omega) (by omega) (by omega) (by omega)
  · unfold Fam.cubic_pancake cubicRaw cubicG Fam.cubic_pancake_pancake_generator
    rw [ha]
    try rw [show (((n - 1 : Nat) : Nat) : Int) = (n : Int) - 1 by omega]
    try rw [show (((n - 2 : Nat) : Nat) : Int) = (n : Int) - 2 by omega]
    try rw [show (((n - 3 : Nat) : Nat) : Int) = (n : Int) - 3 by omega]
    all_goals rfl
  · unfold cubicLengths
    simp only []
    try rw [show (((n - 1 : Nat) : Nat) : Int) = (n : Int) - 1 by omega]
    try rw [show (((n - 2 : Nat) : Nat) : Int) = (n : Int) - 2 by omega]
    try rw [show (((n - 3 : Nat) : Nat) : Int) = (n : Int) - 3 by omega]
    all_goals rfl

theorem cubic_case5 (n : Nat) (hn : 2 ≤ n) :
    (Fam.cubic_pancake (n : Int) ((5 : Nat) : Int)).bind rawToPermDef = cubicPancake n 5 := by
  have ha : decide ((n : Int) ≥ 2) = true := by simp; omega
  apply cubic_core n 5 n (n - 2 : Nat) (2 : Nat) (by omega) (by omega) (by omega) (by omega)
  · unfold Fam.cubic_pancake cubicRaw cubicG Fam.cubic_pancake_pancake_generator
    rw [ha]
    try rw [show (((n - 1 : Nat) : Nat) : Int) = (n : Int) - 1 by omega]
    try rw [show (((n - 2 : Nat) : Nat) : Int) = (n : Int) - 2 by omega]
    try rw [show (((n - 3 : Nat) : Nat) : Int) = (n : Int) - 3 by omega]
    all_goals rfl
  · unfold cubicLengths
    simp only []
    try rw [show (((n - 1 : Nat) : Nat) : Int) = (n : Int) - 1 by omega]
    try rw [show (((n - 2 : Nat) : Nat) : Int) = (n : Int) - 2 by omega]
    try rw [show (((n - 3 : Nat) : Nat) : Int) = (n : Int) - 3 by omega]
    all_goals rfl

theorem cubic_case6 (n : Nat) (hn : 3 ≤ n) :
    (Fam.cubic_pancake (n : Int) ((6 : Nat) : Int)).bind rawToPermDef = cubicPancake n 6 := by
  have ha : decide ((n : Int) ≥ 2) = true := by simp; omega
  apply cubic_core n 6 n (n - 2 : Nat) (3 : Nat) (by omega) (by omega) (by omega) (by omega)
  · unfold Fam.cubic_pancake cubicRaw cubicG Fam.cubic_pancake_pancake_generator
    rw [ha]
    try rw [show (((n - 1 : Nat) : Nat) : Int) = (n : Int) - 1 by omega]
    try rw [show (((n - 2 : Nat) : Nat) : Int) = (n : Int) - 2 by omega]
    try rw [show (((n - 3 : Nat) : Nat) : Int) = (n : Int) - 3 by omega]
    all_goals rfl
  · unfold cubicLengths
    simp only []
    try rw [show (((n - 1 : Nat) : Nat) : Int) = (n : Int) - 1 by omega]
    try rw [show (((n - 2 : Nat) : Nat) : Int) = (n : Int) - 2 by omega]
    try rw [show (((n - 3 : Nat) : Nat) : Int) = (n : Int) - 3 by omega]
    all_goals rfl

theorem cubic_case7 (n : Nat) (hn : 3 ≤ n) :
    (Fam.cubic_pancake (n : Int) ((7 : Nat) : Int)).bind rawToPermDef = cubicPancake n 7 := by
  have ha : decide ((n : Int) ≥ 2) = true := by simp; omega
  apply cubic_core n 7 n (n - 2 : Nat) (n - 3 : Nat) (by omega) (by omega) (by omega) (by omega)
  · unfold Fam.cubic_pancake cubicRaw cubicG Fam.cubic_pancake_pancake_generator
    rw [ha]
    try rw [show (((n - 1 : Nat) : Nat) : Int) = (n : Int) - 1 by omega]
    try rw [show (((n - 2 : Nat) : Nat) : Int) = (n : Int) - 2 by omega]
    try rw [show (((n - 3 : Nat) : Nat) : Int) = (n : Int) - 3 by omega]
    all_goals rfl
  · unfold cubicLengths
    simp only []
    try rw [show (((n - 1 : Nat) : Nat) : Int) = (n : Int) - 1 by omega]
    try rw [show (((n - 2 : Nat) : Nat) : Int) = (n : Int) - 2 by omega]
    try rw [show (((n - 3 : Nat) : Nat) : Int) = (n : Int) - 3 by omega]
    all_goals rfl


/-! ### `n = 2` with a prefix length `3` or `-1`: the source builds a malformed generator and `create` rejects it -/

theorem create_none_of_not_perm (gens : List (List Nat)) (names : Option (List String))
    (central : Option (List Nat)) (name : String) (g0 : List Nat) (rest : List (List Nat))
    (hg : gens = g0 :: rest) (p : List Nat) (hp : p ∈ gens) (hnp : ¬ IsPermOf g0.length p) :
    PermDef.create gens names central name = none := by
  rw [Option.eq_none_iff_forall_ne_some]
  intro d hd
  obtain ⟨g0', rest', e, h1, _⟩ := (create_eq_some_iff _ _ _ _ _).1 hd
  rw [hg] at e
  cases e
  exact hnp (h1 p hp)

theorem cubic_2_2 : (Fam.cubic_pancake ((2 : Nat) : Int) ((2 : Nat) : Int)).bind rawToPermDef = cubicPancake 2 2 := by
  have h : Fam.cubic_pancake ((2 : Nat) : Int) ((2 : Nat) : Int)
      = some ⟨[[1, 0], [0, 1], [2, 1, 0]], some [0, 1], some ["R2", "R1", "R3"], some "cubic_pancake-2-2"⟩ := by
    decide
  have hm : List.mapM toN? [[(1 : Int), 0], [0, 1], [2, 1, 0]] = some [[1, 0], [0, 1], [2, 1, 0]] := by decide
  have hc : toN? [(0 : Int), 1] = some [0, 1] := by decide
  rw [h, Option.bind_some]
  unfold rawToPermDef
  simp only [hm, hc, Option.bind_eq_bind, Option.bind_some, Option.map_some]
  rw [create_none_of_not_perm _ _ _ _ [1, 0] _ rfl [2, 1, 0] (by simp) (by decide)]
  decide

theorem cubic_2_6 : (Fam.cubic_pancake ((2 : Nat) : Int) ((6 : Nat) : Int)).bind rawToPermDef = cubicPancake 2 6 := by
  have h : Fam.cubic_pancake ((2 : Nat) : Int) ((6 : Nat) : Int)
      = some ⟨[[1, 0], [0, 1], [2, 1, 0]], some [0, 1], some ["R2", "R0", "R3"], some "cubic_pancake-2-6"⟩ := by
    decide
  have hm : List.mapM toN? [[(1 : Int), 0], [0, 1], [2, 1, 0]] = some [[1, 0], [0, 1], [2, 1, 0]] := by decide
  have hc : toN? [(0 : Int), 1] = some [0, 1] := by decide
  rw [h, Option.bind_some]
  unfold rawToPermDef
  simp only [hm, hc, Option.bind_eq_bind, Option.bind_some, Option.map_some]
  rw [create_none_of_not_perm _ _ _ _ [1, 0] _ rfl [2, 1, 0] (by simp) (by decide)]
  decide

theorem cubic_2_4 : (Fam.cubic_pancake ((2 : Nat) : Int) ((4 : Nat) : Int)).bind rawToPermDef = cubicPancake 2 4 := by
  have h : Fam.cubic_pancake ((2 : Nat) : Int) ((4 : Nat) : Int)
      = some ⟨[[1, 0], [0, 1], [-1, 0, 1]], some [0, 1], some ["R2", "R1", "R-1"], some "cubic_pancake-2-4"⟩ := by
    decide
  have hm : List.mapM toN? [[(1 : Int), 0], [0, 1], [-1, 0, 1]] = none := by decide
  rw [h, Option.bind_some]
  unfold rawToPermDef
  simp only [hm, Option.bind_eq_bind, Option.bind_none]
  decide

theorem cubic_2_7 : (Fam.cubic_pancake ((2 : Nat) : Int) ((7 : Nat) : Int)).bind rawToPermDef = cubicPancake 2 7 := by
  have h : Fam.cubic_pancake ((2 : Nat) : Int) ((7 : Nat) : Int)
      = some ⟨[[1, 0], [0, 1], [-1, 0, 1]], some [0, 1], some ["R2", "R0", "R-1"], some "cubic_pancake-2-7"⟩ := by
    decide
  have hm : List.mapM toN? [[(1 : Int), 0], [0, 1], [-1, 0, 1]] = none := by decide
  rw [h, Option.bind_some]
  unfold rawToPermDef
  simp only [hm, Option.bind_eq_bind, Option.bind_none]
  decide

theorem cubic_pancake_gen (n subset : Nat) :
    (Fam.cubic_pancake (n : Int) (subset : Int)).bind rawToPermDef = Families.cubicPancake n subset := by
  by_cases hn : 2 ≤ n
  · match subset with
    | 0 =>
      rw [cubic_gen_none_of_subset _ _ (by omega)]; rfl
    | 1 => exact cubic_case1 n hn
    | 3 => exact cubic_case3 n hn
    | 5 => exact cubic_case5 n hn
    | 2 =>
      by_cases h3 : 3 ≤ n
      · exact cubic_case2 n h3
      · obtain rfl : n = 2 := by omega
        exact cubic_2_2
    | 4 =>
      by_cases h3 : 3 ≤ n
      · exact cubic_case4 n h3
      · obtain rfl : n = 2 := by omega
        exact cubic_2_4
    | 6 =>
      by_cases h3 : 3 ≤ n
      · exact cubic_case6 n h3
      · obtain rfl : n = 2 := by omega
        exact cubic_2_6
    | 7 =>
      by_cases h3 : 3 ≤ n
      · exact cubic_case7 n h3
      · obtain rfl : n = 2 := by omega
        exact cubic_2_7
    | s + 8 =>
      rw [cubic_gen_none_of_subset _ _ (by omega)]; rfl
  · rw [cubic_gen_none_of_lt _ _ (by omega), cubic_spec_none_of_lt n subset hn]; rfl

theorem cubic_pancake_gen_neg (n subset : Int) (h : n < 0 ∨ subset < 0) : Fam.cubic_pancake n subset = none := by
  rcases h with h | h
  · exact cubic_gen_none_of_lt _ _ (by omega)
  · exact cubic_gen_none_of_subset _ _ (by omega)

end Cv.PyG3
