/-
  G10 part 4 — the C10 properties transferred to the source-translated methods.  Core Lean only.
-/
import CvProofs.PyGraphDefG10IC

namespace Cv.PyG10
open Cv.Py Cv.PyGen Cv.GraphDef Cv.Perm

theorem toI_map_some_inj {a : Option (List Nat)} {idx : List Int} (h : a.map toI = some idx) :
    ∃ m, a = some m ∧ idx = toI m := by
  cases a with
  | none => simp at h
  | some m => exact ⟨m, rfl, by simpa using h.symm⟩

theorem generators_inverse_map_source_spec (n : Nat) (ps : List (List Nat)) (hps : ∀ p ∈ ps, IsPermOf n p)
    (idx : List Int) (h : GraphDef.generators_inverse_map (ps.map toI) = some (some idx)) :
    ∃ m : List Nat, idx = toI m ∧ m.length = ps.length ∧ ∀ i, i < ps.length →
      ∃ j, m[i]? = some j ∧ j < ps.length ∧ ps.getD j [] = inverse (ps.getD i []) ∧
           compose (ps.getD i []) (ps.getD j []) = identity n ∧
           compose (ps.getD j []) (ps.getD i []) = identity n := by
  rw [generators_inverse_map_gen ps n hps] at h
  obtain ⟨m, hm, e⟩ := toI_map_some_inj (Option.some.inj h)
  exact ⟨m, e, inverseMapPerm_spec n ps hps m hm⟩

theorem generators_inverse_map_source_none (n : Nat) (ps : List (List Nat)) (hps : ∀ p ∈ ps, IsPermOf n p) :
    GraphDef.generators_inverse_map (ps.map toI) = some none ↔ ¬ ∀ p ∈ ps, inverse p ∈ ps := by
  rw [generators_inverse_map_gen ps n hps, ← inverseClosed_iff]
  cases inverseMapPerm ps <;> simp

theorem generators_inverse_map_source_total (n : Nat) (ps : List (List Nat)) (hps : ∀ p ∈ ps, IsPermOf n p) :
    (GraphDef.generators_inverse_map (ps.map toI)).isSome = true := by
  rw [generators_inverse_map_gen ps n hps]; rfl

theorem with_inverted_generators_source_spec (d d' : PermDef) (hv : ∀ p ∈ d.gens, IsPermOf d.central.length p)
    (h : (GraphDef.with_inverted_generators (d.gens.map toI) (toI d.central)).bind rawToPermDef = some d') :
    d'.central = d.central ∧ d'.gens = d.gens.map inverse := by
  rw [with_inverted_generators_gen d hv] at h
  exact inverted_spec d d' h

theorem with_inverted_generators_source_succeeds (d : PermDef)
    (hd : PermDef.create d.gens (some d.names) (some d.central) d.name = some d) :
    ((GraphDef.with_inverted_generators (d.gens.map toI) (toI d.central)).bind rawToPermDef).isSome = true := by
  rw [with_inverted_generators_gen d (create_valid d hd)]
  exact inverted_succeeds d hd

theorem make_inverse_closed_source_closed (d d' : PermDef)
    (hd : PermDef.create d.gens (some d.names) (some d.central) d.name = some d)
    (h : (GraphDef.make_inverse_closed (d.gens.map toI) d.names (toI d.central) d.name d.inverseClosed).bind
      rawToPermDef = some d') : d'.inverseClosed = true := by
  rw [make_inverse_closed_gen d hd] at h
  exact makeIC_closed d d' (create_valid d hd) h

theorem make_inverse_closed_source_succeeds (d : PermDef)
    (hd : PermDef.create d.gens (some d.names) (some d.central) d.name = some d) :
    ((GraphDef.make_inverse_closed (d.gens.map toI) d.names (toI d.central) d.name d.inverseClosed).bind
      rawToPermDef).isSome = true := by
  rw [make_inverse_closed_gen d hd]
  exact makeIC_succeeds d hd

theorem make_inverse_closed_source_prefix (d d' : PermDef)
    (hd : PermDef.create d.gens (some d.names) (some d.central) d.name = some d)
    (h : (GraphDef.make_inverse_closed (d.gens.map toI) d.names (toI d.central) d.name d.inverseClosed).bind
      rawToPermDef = some d') :
    d'.central = d.central ∧ d.gens <+: d'.gens ∧ d.names <+: d'.names ∧
    (∀ q, q ∈ d'.gens ↔ q ∈ d.gens ∨ (∃ p ∈ d.gens, q = inverse p ∧ inverse p ∉ d.gens)) := by
  rw [make_inverse_closed_gen d hd] at h
  exact makeIC_prefix d d' h

theorem revert_path_source_spec (n : Nat) (ps : List (List Nat)) (hps : ∀ p ∈ ps, IsPermOf n p)
    (idx : List Int) (path : List Nat) (rev' : List Int)
    (hm : GraphDef.generators_inverse_map (ps.map toI) = some (some idx)) (hpath : ∀ i ∈ path, i < ps.length)
    (hr : GraphDef.revert_path (some idx) (toI path) = some rev') (A : List Nat) (hA : A.length = n) :
    ∃ rev : List Nat, rev' = toI rev ∧ rev.length = path.length ∧
    Cv.applyPath (fun i s => apply (ps.getD i []) s)
      (Cv.applyPath (fun i s => apply (ps.getD i []) s) A path) rev = A := by
  rw [generators_inverse_map_gen ps n hps] at hm
  obtain ⟨m, hm', e⟩ := toI_map_some_inj (Option.some.inj hm)
  subst e
  have hr' : GraphDef.revert_path ((some m).map toI) (toI path) = some rev' := hr
  rw [revert_path_gen] at hr'
  obtain ⟨rev, hrev, e⟩ := toI_map_some_inj hr'
  exact ⟨rev, e, revertPath_spec n ps hps m path rev hm' hpath hrev A hA⟩

/-! ### the hypothesis of `make_inverse_closed_gen` is needed -/

/-- on an inverse-closed definition the source returns `self`: re-validating its fields is `create` on them -/
theorem make_inverse_closed_gen_closed (d : PermDef) (hic : d.inverseClosed = true) :
    (GraphDef.make_inverse_closed (d.gens.map toI) d.names (toI d.central) d.name d.inverseClosed).bind rawToPermDef =
      PermDef.create d.gens (some d.names) (some d.central) d.name := by
  rw [hic, make_inverse_closed_raw_closed, Option.bind_some, PyG5.rawToPermDef_mk]

/-- in the not-inverse-closed branch in-range generators and one name per generator are enough -/
theorem make_inverse_closed_gen_open (d : PermDef) (hic : d.inverseClosed = false)
    (hv : ∀ p ∈ d.gens, ∀ i ∈ p, i < p.length) (hn : d.names.length = d.gens.length) :
    (GraphDef.make_inverse_closed (d.gens.map toI) d.names (toI d.central) d.name d.inverseClosed).bind rawToPermDef =
      d.makeInverseClosed := by
  rw [makeIC_unfold, hic, make_inverse_closed_raw d hv hn, Option.bind_some, PyG5.rawToPermDef_mk]
  rfl

/-- a `PermDef` value that `create` would reject (central state out of range) -/
def badDef : PermDef := ⟨[[0]], ["a"], [5], ""⟩

theorem badDef_counterexample :
    badDef.inverseClosed = true ∧
    (GraphDef.make_inverse_closed (badDef.gens.map toI) badDef.names (toI badDef.central) badDef.name
      badDef.inverseClosed).bind rawToPermDef = none ∧
    badDef.makeInverseClosed = some badDef := by
  have hic : badDef.inverseClosed = true := by decide
  refine ⟨hic, ?_, ?_⟩
  · rw [make_inverse_closed_gen_closed _ hic]
    apply Option.eq_none_iff_forall_ne_some.2
    intro d' h
    obtain ⟨g0, rest, e, h1, h2, h3, h4, h5, _⟩ := (create_eq_some_iff _ _ _ _ _).1 h
    simp only [Option.getD_some] at h5
    exact absurd (h5 5 (by decide)) (by decide)
  · rw [makeIC_unfold, if_pos hic]

end Cv.PyG10
