/-
  Worker g8: `cayleypy/puzzles/hungarian_rings.py` regenerated (`CvGen/PyRings.lean`) = specification
  (`CvModel/Puzzles.lean`).  Part 1: `_circular_shift`, `_get_intersections`, `_create_right_ring`.
-/
import CvGen.PyRings
import CvModel.PyBridge
import CvModel.Puzzles
import CvProofs.PyLemmasG2
import CvProofs.Puzzles
namespace Cv.PyG8
open Cv.Py Cv.PyGen Cv.Puzzles Cv.PyG2

/-! ### `_circular_shift` -/

theorem pyClamp_nat (len k : Nat) : pyClamp len (k : Int) = min k len := by
  unfold pyClamp
  simp only
  rw [if_neg (by omega), if_neg (by omega)]
  simp

theorem pySlice_from {α : Type} (x : List α) (k : Nat) (hk : k ≤ x.length) :
    pySlice x (some (k : Int)) none = x.drop k := by
  unfold pySlice
  simp only [pyClamp_nat]
  rw [Nat.min_eq_left hk, List.take_of_length_le (by simp)]

theorem pySlice_to {α : Type} (x : List α) (k : Nat) (hk : k ≤ x.length) :
    pySlice x none (some (k : Int)) = x.take k := by
  unfold pySlice
  simp only [pyClamp_nat]
  rw [Nat.min_eq_left hk]
  simp

/-- `_circular_shift` on a non-empty list: the step is reduced modulo the length, then `drop ++ take` -/
theorem circular_shift_pos (items : List Int) (step : Int) (h : 0 < items.length) :
    Rings._circular_shift items step =
      some (items.drop (step % items.length).toNat ++ items.take (step % items.length).toNat) := by
  have hl : (0 : Int) < (items.length : Int) := by omega
  have h0 : 0 ≤ step % (items.length : Int) := Int.emod_nonneg _ (by omega)
  have h1 : step % (items.length : Int) < items.length := Int.emod_lt_of_pos _ hl
  have hk : (step % (items.length : Int)).toNat ≤ items.length := by omega
  unfold Rings._circular_shift pyMod pyLen
  rw [if_pos (by simpa using hl), if_neg (by omega)]
  simp only [Option.bind_eq_bind, Option.bind_some, Option.pure_def]
  rw [Int.fmod_eq_emod_of_nonneg _ (by omega)]
  obtain ⟨k, e⟩ : ∃ k : Nat, step % (items.length : Int) = (k : Int) := ⟨_, (Int.toNat_of_nonneg h0).symm⟩
  rw [e] at h1 ⊢
  rw [pySlice_from _ _ (by omega), pySlice_to _ _ (by omega)]
  simp

theorem circular_shift_nil (step : Int) : Rings._circular_shift [] step = some [] := by
  unfold Rings._circular_shift pyLen pySlice
  simp

/-- `_circular_shift` is `List.rotateLeft` by `step mod len` (also for the empty list, where both sides are `[]`) -/
theorem circular_shift_list (items : List Int) (step : Int) :
    Rings._circular_shift items step = some (items.rotateLeft ((step % items.length).toNat)) := by
  by_cases h : 0 < items.length
  · rw [circular_shift_pos items step h]
    have hl : (0 : Int) < (items.length : Int) := by omega
    have h0 : 0 ≤ step % (items.length : Int) := Int.emod_nonneg _ (by omega)
    have h1 : step % (items.length : Int) < items.length := Int.emod_lt_of_pos _ hl
    unfold List.rotateLeft
    simp only
    split
    · have : items.length = 1 := by omega
      have e : (step % (items.length : Int)).toNat = 0 := by omega
      rw [e]; simp
    · rw [Nat.mod_eq_of_lt (by omega)]
  · have : items = [] := List.eq_nil_of_length_eq_zero (by omega)
    subst this
    rw [circular_shift_nil]; rfl

theorem toI_rotateLeft (l : List Nat) (k : Nat) : toI (l.rotateLeft k) = (toI l).rotateLeft k := by
  unfold List.rotateLeft toI
  simp only [List.length_map]
  split
  · rfl
  · simp [List.map_drop, List.map_take]

theorem toI_length (l : List Nat) : (toI l).length = l.length := by simp [toI]

/-! ### `_get_intersections` -/

theorem get_intersections_one : Rings._get_intersections 0 0 = some 1 := rfl

theorem get_intersections_two (li ri : Int) (h1 : 0 < li) (h2 : 0 < ri) :
    Rings._get_intersections li ri = some 2 := by
  unfold Rings._get_intersections
  have e1 : (li == 0) = false := by simp; omega
  have e2 : decide (li > 0) = true := by simpa using h1
  have e3 : decide (ri > 0) = true := by simpa using h2
  rw [e1, e2, e3]
  rfl

/-- exactly one of the two indices is `0` (or one is negative): `ValueError` -/
theorem get_intersections_none (li ri : Int) (h : ¬ (li = 0 ∧ ri = 0)) (h2 : ¬ (0 < li ∧ 0 < ri)) :
    Rings._get_intersections li ri = none := by
  unfold Rings._get_intersections
  have e1 : ((li == 0) && (ri == 0)) = false := by
    rw [Bool.and_eq_false_iff]; simp only [beq_eq_false_iff_ne, ne_eq]; omega
  have e2 : (decide (li > 0) && decide (ri > 0)) = false := by
    rw [Bool.and_eq_false_iff]; simp only [decide_eq_false_iff_not]; omega
  rw [e1, e2]
  rfl

/-! ### `_create_right_ring` -/

theorem create_right_ring_adm (ls li rs ri : Nat) (h : RingsAdm ls li rs ri) :
    Rings._create_right_ring ls li rs ri (ringsSize ls li rs ri) = some (toI (rightRing ls li rs ri)) := by
  have hlen := rightRing_length ls li rs ri h
  obtain ⟨h1, h2, h3, h4, h5⟩ := h
  unfold Rings._create_right_ring
  rcases h5 with ⟨rfl, rfl⟩ | ⟨h5, h6⟩
  · have e : Rings._get_intersections ((0 : Nat) : Int) ((0 : Nat) : Int) = some 1 := rfl
    rw [e]
    simp only [Option.bind_eq_bind, Option.bind_some, Option.pure_def]
    rw [if_neg (by decide)]
    simp only [Option.bind_some]
    have er : ringsSize ls 0 rs 0 = ls + rs - 1 := by simp [ringsSize]
    have eR : [(0 : Int)] ++ pyRange (ls : Int) ((ringsSize ls 0 rs 0 : Nat) : Int) 1 = toI (rightRing ls 0 rs 0) := by
      rw [pyRange_nat, er]
      have : ls + rs - 1 - ls = rs - 1 := by omega
      simp [rightRing, toI, this]
    rw [eR]
    unfold pyAssert pyLen
    rw [toI_length, hlen, if_pos (by simp)]
    rfl
  · rw [get_intersections_two _ _ (by omega) (by omega)]
    simp only [Option.bind_eq_bind, Option.bind_some, Option.pure_def]
    rw [if_pos (by decide)]
    have er : ringsSize ls li rs ri = ls + rs - 2 := by simp [ringsSize]; omega
    have e2 : ((ls : Int) + (rs : Int) - (ri : Int) - 1) = ((ls + rs - ri - 1 : Nat) : Int) := by omega
    rw [e2, er, pyRange_nat, pyRange_nat]
    have hr : rightRing ls li rs ri =
        0 :: List.range' ls (rs - ri - 1) ++ li :: List.range' (ls + rs - ri - 1) (ri - 1) := by
      unfold rightRing; rw [if_neg (by omega)]
    have c1 : ls + rs - ri - 1 - ls = rs - ri - 1 := by omega
    have c2 : ls + rs - 2 - (ls + rs - ri - 1) = ri - 1 := by omega
    rw [c1, c2]
    by_cases hri : 1 < ri
    · rw [if_pos (by simp only [gt_iff_lt, decide_eq_true_eq]; omega)]
      simp only [Option.bind_some]
      have eR : [(0 : Int)] ++ toI (List.range' ls (rs - ri - 1)) ++ [(li : Int)] ++
          toI (List.range' (ls + rs - ri - 1) (ri - 1)) = toI (rightRing ls li rs ri) := by
        rw [hr]; simp [toI]
      rw [eR]
      unfold pyAssert pyLen
      rw [toI_length, hlen, if_pos (by simp)]
      rfl
    · rw [if_neg (by simp only [gt_iff_lt, decide_eq_true_eq]; omega)]
      simp only [Option.bind_some]
      have eR : [(0 : Int)] ++ toI (List.range' ls (rs - ri - 1)) ++ [(li : Int)] = toI (rightRing ls li rs ri) := by
        rw [hr]
        have : ri - 1 = 0 := by omega
        rw [this]; simp [toI]
      rw [eR]
      unfold pyAssert pyLen
      rw [toI_length, hlen, if_pos (by simp)]
      rfl

theorem circular_shift_gen (items : List Nat) (step : Int) :
    Rings._circular_shift (toI items) step = some (toI (items.rotateLeft ((step % items.length).toNat))) := by
  rw [circular_shift_list, toI_rotateLeft, toI_length]

theorem adm_of_admissible (ls li rs ri : Nat) (h : ringsAdmissible ls li rs ri = true) : RingsAdm ls li rs ri := by
  unfold ringsAdmissible at h
  simp only [Bool.and_eq_true, Bool.or_eq_true, decide_eq_true_eq, beq_iff_eq] at h
  unfold RingsAdm
  omega

end Cv.PyG8
