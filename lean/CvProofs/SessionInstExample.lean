/-
  Concrete sessions for `CvProps/C14i.lean`: LRX(4) (inverse-closed) and the directed LX(4) (exercises the inverted copy),
  width 2, collision-free `posHash`, batch size 3, constructor default 3 (so that the graphs are `gE`, `gEi`, `gD`, `gDi`
  of `CvProofs/InstancePathsExample.lean`) and 5.  The bookkeeping reduces as it is; the algorithm models are evaluated in
  the kernel as in `CvProofs/InstancePathsExample.lean`.
-/
import CvProofs.SessionInst
import CvProofs.InstancePathsExample
namespace Cv.SessionInst.Example
open Cv Cv.Session Cv.Instance Cv.Instance.Example Cv.Instance.PathsExample Cv.Codec Cv.Kernel Cv.SessionInst

def rootE : IImm := ⟨⟨lrx4, id4, true⟩, ⟨2, 4⟩, posHash, 3⟩
def rootD : IImm := ⟨⟨lx4, id4, false⟩, ⟨2, 4⟩, posHash, 3⟩

theorem graphOf_rootE : graphOf rootE = gE := rfl
theorem graphOf_inv_rootE : graphOf (invOf 3 rootE) = gEi := rfl
theorem graphOf_rootD : graphOf rootD = gD := rfl
theorem graphOf_inv_rootD : graphOf (invOf 3 rootD) = gDi := rfl

/-- a history touching everything: a path search with limits (caches the radius-1 ball and the inverted copy), a MITM
query, the inverted copy, a BFS on it, a modified copy with another central state, another search with other limits -/
def opsE : List IOp :=
  [opFindPath 0 [3, 2, 1, 0] { maxDiameter := some 1 }, opMitmTo 0 [3, 2, 1, 0] 2, opSwitchToInverted 0,
   opBfs 1 (cBall 1) none, opModifiedCopy 0 ⟨lrx4, [1, 0, 2, 3], true⟩, opFindPath 0 [1, 0, 3, 2] { maxDiameter := some 2 },
   opFindPath 1 [3, 2, 1, 0] {}]

example : (run (instC 3) (fresh rootE) opsE).objs.length = 5 := by decide

example : ((run (instC 3) (fresh rootE) opsE).objs[1]?).map Obj.imm = some (invOf 3 rootE) := rfl


/-! ### LRX(4): answers after the history -/

/-- the root object, asked with limits that are NOT those of the cached ball: the radius-2 ball is computed -/
theorem E_find_after :
    pathOf (view (step (instC 3) (run (instC 3) (fresh rootE) opsE) (opFindPath 0 [3, 2, 1, 0] { maxDiameter := some 2 })))
      = some (.found [2, 1, 1, 2]) := by
  rw [session_spec_root 3 rootE opsE _ rfl, spec_findPath_ic 3 rootE 0 _ _ rfl, pathOf_value]
  exact congrArg some find_found

/-- … and with the limits of the first call again -/
theorem E_find_after_small :
    pathOf (view (step (instC 3) (run (instC 3) (fresh rootE) opsE) (opFindPath 0 [3, 2, 1, 0] { maxDiameter := some 1 })))
      = some .notFound := by
  rw [session_spec_root 3 rootE opsE _ rfl, spec_findPath_ic 3 rootE 0 _ _ rfl, pathOf_value]
  refine congrArg some ?_
  show findPath gE gEi (permInvMap lrx4) (encode 2 4 id4) (encode 2 4 [3, 2, 1, 0]) none (some 1) = .notFound
  simp only [findPath, precomputeBfs, mitmFindPathFrom, mitmFindPathTo_eq, bfs_eq_bfsK]; decide +kernel

theorem E_mitm_after :
    pathOf (view (step (instC 3) (run (instC 3) (fresh rootE) opsE) (opMitmTo 0 [3, 2, 1, 0] 2))) =
      some (.found [2, 0, 0, 2]) := by
  rw [session_spec_root 3 rootE opsE _ rfl, spec_mitmTo, pathOf_value]
  refine congrArg some ?_
  show mitmFindPathTo gE gEi (bfs gE (cBall 2) [encode 2 4 id4]).hashes (encode 2 4 [3, 2, 1, 0]) = _
  rw [ball2_eq]; exact mitm_found

/-! ### the un-keyed cache -/

theorem E_unkeyed_ball1 :
    mitmFindPathFrom gE gEi (permInvMap lrx4) (bfs gE (ballCfgOfKey (10^6, 1)) [encode 2 4 id4]).hashes
      (encode 2 4 [3, 2, 1, 0]) = .notFound := by
  simp only [mitmFindPathFrom, mitmFindPathTo_eq, bfs_eq_bfsK]; decide +kernel

/-- THE DEFECT THAT WAS REPAIRED, with the real algorithms: after `find_path(s, max_diameter=1)` the call
`find_path(s, max_diameter=2)` answers `None` from the radius-1 ball where a fresh graph finds the path -/
theorem E_unkeyed :
    pathOf (view (stepWith false (instC 3)
      (runWith false (instC 3) (fresh rootE) [opFindPath 0 [3, 2, 1, 0] { maxDiameter := some 1 }])
      (opFindPath 0 [3, 2, 1, 0] { maxDiameter := some 2 }))) = some .notFound ∧
    pathOf (view (stepWith false (instC 3) (fresh rootE) (opFindPath 0 [3, 2, 1, 0] { maxDiameter := some 2 }))) =
      some (.found [2, 1, 1, 2]) := by
  constructor
  · rw [unkeyed_second 3 rootE rfl, pathOf_value]
    exact congrArg some E_unkeyed_ball1
  · have h := session_spec_root 3 rootE [] (opFindPath 0 [3, 2, 1, 0] { maxDiameter := some 2 }) rfl
    have h' : view (stepWith false (instC 3) (fresh rootE) (opFindPath 0 [3, 2, 1, 0] { maxDiameter := some 2 })) =
        view (step (instC 3) (run (instC 3) (fresh rootE) []) (opFindPath 0 [3, 2, 1, 0] { maxDiameter := some 2 })) :=
      rfl
    rw [h', h, spec_findPath_ic 3 rootE 0 _ _ rfl, pathOf_value]
    exact congrArg some find_found


/-- hence history independence FAILS for the un-keyed cache -/
theorem E_unkeyed_not_fresh :
    view (stepWith false (instC 3)
      (runWith false (instC 3) (fresh rootE) [opFindPath 0 [3, 2, 1, 0] { maxDiameter := some 1 }])
      (opFindPath 0 [3, 2, 1, 0] { maxDiameter := some 2 })) ≠
    view (stepWith false (instC 3) (fresh rootE) (opFindPath 0 [3, 2, 1, 0] { maxDiameter := some 2 })) := by
  intro h
  have h1 := E_unkeyed.1
  rw [h, E_unkeyed.2] at h1
  cases h1

/-! ### LX(4), directed: the ball lives on the inverted copy -/

/-- the first search allocates the inverted copy (object 1), caches the radius-1 ball ON IT and reaches two copies further
down (objects 2, 3); then the inverted copy is asked for, searched itself, and the root is searched again -/
def opsD : List IOp :=
  [opFindPath 0 [3, 2, 1, 0] { maxDiameter := some 1 }, opSwitchToInverted 0, opFindPath 1 [1, 2, 3, 0] {},
   opFindPath 0 [3, 2, 1, 0] { maxDiameter := some 2 }, opBetween 0 [[0, 1, 2, 3]] [[1, 0, 3, 2]] 2]

example : (run (instC 3) (fresh rootD) opsD).objs.length = 5 := by decide
/-- the root holds no ball: its inverted copy (object 1) holds the one of the last limits used on the root; object 2 holds
the ball of the search on object 1 -/
example : ((run (instC 3) (fresh rootD) opsD).objs.map fun o => (o.invertedCache, o.ballCache.map (·.1))) =
    [(some 1, none), (some 2, some (10^6, 2)), (some 3, some (10^6, 50)), (some 4, none), (none, none)] := by decide
theorem D_obj1 : ((run (instC 3) (fresh rootD) opsD).objs[1]?).map Obj.imm = some (invOf 3 rootD) := rfl

theorem D_obj1_exists : ∃ o, (run (instC 3) (fresh rootD) opsD).objs[1]? = some o ∧ o.imm = invOf 3 rootD := by
  have h := D_obj1
  cases hx : (run (instC 3) (fresh rootD) opsD).objs[1]? with
  | none => rw [hx] at h; cases h
  | some o => rw [hx] at h; exact ⟨o, rfl, Option.some.inj h⟩

/-- object 1 spelled out: the inverted copy, with caches -/
theorem D_obj1_obj : ∃ ic bc, (run (instC 3) (fresh rootD) opsD).objs[1]? = some
    { defn := ⟨lx4.map Cv.Perm.inverse, id4, false⟩, enc := ⟨2, 4⟩, hasher := posHash, batch := 3, invertedCache := ic,
      ballCache := bc } := by
  obtain ⟨o, ho, hi⟩ := D_obj1_exists
  exact ⟨o.invertedCache, o.ballCache, by rw [ho, obj_of_imm o _ hi]; rfl⟩

theorem D_find_after :
    pathOf (view (step (instC 3) (run (instC 3) (fresh rootD) opsD) (opFindPath 0 [3, 2, 1, 0] { maxDiameter := some 2 })))
      = some (.found [1, 0, 0, 1]) := by
  rw [session_spec_root 3 rootD opsD _ rfl, spec_findPath_not_ic 3 rootD 0 _ _ rfl lx4_perm, pathOf_value]
  exact congrArg some findD_found

theorem D_find_after_small :
    pathOf (view (step (instC 3) (run (instC 3) (fresh rootD) opsD) (opFindPath 0 [3, 2, 1, 0] { maxDiameter := some 1 })))
      = some .notFound := by
  rw [session_spec_root 3 rootD opsD _ rfl, spec_findPath_not_ic 3 rootD 0 _ _ rfl lx4_perm, pathOf_value]
  exact congrArg some findD_far

/-- the constructor default differs from the batch size of the root (copies get 5): same answer -/
theorem D_find_after_db5 :
    pathOf (view (step (instC 5) (run (instC 5) (fresh rootD) opsD) (opFindPath 0 [3, 2, 1, 0] { maxDiameter := some 2 })))
      = some (.found [1, 0, 0, 1]) := by
  rw [session_spec_root 5 rootD opsD _ rfl, spec_findPath_not_ic 5 rootD 0 _ _ rfl lx4_perm, pathOf_value]
  refine congrArg some ?_
  show findPath gD (encodedPermGraphInv 2 4 lx4 posHash false 5) (permInvMap lx4) (encode 2 4 id4)
    (encode 2 4 [3, 2, 1, 0]) none (some 2) = _
  simp only [findPath, precomputeBfs, mitmFindPathFrom, mitmFindPathTo_eq, bfs_eq_bfsK]; decide +kernel

/-- the inverted copy itself (object 1: generators inverted, flag `false`), searched after the history: the path in the
INVERTED graph -/
theorem D_find_on_inverted :
    pathOf (view (step (instC 3) (run (instC 3) (fresh rootD) opsD) (opFindPath 1 [3, 2, 1, 0] { maxDiameter := some 2 })))
      = some (.found [1, 0, 0, 1]) := by
  obtain ⟨o, ho, hi⟩ := D_obj1_exists
  have hpD : ∀ p ∈ (invOf 3 rootD).defn.perms, Cv.Perm.IsPermOf (invOf 3 rootD).enc.n p :=
    inverse_perms 4 lx4 lx4_perm
  rw [session_spec 3 rootD opsD (opFindPath 1 [3, 2, 1, 0] { maxDiameter := some 2 }) o ho, hi,
    spec_findPath_not_ic 3 (invOf 3 rootD) 1 [3, 2, 1, 0] { maxDiameter := some 2 } rfl hpD, pathOf_value]
  refine congrArg some ?_
  show findPath gDi (encodedPermGraphInv 2 4 (lx4.map Cv.Perm.inverse) posHash false 3)
    (permInvMap (lx4.map Cv.Perm.inverse)) (encode 2 4 id4) (encode 2 4 [3, 2, 1, 0]) none (some 2) = _
  simp only [findPath, precomputeBfs, mitmFindPathFrom, mitmFindPathTo_eq, bfs_eq_bfsK]; decide +kernel


/-! ### `hp` is needed to identify the session's `find_path` with `Cv.findPath g gi` -/

/-- a "generator" that is not a permutation; flag not set -/
def rootJ : IImm := ⟨⟨[[1, 1, 0]], [0, 1, 2], false⟩, ⟨2, 3⟩, posHash, 3⟩

/-- for a generator list that is not a list of permutations the inverted copy of the inverted copy is another graph
(`inverse (inverse [1, 1, 0]) = [2, 1, 0]`), and the code's `find_path` (which works with it) differs from `Cv.findPath`
(which works with the graph itself) -/
theorem J_hp_needed :
    Cv.Perm.inverse (Cv.Perm.inverse [1, 1, 0]) = [2, 1, 0] ∧
    pathOf (view (step (instC 3) (fresh rootJ) (opFindPath 0 [2, 1, 0] { maxDiameter := some 1 }))) =
      some (.found [0]) ∧
    findPath (graphOf rootJ) (graphOf (invOf 3 rootJ)) (permInvMap rootJ.defn.perms) (centralOf rootJ)
      (encOf rootJ [2, 1, 0]) none (some 1) = .assertFail "Not found any neighbor on previous layer." := by
  refine ⟨by decide, ?_, ?_⟩
  · have h := session_spec_root 3 rootJ [] (opFindPath 0 [2, 1, 0] { maxDiameter := some 1 }) rfl
    rw [show step (instC 3) (fresh rootJ) (opFindPath 0 [2, 1, 0] { maxDiameter := some 1 }) =
      step (instC 3) (run (instC 3) (fresh rootJ) []) (opFindPath 0 [2, 1, 0] { maxDiameter := some 1 }) from rfl, h,
      spec_findPath_not_ic_raw 3 rootJ 0 _ _ rfl, pathOf_value]
    refine congrArg some ?_
    simp only [mitmFindPathTo_eq, bfs_eq_bfsK]; decide +kernel
  · simp only [findPath, precomputeBfs, mitmFindPathFrom, mitmFindPathTo_eq, bfs_eq_bfsK]; decide +kernel

end Cv.SessionInst.Example
