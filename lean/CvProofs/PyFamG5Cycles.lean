/-
  G5: the generated `permutation_from_cycles` on cycle lists of naturals = the hand-written model
  `Cv.Perm.fromCycles`; in particular for lists of disjoint adjacent 2-cycles.
-/
import CvGen.PyPerm
import CvProofs.PyLemmasG5
import CvProofs.FamiliesCycles
namespace Cv.PyG5
open Cv.Py Cv.PyGen Cv.GraphDef Cv.Families Cv.Perm

/-- inner loop body of the generated `permutation_from_cycles` -/
def pfcBody (n : Int) (cycle : List Int) (perm : List Int) (i : Int) : Option (List Int) := do
  let t_1 ← pyGet cycle i
  pyAssert (decide ((0 : Int) ≤ t_1) && decide (t_1 < n))
  let t_2 ← pyGet cycle i
  let t_3 ← pyGet perm t_2
  let t_4 ← pyGet cycle i
  pyAssert ((t_3 == t_4))
  let t_5 ← pyMod (i + (1 : Int)) (pyLen cycle)
  let t_6 ← pyGet cycle t_5
  let t_7 ← pyGet cycle i
  let perm ← pySet perm t_7 t_6
  pure perm

theorem pfc_unfold (n : Int) (cycles : List (List Int)) (offset : Int) :
    Cv.PyGen.Perm.permutation_from_cycles n cycles offset =
      List.foldlM (fun st cycle => List.foldlM (pfcBody n cycle) st (pyRange 0 (pyLen cycle) 1))
        (pyRange 0 n 1) (List.map (fun y => List.map (fun x => x - offset) y) cycles) := by
  unfold Cv.PyGen.Perm.permutation_from_cycles pfcBody
  simp only [Option.bind_eq_bind, Option.pure_def, Option.bind_fun_some]

theorem getD_toI (c : List Nat) (k : Nat) (h : k < c.length) :
    (toI c).getD k 0 = ((c.getD k 0 : Nat) : Int) := by
  simp [toI, List.getD_eq_getElem?_getD, h]

theorem wcStep_length (n : Nat) (cycle : List Int) (P Q : List Nat) (k : Nat)
    (h : wcStep n cycle P k = some Q) : Q.length = P.length := by
  unfold wcStep at h
  simp only at h
  split at h
  · simp only [Option.some.injEq] at h; rw [← h]; simp
  · simp at h

theorem pfcBody_toI (n : Nat) (c : List Nat) (P : List Nat) (hP : P.length = n) (k : Nat)
    (hk : k < c.length) :
    pfcBody (n : Int) (toI c) (toI P) (k : Int) = (wcStep n (toI c) P k).map toI := by
  unfold pfcBody wcStep
  have hlen : 0 < c.length := by omega
  rw [pyGet_toI _ _ hk, getD_toI _ _ hk, getD_toI _ _ (by simp; exact Nat.mod_lt _ hlen)]
  simp only [Option.bind_eq_bind, Option.bind_some, pyAssert, Int.natCast_nonneg, decide_true,
    Bool.true_and, decide_eq_true_eq, Int.toNat_natCast, true_and, length_toI]
  have hm : pyMod ((k : Int) + 1) (pyLen (toI c)) = some (((k + 1) % c.length : Nat) : Int) := by
    unfold pyMod pyLen
    rw [length_toI]
    have : ¬ ((c.length : Int) = 0) := by omega
    simp only [this, if_false, Option.some.injEq]
    rw [Int.fmod_eq_emod_of_nonneg _ (by omega)]
    rw [Int.natCast_emod]; rfl
  generalize c.getD k 0 = v
  generalize hw : c.getD ((k + 1) % c.length) 0 = w
  by_cases h1 : v < n
  · have h1' : (v : Int) < (n : Int) := by omega
    rw [if_pos h1', Option.bind_some, pyGet_toI _ _ (by omega), Option.bind_some, hm]
    by_cases h2 : P.getD v 0 = v
    · have h2' : (((P.getD v 0 : Nat) : Int) == (v : Int)) = true := by
        simp only [beq_iff_eq]; omega
      rw [if_pos h2', if_pos ⟨h1', h2⟩, Option.bind_some, Option.bind_some,
        pyGet_toI _ _ (Nat.mod_lt _ hlen), Option.bind_some, pySet_toI _ _ _ (by omega), hw]
      rfl
    · have h2' : ¬ (((P.getD v 0 : Nat) : Int) == (v : Int)) = true := by
        simp only [beq_iff_eq]; omega
      rw [if_neg h2', if_neg (fun h => h2 h.2)]
      rfl
  · have h1' : ¬ (v : Int) < (n : Int) := by omega
    rw [if_neg h1', if_neg (fun h => h1' h.1)]
    rfl

theorem pfcInner_toI (n : Nat) (c : List Nat) (P : List Nat) (hP : P.length = n) (m : Nat)
    (hm : m ≤ c.length) :
    List.foldlM (pfcBody (n : Int) (toI c)) (toI P) (toI (List.range m)) =
      ((List.range m).foldlM (wcStep n (toI c)) P).map toI := by
  induction m with
  | zero => rfl
  | succ j ih =>
    rw [List.range_succ]
    simp only [toI, List.map_append, List.foldlM_append, List.map_cons, List.map_nil] at ih ⊢
    rw [ih (by omega)]
    cases hq : List.foldlM (wcStep n (List.map Int.ofNat c)) P (List.range j) with
    | none => rfl
    | some Q =>
      have hQ : Q.length = n := by
        have : ∀ (l : List Nat) (P Q : List Nat),
            List.foldlM (wcStep n (List.map Int.ofNat c)) P l = some Q → Q.length = P.length := by
          intro l
          induction l with
          | nil => intro P Q h; simp at h; rw [h]
          | cons a t iht =>
            intro P Q h
            simp only [List.foldlM_cons, Option.bind_eq_bind] at h
            cases hs : wcStep n (List.map Int.ofNat c) P a with
            | none => rw [hs] at h; simp at h
            | some R =>
              rw [hs] at h
              rw [iht R Q h]; exact wcStep_length _ _ _ _ _ hs
        rw [this _ _ _ hq]; exact hP
      simp only [Option.map_some, Option.bind_eq_bind, Option.bind_some, List.foldlM_cons,
        List.foldlM_nil]
      have := pfcBody_toI n c Q hQ j (by omega)
      simp only [toI] at this
      rw [Int.ofNat_eq_natCast]
      show ((pfcBody (↑n) (List.map Int.ofNat c) (List.map Int.ofNat Q) ↑j).bind fun init => pure init) = _
      rw [this]
      cases wcStep n (List.map Int.ofNat c) Q j <;> rfl

theorem foldlM_wcStep_length (n : Nat) (cyc : List Int) (l : List Nat) (P Q : List Nat)
    (h : List.foldlM (wcStep n cyc) P l = some Q) : Q.length = P.length := by
  induction l generalizing P with
  | nil => simp at h; rw [h]
  | cons a t iht =>
    simp only [List.foldlM_cons, Option.bind_eq_bind] at h
    cases hs : wcStep n cyc P a with
    | none => rw [hs] at h; simp at h
    | some R =>
      rw [hs] at h
      rw [iht R h]; exact wcStep_length _ _ _ _ _ hs

/-- the generated `permutation_from_cycles` on cycles of naturals (offset 0) is the model `fromCycles` -/
theorem pfc_eq_fromCycles (n : Nat) (cs : List (List Nat)) :
    Cv.PyGen.Perm.permutation_from_cycles (n : Int) (cs.map toI) 0 =
      (fromCycles n (cs.map toI) 0).map toI := by
  rw [pfc_unfold, pyRange_zero_nat]
  unfold fromCycles
  have e : ∀ l : List (List Int), List.map (fun y => List.map (fun x => x - (0 : Int)) y) l = l := by
    intro l
    have : (fun y : List Int => List.map (fun x => x - (0 : Int)) y) = id := by
      funext y; simp
    rw [this]; simp
  rw [e]
  have key : ∀ (P : List Nat), P.length = n →
      List.foldlM (fun st cycle => List.foldlM (pfcBody (n : Int) cycle) st (pyRange 0 (pyLen cycle) 1))
        (toI P) (cs.map toI) =
      (List.foldlM (fun perm c => writeCycle n c perm) P (cs.map toI)).map toI := by
    induction cs with
    | nil => intro P _; rfl
    | cons c t ih =>
      intro P hP
      simp only [List.map_cons, List.foldlM_cons, Option.bind_eq_bind]
      have hr : pyRange 0 (pyLen (toI c)) 1 = toI (List.range c.length) := by
        unfold pyLen; rw [length_toI, pyRange_zero_nat]
      rw [hr, pfcInner_toI n c P hP c.length (Nat.le_refl _), writeCycle_eq, length_toI]
      cases hq : List.foldlM (wcStep n (toI c)) P (List.range c.length) with
      | none => rfl
      | some Q =>
        simp only [Option.map_some, Option.bind_some]
        exact ih Q (by rw [foldlM_wcStep_length _ _ _ _ _ hq]; exact hP)
  exact key _ (by simp)

/-- `permutation_from_cycles(n, cs)` (generated) for disjoint in-range cycles `cs`, described by a point
function `f` that maps every cycle entry to the next one and fixes all other points -/
theorem pfc_eq (n : Nat) (cs : List (List Nat)) (f : Nat → Nat) (hnd : cs.flatten.Nodup)
    (hlt : ∀ v ∈ cs.flatten, v < n)
    (hf : ∀ c ∈ cs, ∀ t, t < c.length → f (c.getD t 0) = c.getD ((t + 1) % c.length) 0)
    (hfix : ∀ p, p < n → p ∉ cs.flatten → f p = p) :
    Cv.PyGen.Perm.permutation_from_cycles (n : Int) (cs.map toI) 0 = some (toI (oneLine n f)) := by
  rw [pfc_eq_fromCycles]
  have := fromCycles_eq n cs f hnd hlt hf hfix
  show Option.map toI (fromCycles n (cs.map (·.map Int.ofNat))) = _
  rw [this]; rfl

/-! ### disjoint adjacent 2-cycles `[[r, r+1], [r+2, r+3], …]` -/

/-- `[[r, r+1], [r+2, r+3], …, [r+2c-2, r+2c-1]]` -/
def adjCycles (r c : Nat) : List (List Nat) := (List.range c).map fun k => [r + 2 * k, r + 2 * k + 1]

theorem adjCycles_succ (r c : Nat) :
    adjCycles r (c + 1) = adjCycles r c ++ [[r + 2 * c, r + 2 * c + 1]] := by
  simp [adjCycles, List.range_succ]

theorem adjCycles_flatten (r c : Nat) : (adjCycles r c).flatten = List.range' r (2 * c) := by
  induction c with
  | zero => rfl
  | succ c ih =>
    rw [adjCycles_succ, List.flatten_append, ih]
    have : 2 * (c + 1) = 2 * c + 2 := by omega
    rw [this, ← List.range'_append_1]
    rfl

theorem pfc_adjCycles (n r c : Nat) (h : c = 0 ∨ r + 2 * c ≤ n) :
    Cv.PyGen.Perm.permutation_from_cycles (n : Int) ((adjCycles r c).map toI) 0 =
      some (toI (oneLine n (adjSwapsFn r (r + 2 * c)))) := by
  apply pfc_eq
  · rw [adjCycles_flatten]; exact List.nodup_range'
  · intro v hv; rw [adjCycles_flatten, List.mem_range'_1] at hv; omega
  · intro cy hcy t ht
    obtain ⟨k, hk, rfl⟩ := List.mem_map.1 hcy
    have hk := List.mem_range.1 hk
    simp only [List.length_cons, List.length_nil] at ht ⊢
    have : t = 0 ∨ t = 1 := by omega
    rcases this with rfl | rfl
    · simp only [List.getD_cons_zero, adjSwapsFn]
      show _ = [r + 2 * k, r + 2 * k + 1].getD 1 0
      simp only [List.getD_cons_succ, List.getD_cons_zero]
      pw
    · show adjSwapsFn r (r + 2 * c) ([r + 2 * k, r + 2 * k + 1].getD 1 0) = [r + 2 * k, r + 2 * k + 1].getD 0 0
      simp only [List.getD_cons_succ, List.getD_cons_zero, adjSwapsFn]
      pw
  · intro p hp hnm
    rw [adjCycles_flatten, List.mem_range'_1] at hnm
    simp only [adjSwapsFn]
    pw

/-- the swaps up to the last admissible pair are all the swaps below `n` -/
theorem adjSwaps_full (n r : Nat) :
    oneLine n (adjSwapsFn r (r + 2 * ((n - r) / 2))) = oneLine n (adjSwapsFn r n) := by
  apply oneLine_congr
  intro p hp
  simp only [adjSwapsFn]
  pw

/-- the cycle list `[[i, i+1] for i in range(r, n-1, 2)]` -/
theorem map_pair_pyRange (n r : Nat) :
    List.map (fun i => [i, i + (1 : Int)]) (pyRange (r : Int) ((n : Int) - 1) 2) =
      (adjCycles r ((n - r) / 2)).map toI := by
  rw [pyRange_two]
  have : (((n : Int) - 1 - (r : Int) + 1) / 2).toNat = (n - r) / 2 := by omega
  rw [this]
  simp only [adjCycles, List.map_map]
  apply List.map_congr_left
  intro k _
  simp only [Function.comp_apply, toI, List.map_cons, List.map_nil, Int.ofNat_eq_natCast,
    List.cons.injEq, and_true]
  omega

/-- `permutation_from_cycles(n, [[i, i+1] for i in range(r, n-1, 2)])` = the product of all adjacent
transpositions of parity class `r` -/
theorem pfc_adjSwaps (n r : Nat) :
    Cv.PyGen.Perm.permutation_from_cycles (n : Int)
        (List.map (fun i => [i, i + (1 : Int)]) (pyRange (r : Int) ((n : Int) - 1) 2)) 0 =
      some (toI (oneLine n (adjSwapsFn r n))) := by
  rw [map_pair_pyRange]
  rw [pfc_adjCycles n r _ (by omega), adjSwaps_full]

end Cv.PyG5
