/-
  Proofs about `CvModel/Bitmask.lean`, part 6: the prefix tables.  The model writes `model_prefixes[rank]` as
  `Cv.lexUnrank R (range R) rank`; here: this IS the `rank`-th element of `itertools.permutations(range(R))` as modelled by
  `Cv.Perm.permsOf` (the frozen model of `itertools.permutations` used for C10).  Core Lean only.
-/
import CvProofs.BitmaskPaint
namespace Cv.Bitmask
open Cv.Perm

theorem fact_eq_factM (n : Nat) : fact n = Cv.factM n := rfl

/-- `picks` enumerates the positions in order -/
theorem picks_eq (l : List Nat) : picks l = (List.range l.length).map fun i => (l.getD i 0, l.eraseIdx i) := by
  induction l with
  | nil => rfl
  | cons a t ih =>
    rw [picks, ih, List.length_cons, List.range_succ_eq_map, List.map_cons, List.map_map, List.map_map]
    simp only [List.getD_cons_zero, List.eraseIdx_cons_zero]
    congr 1

/-- `range (m * f)` in `m` blocks of length `f` -/
theorem range_mul (m f : Nat) :
    List.range (m * f) = (List.range m).flatMap fun i => (List.range f).map fun j => i * f + j := by
  induction m with
  | zero => simp
  | succ m ih =>
    have hr : List.range (m + 1) = List.range m ++ [m] := List.range_succ
    rw [Nat.succ_mul, List.range_add, ih, hr, List.flatMap_append]
    simp

theorem flatMap_congr' {α β : Type} (l : List α) (f g : α → List β) (h : ∀ a ∈ l, f a = g a) :
    l.flatMap f = l.flatMap g := by
  induction l with
  | nil => rfl
  | cons a t ih =>
    rw [List.flatMap_cons, List.flatMap_cons, h a List.mem_cons_self,
      ih (fun b hb => h b (List.mem_cons_of_mem _ hb))]

/-- `itertools.permutations(l)` lists the arrangements of a list in the order of `lexUnrank` -/
theorem permsOf_eq_lexUnrank (m : Nat) : ∀ (fuel : Nat) (l : List Nat), l.length = m → m ≤ fuel →
    permsOf fuel l = (List.range (fact m)).map (Cv.lexUnrank m l) := by
  induction m with
  | zero =>
    intro fuel l hl _
    have : l = [] := List.length_eq_zero_iff.1 hl
    subst this
    cases fuel <;> rfl
  | succ m ih =>
    intro fuel l hl hf
    obtain ⟨fuel', rfl⟩ : ∃ fuel', fuel = fuel' + 1 := ⟨fuel - 1, by omega⟩
    have hne : l.isEmpty = false := by
      cases l with
      | nil => simp at hl
      | cons _ _ => rfl
    rw [permsOf]
    simp only [hne, Bool.false_eq_true, if_false]
    rw [picks_eq, List.flatMap_map, hl]
    have hfact : fact (m + 1) = (m + 1) * fact m := by
      rw [fact_eq_factM, Cv.factM_succ, Nat.mul_comm]; rfl
    rw [hfact, range_mul, List.map_flatMap]
    apply flatMap_congr'
    intro i hi
    have hi' : i < m + 1 := List.mem_range.1 hi
    have hlen : (l.eraseIdx i).length = m := by
      rw [List.length_eraseIdx, hl]; simp [hi']
    rw [ih fuel' (l.eraseIdx i) hlen (by omega), List.map_map, List.map_map]
    apply List.map_congr_left
    intro j hj
    have hj' : j < fact m := List.mem_range.1 hj
    simp only [Function.comp]
    rw [Cv.lexUnrank_succ, hl, Nat.add_sub_cancel, ← fact_eq_factM]
    have hpos : 0 < fact m := by rw [fact_eq_factM]; exact Cv.factM_pos m
    have e1 : (i * fact m + j) / fact m = i := by
      rw [Nat.mul_comm, Nat.mul_add_div hpos, Nat.div_eq_of_lt hj', Nat.add_zero]
    have e2 : (i * fact m + j) % fact m = j := by
      rw [Nat.mul_comm, Nat.mul_add_mod, Nat.mod_eq_of_lt hj']
    rw [e1, e2]

/-- `model_prefixes = list(itertools.permutations(range(R)))` is what the model's `prefixPerm` enumerates -/
theorem permsOf_range (R : Nat) :
    permsOf R (List.range R) = (List.range (fact R)).map (prefixPerm R) :=
  permsOf_eq_lexUnrank R R (List.range R) List.length_range (Nat.le_refl _)

theorem prefixPerm_getElem (R rank : Nat) (h : rank < fact R) :
    (permsOf R (List.range R))[rank]? = some (prefixPerm R rank) := by
  rw [permsOf_range, List.getElem?_map, List.getElem?_range h]; rfl

/-- every entry of the enumeration is an arrangement of the list -/
theorem lexUnrank_perm (m : Nat) (l : List Nat) (hl : l.length = m) (k : Nat) (hk : k < fact m) :
    (Cv.lexUnrank m l k).Perm l := by
  apply permsOf_spec m l _ (by omega)
  rw [permsOf_eq_lexUnrank m m l hl (Nat.le_refl _)]
  exact List.mem_map.2 ⟨k, List.mem_range.2 hk, rfl⟩

/-- rank inverts unrank on a strictly increasing alphabet -/
theorem lexRank_lexUnrank (m : Nat) : ∀ (avail : List Nat), avail.length = m → avail.Pairwise (· < ·) →
    ∀ k, k < fact m → Cv.lexRank (Cv.lexUnrank m avail k) = k := by
  induction m with
  | zero =>
    intro avail _ _ k hk
    have : k = 0 := by
      have : fact 0 = 1 := rfl
      omega
    subst this; rfl
  | succ m ih =>
    intro avail hl hs k hk
    have hpos : 0 < fact m := by rw [fact_eq_factM]; exact Cv.factM_pos m
    have hfact : fact (m + 1) = fact m * (m + 1) := by rw [fact_eq_factM, Cv.factM_succ]; rfl
    have hi : k / fact m < m + 1 := by
      apply Nat.div_lt_of_lt_mul; rw [← hfact]; exact hk
    have hj : k % fact m < fact m := Nat.mod_lt _ hpos
    rw [Cv.lexUnrank_succ, hl, Nat.add_sub_cancel, ← fact_eq_factM, Cv.lexRank_cons]
    have hlen' : (avail.eraseIdx (k / fact m)).length = m := by
      rw [List.length_eraseIdx, hl]; simp [hi]
    have hperm := lexUnrank_perm m (avail.eraseIdx (k / fact m)) hlen' (k % fact m) hj
    rw [hperm.length_eq, hlen', ← fact_eq_factM,
      ih (avail.eraseIdx (k / fact m)) hlen' (hs.sublist (List.eraseIdx_sublist _ _)) (k % fact m) hj]
    -- the number of remaining letters below the chosen one is its index
    have hcount : ((Cv.lexUnrank m (avail.eraseIdx (k / fact m)) (k % fact m)).filter
        (· < avail.getD (k / fact m) 0)).length = k / fact m := by
      rw [(hperm.filter _).length_eq]
      have hi' : k / fact m < avail.length := by rw [hl]; exact hi
      rw [getD_eq_getElem hi']
      -- split `avail` at the index
      have hsplit : avail = avail.take (k / fact m) ++ avail[k / fact m] :: avail.drop (k / fact m + 1) := by
        rw [List.getElem_cons_drop, List.take_append_drop]
      have herase : avail.eraseIdx (k / fact m) = avail.take (k / fact m) ++ avail.drop (k / fact m + 1) :=
        List.eraseIdx_eq_take_drop_succ _ _
      rw [herase, List.filter_append]
      have hs' := hs
      rw [hsplit, List.pairwise_append] at hs'
      obtain ⟨_, h2, h3⟩ := hs'
      have e1 : (avail.take (k / fact m)).filter (· < avail[k / fact m]) = avail.take (k / fact m) := by
        rw [List.filter_eq_self]
        intro a ha
        simpa using h3 a ha _ List.mem_cons_self
      have e2 : (avail.drop (k / fact m + 1)).filter (· < avail[k / fact m]) = [] := by
        rw [List.filter_eq_nil_iff]
        intro a ha
        have := (List.pairwise_cons.1 h2).1 a ha
        simp; omega
      rw [e1, e2, List.append_nil, List.length_take]
      omega
    rw [hcount]
    have := Nat.div_add_mod k (fact m)
    rw [Nat.mul_comm] at this
    exact this

/-- `PREFIX_MAP_2[PREFIX_MAP_1[rank]] = rank`: the two tables are inverse to each other (`R ≤ 8`) -/
theorem prefixMap2_prefixMap1 (R : Nat) (hR8 : R ≤ 8) (rank : Nat) (h : rank < fact R) :
    prefixMap2 R (prefixMap1 R rank) = rank := by
  have hperm : IsPermOf R (prefixPerm R rank) :=
    (isPermOf_iff_perm R _).2 (lexUnrank_perm R (List.range R) List.length_range rank h)
  have h1 : prefixMap1 R rank = pack 3 (prefixPerm R rank) := by
    unfold prefixMap1
    have := sum_shift_eq_pack 3 (prefixPerm R rank)
    rwa [hperm.length_eq] at this
  rw [h1, prefixMap2_pack R _ hperm hR8]
  exact lexRank_lexUnrank R (List.range R) List.length_range List.pairwise_lt_range rank h

/-! ### the keys of `chunk_map` are pairwise distinct (so "first chunk with this key" is the dictionary entry) -/

theorem partialPerms_nodup (r : Nat) (l : List Nat) (h : l.Nodup) : (partialPerms r l).Nodup := by
  induction r generalizing l with
  | zero => simp [partialPerms]
  | succ r ih =>
    simp only [partialPerms]
    apply nodup_flatMap'
    · intro p hp
      apply nodup_map_cons
      apply ih
      have := picks_spec l p.1 p.2 hp
      exact (List.nodup_cons.1 (this.nodup_iff.1 h)).2
    · have hp : ((picks l).map (·.1)).Nodup := by rw [picks_map_fst]; exact h
      rw [List.nodup_iff_pairwise_ne, List.pairwise_map] at hp
      apply hp.imp
      intro a b hab x hx hx'
      obtain ⟨y, _, rfl⟩ := List.mem_map.1 hx
      obtain ⟨z, _, e⟩ := List.mem_map.1 hx'
      simp only [List.cons.injEq] at e
      exact hab e.1.symm

theorem chunk_keys_nodup (n R : Nat) (hn : n ≤ 16) : ((staticChunks n R).map (·.encodedSuffix)).Nodup := by
  unfold staticChunks
  rw [List.map_map]
  refine (List.pairwise_map).2 ((partialPerms_nodup (n - R) (List.range n) List.nodup_range).imp_of_mem ?_)
  intro s t hs ht hne e
  apply hne
  obtain ⟨hsl, hslt⟩ := suffix_of_mem hs
  obtain ⟨htl, htlt⟩ := suffix_of_mem ht
  simp only [Function.comp] at e
  rw [encodedSuffix_eq n R s hsl, encodedSuffix_eq n R t htl] at e
  have h' := Nat.eq_of_mul_eq_mul_left (Nat.pow_pos (by omega)) e
  exact pack_injective 4 s t (fun v hv => Nat.lt_of_lt_of_le (hslt v hv) hn)
    (fun v hv => Nat.lt_of_lt_of_le (htlt v hv) hn) (by rw [hsl, htl]) h'

/-- the number of chunks is `n! / R!` written multiplicatively (the source asserts `chunks_num * CHUNK_SIZE == n!`) -/
theorem length_partialPerms (r : Nat) : ∀ l : List Nat, r ≤ l.length →
    (partialPerms r l).length * fact (l.length - r) = fact l.length := by
  induction r with
  | zero => intro l _; simp [partialPerms]
  | succ r ih =>
    intro l hl
    simp only [partialPerms]
    rw [List.length_flatMap, picks_eq, List.map_map]
    have hconst : ∀ i ∈ List.range l.length,
        ((fun p : Nat × List Nat => ((partialPerms r p.2).map (p.1 :: ·)).length) ∘
          fun i => (l.getD i 0, l.eraseIdx i)) i * fact (l.length - (r + 1)) = fact (l.length - 1) := by
      intro i hi
      have hi' := List.mem_range.1 hi
      simp only [Function.comp, List.length_map]
      have hlen : (l.eraseIdx i).length = l.length - 1 := by rw [List.length_eraseIdx]; simp [hi']
      have := ih (l.eraseIdx i) (by rw [hlen]; omega)
      rw [hlen] at this
      have e : l.length - 1 - r = l.length - (r + 1) := by omega
      rw [e] at this
      exact this
    have hsum : ∀ (L : List Nat) (f : Nat → Nat) (c d : Nat), (∀ i ∈ L, f i * c = d) →
        (L.map f).sum * c = L.length * d := by
      intro L f c d h
      induction L with
      | nil => simp
      | cons a t iht =>
        rw [List.map_cons, List.sum_cons, Nat.add_mul, h a List.mem_cons_self,
          iht (fun i hi => h i (List.mem_cons_of_mem _ hi)), List.length_cons, Nat.succ_mul, Nat.add_comm]
    rw [hsum _ _ _ _ hconst, List.length_range]
    obtain ⟨m, hm⟩ : ∃ m, l.length = m + 1 := ⟨l.length - 1, by omega⟩
    rw [hm, Nat.add_sub_cancel, fact_eq_factM, fact_eq_factM, Cv.factM_succ, Nat.mul_comm]

theorem length_initChunks (n R : Nat) (hR : R ≤ n) : (initChunks n R).length * fact R = fact n := by
  have := length_partialPerms (n - R) (List.range n) (by simp)
  simp only [List.length_range] at this
  have e : n - (n - R) = R := by omega
  rw [e] at this
  unfold initChunks
  rw [List.length_map]; exact this

end Cv.Bitmask
