/-
  Proofs for the container / dtype normalisation model (`CvModel/Normalize.lean`), property C13.
-/
import CvModel.Normalize
namespace Cv.Normalize

/-! ### wrap, holds, stored -/

theorem wrap_of_inDtype (b : Nat) (s : Bool) (v : Int) (h : inDtype b s v = true) : wrap b s v = v := by
  unfold inDtype at h
  unfold wrap
  cases s with
  | true =>
    simp only [if_true, Bool.and_eq_true, decide_eq_true_eq] at h ⊢
    exact Int.bmod_eq_of_le_mul_two h.1 h.2
  | false =>
    simp only [Bool.false_eq_true, if_false, Bool.and_eq_true, decide_eq_true_eq] at h ⊢
    exact Int.emod_eq_of_lt h.1 h.2

theorem stored_of_holds (c : Container) (v : Int) (h : c.holds v = true) : c.stored v = v := by
  cases c with
  | pyList => rfl
  | npArray b s => exact wrap_of_inDtype b s v h
  | torchTensor b s => exact wrap_of_inDtype b s v h
  | str =>
    simp only [Container.holds, Bool.and_eq_true, decide_eq_true_eq] at h
    simp only [Container.stored]
    omega

theorem castInt64_of_inInt64 (v : Int) (h : inInt64 v = true) : castInt64 v = v :=
  wrap_of_inDtype 64 true v h

/-- a dtype that int64 contains: signed of at most 64 bits, unsigned of less than 64 bits -/
def widening (b : Nat) (s : Bool) : Prop := (s = true ∧ b ≤ 64) ∨ (s = false ∧ b < 64)

theorem inInt64_of_inDtype (b : Nat) (s : Bool) (hw : widening b s) (v : Int) (h : inDtype b s v = true) :
    inInt64 v = true := by
  unfold inInt64
  unfold inDtype at h ⊢
  simp only [if_true, Bool.and_eq_true, decide_eq_true_eq]
  rcases hw with ⟨rfl, hb⟩ | ⟨rfl, hb⟩
  · simp only [if_true, Bool.and_eq_true, decide_eq_true_eq] at h
    have : (2 ^ b : Nat) ≤ 2 ^ 64 := Nat.pow_le_pow_right (by omega) hb
    omega
  · simp only [Bool.false_eq_true, if_false, Bool.and_eq_true, decide_eq_true_eq] at h
    have : (2 ^ b : Nat) ≤ 2 ^ 63 := Nat.pow_le_pow_right (by omega) (by omega)
    omega

/-! ### the cast -/

theorem holds_of_fits (i : Input) (h : fits i = true) : ∀ v ∈ i.values, i.container.holds v = true := by
  intro v hv
  unfold fits at h
  rw [List.all_eq_true] at h
  have := h v hv
  simp only [Bool.and_eq_true] at this
  exact this.1

/-- on representable values the cast only depends on the values, not on the container -/
theorem asInt64_of_fits (i : Input) (h : fits i = true) : asInt64 i = i.values.map castInt64 := by
  unfold asInt64
  apply List.map_congr_left
  intro v hv
  rw [stored_of_holds _ _ (holds_of_fits i h v hv)]

/-- the cast is the identity on representable values that are int64 values … -/
theorem asInt64_eq_values (i : Input) (h : fits i = true) (h64 : ∀ v ∈ i.values, inInt64 v = true) :
    asInt64 i = i.values := by
  rw [asInt64_of_fits i h]
  have : ∀ v ∈ i.values, castInt64 v = v := fun v hv => castInt64_of_inInt64 v (h64 v hv)
  rw [List.map_congr_left this, List.map_id']

/-- … which is automatic for Python lists (checked by `fits`) and for every dtype contained in int64 -/
theorem asInt64_eq_values_of_widening (i : Input) (h : fits i = true)
    (hc : match i.container with
      | .npArray b s => widening b s
      | .torchTensor b s => widening b s
      | _ => True) :
    asInt64 i = i.values := by
  apply asInt64_eq_values i h
  intro v hv
  have hh := holds_of_fits i h v hv
  unfold fits at h
  rw [List.all_eq_true] at h
  have hf := h v hv
  rcases i with ⟨c, sh, vals⟩
  cases c with
  | pyList => exact (by simpa using hf : _ ∧ inInt64 v = true).2
  | npArray b s => exact inInt64_of_inDtype b s hc v hh
  | torchTensor b s => exact inInt64_of_inDtype b s hc v hh
  | str =>
    simp only [Container.holds, Bool.and_eq_true, decide_eq_true_eq] at hh
    simp only [inInt64, inDtype, if_true, Bool.and_eq_true, decide_eq_true_eq]
    omega

/-! ### the rows -/

theorem normalizeStates_of_fits (stateSize : Nat) (i : Input) (h : fits i = true) :
    normalizeStates stateSize i =
      if i.container = .str then none
      else if stateSize = 0 then none
      else if i.values.length % stateSize = 0 then
        some (chunk stateSize (i.values.length / stateSize) (i.values.map castInt64))
      else none := by
  unfold normalizeStates
  rw [asInt64_of_fits i h, h]
  simp

/-- C13, states: the rows only depend on the row-major values — not on the container kind, its dtype or the shape —
as long as the values are representable; a `str` is rejected by `torch.as_tensor`, so both inputs must be strings
or neither -/
theorem normalize_congr' (stateSize : Nat) (i j : Input) (hi : fits i = true) (hj : fits j = true)
    (hv : i.values = j.values) (hs : i.container = .str ↔ j.container = .str) :
    normalizeStates stateSize i = normalizeStates stateSize j := by
  rw [normalizeStates_of_fits stateSize i hi, normalizeStates_of_fits stateSize j hj, hv]
  by_cases h : j.container = .str
  · rw [if_pos (hs.2 h), if_pos h]
  · rw [if_neg (fun h' => h (hs.1 h')), if_neg h]

theorem normalizeCentral_of_fits (i : Input) (h : ∀ v ∈ i.values, i.container.holds v = true) :
    normalizeCentral i = i.values := by
  unfold normalizeCentral
  rw [List.map_congr_left (fun v hv => stored_of_holds _ _ (h v hv)), List.map_id']

theorem normalizeCentral_congr' (i j : Input) (hi : fits i = true) (hj : fits j = true)
    (hv : i.values = j.values) : normalizeCentral i = normalizeCentral j := by
  rw [normalizeCentral_of_fits i (holds_of_fits i hi), normalizeCentral_of_fits j (holds_of_fits j hj), hv]

theorem normalizeGens_congr' (i j : Input) (hi : fits i = true) (hj : fits j = true)
    (hv : i.values = j.values) (hsh : i.shape = j.shape) (hs : i.container = .str ↔ j.container = .str) :
    normalizeGens i = normalizeGens j := by
  have h1 : i.values.map i.container.stored = i.values := normalizeCentral_of_fits i (holds_of_fits i hi)
  have h2 : j.values.map j.container.stored = j.values := normalizeCentral_of_fits j (holds_of_fits j hj)
  unfold normalizeGens
  rw [h1, h2, hsh, hv]
  by_cases h : j.container = .str
  · simp [hs.2 h, h]
  · have h' : ¬ i.container = .str := fun h' => h (hs.1 h')
    simp [h', h]

/-! ### sanity of `chunk` -/

theorem chunk_length {α : Type} (w rows : Nat) (l : List α) : (chunk w rows l).length = rows := by
  induction rows generalizing l with
  | zero => rfl
  | succ r ih => simp [chunk, ih]

theorem chunk_rows {α : Type} (w rows : Nat) (l : List α) (h : l.length = rows * w) :
    (∀ row ∈ chunk w rows l, row.length = w) ∧ (chunk w rows l).flatten = l := by
  induction rows generalizing l with
  | zero =>
    simp only [Nat.zero_mul, List.length_eq_zero_iff] at h
    subst h
    simp [chunk]
  | succ r ih =>
    have hl : (l.drop w).length = r * w := by
      rw [List.length_drop, h, Nat.succ_mul]; omega
    obtain ⟨ih1, ih2⟩ := ih (l.drop w) hl
    constructor
    · intro row hr
      simp only [chunk, List.mem_cons] at hr
      rcases hr with rfl | hr
      · rw [List.length_take, h, Nat.succ_mul]; omega
      · exact ih1 row hr
    · simp only [chunk, List.flatten_cons, ih2, List.take_append_drop]

/-- when `normalizeStates` succeeds the rows have the state size and together are the cast values -/
theorem normalizeStates_rows (stateSize : Nat) (i : Input) (rows : List (List Int))
    (h : normalizeStates stateSize i = some rows) :
    (∀ row ∈ rows, row.length = stateSize) ∧ rows.flatten = asInt64 i ∧
      rows.length * stateSize = i.values.length := by
  unfold normalizeStates at h
  split at h; · cases h
  split at h; · cases h
  split at h; · cases h
  simp only at h
  split at h
  · rename_i hm
    cases h
    have hlen : (asInt64 i).length = (asInt64 i).length / stateSize * stateSize := by
      have := Nat.div_add_mod (asInt64 i).length stateSize
      rw [hm, Nat.add_zero, Nat.mul_comm] at this
      exact this.symm
    obtain ⟨h1, h2⟩ := chunk_rows stateSize _ (asInt64 i) hlen
    refine ⟨h1, h2, ?_⟩
    rw [chunk_length, ← hlen]
    simp [asInt64]
  · cases h

/-! ### the encoder on narrow tensors -/

/-- on an int64 tensor the narrow encoder IS the encoder -/
theorem encodeNarrow_64 (w n : Nat) (s : List Nat) : encodeNarrow 64 w n s = Cv.Codec.encode w n s := by
  unfold encodeNarrow Cv.Codec.encode
  simp only [BitVec.signExtend_eq]

theorem widenRow_eq (bits : Nat) (hb1 : 0 < bits) (hb2 : bits ≤ 64) (s : List Nat)
    (hs : ∀ v ∈ s, v < 2 ^ (bits - 1)) : widenRow bits s = s := by
  unfold widenRow
  have hfit : fits ⟨.torchTensor bits true, .oneRow, s.map Int.ofNat⟩ = true := by
    unfold fits
    rw [List.all_eq_true]
    intro v hv
    simp only [List.mem_map] at hv
    obtain ⟨x, hx, rfl⟩ := hv
    have hx' := hs x hx
    have hp : 2 ^ bits = 2 * 2 ^ (bits - 1) := by
      conv => lhs; rw [show bits = (bits - 1) + 1 by omega, Nat.pow_succ]
      omega
    have h1 : (Container.torchTensor bits true).holds (Int.ofNat x) = true := by
      simp only [Container.holds, inDtype, if_true, Bool.and_eq_true, decide_eq_true_eq, Int.ofNat_eq_natCast]
      rw [hp]
      constructor <;> omega
    have h2 : (Container.torchTensor bits true != Container.pyList || inInt64 (Int.ofNat x)) = true := by
      have : (Container.torchTensor bits true != Container.pyList) = true := by simp
      rw [this, Bool.true_or]
    rw [h1, h2]; rfl
  rw [asInt64_eq_values_of_widening _ hfit (Or.inl ⟨rfl, hb2⟩)]
  simp only [List.map_map]
  have : (Int.toNat ∘ Int.ofNat) = id := by funext x; rfl
  rw [this, List.map_id]

/-- the fix: encoding the row AFTER the cast to int64 is the encoder of the model, whatever the (signed) dtype the
row was given in -/
theorem encode_widen' (bits : Nat) (hb : bits ∈ [8, 16, 32, 64]) (w n : Nat) (s : List Nat)
    (hs : ∀ v ∈ s, v < 2 ^ (bits - 1)) :
    encodeNarrow 64 w n (widenRow bits s) = Cv.Codec.encode w n s := by
  have hb1 : 0 < bits ∧ bits ≤ 64 := by
    simp only [List.mem_cons, List.not_mem_nil, or_false] at hb
    omega
  rw [widenRow_eq bits hb1.1 hb1.2 s hs, encodeNarrow_64]

/-! ### when the narrow encoder happens to be right: the whole row stays below the sign bit -/

theorem testBit_one' (m : Nat) : Nat.testBit 1 m = decide (m = 0) := by
  cases m with
  | zero => rfl
  | succ m =>
    have : ¬ (Nat.testBit 1 (m+1) = true) := fun h => by
      have := Nat.testBit_one_eq_true_iff_self_eq_zero.mp h
      omega
    simpa using this

/-- one term of the encoder: computed in a `bits`-wide signed dtype and promoted, it equals the int64 term as long as
the target position `j` is below the sign bit of the narrow dtype -/
theorem narrow_bit (bits x k j : Nat) (hk : k < bits) (hj : j + 1 < bits) (hb : bits ≤ 64) :
    ((((BitVec.ofNat bits x).sshiftRight k) &&& 1#bits) <<< j).signExtend 64 =
      (((BitVec.ofNat 64 x).sshiftRight k) &&& 1#64) <<< j := by
  apply BitVec.eq_of_getLsbD_eq
  intro b hb'
  simp only [BitVec.getLsbD_signExtend, BitVec.getLsbD_shiftLeft, BitVec.getLsbD_and, BitVec.getLsbD_sshiftRight,
    BitVec.msb_eq_getLsbD_last, BitVec.getLsbD_ofNat, testBit_one']
  have e1 : (bits - 1 - j = 0) = False := by simp; omega
  by_cases hbj : b = j
  · subst hbj
    have : b < bits := by omega
    have hk64 : k < 64 := by omega
    have hne : ¬ bits = 0 := by omega
    have hpos : 0 < bits := by omega
    simp [this, hk, hk64, hb', hne, hpos]
  · by_cases hlt : b < j
    · simp [hlt]
      intro h; omega
    · have : ¬ (b - j = 0) := by omega
      simp [this, e1]

theorem foldl_congr_mem {α β : Type} (f g : β → α → β) (l : List α) (h : ∀ b, ∀ a ∈ l, f b a = g b a) (init : β) :
    l.foldl f init = l.foldl g init := by
  induction l generalizing init with
  | nil => rfl
  | cons a t ih =>
    rw [List.foldl_cons, List.foldl_cons, h init a (by simp), ih (fun b x hx => h b x (by simp [hx]))]

/-- the narrow encoder agrees with the encoder exactly when no bit of the row reaches the sign bit of the narrow
dtype: `w * n < bits` (the examples in `CvProps/C13.lean` show `w * n = bits` already fails) -/
theorem encodeNarrow_eq_of_lt (bits : Nat) (hb : bits ≤ 64) (w n : Nat) (h : w * n < bits) (s : List Nat) :
    encodeNarrow bits w n s = Cv.Codec.encode w n s := by
  unfold encodeNarrow Cv.Codec.encode
  apply foldl_congr_mem
  intro enc i hi
  rw [List.mem_range] at hi
  have hw : 0 < w := by
    rcases Nat.eq_zero_or_pos w with h0 | h0
    · subst h0; simp at hi
    · exact h0
  have hn : 0 < n := by
    rcases Nat.eq_zero_or_pos n with h0 | h0
    · subst h0; simp at hi
    · exact h0
  have hk : i % w < bits := by
    have h1 : i % w < w := Nat.mod_lt _ hw
    have h2 : w ≤ w * n := Nat.le_mul_of_pos_right w hn
    omega
  have hj : i % 64 + 1 < bits := by
    have : i % 64 ≤ i := Nat.mod_le _ _
    omega
  simp only
  rw [narrow_bit bits _ (i % w) (i % 64) hk hj hb]

end Cv.Normalize
