/-
  G4 — prelude lemmas and the key lemma: the source-translated `permutation_from_cycles` /
  `inverse_permutation` on lists of naturals equal the hand-written model (`Cv.Perm.fromCycles`,
  `Cv.Perm.inverse`).  Core Lean only.
-/
import CvGen.PyPerm
import CvModel.PyBridge
import CvProofs.FamiliesCycles
namespace Cv.PyG4
open Cv.Py Cv.PyGen

/-! ### prelude -/

theorem toI_length (l : List Nat) : (toI l).length = l.length := by simp [toI]

theorem pyRange_one (a b : Int) :
    pyRange a b 1 = (List.range (b - a).toNat).map fun (k : Nat) => a + (k : Int) := by
  unfold pyRange
  simp only [Int.zero_lt_one, if_true, Int.add_sub_cancel, Int.ediv_one, Int.one_mul]

/-- `list(range(a, b))` for naturals -/
theorem pyRange_nat (a b : Nat) : pyRange (a : Int) (b : Int) 1 = toI (List.range' a (b - a)) := by
  rw [pyRange_one]
  have : ((b : Int) - (a : Int)).toNat = b - a := by omega
  rw [this, List.range'_eq_map_range]
  simp [toI]

theorem pyRange_zero_nat (b : Nat) : pyRange 0 (b : Int) 1 = toI (List.range b) := by
  have := pyRange_nat 0 b
  simpa [List.range_eq_range'] using this

theorem pyGet_toI (l : List Nat) (i : Nat) : pyGet (toI l) (i : Int) = (l[i]?).map Int.ofNat := by
  unfold pyGet toI
  simp

theorem pyGet_toI_lt (l : List Nat) (i : Nat) (h : i < l.length) :
    pyGet (toI l) (i : Int) = some ((l.getD i 0 : Nat) : Int) := by
  rw [pyGet_toI, List.getD_eq_getElem?_getD, List.getElem?_eq_getElem h]
  simp

theorem pySet_toI (l : List Nat) (i v : Nat) (h : i < l.length) :
    pySet (toI l) (i : Int) (v : Int) = some (toI (l.set i v)) := by
  unfold pySet toI
  simp [h, List.map_set]

theorem pyMod_nat (a b : Nat) (hb : 0 < b) : pyMod (a : Int) (b : Int) = some (((a % b : Nat)) : Int) := by
  unfold pyMod
  rw [if_neg (by omega)]
  congr 1
  rw [Int.fmod_eq_emod_of_nonneg _ (by omega)]
  omega

/-! ### simulation of `foldlM` in `Option` -/

theorem foldlM_sim {α β γ : Type} (R : α → β → Prop) (f : α → γ → Option α) (g : β → γ → Option β)
    (l : List γ)
    (h : ∀ a b x, x ∈ l → R a b →
      (f a x = none ∧ g b x = none) ∨ ∃ a' b', f a x = some a' ∧ g b x = some b' ∧ R a' b') :
    ∀ a b, R a b → (l.foldlM f a = none ∧ l.foldlM g b = none) ∨
      ∃ a' b', l.foldlM f a = some a' ∧ l.foldlM g b = some b' ∧ R a' b' := by
  induction l with
  | nil => intro a b r; exact Or.inr ⟨a, b, rfl, rfl, r⟩
  | cons x t ih =>
    intro a b r
    rcases h a b x (List.mem_cons_self) r with ⟨h1, h2⟩ | ⟨a', b', h1, h2, r'⟩
    · left; simp [List.foldlM_cons, h1, h2]
    · simp only [List.foldlM_cons, h1, h2]
      exact ih (fun a b y hy => h a b y (List.mem_cons_of_mem _ hy)) a' b' r'

/-- a loop whose body always succeeds -/
theorem foldlM_some {α γ : Type} (f : α → γ → Option α) (g : α → γ → α) (l : List γ)
    (h : ∀ a x, x ∈ l → f a x = some (g a x)) (a : α) : l.foldlM f a = some (l.foldl g a) := by
  induction l generalizing a with
  | nil => rfl
  | cons x t ih =>
    simp only [List.foldlM_cons, List.foldl_cons, h a x List.mem_cons_self]
    exact ih (fun a y hy => h a y (List.mem_cons_of_mem _ hy)) _

/-! ### `permutation_from_cycles` -/

/-- the body of the inner loop of the translated `permutation_from_cycles` -/
def genStep (n : Int) (cycle : List Int) (st : List Int) (i : Int) : Option (List Int) := do
  let perm := st
  let t_1 ← pyGet cycle i
  pyAssert (decide ((0 : Int) ≤ t_1) && decide (t_1 < n))
  let t_2 ← pyGet cycle i
  let t_3 ← pyGet perm t_2
  let t_4 ← pyGet cycle i
  pyAssert ((t_3 == t_4))
  let t_5 ← pyMod (i + (1 : Int)) (pyLen cycle)
  let t_6 ← pyGet cycle t_5
  let t_7 ← pyGet cycle i
  let perm ← pySet perm t_7 t_6
  pure perm

/-- the body of the model's `writeCycle` -/
def modStep (n : Nat) (cycle : List Int) (perm : List Nat) (i : Nat) : Option (List Nat) :=
  let c := cycle.getD i 0
  let nxt := cycle.getD ((i + 1) % cycle.length) 0
  if 0 ≤ c ∧ c < (n : Int) ∧ perm.getD c.toNat 0 = c.toNat then
    some (perm.set c.toNat nxt.toNat)
  else none

theorem getD_toI (c : List Nat) (k : Nat) (hk : k < c.length) :
    (toI c).getD k 0 = ((c.getD k 0 : Nat) : Int) := by
  unfold toI
  simp [List.getD_eq_getElem?_getD, List.getElem?_eq_getElem hk]

theorem genStep_eq (n : Nat) (c P : List Nat) (k : Nat) (hk : k < c.length) (hP : P.length = n) :
    genStep (n : Int) (toI c) (toI P) (k : Int) = (modStep n (toI c) P k).map toI := by
  have hlen : 0 < c.length := by omega
  have hk' : (k + 1) % c.length < c.length := Nat.mod_lt _ hlen
  unfold genStep modStep
  simp only [toI_length, getD_toI c k hk, getD_toI c _ hk', pyGet_toI_lt c k hk, pyLen,
    Option.bind_eq_bind, Option.bind_some]
  have e1 : ((k : Int) + 1) = ((k + 1 : Nat) : Int) := by omega
  rw [e1, pyMod_nat _ _ hlen]
  simp only [Option.bind_some, pyGet_toI_lt c _ hk', Int.toNat_natCast]
  by_cases h1 : c.getD k 0 < n
  · have hd1 : (decide ((0 : Int) ≤ ((c.getD k 0 : Nat) : Int)) && decide (((c.getD k 0 : Nat) : Int) < (n : Int))) = true := by
      simp only [Bool.and_eq_true, decide_eq_true_eq]; omega
    rw [hd1]
    simp only [pyAssert, if_true, Option.bind_some]
    rw [pyGet_toI_lt P _ (by omega)]
    simp only [Option.bind_some]
    by_cases h2 : P.getD (c.getD k 0) 0 = c.getD k 0
    · have hc : (0 : Int) ≤ ((c.getD k 0 : Nat) : Int) ∧ ((c.getD k 0 : Nat) : Int) < (n : Int) ∧
          P.getD (c.getD k 0) 0 = c.getD k 0 := ⟨by omega, by omega, h2⟩
      have hb : ((((P.getD (c.getD k 0) 0 : Nat) : Int)) == ((c.getD k 0 : Nat) : Int)) = true := by
        rw [h2]; exact beq_self_eq_true _
      rw [hb, if_pos hc]
      simp only [if_true, Option.bind_some]
      rw [pySet_toI P _ _ (by omega)]
      rfl
    · have hc : ¬ ((0 : Int) ≤ ((c.getD k 0 : Nat) : Int) ∧ ((c.getD k 0 : Nat) : Int) < (n : Int) ∧
          P.getD (c.getD k 0) 0 = c.getD k 0) := fun h => h2 h.2.2
      have hb : ((((P.getD (c.getD k 0) 0 : Nat) : Int)) == ((c.getD k 0 : Nat) : Int)) = false := by
        rw [beq_eq_false_iff_ne]; omega
      rw [hb, if_neg hc]; rfl
  · have hd1 : (decide ((0 : Int) ≤ ((c.getD k 0 : Nat) : Int)) && decide (((c.getD k 0 : Nat) : Int) < (n : Int))) = false := by
      rw [Bool.and_eq_false_iff]; right; simp only [decide_eq_false_iff_not]; omega
    have hc : ¬ ((0 : Int) ≤ ((c.getD k 0 : Nat) : Int) ∧ ((c.getD k 0 : Nat) : Int) < (n : Int) ∧
        P.getD (c.getD k 0) 0 = c.getD k 0) := fun h => by omega
    rw [hd1, if_neg hc]
    rfl

theorem modStep_length (n : Nat) (cycle : List Int) (P Q : List Nat) (i : Nat)
    (h : modStep n cycle P i = some Q) : Q.length = P.length := by
  unfold modStep at h
  simp only at h
  split at h
  · cases h; simp
  · cases h

theorem writeCycle_eq_modStep (n : Nat) (cycle : List Int) (P : List Nat) :
    Cv.Perm.writeCycle n cycle P = (List.range cycle.length).foldlM (modStep n cycle) P := rfl

/-- inner loop -/
theorem inner_gen (n : Nat) (c P : List Nat) (hP : P.length = n) :
    (∃ Q, List.foldlM (genStep (n : Int) (toI c)) (toI P) (pyRange 0 (pyLen (toI c)) 1) = some (toI Q) ∧
      Cv.Perm.writeCycle n (toI c) P = some Q ∧ Q.length = n) ∨
    (List.foldlM (genStep (n : Int) (toI c)) (toI P) (pyRange 0 (pyLen (toI c)) 1) = none ∧
      Cv.Perm.writeCycle n (toI c) P = none) := by
  rw [writeCycle_eq_modStep, pyLen, toI_length, pyRange_zero_nat]
  unfold toI
  rw [List.foldlM_map]
  have := foldlM_sim (fun (a : List Int) (b : List Nat) => a = toI b ∧ b.length = n)
    (fun s (x : Nat) => genStep (n : Int) (toI c) s (Int.ofNat x)) (modStep n (toI c)) (List.range c.length)
    (by
      rintro a b x hx ⟨rfl, hb⟩
      have hx' : x < c.length := List.mem_range.1 hx
      have := genStep_eq n c b x hx' hb
      simp only [Int.ofNat_eq_natCast]
      rw [this]
      cases hm : modStep n (toI c) b x with
      | none => left; simp
      | some Q => right; exact ⟨toI Q, Q, rfl, rfl, rfl, (modStep_length _ _ _ _ _ hm).trans hb⟩)
    (toI P) P ⟨rfl, hP⟩
  rcases this with ⟨h1, h2⟩ | ⟨a', b', h1, h2, rfl, hb⟩
  · right; exact ⟨h1, h2⟩
  · left; exact ⟨b', h1, h2, hb⟩

/-- KEY LEMMA: the translated `permutation_from_cycles` on cycles of naturals, offset 0, is the model
`Cv.Perm.fromCycles` -/
theorem pfc_gen (n : Nat) (cs : List (List Nat)) :
    Perm.permutation_from_cycles (n : Int) (cs.map toI) 0 =
      (Cv.Perm.fromCycles n (cs.map (·.map Int.ofNat))).map toI := by
  unfold Perm.permutation_from_cycles Cv.Perm.fromCycles
  simp only [Int.sub_zero, List.map_id', Option.bind_eq_bind, Option.pure_def, Option.bind_fun_some]
  rw [pyRange_zero_nat]
  have := foldlM_sim (fun (a : List Int) (b : List Nat) => a = toI b ∧ b.length = n)
    (fun (st : List Int) (cycle : List Int) =>
      List.foldlM (genStep (n : Int) cycle) st (pyRange 0 (pyLen cycle) 1))
    (fun perm c => Cv.Perm.writeCycle n c perm) (cs.map toI)
    (by
      rintro a b x hx ⟨rfl, hb⟩
      obtain ⟨c, _, rfl⟩ := List.mem_map.1 hx
      rcases inner_gen n c b hb with ⟨Q, h1, h2, h3⟩ | ⟨h1, h2⟩
      · right; exact ⟨toI Q, Q, h1, h2, rfl, h3⟩
      · left; exact ⟨h1, h2⟩)
    (toI (List.range n)) (List.range n) ⟨rfl, by simp⟩
  have e : (cs.map (·.map Int.ofNat)) = cs.map toI := rfl
  rw [e]
  show List.foldlM (fun (st : List Int) (cycle : List Int) =>
      List.foldlM (genStep (n : Int) cycle) st (pyRange 0 (pyLen cycle) 1)) (toI (List.range n)) (cs.map toI) = _
  rcases this with ⟨h1, h2⟩ | ⟨a', b', h1, h2, rfl, _⟩
  · rw [h1, h2]; rfl
  · rw [h1, h2]; rfl

end Cv.PyG4
