/-
  Save / load (`CvModel/SaveLoad.lean`, C18) instantiated with the result of the BFS model on the bit-encoded permutation
  graph (`CvModel/InstanceSaveLoad.lean`).

  1. SHAPE of a BFS result, for EVERY graph, configuration and start list (no hypothesis on the hash, the flag or the
     batch size): `len(layers_hashes) ≤ len(layer_sizes)` and the keys of the stored layers are distinct.
  2. hence the saved form of every run is well formed (`WF`), round-trips through `save` / `load`, and `__eq__` on saved
     forms is field-wise equality.
  3. composed with `encoded_findPathTo_spec` (C04e): a path query answered from the LOADED result on a graph REBUILT from
     the loaded definition.
  Core Lean only.
-/
import CvModel.InstanceSaveLoad
import CvProofs.SaveLoad
import CvProofs.InstancePaths
namespace Cv.InstanceSaveLoad
open Cv Cv.SaveLoad Cv.Codec Cv.Instance

/-! ### 1. the shape of a BFS result -/

section shape
variable {α : Type}

/-- what the loop keeps true (`i` = index of the next layer): one hash tensor less than sizes while running, stored
layers have distinct keys below `i` -/
structure Shape (i : Nat) (s : BfsLoop α) : Prop where
  hlen : s.allH.length + (if s.completed = true then 0 else 1) ≤ s.sizes.length
  keysLt : ∀ p ∈ s.layers, p.1 < i
  keysNodup : (s.layers.map (·.1)).Nodup

theorem Shape.congr {i : Nat} {s s' : BfsLoop α} (h : Shape i s) (h1 : s'.allH = s.allH)
    (h2 : s'.completed = s.completed) (h3 : s'.sizes = s.sizes) (h4 : s'.layers = s.layers) : Shape i s' := by
  obtain ⟨a, b, c⟩ := h
  constructor <;> (simp only [h1, h2, h3, h4]) <;> assumption

theorem preState_allH_le (g : Graph α) (c : BfsCfg α) (s : BfsLoop α) :
    (preState g c s).allH.length ≤ s.allH.length + 1 := by
  rw [preState_allH]
  split
  · rw [List.length_append]; exact Nat.le_refl _
  · omega

theorem shape_post (g : Graph α) (c : BfsCfg α) (i : Nat) (s : BfsLoop α) (l2 : List α) (l2H : List Int)
    (hc : s.completed = false) (h : Shape i s) :
    Shape (i + 1) (postState g c i (preState g c s) l2 l2H) ∧
      (postState g c i (preState g c s) l2 l2H).completed = false := by
  have hl := h.hlen
  rw [hc] at hl
  simp only [Bool.false_eq_true, if_false] at hl
  have hcomp : (postState g c i (preState g c s) l2 l2H).completed = false := by
    rw [postState_completed, preState_completed]; exact hc
  refine ⟨⟨?_, ?_, ?_⟩, hcomp⟩
  · rw [hcomp, postState_allH, postState_sizes, preState_sizes, List.length_append]
    have := preState_allH_le g c s
    simp only [Bool.false_eq_true, if_false, List.length_singleton]
    omega
  · rw [postState_layers, preState_layers]
    intro p hp
    split at hp
    · rcases List.mem_append.1 hp with hp | hp
      · have := h.keysLt p hp; omega
      · rw [List.mem_singleton] at hp; subst hp; exact Nat.lt_succ_self i
    · have := h.keysLt p hp; omega
  · rw [postState_layers, preState_layers]
    split
    · rw [List.map_append, List.nodup_append]
      refine ⟨h.keysNodup, by simp, ?_⟩
      intro a ha b hb
      obtain ⟨p, hp, rfl⟩ := List.mem_map.1 ha
      simp only [List.map_cons, List.map_nil, List.mem_singleton] at hb
      subst hb
      have := h.keysLt p hp
      omega
    · exact h.keysNodup

theorem loop_shape (g : Graph α) (c : BfsCfg α) :
    ∀ fuel i (s : BfsLoop α), s.completed = false → Shape i s → ∃ i', Shape i' (bfsLoop g c fuel i s) := by
  intro fuel
  induction fuel with
  | zero => intro i s _ h; exact ⟨i, h⟩
  | succ fuel ih =>
    intro i s hc h
    rw [bfsLoop_succ]
    obtain ⟨hpost, hpc⟩ := shape_post g c i s (expandSel g c s).1 (expandSel g c s).2 hc h
    split
    · refine ⟨i, ?_, ?_, ?_⟩
      · have hl := h.hlen
        rw [hc] at hl
        simp only [Bool.false_eq_true, if_false] at hl
        have := preState_allH_le g c s
        show (preState g c s).allH.length + (if true = true then 0 else 1) ≤ (preState g c s).sizes.length
        rw [preState_sizes]
        simp only [if_true]
        omega
      · show ∀ p ∈ (preState g c s).layers, p.1 < i
        rw [preState_layers]; exact h.keysLt
      · show ((preState g c s).layers.map (·.1)).Nodup
        rw [preState_layers]; exact h.keysNodup
    · split
      · exact ⟨i + 1, hpost⟩
      · split
        · exact ih (i + 1) _ hpc hpost
        · split
          · exact ⟨i + 1, hpost.congr rfl rfl rfl rfl⟩
          · exact ih (i + 1) _ hpc (hpost.congr rfl rfl rfl rfl)

theorem shape_init (g : Graph α) (S : List α) : Shape 1 (bfsInit g S) :=
  ⟨by simp [bfsInit], by simp [bfsInit], by simp [bfsInit]⟩

theorem final_shape (g : Graph α) (c : BfsCfg α) (S : List α) : ∃ i, Shape i (bfsFinal g c S) :=
  loop_shape g c c.maxDiameter 1 (bfsInit g S) rfl (shape_init g S)

/-- **shape of `layers_hashes`**: never longer than `layer_sizes` (every graph, configuration, start list) -/
theorem bfs_hashes_le (g : Graph α) (c : BfsCfg α) (S : List α) :
    (bfs g c S).hashes.length ≤ (bfs g c S).layerSizes.length := by
  obtain ⟨i, h⟩ := final_shape g c S
  rw [bfs_hashes, bfs_layerSizes]
  have hl := h.hlen
  split
  · rename_i hcond
    rw [Bool.and_eq_true, Bool.not_eq_true'] at hcond
    rw [hcond.2] at hl
    simp only [Bool.false_eq_true, if_false] at hl
    rw [List.length_append]
    exact hl
  · split at hl <;> omega

/-- **shape of the stored layers**: their keys are distinct (every graph, configuration, start list) -/
theorem bfs_layers_keys_nodup (g : Graph α) (c : BfsCfg α) (S : List α) :
    ((bfs g c S).layers.map (·.1)).Nodup := by
  obtain ⟨i, h⟩ := final_shape g c S
  rw [bfs_layers]
  split
  · rename_i hcond
    rw [Bool.and_eq_true, Bool.not_eq_true'] at hcond
    rw [List.map_append, List.nodup_append]
    refine ⟨h.keysNodup, by simp, ?_⟩
    intro a ha b hb
    obtain ⟨p, hp, rfl⟩ := List.mem_map.1 ha
    simp only [List.map_cons, List.map_nil, List.mem_singleton] at hb
    subst hb
    intro e
    have hany : ((bfsFinal g c S).layers.any fun p => p.1 == (bfsFinal g c S).sizes.length - 1) = true :=
      List.any_eq_true.2 ⟨p, hp, by rw [e]; exact beq_self_eq_true _⟩
    rw [hany] at hcond
    exact absurd hcond.2 (by decide)
  · exact h.keysNodup

end shape

/-! ### 2. the saved form is well formed and round-trips -/

theorem length_decodeRow (w n : Nat) (x : List W) : (decodeRow w n x).length = n := by
  unfold decodeRow
  rw [List.length_map, length_decode]

theorem savedForm_keys (w n : Nat) (d : Cv.GraphDef.PermDef) (r : BfsOut (List W)) :
    (savedForm w n d r).layers.map (·.1) = r.layers.map (·.1) := by
  unfold savedForm
  simp only [List.map_map]
  rfl

theorem savedForm_rows (w n : Nat) (d : Cv.GraphDef.PermDef) (hcen : d.central.length = n) (r : BfsOut (List W)) :
    ∀ p ∈ (savedForm w n d r).layers, ∀ row ∈ p.2, row.length = (savedForm w n d r).central.length := by
  intro p hp row hrow
  obtain ⟨q, -, rfl⟩ := List.mem_map.1 hp
  obtain ⟨x, -, rfl⟩ := List.mem_map.1 hrow
  rw [length_decodeRow]; exact hcen.symm

theorem savedForm_keys_nodup (w n : Nat) (d : Cv.GraphDef.PermDef) (g : Graph (List W)) (c : BfsCfg (List W))
    (S : List (List W)) : ((savedForm w n d (bfs g c S)).layers.map (·.1)).Nodup := by
  rw [savedForm_keys]; exact bfs_layers_keys_nodup g c S

/-- the round trip needs no positivity of the state size -/
theorem savedForm_load_save (w n : Nat) (d : Cv.GraphDef.PermDef) (hg : ∀ p ∈ d.gens, p.length = n)
    (hcen : d.central.length = n) (g : Graph (List W)) (c : BfsCfg (List W)) (S : List (List W)) :
    load (save (savedForm w n d (bfs g c S))) = some (savedForm w n d (bfs g c S)) := by
  apply load_save_min
  · exact savedForm_rows w n d hcen _
  · exact fun p hp => by rw [hg p hp]; exact hcen.symm
  · exact bfs_hashes_le g c S

/-- `__eq__` on saved forms of two runs is field-wise equality (stored layers as dictionaries) -/
theorem savedForm_beq_iff (w n w' n' : Nat) (d d' : Cv.GraphDef.PermDef) (g g' : Graph (List W))
    (c c' : BfsCfg (List W)) (S S' : List (List W)) :
    beq (savedForm w n d (bfs g c S)) (savedForm w' n' d' (bfs g' c' S')) = true ↔
      (bfs g c S).completed = (bfs g' c' S').completed ∧ (bfs g c S).layerSizes = (bfs g' c' S').layerSizes ∧
      (∀ i L, (i, L) ∈ (savedForm w n d (bfs g c S)).layers ↔ (i, L) ∈ (savedForm w' n' d' (bfs g' c' S')).layers) ∧
      (bfs g c S).hashes = (bfs g' c' S').hashes ∧ (bfs g c S).edges = (bfs g' c' S').edges ∧
      d.gens = d'.gens ∧ d.names = d'.names ∧ d.central = d'.central ∧ d.name = d'.name :=
  beq_iff' _ _ (savedForm_keys_nodup w' n' d' g' c' S')

/-! ### 3. a path query answered from the loaded result, on a graph rebuilt from the loaded definition -/

/-- `find_path_to` reads the hasher and the generators only: the batch size of the graph does not matter -/
theorem findPathTo_batch (w n : Nat) (perms : List (List Nat)) (hash : List W → Int) (ic : Bool) (b1 b2 : Nat)
    (Hs : List (List Int)) (x : List W) :
    findPathTo (encodedPermGraph w n perms hash ic b1) (encodedPermGraphInv w n perms hash ic b1) Hs x =
      findPathTo (encodedPermGraph w n perms hash ic b2) (encodedPermGraphInv w n perms hash ic b2) Hs x := rfl

section query
variable (w n : Nat) (hw : 1 ≤ w) (hw' : w ≤ 64) (d : Cv.GraphDef.PermDef)
  (hp : ∀ p ∈ d.gens, Cv.Perm.IsPermOf n p) (hcen : d.central.length = n)
  (hash : List W → Int) (ic : Bool) (batch : Nat)
include hw hw' hp hcen

/-- the run whose result is saved: BFS from the encoded central state of the definition -/
local notation "RUN" c => bfs (encodedPermGraph w n d.gens hash ic batch) c [encode w n d.central]

/-- **C18e**: save the result of a BFS run (with `return_all_hashes`) from the central state, load it, REBUILD the graph
from the loaded definition (same encoding width, same hash function, any batch size) and ask `find_path_to` with the
loaded result: the answer is the answer the original graph gives with the original result, and it is a valid shortest
path of the mathematical graph / `None` exactly when the state is outside the stored ball -/
theorem loaded_findPathTo_spec (hinj : ∀ x y, Valid w n x → Valid w n y → hash x = hash y → x = y)
    (hic : ic = true → ∀ p ∈ d.gens, Cv.Perm.inverse p ∈ d.gens) (hb : 0 < batch)
    (c : BfsCfg (List W)) (hr : c.returnHashes = true) (hc : encodable w n d.central = true)
    (batch' : Nat) (q : List Nat) (hq : encodable w n q = true) :
    ∃ R', load (save (savedForm w n d (RUN c))) = some R' ∧
      R'.gens = d.gens ∧ R'.central = d.central ∧ R'.layersHashes = (RUN c).hashes ∧
      findPathTo (encodedPermGraph w n R'.gens hash ic batch') (encodedPermGraphInv w n R'.gens hash ic batch')
          R'.layersHashes (encode w n q) =
        findPathTo (encodedPermGraph w n d.gens hash ic batch) (encodedPermGraphInv w n d.gens hash ic batch)
          (RUN c).hashes (encode w n q) ∧
      match findPathTo (encodedPermGraph w n R'.gens hash ic batch') (encodedPermGraphInv w n R'.gens hash ic batch')
          R'.layersHashes (encode w n q) with
      | .found p => applyPath (genAct R'.gens) R'.central p = q ∧
          DistLayer (permGraphNb d.gens) [d.central] p.length q ∧ p.length < R'.layersHashes.length ∧
          ∀ i ∈ p, i < d.gens.length
      | .notFound => ∀ i, i < R'.layersHashes.length → ¬ DistLayer (permGraphNb d.gens) [d.central] i q
      | .assertFail _ => False := by
  refine ⟨_, savedForm_load_save w n d (fun p hp' => (hp p hp').length_eq) hcen _ c _, rfl, rfl, rfl,
    findPathTo_batch w n d.gens hash ic batch' batch _ _, ?_⟩
  obtain ⟨_, _, _, hball⟩ := encoded_ball w n hw hw' d.gens hp hash ic batch hinj hic hb c hr d.central hc
  exact encoded_findPathTo_spec w n hw hw' d.gens hp hash ic batch' hinj d.central hc _ hball q hq

/-- the same for `find_path_from` (flag set, generator list closed under inverses; the inverse map is recomputed from
the LOADED generators) -/
theorem loaded_findPathFrom_spec (hinj : ∀ x y, Valid w n x → Valid w n y → hash x = hash y → x = y)
    (hic : ic = true) (hcl : ∀ p ∈ d.gens, Cv.Perm.inverse p ∈ d.gens) (hb : 0 < batch)
    (c : BfsCfg (List W)) (hr : c.returnHashes = true) (hc : encodable w n d.central = true)
    (batch' : Nat) (q : List Nat) (hq : encodable w n q = true) :
    ∃ R', load (save (savedForm w n d (RUN c))) = some R' ∧
      findPathFrom (encodedPermGraph w n R'.gens hash ic batch') (encodedPermGraphInv w n R'.gens hash ic batch')
          (permInvMap R'.gens) R'.layersHashes (encode w n q) =
        findPathFrom (encodedPermGraph w n d.gens hash ic batch) (encodedPermGraphInv w n d.gens hash ic batch)
          (permInvMap d.gens) (RUN c).hashes (encode w n q) ∧
      match findPathFrom (encodedPermGraph w n R'.gens hash ic batch')
          (encodedPermGraphInv w n R'.gens hash ic batch') (permInvMap R'.gens) R'.layersHashes (encode w n q) with
      | .found p => applyPath (genAct R'.gens) q p = R'.central ∧
          DistLayer (permGraphNb d.gens) [d.central] p.length q ∧ p.length < R'.layersHashes.length ∧
          ∀ i ∈ p, i < d.gens.length
      | .notFound => ∀ i, i < R'.layersHashes.length → ¬ DistLayer (permGraphNb d.gens) [d.central] i q
      | .assertFail _ => False := by
  refine ⟨_, savedForm_load_save w n d (fun p hp' => (hp p hp').length_eq) hcen _ c _, rfl, ?_⟩
  obtain ⟨_, _, _, hball⟩ :=
    encoded_ball w n hw hw' d.gens hp hash ic batch hinj (fun _ => hcl) hb c hr d.central hc
  exact encoded_findPathFrom_spec w n hw hw' d.gens hp hash ic batch' hinj hic hcl d.central hc _ hball q hq

end query

end Cv.InstanceSaveLoad
