/-
  Concrete instances for `CvProps/C05m.lean` (continuation of `CvProofs/InstanceMatPathsExample.lean`): meet in
  the middle, `find_path_between` on the Heisenberg group modulo 3, evaluated in the kernel.
  Core Lean only.
-/
import CvProofs.InstanceMatPathsExample
namespace Cv.InstanceMat.PathsExample
open Cv Cv.InstanceMat Cv.InstanceMat.Example Cv.Kernel

/-! ### C05m evaluated -/

theorem all27_closedInv : ∀ s ∈ all27, ∀ t ∈ matNb heis3i 3 3 s, t ∈ all27 := by decide +kernel

theorem mem_all27 (s : List Int) (h : decide (s ∈ all27) = true) : s ∈ all27 := of_decide_eq_true h

/-- `hexp` for every destination among the 27 group elements: every class has at most 27 states -/
theorem hexp27 (dest : List Int) (hd : dest ∈ all27) (D : Nat) :
    ∀ d (L : List (List Int)), 1 ≤ d → d ≤ D → L.Nodup →
      (∀ s, s ∈ L ↔ DistLayer (matNb heis3i 3 3) [dest] d s) → L.length < 10^12 := by
  intro d L _ _ hnd hmem
  have := mat_layer_le_of_closed _ 3 3 all27 all27_closedInv [dest] (by simpa using hd) d L hnd hmem
  rw [all27_length] at this
  omega

/-- the orbit of the off-orbit state `diag(2,1,1)` under the inverted generators (a coset: 27 states) -/
def off27 : List (List Int) := (absSt (matNb heis3i 3 3) [[2, 0, 0, 0, 1, 0, 0, 0, 1]] 4).1
theorem off27_length : off27.length = 27 := by decide +kernel
theorem off27_closedInv : ∀ s ∈ off27, ∀ t ∈ matNb heis3i 3 3 s, t ∈ off27 := by decide +kernel

theorem hexpOff (D : Nat) :
    ∀ d (L : List (List Int)), 1 ≤ d → d ≤ D → L.Nodup →
      (∀ s, s ∈ L ↔ DistLayer (matNb heis3i 3 3) [[2, 0, 0, 0, 1, 0, 0, 0, 1]] d s) → L.length < 10^12 := by
  intro d L _ _ hnd hmem
  have := mat_layer_le_of_closed _ 3 3 off27 off27_closedInv [[2, 0, 0, 0, 1, 0, 0, 0, 1]] (by decide +kernel) d L
    hnd hmem
  rw [off27_length] at this
  omega

/-- distance 4 = 2·D: found by the backward search -/
theorem mitm_found : mitmFindPathTo gH gHi ballH [1, 0, 1, 0, 1, 0, 0, 0, 1] = .found [0, 3, 2, 1] := by
  rw [mitmFindPathTo_eq]; simp only [bfs_eq_bfsK]; decide +kernel
/-- with the ball of depth 1 the same destination (distance 4 > 2·1) is not found -/
theorem mitm_far : mitmFindPathTo gH gHi [[6643], [6670, 6697, 8830, 11017]] [1, 0, 1, 0, 1, 0, 0, 0, 1] =
    .notFound := by
  rw [mitmFindPathTo_eq]; simp only [bfs_eq_bfsK]; decide +kernel
/-- outside the orbit -/
theorem mitm_offOrbit : mitmFindPathTo gH gHi ballH [2, 0, 0, 0, 1, 0, 0, 0, 1] = .notFound := by
  rw [mitmFindPathTo_eq]; simp only [bfs_eq_bfsK]; decide +kernel
theorem mitmFrom_found :
    mitmFindPathFrom gH gHi (some heis3Map) ballH [1, 0, 1, 0, 1, 0, 0, 0, 1] = .found [3, 0, 1, 2] := by
  simp only [mitmFindPathFrom, mitmFindPathTo_eq, bfs_eq_bfsK]; decide +kernel

theorem unique_eqK {α : Type} (g : Graph α) (xs : List α) : g.unique xs = uniqueStatesK g.hash xs :=
  uniqueStates_eq _ _

/-- set to set: the closest pair is `x`, `I + E(0,2)` at distance 3 -/
theorem between_found :
    (findPathBetween gH gHi [eye3, [1, 1, 0, 0, 1, 0, 0, 0, 1]]
        [[1, 0, 1, 0, 1, 0, 0, 0, 1], [1, 0, 2, 0, 1, 0, 0, 0, 1]] 3).map
      (Option.map fun r => (r.start, r.edges)) = some (some ([1, 1, 0, 0, 1, 0, 0, 0, 1], [3, 2, 1])) := by
  simp only [findPathBetween, betweenLoop, IBfs.init, IBfs.step, unique_eqK]
  decide +kernel
/-- distance 4 > 2·1 -/
theorem between_none :
    (findPathBetween gH gHi [eye3] [[1, 0, 1, 0, 1, 0, 0, 0, 1]] 1).map
      (Option.map fun r => (r.start, r.edges)) = some none := by
  simp only [findPathBetween, betweenLoop, IBfs.init, IBfs.step, unique_eqK]
  decide +kernel

end Cv.InstanceMat.PathsExample
