/-
  The BFS model `Cv.bfs` (CvModel/Bfs.lean) computes the distance classes.  Core Lean only.
-/
import CvModel.Bfs
import CvProofs.Spec
import CvProofs.Tensor
namespace Cv
variable {α : Type} [DecidableEq α]

/-- hypotheses shared by the BFS theorems: hash injective on the orbit of the start set (collisions are
excluded), generators inverse-closed ⇒ graph undirected, batch size ≥ 1 -/
structure BfsHyp (g : Graph α) (S : List α) : Prop where
  inj : ∀ x y, InOrbit g.nb S x → InOrbit g.nb S y → g.hash x = g.hash y → x = y
  symm : g.invClosed = true → Symm g.nb
  batch : 0 < g.batchSize

/-- `L` enumerates the distance class `i` without repetition -/
def IsLayer (g : Graph α) (S : List α) (i : Nat) (L : List α) : Prop :=
  L.Nodup ∧ ∀ x, x ∈ L ↔ DistLayer g.nb S i x

/-! ### distance classes -/

omit [DecidableEq α] in
theorem InOrbit.step {nb : α → List α} {S : List α} {x y : α} (hy : InOrbit nb S y) (hx : x ∈ nb y) :
    InOrbit nb S x := by
  obtain ⟨n, hn⟩ := hy
  exact ⟨n + 1, (reach_succ ..).2 ⟨y, hn, hx⟩⟩

omit [DecidableEq α] in
theorem DistLayer.inOrbit {nb : α → List α} {S : List α} {i : Nat} {x : α} (h : DistLayer nb S i x) :
    InOrbit nb S x := ⟨i, h.1⟩

omit [DecidableEq α] in
theorem exists_distLayer_of_reach {nb : α → List α} {S : List α} {n : Nat} {x : α}
    (h : Reach nb S n x) : ∃ j, j ≤ n ∧ DistLayer nb S j x := by
  induction n using Nat.strongRecOn with
  | ind n ih =>
    by_cases hex : ∃ j, j < n ∧ Reach nb S j x
    · obtain ⟨j, hj, hr⟩ := hex
      obtain ⟨k, hk, hd⟩ := ih j hj hr
      exact ⟨k, by omega, hd⟩
    · exact ⟨n, Nat.le_refl _, h, fun j hj hr => hex ⟨j, hj, hr⟩⟩

omit [DecidableEq α] in
theorem distLayer_unique {nb : α → List α} {S : List α} {i j : Nat} {x : α}
    (h1 : DistLayer nb S i x) (h2 : DistLayer nb S j x) : i = j := by
  rcases Nat.lt_trichotomy i j with h | h | h
  · exact absurd h1.1 (h2.2 i h)
  · exact h
  · exact absurd h2.1 (h1.2 j h)

omit [DecidableEq α] in
theorem distLayer_pred_bfs {nb : α → List α} {S : List α} {i : Nat} {x : α}
    (h : DistLayer nb S (i + 1) x) : ∃ y, DistLayer nb S i y ∧ x ∈ nb y := by
  obtain ⟨y, hy, hxy⟩ := (reach_succ ..).1 h.1
  refine ⟨y, ⟨hy, ?_⟩, hxy⟩
  intro j hj hrj
  exact h.2 (j + 1) (by omega) ((reach_succ ..).2 ⟨y, hrj, hxy⟩)

omit [DecidableEq α] in
theorem distLayer_zero {nb : α → List α} {S : List α} {x : α} : DistLayer nb S 0 x ↔ x ∈ S := by
  simp [DistLayer, reach_zero]

omit [DecidableEq α] in
/-- undirected graph: neighbours of distance class i lie in classes i-1, i, i+1 (why the two-layer window is sound) -/
theorem BfsThm.window2_sound (nb : α → List α) (S : List α) (hsym : Symm nb) (i : Nat) (x y : α)
    (hx : DistLayer nb S i x) (hy : y ∈ nb x) : ∃ j, DistLayer nb S j y ∧ i ≤ j + 1 ∧ j ≤ i + 1 := by
  have hr : Reach nb S (i + 1) y := (reach_succ ..).2 ⟨x, hx.1, hy⟩
  obtain ⟨j, hj, hd⟩ := exists_distLayer_of_reach hr
  refine ⟨j, hd, ?_, hj⟩
  have hxr : Reach nb S (j + 1) x := (reach_succ ..).2 ⟨y, hd.1, hsym x y hy⟩
  apply Classical.byContradiction
  intro hlt
  exact hx.2 (j + 1) (by omega) hxr

omit [DecidableEq α] in
/-- the step "neighbours of class `i-1` minus the remembered classes" gives class `i` -/
theorem next_layer_iff (nb : α → List α) (S : List α) (ic : Bool) (hsym : ic = true → Symm nb)
    (i : Nat) (hi : 1 ≤ i) (x : α) :
    ((∃ y, DistLayer nb S (i - 1) y ∧ x ∈ nb y) ∧
        ¬ (∃ j, j < i ∧ (ic = true → i ≤ j + 2) ∧ DistLayer nb S j x)) ↔ DistLayer nb S i x := by
  constructor
  · rintro ⟨⟨y, hy, hxy⟩, hns⟩
    have hr : Reach nb S i x := by
      have := (reach_succ nb S (i - 1) x).2 ⟨y, hy.1, hxy⟩
      rwa [Nat.sub_add_cancel hi] at this
    obtain ⟨j, hj, hd⟩ := exists_distLayer_of_reach hr
    by_cases hji : j = i
    · subst hji; exact hd
    · exfalso
      apply hns
      refine ⟨j, by omega, ?_, hd⟩
      intro hic
      obtain ⟨j', hd', h1, h2⟩ := BfsThm.window2_sound nb S (hsym hic) (i - 1) y x hy hxy
      have := distLayer_unique hd hd'
      omega
  · intro hd
    obtain ⟨i', rfl⟩ : ∃ i', i = i' + 1 := ⟨i - 1, by omega⟩
    obtain ⟨y, hy, hxy⟩ := distLayer_pred_bfs hd
    refine ⟨⟨y, by simpa using hy, hxy⟩, ?_⟩
    rintro ⟨j, hj, -, hdj⟩
    have := distLayer_unique hd hdj
    omega

omit [DecidableEq α] in
theorem IsLayer.perm {g1 g2 : Graph α} {S : List α} {i : Nat} {L1 L2 : List α} (hnb : g1.nb = g2.nb)
    (h1 : IsLayer g1 S i L1) (h2 : IsLayer g2 S i L2) : L1.Perm L2 := by
  rw [List.perm_ext_iff_of_nodup h1.1 h2.1]
  intro a
  rw [h1.2, h2.2, hnb]

/-! ### small list facts -/

omit [DecidableEq α] in
theorem mem_neighbors (g : Graph α) (xs : List α) (x : α) :
    x ∈ g.neighbors xs ↔ ∃ y ∈ xs, x ∈ g.nb y := by
  simp only [Graph.neighbors, Graph.nb, nbOf, List.mem_flatMap, List.mem_range, List.mem_map]
  constructor
  · rintro ⟨i, hi, y, hy, rfl⟩; exact ⟨y, hy, i, hi, rfl⟩
  · rintro ⟨y, hy, i, hi, rfl⟩; exact ⟨i, hi, y, hy, rfl⟩

theorem strict_of_sorted_nodup (l : List Int) (hs : l.Pairwise (· ≤ ·)) (hn : l.Nodup) :
    l.Pairwise (· < ·) :=
  (hs.and hn).imp (by intro a b h; omega)

omit [DecidableEq α] in
theorem getElem?_snoc_eq_some {β : Type} {l : List β} {a b : β} {j : Nat} :
    (l ++ [a])[j]? = some b ↔ (l[j]? = some b) ∨ (j = l.length ∧ a = b) := by
  rw [List.getElem?_append]
  split
  · rename_i h
    constructor
    · exact Or.inl
    · rintro (h1 | ⟨h1, -⟩)
      · exact h1
      · omega
  · rename_i h
    have hnone : l[j]? = none := List.getElem?_eq_none (by omega)
    rw [hnone]
    by_cases hj : j = l.length
    · subst hj; simp
    · have h2 : [a][j - l.length]? = none := List.getElem?_eq_none (by simp; omega)
      rw [h2]; simp [hj]

omit [DecidableEq α] in
theorem take_pred_append_last {β : Type} (Hs : List β) (i : Nat) (H : β) (hlen : Hs.length = i)
    (hi : 1 ≤ i) (hl : Hs[i - 1]? = some H) : Hs.take (i - 1) ++ [H] = Hs := by
  have h1 : i - 1 < Hs.length := by omega
  rw [List.getElem?_eq_getElem h1] at hl
  cases hl
  rw [← List.take_succ_eq_append_getElem h1, List.take_of_length_le (by omega)]

omit [DecidableEq α] in
theorem take_snoc_length {β : Type} (Hs : List β) (i : Nat) (H : β) (hlen : Hs.length = i) :
    (Hs ++ [H]).take i = Hs := by
  subst hlen; simp

theorem mem_lastTwo (l : List (List Int)) (d : List Int) :
    d ∈ lastTwo l ↔ ∃ j, l.length ≤ j + 2 ∧ l[j]? = some d := by
  unfold lastTwo
  rw [List.mem_iff_getElem?]
  simp only [List.getElem?_drop]
  constructor
  · rintro ⟨k, hk⟩; exact ⟨l.length - 2 + k, by omega, hk⟩
  · rintro ⟨j, hj, hk⟩
    refine ⟨j - (l.length - 2), ?_⟩
    rwa [show l.length - 2 + (j - (l.length - 2)) = j by omega]

theorem lastTwo_append_lastTwo (l : List (List Int)) (h : List Int) :
    lastTwo (lastTwo l ++ [h]) = lastTwo (l ++ [h]) := by
  unfold lastTwo
  by_cases hl : l.length ≤ 2
  · rw [show l.length - 2 = 0 by omega, List.drop_zero]
  · simp only [List.length_append, List.length_drop, List.length_cons, List.length_nil]
    rw [show l.length - (l.length - 2) + (0 + 1) - 2 = 1 by omega,
      show l.length + (0 + 1) - 2 = l.length - 1 by omega]
    rw [List.drop_append_of_le_length (by simp; omega), List.drop_append_of_le_length (by omega),
      List.drop_drop]
    rw [show l.length - 2 + 1 = l.length - 1 by omega]

/-! ### one expansion step, set level -/

section expand
variable (g : Graph α) (S : List α)
  (hinj : ∀ x y, InOrbit g.nb S x → InOrbit g.nb S y → g.hash x = g.hash y → x = y)
include hinj

omit [DecidableEq α] in
theorem unique_neighbors_spec (xs : List α) (h1 : ∀ y ∈ xs, InOrbit g.nb S y) :
    (g.unique (g.neighbors xs)).Nodup ∧
    (∀ x, x ∈ g.unique (g.neighbors xs) ↔ ∃ y ∈ xs, x ∈ g.nb y) ∧
    ((g.unique (g.neighbors xs)).map g.hash).Pairwise (· < ·) := by
  have horb : ∀ x ∈ g.neighbors xs, InOrbit g.nb S x := by
    intro x hx
    obtain ⟨y, hy, hxy⟩ := (mem_neighbors g xs x).1 hx
    exact (h1 y hy).step hxy
  refine ⟨uniqueStates_nodup _ _, ?_, uniqueStates_keys_strict _ _⟩
  intro x
  unfold Graph.unique
  rw [uniqueStates_mem g.hash _ (fun a ha b hb => hinj a b (horb a ha) (horb b hb)), mem_neighbors]

omit [DecidableEq α] in
theorem expandPlain_spec (seen : List (List Int)) (layer1 : List α)
    (h1 : ∀ y ∈ layer1, InOrbit g.nb S y) (P : α → Prop)
    (hseen : ∀ x, InOrbit g.nb S x → (notSeen seen (g.hash x) = true ↔ ¬ P x)) :
    (expandPlain g seen layer1).1.Nodup ∧
    (∀ x, x ∈ (expandPlain g seen layer1).1 ↔ (∃ y ∈ layer1, x ∈ g.nb y) ∧ ¬ P x) ∧
    (expandPlain g seen layer1).2.Pairwise (· < ·) ∧
    (expandPlain g seen layer1).2.Perm ((expandPlain g seen layer1).1.map g.hash) := by
  obtain ⟨hnd, hmem, hstr⟩ := unique_neighbors_spec g S hinj layer1 h1
  simp only [expandPlain]
  refine ⟨hnd.sublist List.filter_sublist, ?_, ?_, List.Perm.refl _⟩
  · intro x
    rw [List.mem_filter, hmem]
    constructor
    · rintro ⟨⟨y, hy, hxy⟩, hns⟩
      exact ⟨⟨y, hy, hxy⟩, (hseen x ((h1 y hy).step hxy)).1 hns⟩
    · rintro ⟨⟨y, hy, hxy⟩, hns⟩
      exact ⟨⟨y, hy, hxy⟩, (hseen x ((h1 y hy).step hxy)).2 hns⟩
  · exact hstr.sublist (List.filter_sublist.map g.hash)

/-- the body of the batch loop -/
def batchStep (g : Graph α) (seen : List (List Int)) (acc : List (List α) × List (List Int))
    (batch : List α) : List (List α) × List (List Int) :=
  let u := g.unique (g.neighbors batch)
  let keep := u.filter fun x =>
    notSeen seen (g.hash x) && acc.2.all fun ob => !isinSorted ob (g.hash x)
  (acc.1 ++ [keep], acc.2 ++ [keep.map g.hash])

omit [DecidableEq α] hinj in
theorem expandBatched_eq (seen : List (List Int)) (layer1 : List α) (layer1H : List Int) :
    expandBatched g seen layer1 layer1H =
      (((tensorSplit (ceilDiv layer1H.length g.batchSize) layer1).foldl (batchStep g seen) ([], [])).1.flatten,
       sortInts ((tensorSplit (ceilDiv layer1H.length g.batchSize) layer1).foldl (batchStep g seen) ([], [])).2.flatten) :=
  rfl

/-- invariant of the batch loop: `done` = rows of `layer1` already expanded -/
structure BInv (g : Graph α) (S : List α) (P : α → Prop) (done : List α)
    (acc : List (List α) × List (List Int)) : Prop where
  hashes : acc.2 = acc.1.map (List.map g.hash)
  nodup : acc.1.flatten.Nodup
  mem : ∀ x, x ∈ acc.1.flatten ↔ (∃ y ∈ done, x ∈ g.nb y) ∧ ¬ P x
  sorted : ∀ k ∈ acc.1, (k.map g.hash).Pairwise (· < ·)

omit [DecidableEq α] in
theorem batchStep_inv (seen : List (List Int)) (P : α → Prop)
    (hseen : ∀ x, InOrbit g.nb S x → (notSeen seen (g.hash x) = true ↔ ¬ P x))
    (done : List α) (hdone : ∀ y ∈ done, InOrbit g.nb S y)
    (acc : List (List α) × List (List Int)) (hacc : BInv g S P done acc)
    (b : List α) (hb : ∀ y ∈ b, InOrbit g.nb S y) :
    BInv g S P (done ++ b) (batchStep g seen acc b) := by
  obtain ⟨hnd, hmem, hstr⟩ := unique_neighbors_spec g S hinj b hb
  -- the "other batches" test is exactly non-membership in the accumulated rows
  have hother : ∀ x, InOrbit g.nb S x →
      ((acc.2.all fun ob => !isinSorted ob (g.hash x)) = true ↔ x ∉ acc.1.flatten) := by
    intro x hx
    rw [hacc.hashes]
    simp only [List.all_eq_true, List.mem_map, forall_exists_index, and_imp,
      forall_apply_eq_imp_iff₂, Bool.not_eq_true', List.mem_flatten, not_exists, not_and]
    constructor
    · intro h k hk hxk
      have h2 := h k hk
      rw [← Bool.not_eq_true, isinSorted_iff _ ((hacc.sorted k hk).imp (by intro a b; omega))] at h2
      exact h2 (List.mem_map_of_mem hxk)
    · intro h k hk
      rw [← Bool.not_eq_true, isinSorted_iff _ ((hacc.sorted k hk).imp (by intro a b; omega))]
      intro hm
      obtain ⟨y, hy, hyx⟩ := List.mem_map.1 hm
      have hyo : InOrbit g.nb S y := by
        obtain ⟨⟨z, hz, hyz⟩, -⟩ := (hacc.mem y).1 (List.mem_flatten.2 ⟨k, hk, hy⟩)
        exact (hdone z hz).step hyz
      have := hinj y x hyo hx hyx
      subst this
      exact h k hk hy
  have hkeep : ∀ x, x ∈ (g.unique (g.neighbors b)).filter (fun x =>
      notSeen seen (g.hash x) && acc.2.all fun ob => !isinSorted ob (g.hash x)) ↔
      ((∃ y ∈ b, x ∈ g.nb y) ∧ ¬ P x) ∧ x ∉ acc.1.flatten := by
    intro x
    rw [List.mem_filter, hmem, Bool.and_eq_true]
    constructor
    · rintro ⟨⟨y, hy, hxy⟩, hns, hot⟩
      have hxo := (hb y hy).step hxy
      exact ⟨⟨⟨y, hy, hxy⟩, (hseen x hxo).1 hns⟩, (hother x hxo).1 hot⟩
    · rintro ⟨⟨⟨y, hy, hxy⟩, hns⟩, hot⟩
      have hxo := (hb y hy).step hxy
      exact ⟨⟨y, hy, hxy⟩, (hseen x hxo).2 hns, (hother x hxo).2 hot⟩
  unfold batchStep
  refine ⟨?_, ?_, ?_, ?_⟩
  · simp only [List.map_append, List.map_cons, List.map_nil, hacc.hashes]
  · simp only [List.flatten_append, List.flatten_cons, List.flatten_nil, List.append_nil]
    rw [List.nodup_append]
    refine ⟨hacc.nodup, hnd.sublist List.filter_sublist, ?_⟩
    intro a ha c hc hac
    subst hac
    exact ((hkeep a).1 hc).2 ha
  · intro x
    simp only [List.flatten_append, List.flatten_cons, List.flatten_nil, List.append_nil,
      List.mem_append]
    rw [hkeep, hacc.mem]
    constructor
    · rintro (⟨⟨y, hy, hxy⟩, hp⟩ | ⟨⟨⟨y, hy, hxy⟩, hp⟩, -⟩)
      · exact ⟨⟨y, Or.inl hy, hxy⟩, hp⟩
      · exact ⟨⟨y, Or.inr hy, hxy⟩, hp⟩
    · rintro ⟨⟨y, hy | hy, hxy⟩, hp⟩
      · exact Or.inl ⟨⟨y, hy, hxy⟩, hp⟩
      · by_cases hin : (∃ y ∈ done, x ∈ g.nb y) ∧ ¬ P x
        · exact Or.inl hin
        · exact Or.inr ⟨⟨⟨y, hy, hxy⟩, hp⟩, hin⟩
  · intro k hk
    simp only [List.mem_append, List.mem_singleton] at hk
    rcases hk with hk | rfl
    · exact hacc.sorted k hk
    · exact hstr.sublist (List.filter_sublist.map g.hash)

omit [DecidableEq α] in
theorem foldl_batchStep_inv (seen : List (List Int)) (P : α → Prop)
    (hseen : ∀ x, InOrbit g.nb S x → (notSeen seen (g.hash x) = true ↔ ¬ P x))
    (bs : List (List α)) (hbs : ∀ b ∈ bs, ∀ y ∈ b, InOrbit g.nb S y)
    (done : List α) (hdone : ∀ y ∈ done, InOrbit g.nb S y)
    (acc : List (List α) × List (List Int)) (hacc : BInv g S P done acc) :
    BInv g S P (done ++ bs.flatten) (bs.foldl (batchStep g seen) acc) := by
  induction bs generalizing done acc with
  | nil => simpa using hacc
  | cons b bs ih =>
    simp only [List.foldl_cons, List.flatten_cons]
    rw [← List.append_assoc]
    apply ih
    · intro b' hb'; exact hbs b' (by simp [hb'])
    · intro y hy
      rcases List.mem_append.1 hy with hy | hy
      · exact hdone y hy
      · exact hbs b (by simp) y hy
    · exact batchStep_inv g S hinj seen P hseen done hdone acc hacc b (hbs b (by simp))

omit [DecidableEq α] in
theorem expandBatched_spec (seen : List (List Int)) (layer1 : List α) (layer1H : List Int)
    (hlen : layer1H.length = layer1.length) (hb0 : 0 < g.batchSize) (hne : 0 < layer1.length)
    (h1 : ∀ y ∈ layer1, InOrbit g.nb S y) (P : α → Prop)
    (hseen : ∀ x, InOrbit g.nb S x → (notSeen seen (g.hash x) = true ↔ ¬ P x)) :
    (expandBatched g seen layer1 layer1H).1.Nodup ∧
    (∀ x, x ∈ (expandBatched g seen layer1 layer1H).1 ↔ (∃ y ∈ layer1, x ∈ g.nb y) ∧ ¬ P x) ∧
    (expandBatched g seen layer1 layer1H).2.Pairwise (· < ·) ∧
    (expandBatched g seen layer1 layer1H).2.Perm ((expandBatched g seen layer1 layer1H).1.map g.hash) := by
  rw [expandBatched_eq]
  have hk : 0 < ceilDiv layer1H.length g.batchSize := by
    unfold ceilDiv
    apply Nat.div_pos _ hb0
    omega
  have hfl := flatten_tensorSplit _ hk layer1
  generalize tensorSplit (ceilDiv layer1H.length g.batchSize) layer1 = bs at hfl
  have hbs : ∀ b ∈ bs, ∀ y ∈ b, InOrbit g.nb S y := by
    intro b hb y hy
    apply h1
    rw [← hfl]
    exact List.mem_flatten.2 ⟨b, hb, hy⟩
  have hinv := foldl_batchStep_inv g S hinj seen P hseen bs hbs [] (by simp) ([], [])
    ⟨rfl, by simp, by simp, by simp⟩
  rw [List.nil_append, hfl] at hinv
  generalize bs.foldl (batchStep g seen) ([], []) = acc at hinv
  have hflat : acc.2.flatten = acc.1.flatten.map g.hash := by
    rw [hinv.hashes, List.map_flatten]
  have hperm : (sortInts acc.2.flatten).Perm (acc.1.flatten.map g.hash) := by
    rw [← hflat]; exact sortInts_perm _
  refine ⟨hinv.nodup, hinv.mem, ?_, hperm⟩
  apply strict_of_sorted_nodup _ (sortInts_sorted _)
  rw [hperm.nodup_iff]
  -- hash is injective on the new layer
  refine (List.pairwise_map).2 (hinv.nodup.imp_of_mem ?_)
  intro a b ha hb hab heq
  apply hab
  have hao : InOrbit g.nb S a := by
    obtain ⟨⟨z, hz, haz⟩, -⟩ := (hinv.mem a).1 ha
    exact (h1 z hz).step haz
  have hbo : InOrbit g.nb S b := by
    obtain ⟨⟨z, hz, hbz⟩, -⟩ := (hinv.mem b).1 hb
    exact (h1 z hz).step hbz
  exact hinj a b hao hbo heq

end expand

/-! ### the loop, one iteration -/

/-- the expansion chosen by the iteration that starts in state `s` -/
def expandSel (g : Graph α) (c : BfsCfg α) (s : BfsLoop α) : List α × List Int :=
  if ((!c.returnEdges && !c.disableBatching) && decide (s.layer1.length > g.batchSize)) = true
  then expandBatched g s.seen s.layer1 s.layer1H else expandPlain g s.seen s.layer1

/-- bookkeeping before the emptiness test (edge lists, `all_layers_hashes`) -/
def preState (g : Graph α) (c : BfsCfg α) (s : BfsLoop α) : BfsLoop α :=
  let batched := (!c.returnEdges && !c.disableBatching) && decide (s.layer1.length > g.batchSize)
  let s :=
    if !batched && c.returnEdges then
      { s with eStarts := s.eStarts ++ [repeatList s.layer1H g.nGens],
               eEnds := s.eEnds ++ [(g.neighbors s.layer1).map g.hash] }
    else s
  if c.returnHashes then { s with allH := s.allH ++ [s.layer1H] } else s

/-- bookkeeping after a non-empty new layer -/
def postState (g : Graph α) (c : BfsCfg α) (i : Nat) (s : BfsLoop α) (layer2 : List α)
    (layer2H : List Int) : BfsLoop α :=
  let s := { s with sizes := s.sizes ++ [layer2.length] }
  let s := if layer2.length ≤ c.storeLimit then { s with layers := s.layers ++ [(i, layer2)] } else s
  let seen := s.seen ++ [layer2H]
  let seen := if g.invClosed then lastTwo seen else seen
  { s with layer1 := layer2, layer1H := layer2H, seen := seen }

omit [DecidableEq α] in
theorem bfsLoop_succ (g : Graph α) (c : BfsCfg α) (fuel i : Nat) (s : BfsLoop α) :
    bfsLoop g c (fuel + 1) i s =
      (if ((expandSel g c s).1.length == 0) = true then { preState g c s with completed := true }
       else if (expandSel g c s).1.length ≥ c.maxExplore then
          postState g c i (preState g c s) (expandSel g c s).1 (expandSel g c s).2
       else match c.stop with
        | none => bfsLoop g c fuel (i + 1)
            (postState g c i (preState g c s) (expandSel g c s).1 (expandSel g c s).2)
        | some f =>
          if f i (expandSel g c s).1 = true then
            { postState g c i (preState g c s) (expandSel g c s).1 (expandSel g c s).2 with
              cb := (postState g c i (preState g c s) (expandSel g c s).1 (expandSel g c s).2).cb ++ [i] }
          else bfsLoop g c fuel (i + 1)
            { postState g c i (preState g c s) (expandSel g c s).1 (expandSel g c s).2 with
              cb := (postState g c i (preState g c s) (expandSel g c s).1 (expandSel g c s).2).cb ++ [i] }) := by
  rfl

section fields
variable (g : Graph α) (c : BfsCfg α) (i : Nat) (s : BfsLoop α) (l2 : List α) (l2H : List Int)
omit [DecidableEq α]

@[simp] theorem preState_layer1 : (preState g c s).layer1 = s.layer1 := by
  unfold preState; dsimp only; split <;> split <;> rfl
@[simp] theorem preState_layer1H : (preState g c s).layer1H = s.layer1H := by
  unfold preState; dsimp only; split <;> split <;> rfl
@[simp] theorem preState_seen : (preState g c s).seen = s.seen := by
  unfold preState; dsimp only; split <;> split <;> rfl
@[simp] theorem preState_sizes : (preState g c s).sizes = s.sizes := by
  unfold preState; dsimp only; split <;> split <;> rfl
@[simp] theorem preState_layers : (preState g c s).layers = s.layers := by
  unfold preState; dsimp only; split <;> split <;> rfl
@[simp] theorem preState_cb : (preState g c s).cb = s.cb := by
  unfold preState; dsimp only; split <;> split <;> rfl
@[simp] theorem preState_completed : (preState g c s).completed = s.completed := by
  unfold preState; dsimp only; split <;> split <;> rfl
theorem preState_allH : (preState g c s).allH =
    if c.returnHashes = true then s.allH ++ [s.layer1H] else s.allH := by
  unfold preState; dsimp only; split <;> split <;> rfl

@[simp] theorem postState_layer1 : (postState g c i s l2 l2H).layer1 = l2 := rfl
@[simp] theorem postState_layer1H : (postState g c i s l2 l2H).layer1H = l2H := rfl
theorem postState_seen : (postState g c i s l2 l2H).seen =
    if g.invClosed = true then lastTwo (s.seen ++ [l2H]) else s.seen ++ [l2H] := by
  by_cases h1 : l2.length ≤ c.storeLimit <;> by_cases h2 : g.invClosed = true <;>
    simp [postState, h1, h2]
@[simp] theorem postState_sizes : (postState g c i s l2 l2H).sizes = s.sizes ++ [l2.length] := by
  unfold postState; dsimp only; split <;> rfl
theorem postState_layers : (postState g c i s l2 l2H).layers =
    if l2.length ≤ c.storeLimit then s.layers ++ [(i, l2)] else s.layers := by
  unfold postState; dsimp only; split <;> rfl
@[simp] theorem postState_allH : (postState g c i s l2 l2H).allH = s.allH := by
  unfold postState; dsimp only; split <;> rfl
@[simp] theorem postState_cb : (postState g c i s l2 l2H).cb = s.cb := by
  unfold postState; dsimp only; split <;> rfl
@[simp] theorem postState_completed : (postState g c i s l2 l2H).completed = s.completed := by
  unfold postState; dsimp only; split <;> rfl

end fields

/-! ### loop invariant -/

/-- `H` is the strictly sorted list of hashes of distance class `j` -/
def HashOf (g : Graph α) (S : List α) (j : Nat) (H : List Int) : Prop :=
  H.Pairwise (· < ·) ∧ ∃ L, IsLayer g S j L ∧ H.Perm (L.map g.hash)

/-- invariant at the start of iteration `i`; `Hs` (ghost) = hash tensors of the layers `0 … i-1` -/
structure Core (g : Graph α) (c : BfsCfg α) (S : List α) (Hs : List (List Int)) (i : Nat)
    (s : BfsLoop α) : Prop where
  pos : 1 ≤ i
  layer : IsLayer g S (i - 1) s.layer1
  hsLen : Hs.length = i
  hs : ∀ j H, Hs[j]? = some H → HashOf g S j H
  hsLast : Hs[i - 1]? = some s.layer1H
  layerH : s.layer1H.Perm (s.layer1.map g.hash)
  seen : s.seen = if g.invClosed = true then lastTwo Hs else Hs
  sizesLen : s.sizes.length = i
  sizes : ∀ j n, s.sizes[j]? = some n → ∃ L, IsLayer g S j L ∧ n = L.length
  sizesPos : ∀ j n, 0 < j → s.sizes[j]? = some n → 0 < n
  sizesLt : ∀ j n, 0 < j → j + 1 < i → s.sizes[j]? = some n → n < c.maxExplore
  layersSound : ∀ j L, (j, L) ∈ s.layers → IsLayer g S j L
  layersIff : ∀ j, (∃ L, (j, L) ∈ s.layers) ↔
    ∃ n, s.sizes[j]? = some n ∧ (j = 0 ∨ n ≤ c.storeLimit)

omit [DecidableEq α] in
theorem Core.congr {g : Graph α} {c : BfsCfg α} {S : List α} {Hs : List (List Int)} {i : Nat}
    {s s' : BfsLoop α} (hc : Core g c S Hs i s) (h1 : s'.layer1 = s.layer1)
    (h2 : s'.layer1H = s.layer1H) (h3 : s'.seen = s.seen) (h4 : s'.sizes = s.sizes)
    (h5 : s'.layers = s.layers) : Core g c S Hs i s' := by
  obtain ⟨a1, a2, a3, a4, a5, a6, a7, a8, a9, a10, a11, a12, a13⟩ := hc
  constructor <;> (try simp only [h1, h2, h3, h4, h5]) <;> assumption

omit [DecidableEq α] in
theorem Core.mem_seen {g : Graph α} {c : BfsCfg α} {S : List α} {Hs : List (List Int)} {i : Nat}
    {s : BfsLoop α} (hc : Core g c S Hs i s) (d : List Int) :
    d ∈ s.seen ↔ ∃ j, j < i ∧ (g.invClosed = true → i ≤ j + 2) ∧ Hs[j]? = some d := by
  rw [hc.seen]
  split
  · rename_i hic
    rw [mem_lastTwo, hc.hsLen]
    constructor
    · rintro ⟨j, hj, hd⟩
      have : j < Hs.length := (List.getElem?_eq_some_iff.1 hd).1
      exact ⟨j, by rw [← hc.hsLen]; exact this, fun _ => hj, hd⟩
    · rintro ⟨j, hj, hj2, hd⟩
      exact ⟨j, hj2 hic, hd⟩
  · rename_i hic
    rw [List.mem_iff_getElem?]
    constructor
    · rintro ⟨j, hd⟩
      have : j < Hs.length := (List.getElem?_eq_some_iff.1 hd).1
      exact ⟨j, by rw [← hc.hsLen]; exact this, fun h => absurd h hic, hd⟩
    · rintro ⟨j, -, -, hd⟩
      exact ⟨j, hd⟩

omit [DecidableEq α] in
theorem Core.notSeen_iff {g : Graph α} {c : BfsCfg α} {S : List α} {Hs : List (List Int)} {i : Nat}
    {s : BfsLoop α} (h : BfsHyp g S) (hc : Core g c S Hs i s) (x : α) (hx : InOrbit g.nb S x) :
    notSeen s.seen (g.hash x) = true ↔
      ¬ ∃ j, j < i ∧ (g.invClosed = true → i ≤ j + 2) ∧ DistLayer g.nb S j x := by
  unfold notSeen
  simp only [List.all_eq_true, Bool.not_eq_true']
  -- membership of `hash x` in the hash tensor of class `j`
  have key : ∀ j d, Hs[j]? = some d → (isinSorted d (g.hash x) = true ↔ DistLayer g.nb S j x) := by
    intro j d hd
    obtain ⟨hstr, L, hL, hperm⟩ := hc.hs j d hd
    rw [isinSorted_iff d (hstr.imp (by intro a b; omega)), hperm.mem_iff, ← hL.2]
    constructor
    · intro hm
      obtain ⟨y, hy, hyx⟩ := List.mem_map.1 hm
      have := h.inj y x ((hL.2 y).1 hy).inOrbit hx hyx
      rwa [← this]
    · exact fun hm => List.mem_map_of_mem hm
  constructor
  · rintro hall ⟨j, hj, hj2, hd⟩
    have hjl : j < Hs.length := by rw [hc.hsLen]; exact hj
    have hget : Hs[j]? = some Hs[j] := List.getElem?_eq_getElem hjl
    have hmem : Hs[j] ∈ s.seen := (hc.mem_seen _).2 ⟨j, hj, hj2, hget⟩
    have := hall _ hmem
    rw [← Bool.not_eq_true, key j _ hget] at this
    exact this hd
  · intro hno d hd
    obtain ⟨j, hj, hj2, hget⟩ := (hc.mem_seen d).1 hd
    rw [← Bool.not_eq_true, key j d hget]
    intro hdl
    exact hno ⟨j, hj, hj2, hdl⟩

omit [DecidableEq α] in
/-- one expansion from the invariant: the new layer is distance class `i` -/
theorem Core.step_layer {g : Graph α} {c : BfsCfg α} {S : List α} {Hs : List (List Int)} {i : Nat}
    {s : BfsLoop α} (h : BfsHyp g S) (hc : Core g c S Hs i s) :
    IsLayer g S i (expandSel g c s).1 ∧ (expandSel g c s).2.Pairwise (· < ·) ∧
      (expandSel g c s).2.Perm ((expandSel g c s).1.map g.hash) := by
  have h1 : ∀ y ∈ s.layer1, InOrbit g.nb S y := fun y hy => ((hc.layer.2 y).1 hy).inOrbit
  have hseen := hc.notSeen_iff h
  have hfin : ∀ (r : List α × List Int),
      (r.1.Nodup ∧
        (∀ x, x ∈ r.1 ↔ (∃ y ∈ s.layer1, x ∈ g.nb y) ∧
          ¬ ∃ j, j < i ∧ (g.invClosed = true → i ≤ j + 2) ∧ DistLayer g.nb S j x) ∧
        r.2.Pairwise (· < ·) ∧ r.2.Perm (r.1.map g.hash)) →
      IsLayer g S i r.1 ∧ r.2.Pairwise (· < ·) ∧ r.2.Perm (r.1.map g.hash) := by
    rintro r ⟨hnd, hmem, hstr, hperm⟩
    refine ⟨⟨hnd, ?_⟩, hstr, hperm⟩
    intro x
    rw [hmem, ← next_layer_iff g.nb S g.invClosed h.symm i hc.pos x]
    simp only [hc.layer.2]
  apply hfin
  unfold expandSel
  split
  · rename_i hb
    simp only [Bool.and_eq_true, decide_eq_true_eq] at hb
    have hlen : s.layer1H.length = s.layer1.length := by
      rw [hc.layerH.length_eq, List.length_map]
    exact expandBatched_spec g S h.inj s.seen s.layer1 s.layer1H hlen h.batch (by omega) h1 _ hseen
  · exact expandPlain_spec g S h.inj s.seen s.layer1 h1 _ hseen

omit [DecidableEq α] in
/-- the invariant is re-established after a non-empty new layer -/
theorem Core.post {g : Graph α} {c : BfsCfg α} {S : List α} {Hs : List (List Int)} {i : Nat}
    {s : BfsLoop α} (hc : Core g c S Hs i s) (l2 : List α) (l2H : List Int)
    (hl : IsLayer g S i l2) (hstr : l2H.Pairwise (· < ·)) (hperm : l2H.Perm (l2.map g.hash))
    (hne : 0 < l2.length)
    (hlast : ∀ n, 2 ≤ i → s.sizes[i - 1]? = some n → n < c.maxExplore) :
    Core g c S (Hs ++ [l2H]) (i + 1) (postState g c i (preState g c s) l2 l2H) := by
  have hpos := hc.pos
  constructor
  · omega
  · simpa using hl
  · simp [hc.hsLen]
  · intro j H hj
    rcases getElem?_snoc_eq_some.1 hj with hj' | ⟨hj', rfl⟩
    · exact hc.hs j H hj'
    · rw [hj', hc.hsLen]; exact ⟨hstr, l2, hl, hperm⟩
  · rw [Nat.add_sub_cancel, postState_layer1H]
    exact getElem?_snoc_eq_some.2 (Or.inr ⟨hc.hsLen.symm, rfl⟩)
  · simpa using hperm
  · rw [postState_seen, preState_seen, hc.seen]
    split
    · exact lastTwo_append_lastTwo Hs l2H
    · rfl
  · simp [hc.sizesLen]
  · intro j n hj
    rw [postState_sizes, preState_sizes] at hj
    rcases getElem?_snoc_eq_some.1 hj with hj' | ⟨hj', rfl⟩
    · exact hc.sizes j n hj'
    · rw [hj', hc.sizesLen]; exact ⟨l2, hl, rfl⟩
  · intro j n hj0 hj
    rw [postState_sizes, preState_sizes] at hj
    rcases getElem?_snoc_eq_some.1 hj with hj | ⟨hj, rfl⟩
    · exact hc.sizesPos j n hj0 hj
    · exact hne
  · intro j n hj0 hji hj
    rw [postState_sizes, preState_sizes] at hj
    rcases getElem?_snoc_eq_some.1 hj with hj' | ⟨hj', rfl⟩
    · by_cases hj2 : j + 1 < i
      · exact hc.sizesLt j n hj0 hj2 hj'
      · have hje : j = i - 1 := by omega
        subst hje
        exact hlast n (by omega) hj'
    · rw [hc.sizesLen] at hj'; omega
  · intro j L hm
    rw [postState_layers, preState_layers] at hm
    split at hm
    · rcases List.mem_append.1 hm with hm | hm
      · exact hc.layersSound j L hm
      · simp only [List.mem_singleton, Prod.mk.injEq] at hm
        obtain ⟨rfl, rfl⟩ := hm
        exact hl
    · exact hc.layersSound j L hm
  · intro j
    rw [postState_layers, preState_layers, postState_sizes, preState_sizes]
    simp only [getElem?_snoc_eq_some, hc.sizesLen]
    have hold := hc.layersIff j
    split
    · rename_i hst
      simp only [List.mem_append, List.mem_singleton, Prod.mk.injEq]
      constructor
      · rintro ⟨L, hm | ⟨rfl, rfl⟩⟩
        · obtain ⟨n, hn, hcond⟩ := hold.1 ⟨L, hm⟩
          exact ⟨n, Or.inl hn, hcond⟩
        · exact ⟨L.length, Or.inr ⟨rfl, rfl⟩, Or.inr hst⟩
      · rintro ⟨n, hn | ⟨rfl, rfl⟩, hcond⟩
        · obtain ⟨L, hm⟩ := hold.2 ⟨n, hn, hcond⟩
          exact ⟨L, Or.inl hm⟩
        · exact ⟨l2, Or.inr ⟨rfl, rfl⟩⟩
    · rename_i hst
      constructor
      · rintro ⟨L, hm⟩
        obtain ⟨n, hn, hcond⟩ := hold.1 ⟨L, hm⟩
        exact ⟨n, Or.inl hn, hcond⟩
      · rintro ⟨n, hn | ⟨rfl, rfl⟩, hcond⟩
        · exact hold.2 ⟨n, hn, hcond⟩
        · exfalso
          rcases hcond with h0 | h0
          · omega
          · exact hst h0

/-! ### the whole loop -/

/-- expected callback trace after `m` invocations -/
def cbList (c : BfsCfg α) (m : Nat) : List Nat :=
  match c.stop with
  | none => []
  | some _ => (List.range m).map (· + 1)

omit [DecidableEq α] in
theorem cbList_none {c : BfsCfg α} (h : c.stop = none) (m : Nat) : cbList c m = [] := by
  simp [cbList, h]

omit [DecidableEq α] in
theorem cbList_some {c : BfsCfg α} {f} (h : c.stop = some f) (m : Nat) :
    cbList c m = (List.range m).map (· + 1) := by
  simp [cbList, h]

omit [DecidableEq α] in
theorem cbList_succ {c : BfsCfg α} {f} (h : c.stop = some f) (m : Nat) :
    cbList c m ++ [m + 1] = cbList c (m + 1) := by
  simp [cbList, h, List.range_succ]

/-- what holds when iteration `i` is about to start -/
structure Entry (g : Graph α) (c : BfsCfg α) (S : List α) (Hs : List (List Int)) (i : Nat)
    (s : BfsLoop α) : Prop where
  core : Core g c S Hs i s
  notDone : s.completed = false
  lastLt : ∀ n, 2 ≤ i → s.sizes[i - 1]? = some n → n < c.maxExplore
  allH : s.allH = if c.returnHashes = true then Hs.take (i - 1) else []
  cb : s.cb = cbList c (i - 1)

/-- what holds for the state returned by the loop (`i` = number of layers found) -/
structure Exit (g : Graph α) (c : BfsCfg α) (S : List α) (Hs : List (List Int)) (i : Nat)
    (s : BfsLoop α) : Prop where
  core : Core g c S Hs i s
  fin :
    (s.completed = true ∧ (∀ x, ¬ DistLayer g.nb S i x) ∧
        s.allH = (if c.returnHashes = true then Hs else []) ∧ s.cb = cbList c (i - 1)) ∨
    (s.completed = false ∧ s.allH = (if c.returnHashes = true then Hs.take (i - 1) else []) ∧
      ((i = c.maxDiameter + 1 ∧ s.cb = cbList c (i - 1)) ∨
       (2 ≤ i ∧ (∃ n, s.sizes[i - 1]? = some n ∧ c.maxExplore ≤ n) ∧ s.cb = cbList c (i - 2)) ∨
       (∃ f, c.stop = some f ∧ f (i - 1) s.layer1 = true ∧ s.cb = cbList c (i - 1))))

omit [DecidableEq α] in
theorem bfsLoop_spec {g : Graph α} {S : List α} (h : BfsHyp g S) (c : BfsCfg α) :
    ∀ (fuel i : Nat) (s : BfsLoop α) (Hs : List (List Int)), fuel + i = c.maxDiameter + 1 →
      Entry g c S Hs i s → ∃ Hs' i', Exit g c S Hs' i' (bfsLoop g c fuel i s) := by
  intro fuel
  induction fuel with
  | zero =>
    intro i s Hs hfi he
    refine ⟨Hs, i, ?_⟩
    show Exit g c S Hs i s
    exact ⟨he.core, Or.inr ⟨he.notDone, he.allH, Or.inl ⟨by omega, he.cb⟩⟩⟩
  | succ fuel ih =>
    intro i s Hs hfi he
    have hc := he.core
    have hpos := hc.pos
    rw [bfsLoop_succ]
    obtain ⟨hl, hstr, hperm⟩ := hc.step_layer (c := c) h
    generalize (expandSel g c s).1 = l2 at *
    generalize (expandSel g c s).2 = l2H at *
    -- `all_layers_hashes` after the append of this iteration
    have hallH : (preState g c s).allH = if c.returnHashes = true then Hs else [] := by
      rw [preState_allH, he.allH]
      split
      · exact take_pred_append_last Hs i _ hc.hsLen hpos hc.hsLast
      · rfl
    have hallH' : (preState g c s).allH =
        if c.returnHashes = true then (Hs ++ [l2H]).take (i + 1 - 1) else [] := by
      rw [hallH, Nat.add_sub_cancel, take_snoc_length Hs i l2H hc.hsLen]
    split
    · -- empty next layer: completed
      rename_i hemp
      have hnil : l2 = [] := by
        simpa using hemp
      refine ⟨Hs, i, ?_, Or.inl ⟨rfl, ?_, ?_, ?_⟩⟩
      · exact hc.congr (by simp) (by simp) (by simp) (by simp) (by simp)
      · intro x hx
        have := (hl.2 x).2 hx
        rw [hnil] at this
        exact absurd this (by simp)
      · exact hallH
      · simpa using he.cb
    · rename_i hemp
      have hne : 0 < l2.length := by
        simp only [beq_iff_eq] at hemp; omega
      have hcore2 := hc.post l2 l2H hl hstr hperm hne he.lastLt
      have hsz : (postState g c i (preState g c s) l2 l2H).sizes[i + 1 - 1]? = some l2.length := by
        rw [Nat.add_sub_cancel, postState_sizes, preState_sizes]
        exact getElem?_snoc_eq_some.2 (Or.inr ⟨hc.sizesLen.symm, rfl⟩)
      split
      · -- explore limit reached
        rename_i hexp
        refine ⟨Hs ++ [l2H], i + 1, hcore2, Or.inr ⟨by simpa using he.notDone, ?_, Or.inr (Or.inl ?_)⟩⟩
        · simpa using hallH'
        · refine ⟨by omega, ⟨l2.length, hsz, hexp⟩, ?_⟩
          simpa using he.cb
      · rename_i hexp
        split
        · -- no callback
          rename_i hstop
          apply ih (i + 1) _ (Hs ++ [l2H]) (by omega)
          refine ⟨hcore2, by simpa using he.notDone, ?_, by simpa using hallH', ?_⟩
          · intro n _ hn
            rw [hsz] at hn
            cases hn
            omega
          · rw [postState_cb, preState_cb, he.cb, cbList_none hstop, cbList_none hstop]
        · rename_i f hstop
          have hcb : (postState g c i (preState g c s) l2 l2H).cb ++ [i] = cbList c (i + 1 - 1) := by
            rw [postState_cb, preState_cb, he.cb, Nat.add_sub_cancel]
            have := cbList_succ hstop (i - 1)
            rwa [Nat.sub_add_cancel hpos] at this
          split
          · -- callback asked to stop
            rename_i hf
            refine ⟨Hs ++ [l2H], i + 1, ?_, Or.inr ⟨by simpa using he.notDone, ?_, Or.inr (Or.inr ?_)⟩⟩
            · exact hcore2.congr rfl rfl rfl rfl rfl
            · simpa using hallH'
            · exact ⟨f, hstop, by simpa using hf, hcb⟩
          · apply ih (i + 1) _ (Hs ++ [l2H]) (by omega)
            refine ⟨hcore2.congr rfl rfl rfl rfl rfl, by simpa using he.notDone, ?_,
              by simpa using hallH', hcb⟩
            intro n _ hn
            have hsz' : (postState g c i (preState g c s) l2 l2H).sizes[i + 1 - 1]? = some n := hn
            rw [hsz] at hsz'
            cases hsz'
            omega

/-! ### `bfs` = initial state + loop + final bookkeeping -/

/-- state before the first iteration -/
def bfsInit (g : Graph α) (S : List α) : BfsLoop α :=
  { layer1 := g.unique S, layer1H := (g.unique S).map g.hash, seen := [(g.unique S).map g.hash],
    sizes := [(g.unique S).length], layers := [(0, g.unique S)], allH := [], eStarts := [],
    eEnds := [], cb := [], completed := false }

/-- state after the loop -/
def bfsFinal (g : Graph α) (c : BfsCfg α) (S : List α) : BfsLoop α :=
  bfsLoop g c c.maxDiameter 1 (bfsInit g S)

section out
variable (g : Graph α) (c : BfsCfg α) (S : List α)
omit [DecidableEq α]

theorem bfs_layerSizes : (bfs g c S).layerSizes = (bfsFinal g c S).sizes := rfl
theorem bfs_completed : (bfs g c S).completed = (bfsFinal g c S).completed := rfl
theorem bfs_cbTrace : (bfs g c S).cbTrace = (bfsFinal g c S).cb := rfl
theorem bfs_hashes : (bfs g c S).hashes =
    if (c.returnHashes && !(bfsFinal g c S).completed) = true
    then (bfsFinal g c S).allH ++ [(bfsFinal g c S).layer1H] else (bfsFinal g c S).allH := rfl
theorem bfs_layers : (bfs g c S).layers =
    if ((bfsFinal g c S).completed &&
        !((bfsFinal g c S).layers.any fun p => p.1 == (bfsFinal g c S).sizes.length - 1)) = true
    then (bfsFinal g c S).layers ++ [((bfsFinal g c S).sizes.length - 1, (bfsFinal g c S).layer1)]
    else (bfsFinal g c S).layers := rfl

end out

omit [DecidableEq α] in
theorem isLayer_zero {g : Graph α} {S : List α} (h : BfsHyp g S) : IsLayer g S 0 (g.unique S) := by
  refine ⟨uniqueStates_nodup _ _, ?_⟩
  intro x
  have horb : ∀ y ∈ S, InOrbit g.nb S y := fun y hy => ⟨0, (reach_zero ..).2 hy⟩
  unfold Graph.unique
  rw [uniqueStates_mem g.hash S (fun a ha b hb => h.inj a b (horb a ha) (horb b hb)), distLayer_zero]

omit [DecidableEq α] in
theorem entry_init {g : Graph α} {S : List α} (h : BfsHyp g S) (c : BfsCfg α) :
    Entry g c S [(g.unique S).map g.hash] 1 (bfsInit g S) := by
  have hl0 := isLayer_zero h
  refine ⟨?_, rfl, ?_, ?_, ?_⟩
  · constructor
    · exact Nat.le_refl 1
    · exact hl0
    · rfl
    · intro j H hj
      have hj0 : j = 0 := by
        have := (List.getElem?_eq_some_iff.1 hj).1
        simp at this; omega
      subst hj0
      simp only [List.getElem?_cons_zero, Option.some.injEq] at hj
      subst hj
      exact ⟨uniqueStates_keys_strict _ _, g.unique S, hl0, List.Perm.refl _⟩
    · rfl
    · exact List.Perm.refl _
    · show [(g.unique S).map g.hash] = _
      split <;> rfl
    · rfl
    · intro j n hj
      have hj0 : j = 0 := by
        have := (List.getElem?_eq_some_iff.1 hj).1
        simp [bfsInit] at this; omega
      subst hj0
      simp only [bfsInit, List.getElem?_cons_zero, Option.some.injEq] at hj
      exact ⟨g.unique S, hl0, hj.symm⟩
    · intro j n hj0 hj
      have := (List.getElem?_eq_some_iff.1 hj).1
      simp [bfsInit] at this; omega
    · intro j n hj0 hj1; omega
    · intro j L hm
      simp only [bfsInit, List.mem_singleton, Prod.mk.injEq] at hm
      obtain ⟨rfl, rfl⟩ := hm
      exact hl0
    · intro j
      simp only [bfsInit, List.mem_singleton, Prod.mk.injEq]
      constructor
      · rintro ⟨L, rfl, rfl⟩
        exact ⟨_, rfl, Or.inl rfl⟩
      · rintro ⟨n, hn, -⟩
        have hj0 : j = 0 := by
          have := (List.getElem?_eq_some_iff.1 hn).1
          simp at this; omega
        exact ⟨_, hj0, rfl⟩
  · intro n hn; omega
  · show [] = _
    split <;> rfl
  · show [] = cbList c 0
    unfold cbList
    split <;> rfl

omit [DecidableEq α] in
/-- the master statement about the state returned by the loop of `bfs` -/
theorem bfs_exit {g : Graph α} {S : List α} (h : BfsHyp g S) (c : BfsCfg α) :
    ∃ Hs i, Exit g c S Hs i (bfsFinal g c S) :=
  bfsLoop_spec h c c.maxDiameter 1 (bfsInit g S) _ (by omega) (entry_init h c)

/-! ### the theorems about `bfs` (restated in `CvProps/C01.lean`, `CvProps/C09.lean`) -/

namespace BfsThm
omit [DecidableEq α]

theorem sizes_prefix {g : Graph α} {S : List α} (h : BfsHyp g S) (c : BfsCfg α) (i : Nat)
    (hi : i < (bfs g c S).layerSizes.length) :
    ∃ L, IsLayer g S i L ∧ (bfs g c S).layerSizes[i]? = some L.length := by
  obtain ⟨Hs, k, hex⟩ := bfs_exit h c
  rw [bfs_layerSizes] at hi ⊢
  have hget := List.getElem?_eq_getElem hi
  obtain ⟨L, hL, hn⟩ := hex.core.sizes i _ hget
  exact ⟨L, hL, by rw [hget, hn]⟩

theorem sizes_pos {g : Graph α} {S : List α} (h : BfsHyp g S) (c : BfsCfg α) (i : Nat) (hi : 0 < i)
    (n : Nat) (hn : (bfs g c S).layerSizes[i]? = some n) : 0 < n := by
  obtain ⟨Hs, k, hex⟩ := bfs_exit h c
  rw [bfs_layerSizes] at hn
  exact hex.core.sizesPos i n hi hn

theorem completed_sound {g : Graph α} {S : List α} (h : BfsHyp g S) (c : BfsCfg α)
    (hc : (bfs g c S).completed = true) :
    ∀ x, ¬ DistLayer g.nb S (bfs g c S).layerSizes.length x := by
  obtain ⟨Hs, k, hex⟩ := bfs_exit h c
  rw [bfs_completed] at hc
  rw [bfs_layerSizes, hex.core.sizesLen]
  rcases hex.fin with ⟨-, hemp, -, -⟩ | ⟨hnc, -⟩
  · exact hemp
  · rw [hc] at hnc; cases hnc

theorem stopped_by_rule {g : Graph α} {S : List α} (h : BfsHyp g S) (c : BfsCfg α)
    (hc : (bfs g c S).completed = false) :
    (bfs g c S).layerSizes.length = c.maxDiameter + 1 ∨
    (∃ n, (bfs g c S).layerSizes.getLast? = some n ∧ c.maxExplore ≤ n ∧
        2 ≤ (bfs g c S).layerSizes.length) ∨
    (∃ f L, c.stop = some f ∧ IsLayer g S ((bfs g c S).layerSizes.length - 1) L ∧
        f ((bfs g c S).layerSizes.length - 1) L = true) := by
  obtain ⟨Hs, k, hex⟩ := bfs_exit h c
  rw [bfs_completed] at hc
  rw [bfs_layerSizes, hex.core.sizesLen]
  rcases hex.fin with ⟨hcc, -⟩ | ⟨-, -, hr⟩
  · rw [hc] at hcc; cases hcc
  · rcases hr with ⟨hk, -⟩ | ⟨hk, ⟨n, hn, hexp⟩, -⟩ | ⟨f, hf, hfl, -⟩
    · exact Or.inl hk
    · refine Or.inr (Or.inl ⟨n, ?_, hexp, hk⟩)
      rw [List.getLast?_eq_getElem?, hex.core.sizesLen]
      exact hn
    · exact Or.inr (Or.inr ⟨f, _, hf, hex.core.layer, hfl⟩)

theorem no_early_stop {g : Graph α} {S : List α} (h : BfsHyp g S) (c : BfsCfg α) (i : Nat)
    (hi0 : 0 < i) (hi : i + 1 < (bfs g c S).layerSizes.length) (n : Nat)
    (hn : (bfs g c S).layerSizes[i]? = some n) : n < c.maxExplore := by
  obtain ⟨Hs, k, hex⟩ := bfs_exit h c
  rw [bfs_layerSizes] at hi hn
  rw [hex.core.sizesLen] at hi
  exact hex.core.sizesLt i n hi0 hi hn

theorem stored_sound {g : Graph α} {S : List α} (h : BfsHyp g S) (c : BfsCfg α) (i : Nat)
    (L : List α) (hm : (i, L) ∈ (bfs g c S).layers) : IsLayer g S i L := by
  obtain ⟨Hs, k, hex⟩ := bfs_exit h c
  rw [bfs_layers] at hm
  split at hm
  · rcases List.mem_append.1 hm with hm | hm
    · exact hex.core.layersSound i L hm
    · simp only [List.mem_singleton, Prod.mk.injEq] at hm
      obtain ⟨rfl, rfl⟩ := hm
      rw [hex.core.sizesLen]
      exact hex.core.layer
  · exact hex.core.layersSound i L hm

theorem stored_iff {g : Graph α} {S : List α} (h : BfsHyp g S) (c : BfsCfg α) (i : Nat) :
    (∃ L, (i, L) ∈ (bfs g c S).layers) ↔
      ∃ n, (bfs g c S).layerSizes[i]? = some n ∧
        (i = 0 ∨ n ≤ c.storeLimit ∨
          ((bfs g c S).completed = true ∧ i + 1 = (bfs g c S).layerSizes.length)) := by
  obtain ⟨Hs, k, hex⟩ := bfs_exit h c
  have hc := hex.core
  have hk := hc.pos
  rw [bfs_layers, bfs_layerSizes, bfs_completed]
  generalize bfsFinal g c S = s at *
  have hold := hc.layersIff i
  have hlen := hc.sizesLen
  split
  · rename_i hcond
    simp only [Bool.and_eq_true, Bool.not_eq_true', List.any_eq_false, beq_iff_eq] at hcond
    obtain ⟨hcomp, hnone⟩ := hcond
    simp only [List.mem_append, List.mem_singleton, Prod.mk.injEq]
    constructor
    · rintro ⟨L, hm | ⟨rfl, rfl⟩⟩
      · obtain ⟨n, hn, hcd⟩ := hold.1 ⟨L, hm⟩
        exact ⟨n, hn, by rcases hcd with h0 | h0 <;> simp [h0]⟩
      · have hlt : s.sizes.length - 1 < s.sizes.length := by omega
        exact ⟨_, List.getElem?_eq_getElem hlt, Or.inr (Or.inr ⟨hcomp, by omega⟩)⟩
    · rintro ⟨n, hn, h0 | h0 | ⟨-, h0⟩⟩
      · obtain ⟨L, hm⟩ := hold.2 ⟨n, hn, Or.inl h0⟩
        exact ⟨L, Or.inl hm⟩
      · obtain ⟨L, hm⟩ := hold.2 ⟨n, hn, Or.inr h0⟩
        exact ⟨L, Or.inl hm⟩
      · exact ⟨s.layer1, Or.inr ⟨by omega, rfl⟩⟩
  · rename_i hcond
    constructor
    · rintro ⟨L, hm⟩
      obtain ⟨n, hn, hcd⟩ := hold.1 ⟨L, hm⟩
      exact ⟨n, hn, by rcases hcd with h0 | h0 <;> simp [h0]⟩
    · rintro ⟨n, hn, h0 | h0 | ⟨hcomp, h0⟩⟩
      · exact hold.2 ⟨n, hn, Or.inl h0⟩
      · exact hold.2 ⟨n, hn, Or.inr h0⟩
      · simp only [hcomp, Bool.true_and, Bool.not_eq_true', ← Bool.not_eq_true,
          List.any_eq_true, beq_iff_eq] at hcond
        obtain ⟨⟨j, L⟩, hm, hj⟩ := Classical.not_not.1 hcond
        simp only at hj
        refine ⟨L, ?_⟩
        have : i = j := by omega
        rw [this]; exact hm

/-- the returned `layers_hashes` is the ghost list of the invariant (or empty) -/
theorem hashes_eq {g : Graph α} {S : List α} (h : BfsHyp g S) (c : BfsCfg α) :
    ∃ Hs : List (List Int), Hs.length = (bfs g c S).layerSizes.length ∧
      (∀ j H, Hs[j]? = some H → HashOf g S j H) ∧
      (bfs g c S).hashes = if c.returnHashes = true then Hs else [] := by
  obtain ⟨Hs, k, hex⟩ := bfs_exit h c
  have hc := hex.core
  refine ⟨Hs, ?_, hc.hs, ?_⟩
  · rw [bfs_layerSizes, hc.sizesLen, hc.hsLen]
  · rw [bfs_hashes]
    rcases hex.fin with ⟨hcomp, -, hall, -⟩ | ⟨hcomp, hall, -⟩
    · simp only [hcomp, Bool.not_true, Bool.and_false, Bool.false_eq_true, if_false]
      exact hall
    · simp only [hcomp, Bool.not_false, Bool.and_true]
      rw [hall]
      split
      · exact take_pred_append_last Hs k _ hc.hsLen hc.pos hc.hsLast
      · rfl

theorem hashes_rule {g : Graph α} {S : List α} (h : BfsHyp g S) (c : BfsCfg α) :
    (c.returnHashes = false → (bfs g c S).hashes = []) ∧
    (c.returnHashes = true → (bfs g c S).hashes.length = (bfs g c S).layerSizes.length ∧
      ∀ i H, (bfs g c S).hashes[i]? = some H →
        H.Pairwise (· < ·) ∧ ∃ L, IsLayer g S i L ∧ H.Perm (L.map g.hash)) := by
  obtain ⟨Hs, hlen, hhs, heq⟩ := hashes_eq h c
  constructor
  · intro hr
    rw [heq]; simp [hr]
  · intro hr
    rw [heq, if_pos hr]
    exact ⟨hlen, hhs⟩

theorem callback_trace {g : Graph α} {S : List α} (h : BfsHyp g S) (c : BfsCfg α) :
    (c.stop = none → (bfs g c S).cbTrace = []) ∧
    (∀ f, c.stop = some f → ∃ m, (bfs g c S).cbTrace = (List.range m).map (· + 1) ∧
        (m + 1 = (bfs g c S).layerSizes.length ∨
         (m + 2 = (bfs g c S).layerSizes.length ∧
            ∃ n, (bfs g c S).layerSizes.getLast? = some n ∧ c.maxExplore ≤ n))) := by
  obtain ⟨Hs, k, hex⟩ := bfs_exit h c
  have hc := hex.core
  have hk := hc.pos
  rw [bfs_cbTrace, bfs_layerSizes, hc.sizesLen]
  have hcb : (bfsFinal g c S).cb = cbList c (k - 1) ∨
      ((bfsFinal g c S).cb = cbList c (k - 2) ∧ 2 ≤ k ∧
        ∃ n, (bfsFinal g c S).sizes[k - 1]? = some n ∧ c.maxExplore ≤ n) := by
    rcases hex.fin with ⟨-, -, -, hcb⟩ | ⟨-, -, ⟨-, hcb⟩ | ⟨h2, hn, hcb⟩ | ⟨f, -, -, hcb⟩⟩
    · exact Or.inl hcb
    · exact Or.inl hcb
    · exact Or.inr ⟨hcb, h2, hn⟩
    · exact Or.inl hcb
  constructor
  · intro hs
    rcases hcb with hcb | ⟨hcb, -⟩ <;> rw [hcb, cbList_none hs]
  · intro f hf
    rcases hcb with hcb | ⟨hcb, h2, n, hn, hexp⟩
    · exact ⟨k - 1, by rw [hcb, cbList_some hf], Or.inl (by omega)⟩
    · refine ⟨k - 2, by rw [hcb, cbList_some hf], Or.inr ⟨by omega, n, ?_, hexp⟩⟩
      rw [List.getLast?_eq_getElem?, hc.sizesLen]
      exact hn

theorem layers_eq_dist {g : Graph α} {S : List α} (h : BfsHyp g S) (c : BfsCfg α)
    (hc : (bfs g c S).completed = true) :
    (∀ i, i < (bfs g c S).layerSizes.length →
        ∃ L, IsLayer g S i L ∧ (bfs g c S).layerSizes[i]? = some L.length) ∧
    (∀ x, ¬ DistLayer g.nb S (bfs g c S).layerSizes.length x) ∧
    (∀ i L, (i, L) ∈ (bfs g c S).layers → IsLayer g S i L) ∧
    (∃ L, ((bfs g c S).layerSizes.length - 1, L) ∈ (bfs g c S).layers) := by
  refine ⟨sizes_prefix h c, completed_sound h c hc, stored_sound h c, ?_⟩
  rw [stored_iff h c]
  have hpos : 0 < (bfs g c S).layerSizes.length := by
    obtain ⟨Hs, k, hex⟩ := bfs_exit h c
    rw [bfs_layerSizes, hex.core.sizesLen]
    exact hex.core.pos
  have hlt : (bfs g c S).layerSizes.length - 1 < (bfs g c S).layerSizes.length := by omega
  exact ⟨_, List.getElem?_eq_getElem hlt, Or.inr (Or.inr ⟨hc, by omega⟩)⟩

theorem completes {g : Graph α} {S : List α} (h : BfsHyp g S) (c : BfsCfg α) (k : Nat) (hk : 1 ≤ k)
    (hkd : k ≤ c.maxDiameter) (hempty : ∀ x, ¬ DistLayer g.nb S k x)
    (hexp : ∀ i L, IsLayer g S i L → L.length < c.maxExplore)
    (hstop : ∀ f, c.stop = some f → ∀ i l, f i l = false) : (bfs g c S).completed = true := by
  cases hcomp : (bfs g c S).completed with
  | true => rfl
  | false =>
    exfalso
    rcases stopped_by_rule h c hcomp with hlen | ⟨n, hn, hge, hlen⟩ | ⟨f, L, hf, -, hfl⟩
    · have hlt : k < (bfs g c S).layerSizes.length := by omega
      obtain ⟨L, hL, hsz⟩ := sizes_prefix h c k hlt
      have hp := sizes_pos h c k (by omega) _ hsz
      obtain ⟨x, hx⟩ := List.exists_mem_of_length_pos hp
      exact hempty x ((hL.2 x).1 hx)
    · rw [List.getLast?_eq_getElem?] at hn
      obtain ⟨L, hL, hsz⟩ := sizes_prefix h c ((bfs g c S).layerSizes.length - 1) (by omega)
      rw [hn] at hsz
      cases hsz
      have := hexp _ L hL
      omega
    · rw [hstop f hf] at hfl; cases hfl

theorem config_independent (g1 g2 : Graph α) (S : List α) (hnb : g1.nb = g2.nb)
    (h1 : BfsHyp g1 S) (h2 : BfsHyp g2 S) (c1 c2 : BfsCfg α)
    (hc1 : (bfs g1 c1 S).completed = true) (hc2 : (bfs g2 c2 S).completed = true) :
    (bfs g1 c1 S).layerSizes = (bfs g2 c2 S).layerSizes := by
  -- a reported layer index ≥ 1 on one side cannot be the (empty) class where the other side stopped
  have key : ∀ (ga gb : Graph α) (ca cb : BfsCfg α), ga.nb = gb.nb → BfsHyp ga S → BfsHyp gb S →
      (bfs ga ca S).completed = true →
      ¬ (bfs ga ca S).layerSizes.length < (bfs gb cb S).layerSizes.length := by
    intro ga gb ca cb hab ha hb hca hlt
    have hpos : 0 < (bfs ga ca S).layerSizes.length := by
      obtain ⟨Hs, k, hex⟩ := bfs_exit ha ca
      rw [bfs_layerSizes, hex.core.sizesLen]
      exact hex.core.pos
    obtain ⟨L, hL, hsz⟩ := sizes_prefix hb cb _ hlt
    have hp := sizes_pos hb cb _ hpos _ hsz
    obtain ⟨x, hx⟩ := List.exists_mem_of_length_pos hp
    apply completed_sound ha ca hca x
    rw [hab]
    exact (hL.2 x).1 hx
  have hlen : (bfs g1 c1 S).layerSizes.length = (bfs g2 c2 S).layerSizes.length := by
    have k1 := key g1 g2 c1 c2 hnb h1 h2 hc1
    have k2 := key g2 g1 c2 c1 hnb.symm h2 h1 hc2
    omega
  apply List.ext_getElem? 
  intro i
  by_cases hi : i < (bfs g1 c1 S).layerSizes.length
  · obtain ⟨L1, hL1, hs1⟩ := sizes_prefix h1 c1 i hi
    obtain ⟨L2, hL2, hs2⟩ := sizes_prefix h2 c2 i (hlen ▸ hi)
    rw [hs1, hs2, (IsLayer.perm hnb hL1 hL2).length_eq]
  · rw [List.getElem?_eq_none (by omega), List.getElem?_eq_none (by omega)]

end BfsThm

end Cv
