/-
  Lemmas about the Python-subset prelude (`CvModel/PyPrelude.lean`) and the bridge (`CvModel/PyBridge.lean`)
  used by worker g5 (constructors that edit lists in place).  Core Lean only.
-/
import CvModel.PyPrelude
import CvModel.PyBridge
import CvModel.Families
import CvProofs.GraphDef
import CvProofs.FamiliesBase
namespace Cv.PyG5
open Cv.Py Cv.GraphDef Cv.Families Cv.Perm

/-! ### `pyRange` -/

theorem pyRange_one (a b : Int) :
    pyRange a b 1 = (List.range (b - a).toNat).map fun (k : Nat) => a + (k : Int) := by
  unfold pyRange
  simp only [show (0 : Int) < 1 by decide, if_true]
  have : (b - a + 1 - 1) / 1 = b - a := by omega
  rw [this]
  apply List.map_congr_left
  intro k _; omega

theorem pyRange_zero_nat (n : Nat) : pyRange 0 (n : Int) 1 = toI (List.range n) := by
  rw [pyRange_one]
  simp only [toI, Int.sub_zero, Int.toNat_natCast]
  apply List.map_congr_left
  intro k _; simp

theorem pyRange_two (a b : Int) :
    pyRange a b 2 = (List.range ((b - a + 1) / 2).toNat).map fun (k : Nat) => a + 2 * (k : Int) := by
  unfold pyRange
  simp only [show (0 : Int) < 2 by decide, if_true]
  have : (b - a + 2 - 1) = b - a + 1 := by omega
  rw [this]

/-! ### `toI`, `pyGet`, `pySet` -/

@[simp] theorem length_toI (l : List Nat) : (toI l).length = l.length := by simp [toI]

theorem toI_injective {a b : List Nat} (h : toI a = toI b) : a = b := by
  unfold toI at h
  exact (List.map_inj_right (fun x y e => by simp only [Int.ofNat_eq_natCast] at e; omega)).1 h

theorem pyGet_toI (l : List Nat) (i : Nat) (h : i < l.length) :
    pyGet (toI l) (i : Int) = some ((l.getD i 0 : Nat) : Int) := by
  unfold pyGet
  simp only [Int.natCast_nonneg, if_true, Int.toNat_natCast, toI, List.getElem?_map]
  simp [List.getD_eq_getElem?_getD, h]

theorem pySet_toI (l : List Nat) (i v : Nat) (h : i < l.length) :
    pySet (toI l) (i : Int) (v : Int) = some (toI (l.set i v)) := by
  unfold pySet
  simp only [Int.natCast_nonneg, if_true, Int.toNat_natCast, length_toI, h]
  simp [toI, List.map_set]

/-! ### `toN?` -/

theorem toN_toI (l : List Nat) : toN? (toI l) = some l := by
  unfold toN? toI
  induction l with
  | nil => rfl
  | cons a t ih =>
    simp only [List.map_cons, List.mapM_cons, Int.ofNat_eq_natCast, Int.natCast_nonneg, if_true,
      Int.toNat_natCast] at ih ⊢
    rw [ih]; rfl

theorem mapM_toN_toI (ls : List (List Nat)) : (ls.map toI).mapM toN? = some ls := by
  induction ls with
  | nil => rfl
  | cons a t ih =>
    simp only [List.map_cons, List.mapM_cons, toN_toI, ih]; rfl

/-! ### `pyStr` -/

theorem pyStr_nat (n : Nat) : pyStr (n : Int) = showNat n := rfl

/-! ### `rawToPermDef` of matching arguments -/

/-- the spec definition `d` is well formed in the sense of `create` -/
def WF (d : PermDef) : Prop :=
  d.gens ≠ [] ∧ (∀ p ∈ d.gens, IsPermOf d.central.length p) ∧ d.names.length = d.gens.length ∧
    d.central ≠ [] ∧ ∀ x ∈ d.central, x < d.central.length

theorem rawToPermDef_mk (gens : List (List Nat)) (central : List Nat) (names : List String) (name : String) :
    rawToPermDef ⟨gens.map toI, some (toI central), some names, some name⟩ =
      PermDef.create gens (some names) (some central) name := by
  simp only [rawToPermDef, mapM_toN_toI, toN_toI, Option.map_some, Option.getD_some]
  rfl

theorem rawToPermDef_of_wf (d : PermDef) (h : WF d) :
    rawToPermDef ⟨d.gens.map toI, some (toI d.central), some d.names, some d.name⟩ = some d := by
  rw [rawToPermDef_mk]
  exact (create_self_iff d).2 h

theorem rawToPermDef_of_not_wf (d : PermDef) (h : ¬ WF d) :
    rawToPermDef ⟨d.gens.map toI, some (toI d.central), some d.names, some d.name⟩ = none := by
  rw [rawToPermDef_mk]
  cases hc : PermDef.create d.gens (some d.names) (some d.central) d.name with
  | none => rfl
  | some d' =>
    exfalso
    obtain ⟨g0, rest, e, h1, h2, h3, h4, h5, e'⟩ := (create_eq_some_iff _ _ _ _ _).1 hc
    simp only [Option.getD_some] at e'
    have : d' = d := by rw [e']
    rw [this] at hc
    exact h ((create_self_iff d).1 hc)

/-- well-formedness from the `_valid` shape of the C15 theorems -/
theorem wf_of_valid (n : Nat) (d : PermDef) (hn : 0 < n) (hg : d.gens ≠ [])
    (h : (∀ p ∈ d.gens, IsPermOf n p) ∧ d.central = List.range n ∧ d.names.length = d.gens.length) :
    WF d := by
  obtain ⟨h1, h2, h3⟩ := h
  refine ⟨hg, ?_, h3, ?_, ?_⟩
  · rw [h2, List.length_range]; exact h1
  · rw [h2]; intro e
    have := congrArg List.length e
    simp at this; omega
  · rw [h2, List.length_range]; intro x hx; exact List.mem_range.1 hx

/-! ### loops that always succeed -/

theorem foldlM_some {α β : Type} (f : β → α → β) (l : List α) (init : β) :
    List.foldlM (m := Option) (fun s a => some (f s a)) init l = some (List.foldl f init l) := by
  induction l generalizing init with
  | nil => rfl
  | cons a t ih => simp only [List.foldlM_cons, List.foldl_cons]; exact ih _

theorem foldlM_congr {α β : Type} (f g : β → α → Option β) (l : List α) (init : β)
    (h : ∀ s, ∀ a ∈ l, f s a = g s a) : List.foldlM f init l = List.foldlM g init l := by
  induction l generalizing init with
  | nil => rfl
  | cons a t ih =>
    simp only [List.foldlM_cons]
    rw [h init a (by simp)]
    cases g init a with
    | none => rfl
    | some s => exact ih s (fun s' a' ha' => h s' a' (by simp [ha']))

end Cv.PyG5
