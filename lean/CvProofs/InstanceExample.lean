/-
  LRX(4) (generators L = rotate left, R = rotate right, X = swap the first two) encoded with width 2: the 8 bits of
  a state fit ONE word, so the identity hasher is used.  All hypotheses of the end-to-end theorems are established
  here; completion of the encoded search is DERIVED from facts about the mathematical graph (evaluated in the kernel
  with the duplicate-free recurrence `absSt`), and the growth function `[1, 3, 5, 6, 5, 3, 1]` is read off.
  Independently, the runs themselves are EVALUATED in the kernel through `Cv.Kernel.bfs_eq_bfsK` (last section); both
  routes agree.  Core Lean only.
-/
import CvProofs.Instance
import CvProofs.BfsKernel
namespace Cv.Instance.Example
open Cv Cv.Codec Cv.Instance

def lrx4 : List (List Nat) := [[1, 2, 3, 0], [3, 0, 1, 2], [1, 0, 2, 3]]
def id4 : List Nat := [0, 1, 2, 3]
def growth : List Nat := [1, 3, 5, 6, 5, 3, 1]

/-- everything the recurrence has seen after 6 steps: all 24 arrangements -/
def all24 : List (List Nat) := (absSt (permGraphNb lrx4) [id4] 6).1

theorem lrx4_perm : ∀ p ∈ lrx4, Cv.Perm.IsPermOf 4 p := by decide
theorem lrx4_invClosed : ∀ p ∈ lrx4, Cv.Perm.inverse p ∈ lrx4 := by decide
theorem id4_encodable : ∀ s ∈ [id4], encodable 2 4 s = true := by decide
theorem id4_length : ∀ s ∈ [id4], s.length = 4 := by decide
theorem encLen_2_4 : encLen 2 4 = 1 := by decide

theorem lrx4_symm : SymmOnOrbit lrx4 [id4] :=
  symmOnOrbit_of_invClosed 4 lrx4 lrx4_perm lrx4_invClosed [id4] id4_length

theorem all24_length : all24.length = 24 := by decide +kernel
theorem all24_closed : ∀ s ∈ all24, ∀ t ∈ permGraphNb lrx4 s, t ∈ all24 := by decide +kernel

theorem orbit_subset : ∀ s, InOrbit (permGraphNb lrx4) [id4] s → s ∈ all24 :=
  Transport.inOrbit_invariant _ _ (· ∈ all24) (by decide +kernel)
    (fun a b ha hb => all24_closed a ha b hb)

theorem class7_empty : ∀ s, ¬ DistLayer (permGraphNb lrx4) [id4] 7 s := by
  intro s hs
  have := ((absSt_spec (permGraphNb lrx4) [id4] 7).1 s).2 hs
  rw [show (absSt (permGraphNb lrx4) [id4] 7).2 = [] by decide +kernel] at this
  simp at this

/-- the classes 0 … 6 computed by the recurrence: duplicate-free, of sizes `growth` -/
theorem class_table : ∀ i, i < 7 →
    (absSt (permGraphNb lrx4) [id4] i).2.Nodup ∧
      growth[i]? = some (absSt (permGraphNb lrx4) [id4] i).2.length := by decide +kernel

theorem growth_spec : ∀ i, i < growth.length → ∃ L : List (List Nat), L.Nodup ∧
    (∀ s, s ∈ L ↔ DistLayer (permGraphNb lrx4) [id4] i s) ∧ growth[i]? = some L.length := by
  intro i hi
  obtain ⟨h1, h2⟩ := class_table i hi
  exact ⟨_, h1, (absSt_spec (permGraphNb lrx4) [id4] i).1, h2⟩

theorem growth_pos : ∀ i n, 0 < i → growth[i]? = some n → 0 < n := by
  intro i n _ h
  have hm : n ∈ growth := List.mem_of_getElem? h
  simp only [growth, List.mem_cons, List.not_mem_nil, or_false] at hm
  omega

/-- the encoded graph of the example: identity hasher, flagged inverse-closed (two-layer window), batch size 1
(every layer with more than one row goes through the batched branch) -/
def gI : Graph (List W) := encodedPermGraph 2 4 lrx4 identityHash true 1

/-- the run is exhaustive: derived from the mathematical facts above, not assumed -/
theorem lrx4_completed : (bfs gI {} ([id4].map (encode 2 4))).completed = true :=
  encoded_bfs_completes 2 4 (by decide) (by decide) lrx4 lrx4_perm identityHash true 1 [id4] id4_encodable
    (identityHash_inj_valid 2 4 encLen_2_4) (fun _ => lrx4_symm) (by decide) {} 7 (by decide) (by decide)
    class7_empty all24 orbit_subset (by rw [all24_length]; decide) (fun f hf => by cases hf)

/-- … and it reports the growth function of LRX(4) -/
theorem lrx4_sizes : (bfs gI {} ([id4].map (encode 2 4))).layerSizes = [1, 3, 5, 6, 5, 3, 1] := by
  have hinj := identityHash_inj_valid 2 4 encLen_2_4
  obtain ⟨a1, a2, -⟩ := encoded_bfs_spec 2 4 (by decide) (by decide) lrx4 lrx4_perm identityHash true 1 [id4]
    id4_encodable hinj (fun _ => lrx4_symm) (by decide) {} lrx4_completed
  obtain ⟨a3, a4⟩ := encoded_sizes_facts 2 4 (by decide) (by decide) lrx4 lrx4_perm identityHash true 1 [id4]
    id4_encodable hinj (fun _ => lrx4_symm) (by decide) {}
  exact sizes_eq_of_spec (DistLayer (permGraphNb lrx4) [id4]) _ growth a1 growth_spec a2 class7_empty a3
    growth_pos a4 (by decide)

/-! ### other configurations of the same mathematical graph -/

/-- width 32: 128 bits = two words per state; collision-free `posHash`; NOT flagged inverse-closed; batch size 5 -/
def gW : Graph (List W) := encodedPermGraph 32 4 lrx4 posHash false 5
def cW : BfsCfg (List W) := { disableBatching := true, returnHashes := true, maxStore := some 1 }

theorem id4_encodable32 : ∀ s ∈ [id4], encodable 32 4 s = true := by decide
theorem encLen_32_4 : encLen 32 4 = 2 := by decide

theorem gW_completed : (bfs gW cW ([id4].map (encode 32 4))).completed = true :=
  encoded_bfs_completes 32 4 (by decide) (by decide) lrx4 lrx4_perm posHash false 5 [id4] id4_encodable32
    (fun x y _ _ h => posHash_injective h) (fun h => by cases h) (by decide) cW 7 (by decide) (by decide)
    class7_empty all24 orbit_subset (by rw [all24_length]; decide) (fun f hf => by cases hf)

/-- width 2 with the collision-free hash and without the inverse-closed flag (instance of the literal hypotheses
of `encoded_bfs_layers_eq_dist`) -/
def gL : Graph (List W) := encodedPermGraph 2 4 lrx4 posHash false 3

theorem gL_completed : (bfs gL {} ([id4].map (encode 2 4))).completed = true :=
  encoded_bfs_completes 2 4 (by decide) (by decide) lrx4 lrx4_perm posHash false 3 [id4] id4_encodable
    (fun x y _ _ h => posHash_injective h) (fun h => by cases h) (by decide) {} 7 (by decide) (by decide)
    class7_empty all24 orbit_subset (by rw [all24_length]; decide) (fun f hf => by cases hf)

/-- un-encoded states; hash = the state read in base 4 (injective on the 24 arrangements) -/
def b4Hash (s : List Nat) : Int := Int.ofNat (s.foldl (fun acc a => acc * 4 + a) 0)
def gP : Graph (List Nat) := plainPermGraph lrx4 b4Hash true 2

theorem b4Hash_inj : ∀ s t, InOrbit (permGraphNb lrx4) [id4] s → InOrbit (permGraphNb lrx4) [id4] t →
    b4Hash s = b4Hash t → s = t := by
  have h : ∀ s ∈ all24, ∀ t ∈ all24, b4Hash s = b4Hash t → s = t := by decide +kernel
  intro s t hs ht
  exact h s (orbit_subset s hs) t (orbit_subset t ht)

theorem gP_completed : (bfs gP {} [id4]).completed = true :=
  plain_bfs_completes lrx4 b4Hash true 2 [id4] b4Hash_inj (fun _ => lrx4_symm) (by decide) {} 7 (by decide)
    (by decide) class7_empty all24 orbit_subset (by rw [all24_length]; decide) (fun f hf => by cases hf)

/-- the literal hypothesis `Symm (permGraphNb perms)` (symmetry on ALL lists, also of the wrong length) fails as soon
as there is a generator: `[]` has the neighbour `[0, 0, 0, 0]`, whose neighbours all have length 4 -/
theorem lrx4_not_symm : ¬ Symm (permGraphNb lrx4) := by
  intro h
  have := h [] [0, 0, 0, 0] (by decide)
  revert this
  decide

/-! ### the runs evaluated in the kernel (`bfs = bfsK`, `CvProofs/BfsKernel.lean`)

Independent of the theorems: the model is executed on the concrete instance. -/

open Cv.Kernel in
/-- the one-word run, every field that the theorems talk about -/
theorem lrx4_run :
    (bfs gI {} ([id4].map (encode 2 4))).completed = true ∧
    (bfs gI {} ([id4].map (encode 2 4))).layerSizes = [1, 3, 5, 6, 5, 3, 1] ∧
    (bfs gI {} ([id4].map (encode 2 4))).layers =
      [(0, [[0xe4#64]]),
       (1, [[0x39#64], [0x93#64], [0xe1#64]]),
       (2, [[0x36#64], [0x4e#64], [0x9c#64], [0x78#64], [0x87#64]]),
       (3, [[0x8d#64], [0xd8#64], [0x4b#64], [0x27#64], [0x72#64], [0x1e#64]]),
       (4, [[0x63#64], [0xd2#64], [0x2d#64], [0xc9#64], [0x1b#64]]),
       (5, [[0x6c#64], [0xb4#64], [0xc6#64]]),
       (6, [[0xb1#64]])] := by
  rw [bfs_eq_bfsK]; decide +kernel

open Cv.Kernel in
/-- the stored layers of the one-word run, decoded -/
theorem lrx4_run_decoded :
    ((bfs gI {} ([id4].map (encode 2 4))).layers.map fun p => (p.1, p.2.map (decode 2 4))) =
      [(0, [[0, 1, 2, 3]]),
       (1, [[1, 2, 3, 0], [3, 0, 1, 2], [1, 0, 2, 3]]),
       (2, [[2, 1, 3, 0], [2, 3, 0, 1], [0, 3, 1, 2], [0, 2, 3, 1], [3, 1, 0, 2]]),
       (3, [[1, 3, 0, 2], [0, 2, 1, 3], [3, 2, 0, 1], [3, 1, 2, 0], [2, 0, 3, 1], [2, 3, 1, 0]]),
       (4, [[3, 0, 2, 1], [2, 0, 1, 3], [1, 3, 2, 0], [1, 2, 0, 3], [3, 2, 1, 0]]),
       (5, [[0, 3, 2, 1], [0, 1, 3, 2], [2, 1, 0, 3]]),
       (6, [[1, 0, 3, 2]])] := by
  rw [bfs_eq_bfsK]; decide +kernel

open Cv.Kernel in
/-- the two-word run (width 32): store limit 1, so only layers 0 and 6 are kept; hashes of all 7 layers returned -/
theorem gW_run :
    (bfs gW cW ([id4].map (encode 32 4))).completed = true ∧
    (bfs gW cW ([id4].map (encode 32 4))).layerSizes = [1, 3, 5, 6, 5, 3, 1] ∧
    (bfs gW cW ([id4].map (encode 32 4))).layers =
      [(0, [[0x0000000100000000#64, 0x0000000300000002#64]]),
       (6, [[0x0000000000000001#64, 0x0000000200000003#64]])] ∧
    (bfs gW cW ([id4].map (encode 32 4))).hashes.map (·.length) = [1, 3, 5, 6, 5, 3, 1] := by
  rw [bfs_eq_bfsK]; decide +kernel

open Cv.Kernel in
/-- the un-encoded run -/
theorem gP_run :
    (bfs gP {} [id4]).completed = true ∧ (bfs gP {} [id4]).layerSizes = [1, 3, 5, 6, 5, 3, 1] ∧
    (bfs gP {} [id4]).layers =
      [(0, [[0, 1, 2, 3]]),
       (1, [[1, 0, 2, 3], [1, 2, 3, 0], [3, 0, 1, 2]]),
       (2, [[0, 2, 3, 1], [2, 1, 3, 0], [2, 3, 0, 1], [3, 1, 0, 2], [0, 3, 1, 2]]),
       (3, [[0, 2, 1, 3], [1, 3, 0, 2], [2, 0, 3, 1], [2, 3, 1, 0], [3, 2, 0, 1], [3, 1, 2, 0]]),
       (4, [[2, 0, 1, 3], [3, 0, 2, 1], [1, 2, 0, 3], [3, 2, 1, 0], [1, 3, 2, 0]]),
       (5, [[0, 1, 3, 2], [0, 3, 2, 1], [2, 1, 0, 3]]),
       (6, [[1, 0, 3, 2]])] := by
  rw [bfs_eq_bfsK]; decide +kernel

/-- cross-check of the two routes on one stored layer: the evaluated layer 3 of the one-word run, decoded, is a
permutation of class 3 as computed by the duplicate-free recurrence on the mathematical graph -/
theorem lrx4_layer3_crosscheck :
    ([[0x8d#64], [0xd8#64], [0x4b#64], [0x27#64], [0x72#64], [0x1e#64]].map (decode 2 4)).Perm
      (absSt (permGraphNb lrx4) [id4] 3).2 := by decide +kernel

/-! ### the hypotheses `hs` (start states encodable) and `hinj` (no collisions) are needed -/

open Cv.Kernel in
/-- `hs`: with width 1 the start state `[0, 1, 2, 3]` is not encodable (the real `encode` asserts); the model's
`encode` keeps the low bit of every entry, the search explores the orbit of `[0, 1, 0, 1]` (6 states), reports
completion after 3 layers, while class 3 of LRX(4) is not empty -/
theorem hs_needed :
    encodable 1 4 id4 = false ∧
    (bfs (encodedPermGraph 1 4 lrx4 identityHash true 1) {} ([id4].map (encode 1 4))).completed = true ∧
    (bfs (encodedPermGraph 1 4 lrx4 identityHash true 1) {} ([id4].map (encode 1 4))).layerSizes = [1, 2, 3] ∧
    DistLayer (permGraphNb lrx4) [id4] 3 [1, 3, 0, 2] := by
  refine ⟨by decide, ?_, ?_, ?_⟩
  · rw [bfs_eq_bfsK]; decide +kernel
  · rw [bfs_eq_bfsK]; decide +kernel
  · exact ((absSt_spec (permGraphNb lrx4) [id4] 3).1 _).1 (by decide +kernel)

open Cv.Kernel in
/-- `hinj`: with a constant hash every neighbour of the start state collides with it; the search reports completion
after layer 0, while class 1 is not empty -/
theorem hinj_needed :
    (bfs (encodedPermGraph 2 4 lrx4 (fun _ => 0) true 1) {} ([id4].map (encode 2 4))).completed = true ∧
    (bfs (encodedPermGraph 2 4 lrx4 (fun _ => 0) true 1) {} ([id4].map (encode 2 4))).layerSizes = [1] ∧
    DistLayer (permGraphNb lrx4) [id4] 1 [1, 2, 3, 0] := by
  refine ⟨?_, ?_, ?_⟩
  · rw [bfs_eq_bfsK]; decide +kernel
  · rw [bfs_eq_bfsK]; decide +kernel
  · exact ((absSt_spec (permGraphNb lrx4) [id4] 1).1 _).1 (by decide +kernel)

open Cv.Kernel in
/-- `hic`: a wrongly set flag.  One generator (rotation of 3 elements, not inverse-closed) flagged inverse-closed: the
two-layer window forgets layer 0 and the three states are reported again and again; the run never completes (here:
stopped by `max_diameter = 5`), class 3 is empty.  (We found no instance where such a run reports completion, so `hic`
may be redundant in the presence of `hcomp`; it is needed by the proof of C01.) -/
theorem hic_wrong_flag :
    (bfs (plainPermGraph [[1, 2, 0]] b4Hash true 2) { maxDiameter := 5 } [[0, 1, 2]]).completed = false ∧
    (bfs (plainPermGraph [[1, 2, 0]] b4Hash true 2) { maxDiameter := 5 } [[0, 1, 2]]).layerSizes =
      [1, 1, 1, 1, 1, 1] ∧
    (bfs (plainPermGraph [[1, 2, 0]] b4Hash false 2) { maxDiameter := 5 } [[0, 1, 2]]).completed = true ∧
    (bfs (plainPermGraph [[1, 2, 0]] b4Hash false 2) { maxDiameter := 5 } [[0, 1, 2]]).layerSizes = [1, 1, 1] ∧
    ∀ s, ¬ DistLayer (permGraphNb [[1, 2, 0]]) [[0, 1, 2]] 3 s := by
  refine ⟨?_, ?_, ?_, ?_, ?_⟩
  · rw [bfs_eq_bfsK]; decide +kernel
  · rw [bfs_eq_bfsK]; decide +kernel
  · rw [bfs_eq_bfsK]; decide +kernel
  · rw [bfs_eq_bfsK]; decide +kernel
  · intro s hs
    have := ((absSt_spec (permGraphNb [[1, 2, 0]]) [[0, 1, 2]] 3).1 s).2 hs
    rw [show (absSt (permGraphNb [[1, 2, 0]]) [[0, 1, 2]] 3).2 = [] by decide +kernel] at this
    simp at this

end Cv.Instance.Example
