/-
  Generic tools for instantiating the abstract BFS theorem (`CvProofs/Bfs.lean`).  Core Lean only.

  1. `Transport.*`   an orbit-injective map `f` with `f ∘ nb₁ = nb₂ ∘ f` on the orbit carries walks, `Reach`,
                     `DistLayer`, layer enumerations and symmetry.
  2. `bfs_congr_act` the result of `bfs` only depends on the action of the generators on the orbit.
  3. `BfsHypO`, `BfsThmO.*`  the BFS theorems under ORBIT-RESTRICTED hypotheses (hash injective on the orbit,
                     graph symmetric on the orbit).  `BfsHyp.symm` asks for symmetry on the whole state type, which
                     a concrete representation does not have (rows that do not encode any state).
-/
import CvProofs.Bfs
namespace Cv

/-! ## 1. transport along an orbit-injective map -/

namespace Transport
variable {α β : Type}

theorem inOrbit_of_mem {nb : α → List α} {S : List α} {x : α} (h : x ∈ S) : InOrbit nb S x :=
  ⟨0, (reach_zero ..).2 h⟩

/-- a property that holds on the start states and is preserved by edges holds on the orbit -/
theorem reach_invariant (nb : α → List α) (S : List α) (P : α → Prop) (hS : ∀ x ∈ S, P x)
    (hstep : ∀ x y, P x → y ∈ nb x → P y) : ∀ n x, Reach nb S n x → P x := by
  intro n
  induction n with
  | zero => intro x h; exact hS x ((reach_zero ..).1 h)
  | succ n ih =>
    intro x h
    obtain ⟨y, hy, hxy⟩ := (reach_succ ..).1 h
    exact hstep y x (ih y hy) hxy

theorem inOrbit_invariant (nb : α → List α) (S : List α) (P : α → Prop) (hS : ∀ x ∈ S, P x)
    (hstep : ∀ x y, P x → y ∈ nb x → P y) (x : α) (hx : InOrbit nb S x) : P x := by
  obtain ⟨n, hn⟩ := hx
  exact reach_invariant nb S P hS hstep n x hn

section
variable (nb₁ : α → List α) (nb₂ : β → List β) (f : α → β) (S : List α)
  (hcomm : ∀ x, InOrbit nb₁ S x → (nb₁ x).map f = nb₂ (f x))
include hcomm

/-- walks are carried forward -/
theorem reach_map : ∀ n x, Reach nb₁ S n x → Reach nb₂ (S.map f) n (f x) := by
  intro n
  induction n with
  | zero =>
    intro x h
    exact (reach_zero ..).2 (List.mem_map_of_mem ((reach_zero ..).1 h))
  | succ n ih =>
    intro x h
    obtain ⟨y, hy, hxy⟩ := (reach_succ ..).1 h
    refine (reach_succ ..).2 ⟨f y, ih y hy, ?_⟩
    rw [← hcomm y ⟨n, hy⟩]
    exact List.mem_map_of_mem hxy

/-- walks are lifted back (surjectivity on the orbit is a consequence of `hcomm`) -/
theorem reach_lift : ∀ n z, Reach nb₂ (S.map f) n z → ∃ x, Reach nb₁ S n x ∧ f x = z := by
  intro n
  induction n with
  | zero =>
    intro z h
    obtain ⟨x, hx, rfl⟩ := List.mem_map.1 ((reach_zero ..).1 h)
    exact ⟨x, (reach_zero ..).2 hx, rfl⟩
  | succ n ih =>
    intro z h
    obtain ⟨z', hz', hzz'⟩ := (reach_succ ..).1 h
    obtain ⟨y, hy, rfl⟩ := ih z' hz'
    rw [← hcomm y ⟨n, hy⟩] at hzz'
    obtain ⟨x, hx, rfl⟩ := List.mem_map.1 hzz'
    exact ⟨x, (reach_succ ..).2 ⟨y, hy, hx⟩, rfl⟩

theorem inOrbit_map (x : α) (hx : InOrbit nb₁ S x) : InOrbit nb₂ (S.map f) (f x) := by
  obtain ⟨n, hn⟩ := hx
  exact ⟨n, reach_map nb₁ nb₂ f S hcomm n x hn⟩

theorem inOrbit_lift (z : β) (hz : InOrbit nb₂ (S.map f) z) : ∃ x, InOrbit nb₁ S x ∧ f x = z := by
  obtain ⟨n, hn⟩ := hz
  obtain ⟨x, hx, hfx⟩ := reach_lift nb₁ nb₂ f S hcomm n z hn
  exact ⟨x, ⟨n, hx⟩, hfx⟩

variable (hinj : ∀ x y, InOrbit nb₁ S x → InOrbit nb₁ S y → f x = f y → x = y)
include hinj

/-- with injectivity on the orbit, `Reach` is reflected as well -/
theorem reach_iff (n : Nat) (x : α) (hx : InOrbit nb₁ S x) :
    Reach nb₁ S n x ↔ Reach nb₂ (S.map f) n (f x) := by
  constructor
  · exact reach_map nb₁ nb₂ f S hcomm n x
  · intro h
    obtain ⟨x', hx', hfx⟩ := reach_lift nb₁ nb₂ f S hcomm n (f x) h
    have : x' = x := hinj x' x ⟨n, hx'⟩ hx hfx
    rwa [this] at hx'

/-- distance classes correspond -/
theorem distLayer_iff (i : Nat) (x : α) (hx : InOrbit nb₁ S x) :
    DistLayer nb₁ S i x ↔ DistLayer nb₂ (S.map f) i (f x) := by
  unfold DistLayer
  rw [reach_iff nb₁ nb₂ f S hcomm hinj i x hx]
  constructor
  · rintro ⟨h1, h2⟩
    exact ⟨h1, fun j hj hr => h2 j hj ((reach_iff nb₁ nb₂ f S hcomm hinj j x hx).2 hr)⟩
  · rintro ⟨h1, h2⟩
    exact ⟨h1, fun j hj hr => h2 j hj ((reach_iff nb₁ nb₂ f S hcomm hinj j x hx).1 hr)⟩

/-- every state of a distance class of the target graph is the image of a state of the same class -/
theorem distLayer_lift (i : Nat) (z : β) (hz : DistLayer nb₂ (S.map f) i z) :
    ∃ x, DistLayer nb₁ S i x ∧ f x = z := by
  obtain ⟨x, hx, rfl⟩ := reach_lift nb₁ nb₂ f S hcomm i z hz.1
  exact ⟨x, (distLayer_iff nb₁ nb₂ f S hcomm hinj i x ⟨i, hx⟩).2 hz, rfl⟩

/-- an enumeration without repetition of class `i` is mapped to one of the corresponding class -/
theorem layer_map (i : Nat) (L : List α) (hnd : L.Nodup) (hmem : ∀ x, x ∈ L ↔ DistLayer nb₁ S i x) :
    (L.map f).Nodup ∧ ∀ z, z ∈ L.map f ↔ DistLayer nb₂ (S.map f) i z := by
  have horb : ∀ x ∈ L, InOrbit nb₁ S x := fun x hx => ((hmem x).1 hx).inOrbit
  constructor
  · rw [List.nodup_iff_pairwise_ne, List.pairwise_map]
    exact List.Pairwise.imp_of_mem
      (fun {a b} ha hb hab hfab => hab (hinj a b (horb a ha) (horb b hb) hfab)) hnd
  · intro z
    rw [List.mem_map]
    constructor
    · rintro ⟨x, hx, rfl⟩
      exact (distLayer_iff nb₁ nb₂ f S hcomm hinj i x (horb x hx)).1 ((hmem x).1 hx)
    · intro hz
      obtain ⟨x, hx, hfx⟩ := distLayer_lift nb₁ nb₂ f S hcomm hinj i z hz
      exact ⟨x, (hmem x).2 hx, hfx⟩

/-- symmetry on the orbit is reflected -/
theorem symm_reflect
    (hsym : ∀ s t, InOrbit nb₂ (S.map f) s → t ∈ nb₂ s → s ∈ nb₂ t) :
    ∀ x y, InOrbit nb₁ S x → y ∈ nb₁ x → x ∈ nb₁ y := by
  intro x y hx hy
  have hyo : InOrbit nb₁ S y := hx.step hy
  have h1 : f y ∈ nb₂ (f x) := by
    rw [← hcomm x hx]; exact List.mem_map_of_mem hy
  have h2 : f x ∈ nb₂ (f y) := hsym (f x) (f y) (inOrbit_map nb₁ nb₂ f S hcomm x hx) h1
  rw [← hcomm y hyo] at h2
  obtain ⟨x', hx', hfx⟩ := List.mem_map.1 h2
  have : x' = x := hinj x' x (hyo.step hx') hx hfx
  rwa [this] at hx'

end
end Transport

/-! ## 2. `bfs` only looks at the action on the orbit -/

section congr
variable {α : Type}

/-- the same graph with another action -/
def Graph.withAct (g : Graph α) (act' : Nat → α → α) : Graph α := { g with act := act' }

theorem neighbors_withAct (g : Graph α) (act' : Nat → α → α) (xs : List α)
    (h : ∀ x ∈ xs, ∀ i, i < g.nGens → act' i x = g.act i x) :
    (g.withAct act').neighbors xs = g.neighbors xs := by
  simp only [Graph.neighbors, Graph.withAct, List.flatMap_def]
  congr 1
  apply List.map_congr_left
  intro i hi
  apply List.map_congr_left
  intro x hx
  exact h x hx i (List.mem_range.1 hi)

theorem nb_withAct (g : Graph α) (act' : Nat → α → α) (x : α)
    (h : ∀ i, i < g.nGens → act' i x = g.act i x) : (g.withAct act').nb x = g.nb x := by
  simp only [Graph.nb, nbOf, Graph.withAct]
  apply List.map_congr_left
  intro i hi
  exact h i (List.mem_range.1 hi)

theorem mem_of_mem_splitBy (ns : List Nat) (xs : List α) (b : List α) (hb : b ∈ splitBy ns xs) :
    ∀ x ∈ b, x ∈ xs := by
  induction ns generalizing xs with
  | nil => simp [splitBy] at hb
  | cons n ns ih =>
    simp only [splitBy, List.mem_cons] at hb
    rcases hb with rfl | hb
    · intro x hx; exact List.mem_of_mem_take hx
    · intro x hx; exact List.mem_of_mem_drop (ih _ hb x hx)

theorem mem_of_mem_tensorSplit (k : Nat) (xs : List α) (b : List α) (hb : b ∈ tensorSplit k xs) :
    ∀ x ∈ b, x ∈ xs := mem_of_mem_splitBy _ xs b hb

theorem foldl_congr_mem {σ τ : Type} (f f' : σ → τ → σ) (l : List τ) (init : σ)
    (h : ∀ a, ∀ b ∈ l, f a b = f' a b) : l.foldl f init = l.foldl f' init := by
  induction l generalizing init with
  | nil => rfl
  | cons b t ih =>
    simp only [List.foldl_cons]
    rw [h init b (by simp)]
    exact ih _ (fun a b' hb' => h a b' (by simp [hb']))

theorem expandPlain_withAct (g : Graph α) (act' : Nat → α → α) (seen : List (List Int)) (xs : List α)
    (h : ∀ x ∈ xs, ∀ i, i < g.nGens → act' i x = g.act i x) :
    expandPlain (g.withAct act') seen xs = expandPlain g seen xs := by
  simp only [expandPlain, Graph.unique, neighbors_withAct g act' xs h]
  rfl

theorem batchStep_withAct (g : Graph α) (act' : Nat → α → α) (seen : List (List Int))
    (acc : List (List α) × List (List Int)) (b : List α)
    (h : ∀ x ∈ b, ∀ i, i < g.nGens → act' i x = g.act i x) :
    batchStep (g.withAct act') seen acc b = batchStep g seen acc b := by
  simp only [batchStep, Graph.unique, neighbors_withAct g act' b h]
  rfl

theorem expandBatched_withAct (g : Graph α) (act' : Nat → α → α) (seen : List (List Int)) (xs : List α)
    (xsH : List Int) (h : ∀ x ∈ xs, ∀ i, i < g.nGens → act' i x = g.act i x) :
    expandBatched (g.withAct act') seen xs xsH = expandBatched g seen xs xsH := by
  rw [expandBatched_eq, expandBatched_eq]
  have hb : (g.withAct act').batchSize = g.batchSize := rfl
  rw [hb]
  rw [foldl_congr_mem (batchStep (g.withAct act') seen) (batchStep g seen)]
  intro a b hbm
  exact batchStep_withAct g act' seen a b
    (fun x hx => h x (mem_of_mem_tensorSplit _ xs b hbm x hx))

/-- members of the plain expansion are neighbours of the expanded rows -/
theorem mem_expandPlain (g : Graph α) (seen : List (List Int)) (xs : List α) (x : α)
    (hx : x ∈ (expandPlain g seen xs).1) : ∃ y ∈ xs, x ∈ g.nb y := by
  simp only [expandPlain] at hx
  have h1 := (List.mem_filter.1 hx).1
  exact (mem_neighbors g xs x).1 (uniqueStates_subset _ _ x h1)

theorem mem_foldl_batchStep (g : Graph α) (seen : List (List Int)) (bs : List (List α))
    (acc : List (List α) × List (List Int)) (Q : α → Prop)
    (hacc : ∀ k ∈ acc.1, ∀ x ∈ k, Q x)
    (hbs : ∀ b ∈ bs, ∀ x ∈ g.neighbors b, Q x) :
    ∀ k ∈ (bs.foldl (batchStep g seen) acc).1, ∀ x ∈ k, Q x := by
  induction bs generalizing acc with
  | nil => exact hacc
  | cons b t ih =>
    simp only [List.foldl_cons]
    apply ih
    · intro k hk x hx
      simp only [batchStep, List.mem_append, List.mem_singleton] at hk
      rcases hk with hk | rfl
      · exact hacc k hk x hx
      · have h1 := (List.mem_filter.1 hx).1
        exact hbs b (by simp) x (uniqueStates_subset _ _ x h1)
    · intro b' hb'; exact hbs b' (by simp [hb'])

/-- members of the batched expansion are neighbours of the expanded rows -/
theorem mem_expandBatched (g : Graph α) (seen : List (List Int)) (xs : List α) (xsH : List Int) (x : α)
    (hx : x ∈ (expandBatched g seen xs xsH).1) : ∃ y ∈ xs, x ∈ g.nb y := by
  rw [expandBatched_eq] at hx
  simp only [List.mem_flatten] at hx
  obtain ⟨k, hk, hxk⟩ := hx
  refine mem_foldl_batchStep g seen _ ([], []) (fun x => ∃ y ∈ xs, x ∈ g.nb y) (by simp) ?_ k hk x hxk
  intro b hb x hx
  obtain ⟨y, hy, hxy⟩ := (mem_neighbors g b x).1 hx
  exact ⟨y, mem_of_mem_tensorSplit _ xs b hb y hy, hxy⟩

theorem mem_expandSel (g : Graph α) (c : BfsCfg α) (s : BfsLoop α) (x : α)
    (hx : x ∈ (expandSel g c s).1) : ∃ y ∈ s.layer1, x ∈ g.nb y := by
  unfold expandSel at hx
  split at hx
  · exact mem_expandBatched g _ _ _ x hx
  · exact mem_expandPlain g _ _ x hx

theorem expandSel_withAct (g : Graph α) (act' : Nat → α → α) (c : BfsCfg α) (s : BfsLoop α)
    (h : ∀ x ∈ s.layer1, ∀ i, i < g.nGens → act' i x = g.act i x) :
    expandSel (g.withAct act') c s = expandSel g c s := by
  unfold expandSel
  rw [expandBatched_withAct g act' _ _ _ h, expandPlain_withAct g act' _ _ h]
  rfl

theorem preState_withAct (g : Graph α) (act' : Nat → α → α) (c : BfsCfg α) (s : BfsLoop α)
    (h : ∀ x ∈ s.layer1, ∀ i, i < g.nGens → act' i x = g.act i x) :
    preState (g.withAct act') c s = preState g c s := by
  unfold preState
  rw [neighbors_withAct g act' _ h]
  rfl

theorem postState_withAct (g : Graph α) (act' : Nat → α → α) (c : BfsCfg α) (i : Nat) (s : BfsLoop α)
    (l2 : List α) (l2H : List Int) :
    postState (g.withAct act') c i s l2 l2H = postState g c i s l2 l2H := rfl

/-- the loop only evaluates the generators on rows of the current layer and their descendants -/
theorem bfsLoop_withAct (g : Graph α) (act' : Nat → α → α) (P : α → Prop)
    (hP : ∀ x, P x → ∀ i, i < g.nGens → act' i x = g.act i x ∧ P (g.act i x))
    (c : BfsCfg α) (fuel : Nat) : ∀ (i : Nat) (s : BfsLoop α), (∀ x ∈ s.layer1, P x) →
      bfsLoop (g.withAct act') c fuel i s = bfsLoop g c fuel i s := by
  induction fuel with
  | zero => intro i s _; rfl
  | succ fuel ih =>
    intro i s hs
    have hact : ∀ x ∈ s.layer1, ∀ i, i < g.nGens → act' i x = g.act i x :=
      fun x hx i hi => (hP x (hs x hx) i hi).1
    have hnext : ∀ x ∈ (expandSel g c s).1, P x := by
      intro x hx
      obtain ⟨y, hy, hxy⟩ := mem_expandSel g c s x hx
      simp only [Graph.nb, nbOf, List.mem_map, List.mem_range] at hxy
      obtain ⟨j, hj, rfl⟩ := hxy
      exact (hP y (hs y hy) j hj).2
    rw [bfsLoop_succ, bfsLoop_succ, expandSel_withAct g act' c s hact, preState_withAct g act' c s hact]
    simp only [postState_withAct]
    split
    · rfl
    · split
      · rfl
      · split
        · exact ih _ _ (by simpa using hnext)
        · split
          · rfl
          · exact ih _ _ (by simpa using hnext)

/-- **congruence**: if `act'` agrees with the generators of `g` on a set `P` that contains the start states and
is closed under the generators, the whole output of `bfs` is the same -/
theorem bfs_congr_act (g : Graph α) (act' : Nat → α → α) (P : α → Prop)
    (hP : ∀ x, P x → ∀ i, i < g.nGens → act' i x = g.act i x ∧ P (g.act i x))
    (c : BfsCfg α) (S : List α) (hS : ∀ x ∈ S, P x) :
    bfs (g.withAct act') c S = bfs g c S := by
  have hloop : bfsLoop (g.withAct act') c c.maxDiameter 1 (bfsInit g S) =
      bfsLoop g c c.maxDiameter 1 (bfsInit g S) := by
    apply bfsLoop_withAct g act' P hP
    intro x hx
    exact hS x (uniqueStates_subset _ _ x hx)
  show bfs (g.withAct act') c S = bfs g c S
  unfold bfs
  exact congrArg
    (fun s : BfsLoop α =>
      ({ layerSizes := s.sizes,
         layers := if s.completed && !(s.layers.any fun p => p.1 == s.sizes.length - 1)
            then s.layers ++ [(s.sizes.length - 1, s.layer1)] else s.layers,
         completed := s.completed,
         hashes := if c.returnHashes && !s.completed then s.allH ++ [s.layer1H] else s.allH,
         edges :=
          if c.returnEdges then
            let (es, ee) :=
              if !s.completed then
                match s.eStarts.getLast?, s.eEnds.getLast? with
                | some v1, some v2 => (s.eStarts ++ [v2], s.eEnds ++ [v1])
                | _, _ => (s.eStarts, s.eEnds)
              else (s.eStarts, s.eEnds)
            some (es.flatten.zip ee.flatten)
          else none,
         cbTrace := s.cb } : BfsOut α)) hloop

end congr

/-! ## 3. the BFS theorems under orbit-restricted hypotheses -/

section orbit
variable {α : Type}

/-- `BfsHyp` with every hypothesis restricted to the orbit of the start set: hash injective on the orbit,
graph symmetric on the orbit (when flagged inverse-closed), batch size ≥ 1 -/
structure BfsHypO (g : Graph α) (S : List α) : Prop where
  inj : ∀ x y, InOrbit g.nb S x → InOrbit g.nb S y → g.hash x = g.hash y → x = y
  symm : g.invClosed = true → ∀ x y, InOrbit g.nb S x → y ∈ g.nb x → x ∈ g.nb y
  batch : 0 < g.batchSize

theorem BfsHyp.toO {g : Graph α} {S : List α} (h : BfsHyp g S) : BfsHypO g S :=
  ⟨h.inj, fun hic x y _ hy => h.symm hic x y hy, h.batch⟩

open Classical in
/-- the generators of `g` on the orbit of `S`, the identity elsewhere (ghost definition used in proofs only) -/
noncomputable def orbitAct (g : Graph α) (S : List α) (i : Nat) (x : α) : α :=
  if InOrbit g.nb S x then g.act i x else x

/-- `g` made trivially symmetric outside the orbit of `S` -/
noncomputable def orbitGraph (g : Graph α) (S : List α) : Graph α := g.withAct (orbitAct g S)

theorem orbitAct_of_orbit (g : Graph α) (S : List α) (i : Nat) (x : α) (hx : InOrbit g.nb S x) :
    orbitAct g S i x = g.act i x := by
  unfold orbitAct; exact if_pos hx

theorem orbitAct_of_not (g : Graph α) (S : List α) (i : Nat) (x : α) (hx : ¬ InOrbit g.nb S x) :
    orbitAct g S i x = x := by
  unfold orbitAct; exact if_neg hx

theorem nb_orbitGraph_of_orbit (g : Graph α) (S : List α) (x : α) (hx : InOrbit g.nb S x) :
    (orbitGraph g S).nb x = g.nb x :=
  nb_withAct g _ x (fun i _ => orbitAct_of_orbit g S i x hx)

theorem mem_nb_orbitGraph_of_not (g : Graph α) (S : List α) (x y : α) (hx : ¬ InOrbit g.nb S x) :
    y ∈ (orbitGraph g S).nb x ↔ 0 < g.nGens ∧ y = x := by
  simp only [orbitGraph, Graph.nb, nbOf, Graph.withAct, List.mem_map, List.mem_range,
    orbitAct_of_not g S _ x hx]
  constructor
  · rintro ⟨i, hi, rfl⟩; exact ⟨by omega, rfl⟩
  · rintro ⟨h, rfl⟩; exact ⟨0, h, rfl⟩

theorem reach_orbitGraph (g : Graph α) (S : List α) (n : Nat) (x : α) :
    Reach (orbitGraph g S).nb S n x ↔ Reach g.nb S n x := by
  induction n generalizing x with
  | zero => rw [reach_zero, reach_zero]
  | succ n ih =>
    rw [reach_succ, reach_succ]
    constructor
    · rintro ⟨y, hy, hxy⟩
      have hy' := (ih y).1 hy
      rw [nb_orbitGraph_of_orbit g S y ⟨n, hy'⟩] at hxy
      exact ⟨y, hy', hxy⟩
    · rintro ⟨y, hy, hxy⟩
      refine ⟨y, (ih y).2 hy, ?_⟩
      rw [nb_orbitGraph_of_orbit g S y ⟨n, hy⟩]
      exact hxy

theorem inOrbit_orbitGraph (g : Graph α) (S : List α) (x : α) :
    InOrbit (orbitGraph g S).nb S x ↔ InOrbit g.nb S x := by
  unfold InOrbit
  simp only [reach_orbitGraph]

theorem distLayer_orbitGraph (g : Graph α) (S : List α) (i : Nat) (x : α) :
    DistLayer (orbitGraph g S).nb S i x ↔ DistLayer g.nb S i x := by
  unfold DistLayer
  simp only [reach_orbitGraph]

theorem isLayer_orbitGraph (g : Graph α) (S : List α) (i : Nat) (L : List α) :
    IsLayer (orbitGraph g S) S i L ↔ IsLayer g S i L := by
  unfold IsLayer
  simp only [distLayer_orbitGraph]

theorem bfsHyp_orbitGraph {g : Graph α} {S : List α} (h : BfsHypO g S) : BfsHyp (orbitGraph g S) S := by
  refine ⟨?_, ?_, h.batch⟩
  · intro x y hx hy hxy
    exact h.inj x y ((inOrbit_orbitGraph g S x).1 hx) ((inOrbit_orbitGraph g S y).1 hy) hxy
  · intro hic x y hy
    by_cases hx : InOrbit g.nb S x
    · rw [nb_orbitGraph_of_orbit g S x hx] at hy
      rw [nb_orbitGraph_of_orbit g S y (hx.step hy)]
      exact h.symm hic x y hx hy
    · obtain ⟨hpos, rfl⟩ := (mem_nb_orbitGraph_of_not g S x y hx).1 hy
      exact hy

theorem bfs_orbitGraph (g : Graph α) (S : List α) (c : BfsCfg α) :
    bfs (orbitGraph g S) c S = bfs g c S := by
  apply bfs_congr_act g (orbitAct g S) (InOrbit g.nb S)
  · intro x hx i hi
    refine ⟨orbitAct_of_orbit g S i x hx, hx.step ?_⟩
    simp only [Graph.nb, nbOf, List.mem_map, List.mem_range]
    exact ⟨i, hi, rfl⟩
  · intro x hx; exact Transport.inOrbit_of_mem hx

namespace BfsThmO

theorem sizes_prefix {g : Graph α} {S : List α} (h : BfsHypO g S) (c : BfsCfg α) (i : Nat)
    (hi : i < (bfs g c S).layerSizes.length) :
    ∃ L, IsLayer g S i L ∧ (bfs g c S).layerSizes[i]? = some L.length := by
  have := BfsThm.sizes_prefix (bfsHyp_orbitGraph h) c i
  simp only [bfs_orbitGraph, isLayer_orbitGraph] at this
  exact this hi

theorem sizes_pos {g : Graph α} {S : List α} (h : BfsHypO g S) (c : BfsCfg α) (i : Nat) (hi : 0 < i)
    (n : Nat) (hn : (bfs g c S).layerSizes[i]? = some n) : 0 < n := by
  have := BfsThm.sizes_pos (bfsHyp_orbitGraph h) c i hi n
  simp only [bfs_orbitGraph] at this
  exact this hn

theorem sizes_length_pos {g : Graph α} {S : List α} (h : BfsHypO g S) (c : BfsCfg α) :
    0 < (bfs g c S).layerSizes.length := by
  rw [← bfs_orbitGraph g S c]
  obtain ⟨Hs, k, hex⟩ := bfs_exit (bfsHyp_orbitGraph h) c
  rw [bfs_layerSizes, hex.core.sizesLen]
  exact hex.core.pos

/-- `BfsThm.layers_eq_dist` under orbit-restricted hypotheses -/
theorem layers_eq_dist {g : Graph α} {S : List α} (h : BfsHypO g S) (c : BfsCfg α)
    (hc : (bfs g c S).completed = true) :
    (∀ i, i < (bfs g c S).layerSizes.length →
        ∃ L, IsLayer g S i L ∧ (bfs g c S).layerSizes[i]? = some L.length) ∧
    (∀ x, ¬ DistLayer g.nb S (bfs g c S).layerSizes.length x) ∧
    (∀ i L, (i, L) ∈ (bfs g c S).layers → IsLayer g S i L) ∧
    (∃ L, ((bfs g c S).layerSizes.length - 1, L) ∈ (bfs g c S).layers) := by
  have := BfsThm.layers_eq_dist (bfsHyp_orbitGraph h) c
  simp only [bfs_orbitGraph, isLayer_orbitGraph, distLayer_orbitGraph] at this
  exact this hc

/-- `BfsThm.completes` under orbit-restricted hypotheses -/
theorem completes {g : Graph α} {S : List α} (h : BfsHypO g S) (c : BfsCfg α) (k : Nat) (hk : 1 ≤ k)
    (hkd : k ≤ c.maxDiameter) (hempty : ∀ x, ¬ DistLayer g.nb S k x)
    (hexp : ∀ i L, IsLayer g S i L → L.length < c.maxExplore)
    (hstop : ∀ f, c.stop = some f → ∀ i l, f i l = false) : (bfs g c S).completed = true := by
  have := BfsThm.completes (bfsHyp_orbitGraph h) c k hk hkd
  simp only [bfs_orbitGraph, isLayer_orbitGraph, distLayer_orbitGraph] at this
  exact this hempty hexp hstop

end BfsThmO

/-- two lists of layer sizes that both describe the same family of distance classes are equal -/
theorem sizes_eq_of_spec {β : Type} (cls : Nat → β → Prop) (l₁ l₂ : List Nat)
    (h₁ : ∀ i, i < l₁.length → ∃ L : List β, L.Nodup ∧ (∀ s, s ∈ L ↔ cls i s) ∧ l₁[i]? = some L.length)
    (h₂ : ∀ i, i < l₂.length → ∃ L : List β, L.Nodup ∧ (∀ s, s ∈ L ↔ cls i s) ∧ l₂[i]? = some L.length)
    (e₁ : ∀ s, ¬ cls l₁.length s) (e₂ : ∀ s, ¬ cls l₂.length s)
    (p₁ : ∀ i n, 0 < i → l₁[i]? = some n → 0 < n) (p₂ : ∀ i n, 0 < i → l₂[i]? = some n → 0 < n)
    (n₁ : 0 < l₁.length) (n₂ : 0 < l₂.length) : l₁ = l₂ := by
  have key : ∀ (la lb : List Nat),
      (∀ i, i < lb.length → ∃ L : List β, L.Nodup ∧ (∀ s, s ∈ L ↔ cls i s) ∧ lb[i]? = some L.length) →
      (∀ s, ¬ cls la.length s) → (∀ i n, 0 < i → lb[i]? = some n → 0 < n) → 0 < la.length →
      ¬ la.length < lb.length := by
    intro la lb hb ea pb na hlt
    obtain ⟨L, -, hL, hsz⟩ := hb _ hlt
    have hp := pb _ _ na hsz
    obtain ⟨x, hx⟩ := List.exists_mem_of_length_pos hp
    exact ea x ((hL x).1 hx)
  have hlen : l₁.length = l₂.length := by
    have k1 := key l₁ l₂ h₂ e₁ p₂ n₁
    have k2 := key l₂ l₁ h₁ e₂ p₁ n₂
    omega
  apply List.ext_getElem?
  intro i
  by_cases hi : i < l₁.length
  · obtain ⟨L1, hn1, hL1, hs1⟩ := h₁ i hi
    obtain ⟨L2, hn2, hL2, hs2⟩ := h₂ i (hlen ▸ hi)
    have hperm : L1.Perm L2 := by
      rw [List.perm_ext_iff_of_nodup hn1 hn2]
      intro a; rw [hL1, hL2]
    rw [hs1, hs2, hperm.length_eq]
  · rw [List.getElem?_eq_none (by omega), List.getElem?_eq_none (by omega)]

end orbit

/-! ## 4. BFS on a representation = distance classes of the represented graph -/

section represented
variable {α β : Type}

/-- `bfs` run on a graph `g` whose states REPRESENT (via `f`, injective and edge-compatible on the orbit) the states
of a graph `nb₂`: an exhaustive run reports the growth function of `nb₂` and every stored layer is mapped by `f` onto
the distance class -/
theorem bfs_represented (g : Graph α) (S : List α) (nb₂ : β → List β) (f : α → β)
    (hcomm : ∀ x, InOrbit g.nb S x → (g.nb x).map f = nb₂ (f x))
    (hinj : ∀ x y, InOrbit g.nb S x → InOrbit g.nb S y → f x = f y → x = y)
    (h : BfsHypO g S) (c : BfsCfg α) (hc : (bfs g c S).completed = true) :
    (∀ i, i < (bfs g c S).layerSizes.length →
      ∃ L : List β, L.Nodup ∧ (∀ z, z ∈ L ↔ DistLayer nb₂ (S.map f) i z) ∧
        (bfs g c S).layerSizes[i]? = some L.length) ∧
    (∀ z, ¬ DistLayer nb₂ (S.map f) (bfs g c S).layerSizes.length z) ∧
    (∀ i L, (i, L) ∈ (bfs g c S).layers →
      (L.map f).Nodup ∧ ∀ z, z ∈ L.map f ↔ DistLayer nb₂ (S.map f) i z) := by
  obtain ⟨h1, h2, h3, -⟩ := BfsThmO.layers_eq_dist h c hc
  refine ⟨?_, ?_, ?_⟩
  · intro i hi
    obtain ⟨L, hL, hsz⟩ := h1 i hi
    obtain ⟨hnd, hmem⟩ := Transport.layer_map g.nb nb₂ f S hcomm hinj i L hL.1 hL.2
    exact ⟨L.map f, hnd, hmem, by rw [hsz, List.length_map]⟩
  · intro z hz
    obtain ⟨x, hx, -⟩ := Transport.distLayer_lift g.nb nb₂ f S hcomm hinj _ z hz
    exact h2 x hx
  · intro i L hm
    have hL := h3 i L hm
    exact Transport.layer_map g.nb nb₂ f S hcomm hinj i L hL.1 hL.2

end represented

end Cv
