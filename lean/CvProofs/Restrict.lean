/-
  The path theorems (`CvProofs/Paths.lean`, `CvProofs/Mitm.lean`) under hypotheses RESTRICTED TO A CLOSED SET `P` of
  states.  `PathHyp g gi` asks that generator `i` of `gi` undoes generator `i` of `g` on EVERY state of the type and that
  the hash is injective on the whole type; a concrete representation (rows of 64-bit words) only has this on the rows
  that encode a state.  `PathHypOn P g gi` asks for it on `P` only, and every theorem is re-derived for inputs in `P`:
  the graph restricted to the subtype `{x // P x}` satisfies the original hypotheses, and the algorithms cannot tell the
  difference (`CvProofs/Sim.lean`).  Core Lean only.
-/
import CvProofs.Sim
import CvProofs.Transport
namespace Cv

variable {α β : Type}

/-! ## 1. an injective simulation carries the mathematics -/

namespace Sim
variable {g' : Graph β} {g : Graph α} {f : β → α}

theorem hcomm (h : Sim g' g f) (S : List β) : ∀ x, InOrbit g'.nb S x → (g'.nb x).map f = g.nb (f x) :=
  fun x _ => (h.nb x).symm

theorem reach_lift (h : Sim g' g f) (S : List β) (n : Nat) (z : α) (hz : Reach g.nb (S.map f) n z) :
    ∃ x, Reach g'.nb S n x ∧ f x = z :=
  Transport.reach_lift g'.nb g.nb f S (h.hcomm S) n z hz

theorem reach_iff (h : Sim g' g f) (finj : Function.Injective f) (S : List β) (n : Nat) (x : β) :
    Reach g'.nb S n x ↔ Reach g.nb (S.map f) n (f x) := by
  constructor
  · exact Transport.reach_map g'.nb g.nb f S (h.hcomm S) n x
  · intro hr
    obtain ⟨x', hx', e⟩ := h.reach_lift S n (f x) hr
    rw [← finj e]; exact hx'

theorem distLayer_iff (h : Sim g' g f) (finj : Function.Injective f) (S : List β) (i : Nat) (x : β) :
    DistLayer g'.nb S i x ↔ DistLayer g.nb (S.map f) i (f x) := by
  unfold DistLayer
  simp only [h.reach_iff finj S]

theorem distLayer_lift (h : Sim g' g f) (finj : Function.Injective f) (S : List β) (i : Nat) (z : α)
    (hz : DistLayer g.nb (S.map f) i z) : ∃ x, DistLayer g'.nb S i x ∧ f x = z := by
  obtain ⟨x, -, rfl⟩ := h.reach_lift S i z hz.1
  exact ⟨x, (h.distLayer_iff finj S i x).2 hz, rfl⟩

theorem walk_iff (h : Sim g' g f) (finj : Function.Injective f) (n : Nat) (a b : β) :
    Walk g'.nb n a b ↔ Walk g.nb n (f a) (f b) := by
  rw [← reach_singleton, ← reach_singleton]
  exact h.reach_iff finj [a] n b

theorem exists_preimage_list (f : β → α) (L : List α) (hL : ∀ x ∈ L, ∃ y, f y = x) :
    ∃ L' : List β, L'.map f = L := by
  induction L with
  | nil => exact ⟨[], rfl⟩
  | cons a t ih =>
    obtain ⟨y, hy⟩ := hL a (by simp)
    obtain ⟨t', ht'⟩ := ih (fun x hx => hL x (by simp [hx]))
    exact ⟨y :: t', by simp [hy, ht']⟩

theorem isLayer_map (h : Sim g' g f) (finj : Function.Injective f) {S : List β} {i : Nat} {L : List β}
    (hL : IsLayer g' S i L) : IsLayer g (S.map f) i (L.map f) := by
  refine ⟨?_, ?_⟩
  · rw [List.nodup_iff_pairwise_ne, List.pairwise_map]
    exact (List.nodup_iff_pairwise_ne.1 hL.1).imp (fun hab e => hab (finj e))
  · intro z
    rw [List.mem_map]
    constructor
    · rintro ⟨x, hx, rfl⟩
      exact (h.distLayer_iff finj S i x).1 ((hL.2 x).1 hx)
    · intro hz
      obtain ⟨x, hx, e⟩ := h.distLayer_lift finj S i z hz
      exact ⟨x, (hL.2 x).2 hx, e⟩

theorem isLayer_lift (h : Sim g' g f) (finj : Function.Injective f) {S : List β} {i : Nat} {L : List α}
    (hL : IsLayer g (S.map f) i L) : ∃ L', L'.map f = L ∧ IsLayer g' S i L' := by
  obtain ⟨L', rfl⟩ := exists_preimage_list f L (fun x hx => by
    obtain ⟨y, -, e⟩ := h.distLayer_lift finj S i x ((hL.2 x).1 hx)
    exact ⟨y, e⟩)
  refine ⟨L', rfl, ?_, ?_⟩
  · have hnd := hL.1
    rw [List.nodup_iff_pairwise_ne, List.pairwise_map] at hnd
    exact hnd.imp (fun hne e => hne (congrArg f e))
  · intro x
    rw [h.distLayer_iff finj S i x, ← hL.2 (f x), List.mem_map]
    constructor
    · intro hx; exact ⟨x, hx, rfl⟩
    · rintro ⟨y, hy, e⟩; rw [← finj e]; exact hy

theorem isBallS_map (h : Sim g' g f) (finj : Function.Injective f) {S : List β} {Hs : List (List Int)}
    (hb : IsBallS g' S Hs) : IsBallS g (S.map f) Hs := by
  intro i H hi
  obtain ⟨hs, L, hnd, hmem, hperm⟩ := hb i H hi
  have hL := h.isLayer_map finj (S := S) (i := i) (L := L) ⟨hnd, hmem⟩
  exact ⟨hs, L.map f, hL.1, hL.2, by rw [h.map_hash]; exact hperm⟩

theorem isBallS_lift (h : Sim g' g f) (finj : Function.Injective f) {S : List β} {Hs : List (List Int)}
    (hb : IsBallS g (S.map f) Hs) : IsBallS g' S Hs := by
  intro i H hi
  obtain ⟨hs, L, hnd, hmem, hperm⟩ := hb i H hi
  obtain ⟨L', rfl, hL'⟩ := h.isLayer_lift finj (S := S) (i := i) (L := L) ⟨hnd, hmem⟩
  exact ⟨hs, L', hL'.1, hL'.2, by rw [h.map_hash] at hperm; exact hperm⟩

end Sim

/-! ## 2. restriction of a graph to a closed set of states -/

/-- `P` is closed under the generators of `g` -/
def ClosedOn (P : α → Prop) (g : Graph α) : Prop := ∀ i, i < g.nGens → ∀ x, P x → P (g.act i x)

/-- `g` on the subtype of the states satisfying `P` (indices that are not generator indices act trivially; the
algorithms never use them) -/
def Graph.restrict (g : Graph α) (P : α → Prop) (hc : ClosedOn P g) : Graph {x // P x} :=
  { nGens := g.nGens,
    act := fun i x => if h : i < g.nGens then ⟨g.act i x.1, hc i h x.1 x.2⟩ else x,
    hash := fun x => g.hash x.1, invClosed := g.invClosed, batchSize := g.batchSize }

theorem sim_restrict (g : Graph α) (P : α → Prop) (hc : ClosedOn P g) :
    Sim (g.restrict P hc) g Subtype.val where
  nGens := rfl
  act := fun i hi x => by simp [Graph.restrict, hi]
  hash := fun _ => rfl
  invClosed := rfl
  batch := rfl

theorem val_inj (P : α → Prop) : Function.Injective (Subtype.val : {x // P x} → α) :=
  fun _ _ e => Subtype.ext e

/-- every list of states in `P` is the image of a list over the subtype -/
theorem exists_sub_list (P : α → Prop) (S : List α) (hS : ∀ s ∈ S, P s) :
    ∃ S' : List {x // P x}, S'.map Subtype.val = S :=
  Sim.exists_preimage_list Subtype.val S (fun x hx => ⟨⟨x, hS x hx⟩, rfl⟩)

/-- `PathHyp` restricted to a closed set `P`: same hasher on `P`, `P` closed under both generator families,
generator `i` of `gi` undoes generator `i` of `g` ON `P`, no hash collisions INSIDE `P` -/
structure PathHypOn (P : α → Prop) (g gi : Graph α) : Prop where
  hashEq : ∀ x, P x → gi.hash x = g.hash x
  nGens : gi.nGens = g.nGens
  closed : ClosedOn P g
  closedI : ClosedOn P gi
  inv : ∀ i, i < g.nGens → ∀ x, P x → gi.act i (g.act i x) = x ∧ g.act i (gi.act i x) = x
  inj : ∀ x y, P x → P y → g.hash x = g.hash y → x = y

/-- the unrestricted hypothesis is the case `P = everything` -/
theorem PathHyp.on {g gi : Graph α} (h : PathHyp g gi) : PathHypOn (fun _ => True) g gi :=
  ⟨fun x _ => congrFun h.hashEq x, h.nGens, fun _ _ _ _ => trivial, fun _ _ _ _ => trivial,
    fun i hi x _ => h.inv i hi x, fun _ _ _ _ e => h.inj e⟩

/-- symmetry of the graph on `P` -/
def SymmOn (P : α → Prop) (g : Graph α) : Prop := ∀ x y, P x → y ∈ g.nb x → x ∈ g.nb y

/-- `IsInvMap` on `P` -/
def IsInvMapOn (P : α → Prop) (g : Graph α) (m : List Nat) : Prop :=
  m.length = g.nGens ∧
    ∀ i, i < g.nGens → ∃ j, m[i]? = some j ∧ j < g.nGens ∧ ∀ x, P x → g.act j (g.act i x) = x

section restrict
variable {P : α → Prop} {g gi : Graph α}

theorem PathHypOn.symm (h : PathHypOn P g gi) : PathHypOn P gi g where
  hashEq := fun x hx => (h.hashEq x hx).symm
  nGens := h.nGens.symm
  closed := h.closedI
  closedI := h.closed
  inv := fun i hi x hx => ⟨(h.inv i (h.nGens ▸ hi) x hx).2, (h.inv i (h.nGens ▸ hi) x hx).1⟩
  inj := fun x y hx hy e => h.inj x y hx hy (by rw [← h.hashEq x hx, ← h.hashEq y hy]; exact e)

theorem restrict_act (hc : ClosedOn P g) (i : Nat) (hi : i < g.nGens) (x : {x // P x}) :
    ((g.restrict P hc).act i x).1 = g.act i x.1 := by
  simp [Graph.restrict, hi]

/-- the restricted pair satisfies the ORIGINAL hypothesis -/
theorem PathHypOn.pathHyp (h : PathHypOn P g gi) :
    PathHyp (g.restrict P h.closed) (gi.restrict P h.closedI) where
  hashEq := funext fun x => h.hashEq x.1 x.2
  nGens := h.nGens
  inv := fun i hi x => by
    have hi' : i < gi.nGens := h.nGens ▸ hi
    have hi0 : i < g.nGens := hi
    refine ⟨Subtype.ext ?_, Subtype.ext ?_⟩
    · rw [restrict_act h.closedI i hi', restrict_act h.closed i hi0]
      exact (h.inv i hi0 x.1 x.2).1
    · rw [restrict_act h.closed i hi0, restrict_act h.closedI i hi']
      exact (h.inv i hi0 x.1 x.2).2
  inj := fun x y e => Subtype.ext (h.inj x.1 y.1 x.2 y.2 e)

theorem symm_restrict (hc : ClosedOn P g) (hs : SymmOn P g) : Symm (g.restrict P hc).nb := by
  intro x y hy
  have sg := sim_restrict g P hc
  have h1 : y.1 ∈ g.nb x.1 := by rw [sg.nb x]; exact List.mem_map_of_mem hy
  have h2 := hs x.1 y.1 x.2 h1
  rw [sg.nb y] at h2
  obtain ⟨z, hz, e⟩ := List.mem_map.1 h2
  rw [← Subtype.ext e]; exact hz

theorem isInvMap_restrict (hc : ClosedOn P g) {m : List Nat} (hm : IsInvMapOn P g m) :
    IsInvMap (g.restrict P hc) m := by
  refine ⟨hm.1, ?_⟩
  intro i hi
  have hi0 : i < g.nGens := hi
  obtain ⟨j, hj, hjn, hju⟩ := hm.2 i hi0
  refine ⟨j, hj, hjn, fun x => Subtype.ext ?_⟩
  rw [restrict_act hc j hjn, restrict_act hc i hi0]
  exact hju x.1 x.2

theorem bfsHyp_restrict (hc : ClosedOn P g) (hinj : ∀ x y, P x → P y → g.hash x = g.hash y → x = y)
    (hs : g.invClosed = true → SymmOn P g) (hb : 0 < g.batchSize) (S : List {x // P x}) :
    BfsHyp (g.restrict P hc) S :=
  ⟨fun x y _ _ e => Subtype.ext (hinj x.1 y.1 x.2 y.2 e), fun hic => symm_restrict hc (hs hic), hb⟩

end restrict

/-! ## 3. the path theorems for inputs in `P` -/

section on
variable {P : α → Prop} {g gi : Graph α}

/-- transfer of a replayed path from the restricted graph -/
theorem applyPath_restrict (hc : ClosedOn P g) (x : {x // P x}) (p : List Nat) (hp : ∀ i ∈ p, i < g.nGens) :
    applyPath g.act x.1 p = (applyPath (g.restrict P hc).act x p).1 :=
  (sim_restrict g P hc).applyPath x p hp

/-- `find_path_to` (C04) for a ball around a state of `P` and a query state of `P` -/
theorem findPathTo_spec_on (h : PathHypOn P g gi) (c : α) (hc : P c) (Hs : List (List Int))
    (hb : IsBall g c Hs) (q : α) (hq : P q) :
    match findPathTo g gi Hs q with
    | .found p => applyPath g.act c p = q ∧ DistLayer g.nb [c] p.length q ∧ p.length < Hs.length ∧
        ∀ i ∈ p, i < g.nGens
    | .notFound => ∀ i, i < Hs.length → ¬ DistLayer g.nb [c] i q
    | .assertFail _ => False := by
  have sg := sim_restrict g P h.closed
  have sgi := sim_restrict gi P h.closedI
  have hb' : IsBall (g.restrict P h.closed) ⟨c, hc⟩ Hs :=
    sg.isBallS_lift (val_inj P) (S := [⟨c, hc⟩]) hb
  have key := Cv.findPathTo_spec h.pathHyp ⟨c, hc⟩ Hs hb' ⟨q, hq⟩
  have e : findPathTo (g.restrict P h.closed) (gi.restrict P h.closedI) Hs ⟨q, hq⟩ = findPathTo g gi Hs q :=
    (sg.findPathTo sgi Hs ⟨q, hq⟩).symm
  rw [e] at key
  have hd : ∀ n, DistLayer (g.restrict P h.closed).nb [⟨c, hc⟩] n ⟨q, hq⟩ ↔ DistLayer g.nb [c] n q :=
    fun n => sg.distLayer_iff (val_inj P) [⟨c, hc⟩] n ⟨q, hq⟩
  cases hr : findPathTo g gi Hs q with
  | found p =>
    rw [hr] at key
    simp only at key ⊢
    obtain ⟨h1, h2, h3, h4⟩ := key
    refine ⟨?_, (hd _).1 h2, h3, h4⟩
    have := applyPath_restrict h.closed ⟨c, hc⟩ p h4
    rw [h1] at this
    exact this
  | notFound =>
    rw [hr] at key
    intro i hi hdl
    exact key i hi ((hd i).2 hdl)
  | assertFail m => rw [hr] at key; exact key

/-- `revert_path` (C04) on `P` -/
theorem revertPathM_spec_on (hc : ClosedOn P g) (m : List Nat) (hm : IsInvMapOn P g m) (p : List Nat)
    (hp : ∀ i ∈ p, i < g.nGens) (A : α) (hA : P A) :
    ∃ r, revertPathM (some m) p = some r ∧ r.length = p.length ∧ (∀ i ∈ r, i < g.nGens) ∧
         applyPath g.act (applyPath g.act A p) r = A := by
  obtain ⟨r, h1, h2, h3, h4⟩ :=
    Cv.revertPathM_spec (g.restrict P hc) m (isInvMap_restrict hc hm) p hp ⟨A, hA⟩
  refine ⟨r, h1, h2, h3, ?_⟩
  have e1 := applyPath_restrict hc ⟨A, hA⟩ p hp
  have e2 := applyPath_restrict hc (applyPath (g.restrict P hc).act ⟨A, hA⟩ p) r h3
  rw [e1, e2, h4]

/-- `find_path_from` (C04) on `P`; the path uses generator indices -/
theorem findPathFrom_spec_on (h : PathHypOn P g gi) (hic : g.invClosed = true) (m : List Nat)
    (hm : IsInvMapOn P g m) (c : α) (hc : P c) (Hs : List (List Int)) (hb : IsBall g c Hs) (q : α) (hq : P q) :
    match findPathFrom g gi (some m) Hs q with
    | .found p => applyPath g.act q p = c ∧ DistLayer g.nb [c] p.length q ∧ p.length < Hs.length ∧
        ∀ i ∈ p, i < g.nGens
    | .notFound => ∀ i, i < Hs.length → ¬ DistLayer g.nb [c] i q
    | .assertFail _ => False := by
  have sg := sim_restrict g P h.closed
  have sgi := sim_restrict gi P h.closedI
  have hb' : IsBall (g.restrict P h.closed) ⟨c, hc⟩ Hs :=
    sg.isBallS_lift (val_inj P) (S := [⟨c, hc⟩]) hb
  have hm' := isInvMap_restrict h.closed hm
  have key := Cv.findPathFrom_spec h.pathHyp hic m hm' ⟨c, hc⟩ Hs hb' ⟨q, hq⟩
  have kv := Cv.findPathFrom_valid h.pathHyp hic m hm' ⟨c, hc⟩ Hs hb' ⟨q, hq⟩
  have e : findPathFrom (g.restrict P h.closed) (gi.restrict P h.closedI) (some m) Hs ⟨q, hq⟩ =
      findPathFrom g gi (some m) Hs q := (sg.findPathFrom sgi (some m) Hs ⟨q, hq⟩).symm
  rw [e] at key kv
  have hd : ∀ n, DistLayer (g.restrict P h.closed).nb [⟨c, hc⟩] n ⟨q, hq⟩ ↔ DistLayer g.nb [c] n q :=
    fun n => sg.distLayer_iff (val_inj P) [⟨c, hc⟩] n ⟨q, hq⟩
  cases hr : findPathFrom g gi (some m) Hs q with
  | found p =>
    rw [hr] at key
    simp only at key ⊢
    obtain ⟨h1, h2, h3⟩ := key
    have h4 : ∀ i ∈ p, i < g.nGens := kv p hr
    refine ⟨?_, (hd _).1 h2, h3, h4⟩
    have := applyPath_restrict h.closed ⟨q, hq⟩ p h4
    rw [h1] at this
    exact this
  | notFound =>
    rw [hr] at key
    intro i hi hdl
    exact key i hi ((hd i).2 hdl)
  | assertFail m => rw [hr] at key; exact key

/-- walks between states of `P` -/
theorem walk_restrict (hc : ClosedOn P g) (n : Nat) (a b : {x // P x}) :
    Walk (g.restrict P hc).nb n a b ↔ Walk g.nb n a.1 b.1 :=
  (sim_restrict g P hc).walk_iff (val_inj P) n a b

/-- MITM `find_path_to` (C05) on `P`, without size hypothesis -/
theorem mitmFindPathTo_core_on (h : PathHypOn P g gi) (hsi : gi.invClosed = true → SymmOn P gi)
    (hbs : 0 < gi.batchSize) (c : α) (hc : P c) (Hs : List (List Int)) (hball : IsBall g c Hs) (hne : Hs ≠ [])
    (dest : α) (hd : P dest) :
    match mitmFindPathTo g gi Hs dest with
    | .found p => applyPath g.act c p = dest ∧ DistLayer g.nb [c] p.length dest ∧
        p.length ≤ 2 * (Hs.length - 1) ∧ ∀ i ∈ p, i < g.nGens
    | .notFound => (∀ n, n ≤ 2 * (Hs.length - 1) → ¬ Walk g.nb n c dest) ∨
        ∃ k L, 1 ≤ k ∧ k ≤ Hs.length - 1 ∧ IsLayer gi [dest] k L ∧ 10^12 ≤ L.length
    | .assertFail _ => False := by
  have sg := sim_restrict g P h.closed
  have sgi := sim_restrict gi P h.closedI
  have hb' : IsBall (g.restrict P h.closed) ⟨c, hc⟩ Hs :=
    sg.isBallS_lift (val_inj P) (S := [⟨c, hc⟩]) hball
  have key := Cv.mitmFindPathTo_core (g.restrict P h.closed) (gi.restrict P h.closedI) h.pathHyp
    (fun hic => symm_restrict h.closedI (hsi hic)) hbs ⟨c, hc⟩ Hs hb' hne ⟨dest, hd⟩
  have e : mitmFindPathTo (g.restrict P h.closed) (gi.restrict P h.closedI) Hs ⟨dest, hd⟩ =
      mitmFindPathTo g gi Hs dest := (sg.mitmFindPathTo sgi Hs ⟨dest, hd⟩).symm
  rw [e] at key
  cases hr : mitmFindPathTo g gi Hs dest with
  | found p =>
    rw [hr] at key
    simp only at key ⊢
    obtain ⟨h1, h2, h3, h4⟩ := key
    refine ⟨?_, (sg.distLayer_iff (val_inj P) [⟨c, hc⟩] _ ⟨dest, hd⟩).1 h2, h3, h4⟩
    have := applyPath_restrict h.closed ⟨c, hc⟩ p h4
    rw [h1] at this
    exact this
  | notFound =>
    rw [hr] at key
    simp only at key ⊢
    rcases key with h1 | ⟨k, L, hk1, hk2, hL, hbig⟩
    · exact Or.inl fun n hn w => h1 n hn ((walk_restrict h.closed n ⟨c, hc⟩ ⟨dest, hd⟩).2 w)
    · refine Or.inr ⟨k, L.map Subtype.val, hk1, hk2, ?_, by rw [List.length_map]; exact hbig⟩
      exact sgi.isLayer_map (val_inj P) (S := [⟨dest, hd⟩]) hL
  | assertFail m => rw [hr] at key; exact key

/-- MITM `find_path_to` (C05) on `P`; `hexp` as in the abstract theorem -/
theorem mitmFindPathTo_spec_on (h : PathHypOn P g gi) (hsi : gi.invClosed = true → SymmOn P gi)
    (hbs : 0 < gi.batchSize) (c : α) (hc : P c) (Hs : List (List Int)) (hball : IsBall g c Hs) (hne : Hs ≠ [])
    (dest : α) (hd : P dest)
    (hexp : ∀ k L, 1 ≤ k → k ≤ Hs.length - 1 → IsLayer gi [dest] k L → L.length < 10^12) :
    match mitmFindPathTo g gi Hs dest with
    | .found p => applyPath g.act c p = dest ∧ DistLayer g.nb [c] p.length dest ∧
        p.length ≤ 2 * (Hs.length - 1) ∧ ∀ i ∈ p, i < g.nGens
    | .notFound => ∀ n, n ≤ 2 * (Hs.length - 1) → ¬ Walk g.nb n c dest
    | .assertFail _ => False := by
  have key := mitmFindPathTo_core_on h hsi hbs c hc Hs hball hne dest hd
  cases hr : mitmFindPathTo g gi Hs dest with
  | found p => rw [hr] at key; exact key
  | assertFail m => rw [hr] at key; exact key
  | notFound =>
    rw [hr] at key
    rcases key with h1 | ⟨k, L, hk1, hk2, hL, hbig⟩
    · exact h1
    · have := hexp k L hk1 hk2 hL
      exact absurd hbig (by omega)

/-- MITM `find_path_from` (C05) on `P`, without size hypothesis -/
theorem mitmFindPathFrom_core_on (h : PathHypOn P g gi) (hic : g.invClosed = true) (hsym : SymmOn P g)
    (hsi : gi.invClosed = true → SymmOn P gi) (hbs : 0 < gi.batchSize) (m : List Nat) (hm : IsInvMapOn P g m)
    (c : α) (hc : P c) (Hs : List (List Int)) (hball : IsBall g c Hs) (hne : Hs ≠ []) (start : α) (hs : P start) :
    match mitmFindPathFrom g gi (some m) Hs start with
    | .found p => applyPath g.act start p = c ∧ p.length ≤ 2 * (Hs.length - 1) ∧
        (∀ n, Walk g.nb n start c → p.length ≤ n) ∧ ∀ i ∈ p, i < g.nGens
    | .notFound => (∀ n, n ≤ 2 * (Hs.length - 1) → ¬ Walk g.nb n start c) ∨
        ∃ k L, 1 ≤ k ∧ k ≤ Hs.length - 1 ∧ IsLayer gi [start] k L ∧ 10^12 ≤ L.length
    | .assertFail _ => False := by
  have sg := sim_restrict g P h.closed
  have sgi := sim_restrict gi P h.closedI
  have hb' : IsBall (g.restrict P h.closed) ⟨c, hc⟩ Hs :=
    sg.isBallS_lift (val_inj P) (S := [⟨c, hc⟩]) hball
  have key := Cv.mitmFindPathFrom_core (g.restrict P h.closed) (gi.restrict P h.closedI) h.pathHyp hic
    (symm_restrict h.closed hsym) (fun hic => symm_restrict h.closedI (hsi hic)) hbs m
    (isInvMap_restrict h.closed hm) ⟨c, hc⟩ Hs hb' hne ⟨start, hs⟩
  have e : mitmFindPathFrom (g.restrict P h.closed) (gi.restrict P h.closedI) (some m) Hs ⟨start, hs⟩ =
      mitmFindPathFrom g gi (some m) Hs start := (sg.mitmFindPathFrom sgi (some m) Hs ⟨start, hs⟩).symm
  rw [e] at key
  cases hr : mitmFindPathFrom g gi (some m) Hs start with
  | found p =>
    rw [hr] at key
    simp only at key ⊢
    obtain ⟨h1, h2, h3, h4⟩ := key
    refine ⟨?_, h2, fun n w => h3 n ((walk_restrict h.closed n ⟨start, hs⟩ ⟨c, hc⟩).2 w), h4⟩
    have := applyPath_restrict h.closed ⟨start, hs⟩ p h4
    rw [h1] at this
    exact this
  | notFound =>
    rw [hr] at key
    simp only at key ⊢
    rcases key with h1 | ⟨k, L, hk1, hk2, hL, hbig⟩
    · exact Or.inl fun n hn w => h1 n hn ((walk_restrict h.closed n ⟨start, hs⟩ ⟨c, hc⟩).2 w)
    · refine Or.inr ⟨k, L.map Subtype.val, hk1, hk2, ?_, by rw [List.length_map]; exact hbig⟩
      exact sgi.isLayer_map (val_inj P) (S := [⟨start, hs⟩]) hL
  | assertFail m => rw [hr] at key; exact key

/-- MITM `find_path_from` (C05) on `P` -/
theorem mitmFindPathFrom_spec_on (h : PathHypOn P g gi) (hic : g.invClosed = true) (hsym : SymmOn P g)
    (hsi : gi.invClosed = true → SymmOn P gi) (hbs : 0 < gi.batchSize) (m : List Nat) (hm : IsInvMapOn P g m)
    (c : α) (hc : P c) (Hs : List (List Int)) (hball : IsBall g c Hs) (hne : Hs ≠ []) (start : α) (hs : P start)
    (hexp : ∀ k L, 1 ≤ k → k ≤ Hs.length - 1 → IsLayer gi [start] k L → L.length < 10^12) :
    match mitmFindPathFrom g gi (some m) Hs start with
    | .found p => applyPath g.act start p = c ∧ p.length ≤ 2 * (Hs.length - 1) ∧
        (∀ n, Walk g.nb n start c → p.length ≤ n) ∧ ∀ i ∈ p, i < g.nGens
    | .notFound => ∀ n, n ≤ 2 * (Hs.length - 1) → ¬ Walk g.nb n start c
    | .assertFail _ => False := by
  have key := mitmFindPathFrom_core_on h hic hsym hsi hbs m hm c hc Hs hball hne start hs
  cases hr : mitmFindPathFrom g gi (some m) Hs start with
  | found p => rw [hr] at key; exact key
  | assertFail m => rw [hr] at key; exact key
  | notFound =>
    rw [hr] at key
    rcases key with h1 | ⟨k, L, hk1, hk2, hL, hbig⟩
    · exact h1
    · have := hexp k L hk1 hk2 hL
      exact absurd hbig (by omega)

/-- `find_path_between` (C05) for start and destination sets inside `P` (no assumption on the flag) -/
theorem between_spec_on (h : PathHypOn P g gi) (S T : List α) (hS : ∀ s ∈ S, P s) (hT : ∀ t ∈ T, P t) (M : Nat) :
    match findPathBetween g gi S T M with
    | none => False
    | some none => ∀ s ∈ S, ∀ t ∈ T, ∀ n, n ≤ 2 * M → ¬ Walk g.nb n s t
    | some (some r) =>
        r.start ∈ S ∧ applyPath g.act r.start r.edges ∈ T ∧ (∀ i ∈ r.edges, i < g.nGens) ∧
        r.edges.length ≤ 2 * M ∧ ∀ s ∈ S, ∀ t ∈ T, ∀ n, Walk g.nb n s t → r.edges.length ≤ n := by
  have sg := sim_restrict g P h.closed
  have sgi := sim_restrict gi P h.closedI
  obtain ⟨S', rfl⟩ := exists_sub_list P S hS
  obtain ⟨T', rfl⟩ := exists_sub_list P T hT
  have key := Cv.between_spec_noflag h.pathHyp S' T' M
  rw [sg.findPathBetween sgi S' T' M]
  cases hr : findPathBetween (g.restrict P h.closed) (gi.restrict P h.closedI) S' T' M with
  | none => rw [hr] at key; exact key
  | some o =>
    cases o with
    | none =>
      rw [hr] at key
      simp only [Option.map_some, Option.map_none] at key ⊢
      intro s hs t ht n hn w
      obtain ⟨s', hs', rfl⟩ := List.mem_map.1 hs
      obtain ⟨t', ht', rfl⟩ := List.mem_map.1 ht
      exact key s' hs' t' ht' n hn ((walk_restrict h.closed n s' t').2 w)
    | some r =>
      rw [hr] at key
      simp only [Option.map_some, BetweenRes.map] at key ⊢
      obtain ⟨h1, h2, h3, h4, h5⟩ := key
      refine ⟨List.mem_map_of_mem h1, ?_, h3, h4, ?_⟩
      · rw [applyPath_restrict h.closed r.start r.edges h3]
        exact List.mem_map_of_mem h2
      · intro s hs t ht n w
        obtain ⟨s', hs', rfl⟩ := List.mem_map.1 hs
        obtain ⟨t', ht', rfl⟩ := List.mem_map.1 ht
        exact h5 s' hs' t' ht' n ((walk_restrict h.closed n s' t').2 w)

/-- a BFS run with `return_all_hashes` from start states in `P` returns the ball: `hashes[i]` is the sorted tensor of
hashes of distance class `i`, for `i = 0 … K`, `K ≤ max_diameter` -/
theorem bfs_isBall_on (hc : ClosedOn P g) (hinj : ∀ x y, P x → P y → g.hash x = g.hash y → x = y)
    (hsym : g.invClosed = true → SymmOn P g) (hbs : 0 < g.batchSize) (c : BfsCfg α)
    (hr : c.returnHashes = true) (S : List α) (hS : ∀ s ∈ S, P s) :
    ∃ K, K ≤ c.maxDiameter ∧ (bfs g c S).hashes.length = K + 1 ∧ IsBallS g S (bfs g c S).hashes := by
  have sg := sim_restrict g P hc
  obtain ⟨S', rfl⟩ := exists_sub_list P S hS
  obtain ⟨K, -, hK, hlen, hball, -⟩ :=
    bfs_summary (bfsHyp_restrict hc hinj hsym hbs S') (c.comap Subtype.val) hr
  have e : (bfs g c (S'.map Subtype.val)).hashes = (bfs (g.restrict P hc) (c.comap Subtype.val) S').hashes := by
    rw [sg.bfs]; rfl
  rw [e]
  exact ⟨K, hK, hlen, sg.isBallS_map (val_inj P) hball⟩

/-- `_precompute_bfs` (C12) around a state of `P` -/
theorem precomputeBfs_isBall_on (hc : ClosedOn P g) (hinj : ∀ x y, P x → P y → g.hash x = g.hash y → x = y)
    (hsym : g.invClosed = true → SymmOn P g) (hbs : 0 < g.batchSize) (central : α) (hcen : P central)
    (me md : Option Nat) :
    IsBall g central (precomputeBfs g central me md).hashes ∧ (precomputeBfs g central me md).hashes ≠ [] := by
  have sg := sim_restrict g P hc
  obtain ⟨h1, h2⟩ := Cv.precomputeBfs_isBall (g.restrict P hc) ⟨central, hcen⟩
    (bfsHyp_restrict hc hinj hsym hbs _) me md
  have e : (precomputeBfs g central me md).hashes =
      (precomputeBfs (g.restrict P hc) ⟨central, hcen⟩ me md).hashes := sg.precomputeBfs_hashes ⟨central, hcen⟩ me md
  rw [e]
  exact ⟨sg.isBallS_map (val_inj P) (S := [⟨central, hcen⟩]) h1, h2⟩

/-- the hypotheses of the `find_path` theorems, on `P` -/
structure FindHypOn (P : α → Prop) (g gi : Graph α) (invMap : Option (List Nat)) : Prop where
  path : PathHypOn P g gi
  symG : g.invClosed = true → SymmOn P g
  symGi : gi.invClosed = true → SymmOn P gi
  batchG : 0 < g.batchSize
  batchGi : 0 < gi.batchSize
  invMap : g.invClosed = true → ∃ m, invMap = some m ∧ IsInvMapOn P g m

theorem FindHypOn.findHyp {invMap : Option (List Nat)} (H : FindHypOn P g gi invMap) (c : {x // P x}) :
    FindHyp (g.restrict P H.path.closed) (gi.restrict P H.path.closedI) invMap c where
  path := H.path.pathHyp
  bfsG := bfsHyp_restrict H.path.closed H.path.inj H.symG H.batchG _
  bfsGi := bfsHyp_restrict H.path.closedI H.path.symm.inj H.symGi H.batchGi _
  symG := fun hic => symm_restrict H.path.closed (H.symG hic)
  symGi := fun hic => symm_restrict H.path.closedI (H.symGi hic)
  batchG := H.batchG
  batchGi := H.batchGi
  invMap := fun hic => by
    obtain ⟨m, hm1, hm2⟩ := H.invMap hic
    exact ⟨m, hm1, isInvMap_restrict H.path.closed hm2⟩

/-- `find_path` (C12) for a central state and a start state in `P`, without size hypothesis -/
theorem findPath_core_on (invMap : Option (List Nat)) (H : FindHypOn P g gi invMap) (central start : α)
    (hcen : P central) (hst : P start) (me md : Option Nat) :
    match findPath g gi invMap central start me md with
    | .found p => applyPath g.act start p = central ∧ (∀ i ∈ p, i < g.nGens) ∧
        p.length ≤ 2 * ((if g.invClosed then (precomputeBfs g central me md).hashes
          else (precomputeBfs gi central me md).hashes).length - 1) ∧
        ∀ n, Walk g.nb n start central → p.length ≤ n
    | .notFound =>
        (∀ n, n ≤ 2 * ((if g.invClosed then (precomputeBfs g central me md).hashes
          else (precomputeBfs gi central me md).hashes).length - 1) → ¬ Walk g.nb n start central) ∨
        ∃ k L, 1 ≤ k ∧ k ≤ (if g.invClosed then (precomputeBfs g central me md).hashes
          else (precomputeBfs gi central me md).hashes).length - 1 ∧
          IsLayer (if g.invClosed then gi else g) [start] k L ∧ 10^12 ≤ L.length
    | .assertFail _ => False := by
  have sg := sim_restrict g P H.path.closed
  have sgi := sim_restrict gi P H.path.closedI
  have key := Cv.findPath_core (g.restrict P H.path.closed) (gi.restrict P H.path.closedI) invMap
    ⟨central, hcen⟩ ⟨start, hst⟩ (H.findHyp ⟨central, hcen⟩) me md
  have e : findPath (g.restrict P H.path.closed) (gi.restrict P H.path.closedI) invMap ⟨central, hcen⟩
      ⟨start, hst⟩ me md = findPath g gi invMap central start me md :=
    (sg.findPath sgi invMap ⟨central, hcen⟩ ⟨start, hst⟩ me md).symm
  have e1 : (precomputeBfs (g.restrict P H.path.closed) ⟨central, hcen⟩ me md).hashes =
      (precomputeBfs g central me md).hashes := (sg.precomputeBfs_hashes ⟨central, hcen⟩ me md).symm
  have e2 : (precomputeBfs (gi.restrict P H.path.closedI) ⟨central, hcen⟩ me md).hashes =
      (precomputeBfs gi central me md).hashes := (sgi.precomputeBfs_hashes ⟨central, hcen⟩ me md).symm
  have e3 : (g.restrict P H.path.closed).invClosed = g.invClosed := rfl
  have e4 : (g.restrict P H.path.closed).nGens = g.nGens := rfl
  rw [e, e1, e2, e3, e4] at key
  cases hr : findPath g gi invMap central start me md with
  | found p =>
    rw [hr] at key
    simp only at key ⊢
    obtain ⟨h1, h2, h3, h4⟩ := key
    refine ⟨?_, h2, h3, fun n w => h4 n ((walk_restrict H.path.closed n ⟨start, hst⟩ ⟨central, hcen⟩).2 w)⟩
    have := applyPath_restrict H.path.closed ⟨start, hst⟩ p h2
    rw [h1] at this
    exact this
  | notFound =>
    rw [hr] at key
    simp only at key ⊢
    rcases key with h1 | ⟨k, L, hk1, hk2, hL, hbig⟩
    · exact Or.inl fun n hn w =>
        h1 n hn ((walk_restrict H.path.closed n ⟨start, hst⟩ ⟨central, hcen⟩).2 w)
    · refine Or.inr ⟨k, L.map Subtype.val, hk1, hk2, ?_, by rw [List.length_map]; exact hbig⟩
      cases hic : g.invClosed with
      | true =>
        rw [hic] at hL
        simp only [if_true] at hL ⊢
        exact sgi.isLayer_map (val_inj P) (S := [⟨start, hst⟩]) hL
      | false =>
        rw [hic] at hL
        simp only [Bool.false_eq_true, if_false] at hL ⊢
        exact sg.isLayer_map (val_inj P) (S := [⟨start, hst⟩]) hL
  | assertFail m => rw [hr] at key; exact key

/-- `find_path` (C12): whatever is returned replays from the start state to the central state -/
theorem findPath_valid_on (invMap : Option (List Nat)) (H : FindHypOn P g gi invMap) (central start : α)
    (hcen : P central) (hst : P start) (me md : Option Nat) :
    match findPath g gi invMap central start me md with
    | .found p => applyPath g.act start p = central ∧ ∀ i ∈ p, i < g.nGens
    | .notFound => True
    | .assertFail _ => False := by
  have key := findPath_core_on invMap H central start hcen hst me md
  cases hr : findPath g gi invMap central start me md with
  | found p => rw [hr] at key; exact ⟨key.1, key.2.1⟩
  | notFound => trivial
  | assertFail msg => rw [hr] at key; exact key

/-- `find_path` (C12): shortest within twice the depth of the cached ball -/
theorem findPath_shortest_on (invMap : Option (List Nat)) (H : FindHypOn P g gi invMap) (central start : α)
    (hcen : P central) (hst : P start) (me md : Option Nat)
    (hexp : ∀ k L, 1 ≤ k →
      k ≤ (if g.invClosed then (precomputeBfs g central me md).hashes
        else (precomputeBfs gi central me md).hashes).length - 1 →
      IsLayer (if g.invClosed then gi else g) [start] k L → L.length < 10^12) :
    let ball := if g.invClosed then (precomputeBfs g central me md).hashes
      else (precomputeBfs gi central me md).hashes
    match findPath g gi invMap central start me md with
    | .found p => (p.length ≤ 2 * (ball.length - 1)) ∧ ∀ n, Walk g.nb n start central → p.length ≤ n
    | .notFound => ∀ n, n ≤ 2 * (ball.length - 1) → ¬ Walk g.nb n start central
    | .assertFail _ => False := by
  intro ball
  have key := findPath_core_on invMap H central start hcen hst me md
  cases hr : findPath g gi invMap central start me md with
  | found p => rw [hr] at key; exact ⟨key.2.2.1, key.2.2.2⟩
  | assertFail msg => rw [hr] at key; exact key
  | notFound =>
    rw [hr] at key
    rcases key with h1 | ⟨k, L, hk1, hk2, hL, hbig⟩
    · exact h1
    · have := hexp k L hk1 hk2 hL
      exact absurd hbig (by omega)

end on

/-! ## 4. two graphs that agree on a closed set give the same answers on it -/

/-- `g1` and `g2` have the same data on `P` -/
structure AgreeOn (P : α → Prop) (g1 g2 : Graph α) : Prop where
  nGens : g1.nGens = g2.nGens
  act : ∀ i, i < g2.nGens → ∀ x, P x → g1.act i x = g2.act i x
  hash : ∀ x, P x → g1.hash x = g2.hash x
  invClosed : g1.invClosed = g2.invClosed
  batch : g1.batchSize = g2.batchSize

section agree
variable {P : α → Prop} {g1 g2 gi1 gi2 : Graph α}

theorem AgreeOn.sim (h : AgreeOn P g1 g2) (hc : ClosedOn P g2) : Sim (g2.restrict P hc) g1 Subtype.val where
  nGens := h.nGens.symm
  act := fun i hi x => by
    have hi2 : i < g2.nGens := h.nGens ▸ hi
    rw [h.act i hi2 x.1 x.2, restrict_act hc i hi2 x]
  hash := fun x => h.hash x.1 x.2
  invClosed := h.invClosed.symm
  batch := h.batch.symm

theorem findPathTo_agree (h : AgreeOn P g1 g2) (hi : AgreeOn P gi1 gi2) (hc : ClosedOn P g2)
    (hci : ClosedOn P gi2) (Hs : List (List Int)) (x : α) (hx : P x) :
    findPathTo g1 gi1 Hs x = findPathTo g2 gi2 Hs x :=
  ((h.sim hc).findPathTo (hi.sim hci) Hs ⟨x, hx⟩).trans
    ((sim_restrict g2 P hc).findPathTo (sim_restrict gi2 P hci) Hs ⟨x, hx⟩).symm

theorem findPathFrom_agree (h : AgreeOn P g1 g2) (hi : AgreeOn P gi1 gi2) (hc : ClosedOn P g2)
    (hci : ClosedOn P gi2) (m : Option (List Nat)) (Hs : List (List Int)) (x : α) (hx : P x) :
    findPathFrom g1 gi1 m Hs x = findPathFrom g2 gi2 m Hs x :=
  ((h.sim hc).findPathFrom (hi.sim hci) m Hs ⟨x, hx⟩).trans
    ((sim_restrict g2 P hc).findPathFrom (sim_restrict gi2 P hci) m Hs ⟨x, hx⟩).symm

theorem mitmFindPathTo_agree (h : AgreeOn P g1 g2) (hi : AgreeOn P gi1 gi2) (hc : ClosedOn P g2)
    (hci : ClosedOn P gi2) (Hs : List (List Int)) (x : α) (hx : P x) :
    mitmFindPathTo g1 gi1 Hs x = mitmFindPathTo g2 gi2 Hs x :=
  ((h.sim hc).mitmFindPathTo (hi.sim hci) Hs ⟨x, hx⟩).trans
    ((sim_restrict g2 P hc).mitmFindPathTo (sim_restrict gi2 P hci) Hs ⟨x, hx⟩).symm

theorem mitmFindPathFrom_agree (h : AgreeOn P g1 g2) (hi : AgreeOn P gi1 gi2) (hc : ClosedOn P g2)
    (hci : ClosedOn P gi2) (m : Option (List Nat)) (Hs : List (List Int)) (x : α) (hx : P x) :
    mitmFindPathFrom g1 gi1 m Hs x = mitmFindPathFrom g2 gi2 m Hs x :=
  ((h.sim hc).mitmFindPathFrom (hi.sim hci) m Hs ⟨x, hx⟩).trans
    ((sim_restrict g2 P hc).mitmFindPathFrom (sim_restrict gi2 P hci) m Hs ⟨x, hx⟩).symm

theorem findPathBetween_agree (h : AgreeOn P g1 g2) (hi : AgreeOn P gi1 gi2) (hc : ClosedOn P g2)
    (hci : ClosedOn P gi2) (S T : List α) (hS : ∀ s ∈ S, P s) (hT : ∀ t ∈ T, P t) (M : Nat) :
    findPathBetween g1 gi1 S T M = findPathBetween g2 gi2 S T M := by
  obtain ⟨S', rfl⟩ := exists_sub_list P S hS
  obtain ⟨T', rfl⟩ := exists_sub_list P T hT
  rw [(h.sim hc).findPathBetween (hi.sim hci) S' T' M,
    (sim_restrict g2 P hc).findPathBetween (sim_restrict gi2 P hci) S' T' M]

theorem findPath_agree (h : AgreeOn P g1 g2) (hi : AgreeOn P gi1 gi2) (hc : ClosedOn P g2)
    (hci : ClosedOn P gi2) (m : Option (List Nat)) (c x : α) (hcP : P c) (hx : P x) (me md : Option Nat) :
    findPath g1 gi1 m c x me md = findPath g2 gi2 m c x me md :=
  ((h.sim hc).findPath (hi.sim hci) m ⟨c, hcP⟩ ⟨x, hx⟩ me md).trans
    ((sim_restrict g2 P hc).findPath (sim_restrict gi2 P hci) m ⟨c, hcP⟩ ⟨x, hx⟩ me md).symm

theorem bfs_hashes_agree (h : AgreeOn P g1 g2) (hc : ClosedOn P g2) (c : BfsCfg α) (S : List α)
    (hS : ∀ s ∈ S, P s) : (bfs g1 c S).hashes = (bfs g2 c S).hashes := by
  obtain ⟨S', rfl⟩ := exists_sub_list P S hS
  rw [(h.sim hc).bfs c S', (sim_restrict g2 P hc).bfs c S']

end agree

end Cv
