/-
  A kernel-evaluable copy of the BFS model.  Core Lean only.

  `List.mergeSort` and `List.merge` are defined by well-founded recursion, so neither `decide` nor `decide +kernel` can
  evaluate `bfs` on a concrete graph.  `bfsK` is the same algorithm with fuel-driven (structural) copies of the two
  sorting functions; `bfs_eq_bfsK : bfs g c S = bfsK g c S` holds for EVERY graph, configuration and start list, so a
  concrete run can be evaluated by `rw [bfs_eq_bfsK]; decide +kernel`.
-/
import CvProofs.Bfs
namespace Cv.Kernel
open List.MergeSort.Internal

variable {α : Type}

/-! ### structural copies of `List.merge` and `List.mergeSort` -/

def mergeK (le : α → α → Bool) : Nat → List α → List α → List α
  | 0, xs, ys => xs ++ ys
  | _+1, [], ys => ys
  | _+1, x :: xs, [] => x :: xs
  | f+1, x :: xs, y :: ys =>
    if le x y then x :: mergeK le f xs (y :: ys) else y :: mergeK le f (x :: xs) ys

theorem merge_eq_mergeK (le : α → α → Bool) :
    ∀ f xs ys, xs.length + ys.length ≤ f → List.merge xs ys le = mergeK le f xs ys := by
  intro f
  induction f with
  | zero =>
    intro xs ys h
    have h1 : xs = [] := List.eq_nil_of_length_eq_zero (by omega)
    have h2 : ys = [] := List.eq_nil_of_length_eq_zero (by omega)
    subst h1; subst h2; simp [mergeK]
  | succ f ih =>
    intro xs ys h
    cases xs with
    | nil => simp [mergeK]
    | cons x xs =>
      cases ys with
      | nil => simp [mergeK]
      | cons y ys =>
        rw [List.cons_merge_cons]
        simp only [mergeK]
        simp only [List.length_cons] at h
        rw [ih xs (y :: ys) (by simp only [List.length_cons]; omega),
          ih (x :: xs) ys (by simp only [List.length_cons]; omega)]

def msortK (le : α → α → Bool) : Nat → List α → List α
  | 0, l => l
  | _+1, [] => []
  | _+1, [a] => [a]
  | f+1, a :: b :: xs =>
    let L := msortK le f ((a :: b :: xs).take (((a :: b :: xs).length + 1) / 2))
    let R := msortK le f ((a :: b :: xs).drop (((a :: b :: xs).length + 1) / 2))
    mergeK le (L.length + R.length) L R

theorem mergeSort_eq_msortK (le : α → α → Bool) :
    ∀ f (l : List α), l.length ≤ f → l.mergeSort le = msortK le f l := by
  intro f
  induction f with
  | zero =>
    intro l h
    have h1 : l = [] := List.eq_nil_of_length_eq_zero (by omega)
    subst h1; simp [msortK]
  | succ f ih =>
    intro l h
    match l, h with
    | [], _ => simp [msortK]
    | [a], _ => simp [msortK]
    | a :: b :: xs, h =>
      rw [List.mergeSort]
      simp only [splitInTwo_fst, splitInTwo_snd, msortK]
      simp only [List.length_cons] at h
      rw [ih _ (by simp only [List.length_take, List.length_cons]; omega),
        ih _ (by simp only [List.length_drop, List.length_cons]; omega)]
      exact merge_eq_mergeK le _ _ _ (Nat.le_refl _)

/-! ### the model functions that sort -/

def sortByKeyK (key : α → Int) (xs : List α) : List α :=
  msortK (fun a b => decide (key a ≤ key b)) xs.length xs

theorem sortByKey_eq (key : α → Int) (xs : List α) : sortByKey key xs = sortByKeyK key xs :=
  mergeSort_eq_msortK _ _ _ (Nat.le_refl _)

def uniqueStatesK (hash : α → Int) (xs : List α) : List α := dedupAdj hash none (sortByKeyK hash xs)

theorem uniqueStates_eq (hash : α → Int) (xs : List α) : uniqueStates hash xs = uniqueStatesK hash xs := by
  unfold uniqueStates uniqueStatesK
  rw [sortByKey_eq]

def sortIntsK (l : List Int) : List Int := msortK (fun a b => decide (a ≤ b)) l.length l

theorem sortInts_eq (l : List Int) : sortInts l = sortIntsK l :=
  mergeSort_eq_msortK _ _ _ (Nat.le_refl _)

/-! ### the expansion steps, the loop, `bfs` -/

def batchStepK (g : Graph α) (seen : List (List Int)) (acc : List (List α) × List (List Int))
    (batch : List α) : List (List α) × List (List Int) :=
  let u := uniqueStatesK g.hash (g.neighbors batch)
  let keep := u.filter fun x =>
    notSeen seen (g.hash x) && acc.2.all fun ob => !isinSorted ob (g.hash x)
  (acc.1 ++ [keep], acc.2 ++ [keep.map g.hash])

theorem batchStepK_eq (g : Graph α) (seen : List (List Int)) :
    batchStepK g seen = batchStep g seen := by
  funext acc batch
  simp only [batchStepK, batchStep, Graph.unique, uniqueStates_eq]

def expandBatchedK (g : Graph α) (seen : List (List Int)) (layer1 : List α) (layer1H : List Int) :
    List α × List Int :=
  let acc := (tensorSplit (ceilDiv layer1H.length g.batchSize) layer1).foldl (batchStepK g seen) ([], [])
  (acc.1.flatten, sortIntsK acc.2.flatten)

theorem expandBatchedK_eq (g : Graph α) (seen : List (List Int)) (layer1 : List α) (layer1H : List Int) :
    expandBatchedK g seen layer1 layer1H = expandBatched g seen layer1 layer1H := by
  rw [expandBatched_eq, expandBatchedK, batchStepK_eq, sortInts_eq]

def expandPlainK (g : Graph α) (seen : List (List Int)) (layer1 : List α) : List α × List Int :=
  let u := uniqueStatesK g.hash (g.neighbors layer1)
  let l2 := u.filter fun x => notSeen seen (g.hash x)
  (l2, l2.map g.hash)

theorem expandPlainK_eq (g : Graph α) (seen : List (List Int)) (layer1 : List α) :
    expandPlainK g seen layer1 = expandPlain g seen layer1 := by
  simp only [expandPlainK, expandPlain, Graph.unique, uniqueStates_eq]

def expandSelK (g : Graph α) (c : BfsCfg α) (s : BfsLoop α) : List α × List Int :=
  if ((!c.returnEdges && !c.disableBatching) && decide (s.layer1.length > g.batchSize)) = true
  then expandBatchedK g s.seen s.layer1 s.layer1H else expandPlainK g s.seen s.layer1

theorem expandSelK_eq (g : Graph α) (c : BfsCfg α) (s : BfsLoop α) : expandSelK g c s = expandSel g c s := by
  unfold expandSelK expandSel
  rw [expandBatchedK_eq, expandPlainK_eq]

def bfsLoopK (g : Graph α) (c : BfsCfg α) : Nat → Nat → BfsLoop α → BfsLoop α
  | 0, _, s => s
  | fuel+1, i, s =>
    let e := expandSelK g c s
    if (e.1.length == 0) = true then { preState g c s with completed := true }
    else if e.1.length ≥ c.maxExplore then postState g c i (preState g c s) e.1 e.2
    else match c.stop with
      | none => bfsLoopK g c fuel (i + 1) (postState g c i (preState g c s) e.1 e.2)
      | some f =>
        if f i e.1 = true then
          { postState g c i (preState g c s) e.1 e.2 with
            cb := (postState g c i (preState g c s) e.1 e.2).cb ++ [i] }
        else bfsLoopK g c fuel (i + 1)
          { postState g c i (preState g c s) e.1 e.2 with
            cb := (postState g c i (preState g c s) e.1 e.2).cb ++ [i] }

theorem bfsLoopK_eq (g : Graph α) (c : BfsCfg α) :
    ∀ fuel i s, bfsLoopK g c fuel i s = bfsLoop g c fuel i s := by
  intro fuel
  induction fuel with
  | zero => intro i s; rfl
  | succ fuel ih =>
    intro i s
    rw [bfsLoop_succ]
    simp only [bfsLoopK, expandSelK_eq, ih]
    generalize c.stop = st
    cases st <;> rfl

/-- assembling the result of `bfs` from the final loop state -/
def bfsFinish (c : BfsCfg α) (s : BfsLoop α) : BfsOut α :=
  { layerSizes := s.sizes,
    layers := if s.completed && !(s.layers.any fun p => p.1 == s.sizes.length - 1)
      then s.layers ++ [(s.sizes.length - 1, s.layer1)] else s.layers,
    completed := s.completed,
    hashes := if c.returnHashes && !s.completed then s.allH ++ [s.layer1H] else s.allH,
    edges :=
      if c.returnEdges then
        let (es, ee) :=
          if !s.completed then
            match s.eStarts.getLast?, s.eEnds.getLast? with
            | some v1, some v2 => (s.eStarts ++ [v2], s.eEnds ++ [v1])
            | _, _ => (s.eStarts, s.eEnds)
          else (s.eStarts, s.eEnds)
        some (es.flatten.zip ee.flatten)
      else none,
    cbTrace := s.cb }

theorem bfs_eq_finish (g : Graph α) (c : BfsCfg α) (S : List α) :
    bfs g c S = bfsFinish c (bfsFinal g c S) := rfl

/-- state before the first iteration, with the structural sort -/
def bfsInitK (g : Graph α) (S : List α) : BfsLoop α :=
  { layer1 := uniqueStatesK g.hash S, layer1H := (uniqueStatesK g.hash S).map g.hash,
    seen := [(uniqueStatesK g.hash S).map g.hash], sizes := [(uniqueStatesK g.hash S).length],
    layers := [(0, uniqueStatesK g.hash S)], allH := [], eStarts := [], eEnds := [], cb := [],
    completed := false }

theorem bfsInitK_eq (g : Graph α) (S : List α) : bfsInitK g S = bfsInit g S := by
  simp only [bfsInitK, bfsInit, Graph.unique, uniqueStates_eq]

/-- the kernel-evaluable BFS -/
def bfsK (g : Graph α) (c : BfsCfg α) (S : List α) : BfsOut α :=
  bfsFinish c (bfsLoopK g c c.maxDiameter 1 (bfsInitK g S))

/-- **`bfsK` is `bfs`** -/
theorem bfs_eq_bfsK (g : Graph α) (c : BfsCfg α) (S : List α) : bfs g c S = bfsK g c S := by
  rw [bfs_eq_finish, bfsK, bfsLoopK_eq, bfsInitK_eq]
  rfl

end Cv.Kernel
