/-
  The reference BFS `refLayers` (sorted lists, merge sort, no hashing) returns exactly the distance
  classes.  Core Lean only.
-/
import CvModel.Spec
import CvProofs.Spec
namespace Cv

/-! ### `dedupSorted` -/

theorem mem_dedupSorted (l : List Nat) (x : Nat) : x ∈ dedupSorted l ↔ x ∈ l := by
  fun_induction dedupSorted l with
  | case1 => simp
  | case2 a => simp
  | case3 b t ih =>
    rw [ih]; simp
  | case4 a b t h ih =>
    simp only [List.mem_cons] at ih ⊢
    rw [ih]

theorem dedupSorted_strict (l : List Nat) (h : l.Pairwise (· ≤ ·)) :
    (dedupSorted l).Pairwise (· < ·) := by
  fun_induction dedupSorted l with
  | case1 => simp
  | case2 a => simp
  | case3 b t ih =>
    exact ih (List.Pairwise.of_cons h)
  | case4 a b t hab ih =>
    have ht := List.Pairwise.of_cons h
    refine List.Pairwise.cons ?_ (ih ht)
    intro y hy
    rw [mem_dedupSorted] at hy
    have h1 : a ≤ b := List.rel_of_pairwise_cons h (List.mem_cons_self)
    have h2 : b ≤ y := by
      rcases List.mem_cons.1 hy with e | e
      · omega
      · exact List.rel_of_pairwise_cons ht e
    omega

/-! ### `sortDedup` -/

theorem mergeSort_le_sorted (l : List Nat) :
    (l.mergeSort (fun a b => decide (a ≤ b))).Pairwise (· ≤ ·) := by
  have h := List.pairwise_mergeSort (le := fun a b : Nat => decide (a ≤ b))
    (by intro a b c; simp only [decide_eq_true_eq]; omega)
    (by intro a b; simp only [Bool.or_eq_true, decide_eq_true_eq]; omega) l
  exact h.imp (by intro a b hab; simpa using hab)

theorem mem_sortDedup (l : List Nat) (x : Nat) : x ∈ sortDedup l ↔ x ∈ l := by
  unfold sortDedup
  rw [mem_dedupSorted, List.mem_mergeSort]

theorem sortDedup_strict (l : List Nat) : (sortDedup l).Pairwise (· < ·) :=
  dedupSorted_strict _ (mergeSort_le_sorted l)

/-! ### `sdiff` -/

theorem sdiff_sublist (a b : List Nat) : (sdiff a b).Sublist a := by
  fun_induction sdiff a b with
  | case1 b => exact List.Sublist.refl _
  | case2 a _ => exact List.Sublist.refl _
  | case3 x a y b h ih => exact List.Sublist.cons_cons _ ih
  | case4 a y b h1 ih => exact List.Sublist.cons _ ih
  | case5 x a y b h1 h2 ih => exact ih

theorem sdiff_strict (a b : List Nat) (ha : a.Pairwise (· < ·)) : (sdiff a b).Pairwise (· < ·) :=
  ha.sublist (sdiff_sublist a b)

theorem mem_sdiff (a b : List Nat) (ha : a.Pairwise (· < ·)) (hb : b.Pairwise (· < ·)) (x : Nat) :
    x ∈ sdiff a b ↔ x ∈ a ∧ x ∉ b := by
  fun_induction sdiff a b with
  | case1 b => simp
  | case2 a _ => simp
  | case3 u a y b h ih =>
    have ha' := List.Pairwise.of_cons ha
    have hb' : ∀ z ∈ b, y < z := fun z hz => List.rel_of_pairwise_cons hb hz
    simp only [List.mem_cons, ih ha' hb]
    constructor
    · rintro (e | ⟨h1, h2⟩)
      · refine ⟨Or.inl e, ?_⟩
        rintro (e2 | e2)
        · omega
        · have := hb' x e2; omega
      · exact ⟨Or.inr h1, h2⟩
    · rintro ⟨e | h1, h2⟩
      · exact Or.inl e
      · exact Or.inr ⟨h1, h2⟩
  | case4 a y b h1 ih =>
    have ha' := List.Pairwise.of_cons ha
    simp only [List.mem_cons, ih ha' hb]
    constructor
    · rintro ⟨h3, h4⟩
      exact ⟨Or.inr h3, h4⟩
    · rintro ⟨e | h3, h4⟩
      · exact absurd (Or.inl e) h4
      · exact ⟨h3, h4⟩
  | case5 u a y b h1 h2 ih =>
    have hb' := List.Pairwise.of_cons hb
    have hau : ∀ z ∈ a, u < z := fun z hz => List.rel_of_pairwise_cons ha hz
    rw [ih ha hb']
    simp only [List.mem_cons]
    constructor
    · rintro ⟨h3, h4⟩
      refine ⟨h3, ?_⟩
      rintro (e | e)
      · subst e
        rcases h3 with e | e
        · omega
        · have := hau x e; omega
      · exact h4 e
    · rintro ⟨h3, h4⟩
      exact ⟨h3, fun e => h4 (Or.inr e)⟩

/-! ### `List.merge` of strictly sorted disjoint lists -/

theorem merge_strict (l₁ l₂ : List Nat) (h₁ : l₁.Pairwise (· < ·)) (h₂ : l₂.Pairwise (· < ·))
    (hd : ∀ x, x ∈ l₁ → x ∉ l₂) :
    (List.merge l₁ l₂ (fun a b => decide (a ≤ b))).Pairwise (· < ·) := by
  induction l₁ generalizing l₂ with
  | nil => simpa using h₂
  | cons x l₁ ih₁ =>
    induction l₂ with
    | nil => simpa using h₁
    | cons y l₂ ih₂ =>
      have hxy : x ≠ y := by
        intro e; exact hd x List.mem_cons_self (by simp [e])
      simp only [List.merge]
      split <;> rename_i h
      · have hle : x ≤ y := by simpa using h
        apply List.Pairwise.cons
        · intro z m
          rw [List.mem_merge, List.mem_cons] at m
          rcases m with (m|rfl|m)
          · exact List.rel_of_pairwise_cons h₁ m
          · omega
          · have := List.rel_of_pairwise_cons h₂ m; omega
        · exact ih₁ _ h₁.of_cons h₂ (fun z hz => hd z (List.mem_cons_of_mem _ hz))
      · have hle : y < x := by simpa using h
        apply List.Pairwise.cons
        · intro z m
          rw [List.mem_merge, List.mem_cons] at m
          rcases m with ((rfl|m)|m)
          · exact hle
          · have := List.rel_of_pairwise_cons h₁ m; omega
          · exact List.rel_of_pairwise_cons h₂ m
        · exact ih₂ h₂.of_cons (fun z hz hz2 => hd z hz (List.mem_cons_of_mem _ hz2))

/-! ### `refStep` -/

theorem refStep_strict (nb : Nat → List Nat) (seen cur : List Nat) :
    (refStep nb seen cur).Pairwise (· < ·) :=
  sdiff_strict _ _ (sortDedup_strict _)

theorem mem_refStep (nb : Nat → List Nat) (seen cur : List Nat) (hs : seen.Pairwise (· < ·))
    (x : Nat) : x ∈ refStep nb seen cur ↔ (∃ y ∈ cur, x ∈ nb y) ∧ x ∉ seen := by
  unfold refStep
  rw [mem_sdiff _ _ (sortDedup_strict _) hs, mem_sortDedup, List.mem_flatMap]

/-! ### distance classes -/

/-- a state at distance `n+1` has a predecessor at distance `n` -/
theorem distLayer_pred (nb : Nat → List Nat) (S : List Nat) (n x : Nat)
    (h : DistLayer nb S (n+1) x) : ∃ y, DistLayer nb S n y ∧ x ∈ nb y := by
  obtain ⟨hr, hmin⟩ := h
  obtain ⟨y, hy, hxy⟩ := (reach_succ ..).1 hr
  refine ⟨y, ⟨hy, ?_⟩, hxy⟩
  intro j hj hrj
  exact hmin (j+1) (by omega) ((reach_succ ..).2 ⟨y, hrj, hxy⟩)

/-- once a distance class is empty, all later ones are empty -/
theorem distLayer_empty_mono (nb : Nat → List Nat) (S : List Nat) (n : Nat)
    (h : ∀ x, ¬ DistLayer nb S n x) (k : Nat) : ∀ x, ¬ DistLayer nb S (n+k) x := by
  induction k with
  | zero => exact h
  | succ k ih =>
    intro x hx
    obtain ⟨y, hy, _⟩ := distLayer_pred nb S (n+k) x hx
    exact ih y hy

/-- every reachable state lies in some distance class (of index at most the walk length) -/
theorem reach_distLayer (nb : Nat → List Nat) (S : List Nat) (n x : Nat) (h : Reach nb S n x) :
    ∃ i, i ≤ n ∧ DistLayer nb S i x := by
  induction n using Nat.strongRecOn with
  | _ n ih =>
    by_cases hex : ∃ j, j < n ∧ Reach nb S j x
    · obtain ⟨j, hj, hrj⟩ := hex
      obtain ⟨i, hi, hd⟩ := ih j hj hrj
      exact ⟨i, by omega, hd⟩
    · exact ⟨n, Nat.le_refl _, h, fun j hj hrj => hex ⟨j, hj, hrj⟩⟩

/-- the step of the recurrence, stated with set-like hypotheses on `seen` and `cur` -/
theorem step_distLayer (nb : Nat → List Nat) (S : List Nat) (i : Nat) (seen cur : List Nat)
    (hseen : ∀ x, x ∈ seen ↔ ∃ j, j ≤ i ∧ Reach nb S j x)
    (hcur : ∀ x, x ∈ cur ↔ DistLayer nb S i x) (x : Nat) :
    ((∃ y ∈ cur, x ∈ nb y) ∧ x ∉ seen) ↔ DistLayer nb S (i+1) x := by
  constructor
  · rintro ⟨⟨y, hy, hxy⟩, hns⟩
    refine ⟨(reach_succ ..).2 ⟨y, ((hcur y).1 hy).1, hxy⟩, ?_⟩
    intro j hj hr
    exact hns ((hseen x).2 ⟨j, by omega, hr⟩)
  · intro h
    obtain ⟨y, hy, hxy⟩ := distLayer_pred nb S i x h
    refine ⟨⟨y, (hcur y).2 hy, hxy⟩, ?_⟩
    intro hs
    obtain ⟨j, hj, hrj⟩ := (hseen x).1 hs
    exact h.2 j (by omega) hrj

/-! ### the loop -/

/-- Loop invariant of `refLoop` at depth `i`. -/
structure RefInv (nb : Nat → List Nat) (S : List Nat) (i : Nat) (seen cur : List Nat) : Prop where
  seen_strict : seen.Pairwise (· < ·)
  cur_strict : cur.Pairwise (· < ·)
  mem_seen : ∀ x, x ∈ seen ↔ ∃ j, j ≤ i ∧ Reach nb S j x
  mem_cur : ∀ x, x ∈ cur ↔ DistLayer nb S i x

theorem refInv_zero (nb : Nat → List Nat) (S : List Nat) :
    RefInv nb S 0 (sortDedup S) (sortDedup S) where
  seen_strict := sortDedup_strict S
  cur_strict := sortDedup_strict S
  mem_seen := by
    intro x
    rw [mem_sortDedup]
    constructor
    · intro h; exact ⟨0, Nat.le_refl _, (reach_zero ..).2 h⟩
    · rintro ⟨j, hj, h⟩
      have : j = 0 := by omega
      subst this
      exact (reach_zero ..).1 h
  mem_cur := by
    intro x
    rw [mem_sortDedup]
    constructor
    · intro h; exact ⟨(reach_zero ..).2 h, fun j hj => by omega⟩
    · intro h; exact (reach_zero ..).1 h.1

theorem refInv_step (nb : Nat → List Nat) (S : List Nat) (i : Nat) (seen cur : List Nat)
    (inv : RefInv nb S i seen cur) :
    RefInv nb S (i+1) (List.merge seen (refStep nb seen cur) (fun a b => decide (a ≤ b)))
      (refStep nb seen cur) := by
  have hnx : ∀ x, x ∈ refStep nb seen cur ↔ DistLayer nb S (i+1) x := by
    intro x
    rw [mem_refStep nb seen cur inv.seen_strict]
    exact step_distLayer nb S i seen cur inv.mem_seen inv.mem_cur x
  refine ⟨?_, refStep_strict nb seen cur, ?_, hnx⟩
  · apply merge_strict _ _ inv.seen_strict (refStep_strict nb seen cur)
    intro x hx hx2
    exact ((mem_refStep nb seen cur inv.seen_strict x).1 hx2).2 hx
  · intro x
    rw [List.mem_merge, hnx, inv.mem_seen]
    constructor
    · rintro (⟨j, hj, h⟩ | h)
      · exact ⟨j, by omega, h⟩
      · exact ⟨i+1, Nat.le_refl _, h.1⟩
    · rintro ⟨j, hj, h⟩
      by_cases hex : ∃ j, j ≤ i ∧ Reach nb S j x
      · exact Or.inl hex
      · have : j = i+1 := by
          by_cases hji : j ≤ i
          · exact absurd ⟨j, hji, h⟩ hex
          · omega
        subst this
        exact Or.inr ⟨h, fun k hk hrk => hex ⟨k, by omega, hrk⟩⟩

theorem refLoop_zero (nb : Nat → List Nat) (seen cur : List Nat) : refLoop nb 0 seen cur = [cur] := rfl

theorem refLoop_succ (nb : Nat → List Nat) (fuel : Nat) (seen cur : List Nat) :
    refLoop nb (fuel+1) seen cur =
      if (refStep nb seen cur).isEmpty then [cur]
      else cur :: refLoop nb fuel
        (List.merge seen (refStep nb seen cur) (fun a b => decide (a ≤ b))) (refStep nb seen cur) := rfl

theorem refLoop_head (nb : Nat → List Nat) (fuel : Nat) (seen cur : List Nat) :
    (refLoop nb fuel seen cur)[0]? = some cur := by
  cases fuel with
  | zero => rfl
  | succ fuel => rw [refLoop_succ]; split <;> rfl

/-- The result of the loop started in a state satisfying the invariant at depth `i`. -/
theorem refLoop_spec (nb : Nat → List Nat) (S : List Nat) (fuel i : Nat) (seen cur : List Nat)
    (inv : RefInv nb S i seen cur) :
    (∀ k L, (refLoop nb fuel seen cur)[k]? = some L →
        L.Pairwise (· < ·) ∧ ∀ x, x ∈ L ↔ DistLayer nb S (i+k) x) ∧
    1 ≤ (refLoop nb fuel seen cur).length ∧ (refLoop nb fuel seen cur).length ≤ fuel + 1 ∧
    (∀ k L, 0 < k → (refLoop nb fuel seen cur)[k]? = some L → L ≠ []) ∧
    ((refLoop nb fuel seen cur).length < fuel + 1 →
        ∀ x, ¬ DistLayer nb S (i + (refLoop nb fuel seen cur).length) x) := by
  induction fuel generalizing i seen cur with
  | zero =>
    rw [refLoop_zero]
    refine ⟨?_, by simp, by simp, ?_, by simp⟩
    · intro k L h
      cases k with
      | zero =>
        simp only [List.getElem?_cons_zero, Option.some.injEq] at h
        subst h
        exact ⟨inv.cur_strict, inv.mem_cur⟩
      | succ k => simp at h
    · intro k L hk h
      cases k with
      | zero => omega
      | succ k => simp at h
  | succ fuel ih =>
    rw [refLoop_succ]
    have inv' := refInv_step nb S i seen cur inv
    split
    · rename_i hemp
      refine ⟨?_, by simp, by simp, ?_, ?_⟩
      · intro k L h
        cases k with
        | zero =>
          simp only [List.getElem?_cons_zero, Option.some.injEq] at h
          subst h
          exact ⟨inv.cur_strict, inv.mem_cur⟩
        | succ k => simp at h
      · intro k L hk h
        cases k with
        | zero => omega
        | succ k => simp at h
      · intro _ x hx
        have : x ∈ refStep nb seen cur := (inv'.mem_cur x).2 hx
        rw [List.isEmpty_iff] at hemp
        rw [hemp] at this
        simp at this
    · rename_i hne
      obtain ⟨ih1, ih2, ih3, ih4, ih5⟩ := ih (i+1) _ _ inv'
      refine ⟨?_, by simp, by simp only [List.length_cons]; omega, ?_, ?_⟩
      · intro k L h
        cases k with
        | zero =>
          simp only [List.getElem?_cons_zero, Option.some.injEq] at h
          subst h
          exact ⟨inv.cur_strict, inv.mem_cur⟩
        | succ k =>
          simp only [List.getElem?_cons_succ] at h
          have := ih1 k L h
          rwa [Nat.add_assoc, Nat.add_comm 1] at this
      · intro k L hk h
        cases k with
        | zero => omega
        | succ k =>
          simp only [List.getElem?_cons_succ] at h
          cases k with
          | zero =>
            rw [refLoop_head] at h
            simp only [Option.some.injEq] at h
            subst h
            intro e
            exact hne (by simp [e])
          | succ k => exact ih4 (k+1) L (by omega) h
      · intro hlen x
        simp only [List.length_cons] at hlen ⊢
        have := ih5 (by omega) x
        rwa [Nat.add_assoc, Nat.add_comm 1] at this
/-! ### `refLayers` -/

theorem refLayers_spec' (nb : Nat → List Nat) (S : List Nat) (D : Nat) :
    (∀ i L, (refLayers nb S D)[i]? = some L → L.Pairwise (· < ·) ∧ ∀ x, x ∈ L ↔ DistLayer nb S i x) ∧
    1 ≤ (refLayers nb S D).length ∧ (refLayers nb S D).length ≤ D + 1 ∧
    (∀ i L, 0 < i → (refLayers nb S D)[i]? = some L → L ≠ []) ∧
    ((refLayers nb S D).length < D + 1 → ∀ x, ¬ DistLayer nb S (refLayers nb S D).length x) := by
  have h := refLoop_spec nb S D 0 _ _ (refInv_zero nb S)
  simp only [Nat.zero_add] at h
  exact h

/-- `refLoop` with less fuel is a prefix of `refLoop` with more fuel. -/
theorem refLoop_take (nb : Nat → List Nat) (k D : Nat) (hk : k ≤ D) (seen cur : List Nat) :
    (refLoop nb D seen cur).take (k + 1) = refLoop nb k seen cur := by
  induction k generalizing D seen cur with
  | zero =>
    cases D with
    | zero => rfl
    | succ D => rw [refLoop_succ, refLoop_zero]; split <;> rfl
  | succ k ih =>
    cases D with
    | zero => omega
    | succ D =>
      rw [refLoop_succ, refLoop_succ]
      split
      · rfl
      · rw [List.take_succ_cons, ih D (by omega)]

theorem growth_prefix' (nb : Nat → List Nat) (S : List Nat) (k D : Nat) (hk : k ≤ D) :
    (refLayers nb S D).take (k + 1) = refLayers nb S k :=
  refLoop_take nb k D hk _ _

theorem refLayers_orbit' (nb : Nat → List Nat) (S : List Nat) (D : Nat)
    (h : (refLayers nb S D).length < D + 1) (x : Nat) :
    InOrbit nb S x ↔ ∃ L ∈ refLayers nb S D, x ∈ L := by
  obtain ⟨h1, _, _, _, h5⟩ := refLayers_spec' nb S D
  have hemp := h5 h
  constructor
  · rintro ⟨n, hn⟩
    obtain ⟨i, _, hi⟩ := reach_distLayer nb S n x hn
    have hlt : i < (refLayers nb S D).length := by
      apply Classical.byContradiction
      intro hge
      have := distLayer_empty_mono nb S _ hemp (i - (refLayers nb S D).length) x
      rw [show (refLayers nb S D).length + (i - (refLayers nb S D).length) = i by omega] at this
      exact this hi
    refine ⟨(refLayers nb S D)[i], List.getElem_mem hlt, ?_⟩
    exact ((h1 i _ (List.getElem?_eq_getElem hlt)).2 x).2 hi
  · rintro ⟨L, hL, hx⟩
    obtain ⟨i, hi, rfl⟩ := List.getElem_of_mem hL
    have := ((h1 i _ (List.getElem?_eq_getElem hi)).2 x).1 hx
    exact ⟨i, this.1⟩

/-! ### extensionality of strictly increasing lists, uniqueness of the layers -/

/-- Two strictly increasing lists with the same members are equal. -/
theorem strict_ext (l₁ l₂ : List Nat) (h₁ : l₁.Pairwise (· < ·)) (h₂ : l₂.Pairwise (· < ·))
    (h : ∀ x, x ∈ l₁ ↔ x ∈ l₂) : l₁ = l₂ := by
  induction l₁ generalizing l₂ with
  | nil =>
    cases l₂ with
    | nil => rfl
    | cons b t => exact absurd ((h b).2 List.mem_cons_self) (by simp)
  | cons a s ih =>
    cases l₂ with
    | nil => exact absurd ((h a).1 List.mem_cons_self) (by simp)
    | cons b t =>
      have ha : ∀ z ∈ s, a < z := fun z hz => List.rel_of_pairwise_cons h₁ hz
      have hb : ∀ z ∈ t, b < z := fun z hz => List.rel_of_pairwise_cons h₂ hz
      have hab : a = b := by
        have h1 := (h a).1 List.mem_cons_self
        have h2 := (h b).2 List.mem_cons_self
        rcases List.mem_cons.1 h1 with e | e
        · exact e
        · rcases List.mem_cons.1 h2 with e2 | e2
          · exact e2.symm
          · have := ha b e2; have := hb a e; omega
      subst hab
      congr 1
      apply ih t h₁.of_cons h₂.of_cons
      intro x
      constructor
      · intro hx
        rcases List.mem_cons.1 ((h x).1 (List.mem_cons_of_mem _ hx)) with e | e
        · have := ha x hx; omega
        · exact e
      · intro hx
        rcases List.mem_cons.1 ((h x).2 (List.mem_cons_of_mem _ hx)) with e | e
        · have := hb x hx; omega
        · exact e

/-- `sortDedup` is characterised by its output being strictly increasing with the same members. -/
theorem sortDedup_eq_of (l l' : List Nat) (hs : l'.Pairwise (· < ·)) (hm : ∀ x, x ∈ l ↔ x ∈ l') :
    sortDedup l = l' :=
  strict_ext _ _ (sortDedup_strict l) hs (fun x => by rw [mem_sortDedup, hm])

/-- Any strictly increasing enumeration of the `i`-th distance class is the `i`-th reference layer. -/
theorem refLayers_layer_unique (nb : Nat → List Nat) (S : List Nat) (D i : Nat) (L L' : List Nat)
    (h : (refLayers nb S D)[i]? = some L) (hs : L'.Pairwise (· < ·))
    (hm : ∀ x, x ∈ L' ↔ DistLayer nb S i x) : L' = L := by
  obtain ⟨h1, h2⟩ := (refLayers_spec' nb S D).1 i L h
  exact strict_ext _ _ hs h1 (fun x => by rw [hm, h2])

/-- the layers are pairwise disjoint -/
theorem refLayers_disjoint (nb : Nat → List Nat) (S : List Nat) (D i j : Nat) (L L' : List Nat)
    (hi : (refLayers nb S D)[i]? = some L) (hj : (refLayers nb S D)[j]? = some L') (hij : i ≠ j)
    (x : Nat) (hx : x ∈ L) : x ∉ L' := by
  intro hx'
  have h1 := (((refLayers_spec' nb S D).1 i L hi).2 x).1 hx
  have h2 := (((refLayers_spec' nb S D).1 j L' hj).2 x).1 hx'
  rcases Nat.lt_or_gt_of_ne hij with h | h
  · exact h2.2 i h h1.1
  · exact h1.2 j h h2.1

end Cv
