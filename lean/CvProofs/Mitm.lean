/-
  Meet in the middle from a precomputed ball (`MeetInTheMiddle.find_path_to`, `find_path_from`; algo/bfs_mitm.py:19-95)
  and automatic path finding (`find_path`, `_precompute_bfs`; algo/find_path.py).  Core Lean only.
-/
import CvModel.Paths
import CvProofs.Bfs
import CvProofs.Paths
namespace Cv

variable {α : Type}

/-! ### the BFS loop once more: the callback returned `false` on every layer before the last one

`CvProofs/Bfs.lean` (`bfsLoop_spec`) does not record what the callback answered on the layers on which the
loop went on.  The induction is repeated here with that extra component (`CbFalse`) and with the bound
`i ≤ max_diameter + 1` on the number of layers. -/

/-- the callback returned `false` on (the computed enumeration of) every distance class `1 … i-1` -/
def CbFalse (g : Graph α) (c : BfsCfg α) (S : List α) (i : Nat) : Prop :=
  ∀ f, c.stop = some f → ∀ j, 1 ≤ j → j < i → ∃ L, IsLayer g S j L ∧ f j L = false

/-- what holds for the state returned by the loop (`i` = number of layers found), with the callback history -/
structure Exit2 (g : Graph α) (c : BfsCfg α) (S : List α) (Hs : List (List Int)) (i : Nat)
    (s : BfsLoop α) : Prop where
  core : Core g c S Hs i s
  le : i ≤ c.maxDiameter + 1
  fin :
    (s.completed = true ∧ (∀ x, ¬ DistLayer g.nb S i x) ∧
        s.allH = (if c.returnHashes = true then Hs else []) ∧ CbFalse g c S i) ∨
    (s.completed = false ∧ s.allH = (if c.returnHashes = true then Hs.take (i - 1) else []) ∧
      ((i = c.maxDiameter + 1 ∧ CbFalse g c S i) ∨
       (2 ≤ i ∧ (∃ n, s.sizes[i - 1]? = some n ∧ c.maxExplore ≤ n) ∧ CbFalse g c S (i - 1)) ∨
       (2 ≤ i ∧ ∃ f, c.stop = some f ∧ f (i - 1) s.layer1 = true ∧ CbFalse g c S (i - 1))))

theorem bfsLoop_spec2 {g : Graph α} {S : List α} (h : BfsHyp g S) (c : BfsCfg α) :
    ∀ (fuel i : Nat) (s : BfsLoop α) (Hs : List (List Int)), fuel + i = c.maxDiameter + 1 →
      Entry g c S Hs i s → CbFalse g c S i → ∃ Hs' i', Exit2 g c S Hs' i' (bfsLoop g c fuel i s) := by
  intro fuel
  induction fuel with
  | zero =>
    intro i s Hs hfi he hw
    refine ⟨Hs, i, ?_⟩
    show Exit2 g c S Hs i s
    exact ⟨he.core, by omega, Or.inr ⟨he.notDone, he.allH, Or.inl ⟨by omega, hw⟩⟩⟩
  | succ fuel ih =>
    intro i s Hs hfi he hw
    have hc := he.core
    have hpos := hc.pos
    rw [bfsLoop_succ]
    obtain ⟨hl, hstr, hperm⟩ := hc.step_layer (c := c) h
    generalize (expandSel g c s).1 = l2 at *
    generalize (expandSel g c s).2 = l2H at *
    have hallH : (preState g c s).allH = if c.returnHashes = true then Hs else [] := by
      rw [preState_allH, he.allH]
      split
      · exact take_pred_append_last Hs i _ hc.hsLen hpos hc.hsLast
      · rfl
    have hallH' : (preState g c s).allH =
        if c.returnHashes = true then (Hs ++ [l2H]).take (i + 1 - 1) else [] := by
      rw [hallH, Nat.add_sub_cancel, take_snoc_length Hs i l2H hc.hsLen]
    split
    · -- empty next layer: completed
      rename_i hemp
      have hnil : l2 = [] := by
        simpa using hemp
      refine ⟨Hs, i, ?_, by omega, Or.inl ⟨rfl, ?_, ?_, hw⟩⟩
      · exact hc.congr (by simp) (by simp) (by simp) (by simp) (by simp)
      · intro x hx
        have := (hl.2 x).2 hx
        rw [hnil] at this
        exact absurd this (by simp)
      · exact hallH
    · rename_i hemp
      have hne : 0 < l2.length := by
        simp only [beq_iff_eq] at hemp; omega
      have hcore2 := hc.post l2 l2H hl hstr hperm hne he.lastLt
      have hsz : (postState g c i (preState g c s) l2 l2H).sizes[i + 1 - 1]? = some l2.length := by
        rw [Nat.add_sub_cancel, postState_sizes, preState_sizes]
        exact getElem?_snoc_eq_some.2 (Or.inr ⟨hc.sizesLen.symm, rfl⟩)
      split
      · -- explore limit reached
        rename_i hexp
        refine ⟨Hs ++ [l2H], i + 1, hcore2, by omega,
          Or.inr ⟨by simpa using he.notDone, ?_, Or.inr (Or.inl ?_)⟩⟩
        · simpa using hallH'
        · exact ⟨by omega, ⟨l2.length, hsz, hexp⟩, by simpa using hw⟩
      · rename_i hexp
        split
        · -- no callback
          rename_i hstop
          apply ih (i + 1) _ (Hs ++ [l2H]) (by omega)
          · refine ⟨hcore2, by simpa using he.notDone, ?_, by simpa using hallH', ?_⟩
            · intro n _ hn
              rw [hsz] at hn
              cases hn
              omega
            · rw [postState_cb, preState_cb, he.cb, cbList_none hstop, cbList_none hstop]
          · intro f hf
            rw [hstop] at hf; cases hf
        · rename_i f hstop
          have hcb : (postState g c i (preState g c s) l2 l2H).cb ++ [i] = cbList c (i + 1 - 1) := by
            rw [postState_cb, preState_cb, he.cb, Nat.add_sub_cancel]
            have := cbList_succ hstop (i - 1)
            rwa [Nat.sub_add_cancel hpos] at this
          split
          · -- callback asked to stop
            rename_i hf
            refine ⟨Hs ++ [l2H], i + 1, ?_, by omega,
              Or.inr ⟨by simpa using he.notDone, ?_, Or.inr (Or.inr ?_)⟩⟩
            · exact hcore2.congr rfl rfl rfl rfl rfl
            · simpa using hallH'
            · exact ⟨by omega, f, hstop, by simpa using hf, by simpa using hw⟩
          · rename_i hf
            apply ih (i + 1) _ (Hs ++ [l2H]) (by omega)
            · refine ⟨hcore2.congr rfl rfl rfl rfl rfl, by simpa using he.notDone, ?_,
                by simpa using hallH', hcb⟩
              intro n _ hn
              have hsz' : (postState g c i (preState g c s) l2 l2H).sizes[i + 1 - 1]? = some n := hn
              rw [hsz] at hsz'
              cases hsz'
              omega
            · intro f' hf' j hj1 hj2
              rw [hstop] at hf'
              cases hf'
              by_cases hji : j < i
              · exact hw f hstop j hj1 hji
              · have : j = i := by omega
                subst this
                exact ⟨l2, hl, by simpa using hf⟩

/-- the master statement about the state returned by the loop of `bfs`, with the callback history -/
theorem bfs_exit2 {g : Graph α} {S : List α} (h : BfsHyp g S) (c : BfsCfg α) :
    ∃ Hs i, Exit2 g c S Hs i (bfsFinal g c S) :=
  bfsLoop_spec2 h c c.maxDiameter 1 (bfsInit g S) _ (by omega) (entry_init h c)
    (fun _ _ j h1 h2 => by omega)

/-- summary of a run with `return_all_hashes=True`; `K` = index of the last layer.  The four alternatives are
"completed", "iteration limit", "size limit", "callback". -/
theorem bfs_summary {g : Graph α} {S : List α} (h : BfsHyp g S) (c : BfsCfg α) (hr : c.returnHashes = true) :
    ∃ K, (bfs g c S).layerSizes.length = K + 1 ∧ K ≤ c.maxDiameter ∧ (bfs g c S).hashes.length = K + 1 ∧
      IsBallS g S (bfs g c S).hashes ∧
      (((bfs g c S).completed = true ∧ (∀ x, ¬ DistLayer g.nb S (K + 1) x) ∧ CbFalse g c S (K + 1)) ∨
       ((bfs g c S).completed = false ∧ K = c.maxDiameter ∧ CbFalse g c S (K + 1)) ∨
       ((bfs g c S).completed = false ∧ 1 ≤ K ∧ (∃ L, IsLayer g S K L ∧ c.maxExplore ≤ L.length) ∧
          CbFalse g c S K) ∨
       ((bfs g c S).completed = false ∧ 1 ≤ K ∧
          ∃ f L, c.stop = some f ∧ IsLayer g S K L ∧ f K L = true ∧ CbFalse g c S K)) := by
  obtain ⟨Hs, i, hex⟩ := bfs_exit2 h c
  have hc := hex.core
  have hpos := hc.pos
  obtain ⟨K, rfl⟩ : ∃ K, i = K + 1 := ⟨i - 1, by omega⟩
  have hH : (bfs g c S).hashes = Hs := by
    rw [bfs_hashes]
    rcases hex.fin with ⟨hcomp, -, hall, -⟩ | ⟨hcomp, hall, -⟩
    · simp only [hcomp, Bool.not_true, Bool.and_false, Bool.false_eq_true, if_false]
      rw [hall, if_pos hr]
    · simp only [hcomp, Bool.not_false, Bool.and_true]
      rw [hall, if_pos hr, if_pos hr]
      exact take_pred_append_last Hs (K + 1) _ hc.hsLen hc.pos hc.hsLast
  refine ⟨K, ?_, ?_, ?_, ?_, ?_⟩
  · rw [bfs_layerSizes, hc.sizesLen]
  · have := hex.le; omega
  · rw [hH, hc.hsLen]
  · rw [hH]
    intro j H hj
    obtain ⟨h1, L, hL, h2⟩ := hc.hs j H hj
    exact ⟨h1, L, hL.1, hL.2, h2⟩
  · rw [bfs_completed]
    rcases hex.fin with ⟨hcomp, hemp, -, hw⟩ | ⟨hcomp, -, ⟨hk, hw⟩ | ⟨h2, ⟨n, hn, hexp⟩, hw⟩ | ⟨h2, f, hf, hfl, hw⟩⟩
    · exact Or.inl ⟨hcomp, hemp, hw⟩
    · exact Or.inr (Or.inl ⟨hcomp, by omega, hw⟩)
    · rw [Nat.add_sub_cancel] at hn hw
      obtain ⟨L, hL, rfl⟩ := hc.sizes K n hn
      exact Or.inr (Or.inr (Or.inl ⟨hcomp, by omega, ⟨L, hL, hexp⟩, hw⟩))
    · rw [Nat.add_sub_cancel] at hfl hw
      have hl := hc.layer
      rw [Nat.add_sub_cancel] at hl
      exact Or.inr (Or.inr (Or.inr ⟨hcomp, by omega, f, _, hf, hl, hfl, hw⟩))

/-! ### graph theory: where a forward ball and a backward search meet -/

theorem reach_singleton (nb : α → List α) (s x : α) (n : Nat) : Reach nb [s] n x ↔ Walk nb n s x := by
  simp [Reach]

/-- on a shortest walk of length `d ≥ D` from `c` to `dest` the state at position `D` is in class `D` from `c`
and in class `d - D` of the reversed graph from `dest` -/
theorem meet_exists {nb nb' : α → List α} (hrev : ∀ x y, y ∈ nb x → x ∈ nb' y)
    (hrev' : ∀ x y, y ∈ nb' x → x ∈ nb y) {c dest : α} {D d : Nat} (hd : DistLayer nb [c] d dest)
    (hDd : D ≤ d) : ∃ x, DistLayer nb [c] D x ∧ DistLayer nb' [dest] (d - D) x := by
  have hw : Walk nb (D + (d - D)) c dest := by
    rw [Nat.add_sub_cancel' hDd]; exact (reach_singleton ..).1 hd.1
  obtain ⟨x, w1, w2⟩ := Walk.split D hw
  refine ⟨x, ⟨(reach_singleton ..).2 w1, ?_⟩, ⟨(reach_singleton ..).2 (walk_reverse hrev w2), ?_⟩⟩
  · intro j hj hr
    have w := Walk.append ((reach_singleton ..).1 hr) w2
    exact hd.2 (j + (d - D)) (by omega) ((reach_singleton ..).2 w)
  · intro j hj hr
    have w := Walk.append w1 (walk_reverse hrev' ((reach_singleton ..).1 hr))
    exact hd.2 (D + j) (by omega) ((reach_singleton ..).2 w)

theorem meet_bound {nb nb' : α → List α} (hrev' : ∀ x y, y ∈ nb' x → x ∈ nb y) {c dest x : α} {D k : Nat}
    (h1 : Reach nb [c] D x) (h2 : Reach nb' [dest] k x) : Reach nb [c] (D + k) dest :=
  (reach_singleton ..).2
    (Walk.append ((reach_singleton ..).1 h1) (walk_reverse hrev' ((reach_singleton ..).1 h2)))

/-- an empty distance class stays empty -/
theorem distLayer_empty_ge {nb : α → List α} {S : List α} {k : Nat} (he : ∀ x, ¬ DistLayer nb S k x)
    (j : Nat) (hj : k ≤ j) : ∀ x, ¬ DistLayer nb S j x := by
  induction j with
  | zero =>
    have : k = 0 := by omega
    subst this; exact he
  | succ j ih =>
    by_cases hk : k = j + 1
    · subst hk; exact he
    · intro x hx
      obtain ⟨y, hy, -⟩ := distLayer_pred' nb S j x hx
      exact ih (by omega) y hy

/-! ### the backward search of `MeetInTheMiddle.find_path_to` -/

/-- the options of the backward BFS: `max_diameter = D`, `return_all_hashes`, `disable_batching`, the callback
"some state of the layer satisfies `P`"; every other option at its default (in particular
`max_layer_size_to_explore = 10**12`) -/
def mitmCfg (P : α → Bool) (D : Nat) : BfsCfg α :=
  { maxStore := none, maxDiameter := D, returnHashes := true, disableBatching := true,
    stop := some fun _ layer2 => layer2.any P }

/-- the rows of the last reported layer, if stored -/
def lastStored (r : BfsOut α) : List α :=
  ((r.layers.find? fun p => p.1 == r.layerSizes.length - 1).map (·.2)).getD []

theorem mitmFindPathTo_eq (g gi : Graph α) (Hs : List (List Int)) (dest : α) :
    mitmFindPathTo g gi Hs dest =
      match findPathTo g gi Hs dest with
      | .found p => .found p
      | .assertFail m => .assertFail m
      | .notFound =>
        mitmFindPathTo.go g gi Hs
          (bfs gi (mitmCfg (fun x => isinSorted (Hs.getLast?.getD []) (g.hash x)) (Hs.length - 1)) [dest])
          ((lastStored (bfs gi (mitmCfg (fun x => isinSorted (Hs.getLast?.getD []) (g.hash x))
            (Hs.length - 1)) [dest])).filter fun x => isinSorted (Hs.getLast?.getD []) (g.hash x)) := rfl

theorem mitm_go_nil (g gi : Graph α) (Hs : List (List Int)) (r2 : BfsOut α) :
    mitmFindPathTo.go g gi Hs r2 [] = .notFound := rfl

theorem mitm_go_cons (g gi : Graph α) (Hs : List (List Int)) (r2 : BfsOut α) (m : α) (rest : List α) :
    mitmFindPathTo.go g gi Hs r2 (m :: rest) =
      match restorePath gi Hs.dropLast m with
      | none => mitmFindPathTo.go g gi Hs r2 rest
      | some p1 =>
        match restorePath g r2.hashes.dropLast m with
        | some p2 => .found (p1 ++ p2.reverse)
        | none => .assertFail "Not found any neighbor on previous layer." := rfl

theorem mem_lastStored {r : BfsOut α} {m : α} (hm : m ∈ lastStored r) :
    ∃ L, (r.layerSizes.length - 1, L) ∈ r.layers ∧ m ∈ L := by
  unfold lastStored at hm
  cases hf : r.layers.find? (fun p => p.1 == r.layerSizes.length - 1) with
  | none => rw [hf] at hm; simp at hm
  | some p =>
    rw [hf] at hm
    simp only [Option.map_some, Option.getD_some] at hm
    have h1 := List.find?_some hf
    have h2 := List.mem_of_find?_eq_some hf
    simp only [beq_iff_eq] at h1
    refine ⟨p.2, ?_, hm⟩
    rw [← h1]; exact h2

theorem lastStored_of_mem {r : BfsOut α} {L : List α} (hL : (r.layerSizes.length - 1, L) ∈ r.layers) :
    ∃ L', (r.layerSizes.length - 1, L') ∈ r.layers ∧ lastStored r = L' := by
  unfold lastStored
  cases hf : r.layers.find? (fun p => p.1 == r.layerSizes.length - 1) with
  | none =>
    rw [List.find?_eq_none] at hf
    have := hf _ hL
    simp at this
  | some p =>
    have h1 := List.find?_some hf
    have h2 := List.mem_of_find?_eq_some hf
    simp only [beq_iff_eq] at h1
    refine ⟨p.2, ?_, rfl⟩
    rw [← h1]; exact h2

/-- what the backward BFS delivers.  `K` = index of its last layer.  Alternatives: a middle state was found on the
last layer; or no layer `1 … K` meets `P` and the search was exhaustive up to depth `D`; or the default size limit
`max_layer_size_to_explore = 10**12` stopped the search on a layer of at least `10**12` states. -/
theorem mitm_bfs {gi : Graph α} {dest : α} (hB : BfsHyp gi [dest]) (P : α → Bool) (D : Nat) :
    ∃ K, K ≤ D ∧ (bfs gi (mitmCfg P D) [dest]).hashes.length = K + 1 ∧
      IsBall gi dest (bfs gi (mitmCfg P D) [dest]).hashes ∧
      (∀ m ∈ lastStored (bfs gi (mitmCfg P D) [dest]), DistLayer gi.nb [dest] K m) ∧
      (∀ j x, 1 ≤ j → j < K → DistLayer gi.nb [dest] j x → P x = false) ∧
      ((lastStored (bfs gi (mitmCfg P D) [dest])).filter P ≠ [] ∨
       ((∀ j x, 1 ≤ j → j ≤ K → DistLayer gi.nb [dest] j x → P x = false) ∧
          (K = D ∨ ∀ x, ¬ DistLayer gi.nb [dest] (K + 1) x)) ∨
       (1 ≤ K ∧ ∃ L, IsLayer gi [dest] K L ∧ 10^12 ≤ L.length)) := by
  obtain ⟨K, hlen, hKD, hhl, hball, hfin⟩ := bfs_summary hB (mitmCfg P D) rfl
  -- `CbFalse` for the `any` callback
  have hno : ∀ i, CbFalse gi (mitmCfg P D) [dest] i →
      ∀ j x, 1 ≤ j → j < i → DistLayer gi.nb [dest] j x → P x = false := by
    intro i hw j x hj1 hj2 hx
    obtain ⟨L, hL, hf⟩ := hw _ rfl j hj1 hj2
    simp only [List.any_eq_false] at hf
    simpa using hf x ((hL.2 x).2 hx)
  have hKlast : (bfs gi (mitmCfg P D) [dest]).layerSizes.length - 1 = K := by omega
  refine ⟨K, hKD, hhl, hball, ?_, ?_, ?_⟩
  · intro m hm
    obtain ⟨L, hL, hmL⟩ := mem_lastStored hm
    rw [hKlast] at hL
    exact ((BfsThm.stored_sound hB _ K L hL).2 m).1 hmL
  · rcases hfin with ⟨-, -, hw⟩ | ⟨-, -, hw⟩ | ⟨-, -, -, hw⟩ | ⟨-, -, f, L, -, -, -, hw⟩
    · exact fun j x h1 h2 => hno _ hw j x h1 (by omega)
    · exact fun j x h1 h2 => hno _ hw j x h1 (by omega)
    · exact hno _ hw
    · exact hno _ hw
  · rcases hfin with ⟨-, hemp, hw⟩ | ⟨-, hk, hw⟩ | ⟨-, hK1, hL, -⟩ | ⟨hcomp, hK1, f, L, hf, hL, hfl, -⟩
    · exact Or.inr (Or.inl ⟨fun j x h1 h2 => hno _ hw j x h1 (by omega), Or.inr hemp⟩)
    · exact Or.inr (Or.inl ⟨fun j x h1 h2 => hno _ hw j x h1 (by omega), Or.inl hk⟩)
    · exact Or.inr (Or.inr ⟨hK1, hL⟩)
    · -- the callback fired on the last layer
      have hf' : f = fun _ (layer2 : List α) => layer2.any P := by
        have : some (fun (_ : Nat) (layer2 : List α) => layer2.any P) = some f := hf
        exact (Option.some.inj this).symm
      subst hf'
      simp only [List.any_eq_true] at hfl
      obtain ⟨x, hxL, hPx⟩ := hfl
      by_cases hbig : L.length ≤ 10^15
      · left
        have hsz : (bfs gi (mitmCfg P D) [dest]).layerSizes[K]? = some L.length := by
          obtain ⟨L', hL', hs⟩ := BfsThm.sizes_prefix hB (mitmCfg P D) K (by omega)
          rw [hs, (IsLayer.perm rfl hL' hL).length_eq]
        obtain ⟨L', hL'⟩ := (BfsThm.stored_iff hB (mitmCfg P D) K).2 ⟨L.length, hsz, Or.inr (Or.inl hbig)⟩
        rw [← hKlast] at hL'
        obtain ⟨L'', hL'', hls⟩ := lastStored_of_mem hL'
        rw [hKlast] at hL''
        have hx'' : x ∈ L'' := ((BfsThm.stored_sound hB _ K L'' hL'').2 x).2 ((hL.2 x).1 hxL)
        rw [hls]
        intro hnil
        have : x ∈ L''.filter P := List.mem_filter.2 ⟨hx'', hPx⟩
        rw [hnil] at this
        cases this
      · right; right
        exact ⟨hK1, L, hL, by omega⟩

/-! ### `MeetInTheMiddle.find_path_to` -/

theorem PathHyp.bfsHyp {g gi : Graph α} (h : PathHyp g gi) (hs : g.invClosed = true → Symm g.nb)
    (hb : 0 < g.batchSize) (S : List α) : BfsHyp g S :=
  ⟨fun _ _ _ _ e => h.inj e, hs, hb⟩

theorem IsBallS.dropLast {g : Graph α} {S : List α} {Hs : List (List Int)} (hb : IsBallS g S Hs) :
    IsBallS g S Hs.dropLast := by
  rw [List.dropLast_eq_take]; exact hb.take _

/-- membership in the last layer of a ball (`isin_via_searchsorted` against `layers_hashes[-1]`) -/
theorem isMiddle_iff {g : Graph α} (hinj : Function.Injective g.hash) {c : α} {Hs : List (List Int)}
    (hball : IsBall g c Hs) (hne : Hs ≠ []) (x : α) :
    isinSorted (Hs.getLast?.getD []) (g.hash x) = true ↔ DistLayer g.nb [c] (Hs.length - 1) x := by
  have hlt : Hs.length - 1 < Hs.length := by
    have := List.length_pos_iff.2 hne; omega
  have hget : Hs[Hs.length - 1]? = some Hs[Hs.length - 1] := List.getElem?_eq_getElem hlt
  rw [List.getLast?_eq_getElem?, hget, Option.getD_some,
    isinSorted_iff _ (IsBallS.sorted hball hget), IsBallS.mem_iff hinj hball hget]

/-- Meet in the middle from a ball of depth `D = Hs.length - 1`, without any assumption on layer sizes: a returned
path is valid and shortest, the assertion is unreachable, and `None` is returned only if no path of length `≤ 2D`
exists — or if the backward BFS ran into its default `max_layer_size_to_explore = 10**12`. -/
theorem mitmFindPathTo_core (g gi : Graph α) (h : PathHyp g gi) (hsi : gi.invClosed = true → Symm gi.nb)
    (hbs : 0 < gi.batchSize) (c : α) (Hs : List (List Int)) (hball : IsBall g c Hs) (hne : Hs ≠ []) (dest : α) :
    match mitmFindPathTo g gi Hs dest with
    | .found p => applyPath g.act c p = dest ∧ DistLayer g.nb [c] p.length dest ∧
        p.length ≤ 2 * (Hs.length - 1) ∧ ∀ i ∈ p, i < g.nGens
    | .notFound => (∀ n, n ≤ 2 * (Hs.length - 1) → ¬ Walk g.nb n c dest) ∨
        ∃ k L, 1 ≤ k ∧ k ≤ Hs.length - 1 ∧ IsLayer gi [dest] k L ∧ 10^12 ≤ L.length
    | .assertFail _ => False := by
  rw [mitmFindPathTo_eq]
  have hfp := findPathTo_spec h c Hs hball dest
  cases hr : findPathTo g gi Hs dest with
  | found p =>
    rw [hr] at hfp
    obtain ⟨h1, h2, h3, h4⟩ := hfp
    exact ⟨h1, h2, by omega, h4⟩
  | assertFail m => rw [hr] at hfp; exact hfp
  | notFound =>
    rw [hr] at hfp
    simp only at hfp ⊢
    have hlen : 0 < Hs.length := List.length_pos_iff.2 hne
    obtain ⟨P, hPdef⟩ : ∃ P : α → Bool, P = fun x => isinSorted (Hs.getLast?.getD []) (g.hash x) := ⟨_, rfl⟩
    rw [← hPdef]
    have hP : ∀ x, P x = true ↔ DistLayer g.nb [c] (Hs.length - 1) x := by
      intro x; rw [hPdef]; exact isMiddle_iff h.inj hball hne x
    clear hPdef
    generalize hD : Hs.length - 1 = D at hP ⊢
    have hB : BfsHyp gi [dest] := h.symm.bfsHyp hsi hbs [dest]
    obtain ⟨K, hKD, hhl, hball2, hlast, hno, halt⟩ := mitm_bfs hB P D
    generalize bfs gi (mitmCfg P D) [dest] = r2 at hhl hball2 hlast halt ⊢
    have hrev : ∀ x y, y ∈ g.nb x → x ∈ gi.nb y := fun x y hy => (h.edge x y).2 hy
    have hrev' : ∀ x y, y ∈ gi.nb x → x ∈ g.nb y := fun x y hy => (h.edge y x).1 hy
    -- every hit on a backward class `k` contradicts the absence of hits
    have hmeet : ∀ n, Reach g.nb [c] n dest →
        ∃ d x, d ≤ n ∧ D < d ∧ DistLayer g.nb [c] D x ∧ DistLayer gi.nb [dest] (d - D) x := by
      intro n hn
      obtain ⟨d, hdn, hd⟩ := reach_distLayer' g.nb [c] n dest hn
      have hDd : D < d := by
        rcases Nat.lt_or_ge D d with hlt | hge
        · exact hlt
        · exact absurd hd (hfp d (by omega))
      obtain ⟨x, hx1, hx2⟩ := meet_exists hrev hrev' hd (Nat.le_of_lt hDd)
      exact ⟨d, x, hdn, hDd, hx1, hx2⟩
    generalize hmid : (lastStored r2).filter P = middles at halt
    cases middles with
    | nil =>
      rw [mitm_go_nil]
      simp only
      rcases halt with hne' | ⟨hall, hex⟩ | ⟨hK1, L, hL, hbig⟩
      · exact absurd rfl hne'
      · left
        intro n hn hw
        obtain ⟨d, x, hdn, hDd, hx1, hx2⟩ := hmeet n ((reach_singleton ..).2 hw)
        rcases Nat.lt_or_ge K (d - D) with hlt | hge
        · rcases hex with hKD' | hemp
          · omega
          · exact distLayer_empty_ge hemp (d - D) (by omega) x hx2
        · have := hall (d - D) x (by omega) hge hx2
          rw [(hP x).2 hx1] at this
          cases this
      · right
        exact ⟨K, L, hK1, hKD, hL, hbig⟩
    | cons m rest =>
      have hm : m ∈ (lastStored r2).filter P := by rw [hmid]; simp
      obtain ⟨hm1, hm2⟩ := List.mem_filter.1 hm
      have hmD : DistLayer g.nb [c] D m := (hP m).1 hm2
      have hmK : DistLayer gi.nb [dest] K m := hlast m hm1
      have hl1 : Hs.dropLast.length = D := by rw [List.length_dropLast, hD]
      have hl2 : r2.hashes.dropLast.length = K := by rw [List.length_dropLast, hhl]; rfl
      obtain ⟨p1, hp1, hp1l, hp1v, hp1a⟩ := restorePath_spec h c Hs.dropLast (IsBallS.dropLast hball) m
        (by rw [hl1]; exact hmD)
      obtain ⟨p2, hp2, hp2l, hp2v, hp2a⟩ := restorePath_spec h.symm dest r2.hashes.dropLast
        (IsBallS.dropLast hball2) m (by rw [hl2]; exact hmK)
      rw [mitm_go_cons, hp1]
      simp only
      rw [hp2]
      simp only
      have hlenp : (p1 ++ p2.reverse).length = D + K := by
        rw [List.length_append, List.length_reverse, hp1l, hp2l, hl1, hl2]
      refine ⟨?_, ?_, by rw [hlenp]; omega, ?_⟩
      · rw [applyPath_append, hp1a, ← hp2a]
        exact applyPath_undo h.symm p2 hp2v dest
      · rw [hlenp]
        refine ⟨meet_bound hrev' hmD.1 hmK.1, ?_⟩
        intro j hj hrj
        obtain ⟨d, x, hdn, hDd, hx1, hx2⟩ := hmeet j hrj
        have := hno (d - D) x (by omega) (by omega) hx2
        rw [(hP x).2 hx1] at this
        cases this
      · intro i hi
        rcases List.mem_append.1 hi with hi | hi
        · exact hp1v i hi
        · rw [← h.nGens]; exact hp2v i (List.mem_reverse.1 hi)

/-- MITM from a ball of depth `D = Hs.length - 1`: a valid SHORTEST path iff the distance is at most `2D`, nothing
otherwise; the assertion / "hash collision" branch is unreachable.

`hexp` is needed (see `mitmFindPathTo_core` and the counterexample): the backward BFS is called with the default
`max_layer_size_to_explore = 10**12`, so the distance classes `1 … D` around `dest` in the inverted graph must have
fewer than `10**12` states. -/
theorem mitmFindPathTo_spec (g gi : Graph α) (h : PathHyp g gi) (hsi : gi.invClosed = true → Symm gi.nb)
    (hbs : 0 < gi.batchSize) (c : α) (Hs : List (List Int)) (hball : IsBall g c Hs) (hne : Hs ≠ []) (dest : α)
    (hexp : ∀ k L, 1 ≤ k → k ≤ Hs.length - 1 → IsLayer gi [dest] k L → L.length < 10^12) :
    match mitmFindPathTo g gi Hs dest with
    | .found p => applyPath g.act c p = dest ∧ DistLayer g.nb [c] p.length dest ∧
        p.length ≤ 2 * (Hs.length - 1) ∧ ∀ i ∈ p, i < g.nGens
    | .notFound => ∀ n, n ≤ 2 * (Hs.length - 1) → ¬ Walk g.nb n c dest
    | .assertFail _ => False := by
  have := mitmFindPathTo_core g gi h hsi hbs c Hs hball hne dest
  cases hr : mitmFindPathTo g gi Hs dest with
  | found p => rw [hr] at this; exact this
  | assertFail m => rw [hr] at this; exact this
  | notFound =>
    rw [hr] at this
    rcases this with h1 | ⟨k, L, hk1, hk2, hL, hbig⟩
    · exact h1
    · have := hexp k L hk1 hk2 hL
      exact absurd hbig (by omega)

/-- the backward BFS does not get past a first layer of `10^12` or more states -/
theorem mitm_bfs_short {gi : Graph α} {dest : α} (hB : BfsHyp gi [dest]) (P : α → Bool) (D : Nat)
    (hbig : ∃ L, IsLayer gi [dest] 1 L ∧ 10^12 ≤ L.length) :
    (bfs gi (mitmCfg P D) [dest]).layerSizes.length ≤ 2 := by
  rcases Nat.lt_or_ge 2 (bfs gi (mitmCfg P D) [dest]).layerSizes.length with hlt | hge
  · exfalso
    obtain ⟨L, hL, hbig⟩ := hbig
    obtain ⟨L', hL', hs⟩ := BfsThm.sizes_prefix hB (mitmCfg P D) 1 (by omega)
    have hlt' : L'.length < (mitmCfg P D).maxExplore := BfsThm.no_early_stop hB (mitmCfg P D) 1 (by omega) hlt _ hs
    have : (mitmCfg P D).maxExplore = 10^12 := rfl
    rw [this, (IsLayer.perm rfl hL' hL).length_eq] at hlt'
    omega
  · exact hge

/-- the size limit bites: if the first backward layer has `10^12` or more states and `dest` is further than `D + 1`
from the centre, `None` is returned whatever the distance is -/
theorem mitmFindPathTo_notFound_of_big (g gi : Graph α) (h : PathHyp g gi) (hsi : gi.invClosed = true → Symm gi.nb)
    (hbs : 0 < gi.batchSize) (c : α) (Hs : List (List Int)) (hball : IsBall g c Hs) (hne : Hs ≠ []) (dest : α)
    (hfar : ∀ n, n ≤ Hs.length → ¬ Reach g.nb [c] n dest)
    (hbig : ∃ L, IsLayer gi [dest] 1 L ∧ 10^12 ≤ L.length) :
    mitmFindPathTo g gi Hs dest = .notFound := by
  rw [mitmFindPathTo_eq]
  have hfp := findPathTo_spec h c Hs hball dest
  cases hr : findPathTo g gi Hs dest with
  | found p =>
    rw [hr] at hfp
    exact absurd hfp.2.1.1 (hfar _ (by have := hfp.2.2.1; omega))
  | assertFail m => rw [hr] at hfp; exact hfp.elim
  | notFound =>
    simp only
    have hlen : 0 < Hs.length := List.length_pos_iff.2 hne
    obtain ⟨P, hPdef⟩ : ∃ P : α → Bool, P = fun x => isinSorted (Hs.getLast?.getD []) (g.hash x) := ⟨_, rfl⟩
    rw [← hPdef]
    have hP : ∀ x, P x = true ↔ DistLayer g.nb [c] (Hs.length - 1) x := by
      intro x; rw [hPdef]; exact isMiddle_iff h.inj hball hne x
    clear hPdef
    have hB : BfsHyp gi [dest] := h.symm.bfsHyp hsi hbs [dest]
    have hshort := mitm_bfs_short hB P (Hs.length - 1) hbig
    have hhl := ((BfsThm.hashes_rule hB (mitmCfg P (Hs.length - 1))).2 rfl).1
    obtain ⟨K, -, hK, -, hlast, -, -⟩ := mitm_bfs hB P (Hs.length - 1)
    have hmid : (lastStored (bfs gi (mitmCfg P (Hs.length - 1)) [dest])).filter P = [] := by
      rw [List.filter_eq_nil_iff]
      intro m hm hPm
      have h1 := (hP m).1 hPm
      have h2 := hlast m hm
      exact hfar _ (by omega) (meet_bound (fun x y hy => (h.edge y x).1 hy) h1.1 h2.1)
    rw [hmid, mitm_go_nil]

/-! ### `MeetInTheMiddle.find_path_from` -/

/-- `find_path_from` without any assumption on layer sizes (see `mitmFindPathTo_core`); also: the path uses valid
generator indices -/
theorem mitmFindPathFrom_core (g gi : Graph α) (h : PathHyp g gi) (hic : g.invClosed = true) (hsym : Symm g.nb)
    (hsi : gi.invClosed = true → Symm gi.nb) (hbs : 0 < gi.batchSize) (m : List Nat) (hm : IsInvMap g m)
    (c : α) (Hs : List (List Int)) (hball : IsBall g c Hs) (hne : Hs ≠ []) (start : α) :
    match mitmFindPathFrom g gi (some m) Hs start with
    | .found p => applyPath g.act start p = c ∧ p.length ≤ 2 * (Hs.length - 1) ∧
        (∀ n, Walk g.nb n start c → p.length ≤ n) ∧ ∀ i ∈ p, i < g.nGens
    | .notFound => (∀ n, n ≤ 2 * (Hs.length - 1) → ¬ Walk g.nb n start c) ∨
        ∃ k L, 1 ≤ k ∧ k ≤ Hs.length - 1 ∧ IsLayer gi [start] k L ∧ 10^12 ≤ L.length
    | .assertFail _ => False := by
  have := mitmFindPathTo_core g gi h hsi hbs c Hs hball hne start
  unfold mitmFindPathFrom
  rw [hic]
  simp only [Bool.not_true, Bool.false_eq_true, if_false]
  have hflip : ∀ n, Walk g.nb n start c → Walk g.nb n c start := fun n w => walk_reverse hsym w
  cases hr : mitmFindPathTo g gi Hs start with
  | found p =>
    rw [hr] at this
    simp only at this ⊢
    obtain ⟨h1, h2, h3, h4⟩ := this
    obtain ⟨r, hrr, hrl, hrv, hra⟩ := revertPathM_spec g m hm p h4 c
    rw [hrr]
    simp only
    rw [hrl]
    refine ⟨by rw [← h1]; exact hra, h3, ?_, hrv⟩
    intro n w
    rcases Nat.lt_or_ge n p.length with hlt | hge
    · exact absurd ((reach_singleton ..).2 (hflip n w)) (h2.2 n hlt)
    · exact hge
  | notFound =>
    rw [hr] at this
    simp only at this ⊢
    rcases this with h1 | h2
    · exact Or.inl fun n hn w => h1 n hn (hflip n w)
    · exact Or.inr h2
  | assertFail msg => rw [hr] at this; exact this

/-- inverse-closed generators: path from the state to the central state.  `hexp`: see `mitmFindPathTo_spec`. -/
theorem mitmFindPathFrom_spec (g gi : Graph α) (h : PathHyp g gi) (hic : g.invClosed = true) (hsym : Symm g.nb)
    (hsi : gi.invClosed = true → Symm gi.nb) (hbs : 0 < gi.batchSize) (m : List Nat) (hm : IsInvMap g m)
    (c : α) (Hs : List (List Int)) (hball : IsBall g c Hs) (hne : Hs ≠ []) (start : α)
    (hexp : ∀ k L, 1 ≤ k → k ≤ Hs.length - 1 → IsLayer gi [start] k L → L.length < 10^12) :
    match mitmFindPathFrom g gi (some m) Hs start with
    | .found p => applyPath g.act start p = c ∧ p.length ≤ 2 * (Hs.length - 1) ∧
        (∀ n, Walk g.nb n start c → p.length ≤ n)
    | .notFound => ∀ n, n ≤ 2 * (Hs.length - 1) → ¬ Walk g.nb n start c
    | .assertFail _ => False := by
  have := mitmFindPathFrom_core g gi h hic hsym hsi hbs m hm c Hs hball hne start
  cases hr : mitmFindPathFrom g gi (some m) Hs start with
  | found p => rw [hr] at this; exact ⟨this.1, this.2.1, this.2.2.1⟩
  | assertFail m => rw [hr] at this; exact this
  | notFound =>
    rw [hr] at this
    rcases this with h1 | ⟨k, L, hk1, hk2, hL, hbig⟩
    · exact h1
    · have := hexp k L hk1 hk2 hL
      exact absurd hbig (by omega)

/-! ### `_precompute_bfs`, `find_path` -/

/-- the cached ball is a ball: `precomputeBfs` returns per-layer hashes of the distance classes around the central
state -/
theorem precomputeBfs_isBall (g : Graph α) (central : α) (hb : BfsHyp g [central]) (me md : Option Nat) :
    IsBall g central (precomputeBfs g central me md).hashes ∧ (precomputeBfs g central me md).hashes ≠ [] := by
  unfold precomputeBfs
  obtain ⟨K, -, -, hlen, hball, -⟩ := bfs_summary hb
    { maxStore := some 0, maxExplore := (me.filter (· ≠ 0)).getD (10^6),
      maxDiameter := (md.filter (· ≠ 0)).getD 50, returnHashes := true } rfl
  refine ⟨hball, ?_⟩
  intro hnil
  rw [hnil] at hlen
  simp at hlen

/-- the bundle of hypotheses of the `find_path` theorems -/
structure FindHyp (g gi : Graph α) (invMap : Option (List Nat)) (central : α) : Prop where
  path : PathHyp g gi
  bfsG : BfsHyp g [central]
  bfsGi : BfsHyp gi [central]
  symG : g.invClosed = true → Symm g.nb
  symGi : gi.invClosed = true → Symm gi.nb
  batchG : 0 < g.batchSize
  batchGi : 0 < gi.batchSize
  invMap : g.invClosed = true → ∃ m, invMap = some m ∧ IsInvMap g m

/-- `find_path` without any assumption on layer sizes: a returned path is valid, shortest and of length at most twice
the depth of the cached ball; the assertions are unreachable; `None` is returned only if no such path exists — or if
the backward BFS (in the inverted graph when inverse-closed, in `g` otherwise) ran into `10**12`. -/
theorem findPath_core (g gi : Graph α) (invMap : Option (List Nat)) (central start : α)
    (H : FindHyp g gi invMap central) (me md : Option Nat) :
    match findPath g gi invMap central start me md with
    | .found p => applyPath g.act start p = central ∧ (∀ i ∈ p, i < g.nGens) ∧
        p.length ≤ 2 * ((if g.invClosed then (precomputeBfs g central me md).hashes
          else (precomputeBfs gi central me md).hashes).length - 1) ∧
        ∀ n, Walk g.nb n start central → p.length ≤ n
    | .notFound =>
        (∀ n, n ≤ 2 * ((if g.invClosed then (precomputeBfs g central me md).hashes
          else (precomputeBfs gi central me md).hashes).length - 1) → ¬ Walk g.nb n start central) ∨
        ∃ k L, 1 ≤ k ∧ k ≤ (if g.invClosed then (precomputeBfs g central me md).hashes
          else (precomputeBfs gi central me md).hashes).length - 1 ∧
          IsLayer (if g.invClosed then gi else g) [start] k L ∧ 10^12 ≤ L.length
    | .assertFail _ => False := by
  unfold findPath
  cases hic : g.invClosed with
  | true =>
    simp only [if_true]
    obtain ⟨m, rfl, hm⟩ := H.invMap hic
    obtain ⟨hball, hne⟩ := precomputeBfs_isBall g central H.bfsG me md
    have := mitmFindPathFrom_core g gi H.path hic (H.symG hic) H.symGi H.batchGi m hm central _ hball hne start
    cases hr : mitmFindPathFrom g gi (some m) (precomputeBfs g central me md).hashes start with
    | found p => rw [hr] at this; exact ⟨this.1, this.2.2.2, this.2.1, this.2.2.1⟩
    | notFound => rw [hr] at this; exact this
    | assertFail msg => rw [hr] at this; exact this
  | false =>
    simp only [Bool.false_eq_true, if_false]
    obtain ⟨hball, hne⟩ := precomputeBfs_isBall gi central H.bfsGi me md
    have := mitmFindPathTo_core gi g H.path.symm H.symG H.batchG central _ hball hne start
    cases hr : mitmFindPathTo gi g (precomputeBfs gi central me md).hashes start with
    | found p =>
      rw [hr] at this
      simp only at this ⊢
      obtain ⟨h1, h2, h3, h4⟩ := this
      refine ⟨?_, ?_, by rw [List.length_reverse]; exact h3, ?_⟩
      · rw [← h1]; exact applyPath_undo H.path.symm p h4 central
      · intro i hi
        rw [← H.path.nGens]; exact h4 i (List.mem_reverse.1 hi)
      · intro n w
        rw [List.length_reverse]
        rcases Nat.lt_or_ge n p.length with hlt | hge
        · exact absurd ((reach_singleton ..).2 ((walk_inv H.path n start central).2 w)) (h2.2 n hlt)
        · exact hge
    | notFound =>
      rw [hr] at this
      simp only at this ⊢
      rcases this with h1 | h2
      · exact Or.inl fun n hn w => h1 n hn ((walk_inv H.path n start central).2 w)
      · exact Or.inr h2
    | assertFail msg => rw [hr] at this; exact this

/-- whatever `find_path` returns replays from the start state to the central state (both branches) -/
theorem findPath_valid (g gi : Graph α) (invMap : Option (List Nat)) (central start : α)
    (H : FindHyp g gi invMap central) (me md : Option Nat) :
    match findPath g gi invMap central start me md with
    | .found p => applyPath g.act start p = central ∧ ∀ i ∈ p, i < g.nGens
    | .notFound => True
    | .assertFail _ => False := by
  have := findPath_core g gi invMap central start H me md
  cases hr : findPath g gi invMap central start me md with
  | found p => rw [hr] at this; exact ⟨this.1, this.2.1⟩
  | notFound => trivial
  | assertFail msg => rw [hr] at this; exact this

/-- shortest within twice the depth of the internal BFS; `notFound` only when no path of that length exists.
`hexp`: the backward BFS inside `MeetInTheMiddle.find_path_to` runs with the default `max_layer_size_to_explore =
10**12` (in the inverted graph when inverse-closed, in `g` otherwise). -/
theorem findPath_shortest (g gi : Graph α) (invMap : Option (List Nat)) (central start : α)
    (H : FindHyp g gi invMap central) (me md : Option Nat)
    (hexp : ∀ k L, 1 ≤ k →
      k ≤ (if g.invClosed then (precomputeBfs g central me md).hashes
        else (precomputeBfs gi central me md).hashes).length - 1 →
      IsLayer (if g.invClosed then gi else g) [start] k L → L.length < 10^12) :
    let ball := if g.invClosed then (precomputeBfs g central me md).hashes
      else (precomputeBfs gi central me md).hashes
    match findPath g gi invMap central start me md with
    | .found p => (p.length ≤ 2 * (ball.length - 1)) ∧ ∀ n, Walk g.nb n start central → p.length ≤ n
    | .notFound => ∀ n, n ≤ 2 * (ball.length - 1) → ¬ Walk g.nb n start central
    | .assertFail _ => False := by
  intro ball
  have := findPath_core g gi invMap central start H me md
  cases hr : findPath g gi invMap central start me md with
  | found p => rw [hr] at this; exact ⟨this.2.2.1, this.2.2.2⟩
  | assertFail msg => rw [hr] at this; exact this
  | notFound =>
    rw [hr] at this
    rcases this with h1 | ⟨k, L, hk1, hk2, hL, hbig⟩
    · exact h1
    · have := hexp k L hk1 hk2 hL
      exact absurd hbig (by omega)

end Cv
