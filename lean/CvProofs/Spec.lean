/-
  Abstract BFS recurrence = distance classes.  Core Lean only.
-/
import CvModel.Spec
namespace Cv

variable {α : Type}

theorem reach_zero (nb : α → List α) (S x) : Reach nb S 0 x ↔ x ∈ S := by
  constructor
  · rintro ⟨s, hs, w⟩; cases w; exact hs
  · intro h; exact ⟨x, h, .nil x⟩

theorem reach_succ (nb : α → List α) (S) (n x) :
    Reach nb S (n+1) x ↔ ∃ y, Reach nb S n y ∧ x ∈ nb y := by
  constructor
  · rintro ⟨s, hs, w⟩
    cases w with
    | snoc w h => exact ⟨_, ⟨s, hs, w⟩, h⟩
  · rintro ⟨y, ⟨s, hs, w⟩, h⟩
    exact ⟨s, hs, .snoc w h⟩

variable [DecidableEq α]

theorem mem_absStep (nb : α → List α) (seen cur : List α) (x : α) :
    x ∈ absStep nb seen cur ↔ (∃ y ∈ cur, x ∈ nb y) ∧ x ∉ seen := by
  simp [absStep, List.mem_filter, List.mem_eraseDups, List.mem_flatMap]

/-- The recurrence "next layer = neighbours of the current layer minus everything seen" computes the
distance classes, for every graph and every start list. -/
theorem absSt_spec (nb : α → List α) (S : List α) (k : Nat) :
    (∀ x, x ∈ (absSt nb S k).2 ↔ DistLayer nb S k x) ∧
    (∀ x, x ∈ (absSt nb S k).1 ↔ ∃ j, j ≤ k ∧ Reach nb S j x) := by
  induction k with
  | zero =>
    constructor
    · intro x
      simp [absSt, DistLayer, reach_zero, List.mem_eraseDups]
    · intro x
      simp [absSt, reach_zero, List.mem_eraseDups]
  | succ k ih =>
    obtain ⟨ih2, ih1⟩ := ih
    have key : ∀ x, x ∈ absStep nb (absSt nb S k).1 (absSt nb S k).2 ↔ DistLayer nb S (k+1) x := by
      intro x
      rw [mem_absStep]
      constructor
      · rintro ⟨⟨y, hy, hxy⟩, hns⟩
        refine ⟨(reach_succ ..).2 ⟨y, ((ih2 y).1 hy).1, hxy⟩, ?_⟩
        intro j hj hr
        exact hns ((ih1 x).2 ⟨j, by omega, hr⟩)
      · rintro ⟨hr, hmin⟩
        obtain ⟨y, hy, hxy⟩ := (reach_succ ..).1 hr
        refine ⟨⟨y, (ih2 y).2 ⟨hy, ?_⟩, hxy⟩, ?_⟩
        · intro j hj hrj
          exact hmin (j+1) (by omega) ((reach_succ ..).2 ⟨y, hrj, hxy⟩)
        · intro hs
          obtain ⟨j, hj, hrj⟩ := (ih1 x).1 hs
          exact hmin j (by omega) hrj
    constructor
    · intro x; simpa [absSt] using key x
    · intro x
      simp only [absSt, List.mem_append, key, ih1]
      constructor
      · rintro (⟨j, hj, h⟩ | h)
        · exact ⟨j, by omega, h⟩
        · exact ⟨k+1, by omega, h.1⟩
      · rintro ⟨j, hj, h⟩
        by_cases hjk : j ≤ k
        · exact Or.inl ⟨j, hjk, h⟩
        · have : j = k+1 := by omega
          subst this
          by_cases hex : ∃ i, i ≤ k ∧ Reach nb S i x
          · exact Or.inl hex
          · refine Or.inr ⟨h, ?_⟩
            intro i hi hri
            exact hex ⟨i, by omega, hri⟩

end Cv
