/-
  The explicit-graph export evaluated on the 4-cycle `exG` of `CvProofs/BfsExample.lean`: a completed run and a run
  interrupted by the iteration limit (both with `return_all_edges`, `return_all_hashes`,
  `max_layer_size_to_store=None`), and a run with a store limit of 1.  Used by the non-vacuity examples of
  `CvProps/C08.lean`.
-/
import CvProofs.Export
import CvProofs.BfsExample
import CvProofs.Engines
namespace Cv
namespace ExportExample
open BfsExample

/-- everything requested, nothing dropped -/
def cE : BfsCfg Nat := { returnEdges := true, returnHashes := true, maxStore := none }
/-- the same, interrupted by the iteration limit after two expansion steps -/
def cP : BfsCfg Nat := { returnEdges := true, returnHashes := true, maxStore := none, maxDiameter := 2 }
/-- edges and hashes requested, but layers of more than one state are dropped -/
def cS : BfsCfg Nat := { returnEdges := true, returnHashes := true, maxStore := some 1 }

macro "bfs_expandE" : tactic => `(tactic|
  simp [expandSel, expandPlain, expandBatched, Graph.unique, Graph.neighbors, uniqueStates, sortByKey,
    dedupAdj, List.mergeSort, List.MergeSort.Internal.splitInTwo, notSeen, isinSorted, searchsorted,
    exG, st0, cE, cP, cS, List.range_succ, tensorSplit, splitSizes, splitBy, ceilDiv, sortInts])

def stE1 : BfsLoop Nat :=
  { layer1 := [1, 3], layer1H := [1, 3], seen := [[0], [1, 3]], sizes := [1, 2],
    layers := [(0, [0]), (1, [1, 3])], allH := [[0]], eStarts := [[0, 0]], eEnds := [[1, 3]], cb := [],
    completed := false }

def stE2 : BfsLoop Nat :=
  { layer1 := [2], layer1H := [2], seen := [[1, 3], [2]], sizes := [1, 2, 1],
    layers := [(0, [0]), (1, [1, 3]), (2, [2])], allH := [[0], [1, 3]], eStarts := [[0, 0], [1, 3, 1, 3]],
    eEnds := [[1, 3], [2, 0, 0, 2]], cb := [], completed := false }

def stE3 : BfsLoop Nat :=
  { layer1 := [2], layer1H := [2], seen := [[1, 3], [2]], sizes := [1, 2, 1],
    layers := [(0, [0]), (1, [1, 3]), (2, [2])], allH := [[0], [1, 3], [2]],
    eStarts := [[0, 0], [1, 3, 1, 3], [2, 2]], eEnds := [[1, 3], [2, 0, 0, 2], [3, 1]], cb := [],
    completed := true }

theorem run_E : bfsFinal exG cE [0] = stE3 := by
  unfold bfsFinal
  rw [init_eq]
  rw [show cE.maxDiameter = 999997 + 1 + 1 + 1 from rfl]
  rw [step_next exG cE _ 1 st0 [1, 3] [1, 3] (by bfs_expandE) rfl (by decide) rfl]
  rw [show postState exG cE 1 (preState exG cE st0) [1, 3] [1, 3] = stE1 from rfl]
  rw [step_next exG cE _ 2 stE1 [2] [2] (by simp only [stE1]; bfs_expandE) rfl (by decide) rfl]
  rw [show postState exG cE 2 (preState exG cE stE1) [2] [2] = stE2 from rfl]
  rw [step_done exG cE _ 3 stE2 [] (by simp only [stE2]; bfs_expandE)]
  rfl

theorem run_P : bfsFinal exG cP [0] = stE2 := by
  unfold bfsFinal
  rw [init_eq]
  rw [show cP.maxDiameter = 0 + 1 + 1 from rfl]
  rw [step_next exG cP _ 1 st0 [1, 3] [1, 3] (by bfs_expandE) rfl (by decide) rfl]
  rw [show postState exG cP 1 (preState exG cP st0) [1, 3] [1, 3] = stE1 from rfl]
  rw [step_next exG cP _ 2 stE1 [2] [2] (by simp only [stE1]; bfs_expandE) rfl (by decide) rfl]
  rfl

def stS1 : BfsLoop Nat := { stE1 with layers := [(0, [0])] }
def stS2 : BfsLoop Nat := { stE2 with layers := [(0, [0]), (2, [2])] }
def stS3 : BfsLoop Nat := { stE3 with layers := [(0, [0]), (2, [2])] }

theorem run_S : bfsFinal exG cS [0] = stS3 := by
  unfold bfsFinal
  rw [init_eq]
  rw [show cS.maxDiameter = 999997 + 1 + 1 + 1 from rfl]
  rw [step_next exG cS _ 1 st0 [1, 3] [1, 3] (by bfs_expandE) rfl (by decide) rfl]
  rw [show postState exG cS 1 (preState exG cS st0) [1, 3] [1, 3] = stS1 from rfl]
  rw [step_next exG cS _ 2 stS1 [2] [2] (by simp only [stS1, stE1]; bfs_expandE) rfl (by decide) rfl]
  rw [show postState exG cS 2 (preState exG cS stS1) [2] [2] = stS2 from rfl]
  rw [step_done exG cS _ 3 stS2 [] (by simp only [stS2, stE2]; bfs_expandE)]
  rfl

/-! ### the completed run -/

theorem E_completed : (bfs exG cE [0]).completed = true := by rw [bfs_eq_outOf, run_E]; rfl
theorem E_sizes : (bfs exG cE [0]).layerSizes = [1, 2, 1] := by rw [bfs_eq_outOf, run_E]; rfl
theorem E_hashes : (bfs exG cE [0]).hashes = [[0], [1, 3], [2]] := by rw [bfs_eq_outOf, run_E]; rfl
theorem E_edges : (bfs exG cE [0]).edges =
    some [(0, 1), (0, 3), (1, 2), (3, 0), (1, 0), (3, 2), (2, 3), (2, 1)] := by rw [bfs_eq_outOf, run_E]; rfl
theorem E_allStates : allStates (bfs exG cE [0]) = some [0, 1, 3, 2] := by rw [bfs_eq_outOf, run_E]; rfl
theorem E_edgesList : edgesList (bfs exG cE [0]) =
    some [(0, 1), (0, 2), (1, 3), (2, 0), (1, 0), (2, 3), (3, 2), (3, 1)] := by rw [bfs_eq_outOf, run_E]; rfl

/-! ### the interrupted run -/

theorem P_completed : (bfs exG cP [0]).completed = false := by rw [bfs_eq_outOf, run_P]; rfl
theorem P_sizes : (bfs exG cP [0]).layerSizes = [1, 2, 1] := by rw [bfs_eq_outOf, run_P]; rfl
theorem P_allStates : allStates (bfs exG cP [0]) = some [0, 1, 3, 2] := by rw [bfs_eq_outOf, run_P]; rfl
/-- the last four rows are the reversal of the block recorded for layer 1 (rows 3-6) -/
theorem P_edgesList : edgesList (bfs exG cP [0]) =
    some [(0, 1), (0, 2), (1, 3), (2, 0), (1, 0), (2, 3), (3, 1), (0, 2), (0, 1), (3, 2)] := by
  rw [bfs_eq_outOf, run_P]; rfl

/-! ### the run with a store limit -/

theorem S_completed : (bfs exG cS [0]).completed = true := by rw [bfs_eq_outOf, run_S]; rfl
theorem S_sizes : (bfs exG cS [0]).layerSizes = [1, 2, 1] := by rw [bfs_eq_outOf, run_S]; rfl
theorem S_layers : (bfs exG cS [0]).layers = [(0, [0]), (2, [2])] := by rw [bfs_eq_outOf, run_S]; rfl
theorem S_allStates : allStates (bfs exG cS [0]) = none := by rw [bfs_eq_outOf, run_S]; rfl


/-! ### a graph with a layer of more than `10^15` states: `all_states` fails although `max_layer_size_to_store = None`

`0 → {1, …, N} → N+1` with `N = 10^15 + 1` generators (`act i 0 = i + 1`, `act i x = N + 1` otherwise).  Nothing is
evaluated: the run is analysed through the theorems of `CvProofs/Bfs.lean`. -/

def bigN : Nat := 10^15 + 1

def exBig : Graph Nat :=
  { nGens := bigN, act := fun i x => if x = 0 then i + 1 else bigN + 1, hash := fun x => (x : Int),
    invClosed := false, batchSize := 1 }

theorem exBig_hyp : BfsHyp exBig [0] :=
  ⟨fun x y _ _ hxy => Int.ofNat.inj hxy, fun h => (by cases h), Nat.zero_lt_one⟩

theorem exBig_nb : exBig.nb = nbOf bigN exBig.act := rfl

theorem big_class1 (m : Nat) (h1 : 1 ≤ m) (h2 : m ≤ bigN) : DistLayer exBig.nb [0] 1 m := by
  rw [exBig_nb, distLayer_one]
  refine ⟨⟨m - 1, by omega, ?_⟩, by omega⟩
  simp only [exBig, if_true]; omega

theorem big_class2 : DistLayer exBig.nb [0] 2 (bigN + 1) := by
  have hpos : 0 < bigN := Nat.succ_pos _
  have hnb0 : ∀ y, y ∈ exBig.nb 0 → y ≤ bigN := by
    intro y hy
    rw [exBig_nb] at hy
    obtain ⟨i, hi, rfl⟩ := (mem_nbOf ..).1 hy
    simp only [exBig, if_true]; omega
  refine ⟨?_, ?_⟩
  · apply (reach_succ ..).2
    refine ⟨1, (big_class1 1 (Nat.le_refl _) hpos).1, ?_⟩
    rw [exBig_nb]
    exact (mem_nbOf ..).2 ⟨0, hpos, by simp [exBig]⟩
  · intro j hj hr
    have : j = 0 ∨ j = 1 := by omega
    rcases this with rfl | rfl
    · have := (reach_zero ..).1 hr
      simp at this
    · obtain ⟨y, hy, hxy⟩ := (reach_succ ..).1 hr
      have hy0 := (reach_zero ..).1 hy
      simp only [List.mem_singleton] at hy0
      subst hy0
      have := hnb0 _ hxy
      omega

/-- with edges and hashes requested and `max_layer_size_to_store = None`, whatever made the run stop: at least one
expansion step was made and `all_states` fails -/
theorem big_allStates_none :
    2 ≤ (bfs exBig cE [0]).layerSizes.length ∧ allStates (bfs exBig cE [0]) = none := by
  have hyp := exBig_hyp
  have hc0 : DistLayer exBig.nb [0] 0 0 := distLayer_zero.2 (by simp)
  have hc1 : DistLayer exBig.nb [0] 1 1 := big_class1 1 (Nat.le_refl _) (Nat.succ_pos _)
  -- at least two layers
  have hlen2 : 2 ≤ (bfs exBig cE [0]).layerSizes.length := by
    cases hcomp : (bfs exBig cE [0]).completed with
    | true =>
      have hemp := BfsThm.completed_sound hyp cE hcomp
      apply Classical.byContradiction; intro hlt
      have : (bfs exBig cE [0]).layerSizes.length = 0 ∨ (bfs exBig cE [0]).layerSizes.length = 1 := by omega
      rcases this with e | e
      · rw [e] at hemp; exact hemp 0 hc0
      · rw [e] at hemp; exact hemp 1 hc1
    | false =>
      rcases BfsThm.stopped_by_rule hyp cE hcomp with h1 | ⟨n, -, -, h2⟩ | ⟨f, L, hf, -⟩
      · rw [h1]; show 2 ≤ 1000000 + 1; omega
      · exact h2
      · cases hf
  refine ⟨hlen2, ?_⟩
  obtain ⟨L, hL, hsz⟩ := BfsThm.sizes_prefix hyp cE 1 (by omega)
  -- layer 1 has more than `10^15` states
  have hbig : bigN ≤ L.length := by
    have hsub : List.range' 1 bigN ⊆ L := by
      intro m hm
      rw [List.mem_range'_1] at hm
      exact (hL.2 m).2 (big_class1 m hm.1 (by omega))
    have := List.Nodup.length_le_of_subset (List.nodup_range' (s := 1) (n := bigN)) hsub
    rwa [List.length_range'] at this
  apply allStates_none_of_big exBig [0] hyp cE 1 L.length (by omega) hsz
  · show 10^15 < L.length
    have : 10^15 < bigN := Nat.lt_succ_self _
    omega
  · intro hcomp
    have hemp := BfsThm.completed_sound hyp cE hcomp
    apply Classical.byContradiction; intro hlt
    have e : (bfs exBig cE [0]).layerSizes.length = 2 := by omega
    rw [e] at hemp
    exact hemp _ big_class2

end ExportExample
end Cv
